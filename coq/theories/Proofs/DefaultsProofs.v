(* Proofs/DefaultsProofs.v -- lemmas about Algo/Defaults.v and Algo/Value.v (property C06). *)
From Coq Require Import String ZArith NArith QArith List Bool Lia.
From Typify Require Import Base.Json IR.TypeIR Algo.Defaults Algo.Value.
Import ListNotations.
Close Scope Q_scope.
Open Scope N_scope.

Local Opaque is_nonzero_name.

(* ------------------------------------------------------------------ combinators *)
Lemma rbind_ok : forall A B (r : res A) (f : A -> res B) b,
  rbind r f = ROk b -> exists a, r = ROk a /\ f a = ROk b.
Proof. intros A B r f b H. destruct r; cbn in H; try discriminate. eauto. Qed.

Lemma rbind_err : forall A B (r : res A) (f : A -> res B),
  rbind r f = RErr -> r = RErr \/ exists a, r = ROk a /\ f a = RErr.
Proof. intros A B r f H. destruct r; cbn in H; try discriminate; eauto. Qed.

Lemma of_opt_ok : forall A (o : option A) a, of_opt o = ROk a -> o = Some a.
Proof. intros A o a H. destruct o; cbn in H; congruence. Qed.

Lemma optional_not_err : forall A (r : res A), optional r <> RErr.
Proof. intros A r. destruct r; cbn; discriminate. Qed.

Lemma each_ok_in : forall A B (f : A -> res B) l,
  each f l = ROk tt -> forall x, In x l -> exists b, f x = ROk b.
Proof.
  intros A B f l. induction l as [|y l IH]; intros H x Hin; [destruct Hin|].
  cbn in H. apply rbind_ok in H. destruct H as [b [Hy Hr]].
  destruct Hin as [->|Hin]; eauto.
Qed.

Lemma all_is_ok_true_in : forall A B (f : A -> res B) l,
  all_is_ok f l = ROk true -> forall x, In x l -> exists b, f x = ROk b.
Proof.
  intros A B f l. induction l as [|y l IH]; intros H x Hin; [destruct Hin|].
  cbn in H. destruct (f y) eqn:Ey; try discriminate.
  destruct Hin as [->|Hin]; eauto.
Qed.

Lemma map_r_err : forall A B (g : A -> res B) l,
  map_r g l = RErr -> exists x, In x l /\ g x = RErr.
Proof.
  intros A B g l. induction l as [|y l IH]; intros H; cbn in H; [discriminate|].
  apply rbind_err in H. destruct H as [H|[a [Ha H]]].
  - exists y. split; [now left|exact H].
  - apply rbind_err in H. destruct H as [H|[b [Hb H]]]; [|discriminate].
    destruct (IH H) as [x [Hin Hx]]. exists x. split; [now right|exact Hx].
Qed.

Lemma filter_map_r_not_err : forall A B (f : A -> res (option B)) l,
  (forall x, f x <> RErr) -> filter_map_r f l <> RErr.
Proof.
  intros A B f l Hf. induction l as [|y l IH]; cbn; [discriminate|].
  intro H. apply rbind_err in H. destruct H as [H|[a [Ha H]]]; [exact (Hf y H)|].
  apply rbind_err in H. destruct H as [H|[b [Hb H]]]; [exact (IH H)|discriminate].
Qed.

Lemma find_map_ok : forall A B (g : A -> res B) l b,
  find_map_r g l = ROk b -> exists x, In x l /\ g x = ROk b.
Proof.
  intros A B g l b. induction l as [|y l IH]; intros H; cbn in H; [discriminate|].
  destruct (g y) eqn:Ey; try discriminate.
  - exists y. split; [now left|congruence].
  - destruct (IH H) as [x [Hin Hx]]. exists x. split; [now right|exact Hx].
Qed.

Lemma find_map_err : forall A B (h : A -> res B) l,
  find_map_r h l = RErr -> forall x, In x l -> h x = RErr.
Proof.
  intros A B h l. induction l as [|y l IH]; intros H x Hin; [destruct Hin|].
  cbn in H. destruct (h y) eqn:Ey; try discriminate.
  destruct Hin as [->|Hin]; [exact Ey|exact (IH H x Hin)].
Qed.

Lemma v_set_elems_in : forall (rec : id -> json -> res kind) t l,
  v_set_elems rec t l = ROk tt -> forall x, In x l -> exists b, rec t x = ROk b.
Proof.
  intros rec t l. induction l as [|y l IH]; intros H x Hin; [destruct Hin|].
  cbn in H. destruct (existsb (json_eqb y) l); [discriminate|].
  apply rbind_ok in H. destruct H as [b [Hy Hr]].
  destruct Hin as [->|Hin]; eauto.
Qed.

Lemma not_number_none : forall v, is_number v = false -> as_u64 v = None /\ as_i64 v = None.
Proof. intros v H. destruct v; try discriminate H; split; reflexivity. Qed.

(* ------------------------------------------------------------------ one level *)
Section Step.
  Variable re : ustring -> ustring -> bool.
  Variable T : space.
  Variable vrec : id -> json -> res kind.
  Variable aprops : prop -> res (list pinfo).
  Variable orec : id -> json -> res expr.
  Variable filling : list fkey.
  Variable recfill : fkey -> id -> json -> res expr.
  Variable self : id.
  Hypothesis IH : forall t v k, vrec t v = ROk k -> orec t v <> RErr.

  Lemma tuple_step : forall ts v k, v_tuple vrec ts v = ROk k -> o_tuple orec ts v <> RErr.
  Proof.
    intros ts v k H. unfold v_tuple in H. unfold o_tuple.
    apply rbind_ok in H. destruct H as [arr [Ha H]]. rewrite Ha. cbn.
    destruct (negb (Nat.eqb (length arr) (length ts))); [discriminate|].
    apply rbind_ok in H. destruct H as [b [Hb H]]. destruct b; [|discriminate].
    intro E. apply map_r_err in E. destruct E as [[t x] [Hin Hx]].
    destruct (all_is_ok_true_in _ _ _ _ Hb (t, x) Hin) as [k' Hk].
    exact (IH _ _ _ Hk Hx).
  Qed.

  Lemma struct_step : forall vid ps v k, v_struct_props vrec aprops ps v = ROk k -> o_struct_props T orec filling recfill self vid ps v <> RErr.
  Proof.
    intros vid ps v k H. unfold v_struct_props in H. unfold o_struct_props.
    apply rbind_ok in H. destruct H as [m [Hm _]]. rewrite Hm. cbn.
    intro E. apply rbind_err in E. destruct E as [E|[direct [_ E]]].
    - revert E. apply filter_map_r_not_err. intros p.
      destruct (wire_name p); [|discriminate].
      destruct (assoc u m); [|destruct (p_state p); try discriminate;
                               destruct (in_filling (self, vid, p_name p) filling); try discriminate];
        (intro E; apply rbind_err in E; destruct E as [E|[oe [_ E]]]; [exact (optional_not_err _ _ E)|discriminate]).
    - apply rbind_err in E. destruct E as [E|[fl [_ E]]]; [|discriminate].
      revert E. apply filter_map_r_not_err. intros p.
      destruct (p_rename p); try discriminate.
      destruct (get_det T (p_ty p)) as [d|]; [|discriminate].
      destruct d; try discriminate;
        (intro E; apply rbind_err in E; destruct E as [E|[oe [_ E]]]; [exact (optional_not_err _ _ E)|discriminate]).
  Qed.

  Lemma var_ident_not_err : forall var, var_ident var <> RErr.
  Proof. intros var. unfold var_ident. destruct (v_ident var); discriminate. Qed.

  Ltac bind_ident E :=
    apply rbind_err in E; destruct E as [E|[?i [_ E]]]; [exact (var_ident_not_err _ E)|].

  Lemma payload_struct_not_err : forall name i ps c k,
    v_struct_props vrec aprops ps c = ROk k ->
    rbind (o_struct_props T orec filling recfill self i ps c) (fun fs => ROk (EVarStruct name i fs)) <> RErr.
  Proof.
    intros name i ps c k H E. apply rbind_err in E. destruct E as [E|[fs [_ E]]]; [|discriminate].
    exact (struct_step _ _ _ _ H E).
  Qed.

  Lemma payload_tuple_not_err : forall name i ts c k,
    v_tuple vrec ts c = ROk k ->
    rbind (o_tuple orec ts c) (fun es => ROk (EVarTuple name i (variant_tuple es))) <> RErr.
  Proof.
    intros name i ts c k H E. apply rbind_err in E. destruct E as [E|[fs [_ E]]]; [|discriminate].
    exact (tuple_step _ _ _ H E).
  Qed.

  Lemma external_step : forall name vs v k, v_external vrec aprops vs v = ROk k -> o_external T orec filling recfill self name vs v <> RErr.
  Proof.
    intros name vs v k H. unfold v_external in H. unfold o_external.
    destruct v; cbn in H; try discriminate.
    - (* JStr *)
      apply rbind_ok in H. destruct H as [var [Hv H]]. rewrite Hv. cbn.
      destruct (v_det var); try discriminate.
      intro E. bind_ident E. discriminate.
    - (* JObj *)
      cbn. destruct kvs as [|[n x] [|? ?]]; try discriminate.
      apply rbind_ok in H. destruct H as [var [Hv H]]. rewrite Hv. cbn.
      intro E. bind_ident E.
      unfold v_variant_payload in H.
      destruct (v_det var); try discriminate.
      + apply rbind_err in E. destruct E as [E|[oe [_ E]]]; [exact (optional_not_err _ _ E)|discriminate].
      + exact (payload_tuple_not_err _ _ _ _ _ H E).
      + exact (payload_struct_not_err _ _ _ _ _ H E).
  Qed.

  Lemma internal_step : forall name vs tg v k, v_internal vrec aprops vs tg v = ROk k -> o_internal T orec filling recfill self name vs tg v <> RErr.
  Proof.
    intros name vs tg v k H. unfold v_internal in H. unfold o_internal.
    apply rbind_ok in H. destruct H as [m [Hm H]]. rewrite Hm. cbn.
    apply rbind_ok in H. destruct H as [tv [Ht H]]. rewrite Ht. cbn.
    apply rbind_ok in H. destruct H as [sn [Hs H]]. rewrite Hs. cbn.
    apply rbind_ok in H. destruct H as [var [Hv H]]. rewrite Hv. cbn.
    intro E. bind_ident E.
    destruct (v_det var); try discriminate.
    exact (payload_struct_not_err _ _ _ _ _ H E).
  Qed.

  Lemma adjacent_step : forall name vs tg c v k,
    v_adjacent vrec aprops vs tg c v = ROk k -> o_adjacent T orec filling recfill self name vs tg c v <> RErr.
  Proof.
    intros name vs tg c v k H. unfold v_adjacent in H. unfold o_adjacent.
    apply rbind_ok in H. destruct H as [m [Hm H]]. rewrite Hm. cbn.
    apply rbind_ok in H. destruct H as [[tv cv] [Ht H]]. rewrite Ht. cbn.
    apply rbind_ok in H. destruct H as [var [Hv H]]. rewrite Hv. cbn.
    intro E. bind_ident E.
    destruct (v_det var); destruct cv; try discriminate.
    - exact (payload_tuple_not_err _ _ _ _ _ H E).
    - exact (payload_struct_not_err _ _ _ _ _ H E).
  Qed.

  Lemma untagged_step : forall name vs v k, v_untagged vrec aprops vs v = ROk k -> o_untagged T orec filling recfill self name vs v <> RErr.
  Proof.
    intros name vs v k H. unfold v_untagged in H. unfold o_untagged.
    apply find_map_ok in H. destruct H as [var [Hin H]].
    intro E. pose proof (find_map_err _ _ _ _ E var Hin) as Ev. cbn beta in Ev.
    bind_ident Ev.
    destruct (v_det var).
    - destruct v; discriminate.
    - apply rbind_err in Ev. destruct Ev as [Ev|[e [_ Ev]]]; [exact (IH _ _ _ H Ev)|discriminate].
    - exact (payload_tuple_not_err _ _ _ _ _ H Ev).
    - exact (payload_struct_not_err _ _ _ _ _ H Ev).
  Qed.

  Lemma det_step : forall d v k,
    validate_det re T vrec aprops d v = ROk k -> output_det T orec filling recfill self d v <> RErr.
  Proof.
    intros d v k H. destruct d; cbn [validate_det] in H; cbn [output_det].
    - (* enum *) destruct tag.
      + exact (external_step _ _ _ _ H).
      + exact (internal_step _ _ _ _ _ H).
      + exact (adjacent_step _ _ _ _ _ _ H).
      + exact (untagged_step _ _ _ _ H).
    - (* struct *) intro E. apply rbind_err in E. destruct E as [E|[fs [_ E]]]; [|discriminate].
      exact (struct_step _ _ _ _ H E).
    - (* newtype *) intro E. apply rbind_err in E. destruct E as [E|[oe [_ E]]]; [exact (optional_not_err _ _ E)|discriminate].
    - (* native *) discriminate.
    - (* option *) destruct v; try discriminate;
        (apply rbind_ok in H; destruct H as [k' [Hk _]]; intro E; apply rbind_err in E;
         destruct E as [E|[e [_ E]]]; [exact (IH _ _ _ Hk E)|discriminate]).
    - (* box *) intro E. apply rbind_err in E. destruct E as [E|[e [_ E]]]; [exact (IH _ _ _ H E)|discriminate].
    - (* vec *) destruct v; try discriminate. cbn.
      destruct (get_det T t); [|discriminate].
      intro E. apply rbind_err in E. destruct E as [E|[es [_ E]]]; [|discriminate].
      apply map_r_err in E. destruct E as [x [Hin Hx]].
      destruct l as [|y l]; [destruct Hin|].
      apply rbind_ok in H. destruct H as [u [Hu _]]. destruct u.
      destruct (each_ok_in _ _ _ _ Hu x Hin) as [k' Hk]. exact (IH _ _ _ Hk Hx).
    - (* map *) destruct v; try discriminate. cbn.
      destruct (get_det T k0); [|discriminate]. destruct (get_det T v0); [|discriminate].
      intro E. apply rbind_err in E. destruct E as [E|[es [_ E]]]; [|discriminate].
      apply map_r_err in E. destruct E as [[key x] [Hin Hx]].
      destruct kvs as [|y kvs]; [destruct Hin|].
      apply rbind_ok in H. destruct H as [u [Hu _]]. destruct u.
      destruct (each_ok_in _ _ _ _ Hu (key, x) Hin) as [k' Hk]. cbn beta iota in Hk.
      apply rbind_ok in Hk. destruct Hk as [k1 [Hk1 Hk2]].
      apply rbind_err in Hx. destruct Hx as [Hx|[a [_ Hx]]]; [exact (IH _ _ _ Hk1 Hx)|].
      apply rbind_err in Hx. destruct Hx as [Hx|[b [_ Hx]]]; [exact (IH _ _ _ Hk2 Hx)|discriminate].
    - (* set *) destruct v; try discriminate. cbn.
      destruct (get_det T t) eqn:Eg; [|discriminate].
      intro E. apply rbind_err in E. destruct E as [E|[es [_ E]]]; [|discriminate].
      apply map_r_err in E. destruct E as [x [Hin Hx]].
      destruct l as [|y l]; [destruct Hin|].
      apply rbind_ok in H. destruct H as [u [Hu _]]. destruct u.
      destruct (v_set_elems_in _ _ _ Hu x Hin) as [k' Hk]. exact (IH _ _ _ Hk Hx).
    - (* array *) destruct v; try discriminate. cbn.
      destruct (negb (N.of_nat (length l) =? n)); [discriminate|].
      destruct (get_det T t); [|discriminate].
      intro E. apply rbind_err in E. destruct E as [E|[es [_ E]]]; [|discriminate].
      apply map_r_err in E. destruct E as [x [Hin Hx]].
      apply rbind_ok in H. destruct H as [u [Hu _]]. destruct u.
      destruct (each_ok_in _ _ _ _ Hu x Hin) as [k' Hk]. exact (IH _ _ _ Hk Hx).
    - (* tuple *) intro E. apply rbind_err in E. destruct E as [E|[es [_ E]]]; [|discriminate].
      exact (tuple_step _ _ _ H E).
    - (* unit *) destruct v; try discriminate H; discriminate.
    - (* boolean *) destruct v; try discriminate H; discriminate.
    - (* integer *) destruct (is_number v) eqn:En.
      + cbn. destruct (is_nonzero_name name); discriminate.
      + exfalso. destruct (not_number_none v En) as [A B]. rewrite A, B in H.
        destruct (negb (integer_fits name v)); discriminate H.
    - (* float *) revert H. destruct (is_number v); intro H; [|discriminate H]. cbn.
      destruct (is_nonzero_name name); discriminate.
    - (* string *) destruct v; try discriminate H; discriminate.
    - (* json *) discriminate.
    - (* reference *) discriminate.
  Qed.
End Step.

(* successful validation never lets output_value return None (the value to_stream() unwraps), whatever member
   defaults are being rendered (FILLING stack) *)
Lemma validate_implies_output_fill : forall re T f filling t v k,
  validate_value re T f t v = ROk k -> output_fill T f filling t v <> RErr.
Proof.
  intros re T f. induction f as [|n IHn]; intros filling t v k H; cbn in H; [discriminate|].
  cbn. destruct (get_det T t) as [d|]; [|discriminate].
  eapply det_step; [|exact H].
  intros t' v' k' Hk. exact (IHn filling t' v' k' Hk).
Qed.

Lemma validate_implies_output : forall re T f t v k,
  validate_value re T f t v = ROk k -> output_value T f t v <> RErr.
Proof. intros. unfold output_value. eapply validate_implies_output_fill; eauto. Qed.

(* ------------------------------------------------------------------ repaired checks *)
(* fix 9117497: a validated newtype default satisfies the newtype's constraints *)
Lemma newtype_default_checked : forall re T f t name def inner c d k,
  get_det T t = Some (DNewtype name def inner c) ->
  validate_value re T (S f) t d = ROk k -> constraint_ok re c d = true.
Proof.
  intros re T f t name def inner c d k Hg H. cbn [validate_value] in H. rewrite Hg in H. cbn [validate_det] in H.
  apply rbind_ok in H. destruct H as [k' [_ H]]. destruct (constraint_ok re c d); [reflexivity|discriminate H].
Qed.

(* fix 07af100: a validated integer default fits the Rust integer type (and is non-zero for NonZero) *)
Lemma integer_default_fits : forall re T f t name d k,
  get_det T t = Some (DInteger name) ->
  validate_value re T (S f) t d = ROk k ->
  integer_fits name d = true /\ exists z, d = JInt z.
Proof.
  intros re T f t name d k Hg H. cbn [validate_value] in H. rewrite Hg in H. cbn [validate_det] in H.
  destruct (integer_fits name d); [|discriminate H]. split; [reflexivity|].
  cbn [negb] in H. destruct d; cbn in H; try discriminate H. eauto.
Qed.

(* fix 9891d21: a validated string default is a JSON string *)
Lemma string_default_is_string : forall re T f t d k,
  get_det T t = Some DString -> validate_value re T (S f) t d = ROk k -> exists s, d = JStr s.
Proof.
  intros re T f t d k Hg H. cbn [validate_value] in H. rewrite Hg in H. cbn [validate_det] in H.
  destruct d; try discriminate H. eauto.
Qed.

(* fix cd15928: a unit-typed property with default null is Optional, so default_fn (unreachable!() on Unit) is never asked *)
Lemma unit_null_optional : has_default (Some DUnit) (Some JNull) = POptional.
Proof. reflexivity. Qed.

(* ------------------------------------------------------------------ regression examples (former witnesses) *)
Definition ent (d : details) : entry := mkEntry d [].
Definition mk_space (es : list (id * entry)) : space :=
  mkSpace es 100 (mkSettings None [] false []) false false false false [].
Definition u (s : string) : ustring := ustr_of_string s.
Definition Tw : space := mk_space [
  (1, ent DString);
  (2, ent (DInteger (u "i64")));
  (3, ent (DTuple [2]));
  (4, ent DUnit);
  (5, ent (DInteger (u "u8")));
  (6, ent (DVec 5));
  (7, ent (DNewtype (u "S3") None 1 (CString (Some 3) None None)));
  (8, ent (DInteger (u "::std::num::NonZeroU32")));
  (9, ent (DMap 1 1));
  (10, ent (DStruct (u "W") None [mkProp (u "k") TypeIR.RNone PRequired 2; mkProp (u "extra") RFlatten PRequired 9] false));
  (11, ent (DNewtype (u "IEnum") None 2 (CEnum [JInt 1; JInt 2])));
  (12, ent (DEnum (u "E") None TagExternal [mkVariant (u "U") (u "U") VSimple; mkVariant (u "V") (u "V") (VTuple [2])]
                  false []))
]%N.
Definition re0 (p s : ustring) : bool := false.

Lemma regression_examples :
  validate_value re0 Tw 3 1 (JInt 5) = RErr /\                                   (* F1 *)
  validate_value re0 Tw 3 6 (JArr [JInt 300]) = RErr /\                          (* F5 *)
  validate_value re0 Tw 3 7 (JStr (u "toolong")) = RErr /\                       (* F3 *)
  validate_value re0 Tw 3 11 (JInt 7) = RErr /\                                  (* F3 *)
  validate_value re0 Tw 3 8 (JInt 0) = RErr /\                                   (* F6 *)
  (exists e, output_value Tw 3 3 (JArr [JInt 3]) = ROk e /\ expr_typed Tw 3 e 3 = true) /\          (* F2 *)
  (exists e, output_value Tw 4 10 (JObj [(u "k", JInt 1)]) = ROk e /\ expr_typed Tw 4 e 10 = true). (* F8 *)
Proof.
  repeat split; try (vm_compute; reflexivity).
  - eexists. split; vm_compute; reflexivity.
  - eexists. split; vm_compute; reflexivity.
Qed.

(* fix 15ce314 (ex finding C06-F13): a default selecting a variant whose payload is a one-element tuple is rendered
   `E::V((3_i64,))` for the variant declared `V((i64,))`: typed, and denotes the schema default *)
Lemma tuple1_variant_example :
  exists e, output_value Tw 3 12 (JObj [(u "V", JArr [JInt 3])]) = ROk e /\ expr_typed Tw 3 e 12 = true /\
            eval_expr Tw e = Some (JObj [(u "V", JArr [JInt 3])]).
Proof. eexists. repeat split; vm_compute; reflexivity. Qed.

(* ------------------------------------------------------------------ invalid shapes are rejected *)
Lemma invalid_rejected_scalar : forall re T f t det d,
  get_det T t = Some det -> shape_mismatch det d = true -> validate_value re T (S f) t d = RErr.
Proof.
  intros re T f t det d Hg Hs. cbn [validate_value]. rewrite Hg.
  destruct det; cbn [shape_mismatch] in Hs; try discriminate Hs; cbn [validate_det].
  - (* struct *) destruct d; try discriminate Hs; reflexivity.
  - (* vec *) destruct d; try discriminate Hs; reflexivity.
  - (* map *) destruct d; try discriminate Hs; reflexivity.
  - (* set *) destruct d; try discriminate Hs; reflexivity.
  - (* array *) destruct d; try discriminate Hs; try reflexivity. rewrite Hs. reflexivity.
  - (* tuple *) unfold v_tuple. destruct d; try discriminate Hs; try reflexivity. cbn. rewrite Hs. reflexivity.
  - (* unit *) destruct d; try discriminate Hs; reflexivity.
  - (* boolean *) destruct d; try discriminate Hs; reflexivity.
  - (* integer *) destruct (as_u64 d); [discriminate Hs|]. destruct (as_i64 d); [discriminate Hs|].
    destruct (negb (integer_fits name d)); reflexivity.
  - (* float *) destruct (is_number d); [discriminate Hs|]. reflexivity.
Qed.

(* ------------------------------------------------------------------ integer literals of the known Rust types *)
Definition known_int_names : list ustring :=
  map ustr_of_string ["u8"; "u16"; "u32"; "u64"; "i8"; "i16"; "i32"; "i64";
                      "::std::num::NonZeroU8"; "::std::num::NonZeroU16"; "::std::num::NonZeroU32";
                      "::std::num::NonZeroU64"]%string.
Definition known_int (n : ustring) : bool := existsb (ustr_eqb n) known_int_names.

Lemma ustr_eqb_refl : forall s, ustr_eqb s s = true.
Proof. induction s as [|c s IH]; cbn; [reflexivity|]. rewrite N.eqb_refl. exact IH. Qed.

Lemma ustr_eqb_eq : forall a b, ustr_eqb a b = true -> a = b.
Proof.
  induction a as [|x a IH]; destruct b as [|y b]; cbn; intro H; try discriminate H; [reflexivity|].
  apply andb_true_iff in H. destruct H as [H1 H2]. apply N.eqb_eq in H1. subst. f_equal. exact (IH _ H2).
Qed.

Definition int_lit_ok (n : ustring) (z : Z) : bool :=
  if is_nonzero_name n then nz_arg_ok n (JInt z) && negb (Z.eqb z 0) else lit_in_range n (JInt z).

Local Transparent is_nonzero_name.
Lemma known_int_lit : forall n, In n known_int_names -> forall z,
  (as_u64 (JInt z) <> None \/ as_i64 (JInt z) <> None) -> integer_fits n (JInt z) = true -> int_lit_ok n z = true.
Proof.
  intros n Hin. cbn [known_int_names map] in Hin.
  repeat (destruct Hin as [<-|Hin]; [
    intros z Hs Hf; unfold integer_fits in Hf; unfold int_lit_ok, lit_in_range, nz_arg_ok;
    match type of Hf with context [int_table ?a] =>
      let r := eval vm_compute in (int_table a) in change (int_table a) with r in Hf end;
    match type of Hf with context [is_nonzero_name ?a] =>
      let r := eval vm_compute in (is_nonzero_name a) in change (is_nonzero_name a) with r in Hf end;
    match goal with |- context [is_nonzero_name ?a] =>
      let r := eval vm_compute in (is_nonzero_name a) in change (is_nonzero_name a) with r end;
    match goal with |- context [int_range_u ?a] =>
      let r := eval vm_compute in (int_range_u a) in change (int_range_u a) with r end;
    cbv beta iota in Hf |- *;
    unfold as_u64, as_i64 in Hf, Hs;
    destruct ((0 <=? z) && (z <? 18446744073709551616))%Z;
    destruct ((-9223372036854775808 <=? z) && (z <? 9223372036854775808))%Z;
    cbn [andb negb] in Hf |- *;
    try (destruct Hs as [Hs|Hs]; exfalso; apply Hs; reflexivity);
    try exact Hf;
    try (rewrite andb_true_r in Hf; exact Hf)
  |]).
  destruct Hin.
Qed.
Local Opaque is_nonzero_name.

Section Typed.
  Variable T : space.
  Variable g : nat.

  Lemma typed_vec : forall t x es, get_det T t = Some (DVec x) ->
    Forall (fun e => expr_typed T g e x = true) es -> expr_typed T g (EVec es) t = true.
  Proof.
    intros t x es Hg H. cbn [expr_typed]. rewrite Hg. induction H as [|e es He _ IH]; [reflexivity|].
    cbn. rewrite He. exact IH.
  Qed.

  Lemma typed_set : forall t x es, get_det T t = Some (DSet x) ->
    Forall (fun e => expr_typed T g e x = true) es -> expr_typed T g (EVec es) t = true.
  Proof.
    intros t x es Hg H. cbn [expr_typed]. rewrite Hg. induction H as [|e es He _ IH]; [reflexivity|].
    cbn. rewrite He. exact IH.
  Qed.

  Lemma typed_array : forall t x n es, get_det T t = Some (DArray x n) -> N.of_nat (length es) = n ->
    Forall (fun e => expr_typed T g e x = true) es -> expr_typed T g (EArray es) t = true.
  Proof.
    intros t x n es Hg Hl H. cbn [expr_typed]. rewrite Hg. rewrite Hl, N.eqb_refl. cbn [andb].
    clear Hl. induction H as [|e es He _ IH]; [reflexivity|]. cbn. rewrite He. exact IH.
  Qed.

  Lemma typed_tuple : forall t ts es, get_det T t = Some (DTuple ts) ->
    Forall2 (fun x e => expr_typed T g e x = true) ts es -> expr_typed T g (ETuple es) t = true.
  Proof.
    intros t ts es Hg H. cbn [expr_typed]. rewrite Hg. clear Hg. induction H as [|x e ts es He _ IH]; [reflexivity|].
    cbn. rewrite He. cbn [andb]. exact IH.
  Qed.
End Typed.

Lemma map_r_forall : forall A B (P : B -> Prop) (orec : A -> res B) l,
  (forall x, In x l -> exists e, orec x = ROk e /\ P e) ->
  exists es, map_r orec l = ROk es /\ Forall P es /\ length es = length l.
Proof.
  intros A B P orec l. induction l as [|y l IH]; intros H.
  - exists []. repeat split. constructor.
  - destruct (H y (or_introl eq_refl)) as [e [He Pe]].
    destruct (IH (fun x Hx => H x (or_intror Hx))) as [es [Hes [Pes Hl]]].
    exists (e :: es). cbn. rewrite He. cbn. rewrite Hes. cbn. repeat split; [constructor; assumption|congruence].
Qed.

Lemma map_r_forall2 : forall (P : id -> expr -> Prop) (orec : id -> json -> res expr) ts arr,
  length arr = length ts ->
  (forall p, In p (combine ts arr) -> exists e, orec (fst p) (snd p) = ROk e /\ P (fst p) e) ->
  exists es, map_r (fun '(t, x) => orec t x) (combine ts arr) = ROk es /\ Forall2 P ts es.
Proof.
  intros P orec ts. induction ts as [|t ts IH]; intros arr Hl H.
  - destruct arr; [|discriminate Hl]. exists []. split; [reflexivity|constructor].
  - destruct arr as [|x arr]; [discriminate Hl|]. cbn in Hl. injection Hl as Hl.
    destruct (H (t, x) (or_introl eq_refl)) as [e [He Pe]]. cbn in He, Pe.
    destruct (IH arr Hl (fun p Hp => H p (or_intror Hp))) as [es [Hes Pes]].
    exists (e :: es). cbn. rewrite He. cbn. rewrite Hes. cbn. split; [reflexivity|constructor; assumption].
Qed.

Lemma in_combine_forallb : forall (f : id -> bool) ts (arr : list json) p,
  forallb f ts = true -> In p (combine ts arr) -> f (fst p) = true.
Proof.
  intros f ts arr p Hf Hin. destruct p as [t x]. apply in_combine_l in Hin.
  rewrite forallb_forall in Hf. exact (Hf t Hin).
Qed.

(* ================================================================== typing, all kinds but untagged enums *)
Fixpoint distinct (l : list ustring) : bool :=
  match l with [] => true | x :: r => negb (mem_ustr x r) && distinct r end.

Definition is_flatten (p : prop) : bool := match p_rename p with RFlatten => true | _ => false end.
Definition wire_names (ps : list prop) : list ustring :=
  flat_map (fun p => match wire_name p with Some n => [n] | None => [] end) ps.

(* a member the typing theorem covers: a direct member whose type is in the fragment and which, when absent from the
   value, can be rendered: Optional members need a Default-implementing type (`Default::default()`), members with
   their own default need that default to have been validated ([dok], what check_defaults establishes at
   finalisation); or ONE flattened map with String keys *)
Definition prop_simple (T : space) (g : nat) (dok : id -> json -> bool) (fr : id -> bool) (p : prop) : bool :=
  match p_rename p with
  | RFlatten =>
      match get_det T (p_ty p) with
      | Some (DMap k _) => match get_det T k with Some DString => fr (p_ty p) | _ => false end
      | _ => false
      end
  | _ => fr (p_ty p) &&
         match p_state p with
         | PRequired => true
         | POptional => defaultable T g (p_ty p)
         | PDefault dv => dok (p_ty p) dv
         end
  end.
Definition props_simple (T : space) (g : nat) (dok : id -> json -> bool) (fr : id -> bool) (ps : list prop) : bool :=
  forallb (prop_simple T g dok fr) ps && distinct (map p_name ps) && distinct (wire_names ps) &&
  (length (filter is_flatten ps) <=? 1)%nat.

Definition variant_simple (T : space) (g : nat) (dok : id -> json -> bool) (fr : id -> bool) (v : variant) : bool :=
  negb (match v_ident v with [] => true | _ => false end) &&
  match v_det v with
  | VSimple => true
  | VItem t => fr t
  | VTuple ts => forallb fr ts
  | VStruct ps => props_simple T g dok fr ps
  end.

Definition mem_id (t : id) (l : list id) : bool := existsb (N.eqb t) l.

(* [avoid]: ids of the structs / enums one of whose member defaults is being rendered (owners of the FILLING stack):
   the fragment does not re-enter them, so that no member default is met while it is already in progress *)
Fixpoint tfrag (T : space) (g : nat) (dok : id -> json -> bool) (avoid : list id) (fuel : nat) (t : id) {struct fuel} : bool :=
  match fuel with
  | O => false
  | S n =>
      match get_det T t with
      | Some DBoolean | Some DString | Some DUnit | Some DJsonValue | Some (DNative _ _ _) => true
      | Some (DInteger nm) => known_int nm
      | Some (DFloat nm) => negb (is_nonzero_name nm)
      | Some (DOption x) | Some (DBox x) | Some (DVec x) | Some (DSet x) | Some (DArray x _)
      | Some (DNewtype _ _ x _) => tfrag T g dok avoid n x
      | Some (DTuple ts) => forallb (tfrag T g dok avoid n) ts
      | Some (DMap k v) => tfrag T g dok avoid n k && tfrag T g dok avoid n v
      | Some (DStruct _ _ ps _) => negb (mem_id t avoid) && props_simple T g dok (tfrag T g dok (t :: avoid) n) ps
      | Some (DEnum _ _ tag vs _ _) =>
          negb (mem_id t avoid) &&
          (match tag with TagUntagged => false | _ => true end &&
           forallb (variant_simple T g dok (tfrag T g dok (t :: avoid) n)) vs && distinct (map v_ident vs))
      | _ => false
      end
  end.

Lemma tfrag_get : forall T g dok av n t, tfrag T g dok av n t = true -> exists d, get_det T t = Some d.
Proof. intros T g dok av n t H. destruct n; cbn in H; [discriminate|]. destruct (get_det T t); [eauto|discriminate]. Qed.

Definition owners_in (filling : list fkey) (avoid : list id) : Prop :=
  forall i v nm, In (i, v, nm) filling -> In i avoid.

Lemma fresh_of_avoid : forall filling avoid t, owners_in filling avoid -> mem_id t avoid = false ->
  forall vid nm, in_filling (t, vid, nm) filling = false.
Proof.
  intros filling avoid t Ho Hm vid nm. destruct (in_filling (t, vid, nm) filling) eqn:E; [|reflexivity]. exfalso.
  unfold in_filling in E. apply existsb_exists in E. destruct E as [[[i v] n0] [Hin He]]. cbn in He.
  apply andb_true_iff in He. destruct He as [He _]. apply andb_true_iff in He. destruct He as [He _].
  apply N.eqb_eq in He. subst i. pose proof (Ho _ _ _ Hin) as Ha.
  assert (mem_id t avoid = true) by (unfold mem_id; apply existsb_exists; exists t; split; [exact Ha|apply N.eqb_refl]).
  congruence.
Qed.

Lemma owners_in_cons_avoid : forall filling avoid t, owners_in filling avoid -> owners_in filling (t :: avoid).
Proof. intros filling avoid t H i v nm Hin. right. exact (H _ _ _ Hin). Qed.

Lemma owners_in_push : forall filling avoid t vid nm, owners_in filling avoid -> owners_in ((t, vid, nm) :: filling) (t :: avoid).
Proof. intros filling avoid t vid nm H i v n0 [E|Hin]; [inversion E; now left|right; exact (H _ _ _ Hin)]. Qed.

Lemma typed_map : forall T g t k v kvs, get_det T t = Some (DMap k v) ->
  Forall (fun ab => expr_typed T g (fst ab) k = true /\ expr_typed T g (snd ab) v = true) kvs ->
  expr_typed T g (EMap kvs) t = true.
Proof.
  intros T g t k v kvs Hg H. cbn [expr_typed]. rewrite Hg. induction H as [|[a b] kvs [Ha Hb] _ IH]; [reflexivity|].
  cbn in Ha, Hb. cbn. rewrite Ha, Hb. exact IH.
Qed.

(* ---------------------------------------------------------------- association lists / named_of *)
Lemma ustr_eqb_sym : forall a b, ustr_eqb a b = ustr_eqb b a.
Proof.
  induction a as [|x a IH]; destruct b as [|y b]; cbn; try reflexivity. rewrite N.eqb_sym, IH. reflexivity.
Qed.

Lemma mem_ustr_in : forall k l, mem_ustr k l = true <-> In k l.
Proof.
  intros k l. unfold mem_ustr. rewrite existsb_exists. split.
  - intros [x [Hin Hx]]. apply ustr_eqb_eq in Hx. subst. exact Hin.
  - intros Hin. exists k. split; [exact Hin|apply ustr_eqb_refl].
Qed.

Lemma assoc_remove_neq : forall A k k' (m : list (ustring * A)),
  ustr_eqb k k' = false -> assoc k (remove_key k' m) = assoc k m.
Proof.
  intros A k k' m Hn. induction m as [|[k2 v] m IH]; [reflexivity|]. cbn.
  destruct (ustr_eqb k' k2) eqn:E.
  - apply ustr_eqb_eq in E. subst k2. rewrite Hn. exact IH.
  - cbn. destruct (ustr_eqb k k2); [reflexivity|exact IH].
Qed.

Definition names_of (l : list pinfo) : list ustring :=
  flat_map (fun '(nm, _, _) => match nm with Some k => [k] | None => [] end) l.
Definition nstep (m : list (ustring * (id * bool))) (i : pinfo) :=
  let '(nm, t, req) := i in match nm with Some k => bt_insert k (t, req) m | None => m end.

Lemma named_of_fold : forall l, named_of l = fold_left nstep l [].
Proof. intros l. unfold named_of. f_equal. Qed.

Lemma fold_named_notin : forall l acc k,
  mem_ustr k (names_of l) = false -> assoc k (fold_left nstep l acc) = assoc k acc.
Proof.
  induction l as [|[[nm t] req] l IH]; intros acc k H; [reflexivity|]. cbn [fold_left].
  destruct nm as [k'|]; cbn in H.
  - apply orb_false_iff in H. destruct H as [H1 H2]. rewrite (IH _ _ H2). cbn. rewrite H1.
    apply assoc_remove_neq. exact H1.
  - exact (IH _ _ H).
Qed.

Lemma fold_named_in : forall l acc k t r,
  distinct (names_of l) = true -> In (Some k, t, r) l -> assoc k (fold_left nstep l acc) = Some (t, r).
Proof.
  induction l as [|[[nm t0] r0] l IH]; intros acc k t r Hd Hin; [destruct Hin|]. cbn [fold_left].
  destruct Hin as [E|Hin].
  - inversion E; subst. cbn in Hd. apply andb_true_iff in Hd. destruct Hd as [Hm _].
    apply negb_true_iff in Hm. rewrite (fold_named_notin _ _ _ Hm). cbn. rewrite ustr_eqb_refl. reflexivity.
  - destruct nm as [k'|]; cbn in Hd.
    + apply andb_true_iff in Hd. destruct Hd as [_ Hd]. exact (IH _ _ _ _ Hd Hin).
    + exact (IH _ _ _ _ Hd Hin).
Qed.

Lemma any_is_ok_true : forall A B (f : A -> res B) l,
  any_is_ok f l = ROk true -> exists x b, In x l /\ f x = ROk b.
Proof.
  intros A B f l. induction l as [|y l IH]; intros H; cbn in H; [discriminate|].
  destruct (f y) as [b0| | |] eqn:Ey; try discriminate.
  - exists y, b0. split; [now left|exact Ey].
  - destruct (IH H) as [x [b [Hin Hx]]]. exists x, b. split; [now right|exact Hx].
Qed.

Lemma assoc_in : forall A k (m : list (ustring * A)) v, assoc k m = Some v -> exists k', In (k', v) m /\ ustr_eqb k k' = true.
Proof.
  intros A k m v. induction m as [|[k2 v2] m IH]; cbn; [discriminate|].
  destruct (ustr_eqb k k2) eqn:E.
  - intro H. inversion H; subst. exists k2. split; [now left|exact E].
  - intro H. destruct (IH H) as [k' [Hin Hk]]. exists k'. split; [now right|exact Hk].
Qed.

(* ---------------------------------------------------------------- all_props on simple members *)
Definition pinfo_of (T : space) (p : prop) : pinfo :=
  match wire_name p with
  | Some n => (Some n, p_ty p, is_required p)
  | None => match get_det T (p_ty p) with
            | Some (DMap _ v) => (None, v, false)
            | _ => (None, p_ty p, false)
            end
  end.

Lemma wire_name_none : forall p, wire_name p = None <-> p_rename p = RFlatten.
Proof. intros p. unfold wire_name. destruct (p_rename p); split; intro H; try discriminate; reflexivity. Qed.

Lemma aprops_simple : forall T g dok fr n p l,
  prop_simple T g dok fr p = true -> all_props T n p = ROk l -> l = [pinfo_of T p].
Proof.
  intros T g dok fr n p l Hs H. unfold pinfo_of. destruct n; cbn in H.
  - destruct (wire_name p) eqn:Ew; [inversion H; reflexivity|discriminate H].
  - destruct (wire_name p) eqn:Ew; [inversion H; reflexivity|].
    apply wire_name_none in Ew. unfold prop_simple in Hs. rewrite Ew in Hs.
    destruct (get_det T (p_ty p)) as [d|]; [|discriminate Hs]. destruct d; try discriminate Hs.
    inversion H. reflexivity.
Qed.

Lemma flat_map_r_simple : forall T g dok fr n ps l,
  forallb (prop_simple T g dok fr) ps = true -> flat_map_r (all_props T n) ps = ROk l -> l = map (pinfo_of T) ps.
Proof.
  intros T g dok fr n ps. induction ps as [|p ps IH]; intros l Hs H; cbn in H.
  - inversion H. reflexivity.
  - cbn in Hs. apply andb_true_iff in Hs. destruct Hs as [Hp Hs].
    apply rbind_ok in H. destruct H as [a [Ha H]]. apply rbind_ok in H. destruct H as [b [Hb H]].
    inversion H. rewrite (aprops_simple _ _ _ _ _ _ _ Hp Ha), (IH _ Hs Hb). reflexivity.
Qed.

Lemma names_of_pinfo : forall T ps, names_of (map (pinfo_of T) ps) = wire_names ps.
Proof.
  intros T ps. induction ps as [|p ps IH]; [reflexivity|]. cbn. unfold wire_names in *. cbn. rewrite <- IH.
  unfold pinfo_of. destruct (wire_name p); [reflexivity|].
  destruct (get_det T (p_ty p)) as [d|]; [destruct d|]; reflexivity.
Qed.

Lemma unnamed_cons : forall a l, unnamed_of (a :: l) = (unnamed_of [a] ++ unnamed_of l)%list.
Proof. intros a l. unfold unnamed_of. cbn. rewrite app_nil_r. reflexivity. Qed.

(* the (at most one) flattened map's value type *)
Lemma unnamed_one : forall T g dok fr ps t,
  forallb (prop_simple T g dok fr) ps = true -> (length (filter is_flatten ps) <=? 1)%nat = true ->
  In t (unnamed_of (map (pinfo_of T) ps)) ->
  forall p, In p ps -> is_flatten p = true ->
  exists k, get_det T (p_ty p) = Some (DMap k t).
Proof.
  intros T g dok fr ps. induction ps as [|q ps IH]; intros t Hs Hl Hin p Hp Hf; [destruct Hp|].
  cbn in Hs. apply andb_true_iff in Hs. destruct Hs as [Hq Hs].
  assert (Hun : forall q', prop_simple T g dok fr q' = true -> is_flatten q' = false -> unnamed_of [pinfo_of T q'] = []).
  { intros q' _ Hnf. unfold pinfo_of, is_flatten in *. destruct (wire_name q') eqn:Ew; [reflexivity|].
    apply wire_name_none in Ew. rewrite Ew in Hnf. discriminate. }
  assert (Hfl : forall q', prop_simple T g dok fr q' = true -> is_flatten q' = true ->
                exists k v, get_det T (p_ty q') = Some (DMap k v) /\ unnamed_of [pinfo_of T q'] = [v]).
  { intros q' Hq' Hff. unfold is_flatten in Hff. unfold prop_simple in Hq'. unfold pinfo_of.
    destruct (p_rename q') eqn:Er; try discriminate Hff.
    assert (Ew : wire_name q' = None) by (apply wire_name_none; exact Er). rewrite Ew.
    destruct (get_det T (p_ty q')) as [d|]; [|discriminate Hq']. destruct d; try discriminate Hq'. eauto. }
  cbn [map] in Hin. rewrite unnamed_cons in Hin.
  cbn [filter] in Hl.
  destruct (is_flatten q) eqn:Efq.
  - (* q is the flattened member: no other one *)
    cbn [length] in Hl.
    assert (Hnone : filter is_flatten ps = []).
    { destruct (filter is_flatten ps); [reflexivity|discriminate Hl]. }
    assert (Hrest : unnamed_of (map (pinfo_of T) ps) = []).
    { clear -Hs Hnone Hun. induction ps as [|r ps IH2]; [reflexivity|]. cbn in Hs. apply andb_true_iff in Hs.
      destruct Hs as [Hr Hs]. cbn in Hnone. destruct (is_flatten r) eqn:Er; [discriminate Hnone|].
      cbn [map]. rewrite unnamed_cons, (Hun r Hr Er), (IH2 Hs Hnone). reflexivity. }
    destruct (Hfl q Hq Efq) as [k [v [Hg Hu]]]. rewrite Hu, Hrest in Hin. cbn in Hin. destruct Hin as [<-|[]].
    destruct Hp as [<-|Hp]; [eauto|].
    exfalso. assert (In p (filter is_flatten ps)) by (apply filter_In; split; assumption). rewrite Hnone in H. exact H.
  - rewrite (Hun q Hq Efq) in Hin. cbn in Hin.
    destruct Hp as [<-|Hp]; [rewrite Hf in Efq; discriminate|].
    exact (IH t Hs Hl Hin p Hp Hf).
Qed.

(* ---------------------------------------------------------------- struct members *)
Definition fields_good (T : space) (g : nat) (ps : list prop) (fs : list (fname * expr)) : Prop :=
  length fs = length ps /\
  (forall p, In p ps -> exists e, In (FId (p_name p), e) fs) /\
  (forall fn e, In (fn, e) fs -> exists p, In p ps /\ fn = FId (p_name p) /\ expr_typed T g e (p_ty p) = true).

Section StructStep.
  Variable T : space.
  Variable g : nat.
  Variable n : nat.
  Variable vrec : id -> json -> res kind.
  Variable orec : id -> json -> res expr.
  Variable fr : id -> bool.
  Variable dok : id -> json -> bool.
  Variable filling : list fkey.
  Variable recfill : fkey -> id -> json -> res expr.
  Variable self : id.
  Variable vid : ustring.
  Hypothesis IHrec : forall t x k, vrec t x = ROk k -> fr t = true ->
    exists e, orec t x = ROk e /\ expr_typed T g e t = true.
  Hypothesis IHdef : forall nm t dv, dok t dv = true -> fr t = true ->
    exists e, recfill (self, vid, nm) t dv = ROk e /\ expr_typed T g e t = true.
  (* no member default of this struct / variant is being rendered already *)
  Hypothesis Hfresh : forall nm, in_filling (self, vid, nm) filling = false.
  Hypothesis Hfr_get : forall t, fr t = true -> exists d, get_det T t = Some d.
  Hypothesis Hmap : forall t k v m, get_det T t = Some (DMap k v) -> get_det T k = Some DString -> fr t = true ->
    (forall key x, In (key, x) m -> exists kk, vrec v x = ROk kk) ->
    exists e, orec t (JObj m) = ROk e /\ expr_typed T g e t = true.

  Lemma struct_step_typed : forall ps d k,
    v_struct_props vrec (all_props T n) ps d = ROk k -> props_simple T g dok fr ps = true ->
    exists fs, o_struct_props T orec filling recfill self vid ps d = ROk fs /\ fields_good T g ps fs.
  Proof.
    intros ps d k H Hs. unfold props_simple in Hs.
    apply andb_true_iff in Hs. destruct Hs as [Hs Hone].
    apply andb_true_iff in Hs. destruct Hs as [Hs Hdw].
    apply andb_true_iff in Hs. destruct Hs as [Hall Hdn].
    unfold v_struct_props in H.
    apply rbind_ok in H. destruct H as [m [Hm H]]. apply of_opt_ok in Hm.
    apply rbind_ok in H. destruct H as [l [Hl H]].
    pose proof (flat_map_r_simple _ _ _ _ _ _ _ Hall Hl) as El. subst l.
    apply rbind_ok in H. destruct H as [u1 [He1 H]]. destruct u1.
    apply rbind_ok in H. destruct H as [u2 [He2 _]]. destruct u2.
    set (named := named_of (map (pinfo_of T) ps)) in *.
    set (unnamed := unnamed_of (map (pinfo_of T) ps)) in *.
    assert (Hnamed : forall p nm, In p ps -> wire_name p = Some nm ->
                       assoc nm named = Some (p_ty p, is_required p)).
    { intros p nm Hin Hw. unfold named. rewrite named_of_fold. apply fold_named_in.
      - rewrite names_of_pinfo. exact Hdw.
      - apply in_map_iff. exists p. split; [|exact Hin]. unfold pinfo_of. rewrite Hw. reflexivity. }
    assert (Hnotnamed : forall key, mem_ustr key (wire_names ps) = false -> assoc key named = None).
    { intros key Hk. unfold named. rewrite named_of_fold. rewrite fold_named_notin; [reflexivity|].
      rewrite names_of_pinfo. exact Hk. }
    assert (F1 : forall name x, In (name, x) m ->
              match assoc name named with
              | Some (t, _) => exists kk, vrec t x = ROk kk
              | None => exists t kk, In t unnamed /\ vrec t x = ROk kk
              end).
    { intros name x Hin. destruct (each_ok_in _ _ _ _ He1 (name, x) Hin) as [b Hb]. cbn beta iota in Hb.
      destruct (assoc name named) as [[t r]|].
      - apply rbind_ok in Hb. destruct Hb as [kk [Hk _]]. eauto.
      - apply rbind_ok in Hb. destruct Hb as [bb [Hbb Hb]]. destruct bb; [|discriminate Hb].
        destruct (any_is_ok_true _ _ _ _ Hbb) as [t [kk [Ht Hk]]]. eauto. }
    assert (F2 : forall p nm, In p ps -> wire_name p = Some nm -> is_required p = true -> has_key nm m = true).
    { intros p nm Hin Hw Hr. pose proof (Hnamed p nm Hin Hw) as Ha. rewrite Hr in Ha.
      destruct (assoc_in _ _ _ _ Ha) as [k' [Hk' Ek]]. apply ustr_eqb_eq in Ek. subst k'.
      destruct (each_ok_in _ _ _ _ He2 _ Hk') as [b Hb]. cbn beta iota in Hb.
      destruct (has_key nm m); [reflexivity|discriminate Hb]. }
    unfold o_struct_props, flatten_remainder, direct_wire_names. rewrite Hm. cbn [of_opt rbind]. cbv zeta.
    (* direct members *)
    assert (HD : forall qs, (forall q, In q qs -> In q ps) ->
      exists dl, filter_map_r (fun p =>
          match wire_name p with
          | None => ROk None
          | Some name =>
              match assoc name m with
              | Some x => rbind (optional (orec (p_ty p) x)) (fun oe => ROk (option_map (fun e => (FId (p_name p), e)) oe))
              | None =>
                  match p_state p with
                  | PDefault dv =>
                      if in_filling (self, vid, p_name p) filling then ROk (Some (FId (p_name p), EDefault)) else
                      rbind (optional (recfill (self, vid, p_name p) (p_ty p) dv)) (fun oe => ROk (option_map (fun e => (FId (p_name p), e)) oe))
                  | _ => ROk (Some (FId (p_name p), EDefault))
                  end
              end
          end) qs = ROk dl /\
        length dl = length (filter (fun p => negb (is_flatten p)) qs) /\
        (forall q, In q qs -> is_flatten q = false -> exists e, In (FId (p_name q), e) dl) /\
        (forall fn e, In (fn, e) dl -> exists p, In p ps /\ fn = FId (p_name p) /\ expr_typed T g e (p_ty p) = true)).
    { induction qs as [|q qs IHq]; intros Hsub.
      - exists []. repeat split; try reflexivity; intros; contradiction.
      - destruct (IHq (fun q' Hq' => Hsub q' (or_intror Hq'))) as [dl [Hdl [Hlen [Hcov Hty]]]].
        pose proof (Hsub q (or_introl eq_refl)) as Hq.
        pose proof (proj1 (forallb_forall _ _) Hall q Hq) as Hqs. unfold prop_simple in Hqs.
        cbn [filter_map_r].
        destruct (wire_name q) as [nm|] eqn:Ew.
        + assert (Enf : is_flatten q = false).
          { unfold is_flatten. unfold wire_name in Ew. destruct (p_rename q); try reflexivity. discriminate Ew. }
          assert (Hqs' : fr (p_ty q) = true /\
                         match p_state q with
                         | PRequired => true
                         | POptional => defaultable T g (p_ty q)
                         | PDefault dv => dok (p_ty q) dv
                         end = true).
          { unfold is_flatten in Enf. destruct (p_rename q); try discriminate Enf; apply andb_true_iff in Hqs; exact Hqs. }
          destruct Hqs' as [Hfr Hdef].
          assert (Hent : exists e, (match assoc nm m with
                     | Some x => rbind (optional (orec (p_ty q) x)) (fun oe => ROk (option_map (fun e => (FId (p_name q), e)) oe))
                     | None =>
                         match p_state q with
                         | PDefault dv =>
                             if in_filling (self, vid, p_name q) filling then ROk (Some (FId (p_name q), EDefault)) else
                             rbind (optional (recfill (self, vid, p_name q) (p_ty q) dv)) (fun oe => ROk (option_map (fun e => (FId (p_name q), e)) oe))
                         | _ => ROk (Some (FId (p_name q), EDefault))
                         end
                     end) = ROk (Some (FId (p_name q), e)) /\ expr_typed T g e (p_ty q) = true).
          { destruct (assoc nm m) as [x|] eqn:Ea.
            - destruct (assoc_in _ _ _ _ Ea) as [k' [Hin' Ek]]. apply ustr_eqb_eq in Ek. subst k'.
              pose proof (F1 nm x Hin') as HF. rewrite (Hnamed q nm Hq Ew) in HF. destruct HF as [kk Hk].
              destruct (IHrec _ _ _ Hk Hfr) as [e [He Te]]. exists e. rewrite He. cbn. split; [reflexivity|exact Te].
            - destruct (p_state q) as [| |dv] eqn:Est.
              + (* required and absent: impossible after validation *)
                exfalso. assert (Er : is_required q = true) by (unfold is_required; rewrite Est; reflexivity).
                pose proof (F2 q nm Hq Ew Er) as Hk. unfold has_key in Hk. rewrite Ea in Hk. discriminate Hk.
              + exists EDefault. split; [reflexivity|].
                destruct (Hfr_get _ Hfr) as [dd Hdd]. cbn [expr_typed]. rewrite Hdd. exact Hdef.
              + rewrite Hfresh. destruct (IHdef (p_name q) _ _ Hdef Hfr) as [e [He Te]]. exists e. rewrite He. cbn. split; [reflexivity|exact Te]. }
          destruct Hent as [e [He Te]]. rewrite He. cbn [rbind]. rewrite Hdl. cbn [rbind].
          exists ((FId (p_name q), e) :: dl). cbn [filter]. rewrite Enf. cbn [negb length]. split; [reflexivity|].
          split; [cbn; rewrite Hlen; reflexivity|]. split.
          * intros q' [<-|Hq'] Hnf'; [exists e; now left|]. destruct (Hcov q' Hq' Hnf') as [e' He']. exists e'. now right.
          * intros fn e' [E|Hin']; [inversion E; subst; exists q; auto|exact (Hty fn e' Hin')].
        + assert (Ef : is_flatten q = true).
          { unfold is_flatten. apply wire_name_none in Ew. rewrite Ew. reflexivity. }
          cbn [rbind]. rewrite Hdl. cbn [rbind]. exists dl. cbn [filter]. rewrite Ef. cbn [negb]. split; [reflexivity|].
          split; [exact Hlen|]. split; [|exact Hty].
          intros q' [<-|Hq'] Hnf'; [rewrite Hnf' in Ef; discriminate|exact (Hcov q' Hq' Hnf')]. }
    destruct (HD ps (fun q H => H)) as [dl [Hdl [Hdlen [Hdcov Hdty]]]].
    change (flat_map (fun p => match wire_name p with Some n0 => [n0] | None => [] end) ps) with (wire_names ps).
    rewrite Hdl. cbn [rbind].
    (* flattened members *)
    set (extra := filter (fun '(k0, _) => negb (mem_ustr k0 (wire_names ps))) m).
    assert (HF : forall qs, (forall q, In q qs -> In q ps) ->
      exists fl, filter_map_r (fun p =>
          match p_rename p with
          | RFlatten =>
              match get_det T (p_ty p) with
              | None => RPanic
              | Some (DStruct _ _ _ _) | Some (DOption _) | Some (DMap _ _) =>
                  rbind (optional (orec (p_ty p) (JObj extra))) (fun oe => ROk (option_map (fun e => (FId (p_name p), e)) oe))
              | Some _ => RPanic
              end
          | _ => ROk None
          end) qs = ROk fl /\
        length fl = length (filter is_flatten qs) /\
        (forall q, In q qs -> is_flatten q = true -> exists e, In (FId (p_name q), e) fl) /\
        (forall fn e, In (fn, e) fl -> exists p, In p ps /\ fn = FId (p_name p) /\ expr_typed T g e (p_ty p) = true)).
    { induction qs as [|q qs IHq]; intros Hsub.
      - exists []. repeat split; try reflexivity; intros; contradiction.
      - destruct (IHq (fun q' Hq' => Hsub q' (or_intror Hq'))) as [fl [Hfl [Hlen [Hcov Hty]]]].
        pose proof (Hsub q (or_introl eq_refl)) as Hq.
        pose proof (proj1 (forallb_forall _ _) Hall q Hq) as Hqs. unfold prop_simple in Hqs.
        cbn [filter_map_r filter]. unfold is_flatten at 1.
        destruct (p_rename q) eqn:Er.
        + cbn [rbind]. rewrite Hfl. cbn [rbind]. exists fl. split; [reflexivity|]. split; [exact Hlen|]. split; [|exact Hty].
          intros q' [<-|Hq'] Hf'; [unfold is_flatten in Hf'; rewrite Er in Hf'; discriminate|exact (Hcov q' Hq' Hf')].
        + cbn [rbind]. rewrite Hfl. cbn [rbind]. exists fl. split; [reflexivity|]. split; [exact Hlen|]. split; [|exact Hty].
          intros q' [<-|Hq'] Hf'; [unfold is_flatten in Hf'; rewrite Er in Hf'; discriminate|exact (Hcov q' Hq' Hf')].
        + destruct (get_det T (p_ty q)) as [dq|] eqn:Hgq; [|discriminate Hqs].
          destruct dq; try discriminate Hqs.
          destruct (get_det T k0) as [dk|] eqn:Hgk; [|discriminate Hqs]. destruct dk; try discriminate Hqs.
          assert (Efq : is_flatten q = true) by (unfold is_flatten; rewrite Er; reflexivity).
          assert (Hvals : forall key x, In (key, x) extra -> exists kk, vrec v x = ROk kk).
          { intros key x Hin. unfold extra in Hin. apply filter_In in Hin. destruct Hin as [Hin Hk].
            apply negb_true_iff in Hk. pose proof (F1 key x Hin) as HF1. rewrite (Hnotnamed key Hk) in HF1.
            destruct HF1 as [t [kk [Ht Hvk]]].
            destruct (unnamed_one _ _ _ _ _ _ Hall Hone Ht q Hq Efq) as [k' Hk']. rewrite Hgq in Hk'. inversion Hk'; subst.
            eauto. }
          destruct (Hmap _ _ _ extra Hgq Hgk Hqs Hvals) as [e [He Te]]. rewrite He. cbn [optional rbind option_map].
          rewrite Hfl. cbn [rbind]. exists ((FId (p_name q), e) :: fl). split; [reflexivity|].
          split; [cbn; rewrite Hlen; reflexivity|]. split.
          * intros q' [<-|Hq'] Hf'; [exists e; now left|]. destruct (Hcov q' Hq' Hf') as [e' He']. exists e'. now right.
          * intros fn e' [E|Hin']; [inversion E; subst; exists q; auto|exact (Hty fn e' Hin')]. }
    destruct (HF ps (fun q H => H)) as [fl [Hfl [Hflen [Hfcov Hfty]]]].
    fold extra. rewrite Hfl. cbn [rbind]. eexists. split; [reflexivity|].
    unfold fields_good. split; [|split].
    - rewrite app_length, Hdlen, Hflen. clear. induction ps as [|p ps IH]; [reflexivity|]. cbn.
      destruct (is_flatten p); cbn; lia.
    - intros p Hp. destruct (is_flatten p) eqn:Ef.
      + destruct (Hfcov p Hp Ef) as [e He]. exists e. apply in_or_app. now right.
      + destruct (Hdcov p Hp Ef) as [e He]. exists e. apply in_or_app. now left.
    - intros fn e Hin. apply in_app_or in Hin. destruct Hin as [Hin|Hin]; [exact (Hdty _ _ Hin)|exact (Hfty _ _ Hin)].
  Qed.
End StructStep.

Lemma find_prop_distinct : forall ps p, distinct (map p_name ps) = true -> In p ps -> find_prop (p_name p) ps = Some p.
Proof.
  induction ps as [|a ps IH]; intros p Hd Hin; [destruct Hin|]. cbn in Hd. apply andb_true_iff in Hd. destruct Hd as [Hm Hd].
  cbn. destruct Hin as [<-|Hin]; [rewrite ustr_eqb_refl; reflexivity|].
  destruct (ustr_eqb (p_name p) (p_name a)) eqn:E; [|exact (IH p Hd Hin)].
  exfalso. apply ustr_eqb_eq in E. apply negb_true_iff in Hm.
  assert (mem_ustr (p_name a) (map p_name ps) = true) by (apply mem_ustr_in; rewrite <- E; apply in_map; exact Hin).
  congruence.
Qed.

Lemma find_variant_in : forall s vs var, find_variant s vs = Some var -> In var vs.
Proof.
  induction vs as [|a vs IH]; intros var H; cbn in H; [discriminate|].
  destruct (ustr_eqb s (v_raw a)); [inversion H; now left|right; exact (IH _ H)].
Qed.

Lemma find_ident_distinct : forall vs var, distinct (map v_ident vs) = true -> In var vs ->
  find_variant_ident (v_ident var) vs = Some var.
Proof.
  induction vs as [|a vs IH]; intros var Hd Hin; [destruct Hin|]. cbn in Hd. apply andb_true_iff in Hd. destruct Hd as [Hm Hd].
  cbn. destruct Hin as [<-|Hin]; [rewrite ustr_eqb_refl; reflexivity|].
  destruct (ustr_eqb (v_ident var) (v_ident a)) eqn:E; [|exact (IH var Hd Hin)].
  exfalso. apply ustr_eqb_eq in E. apply negb_true_iff in Hm.
  assert (mem_ustr (v_ident a) (map v_ident vs) = true) by (apply mem_ustr_in; rewrite <- E; apply in_map; exact Hin).
  congruence.
Qed.

Ltac fields_tac Hd Hgood :=
  destruct Hgood as [Hlen [Hcov Hty]];
  apply andb_true_iff; split; [apply andb_true_iff; split|];
  [ rewrite Hlen; apply Nat.eqb_refl
  | apply forallb_forall; intros p Hp; destruct (Hcov p Hp) as [e He]; apply existsb_exists;
    exists (FId (p_name p), e); split; [exact He|apply ustr_eqb_refl]
  | clear Hlen Hcov;
    match goal with |- _ ?ps ?fs = true =>
      induction fs as [|[fn e] fs IHfs]; [reflexivity|];
      destruct (Hty fn e (or_introl eq_refl)) as [p [Hp [Efn Te]]]; subst fn;
      cbn; rewrite (find_prop_distinct _ _ Hd Hp), Te; cbn [andb];
      apply IHfs; intros fn' e' Hin'; exact (Hty fn' e' (or_intror Hin'))
    end ].

Lemma typed_struct : forall T g t name def ps deny fs,
  get_det T t = Some (DStruct name def ps deny) -> distinct (map p_name ps) = true ->
  fields_good T g ps fs -> expr_typed T g (EStruct name fs) t = true.
Proof.
  intros T g t name def ps deny fs Hg Hd Hgood. cbn [expr_typed]. rewrite Hg, ustr_eqb_refl. cbn [andb].
  fields_tac Hd Hgood.
Qed.

Lemma typed_varstruct : forall T g t name def tag vs deny bes var ps fs,
  get_det T t = Some (DEnum name def tag vs deny bes) -> find_variant_ident (v_ident var) vs = Some var ->
  v_det var = VStruct ps -> distinct (map p_name ps) = true ->
  fields_good T g ps fs -> expr_typed T g (EVarStruct name (v_ident var) fs) t = true.
Proof.
  intros T g t name def tag vs deny bes var ps fs Hg Hv Hdet Hd Hgood. cbn [expr_typed]. rewrite Hg, ustr_eqb_refl, Hv, Hdet. cbn [andb].
  fields_tac Hd Hgood.
Qed.

(* ---------------------------------------------------------------- tuples, enum variants *)
Section VariantStep.
  Variable T : space.
  Variable g : nat.
  Variable vrec : id -> json -> res kind.
  Variable orec : id -> json -> res expr.
  Variable fr : id -> bool.
  Hypothesis IHrec : forall t x k, vrec t x = ROk k -> fr t = true ->
    exists e, orec t x = ROk e /\ expr_typed T g e t = true.

  Lemma tuple_step_typed : forall ts c k, v_tuple vrec ts c = ROk k -> forallb fr ts = true ->
    exists es, o_tuple orec ts c = ROk es /\ Forall2 (fun x e => expr_typed T g e x = true) ts es.
  Proof.
    intros ts c k H Hf. unfold v_tuple in H. unfold o_tuple.
    apply rbind_ok in H. destruct H as [arr [Ha H]]. rewrite Ha. cbn.
    destruct (Nat.eqb (length arr) (length ts)) eqn:El; [|discriminate H]. cbn [negb] in H |- *.
    apply rbind_ok in H. destruct H as [b [Hb H]]. destruct b; [|discriminate H].
    apply Nat.eqb_eq in El.
    apply (map_r_forall2 (fun x e => expr_typed T g e x = true) orec ts arr El).
    intros p Hin. destruct (all_is_ok_true_in _ _ _ _ Hb p Hin) as [k' Hk]. destruct p as [t1 x1].
    exact (IHrec _ _ _ Hk (in_combine_forallb _ _ _ (t1, x1) Hf Hin)).
  Qed.

  Lemma typed_varunit : forall t name def tag vs deny bes var,
    get_det T t = Some (DEnum name def tag vs deny bes) -> find_variant_ident (v_ident var) vs = Some var ->
    v_det var = VSimple -> expr_typed T g (EVarUnit name (v_ident var)) t = true.
  Proof. intros. cbn [expr_typed]. rewrite H, ustr_eqb_refl, H0, H1. reflexivity. Qed.

  Lemma typed_varitem : forall t name def tag vs deny bes var x e,
    get_det T t = Some (DEnum name def tag vs deny bes) -> find_variant_ident (v_ident var) vs = Some var ->
    v_det var = VItem x -> expr_typed T g e x = true -> expr_typed T g (EVarTuple name (v_ident var) [e]) t = true.
  Proof. intros. cbn [expr_typed]. rewrite H, ustr_eqb_refl, H0, H1. cbn. rewrite H2. reflexivity. Qed.

  Lemma typed_vartuple : forall t name def tag vs deny bes var ts es,
    get_det T t = Some (DEnum name def tag vs deny bes) -> find_variant_ident (v_ident var) vs = Some var ->
    v_det var = VTuple ts -> Forall2 (fun x e => expr_typed T g e x = true) ts es ->
    expr_typed T g (EVarTuple name (v_ident var) (variant_tuple es)) t = true.
  Proof.
    intros t name def tag vs deny bes var ts es Hg Hv Hd H2.
    destruct H2 as [|x e ts es He H2].
    - cbn [variant_tuple expr_typed]. rewrite Hg, ustr_eqb_refl, Hv, Hd. reflexivity.
    - destruct H2 as [|x2 e2 ts es He2 H2].
      + cbn [variant_tuple expr_typed]. rewrite Hg, ustr_eqb_refl, Hv, Hd. cbn. exact He.
      + cbn [variant_tuple expr_typed]. rewrite Hg, ustr_eqb_refl, Hv, Hd. cbn. rewrite He, He2. cbn [andb].
        clear He He2 Hd. induction H2 as [|x3 e3 ts es He3 _ IH]; [reflexivity|]. cbn. rewrite He3. cbn [andb]. exact IH.
  Qed.

  Lemma var_ident_ok : forall var, negb (match v_ident var with [] => true | _ => false end) = true ->
    var_ident var = ROk (v_ident var).
  Proof. intros var H. unfold var_ident. destruct (v_ident var); [discriminate H|reflexivity]. Qed.
End VariantStep.

(* ---------------------------------------------------------------- the typing theorem *)
Definition TypedAt (re : ustring -> ustring -> bool) (T : space) (g : nat) (dok : id -> json -> bool) (n' : nat) : Prop :=
  forall f filling avoid t d k, owners_in filling avoid ->
    validate_value re T f t d = ROk k -> tfrag T g dok avoid n' t = true ->
    exists e, output_fill T n' filling t d = ROk e /\ expr_typed T g e t = true.

Lemma flat_map_typed : forall re T g dok n1 f filling avoid, owners_in filling avoid ->
  (forall m, (m < n1)%nat -> TypedAt re T g dok m) ->
  forall t k v mm, get_det T t = Some (DMap k v) -> get_det T k = Some DString -> tfrag T g dok avoid n1 t = true ->
    (forall key x, In (key, x) mm -> exists kk, validate_value re T f v x = ROk kk) ->
    exists e, output_fill T n1 filling t (JObj mm) = ROk e /\ expr_typed T g e t = true.
Proof.
  intros re T g dok n1 f filling avoid Ho IH t k v mm Hg Hk Hf Hv.
  destruct n1 as [|m]; [discriminate Hf|]. cbn [tfrag] in Hf. rewrite Hg in Hf.
  apply andb_true_iff in Hf. destruct Hf as [Hfk Hfv].
  cbn [output_fill]. rewrite Hg. cbn [output_det as_object of_opt rbind].
  destruct (tfrag_get _ _ _ _ _ _ Hfv) as [dv Hdv]. rewrite Hk, Hdv.
  assert (Hall : forall p, In p mm -> exists ab,
            (let '(key, x) := p in rbind (output_fill T m filling k (JStr key)) (fun a => rbind (output_fill T m filling v x) (fun b => ROk (a, b)))) = ROk ab /\
            (expr_typed T g (fst ab) k = true /\ expr_typed T g (snd ab) v = true)).
  { intros [key x] Hin. destruct (Hv key x Hin) as [kk Hkk].
    destruct (IH m (Nat.lt_succ_diag_r m) _ _ _ _ _ _ Ho Hkk Hfv) as [e [He Te]].
    destruct m as [|m']; [discriminate Hfk|]. cbn [output_fill]. rewrite Hk. cbn [output_det rbind].
    cbn [output_fill] in He. rewrite He. cbn [rbind]. eexists. split; [reflexivity|]. cbn [fst snd]. split; [|exact Te].
    cbn [expr_typed]. rewrite Hk. reflexivity. }
  destruct (map_r_forall _ _ _ _ _ Hall) as [kvs [Hkvs [Pk _]]]. rewrite Hkvs. cbn [rbind].
  eexists. split; [reflexivity|]. exact (typed_map T g t k v kvs Hg Pk).
Qed.

Lemma split_props_simple : forall T g dok fr ps, props_simple T g dok fr ps = true -> distinct (map p_name ps) = true.
Proof.
  intros T g dok fr ps H. unfold props_simple in H. apply andb_true_iff in H. destruct H as [H _].
  apply andb_true_iff in H. destruct H as [H _]. apply andb_true_iff in H. destruct H as [_ H]. exact H.
Qed.

(* [dok] stands for "this member default was validated", which check_defaults establishes for every property in state
   Default(v) when the type is finalised *)
Definition defaults_validated (re : ustring -> ustring -> bool) (T : space) (dok : id -> json -> bool) : Prop :=
  forall t dv, dok t dv = true -> exists f k, validate_value re T f t dv = ROk k.

Theorem tfrag_typed : forall re T g dok, defaults_validated re T dok -> forall n', TypedAt re T g dok n'.
Proof.
  intros re T g dok Hdok n'. induction n' as [n' IHs] using lt_wf_ind. unfold TypedAt. intros f filling avoid t d k Ho H Hf.
  destruct n' as [|n1]; [discriminate Hf|]. destruct f as [|n]; [discriminate H|].
  assert (IH : TypedAt re T g dok n1) by (apply IHs; lia).
  assert (IHm : forall m, (m < n1)%nat -> TypedAt re T g dok m) by (intros m Hm; apply IHs; lia).
  cbn [validate_value] in H. cbn [tfrag] in Hf. cbn [output_fill].
  destruct (get_det T t) as [det|] eqn:Hg; [|discriminate H].
  (* members of this type: same FILLING stack; for structs / enums the fragment of the members avoids t as well *)
  assert (IHgen : forall av, owners_in filling av -> forall t x k, validate_value re T n t x = ROk k -> tfrag T g dok av n1 t = true ->
            exists e, output_fill T n1 filling t x = ROk e /\ expr_typed T g e t = true).
  { intros av Hav t' x' k' Hk' Hf'. exact (IH _ _ _ _ _ _ Hav Hk' Hf'). }
  pose proof (IHgen avoid Ho) as IHrec.
  pose proof (IHgen (t :: avoid) (owners_in_cons_avoid _ _ t Ho)) as IHrecS.
  assert (IHdefS : forall key t0 dv, fst (fst key) = t -> dok t0 dv = true -> tfrag T g dok (t :: avoid) n1 t0 = true ->
            exists e, output_fill T n1 (key :: filling) t0 dv = ROk e /\ expr_typed T g e t0 = true).
  { intros [[i v] nm] t' dv Ek Hd Hf'. cbn in Ek. subst i. destruct (Hdok _ _ Hd) as [f0 [k0 Hv0]].
    exact (IH _ _ _ _ _ _ (owners_in_push _ _ t v nm Ho) Hv0 Hf'). }
  assert (Hget : forall av t, tfrag T g dok av n1 t = true -> exists d, get_det T t = Some d) by (intros; eapply tfrag_get; eauto).
  assert (HmapS : forall t0 k v m, get_det T t0 = Some (DMap k v) -> get_det T k = Some DString -> tfrag T g dok (t :: avoid) n1 t0 = true ->
            (forall key x, In (key, x) m -> exists kk, validate_value re T n v x = ROk kk) ->
            exists e, output_fill T n1 filling t0 (JObj m) = ROk e /\ expr_typed T g e t0 = true).
  { intros t0 k0 v0 m0 A B C D.
    exact (flat_map_typed re T g dok n1 n filling (t :: avoid) (owners_in_cons_avoid _ _ t Ho) IHm t0 k0 v0 m0 A B C D). }
  destruct det; try discriminate Hf; cbn [validate_det] in H; cbn [output_det].
  - (* enum *)
    apply andb_true_iff in Hf. destruct Hf as [Hav Hf]. apply negb_true_iff in Hav.
    pose proof (fresh_of_avoid _ _ _ Ho Hav) as Hfresh.
    apply andb_true_iff in Hf. destruct Hf as [Hf Hdi]. apply andb_true_iff in Hf. destruct Hf as [Htag Hvs].
    assert (Hvar : forall var, In var vs -> variant_simple T g dok (tfrag T g dok (t :: avoid) n1) var = true /\
                                 find_variant_ident (v_ident var) vs = Some var).
    { intros var Hin. split; [exact (proj1 (forallb_forall _ _) Hvs var Hin)|exact (find_ident_distinct _ _ Hdi Hin)]. }
    destruct tag; try discriminate Htag.
    + (* external *)
      unfold v_external in H. unfold o_external. destruct d; try discriminate H.
      * apply rbind_ok in H. destruct H as [var [Hv H]]. apply of_opt_ok in Hv. rewrite Hv. cbn [of_opt rbind].
        destruct (Hvar var (find_variant_in _ _ _ Hv)) as [Hvs1 Hfi]. unfold variant_simple in Hvs1.
        apply andb_true_iff in Hvs1. destruct Hvs1 as [Hid Hvd].
        destruct (v_det var) eqn:Ed; try discriminate H. rewrite (var_ident_ok _ Hid). cbn [rbind].
        eexists. split; [reflexivity|]. eapply typed_varunit; eauto.
      * cbn [as_object of_opt rbind] in H |- *. destruct kvs as [|[nm x] [|? ?]]; try discriminate H.
        apply rbind_ok in H. destruct H as [var [Hv H]]. apply of_opt_ok in Hv. rewrite Hv. cbn [of_opt rbind].
        destruct (Hvar var (find_variant_in _ _ _ Hv)) as [Hvs1 Hfi]. unfold variant_simple in Hvs1.
        apply andb_true_iff in Hvs1. destruct Hvs1 as [Hid Hvd]. rewrite (var_ident_ok _ Hid). cbn [rbind].
        unfold v_variant_payload in H. destruct (v_det var) eqn:Ed; try discriminate H.
        -- destruct (IHrecS _ _ _ H Hvd) as [e [He Te]]. rewrite He. cbn [optional rbind].
           eexists. split; [reflexivity|]. eapply typed_varitem; eauto.
        -- destruct (tuple_step_typed T g _ _ _ IHrecS _ _ _ H Hvd) as [es [Hes Pes]]. rewrite Hes. cbn [rbind].
           eexists. split; [reflexivity|]. eapply typed_vartuple; eauto.
        -- destruct (struct_step_typed T g n (validate_value re T n) (output_fill T n1 filling) (tfrag T g dok (t :: avoid) n1) dok
                     filling (fun key => output_fill T n1 (key :: filling)) t (v_ident var) IHrecS
                     (fun nm t0 dv => IHdefS (t, v_ident var, nm) t0 dv eq_refl) (Hfresh (v_ident var)) (Hget (t :: avoid)) HmapS _ _ _ H Hvd) as [fs [Hfs Gfs]]. rewrite Hfs. cbn [rbind].
           eexists. split; [reflexivity|]. eapply typed_varstruct; eauto. exact (split_props_simple _ _ _ _ _ Hvd).
    + (* internal *)
      unfold v_internal in H. unfold o_internal.
      apply rbind_ok in H. destruct H as [m [Hm H]]. rewrite Hm. cbn [rbind].
      apply rbind_ok in H. destruct H as [tv [Ht H]]. rewrite Ht. cbn [rbind].
      apply rbind_ok in H. destruct H as [sn [Hs H]]. rewrite Hs. cbn [rbind].
      apply rbind_ok in H. destruct H as [var [Hv H]]. rewrite Hv. cbn [rbind]. apply of_opt_ok in Hv.
      destruct (Hvar var (find_variant_in _ _ _ Hv)) as [Hvs1 Hfi]. unfold variant_simple in Hvs1.
      apply andb_true_iff in Hvs1. destruct Hvs1 as [Hid Hvd]. rewrite (var_ident_ok _ Hid). cbn [rbind].
      destruct (v_det var) eqn:Ed; try discriminate H.
      * eexists. split; [reflexivity|]. eapply typed_varunit; eauto.
      * destruct (struct_step_typed T g n (validate_value re T n) (output_fill T n1 filling) (tfrag T g dok (t :: avoid) n1) dok
                     filling (fun key => output_fill T n1 (key :: filling)) t (v_ident var) IHrecS
                     (fun nm t0 dv => IHdefS (t, v_ident var, nm) t0 dv eq_refl) (Hfresh (v_ident var)) (Hget (t :: avoid)) HmapS _ _ _ H Hvd) as [fs [Hfs Gfs]]. rewrite Hfs. cbn [rbind].
        eexists. split; [reflexivity|]. eapply typed_varstruct; eauto. exact (split_props_simple _ _ _ _ _ Hvd).
    + (* adjacent *)
      unfold v_adjacent in H. unfold o_adjacent.
      apply rbind_ok in H. destruct H as [m [Hm H]]. rewrite Hm. cbn [rbind].
      apply rbind_ok in H. destruct H as [[tv cv] [Ht H]]. rewrite Ht. cbn [rbind].
      apply rbind_ok in H. destruct H as [var [Hv H]]. rewrite Hv. cbn [rbind]. apply of_opt_ok in Hv.
      destruct (Hvar var (find_variant_in _ _ _ Hv)) as [Hvs1 Hfi]. unfold variant_simple in Hvs1.
      apply andb_true_iff in Hvs1. destruct Hvs1 as [Hid Hvd]. rewrite (var_ident_ok _ Hid). cbn [rbind].
      destruct (v_det var) eqn:Ed; destruct cv; try discriminate H.
      * eexists. split; [reflexivity|]. eapply typed_varunit; eauto.
      * destruct (tuple_step_typed T g _ _ _ IHrecS _ _ _ H Hvd) as [es [Hes Pes]]. rewrite Hes. cbn [rbind].
        eexists. split; [reflexivity|]. eapply typed_vartuple; eauto.
      * destruct (struct_step_typed T g n (validate_value re T n) (output_fill T n1 filling) (tfrag T g dok (t :: avoid) n1) dok
                     filling (fun key => output_fill T n1 (key :: filling)) t (v_ident var) IHrecS
                     (fun nm t0 dv => IHdefS (t, v_ident var, nm) t0 dv eq_refl) (Hfresh (v_ident var)) (Hget (t :: avoid)) HmapS _ _ _ H Hvd) as [fs [Hfs Gfs]]. rewrite Hfs. cbn [rbind].
        eexists. split; [reflexivity|]. eapply typed_varstruct; eauto. exact (split_props_simple _ _ _ _ _ Hvd).
  - (* struct *)
    apply andb_true_iff in Hf. destruct Hf as [Hav Hf]. apply negb_true_iff in Hav.
    pose proof (fresh_of_avoid _ _ _ Ho Hav) as Hfresh.
    destruct (struct_step_typed T g n (validate_value re T n) (output_fill T n1 filling) (tfrag T g dok (t :: avoid) n1) dok
                filling (fun key => output_fill T n1 (key :: filling)) t [] IHrecS
                (fun nm t0 dv => IHdefS (t, [], nm) t0 dv eq_refl) (Hfresh []) (Hget (t :: avoid)) HmapS _ _ _ H Hf) as [fs [Hfs Gfs]]. rewrite Hfs. cbn [rbind].
    eexists. split; [reflexivity|]. eapply typed_struct; eauto. exact (split_props_simple _ _ _ _ _ Hf).
  - (* newtype *)
    apply rbind_ok in H. destruct H as [k' [Hk _]].
    destruct (IHrec _ _ _ Hk Hf) as [e [He Te]]. rewrite He. cbn.
    eexists. split; [reflexivity|]. cbn [expr_typed]. rewrite Hg, ustr_eqb_refl, Te. reflexivity.
  - (* native *)
    eexists. split; [reflexivity|]. cbn [expr_typed]. rewrite Hg. apply ustr_eqb_refl.
  - (* option *)
    destruct d; try (apply rbind_ok in H; destruct H as [k' [Hk _]];
                     destruct (IHrec _ _ _ Hk Hf) as [e [He Te]]; rewrite He; cbn;
                     eexists; split; [reflexivity|]; cbn [expr_typed]; rewrite Hg; exact Te).
    eexists. split; [reflexivity|]. cbn [expr_typed]. rewrite Hg. reflexivity.
  - (* box *)
    destruct (IHrec _ _ _ H Hf) as [e [He Te]]. rewrite He. cbn.
    eexists. split; [reflexivity|]. cbn [expr_typed]. rewrite Hg. exact Te.
  - (* vec *)
    destruct d; try discriminate H. cbn.
    destruct (Hget _ _ Hf) as [dx Hx]. rewrite Hx.
    assert (Hall : forall x, In x l -> exists e, output_fill T n1 filling t0 x = ROk e /\ expr_typed T g e t0 = true).
    { intros x Hin. destruct l as [|y l]; [destruct Hin|].
      apply rbind_ok in H. destruct H as [uu [Hu _]]. destruct uu.
      destruct (each_ok_in _ _ _ _ Hu x Hin) as [k' Hk]. exact (IHrec _ _ _ Hk Hf). }
    destruct (map_r_forall _ _ _ _ _ Hall) as [es [Hes [Pes _]]]. rewrite Hes. cbn.
    eexists. split; [reflexivity|]. exact (typed_vec T g t t0 es Hg Pes).
  - (* map *)
    apply andb_true_iff in Hf. destruct Hf as [Hfk Hfv].
    destruct d; try discriminate H. cbn [as_object of_opt rbind].
    destruct (Hget _ _ Hfk) as [dk Hdk]. destruct (Hget _ _ Hfv) as [dv Hdv]. rewrite Hdk, Hdv.
    assert (Hall : forall p, In p kvs -> exists ab,
              (let '(key, x) := p in rbind (output_fill T n1 filling k0 (JStr key)) (fun a => rbind (output_fill T n1 filling v x) (fun b => ROk (a, b)))) = ROk ab /\
              (expr_typed T g (fst ab) k0 = true /\ expr_typed T g (snd ab) v = true)).
    { intros [key x] Hin. destruct kvs as [|y kvs]; [destruct Hin|]. rewrite Hdk, Hdv in H.
      apply rbind_ok in H. destruct H as [uu [Hu _]]. destruct uu.
      destruct (each_ok_in _ _ _ _ Hu (key, x) Hin) as [k' Hk]. cbn beta iota in Hk.
      apply rbind_ok in Hk. destruct Hk as [k1 [Hk1 Hk2]].
      destruct (IHrec _ _ _ Hk1 Hfk) as [a [Ha Ta]]. destruct (IHrec _ _ _ Hk2 Hfv) as [b [Hb Tb]].
      rewrite Ha. cbn [rbind]. rewrite Hb. cbn [rbind]. eexists. split; [reflexivity|]. split; assumption. }
    destruct (map_r_forall _ _ _ _ _ Hall) as [es [Hes [Pes _]]]. rewrite Hes. cbn [rbind].
    eexists. split; [reflexivity|]. exact (typed_map T g t k0 v es Hg Pes).
  - (* set *)
    destruct d; try discriminate H. cbn.
    destruct (Hget _ _ Hf) as [dx Hx]. rewrite Hx.
    assert (Hall : forall x, In x l -> exists e, output_fill T n1 filling t0 x = ROk e /\ expr_typed T g e t0 = true).
    { intros x Hin. destruct l as [|y l]; [destruct Hin|]. rewrite Hx in H.
      apply rbind_ok in H. destruct H as [uu [Hu _]]. destruct uu.
      destruct (v_set_elems_in _ _ _ Hu x Hin) as [k' Hk]. exact (IHrec _ _ _ Hk Hf). }
    destruct (map_r_forall _ _ _ _ _ Hall) as [es [Hes [Pes _]]]. rewrite Hes. cbn.
    eexists. split; [reflexivity|]. exact (typed_set T g t t0 es Hg Pes).
  - (* array *)
    destruct d; try discriminate H. cbn.
    destruct (N.of_nat (length l) =? n0) eqn:El; [|discriminate H]. cbn [negb] in H.
    destruct (Hget _ _ Hf) as [dx Hx]. rewrite Hx in H |- *.
    assert (Hall : forall x, In x l -> exists e, output_fill T n1 filling t0 x = ROk e /\ expr_typed T g e t0 = true).
    { intros x Hin. apply rbind_ok in H. destruct H as [uu [Hu _]]. destruct uu.
      destruct (each_ok_in _ _ _ _ Hu x Hin) as [k' Hk]. exact (IHrec _ _ _ Hk Hf). }
    destruct (map_r_forall _ _ _ _ _ Hall) as [es [Hes [Pes Hl]]]. rewrite Hes. cbn.
    eexists. split; [reflexivity|]. apply N.eqb_eq in El.
    refine (typed_array T g t t0 n0 es Hg _ Pes). rewrite Hl. exact El.
  - (* tuple *)
    destruct (tuple_step_typed T g _ _ _ IHrec _ _ _ H Hf) as [es [Hes Pes]]. rewrite Hes. cbn [rbind].
    eexists. split; [reflexivity|]. exact (typed_tuple T g t ts es Hg Pes).
  - (* unit *) destruct d; try discriminate H. eexists. split; [reflexivity|]. cbn [expr_typed]. rewrite Hg. reflexivity.
  - (* boolean *) destruct d; try discriminate H. eexists. split; [reflexivity|]. cbn [expr_typed]. rewrite Hg. reflexivity.
  - (* integer *)
    destruct (integer_fits name d) eqn:Ef; [|discriminate H]. cbn [negb] in H.
    destruct d; try (cbn in H; discriminate H). cbn [is_number negb].
    unfold known_int in Hf. apply existsb_exists in Hf. destruct Hf as [x [Hin Hx]].
    apply ustr_eqb_eq in Hx. subst x.
    assert (Hs : as_u64 (JInt z) <> None \/ as_i64 (JInt z) <> None).
    { revert H. destruct (as_u64 (JInt z)); [intros _; left; discriminate|].
      destruct (as_i64 (JInt z)); [intros _; right; discriminate|]. intro H; discriminate H. }
    pose proof (known_int_lit name Hin z Hs Ef) as Hl. unfold int_lit_ok in Hl.
    destruct (is_nonzero_name name) eqn:En.
    + apply andb_true_iff in Hl. destruct Hl as [Hl _].
      eexists. split; [reflexivity|]. cbn [expr_typed]. rewrite Hg, ustr_eqb_refl, En, Hl. reflexivity.
    + eexists. split; [reflexivity|]. cbn [expr_typed]. rewrite Hg, ustr_eqb_refl, En, Hl. reflexivity.
  - (* float *)
    apply negb_true_iff in Hf.
    revert H. destruct (is_number d) eqn:En; intro H; [|discriminate H]. cbn [negb]. rewrite Hf.
    eexists. split; [reflexivity|]. cbn [expr_typed]. rewrite Hg, ustr_eqb_refl, En. reflexivity.
  - (* string *) destruct d; try discriminate H. eexists. split; [reflexivity|]. cbn [expr_typed]. rewrite Hg. reflexivity.
  - (* json *) eexists. split; [reflexivity|]. cbn [expr_typed]. rewrite Hg. reflexivity.
Qed.

(* ================================================================== exactness on the structural fragment *)
Fixpoint efrag (T : space) (fuel : nat) (t : id) {struct fuel} : bool :=
  match fuel with
  | O => false
  | S n =>
      match get_det T t with
      | Some DBoolean | Some DString | Some DUnit => true
      | Some (DInteger nm) => known_int nm
      | Some (DFloat nm) => negb (is_nonzero_name nm)
      | Some (DOption x) | Some (DBox x) | Some (DVec x) | Some (DSet x) | Some (DArray x _)
      | Some (DNewtype _ _ x _) => efrag T n x
      | Some (DTuple ts) => forallb (efrag T n) ts
      | _ => false
      end
  end.

Lemma efrag_get : forall T n t, efrag T n t = true -> exists d, get_det T t = Some d.
Proof. intros T n t H. destruct n; cbn in H; [discriminate|]. destruct (get_det T t); [eauto|discriminate]. Qed.

Definition Exact (T : space) (d : json) (e : expr) : Prop :=
  exists r, eval_expr T e = Some r /\ approx d r = true.

Lemma map_r_rel : forall A B (P : A -> B -> Prop) (f : A -> res B) l,
  (forall x, In x l -> exists e, f x = ROk e /\ P x e) ->
  exists es, map_r f l = ROk es /\ Forall2 P l es.
Proof.
  intros A B P f l. induction l as [|y l IH]; intros H.
  - exists []. split; [reflexivity|constructor].
  - destruct (H y (or_introl eq_refl)) as [e [He Pe]].
    destruct (IH (fun x Hx => H x (or_intror Hx))) as [es [Hes Pes]].
    exists (e :: es). cbn. rewrite He. cbn. rewrite Hes. cbn. split; [reflexivity|constructor; assumption].
Qed.

Lemma exact_split : forall T l es, Forall2 (Exact T) l es ->
  exists rs, Forall2 (fun e r => eval_expr T e = Some r) es rs /\ Forall2 (fun x r => approx x r = true) l rs.
Proof.
  intros T l es H. induction H as [|x e l es [r [Hr Ha]] _ [rs [IH1 IH2]]].
  - exists []. split; constructor.
  - exists (r :: rs). split; constructor; assumption.
Qed.

Ltac eval_list_tac H :=
  cbn [eval_expr];
  match goal with |- option_map _ (?f ?es) = _ =>
    match type of H with Forall2 _ _ ?rs =>
      let Hgo := fresh "Hgo" in
      assert (Hgo : f es = Some rs) by
        (induction H as [|e r es' rs' He _ IH]; [reflexivity|]; cbn; rewrite He; cbn in IH |- *; rewrite IH; reflexivity);
      rewrite Hgo; reflexivity
    end
  end.

Lemma eval_vec : forall T es rs, Forall2 (fun e r => eval_expr T e = Some r) es rs -> eval_expr T (EVec es) = Some (JArr rs).
Proof. intros T es rs H. eval_list_tac H. Qed.
Lemma eval_arr : forall T es rs, Forall2 (fun e r => eval_expr T e = Some r) es rs -> eval_expr T (EArray es) = Some (JArr rs).
Proof. intros T es rs H. eval_list_tac H. Qed.
Lemma eval_tup : forall T es rs, Forall2 (fun e r => eval_expr T e = Some r) es rs -> eval_expr T (ETuple es) = Some (JArr rs).
Proof. intros T es rs H. eval_list_tac H. Qed.

Lemma approx_arr : forall l rs, Forall2 (fun x r => approx x r = true) l rs -> approx (JArr l) (JArr rs) = true.
Proof. intros l rs H. cbn [approx]. induction H as [|x r l rs Hx _ IH]; [reflexivity|]. cbn. rewrite Hx. exact IH. Qed.

Lemma forall2_combine : forall (Q : json -> expr -> Prop) ts arr es, length arr = length ts ->
  Forall2 (fun (p : id * json) e => Q (snd p) e) (combine ts arr) es -> Forall2 Q arr es.
Proof.
  intros Q ts. induction ts as [|t ts IH]; intros arr es Hl H.
  - destruct arr; [|discriminate Hl]. cbn in H. inversion H. constructor.
  - destruct arr as [|x arr]; [discriminate Hl|]. cbn in Hl. injection Hl as Hl. cbn in H. inversion H; subst.
    constructor; [assumption|]. apply IH; assumption.
Qed.

Lemma exact_list : forall T l es, Forall2 (Exact T) l es ->
  exists rs, Forall2 (fun e r => eval_expr T e = Some r) es rs /\ approx (JArr l) (JArr rs) = true.
Proof.
  intros T l es H. destruct (exact_split _ _ _ H) as [rs [H1 H2]]. exists rs. split; [exact H1|exact (approx_arr _ _ H2)].
Qed.

Theorem efrag_exact_fill : forall re T n' f filling t d k,
  validate_value re T f t d = ROk k -> efrag T n' t = true ->
  exists e, output_fill T n' filling t d = ROk e /\ Exact T d e.
Proof.
  intros re T n'. induction n' as [|n1 IH]; intros f filling t d k H Hf; [discriminate Hf|].
  destruct f as [|n]; [discriminate H|].
  cbn [validate_value] in H. cbn [efrag] in Hf. cbn [output_fill].
  destruct (get_det T t) as [det|] eqn:Hg; [|discriminate H].
  destruct det; try discriminate Hf; cbn [validate_det] in H; cbn [output_det].
  - (* newtype *)
    apply rbind_ok in H. destruct H as [k' [Hk _]].
    destruct (IH _ filling _ _ _ Hk Hf) as [e [He [r [Er Ar]]]]. rewrite He. cbn.
    eexists. split; [reflexivity|]. exists r. split; [exact Er|exact Ar].
  - (* option *)
    destruct d; try (apply rbind_ok in H; destruct H as [k' [Hk _]];
                     destruct (IH _ filling _ _ _ Hk Hf) as [e [He [r [Er Ar]]]]; rewrite He; cbn;
                     eexists; split; [reflexivity|]; exists r; split; [exact Er|exact Ar]).
    eexists. split; [reflexivity|]. exists JNull. split; reflexivity.
  - (* box *)
    destruct (IH _ filling _ _ _ H Hf) as [e [He [r [Er Ar]]]]. rewrite He. cbn.
    eexists. split; [reflexivity|]. exists r. split; [exact Er|exact Ar].
  - (* vec *)
    destruct d; try discriminate H. cbn.
    destruct (efrag_get _ _ _ Hf) as [dx Hx]. rewrite Hx.
    assert (Hall : forall x, In x l -> exists e, output_fill T n1 filling t0 x = ROk e /\ Exact T x e).
    { intros x Hin. destruct l as [|y l]; [destruct Hin|].
      apply rbind_ok in H. destruct H as [uu [Hu _]]. destruct uu.
      destruct (each_ok_in _ _ _ _ Hu x Hin) as [k' Hk]. exact (IH _ filling _ _ _ Hk Hf). }
    destruct (map_r_rel _ _ _ _ _ Hall) as [es [Hes Pes]]. rewrite Hes. cbn.
    destruct (exact_list _ _ _ Pes) as [rs [Ers Ars]].
    eexists. split; [reflexivity|]. exists (JArr rs). split; [exact (eval_vec _ _ _ Ers)|exact Ars].
  - (* set *)
    destruct d; try discriminate H. cbn.
    destruct (efrag_get _ _ _ Hf) as [dx Hx]. rewrite Hx.
    assert (Hall : forall x, In x l -> exists e, output_fill T n1 filling t0 x = ROk e /\ Exact T x e).
    { intros x Hin. destruct l as [|y l]; [destruct Hin|]. rewrite Hx in H.
      apply rbind_ok in H. destruct H as [uu [Hu _]]. destruct uu.
      destruct (v_set_elems_in _ _ _ Hu x Hin) as [k' Hk]. exact (IH _ filling _ _ _ Hk Hf). }
    destruct (map_r_rel _ _ _ _ _ Hall) as [es [Hes Pes]]. rewrite Hes. cbn.
    destruct (exact_list _ _ _ Pes) as [rs [Ers Ars]].
    eexists. split; [reflexivity|]. exists (JArr rs). split; [exact (eval_vec _ _ _ Ers)|exact Ars].
  - (* array *)
    destruct d; try discriminate H. cbn.
    destruct (N.of_nat (length l) =? n0) eqn:El; [|discriminate H]. cbn [negb] in H.
    destruct (efrag_get _ _ _ Hf) as [dx Hx]. rewrite Hx in H |- *.
    assert (Hall : forall x, In x l -> exists e, output_fill T n1 filling t0 x = ROk e /\ Exact T x e).
    { intros x Hin. apply rbind_ok in H. destruct H as [uu [Hu _]]. destruct uu.
      destruct (each_ok_in _ _ _ _ Hu x Hin) as [k' Hk]. exact (IH _ filling _ _ _ Hk Hf). }
    destruct (map_r_rel _ _ _ _ _ Hall) as [es [Hes Pes]]. rewrite Hes. cbn.
    destruct (exact_list _ _ _ Pes) as [rs [Ers Ars]].
    eexists. split; [reflexivity|]. exists (JArr rs). split; [exact (eval_arr _ _ _ Ers)|exact Ars].
  - (* tuple *)
    unfold v_tuple in H. unfold o_tuple.
    apply rbind_ok in H. destruct H as [arr [Ha H]]. rewrite Ha. cbn [rbind].
    destruct (Nat.eqb (length arr) (length ts)) eqn:El; [|discriminate H]. cbn [negb] in H |- *.
    apply rbind_ok in H. destruct H as [b [Hb H]]. destruct b; [|discriminate H].
    apply Nat.eqb_eq in El.
    assert (Hall : forall p, In p (combine ts arr) ->
              exists e, (let '(t1, x1) := p in output_fill T n1 filling t1 x1) = ROk e /\ Exact T (snd p) e).
    { intros p Hin. destruct (all_is_ok_true_in _ _ _ _ Hb p Hin) as [k' Hk]. destruct p as [t1 x1].
      apply in_combine_l in Hin. exact (IH _ filling _ _ _ Hk (proj1 (forallb_forall _ _) Hf t1 Hin)). }
    destruct (map_r_rel _ _ (fun p e => Exact T (snd p) e) _ _ Hall) as [es [Hes Pes]]. rewrite Hes. cbn [rbind].
    apply forall2_combine in Pes; [|exact El].
    destruct (exact_list _ _ _ Pes) as [rs [Ers Ars]].
    destruct d; try discriminate Ha. cbn in Ha. inversion Ha; subst.
    eexists. split; [reflexivity|]. exists (JArr rs). split; [exact (eval_tup _ _ _ Ers)|exact Ars].
  - (* unit *) destruct d; try discriminate H. eexists. split; [reflexivity|]. exists JNull. split; reflexivity.
  - (* boolean *) destruct d; try discriminate H. eexists. split; [reflexivity|]. exists (JBool b). split; [reflexivity|].
    destruct b; reflexivity.
  - (* integer *)
    destruct (integer_fits name d) eqn:Ef; [|discriminate H]. cbn [negb] in H.
    destruct d; try (cbn in H; discriminate H). cbn [is_number negb].
    unfold known_int in Hf. apply existsb_exists in Hf. destruct Hf as [x [Hin Hx]].
    apply ustr_eqb_eq in Hx. subst x.
    assert (Hs : as_u64 (JInt z) <> None \/ as_i64 (JInt z) <> None).
    { revert H. destruct (as_u64 (JInt z)); [intros _; left; discriminate|].
      destruct (as_i64 (JInt z)); [intros _; right; discriminate|]. intro H; discriminate H. }
    pose proof (known_int_lit name Hin z Hs Ef) as Hl. unfold int_lit_ok in Hl.
    destruct (is_nonzero_name name) eqn:En.
    + apply andb_true_iff in Hl. destruct Hl as [_ Hz]. apply negb_true_iff in Hz.
      eexists. split; [reflexivity|]. exists (JInt z). cbn [eval_expr is_zero_number]. rewrite Hz.
      split; [reflexivity|]. cbn. apply Z.eqb_refl.
    + eexists. split; [reflexivity|]. exists (JInt z). split; [reflexivity|]. cbn. apply Z.eqb_refl.
  - (* float *)
    apply negb_true_iff in Hf.
    revert H. destruct (is_number d) eqn:En; intro H; [|discriminate H]. cbn [negb]. rewrite Hf.
    eexists. split; [reflexivity|]. exists d. split; [reflexivity|].
    destruct d; try discriminate En; cbn; [apply Z.eqb_refl|apply Qeq_bool_iff; reflexivity].
  - (* string *) destruct d; try discriminate H. eexists. split; [reflexivity|]. exists (JStr s). split; [reflexivity|].
    cbn. apply ustr_eqb_refl.
Qed.

Theorem efrag_exact : forall re T n' f t d k,
  validate_value re T f t d = ROk k -> efrag T n' t = true ->
  exists e, output_value T n' t d = ROk e /\ Exact T d e.
Proof. intros. unfold output_value. eapply efrag_exact_fill; eauto. Qed.


(* ------------------------------------------------------------------ ex finding C06-F12 (fixed by a08c818) *)
(* Pt { x : i64 (required), y : i64 with its own default 7 }: the default {"x":1} validates and now renders
   `Pt { x: 1_i64, y: 7_i64 }` -- typed, free of `Default::default()` fill-ins of defaulted members, and denoting
   {"x":1,"y":7}, which is [approx] the schema default (y is a filled nested default) *)
Definition Tf12 : space := mk_space [
  (1, ent (DInteger (u "i64")));
  (2, ent (DStruct (u "Pt") None [mkProp (u "x") TypeIR.RNone PRequired 1;
                                  mkProp (u "y") TypeIR.RNone (PDefault (JInt 7)) 1] false))
]%N.
Definition Known_F12 (T : space) (e : expr) : Prop := expr_any (is_f12 T) e = true.

Lemma nested_default_fill_example :
  exists e, output_value Tf12 3 2 (JObj [(u "x", JInt 1)]) = ROk e /\
            e = EStruct (u "Pt") [(FId (u "x"), ENum (JInt 1) (u "i64")); (FId (u "y"), ENum (JInt 7) (u "i64"))] /\
            expr_typed Tf12 3 e 2 = true /\ expr_any (is_f12 Tf12) e = false /\
            eval_expr Tf12 e = Some (JObj [(u "x", JInt 1); (u "y", JInt 7)]) /\
            approx (JObj [(u "x", JInt 1)]) (JObj [(u "x", JInt 1); (u "y", JInt 7)]) = true.
Proof. eexists. repeat split; vm_compute; reflexivity. Qed.

(* ================================================================== exactness incl. structs *)
(* JSON values as serde_json produces them: object keys are unique *)
Fixpoint wf_json (v : json) {struct v} : bool :=
  match v with
  | JArr l => (fix go (l : list json) : bool := match l with [] => true | x :: r => wf_json x && go r end) l
  | JObj m => distinct (map fst m) &&
              (fix go (m : list (ustring * json)) : bool :=
                 match m with [] => true | (_, x) :: r => wf_json x && go r end) m
  | _ => true
  end.

Lemma wf_arr : forall l, wf_json (JArr l) = true -> forall x, In x l -> wf_json x = true.
Proof.
  intros l H. cbn [wf_json] in H. induction l as [|y l IH]; intros x Hin; [destruct Hin|].
  apply andb_true_iff in H. destruct H as [Hy Hl]. destruct Hin as [<-|Hin]; [exact Hy|exact (IH Hl x Hin)].
Qed.

Lemma wf_obj : forall m, wf_json (JObj m) = true ->
  distinct (map fst m) = true /\ forall k x, In (k, x) m -> wf_json x = true.
Proof.
  intros m H. cbn [wf_json] in H. apply andb_true_iff in H. destruct H as [Hd H]. split; [exact Hd|].
  clear Hd. induction m as [|[k0 y] m IH]; intros k x Hin; [destruct Hin|].
  apply andb_true_iff in H. destruct H as [Hy Hm]. destruct Hin as [E|Hin]; [inversion E; subst; exact Hy|exact (IH Hm k x Hin)].
Qed.

Lemma distinct_fst_unique : forall (m : list (ustring * json)) k a b,
  distinct (map fst m) = true -> In (k, a) m -> In (k, b) m -> a = b.
Proof.
  induction m as [|[k0 y] m IH]; intros k a b Hd Ha Hb; [destruct Ha|].
  cbn in Hd. apply andb_true_iff in Hd. destruct Hd as [Hn Hd]. apply negb_true_iff in Hn.
  assert (Hno : forall v, In (k0, v) m -> False).
  { intros v Hv. assert (mem_ustr k0 (map fst m) = true) by (apply mem_ustr_in; change k0 with (fst (k0, v)); apply in_map; exact Hv).
    congruence. }
  destruct Ha as [Ea|Ha]; destruct Hb as [Eb|Hb].
  - congruence.
  - inversion Ea; subst. exfalso. exact (Hno _ Hb).
  - inversion Eb; subst. exfalso. exact (Hno _ Ha).
  - exact (IH _ _ _ Hd Ha Hb).
Qed.

Lemma in_assoc_some : forall A (m : list (ustring * A)) k u, In (k, u) m -> exists v, assoc k m = Some v.
Proof.
  intros A m. induction m as [|[k0 y] m IH]; intros k u Hin; [destruct Hin|]. cbn.
  destruct (ustr_eqb k k0) eqn:E; [eauto|]. destruct Hin as [E2|Hin]; [inversion E2; subst; rewrite ustr_eqb_refl in E; discriminate|exact (IH _ _ Hin)].
Qed.

Lemma wire_names_in : forall ps k, In k (wire_names ps) -> exists q, In q ps /\ wire_name q = Some k.
Proof.
  induction ps as [|p ps IH]; intros k Hin; [destruct Hin|]. unfold wire_names in Hin. cbn in Hin.
  apply in_app_or in Hin. destruct Hin as [Hin|Hin].
  - destruct (wire_name p) eqn:E; [|destruct Hin]. destruct Hin as [<-|[]]. exists p. split; [now left|exact E].
  - destruct (IH k Hin) as [q [Hq Hw]]. exists q. split; [now right|exact Hw].
Qed.

Lemma approx_obj : forall m mr,
  (forall k u, In (k, u) m -> match assoc k mr with Some v => approx u v = true | None => is_empty_json u = true end) ->
  approx (JObj m) (JObj mr) = true.
Proof.
  intros m mr H. cbn [approx]. induction m as [|[k u] m IH]; [reflexivity|].
  cbn. pose proof (H k u (or_introl eq_refl)) as Hk. destruct (assoc k mr); rewrite Hk; cbn [andb];
    apply IH; intros k' u' Hin; exact (H k' u' (or_intror Hin)).
Qed.

Lemma approx_null_inv : forall x, approx x JNull = true -> x = JNull.
Proof. intros x H. destruct x; cbn in H; try discriminate H; reflexivity. Qed.
Lemma approx_nil_inv : forall x, approx x (JArr []) = true -> x = JArr [].
Proof. intros x H. destruct x; cbn in H; try discriminate H. destruct l; [reflexivity|discriminate H]. Qed.

Lemma skipped_empty : forall T p a x, skipped T p a = true -> approx x a = true ->
  (forall k v, get_det T (p_ty p) <> Some (DMap k v)) -> is_empty_json x = true.
Proof.
  intros T p a x Hs Ha Hnm. unfold skipped in Hs. destruct (p_state p); try discriminate Hs.
  destruct (get_det T (p_ty p)) as [d|] eqn:Hg; [|discriminate Hs]. destruct d; try discriminate Hs.
  - destruct a; try discriminate Hs. rewrite (approx_null_inv _ Ha). reflexivity.
  - destruct a; try discriminate Hs. destruct l; try discriminate Hs. rewrite (approx_nil_inv _ Ha). reflexivity.
  - exfalso. exact (Hnm _ _ eq_refl).
Qed.

(* ---------------------------------------------------------------- eval_expr on struct literals, one field at a time *)
Definition field_entry (T : space) (p : prop) (a : json) (mr : list (ustring * json)) : list (ustring * json) :=
  if skipped T p a then mr else
  match p_rename p with
  | TypeIR.RNone => (p_name p, a) :: mr
  | RRename s => (s, a) :: mr
  | RFlatten => mr
  end.

Lemma eval_struct_nil : forall T name def ps deny,
  find_named T name = Some (DStruct name def ps deny) -> eval_expr T (EStruct name []) = Some (JObj []).
Proof. intros T name def ps deny H. cbn [eval_expr]. rewrite H. reflexivity. Qed.

Lemma eval_struct_cons_default : forall T name fs n,
  eval_expr T (EStruct name ((FId n, EDefault) :: fs)) = eval_expr T (EStruct name fs).
Proof. intros T name fs n. cbn [eval_expr]. destruct (find_named T name) as [d|]; [|reflexivity]. destruct d; reflexivity. Qed.

Lemma eval_struct_cons : forall T name def ps deny fs mr n p e a,
  find_named T name = Some (DStruct name def ps deny) ->
  eval_expr T (EStruct name fs) = Some (JObj mr) ->
  find_prop n ps = Some p -> eval_expr T e = Some a -> p_rename p <> RFlatten ->
  eval_expr T (EStruct name ((FId n, e) :: fs)) = Some (JObj (field_entry T p a mr)).
Proof.
  intros T name def ps deny fs mr n p e a Hfn Hfs Hp He Hnf.
  assert (Hne : e <> EDefault) by (intro E; subst e; cbn in He; discriminate He).
  cbn [eval_expr] in Hfs |- *. rewrite Hfn in Hfs |- *.
  match type of Hfs with option_map _ (?go ps fs) = _ => destruct (go ps fs) as [mr0|] eqn:Ego; [|discriminate Hfs] end.
  cbn in Hfs. inversion Hfs; subst mr0.
  unfold field_entry. rewrite ?Hp, ?He, ?Ego.
  destruct e; try (exfalso; apply Hne; reflexivity);
    (rewrite ?Hp, ?He, ?Ego; destruct (skipped T p a); [reflexivity|];
     destruct (p_rename p); [reflexivity|reflexivity|exfalso; apply Hnf; reflexivity]).
Qed.

(* ---------------------------------------------------------------- the struct step *)
(* direct members only (no flattened member), no map-typed Optional member at the top of a member type *)
Definition xprop_simple (T : space) (dok : id -> json -> bool) (fr : id -> bool) (p : prop) : bool :=
  match p_rename p with
  | RFlatten => false
  | _ => fr (p_ty p) &&
         match get_det T (p_ty p) with Some (DMap _ _) => false | _ => true end &&
         match p_state p with PDefault dv => dok (p_ty p) dv | _ => true end
  end.
Definition xprops_simple (T : space) (dok : id -> json -> bool) (fr : id -> bool) (ps : list prop) : bool :=
  forallb (xprop_simple T dok fr) ps && distinct (map p_name ps) && distinct (wire_names ps).

Lemma all_props_direct : forall T n ps, forallb (fun p => negb (is_flatten p)) ps = true ->
  flat_map_r (all_props T n) ps = ROk (map (pinfo_of T) ps).
Proof.
  intros T n ps. induction ps as [|p ps IH]; intros H; [reflexivity|]. cbn in H. apply andb_true_iff in H. destruct H as [Hp H].
  cbn [flat_map_r map]. rewrite (IH H).
  assert (Hw : exists k, wire_name p = Some k).
  { unfold is_flatten in Hp. unfold wire_name. destruct (p_rename p); try discriminate Hp; eauto. }
  destruct Hw as [k Hw]. unfold pinfo_of. destruct n; cbn [all_props]; rewrite Hw; reflexivity.
Qed.

Lemma unnamed_direct : forall T ps, forallb (fun p => negb (is_flatten p)) ps = true -> unnamed_of (map (pinfo_of T) ps) = [].
Proof.
  intros T ps. induction ps as [|p ps IH]; intros H; [reflexivity|]. cbn in H. apply andb_true_iff in H. destruct H as [Hp H].
  cbn [map]. rewrite unnamed_cons, (IH H), app_nil_r.
  unfold is_flatten in Hp. unfold pinfo_of, wire_name. destruct (p_rename p); try discriminate Hp; reflexivity.
Qed.

Section XStruct.
  Variable T : space.
  Variable n : nat.
  Variable vrec : id -> json -> res kind.
  Variable orec : id -> json -> res expr.
  Variable fr : id -> bool.
  Variable dok : id -> json -> bool.
  Variable filling : list fkey.
  Variable recfill : fkey -> id -> json -> res expr.
  Variable self : id.
  Variable vid : ustring.
  Hypothesis IHrec : forall t x k, vrec t x = ROk k -> wf_json x = true -> fr t = true ->
    exists e, orec t x = ROk e /\ Exact T x e.
  Hypothesis IHdef : forall nm t dv, dok t dv = true -> fr t = true ->
    exists e, recfill (self, vid, nm) t dv = ROk e /\ Exact T dv e.

  Lemma struct_step_exact : forall name def ps deny d k,
    find_named T name = Some (DStruct name def ps deny) ->
    v_struct_props vrec (all_props T n) ps d = ROk k -> wf_json d = true -> xprops_simple T dok fr ps = true ->
    exists fs, o_struct_props T orec filling recfill self vid ps d = ROk fs /\ Exact T d (EStruct name fs).
  Proof.
    intros name def ps deny d k Hfn H Hwf Hs. unfold xprops_simple in Hs.
    apply andb_true_iff in Hs. destruct Hs as [Hs Hdw]. apply andb_true_iff in Hs. destruct Hs as [Hall Hdn].
    assert (Hnofl : forallb (fun p => negb (is_flatten p)) ps = true).
    { apply forallb_forall. intros p Hp. pose proof (proj1 (forallb_forall _ _) Hall p Hp) as Hx.
      unfold xprop_simple in Hx. unfold is_flatten. destruct (p_rename p); [reflexivity|reflexivity|discriminate Hx]. }
    unfold v_struct_props in H.
    apply rbind_ok in H. destruct H as [m [Hm H]]. apply of_opt_ok in Hm.
    assert (Ed : d = JObj m) by (destruct d; cbn in Hm; try discriminate Hm; inversion Hm; reflexivity). subst d.
    destruct (wf_obj _ Hwf) as [Hdm Hwfm].
    rewrite (all_props_direct _ _ _ Hnofl) in H. cbn [rbind] in H.
    apply rbind_ok in H. destruct H as [u1 [He1 _]]. destruct u1.
    set (named := named_of (map (pinfo_of T) ps)) in *.
    rewrite (unnamed_direct _ _ Hnofl) in He1.
    assert (Hnamed : forall p nm, In p ps -> wire_name p = Some nm -> assoc nm named = Some (p_ty p, is_required p)).
    { intros p nm Hin Hw. unfold named. rewrite named_of_fold. apply fold_named_in.
      - rewrite names_of_pinfo. exact Hdw.
      - apply in_map_iff. exists p. split; [|exact Hin]. unfold pinfo_of. rewrite Hw. reflexivity. }
    assert (Hkeys : forall key x, In (key, x) m -> mem_ustr key (wire_names ps) = true).
    { intros key x Hin. destruct (mem_ustr key (wire_names ps)) eqn:E; [reflexivity|exfalso].
      destruct (each_ok_in _ _ _ _ He1 (key, x) Hin) as [b Hb]. cbn beta iota in Hb.
      assert (Hnone : assoc key named = None).
      { unfold named. rewrite named_of_fold. rewrite fold_named_notin; [reflexivity|]. rewrite names_of_pinfo. exact E. }
      rewrite Hnone in Hb. cbn in Hb. discriminate Hb. }
    assert (F1 : forall p nm x, In p ps -> wire_name p = Some nm -> In (nm, x) m -> exists kk, vrec (p_ty p) x = ROk kk).
    { intros p nm x Hp Hw Hin. destruct (each_ok_in _ _ _ _ He1 (nm, x) Hin) as [b Hb]. cbn beta iota in Hb.
      rewrite (Hnamed p nm Hp Hw) in Hb. apply rbind_ok in Hb. destruct Hb as [kk [Hk _]]. eauto. }
    unfold o_struct_props, flatten_remainder, direct_wire_names. cbn [as_object of_opt rbind]. cbv zeta.
    assert (HD : forall qs, (forall q, In q qs -> In q ps) -> distinct (wire_names qs) = true ->
      exists dl mr, filter_map_r (fun p =>
          match wire_name p with
          | None => ROk None
          | Some name0 =>
              match assoc name0 m with
              | Some x => rbind (optional (orec (p_ty p) x)) (fun oe => ROk (option_map (fun e => (FId (p_name p), e)) oe))
              | None =>
                  match p_state p with
                  | PDefault dv =>
                      if in_filling (self, vid, p_name p) filling then ROk (Some (FId (p_name p), EDefault)) else
                      rbind (optional (recfill (self, vid, p_name p) (p_ty p) dv)) (fun oe => ROk (option_map (fun e => (FId (p_name p), e)) oe))
                  | _ => ROk (Some (FId (p_name p), EDefault))
                  end
              end
          end) qs = ROk dl /\
        eval_expr T (EStruct name dl) = Some (JObj mr) /\
        (forall k0 a, assoc k0 mr = Some a -> In k0 (wire_names qs)) /\
        (forall q k0 u, In q qs -> wire_name q = Some k0 -> In (k0, u) m ->
           match assoc k0 mr with Some a => approx u a = true | None => is_empty_json u = true end)).
    { induction qs as [|q qs IHq]; intros Hsub Hdq.
      - exists [], []. split; [reflexivity|]. split; [exact (eval_struct_nil _ _ _ _ _ Hfn)|]. split.
        + intros k0 a Ha. discriminate Ha.
        + intros q k0 u [].
      - pose proof (Hsub q (or_introl eq_refl)) as Hq.
        pose proof (proj1 (forallb_forall _ _) Hall q Hq) as Hqs. unfold xprop_simple in Hqs.
        assert (Hw : exists k0, wire_name q = Some k0 /\ p_rename q <> RFlatten).
        { unfold wire_name. destruct (p_rename q); try discriminate Hqs; eexists; split; try reflexivity; discriminate. }
        destruct Hw as [k0 [Hw Hnf]].
        assert (Hqs' : fr (p_ty q) = true /\ (forall kk vv, get_det T (p_ty q) <> Some (DMap kk vv)) /\
                       match p_state q with PDefault dv => dok (p_ty q) dv | _ => true end = true).
        { destruct (p_rename q); try (exfalso; apply Hnf; reflexivity);
            (apply andb_true_iff in Hqs; destruct Hqs as [Hqs H3]; apply andb_true_iff in Hqs; destruct Hqs as [H1 H2];
             split; [exact H1|split; [|exact H3]]; intros kk vv E; rewrite E in H2; discriminate H2). }
        destruct Hqs' as [Hfr [Hnm Hdef]].
        assert (Hdq' : mem_ustr k0 (wire_names qs) = false /\ distinct (wire_names qs) = true).
        { unfold wire_names in Hdq. cbn in Hdq. rewrite Hw in Hdq. cbn in Hdq. apply andb_true_iff in Hdq.
          destruct Hdq as [A B]. apply negb_true_iff in A. split; assumption. }
        destruct Hdq' as [Hk0 Hdqs].
        destruct (IHq (fun q' Hq' => Hsub q' (or_intror Hq')) Hdqs) as [dl [mr [Hdl [Hev [Hkeysmr Hinv]]]]].
        assert (Hmr0 : assoc k0 mr = None).
        { destruct (assoc k0 mr) eqn:E; [|reflexivity]. exfalso. pose proof (Hkeysmr _ _ E) as Hin.
          apply mem_ustr_in in Hin. congruence. }
        assert (Hother : forall q' k' , In q' qs -> wire_name q' = Some k' -> ustr_eqb k' k0 = false).
        { intros q' k' Hq' Hw'. destruct (ustr_eqb k' k0) eqn:E; [|reflexivity]. exfalso. apply ustr_eqb_eq in E. subst k'.
          assert (In k0 (wire_names qs)).
          { unfold wire_names. apply in_flat_map. exists q'. split; [exact Hq'|]. rewrite Hw'. now left. }
          apply mem_ustr_in in H. congruence. }
        assert (Hfp : find_prop (p_name q) ps = Some q) by (exact (find_prop_distinct _ _ Hdn Hq)).
        assert (Hwn : forall a mr0, field_entry T q a mr0 = if skipped T q a then mr0 else (k0, a) :: mr0).
        { intros a mr0. unfold field_entry. destruct (skipped T q a); [reflexivity|].
          unfold wire_name in Hw. destruct (p_rename q); inversion Hw; try reflexivity. }
        cbn [filter_map_r]. rewrite Hw.
        (* a rendered member (present in the value, or taking its own default) *)
        assert (Hrend : forall e a, eval_expr T e = Some a ->
                  (forall u, In (k0, u) m -> approx u a = true) ->
                  exists mr', eval_expr T (EStruct name ((FId (p_name q), e) :: dl)) = Some (JObj mr') /\
                    (forall k1 a1, assoc k1 mr' = Some a1 -> In k1 (wire_names (q :: qs))) /\
                    (forall q' k1 u, In q' (q :: qs) -> wire_name q' = Some k1 -> In (k1, u) m ->
                       match assoc k1 mr' with Some a1 => approx u a1 = true | None => is_empty_json u = true end)).
        { intros e a Hea Happ. exists (field_entry T q a mr).
          split; [exact (eval_struct_cons _ _ _ _ _ _ _ _ _ _ _ Hfn Hev Hfp Hea Hnf)|]. rewrite Hwn.
          assert (Hwq : forall k1, In k1 (wire_names qs) -> In k1 (wire_names (q :: qs))).
          { intros k1 H1. unfold wire_names. cbn. apply in_or_app. right. exact H1. }
          assert (Hwq0 : In k0 (wire_names (q :: qs))).
          { unfold wire_names. cbn. rewrite Hw. now left. }
          split.
          - intros k1 a1 Ha1. destruct (skipped T q a); [exact (Hwq _ (Hkeysmr _ _ Ha1))|].
            cbn in Ha1. destruct (ustr_eqb k1 k0) eqn:E; [apply ustr_eqb_eq in E; subst; exact Hwq0|exact (Hwq _ (Hkeysmr _ _ Ha1))].
          - intros q' k1 u [<-|Hq'] Hw' Hin.
            + rewrite Hw in Hw'. inversion Hw'; subst k1. destruct (skipped T q a) eqn:Esk.
              * rewrite Hmr0. exact (skipped_empty _ _ _ _ Esk (Happ u Hin) Hnm).
              * cbn. rewrite ustr_eqb_refl. exact (Happ u Hin).
            + pose proof (Hother q' k1 Hq' Hw') as Hne. destruct (skipped T q a); [exact (Hinv q' k1 u Hq' Hw' Hin)|].
              cbn. rewrite Hne. exact (Hinv q' k1 u Hq' Hw' Hin). }
        destruct (assoc k0 m) as [x|] eqn:Ea.
        + destruct (assoc_in _ _ _ _ Ea) as [k' [Hin' Ek]]. apply ustr_eqb_eq in Ek. subst k'.
          destruct (F1 q k0 x Hq Hw Hin') as [kk Hk].
          destruct (IHrec _ _ _ Hk (Hwfm _ _ Hin') Hfr) as [e [He [a [Hea Hap]]]].
          rewrite He. cbn [optional rbind option_map]. rewrite Hdl. cbn [rbind].
          destruct (Hrend e a Hea) as [mr' [Hev' [Hk' Hi']]].
          { intros u Hu. rewrite (distinct_fst_unique _ _ _ _ Hdm Hu Hin'). exact Hap. }
          exists ((FId (p_name q), e) :: dl), mr'. split; [reflexivity|]. split; [exact Hev'|]. split; [exact Hk'|exact Hi'].
        + assert (Hnoin : forall u, In (k0, u) m -> False).
          { intros u Hu. destruct (in_assoc_some _ _ _ _ Hu) as [v Hv]. congruence. }
          destruct (p_state q) as [| |dv] eqn:Est.
          * rewrite Hdl. cbn [rbind]. exists ((FId (p_name q), EDefault) :: dl), mr. split; [reflexivity|].
            split; [rewrite eval_struct_cons_default; exact Hev|]. split.
            -- intros k1 a1 Ha1. unfold wire_names. cbn. apply in_or_app. right. exact (Hkeysmr _ _ Ha1).
            -- intros q' k1 u [<-|Hq'] Hw' Hin; [rewrite Hw in Hw'; inversion Hw'; subst; exfalso; exact (Hnoin _ Hin)|exact (Hinv q' k1 u Hq' Hw' Hin)].
          * rewrite Hdl. cbn [rbind]. exists ((FId (p_name q), EDefault) :: dl), mr. split; [reflexivity|].
            split; [rewrite eval_struct_cons_default; exact Hev|]. split.
            -- intros k1 a1 Ha1. unfold wire_names. cbn. apply in_or_app. right. exact (Hkeysmr _ _ Ha1).
            -- intros q' k1 u [<-|Hq'] Hw' Hin; [rewrite Hw in Hw'; inversion Hw'; subst; exfalso; exact (Hnoin _ Hin)|exact (Hinv q' k1 u Hq' Hw' Hin)].
          * destruct (in_filling (self, vid, p_name q) filling) eqn:Ein.
            { (* fd85c79: this member default is already being rendered: left to Default::default() *)
              rewrite Hdl. cbn [rbind]. exists ((FId (p_name q), EDefault) :: dl), mr. split; [reflexivity|].
              split; [rewrite eval_struct_cons_default; exact Hev|]. split.
              - intros k1 a1 Ha1. unfold wire_names. cbn. apply in_or_app. right. exact (Hkeysmr _ _ Ha1).
              - intros q' k1 u [<-|Hq'] Hw' Hin; [rewrite Hw in Hw'; inversion Hw'; subst; exfalso; exact (Hnoin _ Hin)|exact (Hinv q' k1 u Hq' Hw' Hin)]. }
            destruct (IHdef (p_name q) _ _ Hdef Hfr) as [e [He [a [Hea _]]]].
            rewrite He. cbn [optional rbind option_map]. rewrite Hdl. cbn [rbind].
            destruct (Hrend e a Hea) as [mr' [Hev' [Hk' Hi']]].
            { intros u Hu. exfalso. exact (Hnoin _ Hu). }
            exists ((FId (p_name q), e) :: dl), mr'. split; [reflexivity|]. split; [exact Hev'|]. split; [exact Hk'|exact Hi']. }
    destruct (HD ps (fun q Hq => Hq) Hdw) as [dl [mr [Hdl [Hev [_ Hinv]]]]].
    change (flat_map (fun p => match wire_name p with Some n0 => [n0] | None => [] end) ps) with (wire_names ps).
    rewrite Hdl. cbn [rbind].
    assert (Hfl : forall qs, forallb (fun p => negb (is_flatten p)) qs = true ->
              filter_map_r (fun p =>
                match p_rename p with
                | RFlatten =>
                    match get_det T (p_ty p) with
                    | None => RPanic
                    | Some (DStruct _ _ _ _) | Some (DOption _) | Some (DMap _ _) =>
                        rbind (optional (orec (p_ty p) (JObj (filter (fun '(k0, _) => negb (mem_ustr k0 (wire_names ps))) m))))
                              (fun oe => ROk (option_map (fun e => (FId (p_name p), e)) oe))
                    | Some _ => RPanic
                    end
                | _ => ROk None
                end) qs = ROk []).
    { induction qs as [|q qs IHq]; intros Hq; [reflexivity|]. cbn in Hq. apply andb_true_iff in Hq. destruct Hq as [Hq1 Hq2].
      cbn [filter_map_r]. unfold is_flatten in Hq1. destruct (p_rename q); try discriminate Hq1; cbn [rbind]; rewrite (IHq Hq2); reflexivity. }
    rewrite (Hfl ps Hnofl). cbn [rbind]. rewrite app_nil_r.
    exists dl. split; [reflexivity|]. exists (JObj mr). split; [exact Hev|].
    apply approx_obj. intros k0 u Hin.
    pose proof (Hkeys k0 u Hin) as Hmem. apply mem_ustr_in in Hmem. destruct (wire_names_in _ _ Hmem) as [q [Hq Hw]].
    exact (Hinv q k0 u Hq Hw Hin).
  Qed.
End XStruct.

(* ---------------------------------------------------------------- the exactness theorem *)
Fixpoint xfrag (T : space) (dok : id -> json -> bool) (fuel : nat) (t : id) {struct fuel} : bool :=
  match fuel with
  | O => false
  | S n =>
      match get_det T t with
      | Some DBoolean | Some DString | Some DUnit => true
      | Some (DInteger nm) => known_int nm
      | Some (DFloat nm) => negb (is_nonzero_name nm)
      | Some (DOption x) | Some (DBox x) | Some (DVec x) | Some (DSet x) | Some (DArray x _)
      | Some (DNewtype _ _ x _) => xfrag T dok n x
      | Some (DTuple ts) => forallb (xfrag T dok n) ts
      | Some (DStruct _ _ ps _) => xprops_simple T dok (xfrag T dok n) ps
      | _ => false
      end
  end.

Lemma xfrag_get : forall T dok n t, xfrag T dok n t = true -> exists d, get_det T t = Some d.
Proof. intros T dok n t H. destruct n; cbn in H; [discriminate|]. destruct (get_det T t); [eauto|discriminate]. Qed.

(* struct names identify their entry (C16: type names are unique) *)
Definition named_ok (T : space) : Prop :=
  forall t name def ps deny, get_det T t = Some (DStruct name def ps deny) ->
    find_named T name = Some (DStruct name def ps deny).
(* member defaults were validated (check_defaults) and are JSON values with unique object keys *)
Definition defaults_validated_wf (re : ustring -> ustring -> bool) (T : space) (dok : id -> json -> bool) : Prop :=
  forall t dv, dok t dv = true -> wf_json dv = true /\ exists f k, validate_value re T f t dv = ROk k.

Theorem xfrag_exact_fill : forall re T dok, named_ok T -> defaults_validated_wf re T dok ->
  forall n' f filling t d k,
  validate_value re T f t d = ROk k -> wf_json d = true -> xfrag T dok n' t = true ->
  exists e, output_fill T n' filling t d = ROk e /\ Exact T d e.
Proof.
  intros re T dok Hnok Hdok n'. induction n' as [|n1 IH]; intros f filling t d k H Hwf Hf; [discriminate Hf|].
  destruct f as [|n]; [discriminate H|].
  cbn [validate_value] in H. cbn [xfrag] in Hf. cbn [output_fill].
  destruct (get_det T t) as [det|] eqn:Hg; [|discriminate H].
  destruct det; try discriminate Hf; cbn [validate_det] in H; cbn [output_det].
  - (* struct *)
    assert (IHrec : forall t x k, validate_value re T n t x = ROk k -> wf_json x = true -> xfrag T dok n1 t = true ->
              exists e, output_fill T n1 filling t x = ROk e /\ Exact T x e) by (intros; eapply IH; eauto).
    assert (IHdef : forall nm t0 dv, dok t0 dv = true -> xfrag T dok n1 t0 = true ->
              exists e, output_fill T n1 ((t, [], nm) :: filling) t0 dv = ROk e /\ Exact T dv e).
    { intros nm t' dv Hd Hf'. destruct (Hdok _ _ Hd) as [Hw [f0 [k0 Hv0]]]. exact (IH _ _ _ _ _ Hv0 Hw Hf'). }
    destruct (struct_step_exact T n (validate_value re T n) (output_fill T n1 filling) (xfrag T dok n1) dok filling
                (fun key => output_fill T n1 (key :: filling)) t [] IHrec IHdef _ _ _ _ _ _ (Hnok _ _ _ _ _ Hg) H Hwf Hf) as [fs [Hfs Ex]].
    rewrite Hfs. cbn [rbind]. eexists. split; [reflexivity|exact Ex].
  - (* newtype *)
    apply rbind_ok in H. destruct H as [k' [Hk _]].
    destruct (IH _ filling _ _ _ Hk Hwf Hf) as [e [He [r [Er Ar]]]]. rewrite He. cbn.
    eexists. split; [reflexivity|]. exists r. split; [exact Er|exact Ar].
  - (* option *)
    destruct d; try (apply rbind_ok in H; destruct H as [k' [Hk _]];
                     destruct (IH _ filling _ _ _ Hk Hwf Hf) as [e [He [r [Er Ar]]]]; rewrite He; cbn;
                     eexists; split; [reflexivity|]; exists r; split; [exact Er|exact Ar]).
    eexists. split; [reflexivity|]. exists JNull. split; reflexivity.
  - (* box *)
    destruct (IH _ filling _ _ _ H Hwf Hf) as [e [He [r [Er Ar]]]]. rewrite He. cbn.
    eexists. split; [reflexivity|]. exists r. split; [exact Er|exact Ar].
  - (* vec *)
    destruct d; try discriminate H. cbn.
    destruct (xfrag_get _ _ _ _ Hf) as [dx Hx]. rewrite Hx.
    assert (Hall : forall x, In x l -> exists e, output_fill T n1 filling t0 x = ROk e /\ Exact T x e).
    { intros x Hin. destruct l as [|y l]; [destruct Hin|].
      apply rbind_ok in H. destruct H as [uu [Hu _]]. destruct uu.
      destruct (each_ok_in _ _ _ _ Hu x Hin) as [k' Hk]. exact (IH _ filling _ _ _ Hk (wf_arr _ Hwf x Hin) Hf). }
    destruct (map_r_rel _ _ _ _ _ Hall) as [es [Hes Pes]]. rewrite Hes. cbn.
    destruct (exact_list _ _ _ Pes) as [rs [Ers Ars]].
    eexists. split; [reflexivity|]. exists (JArr rs). split; [exact (eval_vec _ _ _ Ers)|exact Ars].
  - (* set *)
    destruct d; try discriminate H. cbn.
    destruct (xfrag_get _ _ _ _ Hf) as [dx Hx]. rewrite Hx.
    assert (Hall : forall x, In x l -> exists e, output_fill T n1 filling t0 x = ROk e /\ Exact T x e).
    { intros x Hin. destruct l as [|y l]; [destruct Hin|]. rewrite Hx in H.
      apply rbind_ok in H. destruct H as [uu [Hu _]]. destruct uu.
      destruct (v_set_elems_in _ _ _ Hu x Hin) as [k' Hk]. exact (IH _ filling _ _ _ Hk (wf_arr _ Hwf x Hin) Hf). }
    destruct (map_r_rel _ _ _ _ _ Hall) as [es [Hes Pes]]. rewrite Hes. cbn.
    destruct (exact_list _ _ _ Pes) as [rs [Ers Ars]].
    eexists. split; [reflexivity|]. exists (JArr rs). split; [exact (eval_vec _ _ _ Ers)|exact Ars].
  - (* array *)
    destruct d; try discriminate H. cbn.
    destruct (N.of_nat (length l) =? n0) eqn:El; [|discriminate H]. cbn [negb] in H.
    destruct (xfrag_get _ _ _ _ Hf) as [dx Hx]. rewrite Hx in H |- *.
    assert (Hall : forall x, In x l -> exists e, output_fill T n1 filling t0 x = ROk e /\ Exact T x e).
    { intros x Hin. apply rbind_ok in H. destruct H as [uu [Hu _]]. destruct uu.
      destruct (each_ok_in _ _ _ _ Hu x Hin) as [k' Hk]. exact (IH _ filling _ _ _ Hk (wf_arr _ Hwf x Hin) Hf). }
    destruct (map_r_rel _ _ _ _ _ Hall) as [es [Hes Pes]]. rewrite Hes. cbn.
    destruct (exact_list _ _ _ Pes) as [rs [Ers Ars]].
    eexists. split; [reflexivity|]. exists (JArr rs). split; [exact (eval_arr _ _ _ Ers)|exact Ars].
  - (* tuple *)
    unfold v_tuple in H. unfold o_tuple.
    apply rbind_ok in H. destruct H as [arr [Ha H]]. rewrite Ha. cbn [rbind].
    destruct (Nat.eqb (length arr) (length ts)) eqn:El; [|discriminate H]. cbn [negb] in H |- *.
    apply rbind_ok in H. destruct H as [b [Hb H]]. destruct b; [|discriminate H].
    apply Nat.eqb_eq in El.
    destruct d; try discriminate Ha. cbn in Ha. inversion Ha; subst l.
    assert (Hall : forall p, In p (combine ts arr) ->
              exists e, (let '(t1, x1) := p in output_fill T n1 filling t1 x1) = ROk e /\ Exact T (snd p) e).
    { intros p Hin. destruct (all_is_ok_true_in _ _ _ _ Hb p Hin) as [k' Hk]. destruct p as [t1 x1].
      pose proof (in_combine_r _ _ _ _ Hin) as Hinr. apply in_combine_l in Hin.
      exact (IH _ filling _ _ _ Hk (wf_arr _ Hwf x1 Hinr) (proj1 (forallb_forall _ _) Hf t1 Hin)). }
    destruct (map_r_rel _ _ (fun p e => Exact T (snd p) e) _ _ Hall) as [es [Hes Pes]]. rewrite Hes. cbn [rbind].
    apply forall2_combine in Pes; [|exact El].
    destruct (exact_list _ _ _ Pes) as [rs [Ers Ars]].
    eexists. split; [reflexivity|]. exists (JArr rs). split; [exact (eval_tup _ _ _ Ers)|exact Ars].
  - (* unit *) destruct d; try discriminate H. eexists. split; [reflexivity|]. exists JNull. split; reflexivity.
  - (* boolean *) destruct d; try discriminate H. eexists. split; [reflexivity|]. exists (JBool b). split; [reflexivity|].
    destruct b; reflexivity.
  - (* integer *)
    destruct (integer_fits name d) eqn:Ef; [|discriminate H]. cbn [negb] in H.
    destruct d; try (cbn in H; discriminate H). cbn [is_number negb].
    unfold known_int in Hf. apply existsb_exists in Hf. destruct Hf as [x [Hin Hx]].
    apply ustr_eqb_eq in Hx. subst x.
    assert (Hs : as_u64 (JInt z) <> None \/ as_i64 (JInt z) <> None).
    { revert H. destruct (as_u64 (JInt z)); [intros _; left; discriminate|].
      destruct (as_i64 (JInt z)); [intros _; right; discriminate|]. intro H; discriminate H. }
    pose proof (known_int_lit name Hin z Hs Ef) as Hl. unfold int_lit_ok in Hl.
    destruct (is_nonzero_name name) eqn:En.
    + apply andb_true_iff in Hl. destruct Hl as [_ Hz]. apply negb_true_iff in Hz.
      eexists. split; [reflexivity|]. exists (JInt z). cbn [eval_expr is_zero_number]. rewrite Hz.
      split; [reflexivity|]. cbn. apply Z.eqb_refl.
    + eexists. split; [reflexivity|]. exists (JInt z). split; [reflexivity|]. cbn. apply Z.eqb_refl.
  - (* float *)
    apply negb_true_iff in Hf.
    revert H. destruct (is_number d) eqn:En; intro H; [|discriminate H]. cbn [negb]. rewrite Hf.
    eexists. split; [reflexivity|]. exists d. split; [reflexivity|].
    destruct d; try discriminate En; cbn; [apply Z.eqb_refl|apply Qeq_bool_iff; reflexivity].
  - (* string *) destruct d; try discriminate H. eexists. split; [reflexivity|]. exists (JStr s). split; [reflexivity|].
    cbn. apply ustr_eqb_refl.
Qed.

Theorem xfrag_exact : forall re T dok, named_ok T -> defaults_validated_wf re T dok ->
  forall n' f t d k,
  validate_value re T f t d = ROk k -> wf_json d = true -> xfrag T dok n' t = true ->
  exists e, output_value T n' t d = ROk e /\ Exact T d e.
Proof. intros. unfold output_value. eapply xfrag_exact_fill; eauto. Qed.


Lemma named_ok_Tf12 : named_ok Tf12.
Proof.
  intros t name def ps deny H. unfold get_det, get, Tf12, mk_space in H. cbn [sp_entries lookup_id] in H.
  destruct (N.eqb t 1); [cbn in H; discriminate H|]. destruct (N.eqb t 2); [|cbn in H; discriminate H].
  cbn in H. inversion H; subst. vm_compute. reflexivity.
Qed.

(* ================================================================== check_defaults covers every default of an entry *)
Lemma in_prop_default_checks : forall ps p v, In p ps -> p_state p = PDefault v -> In (p_ty p, v) (prop_default_checks ps).
Proof.
  intros ps p v Hin Hs. unfold prop_default_checks. apply in_flat_map. exists p. split; [exact Hin|]. rewrite Hs. now left.
Qed.

(* the whole-type default AND every member default (struct members, members of struct variants) are validated, and
   every Generic verdict registers its shared default function *)
Lemma check_defaults_covers : forall re T f self d,
  get_det T self = Some d -> check_defaults re T f self = ROk tt ->
  (forall t v, In (t, v) (entry_default_checks self d) ->
     exists k, validate_value re T f t v = ROk k /\
               (forall g, k = KGeneric g -> In g (registered_generics re T f self))).
Proof.
  intros re T f self d Hg H t v Hin. unfold check_defaults in H. rewrite Hg in H.
  destruct (each_ok_in _ _ _ _ H (t, v) Hin) as [k Hk]. cbn beta iota in Hk. exists k. split; [exact Hk|].
  intros g Eg. subst k. unfold registered_generics. rewrite Hg. apply in_flat_map. exists (t, v). split; [exact Hin|].
  cbn beta iota. rewrite Hk. now left.
Qed.

Lemma check_defaults_covers_members : forall re T f self,
  check_defaults re T f self = ROk tt ->
  (* the type-level default of a struct / enum / newtype *)
  (forall name v ps deny, get_det T self = Some (DStruct name (Some v) ps deny) -> exists k, validate_value re T f self v = ROk k) /\
  (forall name v tag vs deny bes, get_det T self = Some (DEnum name (Some v) tag vs deny bes) -> exists k, validate_value re T f self v = ROk k) /\
  (forall name v inner c, get_det T self = Some (DNewtype name (Some v) inner c) -> exists k, validate_value re T f self v = ROk k) /\
  (* every struct member default, whether or not the struct has a type-level default *)
  (forall name def ps deny p v, get_det T self = Some (DStruct name def ps deny) -> In p ps -> p_state p = PDefault v ->
     exists k, validate_value re T f (p_ty p) v = ROk k /\
               (forall g, k = KGeneric g -> In g (registered_generics re T f self))) /\
  (* every member default of every struct variant, whether or not the enum has a type-level default *)
  (forall name def tag vs deny bes var ps p v, get_det T self = Some (DEnum name def tag vs deny bes) ->
     In var vs -> v_det var = VStruct ps -> In p ps -> p_state p = PDefault v ->
     exists k, validate_value re T f (p_ty p) v = ROk k /\
               (forall g, k = KGeneric g -> In g (registered_generics re T f self))).
Proof.
  intros re T f self H. repeat split.
  - intros name v ps deny Hg. destruct (check_defaults_covers _ _ _ _ _ Hg H self v) as [k [Hk _]]; [|eauto].
    unfold entry_default_checks. apply in_or_app. left. now left.
  - intros name v tag vs deny bes Hg. destruct (check_defaults_covers _ _ _ _ _ Hg H self v) as [k [Hk _]]; [|eauto].
    unfold entry_default_checks. apply in_or_app. left. now left.
  - intros name v inner c Hg. destruct (check_defaults_covers _ _ _ _ _ Hg H self v) as [k [Hk _]]; [|eauto].
    unfold entry_default_checks. apply in_or_app. left. now left.
  - intros name def ps deny p v Hg Hin Hs. apply (check_defaults_covers _ _ _ _ _ Hg H).
    unfold entry_default_checks. apply in_or_app. right. exact (in_prop_default_checks _ _ _ Hin Hs).
  - intros name def tag vs deny bes var ps p v Hg Hvar Hd Hin Hs. apply (check_defaults_covers _ _ _ _ _ Hg H).
    unfold entry_default_checks. apply in_or_app. right. apply in_flat_map. exists var. split; [exact Hvar|].
    rewrite Hd. exact (in_prop_default_checks _ _ _ Hin Hs).
Qed.

(* non-vacuity / regression example: a struct WITH a type-level default whose member default is invalid is rejected,
   and with a valid member default the shared function is registered *)
Definition Tcd (pd : json) : space := mk_space [
  (1, ent (DInteger (u "u32")));
  (2, ent (DStruct (u "Inner") (Some (JObj [(u "n", JInt 5)])) [mkProp (u "n") TypeIR.RNone (PDefault pd) 1] false))
]%N.
Lemma check_defaults_example :
  check_defaults re0 (Tcd (JStr (u "three"))) 3 2 = RErr /\
  check_defaults re0 (Tcd (JInt 3)) 3 2 = ROk tt /\ registered_generics re0 (Tcd (JInt 3)) 3 2 = [GU64].
Proof. repeat split; vm_compute; reflexivity. Qed.

(* ================================================================== the flattened remainder *)
Lemma in_direct_wire_names : forall ps k, In k (direct_wire_names ps) <-> exists p, In p ps /\ wire_name p = Some k.
Proof.
  intros ps k. unfold direct_wire_names. rewrite in_flat_map. split.
  - intros [p [Hp Hk]]. exists p. split; [exact Hp|]. destruct (wire_name p); [destruct Hk as [<-|[]]; reflexivity|destruct Hk].
  - intros [p [Hp Hw]]. exists p. split; [exact Hp|]. rewrite Hw. now left.
Qed.

(* what value_for_struct_props hands to the flattened members is EXACTLY the entries whose key is not the serialized
   (wire) name -- the rename when there is one, not the Rust field identifier -- of a direct member *)
Lemma flatten_remainder_spec : forall ps m k x,
  In (k, x) (flatten_remainder ps m) <-> In (k, x) m /\ forall p, In p ps -> wire_name p <> Some k.
Proof.
  intros ps m k x. unfold flatten_remainder. rewrite filter_In. split.
  - intros [Hin Hn]. split; [exact Hin|]. intros p Hp Hw. apply negb_true_iff in Hn.
    assert (mem_ustr k (direct_wire_names ps) = true) by (apply mem_ustr_in; apply in_direct_wire_names; eauto). congruence.
  - intros [Hin Hn]. split; [exact Hin|]. apply negb_true_iff. destruct (mem_ustr k (direct_wire_names ps)) eqn:E; [|reflexivity].
    exfalso. apply mem_ustr_in in E. apply in_direct_wire_names in E. destruct E as [p [Hp Hw]]. exact (Hn p Hp Hw).
Qed.

(* regression example (seeded change: the remainder was computed from the Rust field names): Headers {
   #[serde(rename = "content-type")] content_type: Option<String>, #[serde(flatten)] extra: Map<String, String> } with
   the default {"content-type": "text/plain", "x-extra": "1"}: only "x-extra" goes to `extra` *)
Definition Thd : space := mk_space [
  (1, ent DString);
  (2, ent (DOption 1));
  (3, ent (DMap 1 1));
  (4, ent (DStruct (u "Headers") None
        [mkProp (u "content_type") (RRename (u "content-type")) POptional 2;
         mkProp (u "extra") RFlatten PRequired 3] false))
]%N.
Lemma flatten_remainder_example :
  flatten_remainder [mkProp (u "content_type") (RRename (u "content-type")) POptional 2; mkProp (u "extra") RFlatten PRequired 3]
    [(u "content-type", JStr (u "text/plain")); (u "x-extra", JStr (u "1"))] = [(u "x-extra", JStr (u "1"))] /\
  output_value Thd 4 4 (JObj [(u "content-type", JStr (u "text/plain")); (u "x-extra", JStr (u "1"))]) =
    ROk (EStruct (u "Headers") [(FId (u "content_type"), ESome (EStr (u "text/plain")));
                                (FId (u "extra"), EMap [(EStr (u "x-extra"), EStr (u "1"))])]).
Proof. split; vm_compute; reflexivity. Qed.

(* ================================================================== has_default: Optional vs Default(v) *)
(* a member whose schema default is not EXACTLY the intrinsic default of its type keeps it (state Default) *)
Lemma has_default_spec : forall d v,
  has_default (Some d) (Some v) = if intrinsic_default d v then POptional else PDefault v.
Proof.
  intros d v. destruct d; destruct v as [|b|z|q|s|l|kvs]; cbn; try reflexivity;
    try (destruct l; reflexivity); try (destruct kvs; reflexivity); try (destruct b; reflexivity);
    try (destruct z; reflexivity); try (destruct (Z.eqb (Qnum q) 0); reflexivity); try (destruct s; reflexivity).
Qed.

Lemma has_default_not_intrinsic : forall d v, intrinsic_default d v = false -> has_default (Some d) (Some v) = PDefault v.
Proof. intros d v H. rewrite has_default_spec, H. reflexivity. Qed.

(* floats are never intrinsic: every default of a number-typed member, 0.0 included, is kept *)
Lemma has_default_float : forall n v, has_default (Some (DFloat n)) (Some v) = PDefault v.
Proof. intros n v. apply has_default_not_intrinsic. destruct v; reflexivity. Qed.

(* a numeric default of an integer member is intrinsic only when it is the number zero, however small it is *)
Lemma has_default_integer_nonzero : forall n q, Z.eqb (Qnum q) 0 = false ->
  has_default (Some (DInteger n)) (Some (JFlt q)) = PDefault (JFlt q).
Proof. intros n q H. apply has_default_not_intrinsic. cbn. exact H. Qed.

(* ================================================================== map defaults: every key is validated *)
(* whatever the kind of the key entry (String, a constrained-string newtype, a string ENUM, a native ...), every key of a
   non-empty map default is validated against it -- as the JSON string it is -- and every value against the value entry *)
Lemma map_keys_validated : forall re T f t kt vt m k,
  get_det T t = Some (DMap kt vt) -> m <> [] ->
  validate_value re T (S f) t (JObj m) = ROk k ->
  forall key x, In (key, x) m ->
    (exists k1, validate_value re T f kt (JStr key) = ROk k1) /\ (exists k2, validate_value re T f vt x = ROk k2).
Proof.
  intros re T f t kt vt m k Hg Hne H key x Hin. cbn [validate_value] in H. rewrite Hg in H. cbn [validate_det] in H.
  destruct m as [|y m]; [exfalso; apply Hne; reflexivity|].
  destruct (get_det T kt); [|discriminate H]. destruct (get_det T vt); [|discriminate H].
  apply rbind_ok in H. destruct H as [uu [Hu _]]. destruct uu.
  destruct (each_ok_in _ _ _ _ Hu (key, x) Hin) as [k' Hk]. cbn beta iota in Hk.
  apply rbind_ok in Hk. destruct Hk as [k1 [Hk1 Hk2]]. split; eauto.
Qed.

(* in particular a key outside a string-enum key type is rejected *)
Definition Tmk : space := mk_space [
  (1, ent (DInteger (u "i64")));
  (2, ent (DEnum (u "Key") None TagExternal [mkVariant (u "cpu") (u "Cpu") VSimple; mkVariant (u "memory") (u "Memory") VSimple] false []));
  (3, ent (DMap 2 1))
]%N.
Lemma map_keys_example :
  validate_value re0 Tmk 3 3 (JObj [(u "cpu", JInt 1)]) = ROk KSpecific /\
  validate_value re0 Tmk 3 3 (JObj [(u "disk", JInt 1)]) = RErr /\
  validate_value re0 Tmk 3 3 (JObj [(u "cpu", JInt 1); (u "disk", JInt 2)]) = RErr /\
  validate_value re0 Tmk 3 3 (JObj []) = ROk KIntrinsic.
Proof. repeat split; vm_compute; reflexivity. Qed.
