(* Proofs/DefaultsProofs.v -- lemmas about Algo/Defaults.v and Algo/Value.v (property C06). *)
From Coq Require Import String ZArith NArith QArith List Bool Lia.
From Typify Require Import Base.Json IR.TypeIR Algo.Defaults Algo.Value.
Import ListNotations.
Close Scope Q_scope.
Open Scope N_scope.

Local Opaque is_nonzero_name.

(* ------------------------------------------------------------------ combinators *)
Lemma rbind_ok : forall A B (r : res A) (f : A -> res B) b,
  rbind r f = ROk b -> exists a, r = ROk a /\ f a = ROk b.
Proof. intros A B r f b H. destruct r; cbn in H; try discriminate. eauto. Qed.

Lemma rbind_err : forall A B (r : res A) (f : A -> res B),
  rbind r f = RErr -> r = RErr \/ exists a, r = ROk a /\ f a = RErr.
Proof. intros A B r f H. destruct r; cbn in H; try discriminate; eauto. Qed.

Lemma of_opt_ok : forall A (o : option A) a, of_opt o = ROk a -> o = Some a.
Proof. intros A o a H. destruct o; cbn in H; congruence. Qed.

Lemma optional_not_err : forall A (r : res A), optional r <> RErr.
Proof. intros A r. destruct r; cbn; discriminate. Qed.

Lemma each_ok_in : forall A B (f : A -> res B) l,
  each f l = ROk tt -> forall x, In x l -> exists b, f x = ROk b.
Proof.
  intros A B f l. induction l as [|y l IH]; intros H x Hin; [destruct Hin|].
  cbn in H. apply rbind_ok in H. destruct H as [b [Hy Hr]].
  destruct Hin as [->|Hin]; eauto.
Qed.

Lemma all_is_ok_true_in : forall A B (f : A -> res B) l,
  all_is_ok f l = ROk true -> forall x, In x l -> exists b, f x = ROk b.
Proof.
  intros A B f l. induction l as [|y l IH]; intros H x Hin; [destruct Hin|].
  cbn in H. destruct (f y) eqn:Ey; try discriminate.
  destruct Hin as [->|Hin]; eauto.
Qed.

Lemma map_r_err : forall A B (g : A -> res B) l,
  map_r g l = RErr -> exists x, In x l /\ g x = RErr.
Proof.
  intros A B g l. induction l as [|y l IH]; intros H; cbn in H; [discriminate|].
  apply rbind_err in H. destruct H as [H|[a [Ha H]]].
  - exists y. split; [now left|exact H].
  - apply rbind_err in H. destruct H as [H|[b [Hb H]]]; [|discriminate].
    destruct (IH H) as [x [Hin Hx]]. exists x. split; [now right|exact Hx].
Qed.

Lemma filter_map_r_not_err : forall A B (f : A -> res (option B)) l,
  (forall x, f x <> RErr) -> filter_map_r f l <> RErr.
Proof.
  intros A B f l Hf. induction l as [|y l IH]; cbn; [discriminate|].
  intro H. apply rbind_err in H. destruct H as [H|[a [Ha H]]]; [exact (Hf y H)|].
  apply rbind_err in H. destruct H as [H|[b [Hb H]]]; [exact (IH H)|discriminate].
Qed.

Lemma find_map_ok : forall A B (g : A -> res B) l b,
  find_map_r g l = ROk b -> exists x, In x l /\ g x = ROk b.
Proof.
  intros A B g l b. induction l as [|y l IH]; intros H; cbn in H; [discriminate|].
  destruct (g y) eqn:Ey; try discriminate.
  - exists y. split; [now left|congruence].
  - destruct (IH H) as [x [Hin Hx]]. exists x. split; [now right|exact Hx].
Qed.

Lemma find_map_err : forall A B (h : A -> res B) l,
  find_map_r h l = RErr -> forall x, In x l -> h x = RErr.
Proof.
  intros A B h l. induction l as [|y l IH]; intros H x Hin; [destruct Hin|].
  cbn in H. destruct (h y) eqn:Ey; try discriminate.
  destruct Hin as [->|Hin]; [exact Ey|exact (IH H x Hin)].
Qed.

Lemma v_set_elems_in : forall (rec : id -> json -> res kind) t l,
  v_set_elems rec t l = ROk tt -> forall x, In x l -> exists b, rec t x = ROk b.
Proof.
  intros rec t l. induction l as [|y l IH]; intros H x Hin; [destruct Hin|].
  cbn in H. destruct (existsb (json_eqb y) l); [discriminate|].
  apply rbind_ok in H. destruct H as [b [Hy Hr]].
  destruct Hin as [->|Hin]; eauto.
Qed.

(* ------------------------------------------------------------------ one level *)
Section Step.
  Variable T : space.
  Variable vrec : id -> json -> res kind.
  Variable aprops : prop -> res (list pinfo).
  Variable orec : id -> json -> res expr.
  Hypothesis IH : forall t v k, vrec t v = ROk k -> orec t v <> RErr.

  Lemma tuple_step : forall ts v k, v_tuple vrec ts v = ROk k -> o_tuple orec ts v <> RErr.
  Proof.
    intros ts v k H. unfold v_tuple in H. unfold o_tuple.
    apply rbind_ok in H. destruct H as [arr [Ha H]]. rewrite Ha. cbn.
    destruct (negb (Nat.eqb (length arr) (length ts))); [discriminate|].
    apply rbind_ok in H. destruct H as [b [Hb H]]. destruct b; [|discriminate].
    intro E. apply map_r_err in E. destruct E as [[t x] [Hin Hx]].
    destruct (all_is_ok_true_in _ _ _ _ Hb (t, x) Hin) as [k' Hk].
    exact (IH _ _ _ Hk Hx).
  Qed.

  Lemma struct_step : forall ps v k, v_struct_props vrec aprops ps v = ROk k -> o_struct_props T orec ps v <> RErr.
  Proof.
    intros ps v k H. unfold v_struct_props in H. unfold o_struct_props.
    apply rbind_ok in H. destruct H as [m [Hm _]]. rewrite Hm. cbn.
    intro E. apply rbind_err in E. destruct E as [E|[direct [_ E]]].
    - revert E. apply filter_map_r_not_err. intros p.
      destruct (wire_name p); [|discriminate].
      destruct (assoc u m); [|discriminate].
      intro E. apply rbind_err in E. destruct E as [E|[oe [_ E]]]; [exact (optional_not_err _ _ E)|discriminate].
    - apply rbind_err in E. destruct E as [E|[fl [_ E]]]; [|discriminate].
      revert E. apply filter_map_r_not_err. intros p.
      destruct (p_rename p); try discriminate.
      destruct (get_det T (p_ty p)) as [d|]; [|discriminate].
      destruct d; try discriminate;
        (intro E; apply rbind_err in E; destruct E as [E|[oe [_ E]]]; [exact (optional_not_err _ _ E)|discriminate]).
  Qed.

  Lemma var_ident_not_err : forall var, var_ident var <> RErr.
  Proof. intros var. unfold var_ident. destruct (v_ident var); discriminate. Qed.

  Ltac bind_ident E :=
    apply rbind_err in E; destruct E as [E|[?i [_ E]]]; [exact (var_ident_not_err _ E)|].

  Lemma payload_struct_not_err : forall name i ps c k,
    v_struct_props vrec aprops ps c = ROk k ->
    rbind (o_struct_props T orec ps c) (fun fs => ROk (EVarStruct name i fs)) <> RErr.
  Proof.
    intros name i ps c k H E. apply rbind_err in E. destruct E as [E|[fs [_ E]]]; [|discriminate].
    exact (struct_step _ _ _ H E).
  Qed.

  Lemma payload_tuple_not_err : forall name i ts c k,
    v_tuple vrec ts c = ROk k ->
    rbind (o_tuple orec ts c) (fun es => ROk (EVarTuple name i es)) <> RErr.
  Proof.
    intros name i ts c k H E. apply rbind_err in E. destruct E as [E|[fs [_ E]]]; [|discriminate].
    exact (tuple_step _ _ _ H E).
  Qed.

  Lemma external_step : forall name vs v k, v_external vrec aprops vs v = ROk k -> o_external T orec name vs v <> RErr.
  Proof.
    intros name vs v k H. unfold v_external in H. unfold o_external.
    destruct v; cbn in H; try discriminate.
    - (* JStr *)
      apply rbind_ok in H. destruct H as [var [Hv H]]. rewrite Hv. cbn.
      destruct (v_det var); try discriminate.
      intro E. bind_ident E. discriminate.
    - (* JObj *)
      cbn. destruct kvs as [|[n x] [|? ?]]; try discriminate.
      apply rbind_ok in H. destruct H as [var [Hv H]]. rewrite Hv. cbn.
      intro E. bind_ident E.
      unfold v_variant_payload in H.
      destruct (v_det var); try discriminate.
      + apply rbind_err in E. destruct E as [E|[oe [_ E]]]; [exact (optional_not_err _ _ E)|discriminate].
      + exact (payload_tuple_not_err _ _ _ _ _ H E).
      + exact (payload_struct_not_err _ _ _ _ _ H E).
  Qed.

  Lemma internal_step : forall name vs tg v k, v_internal vrec aprops vs tg v = ROk k -> o_internal T orec name vs tg v <> RErr.
  Proof.
    intros name vs tg v k H. unfold v_internal in H. unfold o_internal.
    apply rbind_ok in H. destruct H as [m [Hm H]]. rewrite Hm. cbn.
    apply rbind_ok in H. destruct H as [tv [Ht H]]. rewrite Ht. cbn.
    apply rbind_ok in H. destruct H as [sn [Hs H]]. rewrite Hs. cbn.
    apply rbind_ok in H. destruct H as [var [Hv H]]. rewrite Hv. cbn.
    intro E. bind_ident E.
    destruct (v_det var); try discriminate.
    exact (payload_struct_not_err _ _ _ _ _ H E).
  Qed.

  Lemma adjacent_step : forall name vs tg c v k,
    v_adjacent vrec aprops vs tg c v = ROk k -> o_adjacent T orec name vs tg c v <> RErr.
  Proof.
    intros name vs tg c v k H. unfold v_adjacent in H. unfold o_adjacent.
    apply rbind_ok in H. destruct H as [m [Hm H]]. rewrite Hm. cbn.
    apply rbind_ok in H. destruct H as [[tv cv] [Ht H]]. rewrite Ht. cbn.
    apply rbind_ok in H. destruct H as [var [Hv H]]. rewrite Hv. cbn.
    intro E. bind_ident E.
    destruct (v_det var); destruct cv; try discriminate.
    - exact (payload_tuple_not_err _ _ _ _ _ H E).
    - exact (payload_struct_not_err _ _ _ _ _ H E).
  Qed.

  Lemma untagged_step : forall name vs v k, v_untagged vrec aprops vs v = ROk k -> o_untagged T orec name vs v <> RErr.
  Proof.
    intros name vs v k H. unfold v_untagged in H. unfold o_untagged.
    apply find_map_ok in H. destruct H as [var [Hin H]].
    intro E. pose proof (find_map_err _ _ _ _ E var Hin) as Ev. cbn beta in Ev.
    bind_ident Ev.
    destruct (v_det var).
    - destruct v; discriminate.
    - apply rbind_err in Ev. destruct Ev as [Ev|[e [_ Ev]]]; [exact (IH _ _ _ H Ev)|discriminate].
    - exact (payload_tuple_not_err _ _ _ _ _ H Ev).
    - exact (payload_struct_not_err _ _ _ _ _ H Ev).
  Qed.

  Lemma det_step : forall d v k,
    validate_det true T vrec aprops d v = ROk k -> output_det T orec d v <> RErr.
  Proof.
    intros d v k H. destruct d; cbn [validate_det] in H; cbn [output_det].
    - (* enum *) destruct tag.
      + exact (external_step _ _ _ _ H).
      + exact (internal_step _ _ _ _ _ H).
      + exact (adjacent_step _ _ _ _ _ _ H).
      + exact (untagged_step _ _ _ _ H).
    - (* struct *) intro E. apply rbind_err in E. destruct E as [E|[fs [_ E]]]; [|discriminate].
      exact (struct_step _ _ _ H E).
    - (* newtype *) intro E. apply rbind_err in E. destruct E as [E|[oe [_ E]]]; [exact (optional_not_err _ _ E)|discriminate].
    - (* native *) discriminate.
    - (* option *) destruct v; try discriminate;
        (apply rbind_ok in H; destruct H as [k' [Hk _]]; intro E; apply rbind_err in E;
         destruct E as [E|[e [_ E]]]; [exact (IH _ _ _ Hk E)|discriminate]).
    - (* box *) intro E. apply rbind_err in E. destruct E as [E|[e [_ E]]]; [exact (IH _ _ _ H E)|discriminate].
    - (* vec *) destruct v; try discriminate. cbn.
      destruct (get_det T t); [|discriminate].
      intro E. apply rbind_err in E. destruct E as [E|[es [_ E]]]; [|discriminate].
      apply map_r_err in E. destruct E as [x [Hin Hx]].
      destruct l as [|y l]; [destruct Hin|].
      apply rbind_ok in H. destruct H as [u [Hu _]]. destruct u.
      destruct (each_ok_in _ _ _ _ Hu x Hin) as [k' Hk]. exact (IH _ _ _ Hk Hx).
    - (* map *) destruct v; try discriminate. cbn.
      destruct (get_det T k0); [|discriminate]. destruct (get_det T v0); [|discriminate].
      intro E. apply rbind_err in E. destruct E as [E|[es [_ E]]]; [|discriminate].
      apply map_r_err in E. destruct E as [[key x] [Hin Hx]].
      destruct kvs as [|y kvs]; [destruct Hin|].
      apply rbind_ok in H. destruct H as [u [Hu _]]. destruct u.
      destruct (each_ok_in _ _ _ _ Hu (key, x) Hin) as [k' Hk]. cbn beta iota in Hk.
      apply rbind_ok in Hk. destruct Hk as [k1 [Hk1 Hk2]].
      apply rbind_err in Hx. destruct Hx as [Hx|[a [_ Hx]]]; [exact (IH _ _ _ Hk1 Hx)|].
      apply rbind_err in Hx. destruct Hx as [Hx|[b [_ Hx]]]; [exact (IH _ _ _ Hk2 Hx)|discriminate].
    - (* set *) destruct v; try discriminate. cbn.
      destruct (get_det T t) eqn:Eg; [|discriminate].
      intro E. apply rbind_err in E. destruct E as [E|[es [_ E]]]; [|discriminate].
      apply map_r_err in E. destruct E as [x [Hin Hx]].
      destruct l as [|y l]; [destruct Hin|].
      apply rbind_ok in H. destruct H as [u [Hu _]]. destruct u.
      destruct (v_set_elems_in _ _ _ Hu x Hin) as [k' Hk]. exact (IH _ _ _ Hk Hx).
    - (* array *) destruct v; try discriminate. cbn.
      destruct (negb (N.of_nat (length l) =? n)); [discriminate|].
      destruct (get_det T t); [|discriminate].
      intro E. apply rbind_err in E. destruct E as [E|[es [_ E]]]; [|discriminate].
      apply map_r_err in E. destruct E as [x [Hin Hx]].
      apply rbind_ok in H. destruct H as [u [Hu _]]. destruct u.
      destruct (each_ok_in _ _ _ _ Hu x Hin) as [k' Hk]. exact (IH _ _ _ Hk Hx).
    - (* tuple *) intro E. apply rbind_err in E. destruct E as [E|[es [_ E]]]; [|discriminate].
      exact (tuple_step _ _ _ H E).
    - (* unit *) destruct v; try discriminate H; discriminate.
    - (* boolean *) destruct v; try discriminate H; discriminate.
    - (* integer *) destruct v; cbn in H; try discriminate H. cbn.
      destruct (is_nonzero_name name); discriminate.
    - (* float *) revert H. destruct (is_number v); intro H; [|discriminate H]. cbn.
      destruct (is_nonzero_name name); discriminate.
    - (* string *) destruct v; try discriminate H; discriminate.
    - (* json *) discriminate.
    - (* reference *) discriminate.
  Qed.
End Step.

(* validation with the repaired String arm never lets output_value return None *)
Lemma strict_validate_implies_output : forall T f t v k,
  validate_strict T f t v = ROk k -> output_value T f t v <> RErr.
Proof.
  intros T f. induction f as [|n IHn]; intros t v k H; cbn in H; [discriminate|].
  cbn. unfold validate_strict in H. cbn in H.
  destruct (get_det T t) as [d|]; [|discriminate].
  eapply det_step; [|exact H].
  intros t' v' k' Hk. exact (IHn t' v' k' Hk).
Qed.

(* class of finding C06-F1: the verdict depends on the String arm accepting non-strings *)
Definition Known_F1 (T : space) (f : nat) (t : id) (d : json) : Prop :=
  validate_value T f t d <> validate_strict T f t d.

Lemma res_kind_dec : forall a b : res kind, {a = b} + {a <> b}.
Proof. decide equality. decide equality. decide equality. Qed.

Lemma validate_implies_output : forall T f t d k,
  validate_value T f t d = ROk k -> ~ Known_F1 T f t d -> output_value T f t d <> RErr.
Proof.
  intros T f t d k H Hn.
  destruct (res_kind_dec (validate_value T f t d) (validate_strict T f t d)) as [E|N].
  - rewrite H in E. symmetry in E. exact (strict_validate_implies_output _ _ _ _ _ E).
  - exfalso. exact (Hn N).
Qed.

(* ------------------------------------------------------------------ witnesses (faithful model refutes) *)
Definition ent (d : details) : entry := mkEntry d [].
Definition mk_space (es : list (id * entry)) : space :=
  mkSpace es 100 (mkSettings None [] false []) false false false false [].
Definition u (s : string) : ustring := ustr_of_string s.
Definition Tw : space := mk_space [
  (1, ent DString);
  (2, ent (DInteger (u "i64")));
  (3, ent (DTuple [2]));
  (4, ent DUnit);
  (5, ent (DInteger (u "u8")));
  (6, ent (DVec 5));
  (7, ent (DNewtype (u "S3") None 1 (CString (Some 3) None None)));
  (8, ent (DInteger (u "::std::num::NonZeroU32")));
  (9, ent (DMap 1 1));
  (10, ent (DStruct (u "W") None [mkProp (u "k") TypeIR.RNone PRequired 2; mkProp (u "extra") RFlatten PRequired 9] false));
  (11, ent (DNewtype (u "IEnum") None 2 (CEnum [JInt 1; JInt 2])))
]%N.

Lemma validate_implies_output_refuted :
  exists T f t d k, validate_value T f t d = ROk k /\ output_value T f t d = RErr /\ Known_F1 T f t d.
Proof.
  exists Tw, 3%nat, 1, (JInt 5), KSpecific. split; [vm_compute; reflexivity|]. split; [vm_compute; reflexivity|].
  unfold Known_F1. vm_compute. discriminate.
Qed.

Lemma unit_default_render_refuted :
  exists T f t d k, validate_value T f t d = ROk k /\ render_prop_default T f t d = RPanic.
Proof. exists Tw, 3%nat, 4, JNull, KIntrinsic. split; vm_compute; reflexivity. Qed.

Lemma default_typed_tuple1_refuted :
  exists T f t d k e, validate_value T f t d = ROk k /\ ~ Known_F1 T f t d /\
                      output_value T f t d = ROk e /\ expr_typed T f e t = false /\ expr_any is_tuple1 e = true.
Proof.
  exists Tw, 3%nat, 3, (JArr [JInt 3]), KSpecific, (ETuple [ENum (JInt 3) (u "i64")]).
  split; [vm_compute; reflexivity|]. split; [unfold Known_F1; vm_compute; intro H; apply H; reflexivity|].
  split; [vm_compute; reflexivity|]. split; vm_compute; reflexivity.
Qed.

Lemma default_typed_int_range_refuted :
  exists T f t d k e, validate_value T f t d = ROk k /\ ~ Known_F1 T f t d /\
                      output_value T f t d = ROk e /\ expr_typed T f e t = false /\ expr_any is_int_oob e = true.
Proof.
  exists Tw, 3%nat, 6, (JArr [JInt 300]), KSpecific, (EVec [ENum (JInt 300) (u "u8")]).
  split; [vm_compute; reflexivity|]. split; [unfold Known_F1; vm_compute; intro H; apply H; reflexivity|].
  split; [vm_compute; reflexivity|]. split; vm_compute; reflexivity.
Qed.

Lemma default_typed_flatten_refuted :
  exists T f t d k e, validate_value T f t d = ROk k /\ ~ Known_F1 T f t d /\
                      output_value T f t d = ROk e /\ expr_typed T f e t = false /\ expr_any has_flit e = true.
Proof.
  exists Tw, 4%nat, 10, (JObj [(u "k", JInt 1)]), KSpecific,
    (EStruct (u "W") [(FId (u "k"), ENum (JInt 1) (u "i64")); (FLit (u "extra"), EMap [])]).
  split; [vm_compute; reflexivity|]. split; [unfold Known_F1; vm_compute; intro H; apply H; reflexivity|].
  split; [vm_compute; reflexivity|]. split; vm_compute; reflexivity.
Qed.

Lemma default_exact_nonzero_refuted :
  exists T f t d k e, validate_value T f t d = ROk k /\ output_value T f t d = ROk e /\
                      expr_typed T f e t = true /\ eval_expr T e = None /\ expr_any is_nz_zero e = true.
Proof.
  exists Tw, 3%nat, 8, (JInt 0), KIntrinsic, (ENonZero (u "::std::num::NonZeroU32") (JInt 0)).
  repeat split; vm_compute; reflexivity.
Qed.

Lemma invalid_rejected_newtype_refuted :
  exists T f t d k name def inner c,
    get_det T t = Some (DNewtype name def inner c) /\ constraint_ok c d = false /\ validate_value T f t d = ROk k.
Proof.
  exists Tw, 3%nat, 7, (JStr (u "toolong")), KSpecific, (u "S3"), None, 1, (CString (Some 3) None None).
  repeat split; vm_compute; reflexivity.
Qed.

Lemma invalid_rejected_newtype_enum_refuted :
  exists T f t d k name def inner c,
    get_det T t = Some (DNewtype name def inner c) /\ constraint_ok c d = false /\ validate_value T f t d = ROk k.
Proof.
  exists Tw, 3%nat, 11, (JInt 7), (KGeneric GU64), (u "IEnum"), None, 2, (CEnum [JInt 1; JInt 2]).
  repeat split; vm_compute; reflexivity.
Qed.

(* ------------------------------------------------------------------ invalid shapes are rejected *)
Lemma invalid_rejected_scalar : forall T f t det d,
  get_det T t = Some det -> shape_mismatch det d = true -> validate_value T (S f) t d = RErr.
Proof.
  intros T f t det d Hg Hs. unfold validate_value. cbn [validate_gen]. rewrite Hg.
  destruct det; cbn [shape_mismatch] in Hs; try discriminate Hs; cbn [validate_det].
  - (* struct *) destruct d; try discriminate Hs; reflexivity.
  - (* vec *) destruct d; try discriminate Hs; reflexivity.
  - (* map *) destruct d; try discriminate Hs; reflexivity.
  - (* set *) destruct d; try discriminate Hs; reflexivity.
  - (* array *) destruct d; try discriminate Hs; try reflexivity. rewrite Hs. reflexivity.
  - (* tuple *) unfold v_tuple. destruct d; try discriminate Hs; try reflexivity. cbn. rewrite Hs. reflexivity.
  - (* unit *) destruct d; try discriminate Hs; reflexivity.
  - (* boolean *) destruct d; try discriminate Hs; reflexivity.
  - (* integer *) destruct (as_u64 d); [discriminate Hs|]. destruct (as_i64 d); [discriminate Hs|]. reflexivity.
  - (* float *) destruct (is_number d); [discriminate Hs|]. reflexivity.
Qed.

(* ------------------------------------------------------------------ typing / exactness on the scalar kinds *)
Definition scalar_det (d : details) : bool :=
  match d with DBoolean | DString | DUnit | DFloat _ | DInteger _ => true | _ => false end.

(* the integer literal fits the Rust type (what finding C06-F5 / F6 are about) *)
Definition int_fits (det : details) (d : json) : bool :=
  match det with
  | DInteger n => if is_nonzero_name n then nz_arg_ok n d && negb (is_zero_number d) else lit_in_range n d
  | DFloat n => negb (is_nonzero_name n)
  | _ => true
  end.

Lemma ustr_eqb_refl : forall s, ustr_eqb s s = true.
Proof. induction s as [|c s IH]; cbn; [reflexivity|]. rewrite N.eqb_refl. exact IH. Qed.

Lemma scalar_typed_exact : forall T f t det d k,
  get_det T t = Some det -> scalar_det det = true -> int_fits det d = true ->
  validate_strict T (S f) t d = ROk k ->
  exists e r, output_value T (S f) t d = ROk e /\ expr_typed T (S f) e t = true /\
              eval_expr T e = Some r /\ approx d r = true.
Proof.
  intros T f t det d k Hg Hs Hi Hv. unfold validate_strict in Hv. cbn [validate_gen] in Hv. rewrite Hg in Hv.
  cbn [output_value]. rewrite Hg.
  destruct det; try discriminate Hs; cbn [validate_det] in Hv; cbn [output_det].
  - (* unit *) destruct d; try discriminate Hv. exists EUnit, JNull. cbn. rewrite Hg. repeat split; reflexivity.
  - (* boolean *) destruct d; try discriminate Hv. exists (EBool b), (JBool b). cbn. rewrite Hg.
    repeat split; try reflexivity. destruct b; reflexivity.
  - (* integer *)
    destruct d; cbn in Hv; try discriminate Hv.
    cbn [is_number negb]. cbn [int_fits] in Hi.
    destruct (is_nonzero_name name) eqn:En.
    + apply andb_true_iff in Hi. destruct Hi as [Ha Hz].
      exists (ENonZero name (JInt z)), (JInt z). cbn [expr_typed eval_expr]. rewrite Hg, En, Ha, ustr_eqb_refl.
      apply negb_true_iff in Hz. rewrite Hz. repeat split; try reflexivity.
      cbn. apply Z.eqb_refl.
    + exists (ENum (JInt z) name), (JInt z). cbn [expr_typed eval_expr]. rewrite Hg, En, Hi, ustr_eqb_refl.
      repeat split; try reflexivity. cbn. apply Z.eqb_refl.
  - (* float *)
    cbn [int_fits] in Hi. apply negb_true_iff in Hi.
    revert Hv. destruct (is_number d) eqn:En; intro Hv; [|discriminate Hv]. cbn [negb]. rewrite Hi.
    exists (ENum d name), d. cbn [expr_typed eval_expr]. rewrite Hg, En, ustr_eqb_refl.
    repeat split; try reflexivity.
    destruct d; try discriminate En; cbn; [apply Z.eqb_refl|apply Qeq_bool_iff; reflexivity].
  - (* string *) destruct d; try discriminate Hv. exists (EStr s), (JStr s). cbn. rewrite Hg.
    repeat split; try reflexivity. apply ustr_eqb_refl.
Qed.
