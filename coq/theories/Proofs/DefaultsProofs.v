(* Proofs/DefaultsProofs.v -- lemmas about Algo/Defaults.v and Algo/Value.v (property C06). *)
From Coq Require Import String ZArith NArith QArith List Bool Lia.
From Typify Require Import Base.Json IR.TypeIR Algo.Defaults Algo.Value.
Import ListNotations.
Close Scope Q_scope.
Open Scope N_scope.

Local Opaque is_nonzero_name.

(* ------------------------------------------------------------------ combinators *)
Lemma rbind_ok : forall A B (r : res A) (f : A -> res B) b,
  rbind r f = ROk b -> exists a, r = ROk a /\ f a = ROk b.
Proof. intros A B r f b H. destruct r; cbn in H; try discriminate. eauto. Qed.

Lemma rbind_err : forall A B (r : res A) (f : A -> res B),
  rbind r f = RErr -> r = RErr \/ exists a, r = ROk a /\ f a = RErr.
Proof. intros A B r f H. destruct r; cbn in H; try discriminate; eauto. Qed.

Lemma of_opt_ok : forall A (o : option A) a, of_opt o = ROk a -> o = Some a.
Proof. intros A o a H. destruct o; cbn in H; congruence. Qed.

Lemma optional_not_err : forall A (r : res A), optional r <> RErr.
Proof. intros A r. destruct r; cbn; discriminate. Qed.

Lemma each_ok_in : forall A B (f : A -> res B) l,
  each f l = ROk tt -> forall x, In x l -> exists b, f x = ROk b.
Proof.
  intros A B f l. induction l as [|y l IH]; intros H x Hin; [destruct Hin|].
  cbn in H. apply rbind_ok in H. destruct H as [b [Hy Hr]].
  destruct Hin as [->|Hin]; eauto.
Qed.

Lemma all_is_ok_true_in : forall A B (f : A -> res B) l,
  all_is_ok f l = ROk true -> forall x, In x l -> exists b, f x = ROk b.
Proof.
  intros A B f l. induction l as [|y l IH]; intros H x Hin; [destruct Hin|].
  cbn in H. destruct (f y) eqn:Ey; try discriminate.
  destruct Hin as [->|Hin]; eauto.
Qed.

Lemma map_r_err : forall A B (g : A -> res B) l,
  map_r g l = RErr -> exists x, In x l /\ g x = RErr.
Proof.
  intros A B g l. induction l as [|y l IH]; intros H; cbn in H; [discriminate|].
  apply rbind_err in H. destruct H as [H|[a [Ha H]]].
  - exists y. split; [now left|exact H].
  - apply rbind_err in H. destruct H as [H|[b [Hb H]]]; [|discriminate].
    destruct (IH H) as [x [Hin Hx]]. exists x. split; [now right|exact Hx].
Qed.

Lemma filter_map_r_not_err : forall A B (f : A -> res (option B)) l,
  (forall x, f x <> RErr) -> filter_map_r f l <> RErr.
Proof.
  intros A B f l Hf. induction l as [|y l IH]; cbn; [discriminate|].
  intro H. apply rbind_err in H. destruct H as [H|[a [Ha H]]]; [exact (Hf y H)|].
  apply rbind_err in H. destruct H as [H|[b [Hb H]]]; [exact (IH H)|discriminate].
Qed.

Lemma find_map_ok : forall A B (g : A -> res B) l b,
  find_map_r g l = ROk b -> exists x, In x l /\ g x = ROk b.
Proof.
  intros A B g l b. induction l as [|y l IH]; intros H; cbn in H; [discriminate|].
  destruct (g y) eqn:Ey; try discriminate.
  - exists y. split; [now left|congruence].
  - destruct (IH H) as [x [Hin Hx]]. exists x. split; [now right|exact Hx].
Qed.

Lemma find_map_err : forall A B (h : A -> res B) l,
  find_map_r h l = RErr -> forall x, In x l -> h x = RErr.
Proof.
  intros A B h l. induction l as [|y l IH]; intros H x Hin; [destruct Hin|].
  cbn in H. destruct (h y) eqn:Ey; try discriminate.
  destruct Hin as [->|Hin]; [exact Ey|exact (IH H x Hin)].
Qed.

Lemma v_set_elems_in : forall (rec : id -> json -> res kind) t l,
  v_set_elems rec t l = ROk tt -> forall x, In x l -> exists b, rec t x = ROk b.
Proof.
  intros rec t l. induction l as [|y l IH]; intros H x Hin; [destruct Hin|].
  cbn in H. destruct (existsb (json_eqb y) l); [discriminate|].
  apply rbind_ok in H. destruct H as [b [Hy Hr]].
  destruct Hin as [->|Hin]; eauto.
Qed.

Lemma not_number_none : forall v, is_number v = false -> as_u64 v = None /\ as_i64 v = None.
Proof. intros v H. destruct v; try discriminate H; split; reflexivity. Qed.

(* ------------------------------------------------------------------ one level *)
Section Step.
  Variable re : ustring -> ustring -> bool.
  Variable T : space.
  Variable vrec : id -> json -> res kind.
  Variable aprops : prop -> res (list pinfo).
  Variable orec : id -> json -> res expr.
  Hypothesis IH : forall t v k, vrec t v = ROk k -> orec t v <> RErr.

  Lemma tuple_step : forall ts v k, v_tuple vrec ts v = ROk k -> o_tuple orec ts v <> RErr.
  Proof.
    intros ts v k H. unfold v_tuple in H. unfold o_tuple.
    apply rbind_ok in H. destruct H as [arr [Ha H]]. rewrite Ha. cbn.
    destruct (negb (Nat.eqb (length arr) (length ts))); [discriminate|].
    apply rbind_ok in H. destruct H as [b [Hb H]]. destruct b; [|discriminate].
    intro E. apply map_r_err in E. destruct E as [[t x] [Hin Hx]].
    destruct (all_is_ok_true_in _ _ _ _ Hb (t, x) Hin) as [k' Hk].
    exact (IH _ _ _ Hk Hx).
  Qed.

  Lemma struct_step : forall ps v k, v_struct_props vrec aprops ps v = ROk k -> o_struct_props T orec ps v <> RErr.
  Proof.
    intros ps v k H. unfold v_struct_props in H. unfold o_struct_props.
    apply rbind_ok in H. destruct H as [m [Hm _]]. rewrite Hm. cbn.
    intro E. apply rbind_err in E. destruct E as [E|[direct [_ E]]].
    - revert E. apply filter_map_r_not_err. intros p.
      destruct (wire_name p); [|discriminate].
      destruct (assoc u m); [|discriminate].
      intro E. apply rbind_err in E. destruct E as [E|[oe [_ E]]]; [exact (optional_not_err _ _ E)|discriminate].
    - apply rbind_err in E. destruct E as [E|[fl [_ E]]]; [|discriminate].
      revert E. apply filter_map_r_not_err. intros p.
      destruct (p_rename p); try discriminate.
      destruct (get_det T (p_ty p)) as [d|]; [|discriminate].
      destruct d; try discriminate;
        (intro E; apply rbind_err in E; destruct E as [E|[oe [_ E]]]; [exact (optional_not_err _ _ E)|discriminate]).
  Qed.

  Lemma var_ident_not_err : forall var, var_ident var <> RErr.
  Proof. intros var. unfold var_ident. destruct (v_ident var); discriminate. Qed.

  Ltac bind_ident E :=
    apply rbind_err in E; destruct E as [E|[?i [_ E]]]; [exact (var_ident_not_err _ E)|].

  Lemma payload_struct_not_err : forall name i ps c k,
    v_struct_props vrec aprops ps c = ROk k ->
    rbind (o_struct_props T orec ps c) (fun fs => ROk (EVarStruct name i fs)) <> RErr.
  Proof.
    intros name i ps c k H E. apply rbind_err in E. destruct E as [E|[fs [_ E]]]; [|discriminate].
    exact (struct_step _ _ _ H E).
  Qed.

  Lemma payload_tuple_not_err : forall name i ts c k,
    v_tuple vrec ts c = ROk k ->
    rbind (o_tuple orec ts c) (fun es => ROk (EVarTuple name i (variant_tuple es))) <> RErr.
  Proof.
    intros name i ts c k H E. apply rbind_err in E. destruct E as [E|[fs [_ E]]]; [|discriminate].
    exact (tuple_step _ _ _ H E).
  Qed.

  Lemma external_step : forall name vs v k, v_external vrec aprops vs v = ROk k -> o_external T orec name vs v <> RErr.
  Proof.
    intros name vs v k H. unfold v_external in H. unfold o_external.
    destruct v; cbn in H; try discriminate.
    - (* JStr *)
      apply rbind_ok in H. destruct H as [var [Hv H]]. rewrite Hv. cbn.
      destruct (v_det var); try discriminate.
      intro E. bind_ident E. discriminate.
    - (* JObj *)
      cbn. destruct kvs as [|[n x] [|? ?]]; try discriminate.
      apply rbind_ok in H. destruct H as [var [Hv H]]. rewrite Hv. cbn.
      intro E. bind_ident E.
      unfold v_variant_payload in H.
      destruct (v_det var); try discriminate.
      + apply rbind_err in E. destruct E as [E|[oe [_ E]]]; [exact (optional_not_err _ _ E)|discriminate].
      + exact (payload_tuple_not_err _ _ _ _ _ H E).
      + exact (payload_struct_not_err _ _ _ _ _ H E).
  Qed.

  Lemma internal_step : forall name vs tg v k, v_internal vrec aprops vs tg v = ROk k -> o_internal T orec name vs tg v <> RErr.
  Proof.
    intros name vs tg v k H. unfold v_internal in H. unfold o_internal.
    apply rbind_ok in H. destruct H as [m [Hm H]]. rewrite Hm. cbn.
    apply rbind_ok in H. destruct H as [tv [Ht H]]. rewrite Ht. cbn.
    apply rbind_ok in H. destruct H as [sn [Hs H]]. rewrite Hs. cbn.
    apply rbind_ok in H. destruct H as [var [Hv H]]. rewrite Hv. cbn.
    intro E. bind_ident E.
    destruct (v_det var); try discriminate.
    exact (payload_struct_not_err _ _ _ _ _ H E).
  Qed.

  Lemma adjacent_step : forall name vs tg c v k,
    v_adjacent vrec aprops vs tg c v = ROk k -> o_adjacent T orec name vs tg c v <> RErr.
  Proof.
    intros name vs tg c v k H. unfold v_adjacent in H. unfold o_adjacent.
    apply rbind_ok in H. destruct H as [m [Hm H]]. rewrite Hm. cbn.
    apply rbind_ok in H. destruct H as [[tv cv] [Ht H]]. rewrite Ht. cbn.
    apply rbind_ok in H. destruct H as [var [Hv H]]. rewrite Hv. cbn.
    intro E. bind_ident E.
    destruct (v_det var); destruct cv; try discriminate.
    - exact (payload_tuple_not_err _ _ _ _ _ H E).
    - exact (payload_struct_not_err _ _ _ _ _ H E).
  Qed.

  Lemma untagged_step : forall name vs v k, v_untagged vrec aprops vs v = ROk k -> o_untagged T orec name vs v <> RErr.
  Proof.
    intros name vs v k H. unfold v_untagged in H. unfold o_untagged.
    apply find_map_ok in H. destruct H as [var [Hin H]].
    intro E. pose proof (find_map_err _ _ _ _ E var Hin) as Ev. cbn beta in Ev.
    bind_ident Ev.
    destruct (v_det var).
    - destruct v; discriminate.
    - apply rbind_err in Ev. destruct Ev as [Ev|[e [_ Ev]]]; [exact (IH _ _ _ H Ev)|discriminate].
    - exact (payload_tuple_not_err _ _ _ _ _ H Ev).
    - exact (payload_struct_not_err _ _ _ _ _ H Ev).
  Qed.

  Lemma det_step : forall d v k,
    validate_det re T vrec aprops d v = ROk k -> output_det T orec d v <> RErr.
  Proof.
    intros d v k H. destruct d; cbn [validate_det] in H; cbn [output_det].
    - (* enum *) destruct tag.
      + exact (external_step _ _ _ _ H).
      + exact (internal_step _ _ _ _ _ H).
      + exact (adjacent_step _ _ _ _ _ _ H).
      + exact (untagged_step _ _ _ _ H).
    - (* struct *) intro E. apply rbind_err in E. destruct E as [E|[fs [_ E]]]; [|discriminate].
      exact (struct_step _ _ _ H E).
    - (* newtype *) intro E. apply rbind_err in E. destruct E as [E|[oe [_ E]]]; [exact (optional_not_err _ _ E)|discriminate].
    - (* native *) discriminate.
    - (* option *) destruct v; try discriminate;
        (apply rbind_ok in H; destruct H as [k' [Hk _]]; intro E; apply rbind_err in E;
         destruct E as [E|[e [_ E]]]; [exact (IH _ _ _ Hk E)|discriminate]).
    - (* box *) intro E. apply rbind_err in E. destruct E as [E|[e [_ E]]]; [exact (IH _ _ _ H E)|discriminate].
    - (* vec *) destruct v; try discriminate. cbn.
      destruct (get_det T t); [|discriminate].
      intro E. apply rbind_err in E. destruct E as [E|[es [_ E]]]; [|discriminate].
      apply map_r_err in E. destruct E as [x [Hin Hx]].
      destruct l as [|y l]; [destruct Hin|].
      apply rbind_ok in H. destruct H as [u [Hu _]]. destruct u.
      destruct (each_ok_in _ _ _ _ Hu x Hin) as [k' Hk]. exact (IH _ _ _ Hk Hx).
    - (* map *) destruct v; try discriminate. cbn.
      destruct (get_det T k0); [|discriminate]. destruct (get_det T v0); [|discriminate].
      intro E. apply rbind_err in E. destruct E as [E|[es [_ E]]]; [|discriminate].
      apply map_r_err in E. destruct E as [[key x] [Hin Hx]].
      destruct kvs as [|y kvs]; [destruct Hin|].
      apply rbind_ok in H. destruct H as [u [Hu _]]. destruct u.
      destruct (each_ok_in _ _ _ _ Hu (key, x) Hin) as [k' Hk]. cbn beta iota in Hk.
      apply rbind_ok in Hk. destruct Hk as [k1 [Hk1 Hk2]].
      apply rbind_err in Hx. destruct Hx as [Hx|[a [_ Hx]]]; [exact (IH _ _ _ Hk1 Hx)|].
      apply rbind_err in Hx. destruct Hx as [Hx|[b [_ Hx]]]; [exact (IH _ _ _ Hk2 Hx)|discriminate].
    - (* set *) destruct v; try discriminate. cbn.
      destruct (get_det T t) eqn:Eg; [|discriminate].
      intro E. apply rbind_err in E. destruct E as [E|[es [_ E]]]; [|discriminate].
      apply map_r_err in E. destruct E as [x [Hin Hx]].
      destruct l as [|y l]; [destruct Hin|].
      apply rbind_ok in H. destruct H as [u [Hu _]]. destruct u.
      destruct (v_set_elems_in _ _ _ Hu x Hin) as [k' Hk]. exact (IH _ _ _ Hk Hx).
    - (* array *) destruct v; try discriminate. cbn.
      destruct (negb (N.of_nat (length l) =? n)); [discriminate|].
      destruct (get_det T t); [|discriminate].
      intro E. apply rbind_err in E. destruct E as [E|[es [_ E]]]; [|discriminate].
      apply map_r_err in E. destruct E as [x [Hin Hx]].
      apply rbind_ok in H. destruct H as [u [Hu _]]. destruct u.
      destruct (each_ok_in _ _ _ _ Hu x Hin) as [k' Hk]. exact (IH _ _ _ Hk Hx).
    - (* tuple *) intro E. apply rbind_err in E. destruct E as [E|[es [_ E]]]; [|discriminate].
      exact (tuple_step _ _ _ H E).
    - (* unit *) destruct v; try discriminate H; discriminate.
    - (* boolean *) destruct v; try discriminate H; discriminate.
    - (* integer *) destruct (is_number v) eqn:En.
      + cbn. destruct (is_nonzero_name name); discriminate.
      + exfalso. destruct (not_number_none v En) as [A B]. rewrite A, B in H.
        destruct (negb (integer_fits name v)); discriminate H.
    - (* float *) revert H. destruct (is_number v); intro H; [|discriminate H]. cbn.
      destruct (is_nonzero_name name); discriminate.
    - (* string *) destruct v; try discriminate H; discriminate.
    - (* json *) discriminate.
    - (* reference *) discriminate.
  Qed.
End Step.

(* successful validation never lets output_value return None (the value to_stream() unwraps) *)
Lemma validate_implies_output : forall re T f t v k,
  validate_value re T f t v = ROk k -> output_value T f t v <> RErr.
Proof.
  intros re T f. induction f as [|n IHn]; intros t v k H; cbn in H; [discriminate|].
  cbn. destruct (get_det T t) as [d|]; [|discriminate].
  eapply det_step; [|exact H].
  intros t' v' k' Hk. exact (IHn t' v' k' Hk).
Qed.

(* ------------------------------------------------------------------ repaired checks *)
(* fix 9117497: a validated newtype default satisfies the newtype's constraints *)
Lemma newtype_default_checked : forall re T f t name def inner c d k,
  get_det T t = Some (DNewtype name def inner c) ->
  validate_value re T (S f) t d = ROk k -> constraint_ok re c d = true.
Proof.
  intros re T f t name def inner c d k Hg H. cbn [validate_value] in H. rewrite Hg in H. cbn [validate_det] in H.
  apply rbind_ok in H. destruct H as [k' [_ H]]. destruct (constraint_ok re c d); [reflexivity|discriminate H].
Qed.

(* fix 07af100: a validated integer default fits the Rust integer type (and is non-zero for NonZero) *)
Lemma integer_default_fits : forall re T f t name d k,
  get_det T t = Some (DInteger name) ->
  validate_value re T (S f) t d = ROk k ->
  integer_fits name d = true /\ exists z, d = JInt z.
Proof.
  intros re T f t name d k Hg H. cbn [validate_value] in H. rewrite Hg in H. cbn [validate_det] in H.
  destruct (integer_fits name d); [|discriminate H]. split; [reflexivity|].
  cbn [negb] in H. destruct d; cbn in H; try discriminate H. eauto.
Qed.

(* fix 9891d21: a validated string default is a JSON string *)
Lemma string_default_is_string : forall re T f t d k,
  get_det T t = Some DString -> validate_value re T (S f) t d = ROk k -> exists s, d = JStr s.
Proof.
  intros re T f t d k Hg H. cbn [validate_value] in H. rewrite Hg in H. cbn [validate_det] in H.
  destruct d; try discriminate H. eauto.
Qed.

(* fix cd15928: a unit-typed property with default null is Optional, so default_fn (unreachable!() on Unit) is never asked *)
Lemma unit_null_optional : has_default (Some DUnit) (Some JNull) = POptional.
Proof. reflexivity. Qed.

(* ------------------------------------------------------------------ regression examples (former witnesses) *)
Definition ent (d : details) : entry := mkEntry d [].
Definition mk_space (es : list (id * entry)) : space :=
  mkSpace es 100 (mkSettings None [] false []) false false false false [].
Definition u (s : string) : ustring := ustr_of_string s.
Definition Tw : space := mk_space [
  (1, ent DString);
  (2, ent (DInteger (u "i64")));
  (3, ent (DTuple [2]));
  (4, ent DUnit);
  (5, ent (DInteger (u "u8")));
  (6, ent (DVec 5));
  (7, ent (DNewtype (u "S3") None 1 (CString (Some 3) None None)));
  (8, ent (DInteger (u "::std::num::NonZeroU32")));
  (9, ent (DMap 1 1));
  (10, ent (DStruct (u "W") None [mkProp (u "k") TypeIR.RNone PRequired 2; mkProp (u "extra") RFlatten PRequired 9] false));
  (11, ent (DNewtype (u "IEnum") None 2 (CEnum [JInt 1; JInt 2])));
  (12, ent (DEnum (u "E") None TagExternal [mkVariant (u "U") (u "U") VSimple; mkVariant (u "V") (u "V") (VTuple [2])]
                  false []))
]%N.
Definition re0 (p s : ustring) : bool := false.

Lemma regression_examples :
  validate_value re0 Tw 3 1 (JInt 5) = RErr /\                                   (* F1 *)
  validate_value re0 Tw 3 6 (JArr [JInt 300]) = RErr /\                          (* F5 *)
  validate_value re0 Tw 3 7 (JStr (u "toolong")) = RErr /\                       (* F3 *)
  validate_value re0 Tw 3 11 (JInt 7) = RErr /\                                  (* F3 *)
  validate_value re0 Tw 3 8 (JInt 0) = RErr /\                                   (* F6 *)
  (exists e, output_value Tw 3 3 (JArr [JInt 3]) = ROk e /\ expr_typed Tw 3 e 3 = true) /\          (* F2 *)
  (exists e, output_value Tw 4 10 (JObj [(u "k", JInt 1)]) = ROk e /\ expr_typed Tw 4 e 10 = true). (* F8 *)
Proof.
  repeat split; try (vm_compute; reflexivity).
  - eexists. split; vm_compute; reflexivity.
  - eexists. split; vm_compute; reflexivity.
Qed.

(* fix 15ce314 (ex finding C06-F13): a default selecting a variant whose payload is a one-element tuple is rendered
   `E::V((3_i64,))` for the variant declared `V((i64,))`: typed, and denotes the schema default *)
Lemma tuple1_variant_example :
  exists e, output_value Tw 3 12 (JObj [(u "V", JArr [JInt 3])]) = ROk e /\ expr_typed Tw 3 e 12 = true /\
            eval_expr Tw e = Some (JObj [(u "V", JArr [JInt 3])]).
Proof. eexists. repeat split; vm_compute; reflexivity. Qed.

(* ------------------------------------------------------------------ invalid shapes are rejected *)
Lemma invalid_rejected_scalar : forall re T f t det d,
  get_det T t = Some det -> shape_mismatch det d = true -> validate_value re T (S f) t d = RErr.
Proof.
  intros re T f t det d Hg Hs. cbn [validate_value]. rewrite Hg.
  destruct det; cbn [shape_mismatch] in Hs; try discriminate Hs; cbn [validate_det].
  - (* struct *) destruct d; try discriminate Hs; reflexivity.
  - (* vec *) destruct d; try discriminate Hs; reflexivity.
  - (* map *) destruct d; try discriminate Hs; reflexivity.
  - (* set *) destruct d; try discriminate Hs; reflexivity.
  - (* array *) destruct d; try discriminate Hs; try reflexivity. rewrite Hs. reflexivity.
  - (* tuple *) unfold v_tuple. destruct d; try discriminate Hs; try reflexivity. cbn. rewrite Hs. reflexivity.
  - (* unit *) destruct d; try discriminate Hs; reflexivity.
  - (* boolean *) destruct d; try discriminate Hs; reflexivity.
  - (* integer *) destruct (as_u64 d); [discriminate Hs|]. destruct (as_i64 d); [discriminate Hs|].
    destruct (negb (integer_fits name d)); reflexivity.
  - (* float *) destruct (is_number d); [discriminate Hs|]. reflexivity.
Qed.

(* ------------------------------------------------------------------ integer literals of the known Rust types *)
Definition known_int_names : list ustring :=
  map ustr_of_string ["u8"; "u16"; "u32"; "u64"; "i8"; "i16"; "i32"; "i64";
                      "::std::num::NonZeroU8"; "::std::num::NonZeroU16"; "::std::num::NonZeroU32";
                      "::std::num::NonZeroU64"]%string.
Definition known_int (n : ustring) : bool := existsb (ustr_eqb n) known_int_names.

Lemma ustr_eqb_refl : forall s, ustr_eqb s s = true.
Proof. induction s as [|c s IH]; cbn; [reflexivity|]. rewrite N.eqb_refl. exact IH. Qed.

Lemma ustr_eqb_eq : forall a b, ustr_eqb a b = true -> a = b.
Proof.
  induction a as [|x a IH]; destruct b as [|y b]; cbn; intro H; try discriminate H; [reflexivity|].
  apply andb_true_iff in H. destruct H as [H1 H2]. apply N.eqb_eq in H1. subst. f_equal. exact (IH _ H2).
Qed.

Definition int_lit_ok (n : ustring) (z : Z) : bool :=
  if is_nonzero_name n then nz_arg_ok n (JInt z) && negb (Z.eqb z 0) else lit_in_range n (JInt z).

Local Transparent is_nonzero_name.
Lemma known_int_lit : forall n, In n known_int_names -> forall z,
  (as_u64 (JInt z) <> None \/ as_i64 (JInt z) <> None) -> integer_fits n (JInt z) = true -> int_lit_ok n z = true.
Proof.
  intros n Hin. cbn [known_int_names map] in Hin.
  repeat (destruct Hin as [<-|Hin]; [
    intros z Hs Hf; unfold integer_fits in Hf; unfold int_lit_ok, lit_in_range, nz_arg_ok;
    match type of Hf with context [int_table ?a] =>
      let r := eval vm_compute in (int_table a) in change (int_table a) with r in Hf end;
    match type of Hf with context [is_nonzero_name ?a] =>
      let r := eval vm_compute in (is_nonzero_name a) in change (is_nonzero_name a) with r in Hf end;
    match goal with |- context [is_nonzero_name ?a] =>
      let r := eval vm_compute in (is_nonzero_name a) in change (is_nonzero_name a) with r end;
    match goal with |- context [int_range_u ?a] =>
      let r := eval vm_compute in (int_range_u a) in change (int_range_u a) with r end;
    cbv beta iota in Hf |- *;
    unfold as_u64, as_i64 in Hf, Hs;
    destruct ((0 <=? z) && (z <? 18446744073709551616))%Z;
    destruct ((-9223372036854775808 <=? z) && (z <? 9223372036854775808))%Z;
    cbn [andb negb] in Hf |- *;
    try (destruct Hs as [Hs|Hs]; exfalso; apply Hs; reflexivity);
    try exact Hf;
    try (rewrite andb_true_r in Hf; exact Hf)
  |]).
  destruct Hin.
Qed.
Local Opaque is_nonzero_name.

(* ------------------------------------------------------------------ typing on the structural fragment *)
(* types built from bool / known integers / floats / string / unit by Option, Box, Vec, Set, fixed
   arrays, tuples (ANY arity, incl. one) and newtypes (any constraints) *)
Fixpoint frag (T : space) (fuel : nat) (t : id) {struct fuel} : bool :=
  match fuel with
  | O => false
  | S n =>
      match get_det T t with
      | Some DBoolean | Some DString | Some DUnit => true
      | Some (DInteger nm) => known_int nm
      | Some (DFloat nm) => negb (is_nonzero_name nm)
      | Some (DOption x) | Some (DBox x) | Some (DVec x) | Some (DSet x) | Some (DArray x _)
      | Some (DNewtype _ _ x _) => frag T n x
      | Some (DTuple ts) => forallb (frag T n) ts
      | _ => false
      end
  end.

Lemma frag_get : forall T n t, frag T n t = true -> exists d, get_det T t = Some d.
Proof. intros T n t H. destruct n; cbn in H; [discriminate|]. destruct (get_det T t); [eauto|discriminate]. Qed.

Section Typed.
  Variable T : space.
  Variable g : nat.

  Lemma typed_vec : forall t x es, get_det T t = Some (DVec x) ->
    Forall (fun e => expr_typed T g e x = true) es -> expr_typed T g (EVec es) t = true.
  Proof.
    intros t x es Hg H. cbn [expr_typed]. rewrite Hg. induction H as [|e es He _ IH]; [reflexivity|].
    cbn. rewrite He. exact IH.
  Qed.

  Lemma typed_set : forall t x es, get_det T t = Some (DSet x) ->
    Forall (fun e => expr_typed T g e x = true) es -> expr_typed T g (EVec es) t = true.
  Proof.
    intros t x es Hg H. cbn [expr_typed]. rewrite Hg. induction H as [|e es He _ IH]; [reflexivity|].
    cbn. rewrite He. exact IH.
  Qed.

  Lemma typed_array : forall t x n es, get_det T t = Some (DArray x n) -> N.of_nat (length es) = n ->
    Forall (fun e => expr_typed T g e x = true) es -> expr_typed T g (EArray es) t = true.
  Proof.
    intros t x n es Hg Hl H. cbn [expr_typed]. rewrite Hg. rewrite Hl, N.eqb_refl. cbn [andb].
    clear Hl. induction H as [|e es He _ IH]; [reflexivity|]. cbn. rewrite He. exact IH.
  Qed.

  Lemma typed_tuple : forall t ts es, get_det T t = Some (DTuple ts) ->
    Forall2 (fun x e => expr_typed T g e x = true) ts es -> expr_typed T g (ETuple es) t = true.
  Proof.
    intros t ts es Hg H. cbn [expr_typed]. rewrite Hg. clear Hg. induction H as [|x e ts es He _ IH]; [reflexivity|].
    cbn. rewrite He. cbn [andb]. exact IH.
  Qed.
End Typed.

Lemma map_r_forall : forall A B (P : B -> Prop) (orec : A -> res B) l,
  (forall x, In x l -> exists e, orec x = ROk e /\ P e) ->
  exists es, map_r orec l = ROk es /\ Forall P es /\ length es = length l.
Proof.
  intros A B P orec l. induction l as [|y l IH]; intros H.
  - exists []. repeat split. constructor.
  - destruct (H y (or_introl eq_refl)) as [e [He Pe]].
    destruct (IH (fun x Hx => H x (or_intror Hx))) as [es [Hes [Pes Hl]]].
    exists (e :: es). cbn. rewrite He. cbn. rewrite Hes. cbn. repeat split; [constructor; assumption|congruence].
Qed.

Lemma map_r_forall2 : forall (P : id -> expr -> Prop) (orec : id -> json -> res expr) ts arr,
  length arr = length ts ->
  (forall p, In p (combine ts arr) -> exists e, orec (fst p) (snd p) = ROk e /\ P (fst p) e) ->
  exists es, map_r (fun '(t, x) => orec t x) (combine ts arr) = ROk es /\ Forall2 P ts es.
Proof.
  intros P orec ts. induction ts as [|t ts IH]; intros arr Hl H.
  - destruct arr; [|discriminate Hl]. exists []. split; [reflexivity|constructor].
  - destruct arr as [|x arr]; [discriminate Hl|]. cbn in Hl. injection Hl as Hl.
    destruct (H (t, x) (or_introl eq_refl)) as [e [He Pe]]. cbn in He, Pe.
    destruct (IH arr Hl (fun p Hp => H p (or_intror Hp))) as [es [Hes Pes]].
    exists (e :: es). cbn. rewrite He. cbn. rewrite Hes. cbn. split; [reflexivity|constructor; assumption].
Qed.

Lemma in_combine_forallb : forall (f : id -> bool) ts (arr : list json) p,
  forallb f ts = true -> In p (combine ts arr) -> f (fst p) = true.
Proof.
  intros f ts arr p Hf Hin. destruct p as [t x]. apply in_combine_l in Hin.
  rewrite forallb_forall in Hf. exact (Hf t Hin).
Qed.

(* validated defaults of the fragment are rendered to a well-typed Rust expression *)
Lemma frag_typed : forall re T g f t d k,
  validate_value re T f t d = ROk k -> frag T f t = true ->
  exists e, output_value T f t d = ROk e /\ expr_typed T g e t = true.
Proof.
  intros re T g f. induction f as [|n IH]; intros t d k H Hf; [discriminate H|].
  cbn [validate_value] in H. cbn [frag] in Hf. cbn [output_value].
  destruct (get_det T t) as [det|] eqn:Hg; [|discriminate H].
  destruct det; try discriminate Hf; cbn [validate_det] in H; cbn [output_det].
  - (* newtype *)
    apply rbind_ok in H. destruct H as [k' [Hk _]].
    destruct (IH _ _ _ Hk Hf) as [e [He Te]]. rewrite He. cbn.
    eexists. split; [reflexivity|]. cbn [expr_typed]. rewrite Hg, ustr_eqb_refl, Te. reflexivity.
  - (* option *)
    destruct d; try (apply rbind_ok in H; destruct H as [k' [Hk _]];
                     destruct (IH _ _ _ Hk Hf) as [e [He Te]]; rewrite He; cbn;
                     eexists; split; [reflexivity|]; cbn [expr_typed]; rewrite Hg; exact Te).
    eexists. split; [reflexivity|]. cbn [expr_typed]. rewrite Hg. reflexivity.
  - (* box *)
    destruct (IH _ _ _ H Hf) as [e [He Te]]. rewrite He. cbn.
    eexists. split; [reflexivity|]. cbn [expr_typed]. rewrite Hg. exact Te.
  - (* vec *)
    destruct d; try discriminate H. cbn.
    destruct (frag_get _ _ _ Hf) as [dx Hx]. rewrite Hx.
    assert (Hall : forall x, In x l -> exists e, output_value T n t0 x = ROk e /\ expr_typed T g e t0 = true).
    { intros x Hin. destruct l as [|y l]; [destruct Hin|].
      apply rbind_ok in H. destruct H as [uu [Hu _]]. destruct uu.
      destruct (each_ok_in _ _ _ _ Hu x Hin) as [k' Hk]. exact (IH _ _ _ Hk Hf). }
    destruct (map_r_forall _ _ _ _ _ Hall) as [es [Hes [Pes _]]]. rewrite Hes. cbn.
    eexists. split; [reflexivity|]. exact (typed_vec T g t t0 es Hg Pes).
  - (* set *)
    destruct d; try discriminate H. cbn.
    destruct (frag_get _ _ _ Hf) as [dx Hx]. rewrite Hx.
    assert (Hall : forall x, In x l -> exists e, output_value T n t0 x = ROk e /\ expr_typed T g e t0 = true).
    { intros x Hin. destruct l as [|y l]; [destruct Hin|]. rewrite Hx in H.
      apply rbind_ok in H. destruct H as [uu [Hu _]]. destruct uu.
      destruct (v_set_elems_in _ _ _ Hu x Hin) as [k' Hk]. exact (IH _ _ _ Hk Hf). }
    destruct (map_r_forall _ _ _ _ _ Hall) as [es [Hes [Pes _]]]. rewrite Hes. cbn.
    eexists. split; [reflexivity|]. exact (typed_set T g t t0 es Hg Pes).
  - (* array *)
    destruct d; try discriminate H. cbn.
    destruct (N.of_nat (length l) =? n0) eqn:El; [|discriminate H]. cbn [negb] in H.
    destruct (frag_get _ _ _ Hf) as [dx Hx]. rewrite Hx in H |- *.
    assert (Hall : forall x, In x l -> exists e, output_value T n t0 x = ROk e /\ expr_typed T g e t0 = true).
    { intros x Hin. apply rbind_ok in H. destruct H as [uu [Hu _]]. destruct uu.
      destruct (each_ok_in _ _ _ _ Hu x Hin) as [k' Hk]. exact (IH _ _ _ Hk Hf). }
    destruct (map_r_forall _ _ _ _ _ Hall) as [es [Hes [Pes Hl]]]. rewrite Hes. cbn.
    eexists. split; [reflexivity|]. apply N.eqb_eq in El.
    refine (typed_array T g t t0 n0 es Hg _ Pes). rewrite Hl. exact El.
  - (* tuple *)
    unfold v_tuple in H. unfold o_tuple.
    apply rbind_ok in H. destruct H as [arr [Ha H]]. rewrite Ha. cbn.
    destruct (Nat.eqb (length arr) (length ts)) eqn:El; [|discriminate H]. cbn [negb] in H |- *.
    apply rbind_ok in H. destruct H as [b [Hb H]]. destruct b; [|discriminate H].
    apply Nat.eqb_eq in El.
    destruct (map_r_forall2 (fun x e => expr_typed T g e x = true) (output_value T n) ts arr El) as [es [Hes Pes]].
    { intros p Hin. destruct (all_is_ok_true_in _ _ _ _ Hb p Hin) as [k' Hk]. destruct p as [t1 x1].
      exact (IH _ _ _ Hk (in_combine_forallb _ _ _ (t1, x1) Hf Hin)). }
    rewrite Hes. cbn. eexists. split; [reflexivity|]. exact (typed_tuple T g t ts es Hg Pes).
  - (* unit *) destruct d; try discriminate H. eexists. split; [reflexivity|]. cbn [expr_typed]. rewrite Hg. reflexivity.
  - (* boolean *) destruct d; try discriminate H. eexists. split; [reflexivity|]. cbn [expr_typed]. rewrite Hg. reflexivity.
  - (* integer *)
    destruct (integer_fits name d) eqn:Ef; [|discriminate H]. cbn [negb] in H.
    destruct d; try (cbn in H; discriminate H). cbn [is_number negb].
    unfold known_int in Hf. apply existsb_exists in Hf. destruct Hf as [x [Hin Hx]].
    apply ustr_eqb_eq in Hx. subst x.
    assert (Hs : as_u64 (JInt z) <> None \/ as_i64 (JInt z) <> None).
    { revert H. destruct (as_u64 (JInt z)); [intros _; left; discriminate|].
      destruct (as_i64 (JInt z)); [intros _; right; discriminate|]. intro H; discriminate H. }
    pose proof (known_int_lit name Hin z Hs Ef) as Hl. unfold int_lit_ok in Hl.
    destruct (is_nonzero_name name) eqn:En.
    + apply andb_true_iff in Hl. destruct Hl as [Hl _].
      eexists. split; [reflexivity|]. cbn [expr_typed]. rewrite Hg, ustr_eqb_refl, En, Hl. reflexivity.
    + eexists. split; [reflexivity|]. cbn [expr_typed]. rewrite Hg, ustr_eqb_refl, En, Hl. reflexivity.
  - (* float *)
    apply negb_true_iff in Hf.
    revert H. destruct (is_number d) eqn:En; intro H; [|discriminate H]. cbn [negb]. rewrite Hf.
    eexists. split; [reflexivity|]. cbn [expr_typed]. rewrite Hg, ustr_eqb_refl, En. reflexivity.
  - (* string *) destruct d; try discriminate H. eexists. split; [reflexivity|]. cbn [expr_typed]. rewrite Hg. reflexivity.
Qed.

(* ------------------------------------------------------------------ exactness on the scalar kinds *)
Definition scalar_det (d : details) : bool :=
  match d with
  | DBoolean | DString | DUnit => true
  | DFloat n => negb (is_nonzero_name n)
  | DInteger n => known_int n
  | _ => false
  end.

Lemma scalar_exact : forall re T f t det d k,
  get_det T t = Some det -> scalar_det det = true ->
  validate_value re T (S f) t d = ROk k ->
  exists e r, output_value T (S f) t d = ROk e /\ eval_expr T e = Some r /\ approx d r = true.
Proof.
  intros re T f t det d k Hg Hs Hv. cbn [validate_value] in Hv. rewrite Hg in Hv.
  cbn [output_value]. rewrite Hg.
  destruct det; try discriminate Hs; cbn [validate_det] in Hv; cbn [output_det]; cbn [scalar_det] in Hs.
  - (* unit *) destruct d; try discriminate Hv. exists EUnit, JNull. repeat split; reflexivity.
  - (* boolean *) destruct d; try discriminate Hv. exists (EBool b), (JBool b).
    repeat split; try reflexivity. destruct b; reflexivity.
  - (* integer *)
    destruct (integer_fits name d) eqn:Ef; [|discriminate Hv]. cbn [negb] in Hv.
    destruct d; try (cbn in Hv; discriminate Hv). cbn [is_number negb].
    unfold known_int in Hs. apply existsb_exists in Hs. destruct Hs as [x [Hin Hx]].
    apply ustr_eqb_eq in Hx. subst x.
    assert (Hs : as_u64 (JInt z) <> None \/ as_i64 (JInt z) <> None).
    { revert Hv. destruct (as_u64 (JInt z)); [intros _; left; discriminate|].
      destruct (as_i64 (JInt z)); [intros _; right; discriminate|]. intro Hv; discriminate Hv. }
    pose proof (known_int_lit name Hin z Hs Ef) as Hl. unfold int_lit_ok in Hl.
    destruct (is_nonzero_name name) eqn:En.
    + apply andb_true_iff in Hl. destruct Hl as [_ Hz]. apply negb_true_iff in Hz.
      exists (ENonZero name (JInt z)), (JInt z). cbn [eval_expr is_zero_number]. rewrite Hz.
      repeat split; try reflexivity. cbn. apply Z.eqb_refl.
    + exists (ENum (JInt z) name), (JInt z). repeat split; try reflexivity. cbn. apply Z.eqb_refl.
  - (* float *)
    apply negb_true_iff in Hs.
    revert Hv. destruct (is_number d) eqn:En; intro Hv; [|discriminate Hv]. cbn [negb]. rewrite Hs.
    exists (ENum d name), d. repeat split; try reflexivity.
    destruct d; try discriminate En; cbn; [apply Z.eqb_refl|apply Qeq_bool_iff; reflexivity].
  - (* string *) destruct d; try discriminate Hv. exists (EStr s), (JStr s).
    repeat split; try reflexivity. cbn. apply ustr_eqb_refl.
Qed.
