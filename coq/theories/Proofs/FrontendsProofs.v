(* FrontendsProofs.v — lemmas and proofs about Algo/Frontends.v (property C15). *)
From Coq Require Import List NArith Bool Lia Permutation.
From Typify Require Import Algo.Frontends.
Import ListNotations.
Open Scope N_scope.

(* ------------------------------------------------------------------ *)
(* strings                                                              *)
(* ------------------------------------------------------------------ *)

Lemma ueqb_refl : forall a, ueqb a a = true.
Proof. induction a as [|x a IH]; cbn [ueqb]; [reflexivity | rewrite N.eqb_refl, IH; reflexivity]. Qed.

Lemma ueqb_eq : forall a b, ueqb a b = true <-> a = b.
Proof.
  induction a as [|x a IH]; intros [|y b]; cbn [ueqb]; split; intros H; try reflexivity; try discriminate.
  - apply andb_true_iff in H. destruct H as [Hxy Hab]. apply N.eqb_eq in Hxy. apply IH in Hab. subst. reflexivity.
  - inversion H; subst. rewrite N.eqb_refl, ueqb_refl. reflexivity.
Qed.

Lemma ueqb_neq : forall a b, ueqb a b = false <-> a <> b.
Proof.
  intros a b. split.
  - intros H E. apply ueqb_eq in E. congruence.
  - intros H. destruct (ueqb a b) eqn:E; [apply ueqb_eq in E; contradiction | reflexivity].
Qed.

Lemma ueqb_sym : forall a b, ueqb a b = ueqb b a.
Proof.
  intros a b. destruct (ueqb a b) eqn:E.
  - apply ueqb_eq in E. subst. symmetry. apply ueqb_refl.
  - symmetry. apply ueqb_neq. apply ueqb_neq in E. congruence.
Qed.

Lemma split_at_app : forall c a b, ~ In c a -> split_at c (a ++ c :: b) = Some (a, b).
Proof.
  induction a as [|x a IH]; intros b Hn; cbn [app split_at].
  - rewrite N.eqb_refl. reflexivity.
  - destruct (x =? c) eqn:E.
    + apply N.eqb_eq in E. subst. exfalso. apply Hn. left. reflexivity.
    + rewrite IH; [reflexivity | intros Hi; apply Hn; right; exact Hi].
Qed.

Lemma split_at_none : forall c s, ~ In c s -> split_at c s = None.
Proof.
  induction s as [|x s IH]; intros Hn; cbn [split_at]; [reflexivity|].
  destruct (x =? c) eqn:E.
  - apply N.eqb_eq in E. subst. exfalso. apply Hn. left. reflexivity.
  - rewrite IH; [reflexivity | intros Hi; apply Hn; right; exact Hi].
Qed.

Lemma split_at_some : forall c s a b, split_at c s = Some (a, b) -> s = a ++ c :: b /\ ~ In c a.
Proof.
  induction s as [|x s IH]; intros a b H; cbn [split_at] in H; [discriminate|].
  destruct (x =? c) eqn:E.
  - apply N.eqb_eq in E. inversion H; subst. split; [reflexivity | intros []].
  - destruct (split_at c s) as [[a' b']|] eqn:E2; [|discriminate].
    inversion H; subst. destruct (IH a' b eq_refl) as [Hs Hn]. subst s. split; [reflexivity|].
    intros [Hx|Hi]; [subst; rewrite N.eqb_refl in E; discriminate | exact (Hn Hi)].
Qed.

Lemma split_at_None_notin : forall c s, split_at c s = None -> ~ In c s.
Proof.
  induction s as [|x s IH]; intros H; cbn [split_at] in H; [intros []|].
  destruct (x =? c) eqn:E; [discriminate|].
  destruct (split_at c s) as [[a b]|] eqn:E2; [discriminate|].
  intros [Hx|Hi]; [subst; rewrite N.eqb_refl in E; discriminate | exact (IH eq_refl Hi)].
Qed.

(* ------------------------------------------------------------------ *)
(* crate specifiers                                                     *)
(* ------------------------------------------------------------------ *)

Lemma name_char_not_sep : forall c, name_char c = true -> c <> c_eq /\ c <> c_at.
Proof.
  intros c H. unfold name_char, ascii_alpha, ascii_digit, c_dash, c_under, c_eq, c_at in *.
  repeat (apply orb_true_iff in H; destruct H as [H|H]);
    repeat (apply andb_true_iff in H; destruct H as [? H]);
    repeat match goal with
           | X : (_ <=? _) = true |- _ => apply N.leb_le in X
           | X : (_ =? _) = true |- _ => apply N.eqb_eq in X
           end; split; lia.
Qed.

Lemma name_char_nodigit_name_char : forall c, name_char_nodigit c = true -> name_char c = true.
Proof.
  intros c H. unfold name_char_nodigit, name_char in *.
  destruct (ascii_alpha c), (ascii_digit c), (c =? c_dash), (c =? c_under); cbn in *; congruence.
Qed.

Lemma forallb_notin : forall (p : N -> bool) c s, forallb p s = true -> p c = false -> ~ In c s.
Proof.
  intros p c s Hf Hp Hi. rewrite forallb_forall in Hf. specialize (Hf c Hi). congruence.
Qed.

Lemma name_no_sep : forall s, forallb name_char s = true -> ~ In c_eq s /\ ~ In c_at s.
Proof.
  intros s H. split; intros Hi; rewrite forallb_forall in H; apply H in Hi;
    apply name_char_not_sep in Hi; destruct Hi; congruence.
Qed.

Section SpecProofs.
  Variable V : Type.
  Variable parse_version : ustring -> option V.
  Variable letter : N -> bool.

  Notation vers_parse := (vers_parse V parse_version).
  Notation is_crate := (is_crate letter).
  Notation cli_parse_spec := (cli_parse_spec V parse_version letter).
  Notation cli_parse_specs := (cli_parse_specs V parse_version letter).
  Notation macro_parse_spec := (macro_parse_spec V parse_version letter).

  (* generic acceptance: `nc` is any class of name characters the front-end's is_crate accepts *)
  Section Generic.
    Variable nc : N -> bool.
    Hypothesis nc_crate : forall c, nc c = true -> crate_char letter c = true.
    Hypothesis nc_sep : forall c, nc c = true -> c <> c_eq /\ c <> c_at.

    Lemma nc_is_crate : forall s, forallb nc s = true -> is_crate s = true.
    Proof.
      intros s H. unfold Frontends.is_crate. rewrite forallb_forall in *. intros c Hc. apply nc_crate, H, Hc.
    Qed.

    Lemma nc_no_sep : forall s, forallb nc s = true -> ~ In c_eq s /\ ~ In c_at s.
    Proof.
      intros s H. rewrite forallb_forall in H.
      split; intros Hi; apply H in Hi; apply nc_sep in Hi; destruct Hi; congruence.
    Qed.

    Lemma accepts_plain : forall name ver cv,
        forallb nc name = true -> vers_parse ver = Some cv -> ~ In c_eq ver ->
        cli_parse_spec (name ++ c_at :: ver) = Some {| cs_name := name; cs_version := cv; cs_rename := None |}.
    Proof.
      intros name ver cv Hn Hv He. destruct (nc_no_sep _ Hn) as [Hne Hna].
      unfold Frontends.cli_parse_spec.
      rewrite (split_at_none c_eq (name ++ c_at :: ver)).
      2:{ intros Hi. apply in_app_or in Hi. destruct Hi as [Hi|[Hi|Hi]]; [exact (Hne Hi) | discriminate Hi | exact (He Hi)]. }
      rewrite (split_at_app c_at name ver Hna).
      rewrite (nc_is_crate _ Hn). cbn [negb]. rewrite Hv. reflexivity.
    Qed.

    Lemma accepts_rename : forall rename name ver cv,
        forallb nc rename = true -> forallb nc name = true -> vers_parse ver = Some cv ->
        cli_parse_spec (rename ++ c_eq :: name ++ c_at :: ver)
        = Some {| cs_name := name; cs_version := cv; cs_rename := Some rename |}.
    Proof.
      intros rename name ver cv Hr Hn Hv.
      destruct (nc_no_sep _ Hn) as [_ Hna]. destruct (nc_no_sep _ Hr) as [Hre _].
      unfold Frontends.cli_parse_spec.
      rewrite (split_at_app c_eq rename (name ++ c_at :: ver) Hre).
      rewrite (nc_is_crate _ Hr). cbn [negb].
      rewrite (split_at_app c_at name ver Hna).
      rewrite (nc_is_crate _ Hn). cbn [negb]. rewrite Hv. reflexivity.
    Qed.

    Lemma accepts_render : forall name ver rename cv,
        forallb nc name = true -> (forall r, rename = Some r -> forallb nc r = true) ->
        vers_parse ver = Some cv -> ~ In c_eq ver ->
        cli_parse_spec (render_spec name ver rename)
        = Some {| cs_name := name; cs_version := cv; cs_rename := rename |}.
    Proof.
      intros name ver [r|] cv Hn Hr Hv He; unfold render_spec.
      - apply accepts_rename; auto.
      - apply accepts_plain; auto.
    Qed.

    Lemma macro_accepts : forall name ver cv,
        forallb nc name = true -> vers_parse ver = Some cv ->
        macro_parse_name letter name = Some name /\
        macro_parse_spec (name ++ c_at :: ver) = Some (Some name, cv) /\
        (~ In c_at ver -> macro_parse_spec ver = Some (None, cv)).
    Proof.
      intros name ver cv Hn Hv. destruct (nc_no_sep _ Hn) as [_ Hna]. repeat split.
      - unfold macro_parse_name. rewrite (nc_is_crate _ Hn). reflexivity.
      - unfold Frontends.macro_parse_spec. rewrite (split_at_app c_at name ver Hna).
        rewrite (nc_is_crate _ Hn). cbn [negb]. rewrite Hv. reflexivity.
      - intros Hno. unfold Frontends.macro_parse_spec. rewrite (split_at_none c_at ver Hno). rewrite Hv. reflexivity.
    Qed.
  End Generic.

  (* the statement of the property: every [A-Za-z0-9_-]+ name *)
  Lemma crate_char_of_name_char :
    (forall c, ascii_alpha c || ascii_digit c = true -> letter c = true) ->
    forall c, name_char c = true -> crate_char letter c = true.
  Proof.
    intros HL c H. unfold name_char in H. unfold crate_char.
    destruct (ascii_alpha c || ascii_digit c) eqn:E.
    - rewrite (HL c E). reflexivity.
    - cbn [orb] in H. apply orb_true_iff in H. destruct H as [H|H]; rewrite H; repeat rewrite orb_true_r; reflexivity.
  Qed.

  Lemma crate_char_of_name_char_nodigit :
    (forall c, ascii_alpha c = true -> letter c = true) ->
    forall c, name_char_nodigit c = true -> crate_char letter c = true.
  Proof.
    intros HL c H. unfold name_char_nodigit in H. unfold crate_char.
    destruct (ascii_alpha c) eqn:E.
    - rewrite (HL c E). reflexivity.
    - cbn [orb] in H. apply orb_true_iff in H. destruct H as [H|H]; rewrite H; repeat rewrite orb_true_r; reflexivity.
  Qed.

  Lemma valid_name_forallb : forall s, valid_name s = true -> forallb name_char s = true.
  Proof. intros s H. unfold valid_name in H. apply andb_true_iff in H. apply H. Qed.
  Lemma valid_name_nodigit_forallb : forall s, valid_name_nodigit s = true -> forallb name_char_nodigit s = true.
  Proof. intros s H. unfold valid_name_nodigit in H. apply andb_true_iff in H. apply H. Qed.

  Theorem cli_accepts_valid_spec :
    (forall c, ascii_alpha c || ascii_digit c = true -> letter c = true) ->
    forall name rename ver cv,
      valid_name name = true -> valid_name rename = true -> vers_parse ver = Some cv ->
      (~ In c_eq ver ->
       cli_parse_spec (name ++ c_at :: ver) = Some {| cs_name := name; cs_version := cv; cs_rename := None |}) /\
      cli_parse_spec (rename ++ c_eq :: name ++ c_at :: ver)
      = Some {| cs_name := name; cs_version := cv; cs_rename := Some rename |}.
  Proof.
    intros HL name rename ver cv Hn Hr Hv.
    pose proof (crate_char_of_name_char HL) as Hc.
    split.
    - intros He. apply (accepts_plain name_char Hc name_char_not_sep); auto using valid_name_forallb.
    - apply (accepts_rename name_char Hc name_char_not_sep); auto using valid_name_forallb.
  Qed.

  Theorem cli_accepts_valid_spec_nodigit :
    (forall c, ascii_alpha c = true -> letter c = true) ->
    forall name rename ver cv,
      valid_name_nodigit name = true -> valid_name_nodigit rename = true -> vers_parse ver = Some cv ->
      (~ In c_eq ver ->
       cli_parse_spec (name ++ c_at :: ver) = Some {| cs_name := name; cs_version := cv; cs_rename := None |}) /\
      cli_parse_spec (rename ++ c_eq :: name ++ c_at :: ver)
      = Some {| cs_name := name; cs_version := cv; cs_rename := Some rename |}.
  Proof.
    intros HL name rename ver cv Hn Hr Hv.
    pose proof (crate_char_of_name_char_nodigit HL) as Hc.
    assert (Hs : forall c, name_char_nodigit c = true -> c <> c_eq /\ c <> c_at)
      by (intros c H; apply name_char_not_sep, name_char_nodigit_name_char, H).
    split.
    - intros He. apply (accepts_plain name_char_nodigit Hc Hs); auto using valid_name_nodigit_forallb.
    - apply (accepts_rename name_char_nodigit Hc Hs); auto using valid_name_nodigit_forallb.
  Qed.

  (* the faithful CLI predicate (char::is_alphabetic) rejects digits: the full statement is false *)
  Theorem cli_accepts_valid_spec_refuted :
    letter 49 = false ->
    exists name ver cv,
      valid_name name = true /\ vers_parse ver = Some cv /\ ~ In c_eq ver /\
      cli_parse_spec (name ++ c_at :: ver) = None /\
      cli_parse_spec (name ++ c_eq :: [97] ++ c_at :: ver) = None.
  Proof.
    intros H1. exists [97; 49], [c_star], Any. repeat split.
    - intros [H|[]]. discriminate H.
    - unfold Frontends.cli_parse_spec, Frontends.is_crate, crate_char. cbn. rewrite H1. cbn.
      rewrite andb_false_r. reflexivity.
    - unfold Frontends.cli_parse_spec, Frontends.is_crate, crate_char. cbn. rewrite H1. cbn.
      rewrite andb_false_r. reflexivity.
  Qed.

  Theorem macro_accepts_valid_spec :
    (forall c, ascii_alpha c || ascii_digit c = true -> letter c = true) ->
    forall name ver cv,
      valid_name name = true -> vers_parse ver = Some cv ->
      macro_parse_name letter name = Some name /\
      macro_parse_spec (name ++ c_at :: ver) = Some (Some name, cv) /\
      (~ In c_at ver -> macro_parse_spec ver = Some (None, cv)).
  Proof.
    intros HL name ver cv Hn Hv.
    apply (macro_accepts name_char (crate_char_of_name_char HL) name_char_not_sep); auto using valid_name_forallb.
  Qed.

  (* inversion: whatever is accepted has exactly the documented shape *)
  Theorem cli_parse_spec_inv : forall s c,
      cli_parse_spec s = Some c ->
      is_crate (cs_name c) = true /\
      (forall r, cs_rename c = Some r -> is_crate r = true) /\
      exists vs, vers_parse vs = Some (cs_version c) /\
                 s = render_spec (cs_name c) vs (cs_rename c) /\
                 ~ In c_at (cs_name c) /\
                 (forall r, cs_rename c = Some r -> ~ In c_eq r) /\
                 (cs_rename c = None -> ~ In c_eq s).
  Proof.
    intros s c H. unfold Frontends.cli_parse_spec in H.
    destruct (split_at c_eq s) as [[rn rest]|] eqn:E1.
    - destruct (is_crate rn) eqn:Er; cbn [negb] in H; [|discriminate].
      destruct (split_at c_at rest) as [[cr vs]|] eqn:E2; [|discriminate].
      destruct (is_crate cr) eqn:Ec; cbn [negb] in H; [|discriminate].
      destruct (vers_parse vs) as [v|] eqn:Ev; [|discriminate].
      inversion H; subst c; cbn.
      apply split_at_some in E1. destruct E1 as [Es Hn1]. apply split_at_some in E2. destruct E2 as [Er2 Hn2].
      split; [exact Ec|]. split; [intros r Hr; inversion Hr; subst; exact Er|].
      exists vs. repeat split; auto.
      + subst. reflexivity.
      + intros r Hr. inversion Hr; subst. exact Hn1.
      + discriminate.
    - destruct (split_at c_at s) as [[cr vs]|] eqn:E2; [|discriminate].
      destruct (is_crate cr) eqn:Ec; cbn [negb] in H; [|discriminate].
      destruct (vers_parse vs) as [v|] eqn:Ev; [|discriminate].
      inversion H; subst c; cbn.
      apply split_at_some in E2. destruct E2 as [Er2 Hn2].
      split; [exact Ec|]. split; [discriminate|].
      exists vs. repeat split; auto.
      + discriminate.
      + intros _. apply split_at_None_notin. exact E1.
  Qed.

  Theorem cli_rejects_malformed : forall s,
      (* no '@' *)
      (~ In c_at s -> cli_parse_spec s = None) /\
      (* a character that is_crate rejects in the crate-name part, or in the rename part *)
      (forall a b, s = a ++ c_at :: b -> ~ In c_eq a -> ~ In c_at a -> is_crate a = false -> cli_parse_spec s = None) /\
      (forall r rest, s = r ++ c_eq :: rest -> ~ In c_eq r -> is_crate r = false -> cli_parse_spec s = None) /\
      (* a version that CrateVers::parse rejects *)
      (forall a b, s = a ++ c_at :: b -> ~ In c_at a -> ~ In c_eq s -> vers_parse b = None -> cli_parse_spec s = None) /\
      (forall r a b, s = r ++ c_eq :: a ++ c_at :: b -> ~ In c_eq r -> ~ In c_at a -> vers_parse b = None ->
                     cli_parse_spec s = None).
  Proof.
    intros s. repeat split.
    - intros Hn. destruct (cli_parse_spec s) as [c|] eqn:E; [|reflexivity].
      apply cli_parse_spec_inv in E. destruct E as (_ & _ & vs & _ & Hs & _).
      exfalso. apply Hn. rewrite Hs. unfold render_spec.
      destruct (cs_rename c); repeat (apply in_or_app; right; cbn); try (right; apply in_or_app; right; left; reflexivity).
      left; reflexivity.
    - intros a b Hs He Ha Hc. subst s. unfold Frontends.cli_parse_spec.
      destruct (split_at c_eq (a ++ c_at :: b)) as [[rn rest]|] eqn:E1.
      + (* '=' lies in b: the rename part is a ++ '@' ++ .. and contains '@'?  is_crate decides *)
        apply split_at_some in E1. destruct E1 as [Es Hn1].
        destruct (is_crate rn) eqn:Er; cbn [negb]; [|reflexivity].
        (* rn extends a: a is a prefix of rn up to '@' *)
        exfalso.
        assert (Hpre : exists t, rn = a ++ c_at :: t).
        { clear Er Hc. revert rn Es Hn1. induction a as [|x a IH]; intros rn Es Hn1.
          - destruct rn as [|y rn]; cbn in Es.
            + inversion Es.
            + inversion Es; subst. exists rn. reflexivity.
          - destruct rn as [|y rn]; cbn in Es.
            + inversion Es; subst. exfalso. apply He. left. reflexivity.
            + inversion Es; subst.
              destruct (IH (fun H => He (or_intror H)) (fun H => Ha (or_intror H)) rn H1 (fun H => Hn1 (or_intror H))) as [t Ht].
              exists t. subst. reflexivity. }
        destruct Hpre as [t Ht]. subst rn.
        unfold Frontends.is_crate in Er, Hc. rewrite forallb_app in Er. apply andb_true_iff in Er. destruct Er as [Er _].
        congruence.
      + rewrite (split_at_app c_at a b Ha). rewrite Hc. reflexivity.
    - intros r rest Hs Hn Hc. subst s. unfold Frontends.cli_parse_spec.
      rewrite (split_at_app c_eq r rest Hn). rewrite Hc. reflexivity.
    - intros a b Hs Ha He Hv. subst s. unfold Frontends.cli_parse_spec.
      rewrite (split_at_none c_eq _ He). rewrite (split_at_app c_at a b Ha).
      destruct (is_crate a); cbn [negb]; [rewrite Hv|]; reflexivity.
    - intros r a b Hs Hr Ha Hv. subst s. unfold Frontends.cli_parse_spec.
      rewrite (split_at_app c_eq r _ Hr). destruct (is_crate r); cbn [negb]; [|reflexivity].
      rewrite (split_at_app c_at a b Ha). destruct (is_crate a); cbn [negb]; [rewrite Hv|]; reflexivity.
  Qed.
End SpecProofs.

(* ------------------------------------------------------------------ *)
(* output path                                                          *)
(* ------------------------------------------------------------------ *)

Lemma split_slash_nonempty : forall s, split_slash s <> [].
Proof.
  induction s as [|x s IH]; cbn [split_slash]; [discriminate|].
  destruct (x =? c_slash); [discriminate|]. destruct (split_slash s); discriminate.
Qed.

Lemma split_slash_no_slash : forall f, ~ In c_slash f -> split_slash f = [f].
Proof.
  induction f as [|x f IH]; intros Hn; cbn [split_slash]; [reflexivity|].
  destruct (x =? c_slash) eqn:E.
  - apply N.eqb_eq in E. subst. exfalso. apply Hn. left. reflexivity.
  - rewrite IH; [reflexivity | intros Hi; apply Hn; right; exact Hi].
Qed.

Lemma split_slash_app : forall a b, split_slash (a ++ c_slash :: b) = split_slash a ++ split_slash b.
Proof.
  induction a as [|x a IH]; intros b; cbn [app split_slash].
  - rewrite N.eqb_refl. reflexivity.
  - destruct (x =? c_slash) eqn:E.
    + rewrite IH. reflexivity.
    + rewrite IH. destruct (split_slash a) as [|p ps] eqn:Ea.
      * exfalso. exact (split_slash_nonempty a Ea).
      * reflexivity.
Qed.

Lemma join_split_snoc : forall d x, join_slash (split_slash d ++ [x]) = d ++ c_slash :: x.
Proof.
  induction d as [|y d IH]; intros x.
  - reflexivity.
  - cbn [split_slash]. destruct (y =? c_slash) eqn:E.
    + apply N.eqb_eq in E. subst y.
      change (([] :: split_slash d) ++ [x]) with ([] :: (split_slash d ++ [x])).
      cbn [join_slash]. destruct (split_slash d ++ [x]) as [|p ps] eqn:Ea.
      * destruct (split_slash d); discriminate.
      * rewrite <- Ea, IH. reflexivity.
    + destruct (split_slash d) as [|p ps] eqn:Ed.
      * exfalso. exact (split_slash_nonempty d Ed).
      * specialize (IH x).
        change (((y :: p) :: ps) ++ [x]) with ((y :: p) :: (ps ++ [x])).
        change ((p :: ps) ++ [x]) with (p :: (ps ++ [x])) in IH.
        cbn [join_slash] in *. destruct (ps ++ [x]) as [|q qs] eqn:Ea.
        -- destruct ps; discriminate.
        -- cbn [app]. rewrite <- IH. reflexivity.
Qed.

Lemma last_component_snoc : forall ps f, skip_piece f = false -> last_component (ps ++ [f]) = Some (ps, f).
Proof.
  induction ps as [|p ps IH]; intros f Hf; cbn [app last_component].
  - rewrite Hf. reflexivity.
  - rewrite (IH f Hf). reflexivity.
Qed.

Lemma rsplit_dot_none : forall f, ~ In c_dot f -> rsplit_dot f = None.
Proof.
  induction f as [|x f IH]; intros Hn; cbn [rsplit_dot]; [reflexivity|].
  rewrite IH; [|intros Hi; apply Hn; right; exact Hi].
  destruct (x =? c_dot) eqn:E; [|reflexivity].
  apply N.eqb_eq in E. subst. exfalso. apply Hn. left. reflexivity.
Qed.

Lemma rsplit_dot_app : forall a b, ~ In c_dot b -> rsplit_dot (a ++ c_dot :: b) = Some (a, b).
Proof.
  induction a as [|x a IH]; intros b Hn; cbn [app rsplit_dot].
  - rewrite (rsplit_dot_none b Hn). rewrite N.eqb_refl. reflexivity.
  - rewrite (IH b Hn). reflexivity.
Qed.

Lemma file_stem_ext : forall stem ext, stem <> [] -> ~ In c_dot ext -> file_stem (stem ++ c_dot :: ext) = stem.
Proof.
  intros stem ext Hs Hn. unfold file_stem. rewrite (rsplit_dot_app stem ext Hn).
  destruct stem; [contradiction | reflexivity].
Qed.

Lemma file_stem_nodot : forall f, ~ In c_dot f -> file_stem f = f.
Proof. intros f Hn. unfold file_stem. rewrite (rsplit_dot_none f Hn). reflexivity. Qed.

Definition plain_file (f : ustring) : Prop :=
  f <> [] /\ f <> [c_dot] /\ f <> [c_dot; c_dot] /\ ~ In c_slash f.

Lemma plain_not_skipped : forall f, plain_file f -> skip_piece f = false /\ ueqb f [c_dot; c_dot] = false.
Proof.
  intros f (H1 & H2 & H3 & _). unfold skip_piece. split.
  - apply orb_false_iff. split; apply ueqb_neq; assumption.
  - apply ueqb_neq. assumption.
Qed.

(* set_extension on `dir/file`: the final component's stem is kept, the rest is replaced by ".rs" *)
Lemma set_extension_dir : forall d f, plain_file f ->
    set_extension_rs (d ++ c_slash :: f) = (true, d ++ c_slash :: file_stem f ++ c_dot :: s_rs).
Proof.
  intros d f Hp. destruct (plain_not_skipped f Hp) as [Hs Hdd]. destruct Hp as (_ & _ & _ & Hns).
  unfold set_extension_rs. rewrite split_slash_app, (split_slash_no_slash f Hns).
  rewrite (last_component_snoc _ f Hs). rewrite Hdd.
  rewrite join_split_snoc. rewrite <- app_assoc. reflexivity.
Qed.

Lemma set_extension_nodir : forall f, plain_file f ->
    set_extension_rs f = (true, file_stem f ++ c_dot :: s_rs).
Proof.
  intros f Hp. destruct (plain_not_skipped f Hp) as [Hs Hdd]. destruct Hp as (_ & _ & _ & Hns).
  unfold set_extension_rs. rewrite (split_slash_no_slash f Hns).
  cbn [last_component]. rewrite Hs, Hdd. reflexivity.
Qed.

Lemma plain_with_ext : forall stem ext,
    stem <> [] -> stem <> [c_dot] -> ~ In c_slash stem -> ~ In c_slash ext -> plain_file (stem ++ c_dot :: ext).
Proof.
  intros stem ext H1 H2 H3 H4. unfold plain_file. repeat split.
  - destruct stem; discriminate.
  - destruct stem as [|a [|b s]]; cbn; try discriminate; contradiction.
  - destruct stem as [|a [|b s]]; cbn; [contradiction| |].
    + intros E. inversion E; subst. contradiction.
    + destruct s; discriminate.
  - intros Hi. apply in_app_or in Hi. destruct Hi as [Hi|[Hi|Hi]]; [exact (H3 Hi) | discriminate Hi | exact (H4 Hi)].
Qed.

Theorem set_extension_spec : forall d stem ext,
    stem <> [] -> stem <> [c_dot] -> ~ In c_slash stem -> ~ In c_slash ext -> ~ In c_dot ext ->
    (* dir/stem.ext -> dir/stem.rs ; stem.ext -> stem.rs *)
    set_extension_rs (d ++ c_slash :: stem ++ c_dot :: ext) = (true, d ++ c_slash :: stem ++ c_dot :: s_rs) /\
    set_extension_rs (stem ++ c_dot :: ext) = (true, stem ++ c_dot :: s_rs) /\
    (* no extension: dir/stem -> dir/stem.rs *)
    (~ In c_dot stem ->
     set_extension_rs (d ++ c_slash :: stem) = (true, d ++ c_slash :: stem ++ c_dot :: s_rs) /\
     set_extension_rs stem = (true, stem ++ c_dot :: s_rs)).
Proof.
  intros d stem ext H1 H2 H3 H4 H5.
  pose proof (plain_with_ext stem ext H1 H2 H3 H4) as Hp.
  repeat split.
  - rewrite (set_extension_dir d _ Hp). rewrite (file_stem_ext stem ext H1 H5). reflexivity.
  - rewrite (set_extension_nodir _ Hp). rewrite (file_stem_ext stem ext H1 H5). reflexivity.
  - assert (Hq : plain_file stem).
    { unfold plain_file. repeat split; auto. intros E. subst. apply H. left. reflexivity. }
    rewrite (set_extension_dir d _ Hq). rewrite (file_stem_nodot stem H). reflexivity.
  - assert (Hq : plain_file stem).
    { unfold plain_file. repeat split; auto. intros E. subst. apply H. left. reflexivity. }
    rewrite (set_extension_nodir _ Hq). rewrite (file_stem_nodot stem H). reflexivity.
Qed.

Theorem output_path_spec : forall input,
    output_path input (Some s_minus) = None /\
    (forall p, p <> s_minus -> output_path input (Some p) = Some p) /\
    output_path input None = Some (snd (set_extension_rs input)).
Proof.
  intros input. repeat split.
  - intros p Hp. unfold output_path. apply ueqb_neq in Hp. rewrite Hp. reflexivity.
Qed.

(* ------------------------------------------------------------------ *)
(* TypeAndImpls                                                         *)
(* ------------------------------------------------------------------ *)

Lemma timpl_eqb_eq : forall a b, timpl_eqb a b = true <-> a = b.
Proof. intros [] []; cbn; split; intros H; try reflexivity; discriminate. Qed.

Definition mem (i : timpl) (s : list timpl) : bool := existsb (timpl_eqb i) s.

Lemma mem_In : forall i s, mem i s = true <-> In i s.
Proof.
  intros i s. unfold mem. rewrite existsb_exists. split.
  - intros [x [Hx He]]. apply timpl_eqb_eq in He. subst. exact Hx.
  - intros H. exists i. split; [exact H | apply timpl_eqb_eq; reflexivity].
Qed.

Lemma mem_insert : forall i j s, mem i (set_insert j s) = timpl_eqb i j || mem i s.
Proof.
  intros i j s. unfold set_insert. destruct (existsb (timpl_eqb j) s) eqn:E.
  - destruct (timpl_eqb i j) eqn:Eij; [|reflexivity].
    apply timpl_eqb_eq in Eij. subst. exact E.
  - unfold mem. rewrite existsb_app. cbn. rewrite orb_false_r. apply orb_comm.
Qed.

Lemma mem_remove : forall i j s, mem i (set_remove j s) = negb (timpl_eqb i j) && mem i s.
Proof.
  intros i j s. unfold set_remove, mem. induction s as [|x s IH]; cbn.
  - rewrite andb_false_r. reflexivity.
  - destruct (timpl_eqb j x) eqn:Ejx; cbn.
    + rewrite IH. apply timpl_eqb_eq in Ejx. subst x.
      destruct (timpl_eqb i j) eqn:Eij; cbn; reflexivity.
    + rewrite IH. destruct (timpl_eqb i x) eqn:Eix; cbn.
      * apply timpl_eqb_eq in Eix. subst x.
        destruct (timpl_eqb i j) eqn:Eij; cbn; [|reflexivity].
        apply timpl_eqb_eq in Eij. subst. destruct j; discriminate.
      * reflexivity.
Qed.

(* the documented meaning: the LAST mention of a trait decides; unmentioned traits keep their default *)
Definition wanted_step (i : timpl) (acc : bool) (sp : impl_spec) : bool :=
  match sp with
  | (_, None) => acc
  | (MNone, Some j) => if timpl_eqb i j then true else acc
  | (MMaybe, Some j) => if timpl_eqb i j then false else acc
  end.
Definition wanted (i : timpl) (specs : list impl_spec) : bool :=
  fold_left (wanted_step i) specs (mem i default_impls).

Definition impls_step (s : list timpl) (sp : impl_spec) : list timpl :=
  match sp with
  | (_, None) => s
  | (MNone, Some i) => set_insert i s
  | (MMaybe, Some i) => set_remove i s
  end.

Lemma impls_fold_mem : forall i specs s,
    mem i (fold_left impls_step specs s) = fold_left (wanted_step i) specs (mem i s).
Proof.
  induction specs as [|[m [j|]] specs IH]; intros s; cbn [fold_left]; [reflexivity| |].
  - rewrite IH. f_equal. destruct m; cbn [impls_step wanted_step].
    + rewrite mem_insert. destruct (timpl_eqb i j); reflexivity.
    + rewrite mem_remove. destruct (timpl_eqb i j); reflexivity.
  - rewrite IH. destruct m; reflexivity.
Qed.

Lemma impls_of_specs_fold : forall specs, impls_of_specs specs = fold_left impls_step specs default_impls.
Proof.
  intros specs. unfold impls_of_specs. generalize default_impls.
  induction specs as [|[m [j|]] specs IH]; intros s; cbn [fold_left]; [reflexivity| |]; rewrite IH; destruct m; reflexivity.
Qed.

Theorem type_and_impls_spec : forall specs i, In i (impls_of_specs specs) <-> wanted i specs = true.
Proof.
  intros specs i. rewrite <- mem_In, impls_of_specs_fold, impls_fold_mem. reflexivity.
Qed.

(* when no trait is both listed and `?`-removed: (defaults ∪ listed) \ removed *)
Definition listed (i : timpl) (specs : list impl_spec) : bool :=
  existsb (fun sp => match sp with (MNone, Some j) => timpl_eqb i j | _ => false end) specs.
Definition removed (i : timpl) (specs : list impl_spec) : bool :=
  existsb (fun sp => match sp with (MMaybe, Some j) => timpl_eqb i j | _ => false end) specs.

Lemma wanted_fold_plain : forall i specs b,
    listed i specs && removed i specs = false ->
    fold_left (wanted_step i) specs b = (b || listed i specs) && negb (removed i specs).
Proof.
  induction specs as [|sp specs IH]; intros b Hc; cbn [fold_left].
  - cbn. rewrite orb_false_r, andb_true_r. reflexivity.
  - change (listed i (sp :: specs)) with
        ((match sp with (MNone, Some j) => timpl_eqb i j | _ => false end) || listed i specs) in *.
    change (removed i (sp :: specs)) with
        ((match sp with (MMaybe, Some j) => timpl_eqb i j | _ => false end) || removed i specs) in *.
    destruct sp as [[|] [j|]]; cbn [wanted_step]; try (cbn [orb] in *; apply IH; exact Hc).
    + destruct (timpl_eqb i j) eqn:E; cbn [orb] in *; [|apply IH; exact Hc].
      destruct (removed i specs) eqn:Er; [discriminate Hc|].
      rewrite IH; [|apply andb_false_r]. cbn. rewrite orb_true_r. reflexivity.
    + destruct (timpl_eqb i j) eqn:E; cbn [orb] in *; [|apply IH; exact Hc].
      rewrite andb_true_r in Hc. rewrite IH; [|rewrite Hc; reflexivity].
      rewrite Hc. cbn. rewrite andb_false_r. reflexivity.
Qed.

Theorem type_and_impls_plain : forall specs i,
    listed i specs && removed i specs = false ->
    (In i (impls_of_specs specs) <-> (In i default_impls \/ listed i specs = true) /\ removed i specs = false).
Proof.
  intros specs i Hc. rewrite type_and_impls_spec. unfold wanted. rewrite (wanted_fold_plain i specs _ Hc).
  rewrite andb_true_iff, orb_true_iff, negb_true_iff, mem_In. reflexivity.
Qed.

Theorem type_and_impls_order_insensitive :
  forall (vec_order : list timpl -> list timpl),
    (forall l, Permutation (vec_order l) l) ->
    forall specs i, In i (vec_order (impls_of_specs specs)) <-> wanted i specs = true.
Proof.
  intros vo Hp specs i. rewrite <- type_and_impls_spec. split; intros H.
  - eapply Permutation_in; [apply Hp | exact H].
  - eapply Permutation_in; [apply Permutation_sym, Hp | exact H].
Qed.

Theorem encode_impls_roundtrip : forall impls i, In i (impls_of_specs (encode_impls impls)) <-> In i impls.
Proof.
  intros impls i. rewrite <- !mem_In.
  unfold encode_impls.
  assert (HF := mem_In IFromStr impls). assert (HD := mem_In IDisplay impls). assert (HX := mem_In IDefault impls).
  unfold mem in *.
  destruct (existsb (timpl_eqb IFromStr) impls) eqn:EF, (existsb (timpl_eqb IDisplay) impls) eqn:ED,
           (existsb (timpl_eqb IDefault) impls) eqn:EX; destruct i; cbn;
    try rewrite EF; try rewrite ED; try rewrite EX; reflexivity.
Qed.

(* ------------------------------------------------------------------ *)
(* association lists                                                    *)
(* ------------------------------------------------------------------ *)

Definition mapv {A B} (g : A -> B) (e : ustring * A) : ustring * B := (fst e, g (snd e)).

Lemma lookup_app : forall A k (a b : smap A),
    lookup k (a ++ b) = match lookup k a with Some v => Some v | None => lookup k b end.
Proof.
  induction a as [|[k' v] a IH]; intros b; cbn [app lookup]; [reflexivity|].
  destruct (ueqb k k'); [reflexivity | apply IH].
Qed.

Lemma lookup_mapv : forall A B (g : A -> B) k (l : smap A),
    lookup k (map (mapv g) l) = option_map g (lookup k l).
Proof.
  induction l as [|[k' v] l IH]; cbn [map lookup mapv fst snd]; [reflexivity|].
  destruct (ueqb k k'); [reflexivity | exact IH].
Qed.

Lemma lookup_In : forall A k v (l : smap A), lookup k l = Some v -> In (k, v) l.
Proof.
  induction l as [|[k' v'] l IH]; cbn [lookup]; intros H; [discriminate|].
  destruct (ueqb k k') eqn:E.
  - apply ueqb_eq in E. inversion H; subst. left. reflexivity.
  - right. apply IH, H.
Qed.

Lemma In_lookup : forall A k v (l : smap A), NoDup (map fst l) -> In (k, v) l -> lookup k l = Some v.
Proof.
  induction l as [|[k' v'] l IH]; cbn [map fst lookup]; intros Hnd Hi; [contradiction|].
  inversion Hnd as [|? ? Hni Hnd']; subst.
  destruct Hi as [Hi|Hi].
  - inversion Hi; subst. rewrite ueqb_refl. reflexivity.
  - destruct (ueqb k k') eqn:E.
    + apply ueqb_eq in E. subst k'. exfalso. apply Hni. apply (in_map fst) in Hi. exact Hi.
    + apply IH; assumption.
Qed.

Lemma lookup_perm : forall A k (l1 l2 : smap A),
    NoDup (map fst l1) -> Permutation l1 l2 -> lookup k l1 = lookup k l2.
Proof.
  intros A k l1 l2 Hnd Hp.
  assert (Hnd2 : NoDup (map fst l2)) by (eapply Permutation_NoDup; [apply Permutation_map, Hp | exact Hnd]).
  destruct (lookup k l1) as [v1|] eqn:E1.
  - apply lookup_In in E1. symmetry. apply In_lookup; [exact Hnd2|]. eapply Permutation_in; eauto.
  - destruct (lookup k l2) as [v2|] eqn:E2; [|reflexivity].
    apply lookup_In in E2. apply Permutation_sym in Hp.
    assert (lookup k l1 = Some v2) by (apply In_lookup; [exact Hnd | eapply Permutation_in; eauto]). congruence.
Qed.

Lemma lookup_hm_insert : forall A k k' (v : A) m,
    lookup k (hm_insert k' v m) = if ueqb k k' then Some v else lookup k m.
Proof.
  induction m as [|[k1 v1] m IH]; cbn [hm_insert lookup]; [reflexivity|].
  destruct (ueqb k' k1) eqn:E1; cbn [lookup].
  - apply ueqb_eq in E1. subst k1. destruct (ueqb k k'); reflexivity.
  - destruct (ueqb k k1) eqn:E2.
    + apply ueqb_eq in E2. subst k1. rewrite ueqb_sym in E1. rewrite E1. reflexivity.
    + exact IH.
Qed.

Lemma hm_insert_keys_in : forall A x k (v : A) m,
    In x (map fst (hm_insert k v m)) -> x = k \/ In x (map fst m).
Proof.
  induction m as [|[k1 v1] m IH]; cbn [hm_insert map fst]; intros H.
  - destruct H as [H|[]]. left. symmetry. exact H.
  - destruct (ueqb k k1); cbn [map fst] in H.
    + right. exact H.
    + destruct H as [H|H]; [right; left; exact H|]. destruct (IH H) as [Hx|Hx]; [left; exact Hx | right; right; exact Hx].
Qed.

Lemma hm_insert_nodup : forall A k (v : A) m, NoDup (map fst m) -> NoDup (map fst (hm_insert k v m)).
Proof.
  induction m as [|[k1 v1] m IH]; cbn [hm_insert map fst]; intros H.
  - constructor; [intros [] | constructor].
  - inversion H as [|? ? Hni Hnd]; subst. destruct (ueqb k k1) eqn:E; cbn [map fst].
    + constructor; assumption.
    + constructor; [|apply IH, Hnd]. intros Hi. apply hm_insert_keys_in in Hi. destruct Hi as [Hi|Hi].
      * subst. rewrite ueqb_refl in E. discriminate.
      * exact (Hni Hi).
Qed.

Lemma hm_insert_fresh : forall A k (v : A) m, ~ In k (map fst m) -> hm_insert k v m = m ++ [(k, v)].
Proof.
  induction m as [|[k1 v1] m IH]; cbn [hm_insert map fst app]; intros H; [reflexivity|].
  destruct (ueqb k k1) eqn:E.
  - apply ueqb_eq in E. subst. exfalso. apply H. left. reflexivity.
  - rewrite IH; [reflexivity | intros Hi; apply H; right; exact Hi].
Qed.

Definition hm_step {A} (m : list (ustring * A)) (e : ustring * A) := let '(k, v) := e in hm_insert k v m.

Lemma hm_fold : forall A k (l : list (ustring * A)) acc,
    NoDup (map fst acc) ->
    NoDup (map fst (fold_left hm_step l acc)) /\
    lookup k (fold_left hm_step l acc) = match lookup k (rev l) with Some v => Some v | None => lookup k acc end.
Proof.
  induction l as [|[k1 v1] l IH]; intros acc Hnd; cbn [fold_left rev].
  - split; [exact Hnd | reflexivity].
  - destruct (IH (hm_insert k1 v1 acc) (hm_insert_nodup _ k1 v1 acc Hnd)) as [H1 H2].
    split; [exact H1|]. cbn [hm_step]. rewrite H2, lookup_app, lookup_hm_insert. cbn [lookup].
    destruct (lookup k (rev l)); [reflexivity|]. destruct (ueqb k k1); reflexivity.
Qed.

Lemma hm_of_list_spec : forall A k (l : list (ustring * A)),
    NoDup (map fst (hm_of_list l)) /\ lookup k (hm_of_list l) = lookup k (rev l).
Proof.
  intros A k l. unfold hm_of_list.
  destruct (hm_fold A k l [] (NoDup_nil _)) as [H1 H2]. split; [exact H1|].
  change (fun (m : list (ustring * A)) '(k, v) => hm_insert k v m) with (@hm_step A).
  rewrite H2. cbn [lookup]. destruct (lookup k (rev l)); reflexivity.
Qed.

Lemma hm_of_list_nodup_id : forall A (l : list (ustring * A)), NoDup (map fst l) -> hm_of_list l = l.
Proof.
  intros A l. unfold hm_of_list.
  change (fun (m : list (ustring * A)) '(k, v) => hm_insert k v m) with (@hm_step A).
  assert (G : forall acc, NoDup (map fst (acc ++ l)) -> fold_left hm_step l acc = acc ++ l).
  { induction l as [|[k v] l IH]; intros acc Hnd; cbn [fold_left].
    - rewrite app_nil_r. reflexivity.
    - cbn [hm_step]. rewrite hm_insert_fresh.
      + rewrite IH; rewrite <- app_assoc; [reflexivity | exact Hnd].
      + rewrite map_app in Hnd. cbn [map fst] in Hnd. apply NoDup_remove_2 in Hnd.
        intros Hi. apply Hnd. apply in_or_app. left. exact Hi. }
  intros Hnd. apply (G [] Hnd).
Qed.

(* the macro's HashMap, drained in any order, then inserted into a BTreeMap with the same keys *)
Lemma lookup_hm_perm : forall A B (g : A -> B) k (l it : list (ustring * A)),
    Permutation it (hm_of_list l) ->
    lookup k (rev (map (mapv g) it)) = option_map g (lookup k (rev l)).
Proof.
  intros A B g k l it Hp.
  destruct (hm_of_list_spec A k l) as [Hnd Hl].
  assert (Hnd_it : NoDup (map fst it)).
  { eapply Permutation_NoDup; [apply Permutation_map, Permutation_sym, Hp | exact Hnd]. }
  rewrite <- map_rev, lookup_mapv. f_equal.
  rewrite <- Hl. apply lookup_perm.
  - eapply Permutation_NoDup; [apply Permutation_map, Permutation_rev | exact Hnd_it].
  - eapply Permutation_trans; [apply Permutation_sym, Permutation_rev | exact Hp].
Qed.

Lemma lookup_rev_mapv : forall A B (g : A -> B) k (l : list (ustring * A)),
    lookup k (rev (map (mapv g) l)) = option_map g (lookup k (rev l)).
Proof. intros. rewrite <- map_rev, lookup_mapv. reflexivity. Qed.

(* ------------------------------------------------------------------ *)
(* settings mappings                                                    *)
(* ------------------------------------------------------------------ *)

Section SettingsProofs.
  Variable V S : Type.
  Notation settings := (settings V S).
  Notation opts := (opts V S).

  Definition add_derive (ds : list ustring) (d : ustring) : list ustring :=
    if existsb (ueqb d) ds then ds else ds ++ [d].

  Definition mkb (c : crate_opt V) : ustring * crate_entry V :=
    let '(n, v, r) := c in (n, {| ce_version := v; ce_rename := r |}).
  Definition mkcli (c : cli_spec V) : ustring * crate_entry V :=
    (cs_name c, {| ce_version := cs_version c; ce_rename := cs_rename c |}).
  Notation mkm := (macro_crate_binding V).
  Definition rep_b (x : ustring * list timpl) : treplace := let '(ty, impls) := x in {| tr_type := ty; tr_impls := impls |}.
  Definition conv_b (x : S * (ustring * list timpl)) : tconv S :=
    let '(sc, (ty, impls)) := x in {| tc_schema := sc; tc_type := ty; tc_impls := impls |}.

  Section WithOrder.
  Variable vec_order : list timpl -> list timpl.
  Definition rep_m (x : ustring * list impl_spec) : treplace :=
    let '(ty, specs) := x in {| tr_type := ty; tr_impls := vec_order (impls_of_specs specs) |}.
  Definition conv_m (x : S * (ustring * list impl_spec)) : tconv S :=
    let '(sc, (ty, specs)) := x in {| tc_schema := sc; tc_type := ty; tc_impls := vec_order (impls_of_specs specs) |}.
  End WithOrder.

  Ltac nf_fold IH :=
    intros; cbn [fold_left]; try rewrite IH; cbn; try rewrite <- app_assoc; reflexivity.

  Lemma fold_with_derive : forall l (s : settings),
      fold_left (fun s d => with_derive V S d s) l s =
      {| s_type_mod := s_type_mod _ _ s; s_extra_derives := fold_left add_derive l (s_extra_derives _ _ s);
         s_struct_builder := s_struct_builder _ _ s; s_unknown := s_unknown _ _ s; s_crates := s_crates _ _ s;
         s_map_type := s_map_type _ _ s; s_patch := s_patch _ _ s; s_replace := s_replace _ _ s;
         s_convert := s_convert _ _ s |}.
  Proof.
    induction l as [|d l IH]; intros s; cbn [fold_left].
    - destruct s; reflexivity.
    - rewrite IH. unfold with_derive, add_derive.
      destruct (existsb (ueqb d) (s_extra_derives V S s)); destruct s; reflexivity.
  Qed.

  Lemma fold_with_crate_b : forall (l : list (crate_opt V)) (s : settings),
      fold_left (fun s '(n, v, r) => with_crate V S n v r s) l s =
      {| s_type_mod := s_type_mod _ _ s; s_extra_derives := s_extra_derives _ _ s;
         s_struct_builder := s_struct_builder _ _ s; s_unknown := s_unknown _ _ s;
         s_crates := rev (map mkb l) ++ s_crates _ _ s;
         s_map_type := s_map_type _ _ s; s_patch := s_patch _ _ s; s_replace := s_replace _ _ s;
         s_convert := s_convert _ _ s |}.
  Proof.
    induction l as [|[[n v] r] l IH]; intros s; cbn [fold_left].
    - destruct s; reflexivity.
    - rewrite IH. destruct s; cbn. rewrite <- app_assoc. reflexivity.
  Qed.

  Lemma fold_with_crate_cli : forall (l : list (cli_spec V)) (s : settings),
      fold_left (fun s c => with_crate V S (cs_name c) (cs_version c) (cs_rename c) s) l s =
      {| s_type_mod := s_type_mod _ _ s; s_extra_derives := s_extra_derives _ _ s;
         s_struct_builder := s_struct_builder _ _ s; s_unknown := s_unknown _ _ s;
         s_crates := rev (map mkcli l) ++ s_crates _ _ s;
         s_map_type := s_map_type _ _ s; s_patch := s_patch _ _ s; s_replace := s_replace _ _ s;
         s_convert := s_convert _ _ s |}.
  Proof.
    induction l as [|c l IH]; intros s; cbn [fold_left].
    - destruct s; reflexivity.
    - rewrite IH. destruct s; cbn. rewrite <- app_assoc. reflexivity.
  Qed.

  Lemma fold_with_crate_m : forall (l : list (ustring * (option ustring * crate_vers V))) (s : settings),
      fold_left (fun s '(crate_name, (original, version)) =>
                   match original with
                   | Some original_crate => with_crate V S original_crate version (Some crate_name) s
                   | None => with_crate V S crate_name version None s
                   end) l s =
      {| s_type_mod := s_type_mod _ _ s; s_extra_derives := s_extra_derives _ _ s;
         s_struct_builder := s_struct_builder _ _ s; s_unknown := s_unknown _ _ s;
         s_crates := rev (map mkm l) ++ s_crates _ _ s;
         s_map_type := s_map_type _ _ s; s_patch := s_patch _ _ s; s_replace := s_replace _ _ s;
         s_convert := s_convert _ _ s |}.
  Proof.
    induction l as [|[k [[o|] v]] l IH]; intros s; cbn [fold_left].
    - destruct s; reflexivity.
    - rewrite IH. destruct s; cbn. rewrite <- app_assoc. reflexivity.
    - rewrite IH. destruct s; cbn. rewrite <- app_assoc. reflexivity.
  Qed.

  Lemma fold_with_patch : forall (l : list (ustring * popt)) (s : settings),
      fold_left (fun s '(n, p) => with_patch V S n (build_patch p) s) l s =
      {| s_type_mod := s_type_mod _ _ s; s_extra_derives := s_extra_derives _ _ s;
         s_struct_builder := s_struct_builder _ _ s; s_unknown := s_unknown _ _ s; s_crates := s_crates _ _ s;
         s_map_type := s_map_type _ _ s; s_patch := rev (map (mapv build_patch) l) ++ s_patch _ _ s;
         s_replace := s_replace _ _ s; s_convert := s_convert _ _ s |}.
  Proof.
    induction l as [|[n p] l IH]; intros s; cbn [fold_left].
    - destruct s; reflexivity.
    - rewrite IH. destruct s; cbn. rewrite <- app_assoc. reflexivity.
  Qed.

  Lemma fold_with_replacement_b : forall (l : list (ustring * (ustring * list timpl))) (s : settings),
      fold_left (fun s '(n, (ty, impls)) => with_replacement V S n ty impls s) l s =
      {| s_type_mod := s_type_mod _ _ s; s_extra_derives := s_extra_derives _ _ s;
         s_struct_builder := s_struct_builder _ _ s; s_unknown := s_unknown _ _ s; s_crates := s_crates _ _ s;
         s_map_type := s_map_type _ _ s; s_patch := s_patch _ _ s;
         s_replace := rev (map (mapv rep_b) l) ++ s_replace _ _ s; s_convert := s_convert _ _ s |}.
  Proof.
    induction l as [|[n [ty impls]] l IH]; intros s; cbn [fold_left].
    - destruct s; reflexivity.
    - rewrite IH. destruct s; cbn. rewrite <- app_assoc. reflexivity.
  Qed.

  Lemma fold_with_conversion_b : forall (l : list (S * (ustring * list timpl))) (s : settings),
      fold_left (fun s '(sc, (ty, impls)) => with_conversion V S sc ty impls s) l s =
      {| s_type_mod := s_type_mod _ _ s; s_extra_derives := s_extra_derives _ _ s;
         s_struct_builder := s_struct_builder _ _ s; s_unknown := s_unknown _ _ s; s_crates := s_crates _ _ s;
         s_map_type := s_map_type _ _ s; s_patch := s_patch _ _ s; s_replace := s_replace _ _ s;
         s_convert := s_convert _ _ s ++ map conv_b l |}.
  Proof.
    induction l as [|[sc [ty impls]] l IH]; intros s; cbn [fold_left].
    - destruct s; cbn. rewrite app_nil_r. reflexivity.
    - rewrite IH. destruct s; cbn. rewrite <- app_assoc. reflexivity.
  Qed.

  Section Macro.
  Variable vec_order : list timpl -> list timpl.

  Lemma fold_with_replacement_m : forall (l : list (ustring * (ustring * list impl_spec))) (s : settings),
      fold_left (fun s '(n, (ty, specs)) => with_replacement V S n ty (vec_order (impls_of_specs specs)) s) l s =
      {| s_type_mod := s_type_mod _ _ s; s_extra_derives := s_extra_derives _ _ s;
         s_struct_builder := s_struct_builder _ _ s; s_unknown := s_unknown _ _ s; s_crates := s_crates _ _ s;
         s_map_type := s_map_type _ _ s; s_patch := s_patch _ _ s;
         s_replace := rev (map (mapv (rep_m vec_order)) l) ++ s_replace _ _ s; s_convert := s_convert _ _ s |}.
  Proof.
    induction l as [|[n [ty specs]] l IH]; intros s; cbn [fold_left].
    - destruct s; reflexivity.
    - rewrite IH. destruct s; cbn. rewrite <- app_assoc. reflexivity.
  Qed.

  Lemma fold_with_conversion_m : forall (l : list (S * (ustring * list impl_spec))) (s : settings),
      fold_left (fun s '(sc, (ty, specs)) => with_conversion V S sc ty (vec_order (impls_of_specs specs)) s) l s =
      {| s_type_mod := s_type_mod _ _ s; s_extra_derives := s_extra_derives _ _ s;
         s_struct_builder := s_struct_builder _ _ s; s_unknown := s_unknown _ _ s; s_crates := s_crates _ _ s;
         s_map_type := s_map_type _ _ s; s_patch := s_patch _ _ s; s_replace := s_replace _ _ s;
         s_convert := s_convert _ _ s ++ map (conv_m vec_order) l |}.
  Proof.
    induction l as [|[sc [ty specs]] l IH]; intros s; cbn [fold_left].
    - destruct s; cbn. rewrite app_nil_r. reflexivity.
    - rewrite IH. destruct s; cbn. rewrite <- app_assoc. reflexivity.
  Qed.

  (* normal forms *)
  Lemma builder_nf : forall o : opts,
      builder_settings V S o =
      {| s_type_mod := None; s_extra_derives := fold_left add_derive (o_derives _ _ o) [];
         s_struct_builder := o_struct_builder _ _ o;
         s_unknown := match o_unknown _ _ o with Some p => p | None => Generate end;
         s_crates := rev (map mkb (o_crates _ _ o)) ++ [];
         s_map_type := match o_map_type _ _ o with Some m => m | None => default_map_type end;
         s_patch := rev (map (mapv build_patch) (o_patches _ _ o)) ++ [];
         s_replace := rev (map (mapv rep_b) (o_replaces _ _ o)) ++ [];
         s_convert := [] ++ map conv_b (o_converts _ _ o) |}.
  Proof.
    intros o. unfold builder_settings.
    rewrite fold_with_derive, fold_with_crate_b.
    destruct (o_map_type V S o), (o_unknown V S o);
      rewrite fold_with_patch, fold_with_replacement_b, fold_with_conversion_b; reflexivity.
  Qed.

  Lemma macro_nf : forall mi : macro_input V S,
      macro_settings_of V S vec_order mi =
      {| s_type_mod := None; s_extra_derives := fold_left add_derive (mi_derives _ _ mi) [];
         s_struct_builder := mi_struct_builder _ _ mi;
         s_unknown := mi_unknown _ _ mi;
         s_crates := rev (map mkm (mi_crates _ _ mi)) ++ [];
         s_map_type := mi_map_type _ _ mi;
         s_patch := rev (map (mapv build_patch) (mi_patch _ _ mi)) ++ [];
         s_replace := rev (map (mapv (rep_m vec_order)) (mi_replace _ _ mi)) ++ [];
         s_convert := [] ++ map (conv_m vec_order) (mi_convert _ _ mi) |}.
  Proof.
    intros mi. unfold macro_settings_of.
    rewrite fold_with_derive. cbn [with_struct_builder].
    rewrite fold_with_patch, fold_with_replacement_m, fold_with_conversion_m, fold_with_crate_m.
    reflexivity.
  Qed.

  (* the settings' crate table IS the macro's table, entry for entry (in insertion order, newest
     first), whatever the versions are: nothing is filtered, nothing is added *)
  Theorem macro_crates_complete : forall mi : macro_input V S,
      s_crates _ _ (macro_settings_of V S vec_order mi) = rev (map mkm (mi_crates _ _ mi)) /\
      length (s_crates _ _ (macro_settings_of V S vec_order mi)) = length (mi_crates _ _ mi) /\
      (forall e, In e (mi_crates _ _ mi) -> In (mkm e) (s_crates _ _ (macro_settings_of V S vec_order mi))) /\
      (forall b, In b (s_crates _ _ (macro_settings_of V S vec_order mi)) ->
                 exists e, In e (mi_crates _ _ mi) /\ b = mkm e) /\
      (NoDup (map (fun e => fst (mkm e)) (mi_crates _ _ mi)) ->
       forall e, In e (mi_crates _ _ mi) ->
                 lookup (fst (mkm e)) (s_crates _ _ (macro_settings_of V S vec_order mi)) = Some (snd (mkm e))).
  Proof.
    intros mi. rewrite macro_nf. cbn [s_crates]. rewrite app_nil_r.
    split; [reflexivity|]. split; [rewrite rev_length, map_length; reflexivity|].
    split; [|split].
    - intros e He. rewrite <- in_rev. apply in_map. exact He.
    - intros b Hb. rewrite <- in_rev in Hb. apply in_map_iff in Hb. destruct Hb as [e [He Hi]].
      exists e. split; [exact Hi | symmetry; exact He].
    - intros Hnd e He. apply In_lookup.
      + rewrite map_rev. apply NoDup_rev. rewrite map_map. exact Hnd.
      + rewrite <- in_rev. destruct (mkm e) as [k v] eqn:E. cbn [fst snd]. rewrite <- E. apply in_map. exact He.
  Qed.

  (* in particular a `!` entry is recorded: "name" = "!" gives name |-> Never *)
  Corollary macro_never_recorded : forall (mi : macro_input V S) name,
      NoDup (map (fun e => fst (mkm e)) (mi_crates _ _ mi)) ->
      In (name, (None, Never)) (mi_crates _ _ mi) ->
      lookup name (s_crates _ _ (macro_settings_of V S vec_order mi))
      = Some {| ce_version := Never; ce_rename := None |}.
  Proof.
    intros mi name Hnd Hi. destruct (macro_crates_complete mi) as (_ & _ & _ & _ & H).
    exact (H Hnd (name, (None, Never)) Hi).
  Qed.

  Lemma cli_nf : forall a : cli_args V,
      cli_settings V S a =
      {| s_type_mod := None; s_extra_derives := fold_left add_derive (ca_derives _ a) [];
         s_struct_builder := negb (ca_no_builder _ a);
         s_unknown := match ca_unknown _ a with Some p => p | None => Generate end;
         s_crates := rev (map mkcli (ca_crates _ a)) ++ [];
         s_map_type := match ca_map_type _ a with Some m => m | None => default_map_type end;
         s_patch := []; s_replace := []; s_convert := [] |}.
  Proof.
    intros a. unfold cli_settings.
    rewrite fold_with_derive, fold_with_crate_cli.
    destruct (ca_map_type V a), (ca_unknown V a); reflexivity.
  Qed.

  (* the map type is the IDENTITY on the string in every front-end: no trimming, no `::` added *)
  Theorem cli_map_type_verbatim : forall a : cli_args V,
      s_map_type _ _ (cli_settings V S a) = match ca_map_type _ a with Some m => m | None => default_map_type end.
  Proof. intros a. rewrite cli_nf. reflexivity. Qed.

  Theorem map_type_verbatim : forall (o : opts) input output crates_it patch_it replace_it,
      let m := match o_map_type _ _ o with Some m => m | None => default_map_type end in
      s_map_type _ _ (builder_settings V S o) = m /\
      s_map_type _ _ (cli_settings V S (cli_of_opts V S input output o)) = m /\
      s_map_type _ _ (macro_settings_of V S vec_order (macro_input_of V S o crates_it patch_it replace_it)) = m.
  Proof.
    intros o input output ci pi ri. rewrite builder_nf, cli_nf, macro_nf. cbn. repeat split.
  Qed.

  Lemma mkm_entry : forall c, mkm (macro_crate_entry V c) = mkb c.
  Proof. intros [[n v] [r|]]; reflexivity. Qed.

  Lemma mkcli_of : forall c : crate_opt V,
      mkcli (let '(n, v, r) := c in {| cs_name := n; cs_version := v; cs_rename := r |}) = mkb c.
  Proof. intros [[n v] r]. reflexivity. Qed.

  Hypothesis vec_order_perm : forall l, Permutation (vec_order l) l.

  Lemma vec_order_same : forall impls, same_set (vec_order (impls_of_specs (encode_impls impls))) impls.
  Proof.
    intros impls i. rewrite <- (encode_impls_roundtrip impls i). split; intros H.
    - eapply Permutation_in; [apply vec_order_perm | exact H].
    - eapply Permutation_in; [apply Permutation_sym, vec_order_perm | exact H].
  Qed.

  (* the CLI maps onto exactly the builder's setter calls *)
  Theorem frontends_agree_cli : forall input output (o : opts),
      cli_expressible V S o ->
      cli_settings V S (cli_of_opts V S input output o) = builder_settings V S o.
  Proof.
    intros input output o (Hp & Hr & Hc).
    rewrite cli_nf, builder_nf. cbn [cli_of_opts ca_derives ca_no_builder ca_unknown ca_crates ca_map_type].
    rewrite Hp, Hr, Hc, negb_involutive. cbn [map rev app].
    rewrite map_map. f_equal. f_equal. f_equal. apply map_ext. intros c. apply mkcli_of.
  Qed.

  Theorem frontends_agree_macro : forall (o : opts) crates_it patch_it replace_it,
      Permutation crates_it (hm_of_list (macro_crates_src V S o)) ->
      Permutation patch_it (hm_of_list (o_patches _ _ o)) ->
      Permutation replace_it (hm_of_list (macro_replace_src V S o)) ->
      NoDup (map fst (macro_crates_src V S o)) ->                       (* distinct keys of the macro's map *)
      NoDup (map (fun c : crate_opt V => fst (fst c)) (o_crates _ _ o)) ->       (* distinct ORIGINAL crate names *)
      settings_equiv V S (macro_settings_of V S vec_order (macro_input_of V S o crates_it patch_it replace_it))
                         (builder_settings V S o).
  Proof.
    intros o crates_it patch_it replace_it Hpc Hpp Hpr Hk Ho.
    rewrite macro_nf, builder_nf.
    cbn [macro_input_of mi_derives mi_struct_builder mi_unknown mi_crates mi_map_type mi_patch mi_replace mi_convert].
    unfold settings_equiv.
    cbn [s_type_mod s_extra_derives s_struct_builder s_unknown s_crates s_map_type s_patch s_replace s_convert].
    rewrite !app_nil_r. cbn [app].
    split; [reflexivity|]. split; [reflexivity|]. split; [reflexivity|]. split; [reflexivity|].
    split; [|split; [reflexivity|]; split; [|split]].
    - (* crates *)
      intros k. rewrite (hm_of_list_nodup_id _ _ Hk) in Hpc. unfold macro_crates_src in Hpc.
      assert (Hperm : Permutation (map mkm crates_it) (map mkb (o_crates V S o))).
      { eapply Permutation_trans; [apply Permutation_map, Hpc|].
        rewrite map_map. erewrite map_ext; [apply Permutation_refl | intros c; apply mkm_entry]. }
      assert (Hkeys : map fst (map mkb (o_crates V S o)) = map (fun c : crate_opt V => fst (fst c)) (o_crates V S o)).
      { rewrite map_map. apply map_ext. intros [[n v] r]. reflexivity. }
      symmetry. apply lookup_perm.
      + eapply Permutation_NoDup; [apply Permutation_map, Permutation_rev|]. rewrite Hkeys. exact Ho.
      + eapply Permutation_trans; [apply Permutation_sym, Permutation_rev|].
        eapply Permutation_trans; [apply Permutation_sym, Hperm | apply Permutation_rev].
    - (* patches *)
      intros k. rewrite (lookup_hm_perm _ _ build_patch k (o_patches V S o) patch_it Hpp).
      rewrite lookup_rev_mapv. reflexivity.
    - (* replacements *)
      intros k. rewrite (lookup_hm_perm _ _ (rep_m vec_order) k (macro_replace_src V S o) replace_it Hpr).
      rewrite lookup_rev_mapv. unfold macro_replace_src.
      assert (E : map (fun '(n, (ty, impls)) => (n, (ty, encode_impls impls))) (o_replaces V S o)
                  = map (mapv (fun x : ustring * list timpl => (fst x, encode_impls (snd x)))) (o_replaces V S o)).
      { apply map_ext. intros [n [ty impls]]. reflexivity. }
      rewrite E, lookup_rev_mapv.
      destruct (lookup k (rev (o_replaces V S o))) as [[ty impls]|]; cbn; [|exact I].
      split; [reflexivity | apply vec_order_same].
    - (* conversions *)
      unfold macro_convert_src. rewrite map_map.
      induction (o_converts V S o) as [|[sc [ty impls]] l IH]; cbn [map]; constructor; [|exact IH].
      cbn. split; [reflexivity|]. split; [reflexivity|]. apply vec_order_same.
  Qed.
  End Macro.

  (* without the distinct-originals hypothesis the macro's result depends on the HashMap order *)
  Definition dup_opts : opts :=
    {| o_derives := []; o_struct_builder := false; o_map_type := None;
       o_crates := [([120], Any, Some [97]); ([120], Never, Some [98])];
       o_unknown := None; o_patches := []; o_replaces := []; o_converts := [] |}.

  Theorem frontends_agree_macro_order_dependent_refuted :
    forall vec_order : list timpl -> list timpl,
    exists (o : opts) it1 it2,
      Permutation it1 (hm_of_list (macro_crates_src V S o)) /\
      Permutation it2 (hm_of_list (macro_crates_src V S o)) /\
      NoDup (map fst (macro_crates_src V S o)) /\
      settings_equiv V S (macro_settings_of V S vec_order (macro_input_of V S o it1 [] [])) (builder_settings V S o) /\
      ~ settings_equiv V S (macro_settings_of V S vec_order (macro_input_of V S o it2 [] [])) (builder_settings V S o).
  Proof.
    intros vo. exists dup_opts, [([97], (Some [120], Any)); ([98], (Some [120], Never))],
                      [([98], (Some [120], Never)); ([97], (Some [120], Any))].
    split; [cbn; apply Permutation_refl|].
    split; [cbn; apply perm_swap|].
    split; [cbn; repeat constructor; cbn; intuition discriminate|].
    split.
    - unfold settings_equiv; cbn.
      split; [reflexivity|]. split; [reflexivity|]. split; [reflexivity|]. split; [reflexivity|].
      split; [intros k; reflexivity|]. split; [reflexivity|]. split; [intros k; reflexivity|].
      split; [intros k; exact I | constructor].
    - intros (_ & _ & _ & _ & Hc & _). specialize (Hc [120]). cbn in Hc. discriminate Hc.
  Qed.

  Theorem cli_default_builder_on : forall a : cli_args V,
      (ca_no_builder _ a = false -> s_struct_builder _ _ (cli_settings V S a) = true) /\
      (ca_no_builder _ a = true -> s_struct_builder _ _ (cli_settings V S a) = false) /\
      s_struct_builder _ _ (default_settings V S) = false.
  Proof.
    intros a. rewrite cli_nf. cbn. repeat split; intros H; rewrite H; reflexivity.
  Qed.

  (* from the raw command line: every `--crate` string is parsed by CrateSpec::from_str *)
  Section Raw.
    Variable parse_version : ustring -> option V.
    Variable letter : N -> bool.
    Variable nc : N -> bool.
    Hypothesis nc_crate : forall c, nc c = true -> crate_char letter c = true.
    Hypothesis nc_sep : forall c, nc c = true -> c <> c_eq /\ c <> c_at.

    (* (name, version text, rename) as typed, and the version it denotes *)
    Definition typed_ok (t : ustring * ustring * option ustring) (c : crate_opt V) : Prop :=
      let '(n, vs, r) := t in
      c = (n, match vers_parse V parse_version vs with Some v => v | None => Any end, r) /\
      vers_parse V parse_version vs <> None /\ ~ In c_eq vs /\
      forallb nc n = true /\ (forall x, r = Some x -> forallb nc x = true).

    Theorem cli_raw_specs : forall typed crates,
        Forall2 typed_ok typed crates ->
        cli_parse_specs V parse_version letter (map (fun '(n, vs, r) => render_spec n vs r) typed)
        = Some (map (fun '(n, v, r) => {| cs_name := n; cs_version := v; cs_rename := r |}) crates).
    Proof.
      induction 1 as [|[[n vs] r] c typed crates Hok _ IH]; cbn [map cli_parse_specs]; [reflexivity|].
      destruct Hok as (Hc & Hv & He & Hn & Hr). subst c.
      destruct (vers_parse V parse_version vs) as [v|] eqn:Ev; [|contradiction].
      rewrite (accepts_render V parse_version letter nc nc_crate nc_sep n vs r v Hn Hr Ev He).
      rewrite IH. reflexivity.
    Qed.
  End Raw.

  (* main *)
  Section Main.
    Variable convert : cli_args V -> option ustring.

    Theorem no_write_on_failure : forall parsed,
        (parsed = None \/ exists a, parsed = Some a /\ convert a = None) ->
        main V convert parsed = (ExitErr, []).
    Proof.
      intros parsed [H|[a [H1 H2]]]; subst; cbn [main]; [reflexivity | rewrite H2; reflexivity].
    Qed.

    Theorem write_once_on_success : forall a contents,
        convert a = Some contents ->
        main V convert (Some a) =
        (ExitOk, [match output_path (ca_input _ a) (ca_output _ a) with
                  | Some p => WriteFile p contents
                  | None => PrintStdout contents
                  end]).
    Proof.
      intros a contents H. cbn [main]. rewrite H. destruct (output_path _ _); reflexivity.
    Qed.

    Theorem effects_imply_success : forall parsed,
        snd (main V convert parsed) <> [] -> exists a contents, parsed = Some a /\ convert a = Some contents.
    Proof.
      intros [a|]; cbn [main].
      - destruct (convert a) as [c|] eqn:E; [|intros H; exfalso; apply H; reflexivity].
        intros _. exists a, c. split; [reflexivity | exact E].
      - intros H. exfalso. apply H. reflexivity.
    Qed.
  End Main.
End SettingsProofs.
