(* Proofs/CoversProofs.v — soundness of the C02 validator Check/Covers.v:

     covers_sound : covers_all re_match native_ok D T A = true ->
                    forall (r,t) in A, forall v in the instance domain,
                    Valid D (SRef r) v -> exists f, de T f t v <> None

   for every regex engine [re_match], every string-format recogniser [fmt_ok]
   and every native-type parser [native_ok] that accepts what the format
   recogniser accepts (hypothesis over [format_native_table]).

   Structure: outer strong induction on the VALIDITY fuel (a "$ref" spends one
   unit, so an assumed pair is discharged at strictly smaller fuel), inner
   induction on the schema with [schema_ind'], one lemma per node kind against
   an abstract verdict [cov] on the children ([Pcov]); the inner induction
   carries the statement for a schema AND for its children ([Pkids]) because the
   tagged-enum and allOf cases call [cov] on grandchildren (the members of a
   union branch); existential [de]-fuels are merged with [max] and
   SerdeProofs.acc_mono. *)
From Coq Require Import String ZArith NArith QArith List Bool Lia Arith Wf_nat.
From Typify Require Import Base.Json Spec.Schema Spec.Valid IR.TypeIR IR.Serde Check.Covers
  Proofs.ValidProofs Proofs.SerdeProofs.
Import ListNotations.
Close Scope Q_scope.
Close Scope string_scope.
Close Scope N_scope.
Open Scope list_scope.
Open Scope nat_scope.

(* ------------------------------------------------------------------ small facts *)
Lemma itype_eqb_eq a b : itype_eqb a b = true -> a = b.
Proof. destruct a, b; simpl; congruence. Qed.

Lemma type_ok_null iaf v : type_ok iaf TNull v = true -> v = JNull.
Proof. destruct v; simpl; congruence. Qed.

Lemma filter_nil {X} (g : X -> bool) l : (forall x, In x l -> g x = false) -> filter g l = [].
Proof.
  induction l as [|x l IH]; simpl; [reflexivity|]. intros H.
  rewrite (H x (or_introl eq_refl)). apply IH. intros y Hy. apply H. right. exact Hy.
Qed.

(* the admitted types, under [nn] *)
Lemma ty_is_sound nn ty want o v :
  ty_is nn ty want = true -> valid_type o ty v = true -> (nn = true -> v <> JNull) ->
  exists t, In t want /\ type_ok (int_accepts_integral_float o) t v = true.
Proof.
  unfold ty_is, ty_eff, valid_type. intros H Hv Hnn.
  destruct ty as [l0|]; [|destruct nn; discriminate].
  simpl in Hv. apply existsb_exists in Hv. destruct Hv as [t [Hin Ht]].
  assert (Hf : forall l, forallb (fun t => existsb (itype_eqb t) want) l = true -> In t l ->
                         exists t', In t' want /\ type_ok (int_accepts_integral_float o) t' v = true).
  { intros l Hl Hi. apply (proj1 (forallb_forall _ _) Hl) in Hi.
    apply existsb_exists in Hi. destruct Hi as [t' [Hi' E]]. apply itype_eqb_eq in E. subst t'.
    exists t. split; assumption. }
  destruct nn; simpl in H; apply andb_true_iff in H; destruct H as [_ H].
  - apply (Hf _ H). apply filter_In. split; [exact Hin|].
    destruct t; try reflexivity. apply type_ok_null in Ht. exfalso. apply Hnn; [reflexivity | exact Ht].
  - apply (Hf _ H Hin).
Qed.

Lemma vacuous_sound nn ty o v :
  vacuous nn ty = true -> valid_type o ty v = true -> (nn = true -> v <> JNull) -> False.
Proof.
  unfold vacuous, ty_eff, valid_type. intros H Hv Hnn.
  destruct nn; [|discriminate]. simpl in H.
  destruct ty as [l0|]; [|discriminate]. simpl in H, Hv.
  apply existsb_exists in Hv. destruct Hv as [t [Hin Ht]].
  assert (Hi : In t (filter (fun t => negb (itype_eqb t TNull)) l0)).
  { apply filter_In. split; [exact Hin|]. destruct t; try reflexivity.
    apply type_ok_null in Ht. exfalso. apply Hnn; [reflexivity | exact Ht]. }
  destruct (filter (fun t => negb (itype_eqb t TNull)) l0); [destruct Hi | discriminate].
Qed.

(* ------------------------------------------------------------------ integers and rationals *)
Lemma Qle_inj_lo lo z m :
  Qle_bool (inject_Z lo) m = true -> Qle_bool m (z # 1) = true -> (lo <= z)%Z.
Proof.
  rewrite !Qle_bool_iff. intros H1 H2. rewrite Zle_Qle.
  change (inject_Z z) with (z # 1)%Q. eapply Qle_trans; eassumption.
Qed.

Lemma Qle_inj_hi hi z m :
  Qle_bool m (inject_Z hi) = true -> Qle_bool (z # 1) m = true -> (z <= hi)%Z.
Proof.
  rewrite !Qle_bool_iff. intros H1 H2. rewrite Zle_Qle.
  change (inject_Z z) with (z # 1)%Q. eapply Qle_trans; eassumption.
Qed.

Lemma Qlt_bool_lt a b : Qlt_bool a b = true -> (a < b)%Q.
Proof.
  unfold Qlt_bool. intros H. apply negb_true_iff in H.
  apply Qnot_le_lt. intros Hle. apply Qle_bool_iff in Hle. congruence.
Qed.

Lemma Qlt_inj_lo lo z m :
  Qle_bool (inject_Z (lo - 1)) m = true -> Qlt_bool m (z # 1) = true -> (lo <= z)%Z.
Proof.
  rewrite Qle_bool_iff. intros H1 H2. apply Qlt_bool_lt in H2.
  assert (H : (inject_Z (lo - 1) < inject_Z z)%Q).
  { change (inject_Z z) with (z # 1)%Q. eapply Qle_lt_trans; eassumption. }
  rewrite <- Zlt_Qlt in H. lia.
Qed.

Lemma Qlt_inj_hi hi z m :
  Qle_bool m (inject_Z (hi + 1)) = true -> Qlt_bool (z # 1) m = true -> (z <= hi)%Z.
Proof.
  rewrite Qle_bool_iff. intros H1 H2. apply Qlt_bool_lt in H2.
  assert (H : (inject_Z z < inject_Z (hi + 1))%Q).
  { change (inject_Z z) with (z # 1)%Q. eapply Qlt_le_trans; eassumption. }
  rewrite <- Zlt_Qlt in H. lia.
Qed.

Section IntRange.
  Variable fmt_ok : ustring -> ustring -> bool.

  Lemma lower_sound lo fmt nv z o :
    lower_ok lo fmt nv = true -> (i64_lo <= z)%Z ->
    valid_num nv (JInt z) = true -> valid_format fmt_ok o fmt (JInt z) = true -> (lo <= z)%Z.
  Proof.
    unfold lower_ok, valid_num, valid_format. simpl num_of. simpl int_of.
    intros H Hz Hn Hf.
    rewrite !andb_true_iff in Hn. destruct Hn as [[[[_ _] _] Hmin] Hxmin].
    rewrite !orb_true_iff in H. destruct H as [[[H|H]|H]|H].
    - apply Z.leb_le in H. lia.
    - destruct (n_minimum nv) as [m|]; [|discriminate]. simpl in Hmin. eapply Qle_inj_lo; eassumption.
    - destruct (n_exclusive_minimum nv) as [m|]; [|discriminate]. simpl in Hxmin.
      eapply Qlt_inj_lo; eassumption.
    - destruct fmt as [f|]; [|discriminate].
      destruct (int_format_range f) as [[flo fhi]|]; [|discriminate].
      apply Z.leb_le in H. apply andb_true_iff in Hf. destruct Hf as [Hf _]. apply Z.leb_le in Hf. lia.
  Qed.

  Lemma upper_sound hi fmt nv z o :
    upper_ok hi fmt nv = true -> (z <= i64_hi)%Z ->
    valid_num nv (JInt z) = true -> valid_format fmt_ok o fmt (JInt z) = true -> (z <= hi)%Z.
  Proof.
    unfold upper_ok, valid_num, valid_format. simpl num_of. simpl int_of.
    intros H Hz Hn Hf.
    rewrite !andb_true_iff in Hn. destruct Hn as [[[[_ Hmax] Hxmax] _] _].
    rewrite !orb_true_iff in H. destruct H as [[[H|H]|H]|H].
    - apply Z.leb_le in H. lia.
    - destruct (n_maximum nv) as [m|]; [|discriminate]. simpl in Hmax. eapply Qle_inj_hi; eassumption.
    - destruct (n_exclusive_maximum nv) as [m|]; [|discriminate]. simpl in Hxmax.
      eapply Qlt_inj_hi; eassumption.
    - destruct fmt as [f|]; [|discriminate].
      destruct (int_format_range f) as [[flo fhi]|]; [|discriminate].
      apply Z.leb_le in H. apply andb_true_iff in Hf. destruct Hf as [_ Hf]. apply Z.leb_le in Hf. lia.
  Qed.
End IntRange.

(* the string formats of [format_native_table] are assertions of the specification *)
Lemma format_native_table_formats f n :
  In (f, n) format_native_table -> int_format_range f = None /\ is_string_format f = true.
Proof.
  intros H.
  assert (E : forallb (fun e => match int_format_range (fst e) with None => true | Some _ => false end
                                && is_string_format (fst e)) format_native_table = true) by reflexivity.
  apply (proj1 (forallb_forall _ _) E) in H. simpl in H. apply andb_true_iff in H. destruct H as [H1 H2].
  split; [destruct (int_format_range f); [discriminate | reflexivity] | exact H2].
Qed.

(* ------------------------------------------------------------------ instance domain *)
Lemma in_dom_arr l x : in_dom (JArr l) = true -> In x l -> in_dom x = true.
Proof. simpl. intros H Hin. apply (proj1 (forallb_forall _ _) H x Hin). Qed.

Lemma in_dom_obj kvs kv : in_dom (JObj kvs) = true -> In kv kvs -> in_dom (snd kv) = true.
Proof.
  simpl. intros H Hin. apply andb_true_iff in H. destruct H as [_ H].
  apply (proj1 (forallb_forall _ _) H kv Hin).
Qed.

Lemma in_dom_keys kvs : in_dom (JObj kvs) = true -> nodup_ustr (map fst kvs) = true.
Proof. simpl. intros H. apply andb_true_iff in H. destruct H as [H _]. exact H. Qed.

(* an object all of whose member names are [k], one at least, with distinct names *)
Lemma single_key (kvs : list (ustring * json)) k :
  nodup_ustr (map fst kvs) = true -> (forall kv, In kv kvs -> fst kv = k) -> has_key k kvs = true ->
  exists pj, kvs = [(k, pj)].
Proof.
  intros Hn Hk Hh. destruct kvs as [|[k1 x] r]; [discriminate|].
  assert (E1 := Hk (k1, x) (or_introl eq_refl)). simpl in E1. subst k1.
  destruct r as [|[k2 y] r']; [exists x; reflexivity|].
  assert (E2 := Hk (k2, y) (or_intror (or_introl eq_refl))). simpl in E2. subst k2.
  simpl in Hn. rewrite ustr_eqb_refl in Hn. discriminate.
Qed.

Lemma remove_two_keys (kvs : list (ustring * json)) tg ct :
  (forall kv, In kv kvs -> fst kv = tg \/ fst kv = ct) -> remove_key ct (remove_key tg kvs) = [].
Proof.
  induction kvs as [|[k x] r IH]; intros H; [reflexivity|]. simpl.
  assert (Hr : remove_key ct (remove_key tg r) = []) by (apply IH; intros kv Hin; apply H; right; exact Hin).
  destruct (ustr_eqb tg k) eqn:E; [exact Hr|].
  simpl. destruct (H (k, x) (or_introl eq_refl)) as [Hk|Hk]; simpl in Hk; subst k.
  - rewrite ustr_eqb_refl in E. discriminate.
  - rewrite ustr_eqb_refl. exact Hr.
Qed.

Lemma in_dom_assoc kvs k x : in_dom (JObj kvs) = true -> assoc k kvs = Some x -> in_dom x = true.
Proof. intros H E. apply assoc_In in E. apply (in_dom_obj kvs (k, x) H E). Qed.

Lemma assoc_remove_key {X} k tg (kvs : list (ustring * X)) :
  ustr_eqb tg k = false -> assoc k (remove_key tg kvs) = assoc k kvs.
Proof.
  intros Hne. induction kvs as [|[k' x] r IH]; [reflexivity|]. simpl.
  destruct (ustr_eqb tg k') eqn:E.
  - apply ustr_eqb_eq in E. subst k'. rewrite (ustr_eqb_sym k tg), Hne. exact IH.
  - simpl. rewrite IH. reflexivity.
Qed.

Lemma In_remove_key {X} tg (kvs : list (ustring * X)) kv :
  In kv (remove_key tg kvs) -> In kv kvs /\ ustr_eqb tg (fst kv) = false.
Proof.
  induction kvs as [|[k' x] r IH]; [intros []|]. simpl.
  destruct (ustr_eqb tg k') eqn:E.
  - intros H. destruct (IH H) as [H1 H2]. split; [right; exact H1 | exact H2].
  - intros [H|H].
    + subst kv. split; [left; reflexivity | exact E].
    + destruct (IH H) as [H1 H2]. split; [right; exact H1 | exact H2].
Qed.

Lemma remove_key_all {X} tg (kvs : list (ustring * X)) :
  (forall kv, In kv kvs -> fst kv = tg) -> remove_key tg kvs = [].
Proof.
  induction kvs as [|[k x] r IH]; intros H; [reflexivity|]. simpl.
  assert (E := H (k, x) (or_introl eq_refl)). simpl in E. subst k. rewrite ustr_eqb_refl.
  apply IH. intros kv Hin. apply H. right. exact Hin.
Qed.

Lemma nodup_remove_key {X} tg (kvs : list (ustring * X)) :
  nodup_ustr (map fst kvs) = true -> nodup_ustr (map fst (remove_key tg kvs)) = true.
Proof.
  induction kvs as [|[k x] r IH]; [reflexivity|]. simpl. intros H.
  apply andb_true_iff in H. destruct H as [H1 H2].
  destruct (ustr_eqb tg k); [apply IH; exact H2|]. simpl. rewrite (IH H2), andb_true_r.
  apply negb_true_iff. apply negb_true_iff in H1.
  destruct (mem_ustr k (map fst (remove_key tg r))) eqn:E; [|reflexivity].
  apply mem_ustr_In in E. apply in_map_iff in E. destruct E as [kv [E Hin]].
  apply In_remove_key in Hin. destruct Hin as [Hin _].
  assert (Hm : mem_ustr k (map fst r) = true).
  { apply mem_ustr_In. apply in_map_iff. exists kv. split; assumption. }
  congruence.
Qed.

Lemma in_dom_remove_key tg kvs : in_dom (JObj kvs) = true -> in_dom (JObj (remove_key tg kvs)) = true.
Proof.
  simpl. intros H. apply andb_true_iff in H. destruct H as [H1 H2].
  rewrite (nodup_remove_key tg kvs H1). simpl.
  apply forallb_forall. intros kv Hin. apply In_remove_key in Hin. destruct Hin as [Hin _].
  apply (proj1 (forallb_forall _ _) H2 kv Hin).
Qed.

Lemma has_key_app {X} k (l1 l2 : list (ustring * X)) :
  has_key k (l1 ++ l2) = has_key k l1 || has_key k l2.
Proof.
  unfold has_key. induction l1 as [|[k' x] l1 IH]; simpl; [reflexivity|].
  destruct (ustr_eqb k k'); [reflexivity | exact IH].
Qed.

Lemma has_key_flat_map {X Y} k (g : Y -> list (ustring * X)) (L : list Y) b :
  In b L -> has_key k (g b) = true -> has_key k (flat_map g L) = true.
Proof.
  induction L as [|c L IH]; [intros []|]. simpl. rewrite has_key_app. intros [E|Hin] Hk.
  - subst c. rewrite Hk. reflexivity.
  - rewrite (IH Hin Hk). apply orb_true_r.
Qed.

(* ------------------------------------------------------------------ properties / wire names *)
Lemma wire_names_cons q ps :
  wire_names (q :: ps) = match wire_name q with Some w => w :: wire_names ps | None => wire_names ps end.
Proof. reflexivity. Qed.

Lemma wire_names_In p ps w : In p ps -> wire_name p = Some w -> In w (wire_names ps).
Proof.
  induction ps as [|q ps IH]; [intros []|]. rewrite wire_names_cons. intros [E|Hin] Hw.
  - subst q. rewrite Hw. left. reflexivity.
  - destruct (wire_name q); [right|]; apply IH; assumption.
Qed.

Lemma find_prop_by_wire_some w ps p :
  find_prop_by_wire w ps = Some p -> In p ps /\ wire_name p = Some w.
Proof.
  induction ps as [|q ps IH]; simpl; [discriminate|].
  destruct (wire_name q) as [w'|] eqn:Ew.
  - destruct (ustr_eqb w w') eqn:E.
    + intros H. inversion H. subst q. apply ustr_eqb_eq in E. subst w'. split; [left; reflexivity | exact Ew].
    + intros H. destruct (IH H) as [H1 H2]. split; [right; exact H1 | exact H2].
  - intros H. destruct (IH H) as [H1 H2]. split; [right; exact H1 | exact H2].
Qed.

Lemma nodup_find ps p w :
  nodup_ustr (wire_names ps) = true -> In p ps -> wire_name p = Some w ->
  find_prop_by_wire w ps = Some p.
Proof.
  induction ps as [|q ps IH]; [intros _ []|]. rewrite wire_names_cons. simpl find_prop_by_wire.
  intros Hn [E|Hin] Hw.
  - subst q. rewrite Hw, ustr_eqb_refl. reflexivity.
  - destruct (wire_name q) as [w'|] eqn:Ew.
    + simpl in Hn. apply andb_true_iff in Hn. destruct Hn as [Hn1 Hn2].
      destruct (ustr_eqb w w') eqn:E.
      * apply ustr_eqb_eq in E. subst w'. apply negb_true_iff in Hn1.
        assert (Hm : mem_ustr w (wire_names ps) = true)
          by (apply mem_ustr_In; eapply wire_names_In; eassumption).
        congruence.
      * apply IH; assumption.
    + apply IH; assumption.
Qed.

(* ------------------------------------------------------------------ validity of objects and arrays, by parts *)
Lemma valid_obj_parts F props ap kvs :
  valid_obj F props ap kvs = true ->
  (forall k s x, In (k, s) props -> assoc k kvs = Some x -> F s x = true)
  /\ (forall a, ap = Some a -> forall kv, In kv kvs -> has_key (fst kv) props = false -> F a (snd kv) = true).
Proof.
  unfold valid_obj. intros H. apply andb_true_iff in H. destruct H as [H1 H2]. split.
  - clear H2. induction props as [|[k' s'] props IH]; [intros k s x []|].
    apply andb_true_iff in H1. destruct H1 as [Ha Hb]. intros k s x [E|Hin] Hx.
    + inversion E. subst. rewrite Hx in Ha. exact Ha.
    + eapply IH; eassumption.
  - intros a -> kv Hin Hk. apply (proj1 (forallb_forall _ _) H2) in Hin.
    rewrite Hk in Hin. exact Hin.
Qed.

Lemma count_true_1_ex {X} (g : X -> bool) l :
  Nat.eqb (count_true g l) 1 = true -> exists x, In x l /\ g x = true.
Proof.
  induction l as [|x l IH]; simpl; [discriminate|].
  destruct (g x) eqn:E.
  - intros _. exists x. split; [left; reflexivity | exact E].
  - simpl. intros H. destruct (IH H) as [y [Hin Hy]]. exists y. split; [right; exact Hin | exact Hy].
Qed.

(* on scalars, instance equality is symmetric and transitive (on objects with
   repeated keys it is not) *)
Lemma json_equiv_scalar e v x :
  is_scalar e = true -> json_equiv e v = true -> json_equiv e x = true -> json_equiv v x = true.
Proof.
  destruct e; try discriminate; intros _; destruct v; try discriminate; destruct x; try discriminate;
    simpl; try reflexivity; intros H1 H2;
    try (apply eqb_prop in H1, H2; subst; apply eqb_reflx);
    try (apply ustr_eqb_eq in H1, H2; subst; apply ustr_eqb_refl);
    rewrite ?Z.eqb_eq, ?Qeq_bool_iff in *;
    first [ lia
          | (subst; assumption)
          | (subst; symmetry; assumption)
          | (rewrite <- H1; exact H2)
          | (rewrite H1 in H2; unfold Qeq in H2; simpl in H2; lia) ].
Qed.

Lemma enum_ok_sound enum vs v :
  enum_ok enum vs = true -> valid_enum enum v = true -> existsb (json_equiv v) vs = true.
Proof.
  unfold enum_ok, valid_enum. destruct enum as [es|]; [|discriminate]. simpl. intros H Hv.
  apply existsb_exists in Hv. destruct Hv as [e [Hin He]].
  apply (proj1 (forallb_forall _ _) H) in Hin. apply andb_true_iff in Hin. destruct Hin as [Hs Hx].
  apply existsb_exists in Hx. destruct Hx as [x [Hin Hx]].
  apply existsb_exists. exists x. split; [exact Hin | eapply json_equiv_scalar; eassumption].
Qed.

Lemma strs_In es names y : strs es = Some names -> In (JStr y) es -> In y names.
Proof.
  revert names. induction es as [|e es IH]; intros names H Hin; [destruct Hin|].
  simpl in H. destruct e; try discriminate.
  destruct (strs es) as [l|]; [|discriminate]. simpl in H. inversion H. subst names.
  destruct Hin as [E|Hin]; [inversion E; left; reflexivity | right; apply IH; [reflexivity | exact Hin]].
Qed.

Lemma str_simple_find vs es s :
  forallb (str_simple vs) es = true -> valid_enum (Some es) (JStr s) = true ->
  exists i vr, find_variant s vs 0 = Some (i, vr) /\ v_det vr = VSimple.
Proof.
  intros H Hv. simpl in Hv. apply existsb_exists in Hv. destruct Hv as [e [Hin He]].
  apply (proj1 (forallb_forall _ _) H) in Hin. unfold str_simple in Hin.
  destruct e as [| | | |x| |]; try discriminate. simpl in He. apply ustr_eqb_eq in He. subst x.
  destruct (find_variant s vs 0) as [[i vr]|]; [|discriminate].
  exists i, vr. split; [reflexivity|]. destruct (v_det vr); try discriminate. reflexivity.
Qed.

(* ================================================================== soundness *)
Section Sound.
  Variables re_match fmt_ok native_ok : ustring -> ustring -> bool.
  Variable D : defs.
  Variable T : space.
  Variable A : list (ustring * id).
  (* the native parsers accept what the format recogniser of the specification accepts *)
  Hypothesis Hfmt : forall f n s, In (f, n) format_native_table -> fmt_ok f s = true -> native_ok n s = true.

  Local Notation de := (Serde.de re_match native_ok T).
  Local Notation dv := (Serde.default_val T).
  Local Notation vx := (Valid.validx re_match fmt_ok draft07 D).

  Definition accepts (tg : target) (v : json) : Prop :=
    match tg with
    | TId t => exists f, de f t v <> None
    | TProps ps deny => exists f kvs, v = JObj kvs /\ de_struct_obj T (de f) (dv f) ps deny kvs <> None
    | TTuple ts => exists f, de_payload T (de f) (dv f) false (VTuple ts) v <> None
    end.

  (* what the checker's verdict [cov c nn tg = true] must mean, at validity fuel [n] *)
  Definition Pcov (cov : schema -> bool -> target -> bool) (n : nat) (c : schema) : Prop :=
    forall nn tg v, cov c nn tg = true -> in_dom v = true -> (nn = true -> v <> JNull) ->
                    vx n c v = true -> accepts tg v.

  (* [Q] holds of the children the checker descends into *)
  Definition Pkids (Q : schema -> Prop) (s : schema) : Prop :=
    match s with
    | SBool _ => True
    | SObj _ _ _ _ _ _ _ items _ _ _ _ props _ ap _ _ allo anyo oneo _ _ _ _ =>
        Forall Q items /\ Forall (fun kv => Q (snd kv)) props /\ OForall Q ap
        /\ OForall (Forall Q) anyo /\ OForall (Forall Q) oneo /\ OForall (Forall Q) allo
    end.

  (* ---------------------------------------------------------------- type side *)
  Lemma de_at f t d j :
    get_det T t = Some d -> de (S f) t j = de_node re_match native_ok T (de f) (dv f) d j.
  Proof. intros E. rewrite de_S, E. reflexivity. Qed.

  Lemma accepts_any_sound : forall ft t, accepts_any T ft t = true -> forall j, de (S ft) t j <> None.
  Proof.
    induction ft as [|ft IH]; intros t H j; simpl in H;
      destruct (get_det T t) as [d|] eqn:E; try discriminate; rewrite (de_at _ _ _ _ E).
    - destruct d; try discriminate; match goal with c : constraints |- _ => destruct c end; discriminate.
    - destruct d; try discriminate.
      + match goal with c : constraints |- _ => destruct c end; try discriminate. simpl. apply IH. exact H.
      + simpl. apply IH. exact H.
  Qed.

  Lemma json_value_de t d j : get_det T t = Some d -> is_json_value d = true -> de 1 t j <> None.
  Proof. intros E H. rewrite (de_at _ _ _ _ E). destruct d; discriminate. Qed.

  Lemma wrapper_de t d t' f j :
    get_det T t = Some d -> wrapper_of d = Some t' -> de f t' j <> None -> de (S f) t j <> None.
  Proof.
    intros E H Hd. rewrite (de_at _ _ _ _ E). destruct d; try discriminate.
    - match goal with c : constraints |- _ => destruct c end; try discriminate.
      simpl in H. inversion H. subst. exact Hd.
    - simpl in H. inversion H. subst. exact Hd.
  Qed.

  Lemma option_de t d t' j :
    get_det T t = Some d -> option_of d = Some t' ->
    (j <> JNull -> exists f, de f t' j <> None) -> exists f, de f t j <> None.
  Proof.
    intros E H Hd. destruct d; try discriminate. simpl in H. inversion H. subst t0.
    destruct j; try (exists 1; rewrite (de_at _ _ _ _ E); simpl; congruence);
      (destruct Hd as [f Hf]; [congruence|]; exists (S f); rewrite (de_at _ _ _ _ E); simpl;
       destruct (get_det T t') as [[]|]; rewrite ?option_map_ok; exact Hf).
  Qed.

  Lemma cenum_de t d t' vs f j :
    get_det T t = Some d -> cenum_of d = Some (t', vs) ->
    existsb (json_equiv j) vs = true -> de f t' j <> None -> de (S f) t j <> None.
  Proof.
    intros E H Hx Hd. rewrite (de_at _ _ _ _ E). destruct d; try discriminate.
    match goal with c : constraints |- _ => destruct c end; try discriminate.
    simpl in H. inversion H. subst. cbn [de_node].
    destruct (de f t' j); [|congruence]. rewrite Hx. discriminate.
  Qed.

  Lemma map_de t k vt kvs f :
    get_det T t = Some (DMap k vt) -> get_det T k = Some DString ->
    (forall kv, In kv kvs -> de (S f) vt (snd kv) <> None) ->
    de (S (S f)) t (JObj kvs) <> None.
  Proof.
    intros E Ek H. rewrite (de_at _ _ _ _ E). cbn [de_node]. rewrite option_map_ok, mapM_ok.
    intros kv Hin. unfold de_key. rewrite (de_at _ _ _ _ Ek). cbn [de_node].
    specialize (H kv Hin). destruct (de (S f) vt (snd kv)); congruence.
  Qed.

  (* ---------------------------------------------------------------- one node, no "$ref" *)
  Lemma vx_parts n ty fmt enum cst nv sv ik items ai mni mxi uq props req ap mnp mxp allo anyo oneo no dflt title v :
    vx n (SObj ty fmt enum cst nv sv ik items ai mni mxi uq props req ap mnp mxp allo anyo oneo no None dflt title) v = true ->
    valid_type draft07 ty v = true /\ valid_format fmt_ok draft07 fmt v = true /\ valid_enum enum v = true /\
    valid_num nv v = true /\ valid_str re_match sv v = true /\
    valid_arr_local mni mxi uq v = true /\ valid_obj_local req mnp mxp v = true /\
    (forall l, v = JArr l -> valid_arr (vx n) ik items ai l = true) /\
    (forall kvs, v = JObj kvs -> valid_obj (vx n) props ap kvs = true) /\
    (forall bs, anyo = Some bs -> exists b, In b bs /\ vx n b v = true) /\
    (forall bs, oneo = Some bs -> exists b, In b bs /\ vx n b v = true) /\
    (forall L, allo = Some L -> forall b, In b L -> vx n b v = true).
  Proof.
    rewrite validx_SObj. cbv zeta. unfold combine_ref, here_v, valid_local.
    rewrite !andb_true_iff.
    intros [[[[[[VL Harr] Hobj] Hall] Hany] Hone] Hno].
    destruct VL as [[[[[[[H1 H2] H3] H4] H5] H6] H7] H8].
    repeat split; try assumption.
    - intros l ->. exact Harr.
    - intros kvs ->. exact Hobj.
    - intros bs ->. simpl in Hany. apply existsb_exists in Hany. exact Hany.
    - intros bs ->. simpl in Hone. apply count_true_1_ex in Hone. exact Hone.
    - intros L -> b Hin. simpl in Hall. apply (proj1 (forallb_forall _ _) Hall b Hin).
  Qed.

  Lemma null_only_sound n b v : null_only b = true -> vx n b v = true -> v = JNull.
  Proof.
    destruct b as [b|ty fmt enum cst nv sv ik items ai mni mxi uq props req ap mnp mxp allo anyo oneo no ref dflt title];
      [discriminate|].
    simpl. destruct ty as [[|t r]|]; try discriminate. destruct t; try discriminate.
    destruct r; try discriminate. destruct ref; try discriminate. intros _ Hv.
    apply vx_parts in Hv. destruct Hv as [Hty _]. unfold valid_type in Hty. simpl in Hty.
    rewrite orb_false_r in Hty. destruct v; simpl in Hty; congruence.
  Qed.

  Section Node.
    Variable cov : schema -> bool -> target -> bool.
    Variable n : nat.

    Lemma Pcov_id c t v :
      Pcov cov n c -> cov c false (TId t) = true -> in_dom v = true -> vx n c v = true ->
      exists f, de f t v <> None.
    Proof. intros HP Hc Hd Hv. apply (HP false (TId t) v Hc Hd); [discriminate | exact Hv]. Qed.

    (* additionalProperties against the value type of a map, for a sub-list of the members *)
    Lemma addl_sound (props : list (ustring * schema)) ap vt kvs kvs' :
      OForall (Pcov cov n) ap -> addl_ok T cov ap vt = true ->
      (forall a, ap = Some a -> forall kv, In kv kvs -> has_key (fst kv) props = false ->
                                           vx n a (snd kv) = true) ->
      in_dom (JObj kvs) = true ->
      (forall kv, In kv kvs' -> In kv kvs /\ has_key (fst kv) props = false) ->
      exists f, forall kv, In kv kvs' -> de f vt (snd kv) <> None.
    Proof.
      intros Hap Hc Hv Hd Hsub.
      apply (ex_fuel_forall (fun f kv => de f vt (snd kv) <> None)).
      { intros f f' kv Hle. apply acc_mono. exact Hle. }
      intros kv Hin. destruct (Hsub kv Hin) as [Hin' Hk].
      unfold addl_ok in Hc. destruct ap as [sa|].
      - simpl in Hap. apply (Pcov_id sa vt (snd kv) Hap Hc).
        + eapply in_dom_obj; eassumption.
        + apply (Hv sa eq_refl kv Hin' Hk).
      - exists (S FT). apply accepts_any_sound. exact Hc.
    Qed.

    Lemma props_ok_wire props req skip ps k :
      props_ok re_match native_ok T cov props req skip ps = true ->
      has_key k props = true -> is_skip skip k = false -> mem_ustr k (wire_names ps) = true.
    Proof.
      unfold props_ok. intros H Hk Hs. apply has_key_true in Hk. destruct Hk as [sp Hk].
      apply assoc_In in Hk. apply (proj1 (forallb_forall _ _) H) in Hk. simpl in Hk.
      rewrite Hs in Hk. simpl in Hk.
      destruct (find_prop_by_wire k ps) as [p|] eqn:E; [|discriminate].
      apply find_prop_by_wire_some in E. destruct E as [E1 E2].
      apply mem_ustr_In. eapply wire_names_In; eassumption.
    Qed.

    (* objects -> struct bodies.  [kvs] is the object the struct body sees: the
       instance itself, or the instance without the tag member [skip] *)
    Lemma struct_obj_sound props req ap skip ps deny kvs :
      Forall (fun kv => Pcov cov n (snd kv)) props -> OForall (Pcov cov n) ap ->
      nodup_ustr (wire_names ps) = true ->
      (forall w, In w (wire_names ps) -> is_skip skip w = false) ->
      props_ok re_match native_ok T cov props req skip ps = true ->
      forallb (fun p => match wire_name p with None => true | Some w => has_key w props end) ps = true ->
      match flat_map_value T ps with
      | None => false
      | Some None => negb deny || match ap with Some (SBool false) => true | _ => false end
      | Some (Some vt) => negb deny && addl_ok T cov ap vt
      end = true ->
      in_dom (JObj kvs) = true ->
      (forall k s x, In (k, s) props -> is_skip skip k = false -> assoc k kvs = Some x -> vx n s x = true) ->
      (forall a, ap = Some a -> forall kv, In kv kvs -> has_key (fst kv) props = false ->
                                           vx n a (snd kv) = true) ->
      (forall k, In k req -> is_skip skip k = false -> has_key k kvs = true) ->
      (forall kv, In kv kvs -> is_skip skip (fst kv) = false) ->
      exists f, de_struct_obj T (de f) (dv f) ps deny kvs <> None.
    Proof.
      intros Hprops Hap H2 Hsw H3 H4 H5 Hd Hp Ha Hreq Hns.
      (* named members *)
      assert (HA : exists f, de_named T (de f) (dv f) ps kvs <> None).
      { assert (HA : exists f, forall p, In p ps -> forall w, wire_name p = Some w ->
                                 member_val T (de f) (dv f) kvs p w <> None).
        { apply (ex_fuel_forall (fun f p => forall w, wire_name p = Some w ->
                                                      member_val T (de f) (dv f) kvs p w <> None)).
          { intros f f' p Hle H w Hw. eapply member_val_mono; [exact Hle | apply H; exact Hw]. }
          intros p Hin.
          destruct (wire_name p) as [w|] eqn:Ew; [|exists 0; intros w Hw; discriminate].
          assert (Hws : is_skip skip w = false) by (apply Hsw; eapply wire_names_In; eassumption).
          assert (Hk := proj1 (forallb_forall _ _) H4 p Hin). simpl in Hk. rewrite Ew in Hk.
          apply has_key_true in Hk. destruct Hk as [sp Hk]. apply assoc_In in Hk.
          assert (Hc := proj1 (forallb_forall _ _) H3 (w, sp) Hk). simpl in Hc.
          rewrite Hws in Hc. simpl in Hc.
          rewrite (nodup_find ps p w H2 Hin Ew) in Hc. apply andb_true_iff in Hc. destruct Hc as [Hc1 Hc2].
          assert (HP : Pcov cov n sp) by (apply (proj1 (Forall_forall _ _) Hprops (w, sp) Hk)).
          unfold member_val. destruct (assoc w kvs) as [j|] eqn:Ea.
          - destruct (Pcov_id sp (p_ty p) j HP Hc1) as [f Hf].
            + eapply in_dom_assoc; eassumption.
            + eapply Hp; eassumption.
            + exists f. intros w' Hw'. inversion Hw'. subst w'. rewrite Ea. exact Hf.
          - apply orb_true_iff in Hc2. destruct Hc2 as [Hc2|Hc2].
            + apply mem_ustr_In in Hc2. apply Hreq in Hc2; [|exact Hws].
              apply has_key_true in Hc2. destruct Hc2 as [x Hx]. congruence.
            + exists DFUEL. intros w' Hw'. inversion Hw'. subst w'. rewrite Ea.
              unfold missing_ok, is_some in Hc2.
              destruct (missing T (de DFUEL) (dv DFUEL) p); congruence. }
        destruct HA as [f HA]. exists f. apply de_named_ok. intros p w Hin Hw. apply HA; assumption. }
      (* unknown entries: rejected (deny), ignored, or collected by the flattened map *)
      assert (HK : forall kv : ustring * json, In kv kvs -> has_key (fst kv) props = true ->
                                               negb (mem_ustr (fst kv) (wire_names ps)) = false).
      { intros kv Hin Hk. apply negb_false_iff. eapply props_ok_wire; [eassumption | exact Hk | apply Hns; exact Hin]. }
      assert (HB : exists f, flat_stage_ok T (de f) ps deny kvs).
      { unfold flat_map_value in H5. unfold flat_stage_ok.
        destruct (flat_props ps) as [|fp [|fp2 r]]; [| |discriminate].
        - exists 0. destruct deny; [|reflexivity]. simpl in H5.
          destruct ap as [[[|]|]|]; try discriminate.
          assert (E : unknown_entries ps kvs = []).
          { unfold unknown_entries. apply filter_nil. intros kv Hin. apply HK; [exact Hin|].
            destruct (has_key (fst kv) props) eqn:Ek; [reflexivity|].
            assert (Hf := Ha (SBool false) eq_refl kv Hin Ek). rewrite valid_SBool in Hf. discriminate. }
          rewrite E. reflexivity.
        - destruct (get_det T (p_ty fp)) as [dfp|] eqn:Efp; [|discriminate].
          destruct dfp; try discriminate.
          destruct (get_det T k) as [dk|] eqn:Ek; [|discriminate].
          destruct dk; try discriminate.
          apply andb_true_iff in H5. destruct H5 as [_ H5].
          destruct (addl_sound props ap v kvs (unknown_entries ps kvs) Hap H5 Ha Hd) as [f Hf].
          { intros kv Hin. unfold unknown_entries in Hin. apply filter_In in Hin. destruct Hin as [Hin Hm].
            split; [exact Hin|]. destruct (has_key (fst kv) props) eqn:Ekk; [|reflexivity].
            rewrite (HK kv Hin Ekk) in Hm. discriminate. }
          exists (S (S f)). split; [left; eexists; eexists; exact Efp|].
          apply (flats_ok_one_map T _ _ _ _ _ Efp).
          apply (map_de _ _ _ _ _ Efp Ek). intros kv Hin. apply acc_S. apply Hf. exact Hin. }
      destruct HA as [fa HA]. destruct HB as [fb HB].
      exists (Nat.max fa fb). apply de_struct_obj_ok. split.
      - apply (de_named_mono re_match native_ok T fa); [lia | exact HA].
      - revert HB. apply flat_stage_lift.
        + intros t j. apply acc_mono. lia.
        + intros t k0 v0 s1 s2. apply map_sub_mono. lia.
    Qed.

    Lemma struct_sound ty fmt enum cst nv sv ik items ai mni mxi uq props req ap mnp mxp allo anyo oneo no dflt title
          nn ps deny v :
      Forall (fun kv => Pcov cov n (snd kv)) props -> OForall (Pcov cov n) ap ->
      struct_case re_match native_ok T cov ty props req ap None nn ps deny = true ->
      in_dom v = true -> (nn = true -> v <> JNull) ->
      vx n (SObj ty fmt enum cst nv sv ik items ai mni mxi uq props req ap mnp mxp allo anyo oneo no None dflt title) v = true ->
      exists f kvs, v = JObj kvs /\ de_struct_obj T (de f) (dv f) ps deny kvs <> None.
    Proof.
      intros Hprops Hap Hc Hd Hnn Hv.
      apply vx_parts in Hv.
      destruct Hv as (Hty & _ & _ & _ & _ & _ & Hol & _ & Hobj & _ & _).
      unfold struct_case in Hc. rewrite !andb_true_iff in Hc.
      destruct Hc as [[[[[H1 H2] _] H3] H4] H5].
      destruct (ty_is_sound _ _ _ _ _ H1 Hty Hnn) as [t [Ht Hok]].
      destruct Ht as [<-|[]]. destruct v as [| | | | | |kvs]; try discriminate. clear Hok.
      specialize (Hobj kvs eq_refl). apply valid_obj_parts in Hobj. destruct Hobj as [Hp Ha].
      unfold valid_obj_local in Hol. rewrite !andb_true_iff in Hol. destruct Hol as [[Hreq _] _].
      destruct (struct_obj_sound props req ap None ps deny kvs Hprops Hap H2) as [f Hf]; try assumption;
        try (intros; reflexivity).
      - intros k s x Hin _ Hx. eapply Hp; eassumption.
      - intros k Hin _. apply (proj1 (forallb_forall _ _) Hreq k Hin).
      - exists f, kvs. split; [reflexivity | exact Hf].
    Qed.

    (* arrays *)
    Lemma elem_sound ik items ai t' l :
      Forall (Pcov cov n) items -> elem_ok T cov ik items t' = true ->
      valid_arr (vx n) ik items ai l = true -> in_dom (JArr l) = true ->
      exists f, forall x, In x l -> de f t' x <> None.
    Proof.
      intros Hitems Hc Hv Hd.
      apply (ex_fuel_forall (fun f x => de f t' x <> None)).
      { intros f f' x Hle. apply acc_mono. exact Hle. }
      intros x Hin. unfold elem_ok in Hc. destruct ik.
      - exists (S FT). apply accepts_any_sound. exact Hc.
      - destruct items as [|s' [|s2 r]]; try discriminate.
        simpl in Hv. inversion Hitems as [|? ? HP _]. subst.
        apply (Pcov_id s' t' x HP Hc).
        + eapply in_dom_arr; eassumption.
        + apply (proj1 (forallb_forall _ _) Hv x Hin).
      - discriminate.
    Qed.

    Lemma tuple_sound ai : forall items ts l,
      Forall (Pcov cov n) items -> cov_list cov items ts = true -> length l = length ts ->
      valid_arr (vx n) ItemsTuple items ai l = true -> in_dom (JArr l) = true ->
      Forall2 (fun t x => exists f, de f t x <> None) ts l.
    Proof.
      induction items as [|s' items IH]; intros ts l Hitems Hc Hlen Hv Hd.
      - destruct ts; [|discriminate]. destruct l; [constructor | discriminate].
      - destruct ts as [|t' ts]; [discriminate|]. destruct l as [|x l]; [discriminate|].
        simpl in Hc. apply andb_true_iff in Hc. destruct Hc as [Hc1 Hc2].
        simpl in Hv. apply andb_true_iff in Hv. destruct Hv as [Hv1 Hv2].
        inversion Hitems as [|? ? HP Hrest]. subst.
        simpl in Hd. apply andb_true_iff in Hd. destruct Hd as [Hd1 Hd2].
        constructor.
        + apply (Pcov_id s' t' x); assumption.
        + apply IH; try assumption. simpl in Hlen. lia.
    Qed.

    Lemma str_constraints_sound sv mx mn pat s :
      opt_le (s_max_length sv) mx = true -> opt_ge (s_min_length sv) mn = true ->
      opt_pat (s_pattern sv) pat = true -> valid_str re_match sv (JStr s) = true ->
      str_constraints_ok re_match mx mn pat s = true.
    Proof.
      unfold opt_le, opt_ge, opt_pat, valid_str, str_constraints_ok. intros H1 H2 H3 Hv.
      rewrite !andb_true_iff in *. destruct Hv as [[V1 V2] V3]. repeat split.
      - destruct mx as [tb|]; [|reflexivity]. destruct (s_max_length sv) as [sa|]; [|discriminate].
        simpl in V1. apply N.leb_le in H1, V1. apply N.leb_le. lia.
      - destruct mn as [tb|]; [|reflexivity]. destruct (s_min_length sv) as [sa|]; [|discriminate].
        simpl in V2. apply N.leb_le in H2, V2. apply N.leb_le. lia.
      - destruct pat as [tp|]; [|reflexivity]. destruct (s_pattern sv) as [sp|]; [|discriminate].
        apply ustr_eqb_eq in H3. subst. exact V3.
    Qed.

    Lemma tuple_case_sound ty fmt enum cst nv sv ik items ai mni mxi uq props req ap mnp mxp allo anyo oneo no dflt title
          nn ts v :
      Forall (Pcov cov n) items ->
      tuple_case cov ty ik items mni mxi nn ts = true ->
      in_dom v = true -> (nn = true -> v <> JNull) ->
      vx n (SObj ty fmt enum cst nv sv ik items ai mni mxi uq props req ap mnp mxp allo anyo oneo no None dflt title) v = true ->
      exists f l, v = JArr l /\ zipM (de f) ts l <> None.
    Proof.
      intros Hitems Hc Hd Hnn Hv.
      apply vx_parts in Hv.
      destruct Hv as (Hty & _ & _ & _ & _ & Hal & _ & Harr & _).
      unfold tuple_case in Hc.
      rewrite !andb_true_iff in Hc. destruct Hc as [[[Hc1 Hc2] Hc3] Hc4].
      destruct (ty_is_sound _ _ _ _ _ Hc1 Hty Hnn) as [ity [[<-|[]] Hok]].
      destruct v as [| | | | |l|]; try discriminate.
      destruct ik; try discriminate.
      destruct mni as [a|]; [|discriminate]. destruct mxi as [b|]; [|discriminate].
      apply andb_true_iff in Hc3. destruct Hc3 as [Ea Eb]. apply N.eqb_eq in Ea, Eb. subst a b.
      unfold valid_arr_local in Hal. simpl in Hal. rewrite !andb_true_iff in Hal.
      destruct Hal as [[L1 L2] _]. apply N.leb_le in L1, L2.
      assert (EL : length l = length ts) by (apply Nat2N.inj; lia).
      assert (HF := tuple_sound ai items ts l Hitems Hc4 EL (Harr l eq_refl) Hd).
      apply (ex_fuel_Forall2 (fun f t x => de f t x <> None)) in HF.
      2:{ intros f f' x y Hle. apply acc_mono. exact Hle. }
      destruct HF as [f HF].
      exists f, l. split; [reflexivity|]. apply zipM_ok. exact HF.
    Qed.

    (* a node without union, allOf/not, "$ref", against a non-wrapper type *)
    Lemma leaf_sound ty fmt enum cst nv sv ik items ai mni mxi uq props req ap mnp mxp allo anyo oneo no dflt title
          nn d t v :
      Forall (Pcov cov n) items -> Forall (fun kv => Pcov cov n (snd kv)) props -> OForall (Pcov cov n) ap ->
      get_det T t = Some d ->
      leaf_ok re_match native_ok T cov ty fmt enum nv sv ik items mni mxi props req ap nn d = true ->
      in_dom v = true -> (nn = true -> v <> JNull) ->
      vx n (SObj ty fmt enum cst nv sv ik items ai mni mxi uq props req ap mnp mxp allo anyo oneo no None dflt title) v = true ->
      exists f, de f t v <> None.
    Proof.
      intros Hitems Hprops Hap Ed Hc Hd Hnn Hv.
      assert (Hparts := Hv). apply vx_parts in Hparts.
      destruct Hparts as (Hty & Hfm & Hen & Hnum & Hstr & Hal & Hol & Harr & Hobj & _ & _).
      destruct d; try discriminate; cbn [leaf_ok] in Hc.
      - (* DEnum, externally tagged, unit variants: string enum *)
        destruct tag; try discriminate.
        apply andb_true_iff in Hc. destruct Hc as [Hc1 Hc2].
        destruct (ty_is_sound _ _ _ _ _ Hc1 Hty Hnn) as [ity [[<-|[]] Hok]].
        destruct v as [| | | |s| |]; try discriminate.
        destruct enum as [es|]; [|discriminate].
        destruct (str_simple_find _ _ _ Hc2 Hen) as [i [vr [Ef Evr]]].
        exists 1. rewrite (de_at _ _ _ _ Ed). cbn [de_node]. unfold de_enum.
        rewrite Ef, Evr. discriminate.
      - (* DStruct *)
        edestruct struct_sound as [f [kvs [-> Hf]]];
          [exact Hprops | exact Hap | exact Hc | exact Hd | exact Hnn | exact Hv |].
        exists (S f). rewrite (de_at _ _ _ _ Ed). cbn [de_node]. unfold de_struct_body.
        rewrite option_map_ok. exact Hf.
      - (* DNewtype with string constraints *)
        destruct c; try discriminate.
        rewrite !andb_true_iff in Hc. destruct Hc as [[[[Hc1 _] Hc3] Hc4] Hc5].
        destruct (ty_is_sound _ _ _ _ _ Hc1 Hty Hnn) as [ity [[<-|[]] Hok]].
        destruct v as [| | | |s| |]; try discriminate.
        exists 1. rewrite (de_at _ _ _ _ Ed). cbn [de_node].
        rewrite (str_constraints_sound _ _ _ _ _ Hc3 Hc4 Hc5 Hstr). discriminate.
      - (* DNative *)
        rewrite !andb_true_iff in Hc. destruct Hc as [[Hc1 _] Hc3].
        destruct (ty_is_sound _ _ _ _ _ Hc1 Hty Hnn) as [ity [[<-|[]] Hok]].
        destruct v as [| | | |s| |]; try discriminate.
        destruct fmt as [f|]; [|discriminate].
        apply existsb_exists in Hc3. destruct Hc3 as [[f' nm] [Hin He]]. simpl in He.
        apply andb_true_iff in He. destruct He as [He1 He2].
        apply ustr_eqb_eq in He1, He2. subst f' nm.
        destruct (format_native_table_formats _ _ Hin) as [F1 F2].
        unfold valid_format in Hfm. rewrite F1, F2 in Hfm.
        exists 1. rewrite (de_at _ _ _ _ Ed). cbn [de_node].
        rewrite (Hfmt _ _ _ Hin Hfm). discriminate.
      - (* DVec *)
        apply andb_true_iff in Hc. destruct Hc as [Hc1 Hc2].
        destruct (ty_is_sound _ _ _ _ _ Hc1 Hty Hnn) as [ity [[<-|[]] Hok]].
        destruct v as [| | | | |l|]; try discriminate.
        destruct (elem_sound _ _ _ _ _ Hitems Hc2 (Harr l eq_refl) Hd) as [f Hf].
        exists (S f). rewrite (de_at _ _ _ _ Ed). cbn [de_node]. rewrite option_map_ok, mapM_ok. exact Hf.
      - (* DMap *)
        rewrite !andb_true_iff in Hc. destruct Hc as [[[Hc1 Hc2] Hc3] Hc4].
        destruct (ty_is_sound _ _ _ _ _ Hc1 Hty Hnn) as [ity [[<-|[]] Hok]].
        destruct v as [| | | | | |kvs]; try discriminate.
        destruct props; [|discriminate].
        destruct (get_det T k) as [dk|] eqn:Ek; [|discriminate]. destruct dk; try discriminate.
        assert (Ho := Hobj kvs eq_refl). apply valid_obj_parts in Ho. destruct Ho as [_ Ha].
        destruct (addl_sound [] ap v0 kvs kvs Hap Hc4 Ha Hd) as [f Hf].
        { intros kv Hin. split; [exact Hin | reflexivity]. }
        exists (S (S f)). apply (map_de _ _ _ _ _ Ed Ek). intros kv Hin. apply acc_S. apply Hf. exact Hin.
      - (* DSet *)
        apply andb_true_iff in Hc. destruct Hc as [Hc1 Hc2].
        destruct (ty_is_sound _ _ _ _ _ Hc1 Hty Hnn) as [ity [[<-|[]] Hok]].
        destruct v as [| | | | |l|]; try discriminate.
        destruct (elem_sound _ _ _ _ _ Hitems Hc2 (Harr l eq_refl) Hd) as [f Hf].
        exists (S f). rewrite (de_at _ _ _ _ Ed). cbn [de_node]. rewrite option_map_ok, mapM_ok. exact Hf.
      - (* DArray *)
        rewrite !andb_true_iff in Hc. destruct Hc as [[Hc1 Hc2] Hc3].
        destruct (ty_is_sound _ _ _ _ _ Hc1 Hty Hnn) as [ity [[<-|[]] Hok]].
        destruct v as [| | | | |l|]; try discriminate.
        destruct mni as [a|]; [|discriminate]. destruct mxi as [b|]; [|discriminate].
        apply andb_true_iff in Hc2. destruct Hc2 as [Ea Eb]. apply N.eqb_eq in Ea, Eb. subst a b.
        unfold valid_arr_local in Hal. simpl in Hal. rewrite !andb_true_iff in Hal.
        destruct Hal as [[L1 L2] _]. apply N.leb_le in L1, L2.
        assert (EL : N.eqb (N.of_nat (length l)) n0 = true) by (apply N.eqb_eq; lia).
        destruct (elem_sound _ _ _ _ _ Hitems Hc3 (Harr l eq_refl) Hd) as [f Hf].
        exists (S f). rewrite (de_at _ _ _ _ Ed). cbn [de_node]. rewrite EL, option_map_ok, mapM_ok. exact Hf.
      - (* DTuple *)
        edestruct tuple_case_sound as [f [l [-> Hf]]];
          [exact Hitems | exact Hc | exact Hd | exact Hnn | exact Hv |].
        exists (S f). rewrite (de_at _ _ _ _ Ed). cbn [de_node]. rewrite option_map_ok. exact Hf.
      - (* DUnit *)
        apply andb_true_iff in Hc. destruct Hc as [_ Hc1].
        destruct (ty_is_sound false _ _ _ _ Hc1 Hty) as [ity [[<-|[]] Hok]]; [discriminate|].
        apply type_ok_null in Hok. subst v.
        exists 1. rewrite (de_at _ _ _ _ Ed). discriminate.
      - (* DBoolean *)
        destruct (ty_is_sound _ _ _ _ _ Hc Hty Hnn) as [ity [[<-|[]] Hok]].
        destruct v; try discriminate.
        exists 1. rewrite (de_at _ _ _ _ Ed). discriminate.
      - (* DInteger *)
        apply andb_true_iff in Hc. destruct Hc as [Hc1 Hc2].
        destruct (ty_is_sound _ _ _ _ _ Hc1 Hty Hnn) as [ity [[<-|[]] Hok]].
        destruct (int_range_u name) as [[[lo hi] nz]|] eqn:Er; [|discriminate].
        apply andb_true_iff in Hc2. destruct Hc2 as [Hlo Hhi].
        destruct v as [| |z|q| | |]; try discriminate.
        + simpl in Hd. apply andb_true_iff in Hd. destruct Hd as [D1 D2]. apply Z.leb_le in D1, D2.
          assert (L := lower_sound fmt_ok _ _ _ _ _ Hlo D1 Hnum Hfm).
          assert (U := upper_sound fmt_ok _ _ _ _ _ Hhi D2 Hnum Hfm).
          exists 1. rewrite (de_at _ _ _ _ Ed). cbn [de_node]. unfold in_int_range. rewrite Er.
          apply Z.leb_le in L, U. rewrite L, U. discriminate.
        + simpl in Hd, Hok. apply negb_true_iff in Hd. rewrite Hd in Hok. discriminate.
      - (* DFloat *)
        destruct (ty_is_sound _ _ _ _ _ Hc Hty Hnn) as [ity [[<-|[<-|[]]] Hok]];
          destruct v; try discriminate; exists 1; rewrite (de_at _ _ _ _ Ed); discriminate.
      - (* DString *)
        destruct (ty_is_sound _ _ _ _ _ Hc Hty Hnn) as [ity [[<-|[]] Hok]].
        destruct v; try discriminate.
        exists 1. rewrite (de_at _ _ _ _ Ed). discriminate.
    Qed.


    (* tagged variants *)
    Lemma payload_sound sc deny vr pj :
      Pcov cov n sc -> payload_ok cov sc deny vr = true -> in_dom pj = true -> vx n sc pj = true ->
      exists f, de_payload T (de f) (dv f) deny (v_det vr) pj <> None.
    Proof.
      intros HP Hc Hd Hv. unfold payload_ok in Hc. destruct (v_det vr) as [|t'|ts|ps].
      - assert (E := null_only_sound n sc pj Hc Hv). subst pj. exists 0. discriminate.
      - apply (HP false (TId t') pj Hc Hd); [discriminate | exact Hv].
      - apply (HP false (TTuple ts) pj Hc Hd); [discriminate | exact Hv].
      - destruct (HP false (TProps ps deny) pj Hc Hd) as [f [kvs [-> Hf]]]; [discriminate | exact Hv |].
        exists f. simpl. rewrite option_map_ok. exact Hf.
    Qed.

    Lemma str_enum_sound stag names j :
      str_enum_names stag = Some names -> vx n stag j = true -> exists x, j = JStr x /\ In x names.
    Proof.
      destruct stag as [b|ty fmt enum cst nv sv ik items ai mni mxi uq props req ap mnp mxp allo anyo oneo no ref dflt title];
        [discriminate|].
      simpl. destruct ty as [[|t r]|]; try discriminate. destruct t; try discriminate.
      destruct r; try discriminate. destruct enum as [es|]; try discriminate.
      destruct ref; try discriminate. intros Hs Hv.
      apply vx_parts in Hv. destruct Hv as (Hty & _ & Hen & _).
      unfold valid_type in Hty. simpl in Hty. rewrite orb_false_r in Hty.
      destruct j as [| | | |x| |]; try discriminate. exists x. split; [reflexivity|].
      simpl in Hen. apply existsb_exists in Hen. destruct Hen as [e [Hin He]].
      destruct e as [| | | |y| |]; try discriminate. simpl in He. apply ustr_eqb_eq in He. subst y.
      eapply strs_In; eassumption.
    Qed.

    Lemma external_sound vs deny nn b v t name dflt bes :
      Pkids (Pcov cov n) b -> get_det T t = Some (DEnum name dflt TagExternal vs deny bes) ->
      external_branch_ok cov vs deny nn b = true ->
      in_dom v = true -> (nn = true -> v <> JNull) -> vx n b v = true ->
      exists f, de f t v <> None.
    Proof.
      intros HK Ed Hc Hd Hnn Hv.
      destruct b as [b|ty fmt enum cst nv sv ik items ai mni mxi uq props req ap mnp mxp allo anyo oneo no ref dflt' title];
        [discriminate|].
      unfold external_branch_ok in Hc.
      destruct ref; [discriminate|]. destruct anyo; [discriminate|]. destruct oneo; [discriminate|].
      destruct allo; [discriminate|]. destruct no; [discriminate|].
      simpl in HK. destruct HK as (_ & HKp & _).
      apply vx_parts in Hv. destruct Hv as (Hty & _ & Hen & _ & _ & _ & Hol & _ & Hobj & _ & _).
      apply orb_true_iff in Hc. destruct Hc as [Hc|Hc].
      - (* unit variants *)
        apply andb_true_iff in Hc. destruct Hc as [Hc1 Hc2].
        destruct (ty_is_sound _ _ _ _ _ Hc1 Hty Hnn) as [ity [[<-|[]] Hok]].
        destruct v as [| | | |s| |]; try discriminate.
        destruct enum as [es|]; [|discriminate].
        destruct (str_simple_find _ _ _ Hc2 Hen) as [i [vr [Ef Evr]]].
        exists 1. rewrite (de_at _ _ _ _ Ed). cbn [de_node]. unfold de_enum. rewrite Ef, Evr. discriminate.
      - (* {"K": payload} *)
        rewrite !andb_true_iff in Hc. destruct Hc as [[Hc1 Hc2] Hc3].
        destruct (ty_is_sound _ _ _ _ _ Hc1 Hty Hnn) as [ity [[<-|[]] Hok]].
        destruct v as [| | | | | |kvs]; try discriminate.
        destruct ap as [[[|]|]|]; try discriminate.
        destruct props as [|[k sk] [|kv2 r]]; try discriminate. simpl in Hc3.
        apply andb_true_iff in Hc3. destruct Hc3 as [Hreq Hc3].
        destruct (find_variant k vs 0) as [[i vr]|] eqn:Ef; [|discriminate].
        specialize (Hobj kvs eq_refl). apply valid_obj_parts in Hobj. destruct Hobj as [Hp Ha].
        unfold valid_obj_local in Hol. rewrite !andb_true_iff in Hol. destruct Hol as [[Hrq _] _].
        assert (Hhk : has_key k kvs = true).
        { apply mem_ustr_In in Hreq. apply (proj1 (forallb_forall _ _) Hrq k Hreq). }
        assert (Hall : forall kv, In kv kvs -> fst kv = k).
        { intros kv Hin. destruct (has_key (fst kv) [(k, sk)]) eqn:Ek.
          - unfold has_key in Ek. simpl in Ek. destruct (ustr_eqb (fst kv) k) eqn:E; [|discriminate].
            apply ustr_eqb_eq in E. exact E.
          - assert (Hf := Ha (SBool false) eq_refl kv Hin Ek). rewrite valid_SBool in Hf. discriminate. }
        destruct (single_key kvs k (in_dom_keys _ Hd) Hall Hhk) as [pj Ekvs]. subst kvs.
        assert (Hpj : vx n sk pj = true).
        { apply (Hp k sk pj (or_introl eq_refl)). simpl. rewrite ustr_eqb_refl. reflexivity. }
        inversion HKp as [|? ? HPsk _]. subst. simpl in HPsk.
        destruct (payload_sound sk deny vr pj HPsk Hc3) as [f Hf]; [|exact Hpj|].
        { apply (in_dom_obj _ (k, pj) Hd). left. reflexivity. }
        exists (S f). rewrite (de_at _ _ _ _ Ed). cbn [de_node]. unfold de_enum. rewrite Ef.
        rewrite option_map_ok. exact Hf.
    Qed.

    Lemma adjacent_sound tg ct vs deny nn b v t name dflt bes :
      Pkids (Pcov cov n) b -> get_det T t = Some (DEnum name dflt (TagAdjacent tg ct) vs deny bes) ->
      adjacent_branch_ok cov tg ct vs deny nn b = true ->
      in_dom v = true -> (nn = true -> v <> JNull) -> vx n b v = true ->
      exists f, de f t v <> None.
    Proof.
      intros HK Ed Hc Hd Hnn Hv.
      destruct b as [b|ty fmt enum cst nv sv ik items ai mni mxi uq props req ap mnp mxp allo anyo oneo no ref dflt' title];
        [discriminate|].
      unfold adjacent_branch_ok in Hc.
      destruct ref; [discriminate|]. destruct anyo; [discriminate|]. destruct oneo; [discriminate|].
      destruct allo; [discriminate|]. destruct no; [discriminate|].
      simpl in HK. destruct HK as (_ & HKp & _).
      apply vx_parts in Hv. destruct Hv as (Hty & _ & _ & _ & _ & _ & Hol & _ & Hobj & _ & _).
      rewrite !andb_true_iff in Hc. destruct Hc as [[[Hc1 Hne] Hreq] Hc4].
      destruct (ty_is_sound _ _ _ _ _ Hc1 Hty Hnn) as [ity [[<-|[]] Hok]].
      destruct v as [| | | | | |kvs]; try discriminate.
      specialize (Hobj kvs eq_refl). apply valid_obj_parts in Hobj. destruct Hobj as [Hp Ha].
      unfold valid_obj_local in Hol. rewrite !andb_true_iff in Hol. destruct Hol as [[Hrq _] _].
      apply negb_true_iff in Hne.
      (* the tag member *)
      destruct (assoc tg props) as [stag|] eqn:Etag; [|discriminate].
      destruct (str_enum_names stag) as [names|] eqn:Enames; [|discriminate].
      assert (Htk : has_key tg kvs = true).
      { apply mem_ustr_In in Hreq. apply (proj1 (forallb_forall _ _) Hrq tg Hreq). }
      apply has_key_true in Htk. destruct Htk as [jt Ejt].
      assert (Hjt : vx n stag jt = true) by (apply (Hp tg stag jt); [apply assoc_In; exact Etag | exact Ejt]).
      destruct (str_enum_sound stag names jt Enames Hjt) as [s [-> Hs]].
      apply (proj1 (forallb_forall _ _) Hc4) in Hs.
      destruct (find_variant s vs 0) as [[i vr]|] eqn:Ef; [|discriminate].
      apply andb_true_iff in Hs. destruct Hs as [Hall Hcase].
      (* declared members are the tag or the content *)
      assert (KP : forall k, has_key k props = true -> k = tg \/ k = ct).
      { intros k Hk. apply has_key_true in Hk. destruct Hk as [sk Hk]. apply assoc_In in Hk.
        apply (proj1 (forallb_forall _ _) Hall) in Hk. simpl in Hk.
        apply orb_true_iff in Hk. destruct Hk as [Hk|Hk].
        - left. apply ustr_eqb_eq. exact Hk.
        - right. apply andb_true_iff in Hk. destruct Hk as [Hk _]. apply ustr_eqb_eq. exact Hk. }
      assert (Hclosed : is_ap_false ap = true -> forall kv, In kv kvs -> has_key (fst kv) props = true).
      { intros Hapf kv Hin. destruct ap as [[[|]|]|]; try discriminate.
        destruct (has_key (fst kv) props) eqn:Ek; [reflexivity|].
        assert (Hf := Ha (SBool false) eq_refl kv Hin Ek). rewrite valid_SBool in Hf. discriminate. }
      assert (Hothers : is_ap_false ap = true ->
                        remove_key ct (remove_key tg kvs) = []).
      { intros Hapf. apply remove_two_keys. intros kv Hin. apply KP. apply Hclosed; assumption. }
      destruct (has_key ct props) eqn:Ect.
      - (* content declared *)
        apply andb_true_iff in Hcase. destruct Hcase as [Hcreq Hdeny].
        assert (Hck : has_key ct kvs = true).
        { apply mem_ustr_In in Hcreq. apply (proj1 (forallb_forall _ _) Hrq ct Hcreq). }
        apply has_key_true in Hck. destruct Hck as [pj Epj].
        apply has_key_true in Ect. destruct Ect as [sc Esc]. apply assoc_In in Esc.
        assert (Hpay : payload_ok cov sc deny vr = true).
        { assert (H := proj1 (forallb_forall _ _) Hall (ct, sc) Esc). simpl in H.
          rewrite ustr_eqb_sym, Hne in H. simpl in H. apply andb_true_iff in H. destruct H as [_ H]. exact H. }
        assert (HPsc : Pcov cov n sc) by (apply (proj1 (Forall_forall _ _) HKp (ct, sc) Esc)).
        destruct (payload_sound sc deny vr pj HPsc Hpay) as [f Hf].
        { eapply in_dom_assoc; eassumption. }
        { apply (Hp ct sc pj Esc Epj). }
        exists (S f). rewrite (de_at _ _ _ _ Ed). cbn [de_node]. unfold de_enum.
        rewrite Ejt, Ef, Epj.
        assert (Ed0 : deny && negb (Nat.eqb (length (remove_key ct (remove_key tg kvs))) 0) = false).
        { destruct deny; [|reflexivity]. simpl in Hdeny. rewrite (Hothers Hdeny). reflexivity. }
        rewrite Ed0. rewrite option_map_ok. exact Hf.
      - (* unit variant: no content *)
        apply andb_true_iff in Hcase. destruct Hcase as [Hsimple Hapf].
        assert (Enc : assoc ct kvs = None).
        { destruct (assoc ct kvs) as [pj|] eqn:Epj; [|reflexivity].
          apply assoc_In in Epj. apply (Hclosed Hapf) in Epj. simpl in Epj. congruence. }
        exists 1. rewrite (de_at _ _ _ _ Ed). cbn [de_node]. unfold de_enum.
        rewrite Ejt, Ef, Enc, (Hothers Hapf). simpl. rewrite andb_false_r.
        destruct (v_det vr); try discriminate.
    Qed.

    Lemma internal_sound tg vs deny nn b v t name dflt bes :
      Pkids (Pcov cov n) b -> get_det T t = Some (DEnum name dflt (TagInternal tg) vs deny bes) ->
      internal_branch_ok re_match native_ok T cov tg vs deny nn b = true ->
      in_dom v = true -> (nn = true -> v <> JNull) -> vx n b v = true ->
      exists f, de f t v <> None.
    Proof.
      intros HK Ed Hc Hd Hnn Hv.
      destruct b as [b|ty fmt enum cst nv sv ik items ai mni mxi uq props req ap mnp mxp allo anyo oneo no ref dflt' title];
        [discriminate|].
      unfold internal_branch_ok in Hc.
      destruct ref; [discriminate|]. destruct anyo; [discriminate|]. destruct oneo; [discriminate|].
      destruct allo; [discriminate|]. destruct no; [discriminate|].
      simpl in HK. destruct HK as (_ & HKp & HKa & _).
      apply vx_parts in Hv. destruct Hv as (Hty & _ & _ & _ & _ & _ & Hol & _ & Hobj & _ & _).
      rewrite !andb_true_iff in Hc. destruct Hc as [[Hc1 Hreq] Hc].
      destruct (ty_is_sound _ _ _ _ _ Hc1 Hty Hnn) as [ity [[<-|[]] Hok]].
      destruct v as [| | | | | |kvs]; try discriminate.
      destruct (assoc tg props) as [stag|] eqn:Etag; [|discriminate].
      destruct (str_enum_names stag) as [names|] eqn:Enames; [|discriminate].
      specialize (Hobj kvs eq_refl). apply valid_obj_parts in Hobj. destruct Hobj as [Hp Ha].
      unfold valid_obj_local in Hol. rewrite !andb_true_iff in Hol. destruct Hol as [[Hrq _] _].
      assert (Htk : has_key tg kvs = true).
      { apply mem_ustr_In in Hreq. apply (proj1 (forallb_forall _ _) Hrq tg Hreq). }
      apply has_key_true in Htk. destruct Htk as [jt Ejt].
      assert (Hjt : vx n stag jt = true) by (apply (Hp tg stag jt); [apply assoc_In; exact Etag | exact Ejt]).
      destruct (str_enum_sound stag names jt Enames Hjt) as [s [-> Hs]].
      apply (proj1 (forallb_forall _ _) Hc) in Hs.
      destruct (find_variant s vs 0) as [[i vr]|] eqn:Ef; [|discriminate].
      destruct (v_det vr) as [|t'|ts|ps] eqn:Evr; try discriminate.
      - (* unit variant *)
        exists 1. rewrite (de_at _ _ _ _ Ed). cbn [de_node]. unfold de_enum. rewrite Ejt, Ef, Evr.
        discriminate.
      - (* struct variant: the members without the tag *)
        unfold struct_case in Hs. rewrite !andb_true_iff in Hs.
        destruct Hs as [[[[[H1 H2] Hsw] H3] H4] H5]. apply negb_true_iff in Hsw.
        destruct (struct_obj_sound props req ap (Some tg) ps deny (remove_key tg kvs) HKp HKa H2) as [f Hf];
          try assumption.
        + intros w Hw. simpl. destruct (ustr_eqb w tg) eqn:E; [|reflexivity].
          apply ustr_eqb_eq in E. subst w. apply mem_ustr_In in Hw. congruence.
        + apply in_dom_remove_key. exact Hd.
        + intros k sk x Hin Hsk Hx. simpl in Hsk. rewrite assoc_remove_key in Hx.
          * eapply Hp; eassumption.
          * rewrite ustr_eqb_sym. exact Hsk.
        + intros a Ea kv Hin Hk. apply In_remove_key in Hin. destruct Hin as [Hin _].
          apply (Ha a Ea kv Hin Hk).
        + intros k Hin Hsk. simpl in Hsk. apply has_key_true.
          assert (Hk := proj1 (forallb_forall _ _) Hrq k Hin). apply has_key_true in Hk.
          destruct Hk as [x Hx]. exists x. rewrite assoc_remove_key; [exact Hx|].
          rewrite ustr_eqb_sym. exact Hsk.
        + intros kv Hin. apply In_remove_key in Hin. destruct Hin as [_ Hne]. simpl.
          rewrite ustr_eqb_sym. exact Hne.
        + exists (S f). rewrite (de_at _ _ _ _ Ed). cbn [de_node]. unfold de_enum. rewrite Ejt, Ef, Evr.
          rewrite option_map_ok. unfold de_struct_body. rewrite option_map_ok. exact Hf.
    Qed.

    (* anyOf / oneOf with no other assertion beside it: Option of the non-null
       branches, an untagged enum some variant of which takes each branch, or an
       externally / adjacently tagged enum whose variants the branches spell out *)
    Lemma union_sound ty enum cst allo no nn d bs t v :
      Forall (fun b => Pcov cov n b /\ Pkids (Pcov cov n) b) bs -> get_det T t = Some d ->
      union_ok re_match native_ok T cov ty enum cst allo no nn d bs = true ->
      in_dom v = true -> (nn = true -> v <> JNull) ->
      (exists b, In b bs /\ vx n b v = true) ->
      exists f, de f t v <> None.
    Proof.
      intros Hbs Ed Hc Hd Hnn [b [Hin Hb]].
      destruct (proj1 (Forall_forall _ _) Hbs b Hin) as [HP HK].
      unfold union_ok in Hc.
      destruct ty; [discriminate|]. destruct enum; [discriminate|]. destruct cst; [discriminate|].
      destruct allo; [discriminate|]. destruct no; [discriminate|].
      destruct d; try discriminate.
      - destruct tag; try discriminate.
        + (* externally tagged *)
          apply (proj1 (forallb_forall _ _) Hc) in Hin. eapply external_sound; eassumption.
        + (* internally tagged *)
          apply (proj1 (forallb_forall _ _) Hc) in Hin. eapply internal_sound; eassumption.
        + (* adjacently tagged *)
          apply (proj1 (forallb_forall _ _) Hc) in Hin. eapply adjacent_sound; eassumption.
        + (* untagged enum *)
          apply (proj1 (forallb_forall _ _) Hc) in Hin.
          apply existsb_exists in Hin. destruct Hin as [vr [Hvr Hok]].
          unfold variant_ok in Hok.
          assert (HU : exists f, de_untagged_payload T (de f) (dv f) deny vr v <> None).
          { unfold de_untagged_payload. destruct (v_det vr) as [|t'|ts|ps].
            - assert (E := null_only_sound n b v Hok Hb). subst v. exists 0. discriminate.
            - destruct (HP nn (TId t') v Hok Hd Hnn Hb) as [f Hf]. exists f. destruct v; exact Hf.
            - destruct (HP nn (TTuple ts) v Hok Hd Hnn Hb) as [f Hf]. exists f. destruct v; exact Hf.
            - destruct (HP nn (TProps ps deny) v Hok Hd Hnn Hb) as [f [kvs [-> Hf]]]. exists f.
              simpl. rewrite option_map_ok. exact Hf. }
          destruct HU as [f HU]. exists (S f). rewrite (de_at _ _ _ _ Ed). cbn [de_node]. unfold de_enum.
          apply de_untagged_ok. exists vr. split; assumption.
      - (* Option *)
        apply (option_de _ _ t0 v Ed eq_refl). intros Hne.
        apply (proj1 (forallb_forall _ _) Hc) in Hin.
        apply (HP true (TId t0) v Hin Hd (fun _ => Hne) Hb).
    Qed.

    (* allOf of object schemas -> struct *)
    Lemma allof_struct_sound nn ps deny L v :
      Forall (fun b => Pcov cov n b /\ Pkids (Pcov cov n) b) L ->
      allof_struct re_match native_ok T cov nn ps deny L = true ->
      in_dom v = true -> (nn = true -> v <> JNull) ->
      (forall b, In b L -> vx n b v = true) ->
      exists f kvs, v = JObj kvs /\ de_struct_obj T (de f) (dv f) ps deny kvs <> None.
    Proof.
      intros HL Hc Hd Hnn Hv.
      unfold allof_struct in Hc. rewrite !andb_true_iff in Hc.
      destruct Hc as [[[[[Hdeny Hflat] H2] Hne] Hb] H4].
      apply negb_true_iff in Hdeny. subst deny.
      (* every conjunct is a plain object schema *)
      assert (HB : forall b, In b L ->
                exists ty fmt enum cst nv sv ik items ai mni mxi uq props req ap mnp mxp dflt title,
                  b = SObj ty fmt enum cst nv sv ik items ai mni mxi uq props req ap mnp mxp None None None None None dflt title
                  /\ ty_is nn ty [TObject] = true
                  /\ props_ok re_match native_ok T cov props (flat_map sch_required L) None ps = true).
      { intros b Hin. apply (proj1 (forallb_forall _ _) Hb) in Hin.
        destruct b as [b|ty fmt enum cst nv sv ik items ai mni mxi uq props req ap mnp mxp allo anyo oneo no ref dflt title];
          [discriminate|].
        destruct ref; [discriminate|]. destruct anyo; [discriminate|]. destruct oneo; [discriminate|].
        destruct allo; [discriminate|]. destruct no; [discriminate|].
        apply andb_true_iff in Hin. destruct Hin as [H1 H3].
        do 19 eexists. split; [reflexivity|]. split; assumption. }
      (* the instance is an object *)
      assert (Hobj : exists kvs, v = JObj kvs).
      { destruct L as [|b0 L']; [discriminate|].
        destruct (HB b0 (or_introl eq_refl))
          as (ty & fmt & enum & cst & nv & sv & ik & items & ai & mni & mxi & uq & props & req & ap & mnp & mxp & dflt & title & E & H1 & _).
        assert (Hv0 := Hv b0 (or_introl eq_refl)). rewrite E in Hv0. apply vx_parts in Hv0.
        destruct Hv0 as (Hty & _).
        destruct (ty_is_sound _ _ _ _ _ H1 Hty Hnn) as [ity [[<-|[]] Hok]].
        destruct v as [| | | | | |kvs]; try discriminate. exists kvs. reflexivity. }
      destruct Hobj as [kvs ->].
      destruct (struct_obj_sound (flat_map sch_props L) (flat_map sch_required L) None None ps false kvs) as [f Hf];
        try assumption; try exact I; try (intros; reflexivity).
      - apply Forall_forall. intros kv Hin. apply in_flat_map in Hin. destruct Hin as [b [Hin Hkv]].
        destruct (proj1 (Forall_forall _ _) HL b Hin) as [_ HK].
        destruct b as [b|ty fmt enum cst nv sv ik items ai mni mxi uq props req ap mnp mxp allo anyo oneo no ref dflt title];
          [destruct Hkv|].
        simpl in HK, Hkv. destruct HK as (_ & HKp & _). apply (proj1 (Forall_forall _ _) HKp kv Hkv).
      - unfold props_ok. apply forallb_forall. intros kv Hin. apply in_flat_map in Hin.
        destruct Hin as [b [Hin Hkv]].
        destruct (HB b Hin)
          as (ty & fmt & enum & cst & nv & sv & ik & items & ai & mni & mxi & uq & props & req & ap & mnp & mxp & dflt & title & E & _ & H3).
        subst b. simpl in Hkv. unfold props_ok in H3. apply (proj1 (forallb_forall _ _) H3 kv Hkv).
      - apply forallb_forall. intros p Hin. apply (proj1 (forallb_forall _ _) H4) in Hin.
        destruct (wire_name p) as [w|]; [|reflexivity].
        apply existsb_exists in Hin. destruct Hin as [b [Hin Hk]].
        eapply has_key_flat_map; eassumption.
      - destruct (flat_map_value T ps) as [[vt|]|]; try discriminate. reflexivity.
      - intros k sk x Hin _ Hx. apply in_flat_map in Hin. destruct Hin as [b [Hin Hkv]].
        destruct (HB b Hin)
          as (ty & fmt & enum & cst & nv & sv & ik & items & ai & mni & mxi & uq & props & req & ap & mnp & mxp & dflt & title & E & _ & _).
        assert (Hvb := Hv b Hin). subst b. simpl in Hkv. apply vx_parts in Hvb.
        destruct Hvb as (_ & _ & _ & _ & _ & _ & _ & _ & Ho & _).
        specialize (Ho kvs eq_refl). apply valid_obj_parts in Ho. destruct Ho as [Hp _].
        eapply Hp; eassumption.
      - intros a Ea. discriminate.
      - intros k Hin _. apply in_flat_map in Hin. destruct Hin as [b [Hin Hk]].
        destruct (HB b Hin)
          as (ty & fmt & enum & cst & nv & sv & ik & items & ai & mni & mxi & uq & props & req & ap & mnp & mxp & dflt & title & E & _ & _).
        assert (Hvb := Hv b Hin). subst b. simpl in Hk. apply vx_parts in Hvb.
        destruct Hvb as (_ & _ & _ & _ & _ & _ & Hol & _).
        unfold valid_obj_local in Hol. rewrite !andb_true_iff in Hol. destruct Hol as [[Hrq _] _].
        apply (proj1 (forallb_forall _ _) Hrq k Hk).
      - exists f, kvs. split; [reflexivity | exact Hf].
    Qed.

    (* ---------------------------------------------------------------- the whole node *)
    (* an assumed pair met at a "$ref" is accepted (outer induction hypothesis) *)
    Hypothesis Href : forall r t v, mem_pair A r t = true -> in_dom v = true ->
                                    refk_valid re_match fmt_ok draft07 D n r v = true ->
                                    exists f, de f t v <> None.

    Lemma go_sound ty fmt enum cst nv sv ik items ai mni mxi uq props req ap mnp mxp allo anyo oneo no ref dflt title :
      Forall (Pcov cov n) items -> Forall (fun kv => Pcov cov n (snd kv)) props -> OForall (Pcov cov n) ap ->
      OForall (Forall (fun b => Pcov cov n b /\ Pkids (Pcov cov n) b)) anyo ->
      OForall (Forall (fun b => Pcov cov n b /\ Pkids (Pcov cov n) b)) oneo ->
      OForall (Forall (fun b => Pcov cov n b /\ Pkids (Pcov cov n) b)) allo ->
      forall ft nn t v,
      go re_match native_ok T A cov ty fmt enum cst nv sv ik items mni mxi props req ap allo anyo oneo no ref ft nn t = true ->
      in_dom v = true -> (nn = true -> v <> JNull) ->
      vx n (SObj ty fmt enum cst nv sv ik items ai mni mxi uq props req ap mnp mxp allo anyo oneo no ref dflt title) v = true ->
      exists f, de f t v <> None.
    Proof.
      intros Hitems Hprops Hap Hany Hone Hallo.
      induction ft as [|ft IH]; intros nn t v Hc Hd Hnn Hv; [discriminate|].
      cbn [go] in Hc.
      destruct (get_det T t) as [d|] eqn:Ed; [|discriminate].
      destruct ref as [r|].
      - (* "$ref": draft-07 ignores the siblings *)
        destruct (mem_pair A r t) eqn:Em.
        + apply (Href r t v Em Hd). rewrite validx_SObj in Hv. exact Hv.
        + destruct (is_json_value d) eqn:Ej; [exists 1; eapply json_value_de; eassumption|].
          destruct (wrapper_of d) as [t'|] eqn:Ew.
          * destruct (IH nn t' v Hc Hd Hnn Hv) as [f Hf]. exists (S f). eapply wrapper_de; eassumption.
          * destruct (option_of d) as [t'|] eqn:Eo; [|discriminate].
            apply (option_de _ _ _ v Ed Eo). intros Hne. apply (IH true t' v Hc Hd (fun _ => Hne) Hv).
      - destruct (vacuous nn ty) eqn:Evac.
        { exfalso. apply vx_parts in Hv. destruct Hv as [Hty _]. eapply vacuous_sound; eassumption. }
        destruct (is_json_value d) eqn:Ej; [exists 1; eapply json_value_de; eassumption|].
        destruct (wrapper_of d) as [t'|] eqn:Ew.
        { destruct (IH nn t' v Hc Hd Hnn Hv) as [f Hf]. exists (S f). eapply wrapper_de; eassumption. }
        assert (Hparts := Hv). apply vx_parts in Hparts.
        destruct Hparts as (_ & _ & _ & _ & _ & _ & _ & _ & _ & Hva & Hvo & Hvall).
        destruct anyo as [bs|]; [destruct oneo as [bs'|]; [discriminate|] | destruct oneo as [bs|]].
        + eapply union_sound; try eassumption. apply Hva. reflexivity.
        + eapply union_sound; try eassumption. apply Hvo. reflexivity.
        + destruct allo as [L|].
          { (* allOf of objects against a struct *)
            destruct no; [discriminate|]. destruct d; try discriminate.
            edestruct allof_struct_sound as [f [kvs [-> Hf]]];
              [exact Hallo | exact Hc | exact Hd | exact Hnn | apply Hvall; reflexivity |].
            exists (S f). rewrite (de_at _ _ _ _ Ed). cbn [de_node]. unfold de_struct_body.
            rewrite option_map_ok. exact Hf. }
          destruct no; [discriminate|].
          destruct (option_of d) as [t'|] eqn:Eo.
          * apply (option_de _ _ _ v Ed Eo). intros Hne. apply (IH true t' v Hc Hd (fun _ => Hne) Hv).
          * destruct (cenum_of d) as [[t' vs]|] eqn:Ece; [|eapply leaf_sound; eassumption].
            apply andb_true_iff in Hc. destruct Hc as [Hc1 Hc2].
            destruct (IH nn t' v Hc2 Hd Hnn Hv) as [f Hf]. exists (S f).
            apply (cenum_de _ _ _ _ _ _ Ed Ece); [|exact Hf].
            apply vx_parts in Hv. destruct Hv as (_ & _ & Hen & _). eapply enum_ok_sound; eassumption.
    Qed.

    Lemma node_sound ty fmt enum cst nv sv ik items ai mni mxi uq props req ap mnp mxp allo anyo oneo no ref dflt title :
      Forall (Pcov cov n) items -> Forall (fun kv => Pcov cov n (snd kv)) props -> OForall (Pcov cov n) ap ->
      OForall (Forall (fun b => Pcov cov n b /\ Pkids (Pcov cov n) b)) anyo ->
      OForall (Forall (fun b => Pcov cov n b /\ Pkids (Pcov cov n) b)) oneo ->
      OForall (Forall (fun b => Pcov cov n b /\ Pkids (Pcov cov n) b)) allo ->
      Pcov (fun _ => covers_obj re_match native_ok T A cov ty fmt enum cst nv sv ik items mni mxi props req ap allo anyo oneo no ref)
           n (SObj ty fmt enum cst nv sv ik items ai mni mxi uq props req ap mnp mxp allo anyo oneo no ref dflt title).
    Proof.
      intros Hitems Hprops Hap Hany Hone Hallo nn tg v Hc Hd Hnn Hv.
      cbv beta in Hc. unfold covers_obj in Hc. apply orb_true_iff in Hc. destruct Hc as [Hc|Hc].
      { (* single-conjunct allOf *)
        destruct allo as [[|b [|b2 L]]|]; try discriminate. destruct ref; [discriminate|].
        simpl in Hallo. inversion Hallo as [|? ? [HPb _] _]. subst.
        apply (HPb nn tg v Hc Hd Hnn). apply vx_parts in Hv.
        destruct Hv as (_ & _ & _ & _ & _ & _ & _ & _ & _ & _ & _ & Hvall).
        apply (Hvall [b] eq_refl b). left. reflexivity. }
      destruct tg as [t|ps deny|ts].
      - eapply (go_sound ty fmt enum cst nv sv ik items ai mni mxi uq props req ap mnp mxp allo anyo oneo no ref dflt title);
          eassumption.
      - destruct ref; [discriminate|]. destruct anyo; [discriminate|]. destruct oneo; [discriminate|].
        destruct allo; [discriminate|]. destruct no; [discriminate|].
        eapply struct_sound; eassumption.
      - destruct ref; [discriminate|]. destruct anyo; [discriminate|]. destruct oneo; [discriminate|].
        destruct allo; [discriminate|]. destruct no; [discriminate|].
        edestruct tuple_case_sound as [f [l [-> Hf]]];
          [exact Hitems | exact Hc | exact Hd | exact Hnn | exact Hv |].
        exists f. simpl. rewrite option_map_ok. exact Hf.
    Qed.
  End Node.

  (* ---------------------------------------------------------------- tying the knot *)
  Local Notation cv := (covers re_match native_ok T A).

  Hypothesis Hall : covers_all re_match native_ok D T A = true.

  Lemma pair_discharged r t :
    mem_pair A r t = true -> exists s, resolve_ref D r = Some s /\ cv s false (TId t) = true.
  Proof.
    unfold mem_pair. intros H. apply existsb_exists in H. destruct H as [[r' t'] [Hin E]]. simpl in E.
    apply andb_true_iff in E. destruct E as [E1 E2]. apply ustr_eqb_eq in E1. apply N.eqb_eq in E2. subst r' t'.
    unfold covers_all in Hall. apply (proj1 (forallb_forall _ _) Hall) in Hin. simpl in Hin.
    destruct (resolve_ref D r) as [s|]; [|discriminate]. exists s. split; [reflexivity | exact Hin].
  Qed.

  (* outer induction: validity fuel; inner induction: the schema *)
  Theorem covers_core : forall n s, Pcov cv n s.
  Proof.
    induction n as [n IHn] using lt_wf_ind.
    assert (Href : forall r t v, mem_pair A r t = true -> in_dom v = true ->
                                 refk_valid re_match fmt_ok draft07 D n r v = true ->
                                 exists f, de f t v <> None).
    { intros r t v Hm Hd Hr. destruct (pair_discharged r t Hm) as [s [Es Hc]].
      unfold refk_valid in Hr. destruct n as [|m]; [discriminate|]. rewrite Es in Hr.
      apply (IHn m (Nat.lt_succ_diag_r m) s false (TId t) v Hc Hd); [discriminate | exact Hr]. }
    assert (Hdeep : forall s, Pcov cv n s /\ Pkids (Pcov cv n) s).
    { induction s as [b|ty fmt enum cst nv sv ik items ai mni mxi uq props req ap mnp mxp allo anyo oneo no ref dflt title
                        Hitems Hai Hprops Hap Hallo Hany Hone Hno] using schema_ind'.
      - split; [|exact I].
        intros nn tg v Hc Hd Hnn Hv. rewrite valid_SBool in Hv. subst b. simpl in Hc.
        destruct tg as [t| |]; try discriminate. exists (S FT). apply accepts_any_sound. exact Hc.
      - assert (Hitems' : Forall (Pcov cv n) items)
          by (revert Hitems; apply Forall_impl; intros a [H _]; exact H).
        assert (Hprops' : Forall (fun kv => Pcov cv n (snd kv)) props)
          by (revert Hprops; apply Forall_impl; intros a [H _]; exact H).
        assert (Hap' : OForall (Pcov cv n) ap) by (destruct ap; simpl in *; [exact (proj1 Hap) | exact I]).
        assert (Hany' : OForall (Forall (Pcov cv n)) anyo).
        { destruct anyo as [l|]; simpl in *; [|exact I].
          revert Hany; apply Forall_impl; intros a [H _]; exact H. }
        assert (Hone' : OForall (Forall (Pcov cv n)) oneo).
        { destruct oneo as [l|]; simpl in *; [|exact I].
          revert Hone; apply Forall_impl; intros a [H _]; exact H. }
        assert (Hallo' : OForall (Forall (Pcov cv n)) allo).
        { destruct allo as [l|]; simpl in *; [|exact I].
          revert Hallo; apply Forall_impl; intros a [H _]; exact H. }
        split.
        + intros nn tg v Hc.
          apply (node_sound cv n Href ty fmt enum cst nv sv ik items ai mni mxi uq props req ap mnp mxp
                            allo anyo oneo no ref dflt title Hitems' Hprops' Hap' Hany Hone Hallo nn tg v).
          exact Hc.
        + simpl. repeat split; assumption. }
    intros s. apply Hdeep.
  Qed.

  Theorem covers_sound_sec :
    forall r t, In (r, t) A ->
    forall v, in_dom v = true ->
    Valid re_match fmt_ok D (SRef r) v ->
    exists f, de f t v <> None.
  Proof.
    intros r t Hin v Hd [fuel [_ Hv]].
    destruct fuel as [|m].
    - unfold SRef in Hv. rewrite valid_ref_0 in Hv. discriminate.
    - change (valid re_match fmt_ok D (S m) (SRef r) v = true) in Hv. rewrite valid_ref in Hv.
      unfold covers_all in Hall. apply (proj1 (forallb_forall _ _) Hall) in Hin. simpl in Hin.
      destruct (resolve_ref D r) as [s|]; [|discriminate].
      apply (covers_core m s false (TId t) v Hin Hd); [discriminate | exact Hv].
  Qed.
End Sound.

(* THE theorem *)
Theorem covers_sound :
  forall re_match fmt_ok native_ok D T A,
    (forall f n s, In (f, n) format_native_table -> fmt_ok f s = true -> native_ok n s = true) ->
    covers_all re_match native_ok D T A = true ->
    forall r t, In (r, t) A ->
    forall v, in_dom v = true ->
    Valid re_match fmt_ok D (SRef r) v ->
    exists f, de re_match native_ok T f t v <> None.
Proof. exact covers_sound_sec. Qed.
