(* Proofs/ConvertProofs.v -- lemmas about Algo/Convert.v (the converter model):
   the conversion never fails on the fragment (convert_total) and the C02
   validator Check/Covers.v answers `true` on the type space it produces, for
   every document of the fragment (convert_covers).  Statements used by
   Props/C02F.v are at the end. *)
From Coq Require Import String ZArith NArith QArith List Bool Lia Permutation.
From Typify Require Import Base.Json Spec.Schema Spec.Valid IR.TypeIR IR.Serde Check.Covers.
From Typify Require Import Proofs.SerdeProofs Proofs.CoversProofs.
From Typify Require Algo.Heck Algo.Sanitize Proofs.SanitizeProofs.
From Typify Require Import Algo.Convert.
Import ListNotations.
Close Scope Q_scope.
Close Scope string_scope.
Open Scope list_scope.
Open Scope N_scope.

(* ------------------------------------------------------------------ basics *)
Lemma lookup_put i j e l :
  lookup_id i (put j e l) = if i =? j then Some e else lookup_id i l.
Proof.
  induction l as [|[k x] r IH]; cbn [put lookup_id].
  - reflexivity.
  - destruct (j <? k) eqn:Hlt.
    + cbn [lookup_id]. reflexivity.
    + destruct (j =? k) eqn:Heq.
      * cbn [lookup_id]. apply N.eqb_eq in Heq. subst k.
        destruct (i =? j); reflexivity.
      * cbn [lookup_id]. rewrite IH.
        destruct (i =? k) eqn:Hik; [|reflexivity].
        apply N.eqb_eq in Hik. subst k.
        destruct (i =? j) eqn:Hij; [|reflexivity].
        apply N.eqb_eq in Hij. subst j. rewrite N.eqb_refl in Heq. discriminate.
Qed.

Lemma ids_eqb_eq a : forall b, ids_eqb a b = true -> a = b.
Proof.
  induction a as [|x a IH]; destruct b as [|y b]; cbn [ids_eqb]; intro H; try discriminate; [reflexivity|].
  apply andb_true_iff in H. destruct H as [H1 H2]. apply N.eqb_eq in H1. subst. f_equal. apply IH. exact H2.
Qed.

Lemma traits_eqb_eq a : forall b, traits_eqb a b = true -> a = b.
Proof.
  induction a as [|x a IH]; destruct b as [|y b]; cbn [traits_eqb]; intro H; try discriminate; [reflexivity|].
  apply andb_true_iff in H. destruct H as [H1 H2]. f_equal; [destruct x, y; try discriminate; reflexivity|apply IH; exact H2].
Qed.

Lemma udet_eqb_eq a b : udet_eqb a b = true -> a = b.
Proof.
  destruct a, b; cbn [udet_eqb]; intro H; try discriminate; try reflexivity.
  - apply andb_true_iff in H. destruct H as [H H3]. apply andb_true_iff in H. destruct H as [H1 H2].
    apply ustr_eqb_eq in H1. apply traits_eqb_eq in H2. apply ids_eqb_eq in H3. subst. reflexivity.
  - apply N.eqb_eq in H. subst. reflexivity.
  - apply N.eqb_eq in H. subst. reflexivity.
  - apply andb_true_iff in H. destruct H as [H1 H2].
    apply N.eqb_eq in H1. apply N.eqb_eq in H2. subst. reflexivity.
  - apply N.eqb_eq in H. subst. reflexivity.
  - apply andb_true_iff in H. destruct H as [H1 H2].
    apply N.eqb_eq in H1. apply N.eqb_eq in H2. subst. reflexivity.
  - apply ids_eqb_eq in H. subst. reflexivity.
  - apply ustr_eqb_eq in H. subst. reflexivity.
  - apply ustr_eqb_eq in H. subst. reflexivity.
Qed.

Lemma find_type_In d l i : find_type d l = Some i -> In (d, i) l.
Proof.
  induction l as [|[d' j] r IH]; cbn [find_type]; [discriminate|].
  destruct (udet_eqb d d') eqn:E.
  - intro H. injection H as ->. apply udet_eqb_eq in E. subst. left. reflexivity.
  - intro H. right. apply IH. exact H.
Qed.

Lemma assoc_None_notin {X} k (l : list (ustring * X)) :
  assoc k l = None <-> ~ In k (map fst l).
Proof.
  induction l as [|[k' x] r IH]; cbn [assoc map fst In].
  - split; [intros _ H; exact H|reflexivity].
  - destruct (ustr_eqb k k') eqn:E.
    + apply ustr_eqb_eq in E. subst. split; [discriminate|]. intro H. exfalso. apply H. left. reflexivity.
    + rewrite IH. split.
      * intros H [H1|H1]; [|exact (H H1)]. subst. rewrite ustr_eqb_refl in E. discriminate.
      * intros H H1. apply H. right. exact H1.
Qed.

(* ------------------------------------------------------------------ ordering of keys *)
Lemma ultb_irrefl a : ustr_ltb a a = false.
Proof.
  induction a as [|x a IH]; cbn [ustr_ltb]; [reflexivity|].
  rewrite N.ltb_irrefl, N.eqb_refl, IH. reflexivity.
Qed.

Lemma ultb_trans a : forall b c, ustr_ltb a b = true -> ustr_ltb b c = true -> ustr_ltb a c = true.
Proof.
  induction a as [|x a IH]; destruct b as [|y b]; destruct c as [|z c]; cbn [ustr_ltb];
    intros H1 H2; try discriminate; try reflexivity.
  apply orb_true_iff in H1. apply orb_true_iff in H2. apply orb_true_iff.
  destruct H1 as [H1|H1]; destruct H2 as [H2|H2].
  - left. apply N.ltb_lt in H1. apply N.ltb_lt in H2. apply N.ltb_lt. lia.
  - apply andb_true_iff in H2. destruct H2 as [H2 _]. apply N.eqb_eq in H2. subst. left. exact H1.
  - apply andb_true_iff in H1. destruct H1 as [H1 _]. apply N.eqb_eq in H1. subst. left. exact H2.
  - apply andb_true_iff in H1. destruct H1 as [H1 H1']. apply andb_true_iff in H2. destruct H2 as [H2 H2'].
    apply N.eqb_eq in H1. apply N.eqb_eq in H2. subst. right. rewrite N.eqb_refl. cbn [andb].
    exact (IH _ _ H1' H2').
Qed.

Lemma keys_sorted_lt a l : keys_sorted (a :: l) = true -> forall b, In b l -> ustr_ltb a b = true.
Proof.
  revert a. induction l as [|x l IH]; intros a H b Hb; [destruct Hb|].
  cbn [keys_sorted] in H. apply andb_true_iff in H. destruct H as [H1 H2].
  destruct Hb as [->|Hb]; [exact H1|].
  apply (ultb_trans a x b H1). apply IH; assumption.
Qed.

Lemma keys_sorted_tl a l : keys_sorted (a :: l) = true -> keys_sorted l = true.
Proof.
  destruct l as [|b l]; [reflexivity|]. cbn [keys_sorted]. intro H.
  apply andb_true_iff in H. exact (proj2 H).
Qed.

Lemma keys_sorted_NoDup l : keys_sorted l = true -> NoDup l.
Proof.
  induction l as [|a l IH]; intro H; [constructor|].
  constructor.
  - intro Hin. pose proof (keys_sorted_lt a l H a Hin) as E. rewrite ultb_irrefl in E. discriminate.
  - apply IH. exact (keys_sorted_tl a l H).
Qed.

Lemma nodup_ustr_NoDup l : NoDup l -> nodup_ustr l = true.
Proof.
  induction 1 as [|x l Hx Hl IH]; cbn [nodup_ustr]; [reflexivity|].
  rewrite IH, andb_true_r. apply negb_true_iff.
  destruct (mem_ustr x l) eqn:E; [|reflexivity]. apply mem_ustr_In in E. contradiction.
Qed.

Lemma unique_true_iff l : Sanitize.unique l = true <-> NoDup l.
Proof.
  split; [apply SanitizeProofs.NoDup_by_unique|].
  intro H. destruct (Sanitize.unique l) eqn:E; [reflexivity|].
  exfalso. exact (SanitizeProofs.dup_by_unique l E H).
Qed.

(* ------------------------------------------------------------------ sorting the members *)
Lemma ins_prop_perm p l : Permutation (ins_prop p l) (p :: l).
Proof.
  induction l as [|q r IH]; cbn [ins_prop]; [apply Permutation_refl|].
  destruct (ustr_ltb (p_name q) (p_name p)).
  - eapply Permutation_trans; [apply perm_skip; exact IH|]. apply perm_swap.
  - apply Permutation_refl.
Qed.

Lemma sort_props_perm l : Permutation (sort_props l) l.
Proof.
  induction l as [|p l IH]; cbn [sort_props fold_right]; [apply Permutation_refl|].
  eapply Permutation_trans; [apply ins_prop_perm|]. apply perm_skip. exact IH.
Qed.

(* ------------------------------------------------------------------ state invariants *)
Definition lk (s : st) (i : id) : option entry := lookup_id i (st_ents s).

(* id_to_entry is a BTreeMap: keys strictly increasing *)
Fixpoint ksorted (l : list (id * entry)) : Prop :=
  match l with
  | [] => True
  | (k, _) :: r => (forall j, In j (map fst r) -> k < j) /\ ksorted r
  end.

Lemma put_keys j e l x : In x (map fst (put j e l)) -> x = j \/ In x (map fst l).
Proof.
  induction l as [|[k y] r IH]; cbn [put map fst In].
  - intros [H|[]]. left. symmetry. exact H.
  - destruct (j <? k); [cbn [map fst In]; intros [H|H]; [left; symmetry; exact H|right; exact H]|].
    destruct (j =? k) eqn:E.
    + apply N.eqb_eq in E. subst. cbn [map fst In]. intros [H|H]; [left; symmetry; exact H|right; right; exact H].
    + cbn [map fst In]. intros [H|H]; [right; left; exact H|]. destruct (IH H) as [H'|H']; [left; exact H'|right; right; exact H'].
Qed.

Lemma put_sorted j e l : ksorted l -> ksorted (put j e l).
Proof.
  induction l as [|[k y] r IH]; cbn [put ksorted]; [intros _; split; [intros x []|exact I]|].
  intros [H1 H2]. destruct (j <? k) eqn:Elt.
  - apply N.ltb_lt in Elt. cbn [ksorted map fst]. split; [|split; assumption].
    intros x [<-|Hx]; [exact Elt|]. pose proof (H1 x Hx). lia.
  - apply N.ltb_ge in Elt. destruct (j =? k) eqn:E.
    + apply N.eqb_eq in E. subst. cbn [ksorted]. split; assumption.
    + apply N.eqb_neq in E. cbn [ksorted]. split; [|exact (IH H2)].
      intros x Hx. destruct (put_keys j e r x Hx) as [->|Hx']; [lia|exact (H1 x Hx')].
Qed.

Lemma ksorted_NoDup l : ksorted l -> NoDup (map fst l).
Proof.
  induction l as [|[k y] r IH]; cbn [ksorted map fst]; [intros _; constructor|].
  intros [H1 H2]. constructor; [|exact (IH H2)]. intro Hin. pose proof (H1 k Hin). lia.
Qed.

Record wf (s : st) : Prop := {
  wf_lt : forall i e, lk s i = Some e -> i < st_next s;
  wf_types : forall d i, In (d, i) (st_types s) -> lk s i = Some (mkEntry d []);
  wf_sorted : ksorted (st_ents s) }.

(* nothing below the old next id changes *)
Definition frame (s s' : st) : Prop :=
  st_next s <= st_next s' /\ forall i, i < st_next s -> lk s' i = lk s i.

Definition nkeys (s : st) : list ustring := map fst (st_names s).

(* the names registered between s and s' are among L *)
Definition names_sub (s s' : st) (L : list ustring) : Prop :=
  forall n, In n (nkeys s') -> In n (nkeys s) \/ In n L.

Lemma frame_refl s : frame s s.
Proof. split; [lia|reflexivity]. Qed.

Lemma frame_trans a b c : frame a b -> frame b c -> frame a c.
Proof.
  intros [H1 H2] [H3 H4]. split; [lia|].
  intros i Hi. rewrite H4 by lia. apply H2. exact Hi.
Qed.

Lemma names_sub_refl s L : names_sub s s L.
Proof. intros n H. left. exact H. Qed.

Lemma names_sub_trans a b c L1 L2 :
  names_sub a b L1 -> names_sub b c L2 -> names_sub a c (L1 ++ L2).
Proof.
  intros H1 H2 n Hn. destruct (H2 n Hn) as [H|H].
  - destruct (H1 n H) as [H'|H']; [left; exact H'|right; apply in_or_app; left; exact H'].
  - right. apply in_or_app. right. exact H.
Qed.

Lemma names_sub_weaken a b L L' : names_sub a b L -> incl L L' -> names_sub a b L'.
Proof. intros H Hi n Hn. destruct (H n Hn) as [H'|H']; [left|right; apply Hi]; exact H'. Qed.

Lemma frame_keeps s s' i e : wf s -> frame s s' -> lk s i = Some e -> lk s' i = Some e.
Proof.
  intros Hw [_ Hf] H. rewrite Hf; [exact H|]. exact (wf_lt s Hw i e H).
Qed.

(* what `assign` promises about the returned id *)
Definition realizes (look : id -> option entry) (t : id) (te : details) : Prop :=
  match te with
  | DReference r => t = r
  | _ => look t = Some (mkEntry te [])
  end.

Lemma set_json_lk s i : lk (set_json s) i = lk s i.
Proof. reflexivity. Qed.

Lemma wf_set_json s : wf s -> wf (set_json s).
Proof. intros [H1 H2 H3]. split; [exact H1|exact H2|exact H3]. Qed.

Lemma wf_fresh_entry s i te names types :
  wf s -> i = st_next s ->
  (forall d j, In (d, j) types -> (d = te /\ j = i) \/ In (d, j) (st_types s)) ->
  wf (mkSt (i + 1) (put i (mkEntry te []) (st_ents s)) names types (st_flags s)).
Proof.
  intros Hw -> Hty. split.
  - intros j e. unfold lk. cbn [st_ents st_next]. rewrite lookup_put.
    destruct (j =? st_next s) eqn:E.
    + apply N.eqb_eq in E. subst. intros _. lia.
    + intro H. pose proof (wf_lt s Hw j e H). lia.
  - intros d j Hin. unfold lk. cbn [st_ents st_types] in *. rewrite lookup_put.
    destruct (Hty d j Hin) as [[-> ->]|Hin'].
    + rewrite N.eqb_refl. reflexivity.
    + pose proof (wf_types s Hw d j Hin') as H.
      pose proof (wf_lt s Hw j _ H) as Hlt.
      destruct (j =? st_next s) eqn:E; [apply N.eqb_eq in E; lia|]. exact H.
  - cbn [st_ents]. apply put_sorted. exact (wf_sorted s Hw).
Qed.

Lemma frame_fresh_entry s te names types :
  wf s ->
  frame s (mkSt (st_next s + 1) (put (st_next s) (mkEntry te []) (st_ents s)) names types (st_flags s)).
Proof.
  intro Hw. split; [cbn [st_next]; lia|].
  intros i Hi. unfold lk. cbn [st_ents]. rewrite lookup_put.
  destruct (i =? st_next s) eqn:E; [apply N.eqb_eq in E; lia|reflexivity].
Qed.

Lemma assign_ok te s t s' :
  assign te s = (t, s') -> wf s ->
  (forall n, det_name te = Some n -> ~ In n (nkeys s)) ->
  wf s' /\ frame s s' /\ realizes (lk s') t te /\ st_flags s' = st_flags s /\
  names_sub s s' (match det_name te with Some n => [n] | None => [] end).
Proof.
  intros Ha Hw Hfresh.
  assert (Hgen : forall te0, te0 = te ->
    (match det_name te0 with
     | Some n =>
         match assoc n (st_names s) with
         | Some i => (i, s)
         | None => (st_next s, mkSt (st_next s + 1) (put (st_next s) (mkEntry te0 []) (st_ents s))
                                    ((n, st_next s) :: st_names s) (st_types s) (st_flags s))
         end
     | None =>
         match find_type te0 (st_types s) with
         | Some i => (i, s)
         | None => (st_next s, mkSt (st_next s + 1) (put (st_next s) (mkEntry te0 []) (st_ents s)) (st_names s)
                                    ((te0, st_next s) :: st_types s) (st_flags s))
         end
     end) = (t, s') ->
    wf s' /\ frame s s' /\ lk s' t = Some (mkEntry te []) /\ st_flags s' = st_flags s /\
    names_sub s s' (match det_name te with Some n => [n] | None => [] end)).
  { intros te0 -> H.
    destruct (det_name te) as [n|] eqn:Hn.
    - pose proof (Hfresh n eq_refl) as Hf. apply assoc_None_notin in Hf. rewrite Hf in H.
      injection H as <- <-. split; [|split; [|split; [|split]]].
      + apply wf_fresh_entry; [exact Hw|reflexivity|]. intros d j Hin. right. exact Hin.
      + apply frame_fresh_entry. exact Hw.
      + unfold lk. cbn [st_ents]. rewrite lookup_put, N.eqb_refl. reflexivity.
      + reflexivity.
      + intros m Hm. unfold nkeys in Hm. cbn [st_names map fst] in Hm.
        destruct Hm as [<-|Hm]; [right; left; reflexivity|left; exact Hm].
    - destruct (find_type te (st_types s)) as [i|] eqn:Hft.
      + injection H as <- <-. split; [exact Hw|]. split; [apply frame_refl|]. split.
        * apply (wf_types s Hw). apply find_type_In. exact Hft.
        * split; [reflexivity|apply names_sub_refl].
      + injection H as <- <-. split; [|split; [|split; [|split]]].
        * apply wf_fresh_entry; [exact Hw|reflexivity|]. intros d j [Hin|Hin].
          -- injection Hin as <- <-. left. split; reflexivity.
          -- right. exact Hin.
        * apply frame_fresh_entry. exact Hw.
        * unfold lk. cbn [st_ents]. rewrite lookup_put, N.eqb_refl. reflexivity.
        * reflexivity.
        * intros m Hm. left. exact Hm. }
  destruct te; cbn [assign] in Ha;
    try (destruct (Hgen _ eq_refl Ha) as (H1 & H2 & H3 & H4 & H5);
         split; [exact H1|split; [exact H2|split; [exact H3|split; [exact H4|exact H5]]]]).
  (* DReference *)
  injection Ha as <- <-. split; [exact Hw|]. split; [apply frame_refl|]. split; [reflexivity|].
  split; [reflexivity|apply names_sub_refl].
Qed.

(* ------------------------------------------------------------------ small list facts *)
Lemma Forall2_In_l {X Y} (R : X -> Y -> Prop) l l' x :
  Forall2 R l l' -> In x l -> exists y, In y l' /\ R x y.
Proof.
  induction 1 as [|a b l l' Hab _ IH]; intro Hin; [destruct Hin|].
  destruct Hin as [->|Hin].
  - exists b. split; [left; reflexivity|exact Hab].
  - destruct (IH Hin) as (y & Hy & Hr). exists y. split; [right; exact Hy|exact Hr].
Qed.

Lemma Forall2_In_r {X Y} (R : X -> Y -> Prop) l l' y :
  Forall2 R l l' -> In y l' -> exists x, In x l /\ R x y.
Proof.
  induction 1 as [|a b l l' Hab _ IH]; intro Hin; [destruct Hin|].
  destruct Hin as [->|Hin].
  - exists a. split; [left; reflexivity|exact Hab].
  - destruct (IH Hin) as (x & Hx & Hr). exists x. split; [right; exact Hx|exact Hr].
Qed.

Lemma Forall2_weaken {X Y} (R R' : X -> Y -> Prop) l l' :
  (forall x y, R x y -> R' x y) -> Forall2 R l l' -> Forall2 R' l l'.
Proof. intros H. induction 1; constructor; auto. Qed.

Lemma map_fst_combine {X Y} (l : list X) (l' : list Y) :
  length l = length l' -> map fst (combine l l') = l.
Proof.
  revert l'. induction l as [|a l IH]; destruct l' as [|b l']; cbn; intro H; try discriminate; [reflexivity|].
  f_equal. apply IH. injection H as H. exact H.
Qed.

Lemma filter_none {X} (f : X -> bool) l : (forall x, In x l -> f x = false) -> filter f l = [].
Proof.
  induction l as [|a l IH]; intro H; [reflexivity|]. cbn [filter].
  rewrite (H a (or_introl eq_refl)). apply IH. intros x Hx. apply H. right. exact Hx.
Qed.

Lemma NoDup_app_l {X} (l l' : list X) : NoDup (l ++ l') -> NoDup l.
Proof.
  induction l as [|a l IH]; intro H; [constructor|]. cbn in H. inversion H as [|? ? Ha Hl]; subst.
  constructor; [|apply IH; exact Hl]. intro Hin. apply Ha. apply in_or_app. left. exact Hin.
Qed.

Lemma NoDup_app_r {X} (l l' : list X) : NoDup (l ++ l') -> NoDup l'.
Proof.
  induction l as [|a l IH]; intro H; [exact H|]. cbn in H. inversion H; subst. apply IH. assumption.
Qed.

Lemma NoDup_app_disj {X} (l l' : list X) x : NoDup (l ++ l') -> In x l -> In x l' -> False.
Proof.
  induction l as [|a l IH]; intros H Hl Hl'; [destruct Hl|]. cbn in H. inversion H as [|? ? Ha Hnd]; subst.
  destruct Hl as [->|Hl]; [apply Ha; apply in_or_app; right; exact Hl'|exact (IH Hnd Hl Hl')].
Qed.

(* ------------------------------------------------------------------ struct members: wire names *)
Lemma wire_names_cons p l :
  wire_names (p :: l) = match wire_name p with Some w => w :: wire_names l | None => wire_names l end.
Proof. reflexivity. Qed.

Lemma wire_names_perm l l' : Permutation l l' -> Permutation (wire_names l) (wire_names l').
Proof.
  induction 1 as [|p l l' _ IH|p q l|l l' l'' _ IH1 _ IH2].
  - apply Permutation_refl.
  - rewrite !wire_names_cons. destruct (wire_name p); [apply perm_skip|]; exact IH.
  - rewrite !wire_names_cons. destruct (wire_name p), (wire_name q);
      try apply Permutation_refl. apply perm_swap.
  - eapply Permutation_trans; eassumption.
Qed.

Lemma wire_names_map (props : list (ustring * schema)) ps :
  Forall2 (fun kv p => wire_name p = Some (fst kv)) props ps -> wire_names ps = map fst props.
Proof.
  induction 1 as [|kv p l l' H _ IH]; [reflexivity|].
  rewrite wire_names_cons, H, IH. reflexivity.
Qed.

Lemma wire_names_In p l w : In p l -> wire_name p = Some w -> In w (wire_names l).
Proof.
  induction l as [|q l IH]; intros Hin Hw; [destruct Hin|]. rewrite wire_names_cons.
  destruct Hin as [->|Hin].
  - rewrite Hw. left. reflexivity.
  - destruct (wire_name q); [right|]; apply IH; assumption.
Qed.

Lemma find_wire k l p :
  NoDup (wire_names l) -> In p l -> wire_name p = Some k -> find_prop_by_wire k l = Some p.
Proof.
  induction l as [|q l IH]; intros Hnd Hin Hw; [destruct Hin|].
  cbn [find_prop_by_wire]. rewrite wire_names_cons in Hnd.
  destruct Hin as [->|Hin].
  - rewrite Hw, ustr_eqb_refl. reflexivity.
  - destruct (wire_name q) as [w'|] eqn:Hq.
    + inversion Hnd as [|? ? Hni Hnd']; subst.
      destruct (ustr_eqb k w') eqn:E.
      * apply ustr_eqb_eq in E. subst. exfalso. apply Hni. eapply wire_names_In; eassumption.
      * apply IH; assumption.
    + apply IH; assumption.
Qed.

(* ------------------------------------------------------------------ types *)
Lemma split_type_cases l nl tt :
  split_type l = Some (nl, tt) ->
  (nl = false /\ l = [tt]) \/ (nl = true /\ tt <> TNull /\ (l = [tt; TNull] \/ l = [TNull; tt])).
Proof.
  destruct l as [|a [|b [|c l]]]; cbn [split_type]; try discriminate.
  - intro H. injection H as <- <-. left. split; reflexivity.
  - destruct a, b; intro H; try discriminate; injection H as <- <-; right;
      (split; [reflexivity|split; [discriminate|]]); ((left; reflexivity) || (right; reflexivity)).
Qed.

Lemma ty_is_split l nl tt nn want :
  split_type l = Some (nl, tt) -> (nl = true -> nn = true) -> tt <> TNull ->
  existsb (itype_eqb tt) want = true ->
  ty_is nn (Some l) want = true.
Proof.
  intros Hs Hnn Hnull Hw.
  destruct (split_type_cases l nl tt Hs) as [[-> ->]|(-> & _ & [->| ->])].
  - destruct nn; destruct tt; try congruence; unfold ty_is, ty_eff; cbn; rewrite Hw; reflexivity.
  - rewrite (Hnn eq_refl). destruct tt; try congruence; unfold ty_is, ty_eff; cbn; rewrite Hw; reflexivity.
  - rewrite (Hnn eq_refl). destruct tt; try congruence; unfold ty_is, ty_eff; cbn; rewrite Hw; reflexivity.
Qed.

(* ------------------------------------------------------------------ string enums *)
Lemma jstrs_map es raws : jstrs es = Some raws -> es = map JStr raws.
Proof.
  revert raws. induction es as [|e es IH]; intros raws H; cbn [jstrs] in H.
  - injection H as <-. reflexivity.
  - destruct e; try discriminate. destruct (jstrs es) as [r|]; [|discriminate].
    cbn in H. injection H as <-. cbn [map]. f_equal. apply IH. reflexivity.
Qed.

Lemma find_variant_simple vs x i0 :
  (forall v, In v vs -> v_det v = VSimple) -> In x (map v_raw vs) ->
  exists i v, find_variant x vs i0 = Some (i, v) /\ v_det v = VSimple.
Proof.
  revert i0. induction vs as [|v vs IH]; intros i0 Hs Hin; [destruct Hin|].
  cbn [find_variant]. destruct (ustr_eqb x (v_raw v)) eqn:E.
  - exists i0, v. split; [reflexivity|]. apply Hs. left. reflexivity.
  - destruct Hin as [Hin|Hin].
    + subst x. rewrite ustr_eqb_refl in E. discriminate.
    + apply IH; [|exact Hin]. intros v' Hv'. apply Hs. right. exact Hv'.
Qed.

Lemma variant_idents_length cls raws ids :
  Sanitize.variant_idents cls raws = Sanitize.Ok ids -> length ids = length raws.
Proof.
  unfold Sanitize.variant_idents.
  destruct (Sanitize.unique _).
  - intro H. injection H as <-. apply map_length.
  - destruct (Sanitize.unique _); [|discriminate]. intro H. injection H as <-. apply map_length.
Qed.

(* ------------------------------------------------------------------ unfolding the validator *)
Section Go.
  Variable re native : ustring -> ustring -> bool.
  Variable T : space.
  Variable A : list (ustring * id).
  Variable cov : schema -> bool -> target -> bool.
  Variable ty : option (list itype).
  Variable fmt : option ustring.
  Variable enum : option (list json).
  Variable cst : option json.
  Variable nv : numv.
  Variable sv : strv.
  Variable ik : items_kind.
  Variable items : list schema.
  Variable mni mxi : option N.
  Variable props : list (ustring * schema).
  Variable req : list ustring.
  Variable ap : option schema.
  Variable ref : option ustring.

  Local Notation G := (go re native T A cov ty fmt enum cst nv sv ik items mni mxi props req ap None None None None ref).

  Lemma go_S ft nn t d :
    get_det T t = Some d ->
    G (S ft) nn t =
    (if match ref with Some r => mem_pair A r t | None => false end then true else
     if match ref with None => vacuous nn ty | Some _ => false end then true else
     if is_json_value d then true else
     match wrapper_of d with
     | Some t' => G ft nn t'
     | None =>
       match ref with
       | Some _ => match option_of d with Some t' => G ft true t' | None => false end
       | None =>
          match option_of d with
          | Some t' => G ft true t'
          | None => match cenum_of d with
                    | Some (t', vs) => enum_ok enum vs && G ft nn t'
                    | None => leaf_ok re native T cov ty fmt enum nv sv ik items mni mxi props req ap nn d
                    end
          end
       end
     end).
  Proof. intros H. cbn [go]. rewrite H. reflexivity. Qed.

  Lemma go_leaf ft nn t d :
    get_det T t = Some d -> ref = None ->
    wrapper_of d = None -> option_of d = None -> cenum_of d = None ->
    leaf_ok re native T cov ty fmt enum nv sv ik items mni mxi props req ap nn d = true ->
    G (S ft) nn t = true.
  Proof.
    intros Hd Hr Hw Ho Hc Hl. rewrite (go_S ft nn t d Hd), Hr, Hw, Ho, Hc, Hl.
    destruct (vacuous nn ty); [reflexivity|]. destruct (is_json_value d); reflexivity.
  Qed.

  Lemma go_vacuous ft nn t d :
    get_det T t = Some d -> ref = None -> vacuous nn ty = true -> G (S ft) nn t = true.
  Proof. intros Hd Hr Hv. rewrite (go_S ft nn t d Hd), Hr, Hv. reflexivity. Qed.

  Lemma go_option ft nn t i :
    get_det T t = Some (DOption i) -> G ft true i = true -> G (S ft) nn t = true.
  Proof.
    intros Hd Hi. rewrite (go_S ft nn t _ Hd). cbn [is_json_value wrapper_of option_of].
    rewrite Hi. destruct ref.
    - destruct (mem_pair A u t); reflexivity.
    - destruct (vacuous nn ty); reflexivity.
  Qed.

  Lemma go_newtype ft nn t n dv i :
    get_det T t = Some (DNewtype n dv i CNone) -> G ft nn i = true -> G (S ft) nn t = true.
  Proof.
    intros Hd Hi. rewrite (go_S ft nn t _ Hd). cbn [is_json_value wrapper_of].
    rewrite Hi. destruct ref.
    - destruct (mem_pair A u t); reflexivity.
    - destruct (vacuous nn ty); reflexivity.
  Qed.

  Lemma go_json ft nn t :
    get_det T t = Some DJsonValue -> G (S ft) nn t = true.
  Proof.
    intros Hd. rewrite (go_S ft nn t _ Hd). cbn [is_json_value]. destruct ref.
    - destruct (mem_pair A u t); reflexivity.
    - destruct (vacuous nn ty); reflexivity.
  Qed.

  Lemma go_ref ft nn t d r :
    get_det T t = Some d -> ref = Some r -> mem_pair A r t = true -> G (S ft) nn t = true.
  Proof. intros Hd Hr Hm. rewrite (go_S ft nn t d Hd), Hr, Hm. reflexivity. Qed.

  (* with a "oneOf" *)
  Local Notation G1 oneo := (go re native T A cov ty fmt enum cst nv sv ik items mni mxi props req ap None None oneo None ref).
  Local Notation G2 anyo oneo := (go re native T A cov ty fmt enum cst nv sv ik items mni mxi props req ap None anyo oneo None ref).

  Lemma go_newtype_any anyo oneo ft nn t n dv i :
    get_det T t = Some (DNewtype n dv i CNone) -> G2 anyo oneo ft nn i = true -> G2 anyo oneo (S ft) nn t = true.
  Proof.
    intros Hd Hi. cbn [go]. rewrite Hd. cbn [is_json_value wrapper_of]. rewrite Hi. destruct ref.
    - destruct (mem_pair A u t); reflexivity.
    - destruct (vacuous nn ty); reflexivity.
  Qed.

  Lemma go_union bs ft nn t d :
    get_det T t = Some d -> ref = None -> wrapper_of d = None ->
    union_ok re native T cov ty enum cst None None nn d bs = true ->
    G1 (Some bs) (S ft) nn t = true.
  Proof.
    intros Hd Hr Hw Hu. cbn [go]. rewrite Hd, Hr, Hw, Hu.
    destruct (vacuous nn ty); [reflexivity|]. destruct (is_json_value d); reflexivity.
  Qed.
  Lemma go_swap allo no bs : forall ft nn t,
    go re native T A cov ty fmt enum cst nv sv ik items mni mxi props req ap allo (Some bs) None no ref ft nn t =
    go re native T A cov ty fmt enum cst nv sv ik items mni mxi props req ap allo None (Some bs) no ref ft nn t.
  Proof.
    induction ft as [|ft IH]; intros nn t; [reflexivity|]. cbn [go].
    destruct (get_det T t) as [d|]; [|reflexivity].
    destruct (match ref with Some r => mem_pair A r t | None => false end); [reflexivity|].
    destruct (match ref with None => vacuous nn ty | Some _ => false end); [reflexivity|].
    destruct (is_json_value d); [reflexivity|].
    destruct (wrapper_of d); [apply IH|].
    destruct ref; [destruct (option_of d); [apply IH|reflexivity]|]. reflexivity.
  Qed.
End Go.

Lemma accepts_any_json T ft t : get_det T t = Some DJsonValue -> accepts_any T (S ft) t = true.
Proof. intro H. cbn [accepts_any]. rewrite H. reflexivity. Qed.

(* ------------------------------------------------------------------ boolean tests of the classifier *)
Lemma is_none_true {X} (o : option X) : is_none o = true -> o = None.
Proof. destruct o; [discriminate|reflexivity]. Qed.
Lemma is_nil_true {X} (l : list X) : is_nil l = true -> l = [].
Proof. destruct l; [reflexivity|discriminate]. Qed.
Lemma numv_is_none_true nv : numv_is_none nv = true -> nv = numv_none.
Proof. destruct nv as [[|] [|] [|] [|] [|]]; try discriminate. reflexivity. Qed.
Lemma strv_is_none_true sv : strv_is_none sv = true -> sv = strv_none.
Proof. destruct sv as [[|] [|] [|]]; try discriminate. reflexivity. Qed.
Lemma seq_kind_inv mni mxi uq c : seq_kind mni mxi uq = Some c ->
  match c with
  | CArr n => mni = Some n /\ mxi = Some n
  | _ => len_plain mni mxi = true
  end.
Proof.
  unfold seq_kind, len_plain. destruct mni as [a|], mxi as [b|];
    try (intro H; injection H as <-; destruct uq; reflexivity).
  destruct (a =? b) eqn:E.
  - destruct (_ && _); [|discriminate]. intro H. injection H as <-. apply N.eqb_eq in E. subst. split; reflexivity.
  - intro H. injection H as <-. destruct uq; reflexivity.
Qed.

Lemma tuple_len_inv items mni mxi uq : tuple_len_ok items mni mxi uq = true ->
  mni = Some (N.of_nat (length items)) /\ mxi = Some (N.of_nat (length items)).
Proof.
  unfold tuple_len_ok. destruct mni as [a|], mxi as [b|]; try discriminate. intro H.
  repeat (apply andb_true_iff in H; destruct H as [H ?]). apply N.eqb_eq in H.
  match goal with X : (b =? a) = true |- _ => apply N.eqb_eq in X; subst b end. subst a. split; reflexivity.
Qed.

Lemma items_absent_true ik : items_absent ik = true -> ik = ItemsAbsent.
Proof. destruct ik; try discriminate. reflexivity. Qed.

Ltac bool_facts :=
  repeat match goal with
  | H : _ && _ = true |- _ => apply andb_true_iff in H; destruct H
  | H : is_none _ = true |- _ => apply is_none_true in H
  | H : is_nil _ = true |- _ => apply is_nil_true in H
  | H : no_num _ = true |- _ => apply numv_is_none_true in H
  | H : no_str _ = true |- _ => apply strv_is_none_true in H
  | H : no_len _ _ _ = true |- _ => unfold no_len in H
  | H : no_array _ _ = true |- _ => unfold no_array in H
  | H : no_object _ _ _ = true |- _ => unfold no_object in H
  | H : items_absent _ = true |- _ => apply items_absent_true in H
  | H : negb _ = true |- _ => apply negb_true_iff in H
  end.

Lemma no_extras_inv cst ai mnp mxp allo anyo oneo no dflt title :
  no_extras cst ai mnp mxp allo anyo oneo no dflt title = true ->
  cst = None /\ allo = None /\ anyo = None /\ oneo = None /\ no = None.
Proof. unfold no_extras. intro H. bool_facts. subst. repeat split; reflexivity. Qed.

Lemma mem_pair_index D r : forall i0 i, ref_index D r i0 = Some i -> mem_pair (pairs_from D i0) r i = true.
Proof.
  induction D as [|[k s] D IH]; intros i0 i H; cbn [ref_index] in H; [discriminate|].
  cbn [pairs_from]. unfold mem_pair. cbn [existsb fst snd].
  destruct (ustr_eqb r k) eqn:E.
  - injection H as <-. rewrite N.eqb_refl. reflexivity.
  - cbn [andb orb]. apply (IH _ _ H).
Qed.

Lemma get_det_of T t d dv : get T t = Some (mkEntry d dv) -> get_det T t = Some d.
Proof. intro H. unfold get_det. rewrite H. reflexivity. Qed.

(* ------------------------------------------------------------------ the branches of a tagged oneOf *)
Ltac destruct_matches H :=
  repeat match type of H with context [match ?x with _ => _ end] => is_var x; destruct x; try discriminate H end.

Lemma xsimple_inv b raws : xsimple b = Some raws ->
  exists es, b = xsimple_sch es /\ jstrs es = Some raws /\ raws <> [].
Proof.
  unfold xsimple. intro H. destruct_matches H.
  destruct (numv_is_none nv && strv_is_none sv) eqn:E; [|discriminate].
  apply andb_true_iff in E. destruct E as [E1 E2]. apply numv_is_none_true in E1. apply strv_is_none_true in E2. subst.
  exists l. destruct (jstrs l) as [[|x r]|]; try discriminate. injection H as <-.
  split; [reflexivity|]. split; [reflexivity|discriminate].
Qed.

Lemma xtyped_inv b v sc : xtyped b = Some (v, sc) -> b = xbranch v sc.
Proof.
  unfold xtyped. intro H. destruct_matches H.
  destruct (numv_is_none nv && strv_is_none sv && ustr_eqb u0 u) eqn:E; [|discriminate].
  injection H as <- <-.
  apply andb_true_iff in E. destruct E as [E E3]. apply andb_true_iff in E. destruct E as [E1 E2].
  apply numv_is_none_true in E1. apply strv_is_none_true in E2. apply ustr_eqb_eq in E3. subst. reflexivity.
Qed.

Lemma xsimple_typed_excl b raws : xsimple b = Some raws -> xtyped b = None.
Proof. intro H. destruct (xsimple_inv b raws H) as (es & -> & _). reflexivity. Qed.

Lemma xtyped_sch v sc : xtyped (xbranch v sc) = Some (v, sc).
Proof. unfold xtyped, xbranch. cbn. rewrite ustr_eqb_refl. reflexivity. Qed.

Lemma xsimple_sch_spec es raws : jstrs es = Some raws -> raws <> [] -> xsimple (xsimple_sch es) = Some raws.
Proof. intros H Hn. unfold xsimple, xsimple_sch. cbn. rewrite H. destruct raws; [congruence|reflexivity]. Qed.

(* a branch of an externally tagged oneOf is one of the two forms *)
Lemma xnames_cases b l : xnames b = Some l ->
  (exists es, b = xsimple_sch es /\ jstrs es = Some l /\ l <> []) \/
  (exists v sc, b = xbranch v sc /\ l = [v]).
Proof.
  unfold xnames. destruct (xsimple b) as [raws|] eqn:Hs.
  - intro H. injection H as <-. left. exact (xsimple_inv b raws Hs).
  - destruct (xtyped b) as [[v sc]|] eqn:Ht; [|discriminate]. intro H. injection H as <-.
    right. exists v, sc. split; [exact (xtyped_inv b v sc Ht)|reflexivity].
Qed.

Lemma xnames_typed v sc : xnames (xbranch v sc) = Some [v].
Proof. unfold xnames. rewrite xtyped_sch. reflexivity. Qed.

Lemma find_variant_nodup vs : NoDup (map v_raw vs) -> forall vr i0, In vr vs ->
  exists i, find_variant (v_raw vr) vs i0 = Some (i, vr).
Proof.
  induction vs as [|v vs IH]; intros Hnd vr i0 Hin; [destruct Hin|].
  cbn [map] in Hnd. inversion Hnd as [|? ? Hni Hnd']; subst. cbn [find_variant].
  destruct Hin as [->|Hin].
  - rewrite ustr_eqb_refl. exists i0. reflexivity.
  - destruct (ustr_eqb (v_raw vr) (v_raw v)) eqn:E.
    + apply ustr_eqb_eq in E. exfalso. apply Hni. rewrite <- E. apply in_map. exact Hin.
    + apply IH; assumption.
Qed.

Lemma xall_names_cons b r names : xall_names (b :: r) = Some names ->
  exists l rest, xnames b = Some l /\ xall_names r = Some rest /\ names = l ++ rest.
Proof.
  cbn [xall_names]. destruct (xnames b) as [l|]; [|discriminate].
  destruct (xall_names r) as [rest|]; [|discriminate]. intro H. injection H as <-.
  exists l, rest. repeat split; reflexivity.
Qed.

Lemma one_kind_external bs : one_kind bs = Some TagExternal ->
  exists names, xall_names bs = Some names /\ NoDup names.
Proof.
  unfold one_kind. destruct (one_external bs) eqn:E.
  - intros _. unfold one_external in E. destruct bs as [|b r]; [discriminate|].
    destruct (xall_names (b :: r)) as [names|]; [|discriminate]. exists names. split; [reflexivity|].
    clear -E. induction names as [|x l IH]; [constructor|]. cbn [nodup_names] in E.
    apply andb_true_iff in E. destruct E as [E1 E2]. constructor; [|exact (IH E2)].
    intro Hin. apply negb_true_iff in E1. assert (mem_ustr x l = true); [|congruence].
    unfold mem_ustr. apply existsb_exists. exists x. split; [exact Hin|apply ustr_eqb_refl].
  - destruct bs as [|b r]; [discriminate|].
    destruct (tobjs (b :: r)) as [L|]; [|destruct (one_untagged (b :: r)); discriminate].
    destruct (ext_on_tobjs L); [discriminate|]. destruct (one_adjacent L) as [[tg ct]|]; [discriminate|].
    destruct (one_internal L); discriminate.
Qed.

(* ------------------------------------------------------------------ adjacently / internally tagged branches *)
Definition tbranch (props : list (ustring * schema)) (req : list ustring) (closed : bool) : schema :=
  SObj (Some [TObject]) None None None numv_none strv_none ItemsAbsent [] None None None false props req
       (if closed then Some (SBool false) else None) None None None None None None None None None.

Lemma ueqb_sym a b : ustr_eqb a b = ustr_eqb b a.
Proof.
  destruct (ustr_eqb a b) eqn:E1, (ustr_eqb b a) eqn:E2; try reflexivity.
  - apply ustr_eqb_eq in E1. subst. rewrite ustr_eqb_refl in E2. discriminate.
  - apply ustr_eqb_eq in E2. subst. rewrite ustr_eqb_refl in E1. discriminate.
Qed.

Lemma tobj_inv b props req closed : tobj b = Some (props, req, closed) -> b = tbranch props req closed /\ props <> [].
Proof.
  unfold tobj. intro H. destruct_matches H.
  all: match type of H with (if ?c then _ else _) = _ => destruct c eqn:E; [|discriminate H] end; try discriminate H.
  all: injection H as <- <- <-.
  all: apply andb_true_iff in E; destruct E as [E E3]; apply andb_true_iff in E; destruct E as [E1 E2];
    apply numv_is_none_true in E1; apply strv_is_none_true in E2; subst.
  all: split; [reflexivity|]; intro Hn; subst; discriminate E3.
Qed.

Lemma tag_plain_inv ts : tag_plain ts = true -> exists x, ts = xsimple_sch [JStr x].
Proof.
  unfold tag_plain. intro H. destruct_matches H.
  apply andb_true_iff in H. destruct H as [E1 E2]. apply numv_is_none_true in E1. apply strv_is_none_true in E2.
  subst. eexists. reflexivity.
Qed.

Lemma cstr_plain x : cstr (xsimple_sch [JStr x]) = Some x.
Proof. reflexivity. Qed.

Lemma keys_sorted_b_eq l : keys_sorted_b l = keys_sorted l.
Proof. reflexivity. Qed.

(* the branches of an adjacently tagged oneOf of the fragment *)
Definition adj_cond (t c : ustring) (b : schema) : bool :=
  match tobj b with
  | Some (props, req, closed) =>
      closed && forallb (fun kv => mem_ustr (fst kv) req) props
      && forallb (fun r => has_key r props) req
      && match assoc t props with Some ts => tag_plain ts | None => false end
      && forallb (fun kv => ustr_eqb (fst kv) t || ustr_eqb (fst kv) c) props
      && keys_sorted_b (map fst props) && (length props <=? 2)%nat
  | None => false
  end.

Lemma adj_branch_cases t c b : ustr_eqb t c = false -> adj_cond t c b = true ->
  exists req x, mem_ustr t req = true /\
    (b = tbranch [(t, xsimple_sch [JStr x])] req true \/
     (mem_ustr c req = true /\ exists sc, b = tbranch [(t, xsimple_sch [JStr x]); (c, sc)] req true) \/
     (mem_ustr c req = true /\ exists sc, b = tbranch [(c, sc); (t, xsimple_sch [JStr x])] req true)).
Proof.
  intros Htc H. unfold adj_cond in H. destruct (tobj b) as [[[props req] closed]|] eqn:Ht; [|discriminate].
  destruct (tobj_inv b props req closed Ht) as [-> Hne].
  repeat (apply andb_true_iff in H; destruct H as [H ?]).
  destruct closed; [|discriminate H]. clear H.
  match goal with X : forallb (fun kv => mem_ustr (fst kv) req) props = true |- _ => rename X into Hreq end.
  match goal with X : match assoc t props with _ => _ end = true |- _ => rename X into Htag end.
  match goal with X : forallb (fun kv => ustr_eqb (fst kv) t || ustr_eqb (fst kv) c) props = true |- _ => rename X into Hkeys end.
  match goal with X : keys_sorted_b (map fst props) = true |- _ => rename X into Hsort end.
  match goal with X : (length props <=? 2)%nat = true |- _ => rename X into Hlen end.
  destruct (assoc t props) as [ts|] eqn:Ha; [|discriminate]. destruct (tag_plain_inv ts Htag) as (x & ->).
  exists req, x.
  destruct props as [|[k1 s1] [|[k2 s2] [|]]]; [contradiction| | |discriminate Hlen].
  - cbn [assoc] in Ha. destruct (ustr_eqb t k1) eqn:E; [|discriminate]. apply ustr_eqb_eq in E. subst k1.
    injection Ha as ->. cbn [forallb fst] in Hreq. rewrite andb_true_r in Hreq. split; [exact Hreq|]. left. reflexivity.
  - cbn [forallb fst] in Hreq, Hkeys. rewrite andb_true_r in Hreq, Hkeys.
    apply andb_true_iff in Hreq. destruct Hreq as [Hr1 Hr2]. apply andb_true_iff in Hkeys. destruct Hkeys as [Hk1 Hk2].
    rewrite keys_sorted_b_eq in Hsort. cbn [map fst keys_sorted] in Hsort. rewrite andb_true_r in Hsort.
    assert (Hne12 : ustr_eqb k1 k2 = false).
    { destruct (ustr_eqb k1 k2) eqn:E; [|reflexivity]. apply ustr_eqb_eq in E. subst. rewrite ultb_irrefl in Hsort. discriminate. }
    cbn [assoc] in Ha. destruct (ustr_eqb t k1) eqn:E1.
    + apply ustr_eqb_eq in E1. subst k1. injection Ha as ->. split; [exact Hr1|]. right. left.
      apply orb_true_iff in Hk2. destruct Hk2 as [Hk2|Hk2].
      * apply ustr_eqb_eq in Hk2. subst k2. rewrite ustr_eqb_refl in Hne12. discriminate.
      * apply ustr_eqb_eq in Hk2. subst k2. split; [exact Hr2|]. exists s2. reflexivity.
    + destruct (ustr_eqb t k2) eqn:E2; [|discriminate]. apply ustr_eqb_eq in E2. subst k2. injection Ha as ->.
      split; [exact Hr2|]. right. right.
      apply orb_true_iff in Hk1. destruct Hk1 as [Hk1|Hk1].
      * rewrite ueqb_sym in Hk1. congruence.
      * apply ustr_eqb_eq in Hk1. subst k1. split; [exact Hr1|]. exists s1. reflexivity.
Qed.

(* ... and of an internally tagged one *)
Definition int_cond (cls : Heck.CharClasses) (t : ustring) (b : schema) : bool :=
  match tobj b with
  | Some (props, req, closed) =>
      let rest := filter (fun kv => negb (ustr_eqb (fst kv) t)) props in
      match assoc t props with Some ts => tag_plain ts | None => false end
      && mem_ustr t req
      && forallb (fun r => has_key r props) req
      && keys_sorted_b (map fst props)
      && Sanitize.unique (map (fun kv => fst (Sanitize.recase cls (fst kv) Sanitize.Snake)) rest)
      && forallb (fun kv => mem_ustr (fst kv) req || negb (is_one (snd kv))) rest
  | None => false
  end.

Lemma int_branch_cases cls t b : int_cond cls t b = true ->
  exists props req closed x,
    b = tbranch props req closed /\ assoc t props = Some (xsimple_sch [JStr x]) /\ mem_ustr t req = true /\
    forallb (fun r => has_key r props) req = true /\ keys_sorted (map fst props) = true /\
    Sanitize.unique (field_idents cls (filter (fun kv => negb (ustr_eqb (fst kv) t)) props)) = true /\
    forallb (fun kv => mem_ustr (fst kv) req || negb (is_one (snd kv)))
            (filter (fun kv => negb (ustr_eqb (fst kv) t)) props) = true.
Proof.
  unfold int_cond. destruct (tobj b) as [[[props req] closed]|] eqn:Ht; [|discriminate].
  destruct (tobj_inv b props req closed Ht) as [-> _]. intro H.
  repeat (apply andb_true_iff in H; destruct H as [H ?]).
  destruct (assoc t props) as [ts|] eqn:Ha; [|discriminate]. destruct (tag_plain_inv ts H) as (x & ->).
  exists props, req, closed, x. rewrite keys_sorted_b_eq in *. repeat split; assumption.
Qed.

Lemma conv_props_skip_filter cls cv t base req : forall props s,
  conv_props_skip cls cv t (Some base) req props s =
  conv_props cls cv base req (filter (fun kv => negb (ustr_eqb (fst kv) t)) props) s.
Proof.
  induction props as [|[k s'] props IH]; intro s; cbn [conv_props_skip filter fst]; [reflexivity|].
  destruct (ustr_eqb k t); cbn [negb]; [apply IH|]. cbn [conv_props].
  destruct (conv_prop cls cv base req k s' s) as [[p s1]|]; [|reflexivity]. rewrite IH. reflexivity.
Qed.

(* structural induction that also reaches the lone property of every branch of a oneOf *)
Definition PropP (P : schema -> Prop) (b : schema) : Prop := forall v sc, In (v, sc) (sch_props b) -> P sc.

Lemma arms_props (P : schema -> Prop) oneo :
  OForall (Forall (fun b => P b /\ PropP P b)) oneo -> OForall (Forall (PropP P)) oneo /\ OForall (Forall P) oneo.
Proof.
  destruct oneo as [bs|]; [|intros _; split; exact I]. cbn [OForall]. intro H. split.
  - eapply Forall_impl; [|exact H]. intros a Ha. exact (proj2 Ha).
  - eapply Forall_impl; [|exact H]. intros a Ha. exact (proj1 Ha).
Qed.

Lemma union_IH {X} (Q : X -> Prop) (oneo anyo : option X) :
  OForall Q oneo -> OForall Q anyo -> OForall Q (match anyo with None => oneo | Some _ => match oneo with Some _ => oneo | None => anyo end end).
Proof. destruct oneo, anyo; cbn [OForall]; intros H1 H2; assumption. Qed.

Lemma schema_ind_p (P : schema -> Prop) :
  (forall b, P (SBool b)) ->
  (forall ty fmt enum cst nv sv ik items ai mni mxi uq props req ap mnp mxp allo anyo oneo no ref dflt title,
     Forall P items -> Forall (fun kv => P (snd kv)) props -> OForall P ap ->
     OForall (Forall (fun b => P b /\ PropP P b)) oneo ->
     OForall (Forall (fun b => P b /\ PropP P b)) anyo ->
     P (SObj ty fmt enum cst nv sv ik items ai mni mxi uq props req ap mnp mxp allo anyo oneo no ref dflt title)) ->
  forall s, P s.
Proof.
  intros HB HO.
  assert (H : forall s, P s /\ PropP P s).
  { apply schema_ind'.
    - intro b. split; [apply HB|]. intros v sc H. destruct H.
    - intros ty fmt enum cst nv sv ik items ai mni mxi uq props req ap mnp mxp allo anyo oneo no ref dflt title
             IHitems _ IHprops IHap _ IHany IHone _. split.
      + apply HO.
        * eapply Forall_impl; [|exact IHitems]. intros a Ha. exact (proj1 Ha).
        * eapply Forall_impl; [|exact IHprops]. intros a Ha. exact (proj1 Ha).
        * destruct ap; [exact (proj1 IHap)|exact I].
        * destruct oneo as [bs|]; [|exact I]. cbn [OForall] in *. exact IHone.
        * destruct anyo as [bs|]; [|exact I]. cbn [OForall] in *. exact IHany.
      + intros v sc Hx. cbn [sch_props] in Hx. rewrite Forall_forall in IHprops. exact (proj1 (IHprops _ Hx)). }
  intro s. apply H.
Qed.

(* structural induction that also reaches the PAYLOADS of the typed branches of a oneOf *)
Lemma schema_ind_x (P : schema -> Prop) :
  (forall b, P (SBool b)) ->
  (forall ty fmt enum cst nv sv ik items ai mni mxi uq props req ap mnp mxp allo anyo oneo no ref dflt title,
     Forall P items -> Forall (fun kv => P (snd kv)) props -> OForall P ap ->
     OForall (Forall (fun b => forall v sc, xtyped b = Some (v, sc) -> P sc)) oneo ->
     P (SObj ty fmt enum cst nv sv ik items ai mni mxi uq props req ap mnp mxp allo anyo oneo no ref dflt title)) ->
  forall s, P s.
Proof.
  intros HB HO.
  assert (H : forall s, P s /\ (forall v sc, xtyped s = Some (v, sc) -> P sc)).
  { apply schema_ind'.
    - intro b. split; [apply HB|]. intros v sc H. discriminate H.
    - intros ty fmt enum cst nv sv ik items ai mni mxi uq props req ap mnp mxp allo anyo oneo no ref dflt title
             IHitems _ IHprops IHap _ _ IHone _. split.
      + apply HO.
        * eapply Forall_impl; [|exact IHitems]. intros a Ha. exact (proj1 Ha).
        * eapply Forall_impl; [|exact IHprops]. intros a Ha. exact (proj1 Ha).
        * destruct ap; [exact (proj1 IHap)|exact I].
        * destruct oneo as [bs|]; [|exact I]. cbn [OForall] in *.
          eapply Forall_impl; [|exact IHone]. intros a Ha. exact (proj2 Ha).
      + intros v sc Hx. apply xtyped_inv in Hx. unfold xbranch in Hx. inversion Hx; subst.
        exact (proj1 (Forall_inv IHprops)). }
  intro s. apply H.
Qed.

(* ... and treats a node that carries its union under "anyOf" through the node that carries it under "oneOf" *)
Lemma schema_ind_u (P : schema -> Prop) :
  (forall b, P (SBool b)) ->
  (forall ty fmt enum cst nv sv ik items ai mni mxi uq props req ap mnp mxp allo oneo no ref dflt title,
     Forall P items -> Forall (fun kv => P (snd kv)) props -> OForall P ap ->
     OForall (Forall (fun b => P b /\ PropP P b)) oneo ->
     P (SObj ty fmt enum cst nv sv ik items ai mni mxi uq props req ap mnp mxp allo None oneo no ref dflt title)) ->
  (forall ty fmt enum cst nv sv ik items ai mni mxi uq props req ap mnp mxp allo bs no ref dflt title,
     P (SObj ty fmt enum cst nv sv ik items ai mni mxi uq props req ap mnp mxp allo None (Some bs) no ref dflt title) -> P (SObj ty fmt enum cst nv sv ik items ai mni mxi uq props req ap mnp mxp allo (Some bs) None no ref dflt title)) ->
  (forall ty fmt enum cst nv sv ik items ai mni mxi uq props req ap mnp mxp allo abs obs no ref dflt title, P (SObj ty fmt enum cst nv sv ik items ai mni mxi uq props req ap mnp mxp allo (Some abs) (Some obs) no ref dflt title)) ->
  forall s, P s.
Proof.
  intros HB HS HA HB2. apply schema_ind_p; [exact HB|].
  intros ty fmt enum cst nv sv ik items ai mni mxi uq props req ap mnp mxp allo anyo oneo no ref dflt title IHi IHp IHa IHo IHy.
  destruct anyo as [abs|].
  - destruct oneo as [obs|]; [apply HB2|]. apply HA. apply HS; assumption.
  - apply HS; assumption.
Qed.

Section Branches.
  Variable cv : schema -> name -> st -> option (details * st).

  Lemma conv_xbranches_simple nm es r s :
    conv_xbranches cv nm (xsimple_sch es :: r) s =
    match xsimple (xsimple_sch es) with
    | Some raws =>
        match conv_xbranches cv nm r s with
        | None => None
        | Some (vs2, d2, s2) => Some (map (fun x => (x, VSimple)) raws ++ vs2, false || d2, s2)
        end
    | None => None
    end.
  Proof. cbn [conv_xbranches xsimple_sch]. destruct (xsimple _); reflexivity. Qed.

  Lemma conv_xbranches_typed nm v sc r s :
    conv_xbranches cv nm (xbranch v sc :: r) s =
    match conv_xvar cv nm v sc s with
    | None => None
    | Some (vd, deny, s1) =>
        match conv_xbranches cv nm r s1 with
        | None => None
        | Some (vs2, d2, s2) => Some ((v, vd) :: vs2, deny || d2, s2)
        end
    end.
  Proof.
    cbn [conv_xbranches xbranch]. destruct (conv_xvar cv nm v sc s) as [[[vd deny] s1]|]; [|reflexivity].
    reflexivity.
  Qed.

  Lemma conv_xbranches_names nm : forall bs names s rvs d s1,
    xall_names bs = Some names -> conv_xbranches cv nm bs s = Some (rvs, d, s1) -> map fst rvs = names.
  Proof.
    induction bs as [|b r IH]; intros names s rvs d s1 Hn Hc.
    - cbn in Hn, Hc. injection Hn as <-. injection Hc as <- _ _. reflexivity.
    - destruct (xall_names_cons b r names Hn) as (l & rest & Hb & Hr & ->).
      destruct (xnames_cases b l Hb) as [(es & -> & Hj & Hne)|(v & sc & -> & ->)].
      + rewrite conv_xbranches_simple, (xsimple_sch_spec es l Hj Hne) in Hc.
        destruct (conv_xbranches cv nm r s) as [[[vs2 d2] s2]|] eqn:Hrr; [|discriminate].
        injection Hc as <- _ _. rewrite map_app, map_map. cbn [fst]. rewrite map_id.
        f_equal. exact (IH _ _ _ _ _ Hr Hrr).
      + rewrite conv_xbranches_typed in Hc.
        destruct (conv_xvar cv nm v sc s) as [[[vd deny] sa]|]; [|discriminate].
        destruct (conv_xbranches cv nm r sa) as [[[vs2 d2] s2]|] eqn:Hrr; [|discriminate].
        injection Hc as <- _ _. cbn [map fst app]. f_equal. exact (IH _ _ _ _ _ Hr Hrr).
  Qed.
End Branches.

Section Main.
  Variable cls : Heck.CharClasses.
  Variable re native : ustring -> ustring -> bool.
  Variable D : defs.

  Local Notation keys := (map fst D).
  Local Notation rid := (ref_id D).
  Local Notation A := (pairs_of D).
  Local Notation cvf := (conv cls (ref_id D)).

  Definition ext (s : st) (T : space) : Prop := forall i e, lk s i = Some e -> get T i = Some e.
  Definition DefsPop (T : space) : Prop :=
    forall r i, ref_id D r = Some i -> exists d, get_det T i = Some d.

  Lemma ext_frame s s' T : wf s -> frame s s' -> ext s' T -> ext s T.
  Proof. intros Hw Hf He i e H. apply He. eapply frame_keeps; eassumption. Qed.

  Lemma realizes_ext s T t te : realizes (lk s) t te -> ext s T -> realizes (get T) t te.
  Proof. intros H He. destruct te; cbn [realizes] in *; try (apply He; exact H). exact H. Qed.

  Definition Gs (T : space) (s : schema) (ft : nat) (nn : bool) (t : id) : bool :=
    match s with
    | SBool _ => false
    | SObj ty fmt enum cst nv sv ik items ai mni mxi uq props req ap mnp mxp allo anyo oneo no ref dflt title =>
        go re native T A (covers re native T A) ty fmt enum cst nv sv ik items mni mxi props req ap
           allo anyo oneo no ref ft nn t
    end.

  Definition own_of (te : details) : list ustring :=
    match det_name te with Some n => [n] | None => [] end.

  (* ---------------------------------------------------------------- one node *)
  (* everything an arm of [kind_of_type] has tested *)
  Lemma kind_of_type_inv fmt enum nv sv ik items mni mxi uq props req ap tt k :
    kind_of_type fmt enum nv sv ik items mni mxi uq props req ap tt = Some k ->
    match k with KInt _ => True | _ => nv = numv_none end /\
    match k with KStrC mx mn pat => sv = mkStrv mx mn pat /\ strv_is_none sv = false | _ => sv = strv_none end /\
    match k with
    | KVec c | KVecAny c => seq_kind mni mxi uq = Some c
    | KTuple => tuple_len_ok items mni mxi uq = true
    | _ => mni = None /\ mxi = None
    end /\
    match k with KEnum _ => True | _ => enum = None end /\
    match k with KVec _ | KVecAny _ | KTuple => True | _ => ik = ItemsAbsent /\ items = [] end /\
    match k with KStruct _ | KMap => True | _ => props = [] /\ req = [] /\ ap = None end /\
    match k with KInt _ => True | _ => fmt = None end /\
    match k with
    | KRef _ | KAny | KOne _ | KOpt => False
    | KBool => tt = TBoolean
    | KStr | KStrC _ _ _ => tt = TString
    | KNull => tt = TNull
    | KNum => tt = TNumber
    | KEnum raws => tt = TString /\ exists es, enum = Some es /\ jstrs es = Some raws
    | KInt r => tt = TInteger /\ exists b, ibounds_of nv = Some b /\ r = choose_int fmt b
    | KStruct deny => tt = TObject /\ ap_simple ap = Some deny
    | KMap => tt = TObject /\ props = [] /\ req = [] /\ match ap with Some (SBool false) => False | _ => True end
    | KTuple => tt = TArray /\ ik = ItemsTuple
    | KVec _ => tt = TArray /\ ik = ItemsSingle /\ exists it, items = [it]
    | KVecAny _ => tt = TArray /\ ik = ItemsAbsent /\ items = []
    end.
  Proof.
    unfold kind_of_type. destruct tt.
    - destruct (_ && _) eqn:Hc; intro H; [injection H as <-|discriminate]. bool_facts. subst. repeat split; reflexivity.
    - destruct (_ && _) eqn:Hc; intro H; [injection H as <-|discriminate]. bool_facts. subst. repeat split; reflexivity.
    - destruct (_ && _) eqn:Hc; [|discriminate]. bool_facts. subst.
      destruct (ibounds_of nv) as [b|] eqn:E; cbn [option_map]; intro H; [|discriminate].
      injection H as <-. repeat split; try reflexivity. exists b. split; reflexivity.
    - destruct (_ && _) eqn:Hc; intro H; [injection H as <-|discriminate]. bool_facts. subst. repeat split; reflexivity.
    - destruct (_ && _) eqn:Hc; [|discriminate]. bool_facts. subst. destruct enum as [es|].
      + destruct (no_str sv) eqn:Hs; [|discriminate]. apply strv_is_none_true in Hs. subst.
        destruct (jstrs es) as [[|r raws]|] eqn:E; intro H; try discriminate.
        injection H as <-. repeat split; try reflexivity. exists es. split; [reflexivity|exact E].
      + destruct (no_str sv) eqn:Hs; intro H; injection H as <-.
        * apply strv_is_none_true in Hs. subst. repeat split; reflexivity.
        * repeat split; try reflexivity; try exact Hs. destruct sv; reflexivity.
    - destruct (_ && _) eqn:Hc; [|discriminate]. bool_facts. subst.
      destruct ik.
      + destruct (seq_kind mni mxi uq) as [c|] eqn:Hsk; [|discriminate].
        destruct items as [|it [|it2 items]]; intro H; try discriminate; injection H as <-.
        repeat split; reflexivity.
      + destruct (seq_kind mni mxi uq) as [c|] eqn:Hsk; [|discriminate].
        destruct items as [|it [|it2 items]]; intro H; try discriminate; injection H as <-.
        repeat split; try reflexivity. exists it. reflexivity.
      + destruct (tuple_len_ok items mni mxi uq) eqn:Htl; intro H; [|discriminate]. injection H as <-.
        repeat split; reflexivity.
    - destruct (_ && _) eqn:Hc; [|discriminate]. bool_facts. subst.
      destruct (is_nil props && is_nil req && negb _) eqn:E.
      + intro H. injection H as <-. bool_facts. subst. repeat split; try reflexivity.
        destruct ap as [[[|]|]|]; try exact I. discriminate.
      + destruct (ap_simple ap) as [dn|] eqn:E2; cbn [option_map]; intro H; [|discriminate].
        injection H as <-. repeat split; reflexivity.
  Qed.

  (* the union a fragment node carries, if any: written with "oneOf" or with "anyOf" *)
  Definition union_spec (nl : bool) (k : kind) (ty : option (list itype)) (enum : option (list json)) (ref : option ustring)
             (oneo anyo : option (list schema)) : Prop :=
    match k with
    | KOne _ | KOpt =>
        nl = false /\ ((exists bs, oneo = Some bs /\ anyo = None) \/
                       (exists bs, oneo = None /\ anyo = Some bs /\ ty = None /\ enum = None /\ ref = None))
    | _ => oneo = None /\ anyo = None
    end.

  Lemma frag_obj_inv ty fmt enum cst nv sv ik items ai mni mxi uq props req ap mnp mxp allo anyo oneo no ref dflt title :
    frag cls keys (SObj ty fmt enum cst nv sv ik items ai mni mxi uq props req ap mnp mxp allo anyo oneo no ref dflt title) = true ->
    exists nl k,
      classify ty fmt enum cst nv sv ik items ai mni mxi uq props req ap mnp mxp allo anyo oneo no ref dflt title = Some (nl, k)
      /\ cst = None /\ allo = None
      /\ union_spec nl k ty enum ref oneo anyo
      /\ no = None.
  Proof.
    cbn [frag]. destruct (classify _ _ _ _ _ _ _ _ _ _ _ _ _ _ _ _ _ _ _ _ _ _ _ _) as [[nl k]|] eqn:Hc; [|discriminate].
    intros Hfr. exists nl, k. split; [reflexivity|]. unfold classify in Hc.
    destruct oneo as [bs|].
    - destruct (only_one _ _ _ _ _ _ _ _ _ _ _ _ _ _ _ _ _ _ _ _ _ _ _) eqn:Ho; [|discriminate].
      unfold only_one in Ho. bool_facts. subst.
      destruct (opt_shape bs) as [[|]|]; [| |discriminate].
      + injection Hc as <- <-. repeat split; try reflexivity. left. exists bs. split; reflexivity.
      + destruct (one_kind bs) as [tg|]; [|discriminate]. cbn [option_map] in Hc. injection Hc as <- <-.
        repeat split; try reflexivity. left. exists bs. split; reflexivity.
    - destruct anyo as [abs|].
      { destruct (only_any _ _ _ _ _ _ _ _ _ _ _ _ _ _ _ _ _ _ _ _ _ _) eqn:Ho; [|discriminate].
        unfold only_any in Ho. bool_facts. subst.
        destruct (any_kind abs) as [k'|] eqn:Hak; cbn [option_map] in Hc; [|discriminate]. injection Hc as <- <-.
        assert (Hk' : match k' with KOne _ | KOpt => True | _ => False end).
        { unfold any_kind in Hak. destruct (opt_shape abs) as [[|]|]; try discriminate.
          - injection Hak as <-. exact I.
          - destruct (opt_all_map scalar_arm abs); [|discriminate]. destruct (_ && _); [|discriminate]. injection Hak as <-. exact I. }
        repeat split; try reflexivity.
        destruct k'; try contradiction; (split; [reflexivity|]); right; exists abs; repeat split; reflexivity. }
      destruct (no_extras cst ai mnp mxp allo None None no dflt title) eqn:Hne; [|discriminate].
      destruct (no_extras_inv _ _ _ _ _ _ _ _ _ _ Hne) as (-> & -> & _ & _ & ->).
      assert (Hk : match k with KOne _ | KOpt => False | _ => True end).
      { cbn [negb] in Hc. destruct ty as [l|].
        - destruct (negb (is_none ref)); [discriminate|]. destruct (split_type l) as [[nl' tt]|]; [|discriminate].
          destruct (kind_of_type fmt enum nv sv ik items mni mxi uq props req ap tt) as [k'|] eqn:Hk;
            cbn [option_map] in Hc; [|discriminate]. injection Hc as _ ->.
          apply kind_of_type_inv in Hk. destruct Hk as (_ & _ & _ & _ & _ & _ & _ & Hk).
          destruct k; try exact I; contradiction.
        - destruct (_ && _); [|discriminate]. destruct ref; injection Hc as _ <-; exact I. }
      repeat split; try reflexivity. destruct k; try (split; reflexivity); contradiction.
  Qed.

  (* at a node without "anyOf" (where the inductions over schemas do their work) *)
  Lemma frag_obj_inv0 ty fmt enum cst nv sv ik items ai mni mxi uq props req ap mnp mxp allo oneo no ref dflt title :
    frag cls keys (SObj ty fmt enum cst nv sv ik items ai mni mxi uq props req ap mnp mxp allo None oneo no ref dflt title) = true ->
    exists nl k,
      classify ty fmt enum cst nv sv ik items ai mni mxi uq props req ap mnp mxp allo None oneo no ref dflt title = Some (nl, k)
      /\ cst = None /\ allo = None
      /\ (match k with KOne _ | KOpt => nl = false /\ exists bs, oneo = Some bs | _ => oneo = None end)
      /\ no = None.
  Proof.
    intro Hf. destruct (frag_obj_inv _ _ _ _ _ _ _ _ _ _ _ _ _ _ _ _ _ _ _ _ _ _ _ _ Hf) as (nl & k & Hcl & Hc & Ha & Hu & Hn).
    exists nl, k. repeat (split; [assumption|]). split; [|exact Hn]. unfold union_spec in Hu.
    destruct k; try exact (proj1 Hu);
      (destruct Hu as [Hnl [(bs & Ho & _)|(bs & _ & Hx & _)]]; [split; [exact Hnl|exists bs; exact Ho]|discriminate Hx]).
  Qed.

  Lemma classify_union ty fmt enum cst nv sv ik items ai mni mxi uq props req ap mnp mxp allo bs no ref dflt title nl k :
    classify ty fmt enum cst nv sv ik items ai mni mxi uq props req ap mnp mxp allo None (Some bs) no ref dflt title = Some (nl, k) ->
    match k with KOne _ | KOpt => True | _ => False end.
  Proof.
    unfold classify. destruct (only_one _ _ _ _ _ _ _ _ _ _ _ _ _ _ _ _ _ _ _ _ _ _ _); [|discriminate].
    destruct (opt_shape bs) as [[|]|]; [| |discriminate].
    - intro H. injection H as _ <-. exact I.
    - destruct (one_kind bs); [|discriminate]. cbn [option_map]. intro H. injection H as _ <-. exact I.
  Qed.

  Lemma is_one_none s : sch_one_of s = None -> sch_any_of s = None -> is_one s = false.
  Proof.
    destruct s as [b|ty fmt enum cst nv sv ik items ai mni mxi uq props req ap mnp mxp allo anyo oneo no ref dflt title];
      [reflexivity|].
    cbn [sch_one_of sch_any_of]. intros -> ->. unfold is_one. cbn [classify_s]. unfold classify.
    destruct (negb (no_extras _ _ _ _ _ _ _ _ _ _)); [reflexivity|].
    destruct ty as [l|].
    - destruct (negb (is_none ref)); [reflexivity|]. destruct (split_type l) as [[nl' tt]|]; [|reflexivity].
      destruct (kind_of_type fmt enum nv sv ik items mni mxi uq props req ap tt) as [k'|] eqn:Hk; [|reflexivity].
      cbn [option_map]. apply kind_of_type_inv in Hk. destruct Hk as (_ & _ & _ & _ & _ & _ & _ & Hk).
      destruct k'; try reflexivity. contradiction.
    - destruct (_ && _); [|reflexivity]. destruct ref; reflexivity.
  Qed.

  Definition no_one (s : schema) : Prop :=
    match s with
    | SObj _ _ _ _ _ _ _ _ _ _ _ _ _ _ _ _ _ _ anyo oneo _ _ _ _ => oneo = None /\ anyo = None
    | SBool _ => True
    end.

  Lemma covers_frag_Gs T s nn t :
    frag cls keys s = true -> covers re native T A s nn (TId t) = Gs T s FT nn t.
  Proof.
    destruct s as [b|ty fmt enum cst nv sv ik items ai mni mxi uq props req ap mnp mxp allo anyo oneo no ref dflt title];
      [discriminate|].
    intro Hf. apply frag_obj_inv in Hf. destruct Hf as (nl & k & _ & _ & -> & _).
    cbn [covers covers_obj Gs]. reflexivity.
  Qed.

  Lemma Gs_option T s ft nn o t :
    frag cls keys s = true -> no_one s -> get_det T o = Some (DOption t) ->
    Gs T s ft true t = true -> Gs T s (S ft) nn o = true.
  Proof.
    destruct s as [b|ty fmt enum cst nv sv ik items ai mni mxi uq props req ap mnp mxp allo anyo oneo no ref dflt title];
      [discriminate|].
    intros Hf Hno Hd HG. apply frag_obj_inv in Hf. destruct Hf as (nl & k & _ & _ & -> & _ & ->).
    cbn [no_one] in Hno. destruct Hno as [-> ->].
    cbn [Gs] in *. eapply go_option; eassumption.
  Qed.

  Lemma Gs_newtype T s ft nn o n dv t :
    frag cls keys s = true -> get_det T o = Some (DNewtype n dv t CNone) ->
    Gs T s ft nn t = true -> Gs T s (S ft) nn o = true.
  Proof.
    destruct s as [b|ty fmt enum cst nv sv ik items ai mni mxi uq props req ap mnp mxp allo anyo oneo no ref dflt title];
      [discriminate|].
    intros Hf Hd HG. apply frag_obj_inv in Hf. destruct Hf as (nl & k & _ & _ & -> & _ & ->).
    cbn [Gs] in *. eapply go_newtype_any; eassumption.
  Qed.

  (* ---------------------------------------------------------------- struct members *)
  Lemma recase_wire k ident rn st' t' :
    Sanitize.recase cls k Sanitize.Snake = (ident, rn) ->
    wire_name (mkProp ident (match rn with Some old => RRename old | None => RNone end) st' t') = Some k.
  Proof.
    unfold Sanitize.recase. intro H. injection H as <- <-.
    destruct (Heck.ustring_eqb (Sanitize.sanitize cls k Sanitize.Snake) k) eqn:E.
    - apply SanitizeProofs.ustring_eqb_eq in E. unfold wire_name. cbn [p_rename p_name]. rewrite E. reflexivity.
    - reflexivity.
  Qed.

  Lemma default_val_S T f i :
    default_val T (S f) i =
    match get_det T i with
    | Some (DOption _) => Some ROptNone
    | Some (DVec _) | Some (DSet _) => Some (RSeq [])
    | Some (DMap _ _) => Some (RMap [])
    | Some DUnit => Some RUnit
    | Some DBoolean => Some (RBool false)
    | Some (DInteger n) => if in_int_range n 0 then Some (RInt 0) else None
    | Some (DFloat _) => Some (RFlt (inject_Z 0))
    | Some DString => Some (RStr [])
    | Some DJsonValue => Some (RJson JNull)
    | Some (DBox t) => default_val T f t
    | Some (DTuple ts) => option_map RSeq (mapM (default_val T f) ts)
    | _ => None
    end.
  Proof. reflexivity. Qed.

  Lemma missing_optional T p d :
    p_state p = POptional -> get_det T (p_ty p) = Some d ->
    match d with DOption _ | DVec _ | DMap _ _ | DUnit => True | _ => False end ->
    missing_ok re native T p = true.
  Proof.
    intros Hs Hd Hk. unfold missing_ok, missing. rewrite Hs. cbv beta iota.
    unfold DFUEL. rewrite default_val_S, Hd.
    destruct d; try contradiction; reflexivity.
  Qed.

  Definition prop_names (base : ustring) (props : list (ustring * schema)) : list ustring :=
    flat_map (fun kv => names_of cls (snd kv) (prop_type_name cls base (fst kv))) props.

  (* the fixpoints over the branches of a oneOf that names_of / frag contain *)
  Definition one_names (tg : tagty) (nm' : name) : list schema -> list ustring :=
    fix go (l : list schema) {struct l} : list ustring :=
      match l with
      | [] => []
      | b :: r => branch_fold cls tg nm' (names_of cls) (@app ustring) [] b ++ go r
      end.
  Definition one_frags (tg : tagty) : list schema -> bool :=
    fix go (l : list schema) {struct l} : bool :=
      match l with
      | [] => true
      | b :: r => branch_fold cls tg (NRequired []) (fun sc _ => frag cls keys sc) andb true b && go r
      end.

  Definition frag_kind (k : kind) (items : list schema) (props : list (ustring * schema))
             (req : list ustring) (ap : option schema) (oneo : option (list schema)) : bool :=
    match k with
    | KOpt =>
        match oneo with
        | Some (a :: b :: nil) =>
            if nullish a then opt_arm_ok b && frag cls keys b else opt_arm_ok a && frag cls keys a
        | _ => false
        end
    | KOne tg =>
        match oneo with
        | Some bs =>
            match variant_names tg bs with
            | Some names => match Sanitize.variant_idents cls names with Sanitize.Ok _ => true | _ => false end
            | None => false
            end && branches_ok cls tg bs && one_frags tg bs && proved_tag tg
        | None => false
        end
    | KEnum raws => match Sanitize.variant_idents cls raws with Sanitize.Ok _ => true | _ => false end
    | KStrC mx mn pat => strc_ok mx mn pat
    | KStruct _ =>
        keys_sorted (map fst props) && forallb (fun r => has_key r props) req
        && Sanitize.unique (field_idents cls props)
        && forallb (fun kv => mem_ustr (fst kv) req || negb (is_one (snd kv))) props
        && forallb (fun kv => frag cls keys (snd kv)) props
    | KMap => match ap with Some (SBool true) | None => true | Some vs => frag cls keys vs end
    | KVec _ | KTuple => forallb (frag cls keys) items
    | KRef r => mem_ustr r keys
    | _ => true
    end.

  Definition idx_names (nm' : name) : list schema -> nat -> list ustring :=
    fix go (l : list schema) (i : nat) {struct l} : list ustring :=
      match l with
      | [] => []
      | it :: r => names_of cls it (idx_name nm' i) ++ go r (S i)
      end.

  Definition sub_names (k : kind) (nm' : name) (items : list schema) (props : list (ustring * schema))
             (ap : option schema) (oneo : option (list schema)) : list ustring :=
    match k with
    | KOne tg => match oneo with Some bs => one_names tg nm' bs | None => [] end
    | KOpt =>
        match oneo with
        | Some (a :: b :: nil) => if nullish a then names_of cls b (inner_name nm') else names_of cls a (inner_name nm')
        | _ => []
        end
    | KStruct _ => match type_name cls nm' with Some base => prop_names base props | None => [] end
    | KMap => match ap with Some vs => names_of cls vs (value_name nm') | None => [] end
    | KVec c => flat_map (fun it => names_of cls it (seq_item_name cls c nm')) items
    | KTuple => idx_names nm' items 0%nat
    | _ => []
    end.

  Lemma ref_id_keys r : mem_ustr r keys = true -> exists i, ref_id D r = Some i.
  Proof.
    unfold ref_id. generalize 1%N. induction D as [|[k s] D' IH]; intros i0 H; [discriminate|].
    cbn [map fst mem_ustr existsb] in H. cbn [ref_index].
    destruct (ustr_eqb r k); [exists i0; reflexivity|]. cbn [orb] in H. apply IH. exact H.
  Qed.

  Lemma mem_pair_ref r i : ref_id D r = Some i -> mem_pair A r i = true.
  Proof. apply mem_pair_index. Qed.
  Lemma classify_cases ty fmt enum cst nv sv ik items ai mni mxi uq props req ap mnp mxp allo oneo no ref dflt title nl k :
    classify ty fmt enum cst nv sv ik items ai mni mxi uq props req ap mnp mxp allo None oneo no ref dflt title = Some (nl, k) ->
    (exists l tt, ty = Some l /\ ref = None /\ split_type l = Some (nl, tt)
                  /\ kind_of_type fmt enum nv sv ik items mni mxi uq props req ap tt = Some k)
    \/ (ty = None /\ nl = false /\ nv = numv_none /\ sv = strv_none /\ mni = None /\ mxi = None /\
        fmt = None /\ enum = None /\ ik = ItemsAbsent /\ items = [] /\ props = [] /\ req = [] /\ ap = None /\
        ((exists r, ref = Some r /\ k = KRef r) \/ (ref = None /\ k = KAny)
         \/ (exists bs, oneo = Some bs /\ ref = None /\
                        ((exists tg, k = KOne tg /\ one_kind bs = Some tg) \/ (k = KOpt /\ opt_shape bs = Some true))))).
  Proof.
    unfold classify. destruct oneo as [bs|].
    { destruct (only_one _ _ _ _ _ _ _ _ _ _ _ _ _ _ _ _ _ _ _ _ _ _ _) eqn:Ho; [|discriminate].
      unfold only_one in Ho. bool_facts. subst.
      destruct (opt_shape bs) as [[|]|] eqn:Hos; [| |discriminate].
      - intro H. injection H as <- <-. right. repeat (split; [reflexivity|]).
        right. right. exists bs. split; [reflexivity|]. split; [reflexivity|]. right. split; [reflexivity|exact Hos].
      - destruct (one_kind bs) as [tg|] eqn:Hk; [|discriminate]. cbn [option_map]. intro H. injection H as <- <-.
        right. repeat (split; [reflexivity|]).
        right. right. exists bs. split; [reflexivity|]. split; [reflexivity|]. left. exists tg. split; [reflexivity|exact Hk]. }
    destruct (negb (no_extras _ _ _ _ _ _ _ _ _ _)); [discriminate|].
    destruct ty as [l|].
    - destruct ref as [r|]; [discriminate|]. cbn [is_none negb].
      destruct (split_type l) as [[nl' tt]|] eqn:Hs; [|discriminate].
      destruct (kind_of_type fmt enum nv sv ik items mni mxi uq props req ap tt) as [k'|] eqn:Hk; cbn [option_map]; intro H; [|discriminate].
      injection H as <- <-. left. exists l, tt. repeat split; assumption.
    - destruct (_ && _) eqn:Hc; [|discriminate]. bool_facts. subst.
      destruct ref as [r|]; intro H; injection H as <- <-; right; repeat (split; [reflexivity|]).
      + left. exists r. split; reflexivity.
      + right. left. split; reflexivity.
  Qed.

  (* ---------------------------------------------------------------- definitions *)
  Local Notation san d := (Sanitize.sanitize cls d Sanitize.Pascal).

  Lemma def_all_names_spec d sch :
    incl (san d :: names_of cls sch (NRequired d)) (def_all_names cls (d, sch)) /\
    (NoDup (def_all_names cls (d, sch)) -> NoDup (names_of cls sch (NRequired d))).
  Proof.
    unfold def_all_names. cbn [fst snd].
    destruct (names_of cls sch (NRequired d)) as [|m r] eqn:Hn.
    - split; [apply incl_refl|]. intros _. constructor.
    - destruct (match classify_s sch with
                | Some (false, KEnum _) | Some (false, KStruct _) | Some (false, KStrC _ _ _)
                | Some (false, KOne _) => true
                | _ => false end) eqn:Htop.
      + split; [|intro H; exact H].
        assert (Hm : m = san d).
        { destruct sch as [b|ty fmt enum cst nv sv ik items ai mni mxi uq props req ap mnp mxp allo anyo oneo no ref dflt title];
            [discriminate|].
          cbn [classify_s] in Htop. cbn [names_of union_of] in Hn.
          destruct (classify _ _ _ _ _ _ _ _ _ _ _ _ _ _ _ _ _ _ _ _ _ _ _ _) as [[[|] k]|]; try discriminate.
          destruct k; try discriminate; cbn [own_names type_name name_opt option_map app] in Hn;
            injection Hn as <- _; reflexivity. }
        subst m. intros x [<-|Hx]; [left; reflexivity|exact Hx].
      + split; [apply incl_refl|]. intro H. inversion H; assumption.
  Qed.

  Lemma ref_index_nth : forall (l : defs) r i0 i,
    ref_index l r i0 = Some i -> exists j kv, nth_error l j = Some kv /\ i = i0 + N.of_nat j.
  Proof.
    induction l as [|[k s] l IH]; intros r i0 i H; cbn [ref_index] in H; [discriminate|].
    destruct (ustr_eqb r k).
    - injection H as <-. exists 0%nat, (k, s). split; [reflexivity|lia].
    - destruct (IH r (i0 + 1) i H) as (j & kv & Hn & Hi). exists (S j), kv. split; [exact Hn|lia].
  Qed.

  Lemma pairs_from_nth : forall (l : defs) i0 p,
    In p (pairs_from l i0) -> exists j sch, nth_error l j = Some (fst p, sch) /\ snd p = i0 + N.of_nat j.
  Proof.
    induction l as [|[k s] l IH]; intros i0 p H; cbn [pairs_from] in H; [destruct H|].
    destruct H as [<-|H].
    - exists 0%nat, s. split; [reflexivity|cbn [snd]; lia].
    - destruct (IH (i0 + 1) p H) as (j & sch & Hn & Hi). exists (S j), sch. split; [exact Hn|lia].
  Qed.

  Lemma assoc_nth {X} : forall (l : list (ustring * X)) j k x,
    NoDup (map fst l) -> nth_error l j = Some (k, x) -> assoc k l = Some x.
  Proof.
    induction l as [|[k' x'] l IH]; intros j k x Hnd Hn; [destruct j; discriminate|].
    cbn [map fst] in Hnd. inversion Hnd as [|? ? Hni Hnd']; subst. cbn [assoc].
    destruct j as [|j].
    - cbn in Hn. injection Hn as -> ->. rewrite ustr_eqb_refl. reflexivity.
    - cbn [nth_error] in Hn. destruct (ustr_eqb k k') eqn:E.
      + apply ustr_eqb_eq in E. subst k'. exfalso. apply Hni.
        apply (in_map fst) in Hn || (apply nth_error_In in Hn; apply (in_map fst) in Hn). exact Hn.
      + apply (IH j); assumption.
  Qed.

  (* ---------------------------------------------------------------- "anyOf" nodes through "oneOf" nodes *)
  Lemma any_classify ty fmt enum cst nv sv ik items ai mni mxi uq props req ap mnp mxp allo bs no ref dflt title x :
    classify ty fmt enum cst nv sv ik items ai mni mxi uq props req ap mnp mxp allo (Some bs) None no ref dflt title = Some x -> classify ty fmt enum cst nv sv ik items ai mni mxi uq props req ap mnp mxp allo None (Some bs) no ref dflt title = Some x.
  Proof.
    unfold classify. destruct (only_any _ _ _ _ _ _ _ _ _ _ _ _ _ _ _ _ _ _ _ _ _ _) eqn:Ho; [|discriminate].
    assert (Ho1 : only_one ty fmt enum cst nv sv ik items ai mni mxi uq props req ap mnp mxp allo None no ref dflt title = true).
    { unfold only_one. unfold only_any in Ho. bool_facts. subst. reflexivity. }
    rewrite Ho1. unfold any_kind. destruct (opt_shape bs) as [[|]|]; cbn [option_map]; try discriminate; [exact (fun H => H)|].
    destruct (opt_all_map scalar_arm bs) as [tys|] eqn:Harms; [|discriminate].
    destruct (_ && one_untagged bs) eqn:E; [|discriminate]. apply andb_true_iff in E. destruct E as [_ Hu].
    intro H. injection H as <-.
    assert (Hx : one_kind bs = Some TagUntagged); [|rewrite Hx; reflexivity].
    assert (Hnoext : forall b, In b bs -> xnames b = None /\ tobj b = None).
    { clear - Harms. revert tys Harms. induction bs as [|b0 r IH]; intros tys H b Hb; [destruct Hb|].
      cbn [opt_all_map] in H. destruct (scalar_arm b0) as [t0|] eqn:E0; [|discriminate].
      destruct (opt_all_map scalar_arm r) as [rest|]; [|discriminate].
      destruct Hb as [<-|Hb]; [|exact (IH rest eq_refl b Hb)].
      unfold scalar_arm in E0. destruct_matches E0; split; try reflexivity; destruct fmt; reflexivity. }
    unfold one_kind, one_external.
    destruct bs as [|b0 r]; [discriminate Hu|].
    destruct (Hnoext b0 (or_introl eq_refl)) as [Hx0 Ht0].
    cbn [xall_names tobjs]. rewrite Hx0, Ht0. rewrite Hu. reflexivity.
  Qed.

  Section AnyNode.
    Variables (ty : option (list itype)) (fmt : option ustring) (enum : option (list json)) (cst : option json)
              (nv : numv) (sv : strv) (ik : items_kind) (items : list schema) (ai : option schema) (mni mxi : option N)
              (uq : bool) (props : list (ustring * schema)) (req : list ustring) (ap : option schema) (mnp mxp : option N)
              (allo : option (list schema)) (bs : list schema) (no : option schema) (ref : option ustring)
              (dflt : option json) (title : option ustring).
    Local Notation nodeA := (SObj ty fmt enum cst nv sv ik items ai mni mxi uq props req ap mnp mxp allo (Some bs) None no ref dflt title).
    Local Notation nodeO := (SObj ty fmt enum cst nv sv ik items ai mni mxi uq props req ap mnp mxp allo None (Some bs) no ref dflt title).
    Variable x : bool * kind.
    Hypothesis Hcl : classify ty fmt enum cst nv sv ik items ai mni mxi uq props req ap mnp mxp allo (Some bs) None no ref dflt title = Some x.

    Lemma any_frag : frag cls keys nodeA = frag cls keys nodeO.
    Proof. cbn [frag]. rewrite Hcl, (any_classify _ _ _ _ _ _ _ _ _ _ _ _ _ _ _ _ _ _ _ _ _ _ _ x Hcl). reflexivity. Qed.

    Lemma any_conv nm s0 : cvf nodeA nm s0 = cvf nodeO nm s0.
    Proof. cbn [conv]. rewrite Hcl, (any_classify _ _ _ _ _ _ _ _ _ _ _ _ _ _ _ _ _ _ _ _ _ _ _ x Hcl). reflexivity. Qed.

    Lemma any_names nm : names_of cls nodeA nm = names_of cls nodeO nm.
    Proof. cbn [names_of]. rewrite Hcl, (any_classify _ _ _ _ _ _ _ _ _ _ _ _ _ _ _ _ _ _ _ _ _ _ _ x Hcl). reflexivity. Qed.

    Lemma any_nne : no_nullable_enum nodeA = no_nullable_enum nodeO.
    Proof. cbn [no_nullable_enum]. rewrite Hcl, (any_classify _ _ _ _ _ _ _ _ _ _ _ _ _ _ _ _ _ _ _ _ _ _ _ x Hcl). reflexivity. Qed.
  End AnyNode.

  Lemma frag_classify ty fmt enum cst nv sv ik items ai mni mxi uq props req ap mnp mxp allo anyo oneo no ref dflt title :
    frag cls keys (SObj ty fmt enum cst nv sv ik items ai mni mxi uq props req ap mnp mxp allo anyo oneo no ref dflt title) = true ->
    exists x, classify ty fmt enum cst nv sv ik items ai mni mxi uq props req ap mnp mxp allo anyo oneo no ref dflt title = Some x.
  Proof.
    cbn [frag]. destruct (classify _ _ _ _ _ _ _ _ _ _ _ _ _ _ _ _ _ _ _ _ _ _ _ _) as [x|]; [|discriminate]. intros _. exists x. reflexivity.
  Qed.

  Lemma both_frag ty fmt enum cst nv sv ik items ai mni mxi uq props req ap mnp mxp allo abs obs no ref dflt title :
    frag cls keys (SObj ty fmt enum cst nv sv ik items ai mni mxi uq props req ap mnp mxp allo (Some abs) (Some obs) no ref dflt title) = false.
  Proof.
    cbn [frag]. unfold classify. unfold only_one. cbn [is_none]. rewrite !andb_false_r. cbn [andb]. reflexivity.
  Qed.

  (* ---------------------------------------------------------------- totality *)
  Definition Tot (s : schema) : Prop :=
    frag cls keys s = true -> forall nm s0, name_opt nm <> None -> cvf s nm s0 <> None.

  Lemma type_name_some nm : name_opt nm <> None -> exists n, type_name cls nm = Some n.
  Proof.
    unfold type_name. destruct (name_opt nm) as [x|]; [|congruence]. intros _. eexists. reflexivity.
  Qed.

  Lemma conv_prop_name base req k s' s0 p s1 (cv : schema -> name -> st -> option (details * st)) :
    conv_prop cls cv base req k s' s0 = Some (p, s1) ->
    p_name p = fst (Sanitize.recase cls k Sanitize.Snake).
  Proof.
    unfold conv_prop. destruct (cv s' _ s0) as [[te sa]|]; [|discriminate].
    destruct (assign te sa) as [t sb].
    destruct (Sanitize.recase cls k Sanitize.Snake) as [ident rn].
    destruct (mem_ustr k req); [intro H; injection H as <- _; reflexivity|].
    destruct (has_intrinsic_default sb t); [intro H; injection H as <- _; reflexivity|].
    destruct (assign (DOption t) sb). intro H. injection H as <- _. reflexivity.
  Qed.

  Lemma conv_props_names base req (cv : schema -> name -> st -> option (details * st)) :
    forall props s0 ps s1,
    conv_props cls cv base req props s0 = Some (ps, s1) -> map p_name ps = field_idents cls props.
  Proof.
    induction props as [|[k s'] props IH]; intros s0 ps s1 H; cbn [conv_props] in H.
    - injection H as <- _. reflexivity.
    - destruct (conv_prop cls cv base req k s' s0) as [[p sa]|] eqn:Hp; [|discriminate].
      destruct (conv_props cls cv base req props sa) as [[l sb]|] eqn:Hr; [|discriminate].
      injection H as <- _. cbn [map field_idents fst]. f_equal.
      + exact (conv_prop_name _ _ _ _ _ _ _ _ Hp).
      + exact (IH _ _ _ Hr).
  Qed.

  Lemma conv_prop_total base req k s' s0 :
    Tot s' -> frag cls keys s' = true -> conv_prop cls cvf base req k s' s0 <> None.
  Proof.
    intros HT Hf. unfold conv_prop.
    destruct (cvf s' (prop_type_name cls base k) s0) as [[te sa]|] eqn:Hc.
    - destruct (assign te sa) as [t sb].
      destruct (Sanitize.recase cls k Sanitize.Snake) as [ident rn].
      destruct (mem_ustr k req); [discriminate|].
      destruct (has_intrinsic_default sb t); [discriminate|].
      destruct (assign (DOption t) sb). discriminate.
    - exfalso. apply (HT Hf (prop_type_name cls base k) s0); [discriminate|exact Hc].
  Qed.

  Lemma conv_props_total base req : forall props,
    Forall (fun kv => Tot (snd kv)) props ->
    forallb (fun kv => frag cls keys (snd kv)) props = true ->
    forall s0, conv_props cls cvf base req props s0 <> None.
  Proof.
    induction props as [|[k s'] props IH]; intros HT Hf s0; cbn [conv_props]; [discriminate|].
    inversion HT as [|? ? HT1 HT2]; subst.
    cbn [forallb snd] in Hf. apply andb_true_iff in Hf. destruct Hf as [Hf1 Hf2].
    destruct (conv_prop cls cvf base req k s' s0) as [[p sa]|] eqn:Hp.
    - destruct (conv_props cls cvf base req props sa) as [[l sb]|] eqn:Hr; [discriminate|].
      exfalso. exact (IH HT2 Hf2 sa Hr).
    - exfalso. exact (conv_prop_total base req k s' s0 HT1 Hf1 Hp).
  Qed.

  Lemma idx_name_some nm i : name_opt nm <> None -> name_opt (idx_name nm i) <> None.
  Proof. destruct nm; cbn [idx_name name_opt]; try discriminate. intro H; exact H. Qed.

  Lemma conv_items_total nm : name_opt nm <> None -> forall l,
    Forall Tot l -> forallb (frag cls keys) l = true ->
    forall i s0, conv_items cvf nm i l s0 <> None.
  Proof.
    intros Hnm. induction l as [|it l IH]; intros HT Hf i s0; cbn [conv_items]; [discriminate|].
    cbn [forallb] in Hf. apply andb_true_iff in Hf. destruct Hf as [Hf1 Hf2].
    destruct (cvf it (idx_name nm i) s0) as [[te s1]|] eqn:Hc.
    - destruct (assign te s1) as [t s2].
      destruct (conv_items cvf nm (S i) l s2) as [[ts s3]|] eqn:Hr; [discriminate|].
      exfalso. exact (IH (Forall_inv_tail HT) Hf2 (S i) s2 Hr).
    - exfalso. exact (Forall_inv HT Hf1 _ _ (idx_name_some nm i Hnm) Hc).
  Qed.

  (* the payloads of the typed branches *)
  Definition PayP (P : schema -> Prop) (b : schema) : Prop := forall v sc, xtyped b = Some (v, sc) -> P sc.

  Lemma append_name_some nm v : name_opt nm <> None -> name_opt (append_name nm v) <> None.
  Proof. destruct nm; cbn [append_name name_opt]; try discriminate. intro H; exact H. Qed.

  Lemma conv_xvar_total nm v sc s0 :
    Tot sc -> frag cls keys sc = true -> name_opt nm <> None -> conv_xvar cvf nm v sc s0 <> None.
  Proof.
    intros HT Hf Hnm. unfold conv_xvar.
    destruct (cvf sc (append_name nm v) s0) as [[te s1]|] eqn:Hc.
    - destruct te; try (destruct (assign _ s1)); discriminate.
    - exfalso. exact (HT Hf _ _ (append_name_some nm v Hnm) Hc).
  Qed.

  Lemma one_frags_cons tg b r :
    one_frags tg (b :: r) = branch_fold cls tg (NRequired []) (fun sc _ => frag cls keys sc) andb true b && one_frags tg r.
  Proof. reflexivity. Qed.

  Lemma conv_xbranches_total nm : name_opt nm <> None -> forall bs names,
    Forall (PayP Tot) bs -> xall_names bs = Some names -> one_frags TagExternal bs = true ->
    forall s0, conv_xbranches cvf nm bs s0 <> None.
  Proof.
    intros Hnm. induction bs as [|b r IH]; intros names HT Hn Hf s0; [discriminate|].
    destruct (xall_names_cons b r names Hn) as (l & rest & Hb & Hr & ->).
    rewrite one_frags_cons in Hf. apply andb_true_iff in Hf. destruct Hf as [Hf1 Hf2].
    destruct (xnames_cases b l Hb) as [(es & -> & Hj & Hne)|(v & sc & -> & ->)].
    - rewrite conv_xbranches_simple, (xsimple_sch_spec es l Hj Hne).
      destruct (conv_xbranches cvf nm r s0) as [[[vs2 d2] s2]|] eqn:Hrr; [discriminate|].
      exfalso. exact (IH rest (Forall_inv_tail HT) Hr Hf2 s0 Hrr).
    - rewrite conv_xbranches_typed. cbn [branch_fold xbranch] in Hf1.
      destruct (conv_xvar cvf nm v sc s0) as [[[vd deny] sa]|] eqn:Hv.
      + destruct (conv_xbranches cvf nm r sa) as [[[vs2 d2] s2]|] eqn:Hrr; [discriminate|].
        exfalso. exact (IH rest (Forall_inv_tail HT) Hr Hf2 sa Hrr).
      + exfalso. exact (conv_xvar_total nm v sc s0 (Forall_inv HT v sc (xtyped_sch v sc)) Hf1 Hnm Hv).
  Qed.

  Lemma PropP_PayP (P : schema -> Prop) b : PropP P b -> PayP P b.
  Proof. intros H v sc Hx. apply xtyped_inv in Hx. subst b. apply (H v sc). left. reflexivity. Qed.

  (* ---- adjacently tagged *)
  Lemma conv_avariant_cases nm t c b s0 : ustr_eqb t c = false -> adj_cond t c b = true ->
    exists x, assoc t (sch_props b) = Some (xsimple_sch [JStr x]) /\
      ((conv_avariant cvf nm t c b s0 = Some (x, VSimple, false, s0) /\ sch_props b = [(t, xsimple_sch [JStr x])]) \/
       (exists sc, In (c, sc) (sch_props b) /\ assoc c (sch_props b) = Some sc /\
          branch_fold cls (TagAdjacent t c) (NRequired []) (fun s' _ => frag cls keys s') andb true b = frag cls keys sc /\
          (forall nm', branch_fold cls (TagAdjacent t c) nm' (names_of cls) (@app ustring) [] b = names_of cls sc (adj_name nm' c x)) /\
          conv_avariant cvf nm t c b s0 =
          match conv_xvar cvf nm (match nm with NRequired _ => c | _ => x end) sc s0 with
          | Some (vd, deny, s1) => Some (x, vd, deny, s1)
          | None => None
          end)).
  Proof.
    intros Htc Hc. destruct (adj_branch_cases t c b Htc Hc) as (req & x & Hreq & [->|[(Hcr & sc & ->)|(Hcr & sc & ->)]]);
      exists x.
    - cbn [sch_props tbranch assoc]. rewrite ustr_eqb_refl. split; [reflexivity|]. left. split; reflexivity.
    - cbn [sch_props tbranch assoc]. rewrite ustr_eqb_refl. split; [reflexivity|]. right. exists sc.
      split; [right; left; reflexivity|]. rewrite (ueqb_sym c t), Htc, ustr_eqb_refl.
      split; [reflexivity|]. cbn [branch_fold tbranch conv_avariant]. rewrite ustr_eqb_refl. cbn [cstr xsimple_sch].
      split; [reflexivity|]. split; [reflexivity|]. reflexivity.
    - cbn [sch_props tbranch assoc]. rewrite Htc, !ustr_eqb_refl. split; [reflexivity|]. right. exists sc.
      split; [left; reflexivity|]. split; [reflexivity|]. cbn [branch_fold tbranch conv_avariant].
      rewrite (ueqb_sym c t), Htc. cbn [cstr xsimple_sch]. split; [reflexivity|]. split; [reflexivity|]. reflexivity.
  Qed.

  Lemma one_names_cons' tg nm b r :
    one_names tg nm (b :: r) = branch_fold cls tg nm (names_of cls) (@app ustring) [] b ++ one_names tg nm r.
  Proof. reflexivity. Qed.

  Lemma conv_abranches_total nm t c : name_opt nm <> None -> ustr_eqb t c = false -> forall bs,
    Forall (PropP Tot) bs -> forallb (adj_cond t c) bs = true -> one_frags (TagAdjacent t c) bs = true ->
    forall s0, conv_abranches cvf nm t c bs s0 <> None.
  Proof.
    intros Hnm Htc. induction bs as [|b r IH]; intros HT Hc Hf s0; [discriminate|].
    cbn [forallb] in Hc. apply andb_true_iff in Hc. destruct Hc as [Hc1 Hc2].
    rewrite one_frags_cons in Hf. apply andb_true_iff in Hf. destruct Hf as [Hf1 Hf2].
    cbn [conv_abranches].
    destruct (conv_avariant_cases nm t c b s0 Htc Hc1) as (x & _ & [[Hv _]|(sc & Hin & _ & Hfold & _ & Hv)]); rewrite Hv.
    - destruct (conv_abranches cvf nm t c r s0) as [[[vs2 d2] s2]|] eqn:Hr; [discriminate|].
      exfalso. exact (IH (Forall_inv_tail HT) Hc2 Hf2 s0 Hr).
    - rewrite Hfold in Hf1.
      destruct (conv_xvar cvf nm _ sc s0) as [[[vd deny] sa]|] eqn:Hx.
      + destruct (conv_abranches cvf nm t c r sa) as [[[vs2 d2] s2]|] eqn:Hr; [discriminate|].
        exfalso. exact (IH (Forall_inv_tail HT) Hc2 Hf2 sa Hr).
      + exfalso. exact (conv_xvar_total nm _ sc s0 (Forall_inv HT c sc Hin) Hf1 Hnm Hx).
  Qed.

  Lemma conv_abranches_names nm t c : ustr_eqb t c = false -> forall bs names s rvs d s1,
    forallb (adj_cond t c) bs = true ->
    variant_names (TagAdjacent t c) bs = Some names -> conv_abranches cvf nm t c bs s = Some (rvs, d, s1) ->
    map fst rvs = names.
  Proof.
    intros Htc. induction bs as [|b r IH]; intros names s rvs d s1 Hc Hn Hcv.
    - cbn in Hn, Hcv. injection Hn as <-. injection Hcv as <- _ _. reflexivity.
    - cbn [forallb] in Hc. apply andb_true_iff in Hc. destruct Hc as [Hc1 Hc2].
      cbn [variant_names opt_all_map] in Hn. cbn [conv_abranches] in Hcv.
      destruct (conv_avariant_cases nm t c b s Htc Hc1) as (x & Ha & Hcase). rewrite Ha in Hn. cbn [cstr xsimple_sch] in Hn.
      change (opt_all_map (fun b0 => match assoc t (sch_props b0) with Some ts => cstr ts | None => None end) r)
        with (variant_names (TagAdjacent t c) r) in Hn.
      destruct (variant_names (TagAdjacent t c) r) as [rest|] eqn:Hrest; [|discriminate]. injection Hn as <-.
      assert (Hgen : forall vd d1 sa, match conv_abranches cvf nm t c r sa with
                                      | Some (vs2, d2, s2) => Some ((x, vd) :: vs2, d1 || d2, s2)
                                      | None => None end = Some (rvs, d, s1) -> map fst rvs = x :: rest).
      { intros vd d1 sa H. destruct (conv_abranches cvf nm t c r sa) as [[[vs2 d2] s2]|] eqn:Hr; [|discriminate].
        injection H as <- _ _. cbn [map fst]. f_equal. exact (IH rest sa vs2 d2 s2 Hc2 eq_refl Hr). }
      destruct Hcase as [[Hv _]|(sc & _ & _ & _ & _ & Hv)]; rewrite Hv in Hcv.
      + exact (Hgen _ _ _ Hcv).
      + destruct (conv_xvar cvf nm _ sc s) as [[[vd deny] sa]|]; [|discriminate]. exact (Hgen _ _ _ Hcv).
  Qed.

  (* ---- internally tagged *)
  Lemma ifold_frag t : forall props,
    (fix gp (ps : list (ustring * schema)) {struct ps} : bool :=
       match ps with
       | [] => true
       | (k, s') :: q => (if ustr_eqb k t then true else frag cls keys s') && gp q
       end) props = forallb (fun kv => frag cls keys (snd kv)) (filter (fun kv => negb (ustr_eqb (fst kv) t)) props).
  Proof.
    induction props as [|[k s'] q IH]; [reflexivity|]. cbn [filter fst]. rewrite IH.
    destruct (ustr_eqb k t); cbn [negb forallb snd andb]; reflexivity.
  Qed.

  Lemma ifold_names t base : forall props,
    (fix gp (ps : list (ustring * schema)) {struct ps} : list ustring :=
       match ps with
       | [] => []
       | (k, s') :: q => (if ustr_eqb k t then [] else names_of cls s' (prop_type_name cls base k)) ++ gp q
       end) props = prop_names base (filter (fun kv => negb (ustr_eqb (fst kv) t)) props).
  Proof.
    induction props as [|[k s'] q IH]; [reflexivity|]. cbn [filter fst]. rewrite IH. unfold prop_names.
    destruct (ustr_eqb k t); cbn [negb flat_map fst snd app]; reflexivity.
  Qed.

  Definition rest_of (t : ustring) (props : list (ustring * schema)) : list (ustring * schema) :=
    filter (fun kv => negb (ustr_eqb (fst kv) t)) props.

  Lemma conv_ivariant_cases nm base t b s0 : name_opt nm = Some base -> int_cond cls t b = true ->
    exists props req closed x,
      b = tbranch props req closed /\ assoc t props = Some (xsimple_sch [JStr x]) /\ mem_ustr t req = true /\
      forallb (fun r => has_key r props) req = true /\ keys_sorted (map fst props) = true /\
      Sanitize.unique (field_idents cls (rest_of t props)) = true /\
      forallb (fun kv => mem_ustr (fst kv) req || negb (is_one (snd kv))) (rest_of t props) = true /\
      ((props = [(t, xsimple_sch [JStr x])] /\ conv_ivariant cls cvf nm t b s0 = Some (x, VSimple, s0)) \/
       ((forall k1 s1, props <> [(k1, s1)]) /\
        conv_ivariant cls cvf nm t b s0 =
        match conv_props cls cvf base req (rest_of t props) s0 with
        | Some (ps, s1) => if Sanitize.unique (map p_name (sort_props ps)) then Some (x, VStruct (sort_props ps), s1) else None
        | None => None
        end)).
  Proof.
    intros Hb Hc. destruct (int_branch_cases cls t b Hc) as (props & req & closed & x & -> & Ha & Hreq & Hhas & Hks & Hun & Hopt).
    exists props, req, closed, x. repeat (split; [assumption || reflexivity|]).
    destruct props as [|[k1 s1] [|kv2 rest]].
    - discriminate Ha.
    - left. cbn [assoc] in Ha. destruct (ustr_eqb t k1) eqn:E; [|discriminate]. apply ustr_eqb_eq in E. subst k1.
      injection Ha as ->. split; [reflexivity|]. reflexivity.
    - right. split; [intros k1' s1' H; discriminate H|].
      cbn [conv_ivariant tbranch]. rewrite Ha. cbn [cstr xsimple_sch]. rewrite Hb, conv_props_skip_filter. reflexivity.
  Qed.

  Lemma rest_sub t props P : Forall P props -> Forall P (rest_of t props).
  Proof.
    intro H. apply Forall_forall. intros x Hx. apply filter_In in Hx. rewrite Forall_forall in H. exact (H x (proj1 Hx)).
  Qed.

  Lemma conv_ibranches_total nm t : name_opt nm <> None -> forall bs,
    Forall (PropP Tot) bs -> forallb (int_cond cls t) bs = true -> one_frags (TagInternal t) bs = true ->
    forall s0, conv_ibranches cls cvf nm t bs s0 <> None.
  Proof.
    intros Hnm. destruct (name_opt nm) as [base|] eqn:Hb; [|congruence].
    induction bs as [|b r IH]; intros HT Hc Hf s0; [discriminate|].
    cbn [forallb] in Hc. apply andb_true_iff in Hc. destruct Hc as [Hc1 Hc2].
    rewrite one_frags_cons in Hf. apply andb_true_iff in Hf. destruct Hf as [Hf1 Hf2].
    cbn [conv_ibranches].
    destruct (conv_ivariant_cases nm base t b s0 Hb Hc1)
      as (props & req & closed & x & -> & Ha & Hreq & Hhas & Hks & Hun & Hopt & [[-> Hv]|[Hnl Hv]]); rewrite Hv.
    - destruct (conv_ibranches cls cvf nm t r s0) as [[vs2 s2]|] eqn:Hr; [discriminate|].
      exfalso. exact (IH (Forall_inv_tail HT) Hc2 Hf2 s0 Hr).
    - cbn [branch_fold tbranch name_opt] in Hf1. rewrite (ifold_frag t props) in Hf1.
      assert (HTp : Forall (fun kv => Tot (snd kv)) props).
      { apply Forall_forall. intros [k sc] Hin. exact (Forall_inv HT k sc Hin). }
      destruct (conv_props cls cvf base req (rest_of t props) s0) as [[ps sa]|] eqn:Hcp;
        [|exfalso; exact (conv_props_total base req (rest_of t props) (rest_sub t props _ HTp) Hf1 s0 Hcp)].
      assert (Hu : Sanitize.unique (map p_name (sort_props ps)) = true).
      { apply unique_true_iff. apply unique_true_iff in Hun.
        eapply Permutation_NoDup; [apply Permutation_sym, Permutation_map, sort_props_perm|].
        rewrite (conv_props_names _ _ _ _ _ _ _ Hcp). exact Hun. }
      rewrite Hu.
      destruct (conv_ibranches cls cvf nm t r sa) as [[vs2 s2]|] eqn:Hr; [discriminate|].
      exfalso. exact (IH (Forall_inv_tail HT) Hc2 Hf2 sa Hr).
  Qed.

  Lemma conv_ibranches_names nm t : name_opt nm <> None -> forall bs names s rvs s1,
    forallb (int_cond cls t) bs = true ->
    variant_names (TagInternal t) bs = Some names -> conv_ibranches cls cvf nm t bs s = Some (rvs, s1) ->
    map fst rvs = names.
  Proof.
    intros Hnm. destruct (name_opt nm) as [base|] eqn:Hb; [|congruence].
    induction bs as [|b r IH]; intros names s rvs s1 Hc Hn Hcv.
    - cbn in Hn, Hcv. injection Hn as <-. injection Hcv as <- _. reflexivity.
    - cbn [forallb] in Hc. apply andb_true_iff in Hc. destruct Hc as [Hc1 Hc2].
      cbn [variant_names opt_all_map] in Hn. cbn [conv_ibranches] in Hcv.
      destruct (conv_ivariant_cases nm base t b s Hb Hc1)
        as (props & req & closed & x & -> & Ha & _ & _ & _ & _ & _ & Hcase).
      cbn [sch_props tbranch] in Hn. rewrite Ha in Hn. cbn [cstr xsimple_sch] in Hn.
      change (opt_all_map (fun b0 => match assoc t (sch_props b0) with Some ts => cstr ts | None => None end) r)
        with (variant_names (TagInternal t) r) in Hn.
      destruct (variant_names (TagInternal t) r) as [rest|] eqn:Hrest; [|discriminate]. injection Hn as <-.
      assert (Hgen : forall vd sa, match conv_ibranches cls cvf nm t r sa with
                                   | Some (vs2, s2) => Some ((x, vd) :: vs2, s2)
                                   | None => None end = Some (rvs, s1) -> map fst rvs = x :: rest).
      { intros vd sa H. destruct (conv_ibranches cls cvf nm t r sa) as [[vs2 s2]|] eqn:Hr; [|discriminate].
        injection H as <- _. cbn [map fst]. f_equal. exact (IH rest sa vs2 s2 Hc2 eq_refl Hr). }
      destruct Hcase as [[_ Hv]|[_ Hv]]; rewrite Hv in Hcv.
      + exact (Hgen _ _ Hcv).
      + destruct (conv_props cls cvf base req (rest_of t props) s) as [[ps sa]|]; [|discriminate].
        destruct (Sanitize.unique _); [|discriminate]. exact (Hgen _ _ Hcv).
  Qed.

  (* ---- untagged over scalar arms *)
  Lemma scalar_frag b : scalar_kind b = true -> frag cls keys b = true.
  Proof.
    unfold scalar_kind.
    destruct b as [|ty fmt enum cst nv sv ik items ai mni mxi uq props req ap mnp mxp allo anyo oneo no ref dflt title];
      [discriminate|]. cbn [classify_s frag].
    destruct (classify _ _ _ _ _ _ _ _ _ _ _ _ _ _ _ _ _ _ _ _ _ _ _ _) as [[[|] k]|]; try discriminate.
    destruct k; try discriminate; reflexivity.
  Qed.

  Lemma scalar_names b nm : scalar_kind b = true -> names_of cls b nm = [].
  Proof.
    unfold scalar_kind.
    destruct b as [|ty fmt enum cst nv sv ik items ai mni mxi uq props req ap mnp mxp allo anyo oneo no ref dflt title];
      [discriminate|]. cbn [classify_s names_of union_of].
    destruct (classify _ _ _ _ _ _ _ _ _ _ _ _ _ _ _ _ _ _ _ _ _ _ _ _) as [[[|] k]|]; try discriminate.
    destruct k; try discriminate; reflexivity.
  Qed.

  Lemma conv_scalar_te b nm s te s1 : scalar_kind b = true -> cvf b nm s = Some (te, s1) ->
    match te with DBoolean | DString | DFloat _ | DInteger _ => True | _ => False end.
  Proof.
    unfold scalar_kind.
    destruct b as [|ty fmt enum cst nv sv ik items ai mni mxi uq props req ap mnp mxp allo anyo oneo no ref dflt title];
      [discriminate|]. cbn [classify_s conv union_of].
    destruct (classify _ _ _ _ _ _ _ _ _ _ _ _ _ _ _ _ _ _ _ _ _ _ _ _) as [[[|] k]|]; try discriminate.
    destruct k; try discriminate; cbn [conv_node conv_kind]; intros _ H; injection H as <- _; exact I.
  Qed.

  Lemma conv_xvar_scalar nm v b s vd d s1 : scalar_kind b = true ->
    conv_xvar cvf nm v b s = Some (vd, d, s1) -> exists t, vd = VItem t /\ d = false.
  Proof.
    intros Hk. unfold conv_xvar. destruct (cvf b (append_name nm v) s) as [[te sa]|] eqn:Hc; [|discriminate].
    pose proof (conv_scalar_te b _ s te sa Hk Hc) as Hte.
    destruct te; try contradiction; destruct (assign _ sa) as [t9 s9]; intro H; injection H as <- <- _;
      eexists; split; reflexivity.
  Qed.

  Lemma conv_ubranches_total n : forall bs i s0,
    Forall Tot bs -> forallb scalar_kind bs = true -> conv_ubranches cvf n i bs s0 <> None.
  Proof.
    induction bs as [|b r IH]; intros i s0 HT Hk; [discriminate|].
    cbn [forallb] in Hk. apply andb_true_iff in Hk. destruct Hk as [Hk1 Hk2]. cbn [conv_ubranches].
    destruct (conv_xvar cvf (NSuggested n) _ b s0) as [[[vd d1] s1]|] eqn:Hx.
    - destruct (conv_ubranches cvf n (S i) r s1) as [[[vs2 d2] s2]|] eqn:Hr; [discriminate|].
      exfalso. exact (IH (S i) s1 (Forall_inv_tail HT) Hk2 Hr).
    - exfalso. refine (conv_xvar_total (NSuggested n) _ b s0 (Forall_inv HT) (scalar_frag b Hk1) _ Hx). discriminate.
  Qed.

  Lemma conv_ubranches_spec n : forall bs i s0 rvs d s1,
    forallb scalar_kind bs = true -> conv_ubranches cvf n i bs s0 = Some (rvs, d, s1) ->
    map fst rvs = variant_n_names i bs /\ d = false /\ forall rv, In rv rvs -> exists t, snd rv = VItem t.
  Proof.
    induction bs as [|b r IH]; intros i s0 rvs d s1 Hk H; cbn [conv_ubranches] in H.
    - injection H as <- <- _. repeat split; try reflexivity. intros rv [].
    - cbn [forallb] in Hk. apply andb_true_iff in Hk. destruct Hk as [Hk1 Hk2].
      destruct (conv_xvar cvf (NSuggested n) _ b s0) as [[[vd d1] sa]|] eqn:Hx; [|discriminate].
      destruct (conv_ubranches cvf n (S i) r sa) as [[[vs2 d2] s2]|] eqn:Hr; [|discriminate].
      injection H as <- <- _. destruct (IH (S i) sa vs2 d2 s2 Hk2 Hr) as (H1 & -> & H3).
      destruct (conv_xvar_scalar _ _ b s0 vd d1 sa Hk1 Hx) as (t & -> & ->).
      split; [cbn [map fst variant_n_names]; f_equal; exact H1|]. split; [reflexivity|].
      intros rv [<-|Hin]; [eexists; reflexivity|exact (H3 rv Hin)].
  Qed.

  Lemma conv_kind_total items props req ap oneo k nm s0 :
    frag_kind k items props req ap oneo = true ->
    Forall Tot items -> Forall (fun kv => Tot (snd kv)) props -> OForall Tot ap ->
    OForall (Forall (fun b => Tot b /\ PropP Tot b)) oneo ->
    (match k with
     | KVec _ => exists it, items = [it]
     | _ => True end) ->
    name_opt nm <> None ->
    conv_kind cls (ref_id D) cvf k nm items props req ap oneo s0 <> None.
  Proof.
    intros Hfk HTi HTp HTa HTo0 Hshape Hnm. destruct (arms_props Tot oneo HTo0) as [HTo HToB].
    destruct (type_name_some nm Hnm) as (n & Hn).
    destruct k as [| | | |mx mn pat|r|raws|deny| | |c|c|r| |tg|]; cbn [conv_kind]; try discriminate.
    10: { (* KOpt: the arm under the inner name *)
      cbn [frag_kind] in Hfk. destruct oneo as [[|a [|b [|]]]|]; try discriminate. cbn [OForall] in HToB.
      assert (Hin : name_opt (inner_name nm) <> None).
      { clear - Hnm. destruct nm; cbn [inner_name name_opt] in *; congruence. }
      destruct (nullish a).
      - apply andb_true_iff in Hfk. destruct Hfk as [_ Hfb].
        destruct (cvf b (inner_name nm) s0) as [[te sa]|] eqn:Hc; [destruct (assign te sa); discriminate|].
        exfalso. exact (Forall_inv (Forall_inv_tail HToB) Hfb _ _ Hin Hc).
      - apply andb_true_iff in Hfk. destruct Hfk as [_ Hfa].
        destruct (cvf a (inner_name nm) s0) as [[te sa]|] eqn:Hc; [destruct (assign te sa); discriminate|].
        exfalso. exact (Forall_inv HToB Hfa _ _ Hin Hc). }
    9: { (* KOne *)
      cbn [frag_kind] in Hfk. destruct oneo as [bs|]; [|discriminate]. cbn [OForall] in HTo, HToB.
      apply andb_true_iff in Hfk. destruct Hfk as [Hfk Hpt].
      apply andb_true_iff in Hfk. destruct Hfk as [Hfk Hfr]. apply andb_true_iff in Hfk. destruct Hfk as [Hid Hbok].
      destruct (variant_names tg bs) as [names|] eqn:Hnames; [|discriminate].
      destruct tg as [|t|t c|]; rewrite Hn.
      4: { (* untagged *)
        cbn [variant_names] in Hnames. injection Hnames as <-.
        cbn [branches_ok] in Hbok. destruct (opt_all_map scalar_arm bs) as [tys|]; [|discriminate].
        apply andb_true_iff in Hbok. destruct Hbok as [_ Hsk].
        destruct (conv_ubranches cvf n 0 bs s0) as [[[rvs deny] s1]|] eqn:Hc;
          [|exfalso; exact (conv_ubranches_total n bs 0%nat s0 HToB Hsk Hc)].
        destruct (conv_ubranches_spec n bs 0%nat s0 rvs deny s1 Hsk Hc) as (Hfst & _ & Hitem).
        assert (Hnone : filter (fun p : ustring * vdetails => match snd p with VSimple => true | _ => false end) rvs = []).
        { apply filter_none. intros rv Hin. destruct (Hitem rv Hin) as (t & ->). reflexivity. }
        rewrite Hnone. cbn [length Nat.leb].
        unfold mk_tagged. rewrite Hfst.
        destruct (Sanitize.variant_idents cls (variant_n_names 0 bs)); try discriminate Hid. discriminate. }
      - (* external *)
        cbn [variant_names] in Hnames.
        assert (HTo' : Forall (PayP Tot) bs) by (eapply Forall_impl; [|exact HTo]; intros a Ha; exact (PropP_PayP _ a Ha)).
        destruct (conv_xbranches cvf nm bs s0) as [[[rvs deny] s1]|] eqn:Hc;
          [|exfalso; exact (conv_xbranches_total nm Hnm bs names HTo' Hnames Hfr s0 Hc)].
        unfold mk_tagged. rewrite (conv_xbranches_names cvf nm bs names s0 rvs deny s1 Hnames Hc).
        destruct (Sanitize.variant_idents cls names); try discriminate Hid. discriminate.
      - (* internal *)
        cbn [branches_ok] in Hbok. apply andb_true_iff in Hbok. destruct Hbok as [Hbok _].
        change (forallb (int_cond cls t) bs = true) in Hbok.
        destruct (conv_ibranches cls cvf nm t bs s0) as [[rvs s1]|] eqn:Hc;
          [|exfalso; exact (conv_ibranches_total nm t Hnm bs HTo Hbok Hfr s0 Hc)].
        unfold mk_tagged. rewrite (conv_ibranches_names nm t Hnm bs names s0 rvs s1 Hbok Hnames Hc).
        destruct (Sanitize.variant_idents cls names); try discriminate Hid. discriminate.
      - (* adjacent *)
        cbn [branches_ok] in Hbok. apply andb_true_iff in Hbok. destruct Hbok as [Hbok _].
        apply andb_true_iff in Hbok. destruct Hbok as [Hbok Htc]. apply negb_true_iff in Htc.
        change (forallb (adj_cond t c) bs = true) in Hbok.
        destruct (conv_abranches cvf nm t c bs s0) as [[[rvs deny] s1]|] eqn:Hc;
          [|exfalso; exact (conv_abranches_total nm t c Hnm Htc bs HTo Hbok Hfr s0 Hc)].
        unfold mk_tagged. rewrite (conv_abranches_names nm t c Htc bs names s0 rvs deny s1 Hbok Hnames Hc).
        destruct (Sanitize.variant_idents cls names); try discriminate Hid. discriminate. }
    - (* KStrC *)
      destruct (assign DString _). rewrite Hn. discriminate.
    - (* KEnum *)
      rewrite Hn. unfold mk_enum. cbn [frag_kind] in Hfk.
      destruct (Sanitize.variant_idents cls raws); try discriminate Hfk. discriminate.
    - (* KStruct *)
      rewrite Hn. cbn [frag_kind] in Hfk. apply andb_true_iff in Hfk. destruct Hfk as [Hfk Hfp].
      apply andb_true_iff in Hfk. destruct Hfk as [Hfk _].
      apply andb_true_iff in Hfk. destruct Hfk as [_ Hun].
      destruct (conv_props cls cvf n req props s0) as [[ps sa]|] eqn:Hcp;
        [|exfalso; exact (conv_props_total n req props HTp Hfp s0 Hcp)].
      assert (Hu : Sanitize.unique (map p_name (sort_props ps)) = true).
      { apply unique_true_iff. apply unique_true_iff in Hun.
        eapply Permutation_NoDup; [apply Permutation_sym, Permutation_map, sort_props_perm|].
        rewrite (conv_props_names _ _ _ _ _ _ _ Hcp). exact Hun. }
      rewrite Hu. discriminate.
    - (* KMap *)
      destruct (assign DString s0) as [kid sk].
      destruct ap as [vs|].
      + assert (Hv : name_opt (value_name nm) <> None).
        { unfold value_name. destruct (name_opt nm); [discriminate|congruence]. }
        destruct (cvf vs (value_name nm) sk) as [[te sb]|] eqn:Hc.
        * destruct (assign te sb). discriminate.
        * exfalso. cbn [frag_kind] in Hfk. cbn [OForall] in HTa.
          destruct vs as [[|]|]; [discriminate Hc|discriminate Hfk|].
          exact (HTa Hfk _ _ Hv Hc).
      + destruct (assign DJsonValue (set_json sk)). discriminate.
    - (* KTuple *)
      cbn [frag_kind] in Hfk.
      destruct (conv_items cvf nm 0 items s0) as [[ts s1]|] eqn:Hc; [discriminate|].
      exfalso. exact (conv_items_total nm Hnm items HTi Hfk 0%nat s0 Hc).
    - (* KVec *)
      destruct Hshape as (it & ->). cbn [frag_kind forallb] in Hfk. rewrite andb_true_r in Hfk.
      pose proof (Forall_inv HTi) as HT1.
      assert (Hv : name_opt (seq_item_name cls c nm) <> None).
      { destruct c; cbn [seq_item_name]; try (unfold item_name; rewrite Hn; discriminate).
        destruct nm; cbn [append_item name_opt]; try discriminate; exact Hnm. }
      destruct (cvf it (seq_item_name cls c nm) s0) as [[te sb]|] eqn:Hc.
      + destruct (assign te sb). discriminate.
      + exfalso. exact (HT1 Hfk _ _ Hv Hc).
    - (* KVecAny *)
      destruct (assign DJsonValue (set_json s0)). discriminate.
    - (* KRef *)
      cbn [frag_kind] in Hfk. destruct (ref_id_keys r Hfk) as (i & ->). discriminate.
  Qed.

  Lemma conv_total : forall s, Tot s.
  Proof.
    apply schema_ind_u.
    - intros b Hf. discriminate Hf.
    - intros ty fmt enum cst nv sv ik items ai mni mxi uq props req ap mnp mxp allo oneo no ref dflt title
             IHitems IHprops IHap IHone.
      intros Hf nm s0 Hnm.
      destruct (frag_obj_inv0 _ _ _ _ _ _ _ _ _ _ _ _ _ _ _ _ _ _ _ _ _ _ _ Hf)
        as (nl & k & Hcl & _).
      pose proof Hcl as Hcases. apply classify_cases in Hcases.
      cbn [frag] in Hf. rewrite Hcl in Hf. change (frag_kind k items props req ap oneo = true) in Hf.
      cbn [conv union_of]. rewrite Hcl.
      assert (Hshape : match k with KVec _ => exists it, items = [it] | _ => True end).
      { destruct k; try exact I.
        destruct Hcases as [(l & tt & _ & _ & _ & Hk)|(_ & _ & _ & _ & _ & _ & _ & _ & _ & _ & _ & _ & _ & [(r & _ & Hk)|[(_ & Hk)|(bs & _ & _ & [(tg & Hk & _)|(Hk & _)])]])];
          try discriminate Hk.
        apply kind_of_type_inv in Hk. destruct Hk as (_ & _ & _ & _ & _ & _ & _ & Hi). exact (proj2 (proj2 Hi)). }
      assert (Hin : name_opt (inner_name nm) <> None).
      { destruct nm; cbn [inner_name name_opt]; try discriminate. exact Hnm. }
      destruct nl; cbn [conv_node].
      + destruct (conv_kind cls (ref_id D) cvf k (inner_name nm) items props req ap oneo s0) as [[te sa]|] eqn:Hc.
        * destruct (assign te sa). discriminate.
        * exfalso. exact (conv_kind_total items props req ap oneo k (inner_name nm) s0 Hf IHitems IHprops IHap IHone Hshape Hin Hc).
      + exact (conv_kind_total items props req ap oneo k nm s0 Hf IHitems IHprops IHap IHone Hshape Hnm).
    - intros ty fmt enum cst nv sv ik items ai mni mxi uq props req ap mnp mxp allo bs no ref dflt title HO Hf nm s0 Hnm.
      destruct (frag_classify _ _ _ _ _ _ _ _ _ _ _ _ _ _ _ _ _ _ _ _ _ _ _ _ Hf) as (x & Hcl).
      rewrite (any_frag _ _ _ _ _ _ _ _ _ _ _ _ _ _ _ _ _ _ _ _ _ _ _ x Hcl) in Hf. rewrite (any_conv _ _ _ _ _ _ _ _ _ _ _ _ _ _ _ _ _ _ _ _ _ _ _ x Hcl).
      exact (HO Hf nm s0 Hnm).
    - intros ty fmt enum cst nv sv ik items ai mni mxi uq props req ap mnp mxp allo abs obs no ref dflt title Hf. rewrite both_frag in Hf. discriminate Hf.
  Qed.

  Lemma conv_def_total d sch t s0 :
    frag cls keys sch = true -> conv_def cls (ref_id D) d sch t s0 <> None.
  Proof.
    intro Hf. unfold conv_def.
    destruct (cvf sch (NRequired d) s0) as [[te s1]|] eqn:Hc.
    - destruct te; try (destruct (assign _ s1)); discriminate.
    - exfalso. apply (conv_total sch Hf (NRequired d) s0); [discriminate|exact Hc].
  Qed.

  Lemma conv_defs_total : forall ds t s0,
    forallb (fun kv => frag cls keys (snd kv)) ds = true -> conv_defs cls (ref_id D) ds t s0 <> None.
  Proof.
    induction ds as [|[d sch] ds IH]; intros t s0 Hf; cbn [conv_defs]; [discriminate|].
    cbn [forallb snd] in Hf. apply andb_true_iff in Hf. destruct Hf as [Hf1 Hf2].
    destruct (conv_def cls (ref_id D) d sch t s0) as [s1|] eqn:Hc.
    - apply IH. exact Hf2.
    - exfalso. exact (conv_def_total d sch t s0 Hf1 Hc).
  Qed.

  Lemma NoDup_flat_map_pick {X Y} (f : X -> Y) (g : X -> list Y) (l : list X) :
    (forall x, In (f x) (g x)) -> NoDup (flat_map g l) -> NoDup (map f l).
  Proof.
    intro Hfg. induction l as [|x l IH]; intro H; [constructor|].
    cbn [flat_map map] in *. constructor.
    - intro Hin. apply in_map_iff in Hin. destruct Hin as (y & Hy & Hyl).
      apply (NoDup_app_disj _ _ (f x) H (Hfg x)). apply in_flat_map. exists y. split; [exact Hyl|].
      rewrite <- Hy. apply Hfg.
    - apply IH. exact (NoDup_app_r _ _ H).
  Qed.

  Theorem convert_total : in_frag cls D = true -> convert_doc cls D <> None.
  Proof.
    intro Hin. unfold in_frag in Hin.
    apply andb_true_iff in Hin. destruct Hin as [Hin _].
    apply andb_true_iff in Hin. destruct Hin as [Hin Hun].
    apply andb_true_iff in Hin. destruct Hin as [_ Hfr].
    unfold convert_doc.
    assert (Hu : Sanitize.unique (def_names cls D) = true).
    { apply unique_true_iff. apply unique_true_iff in Hun. unfold def_names, all_names in *.
      apply (NoDup_flat_map_pick (fun kv => san (fst kv)) (def_all_names cls) D); [|exact Hun].
      intros [d sch]. apply (proj1 (def_all_names_spec d sch)). left. reflexivity. }
    rewrite Hu. cbn [negb].
    destruct (conv_defs cls (ref_id D) D 1 _) as [sf|] eqn:Hc; [discriminate|].
    exfalso. exact (conv_defs_total D 1 _ Hfr Hc).
  Qed.
End Main.

(* ------------------------------------------------------------------ corollaries *)
Lemma pairs_from_complete : forall (D : defs) i0 r s, In (r, s) D -> exists t, In (r, t) (pairs_from D i0).
Proof.
  induction D as [|[k x] D IH]; intros i0 r s H; [destruct H|]. cbn [pairs_from].
  destruct H as [H|H].
  - injection H as -> _. exists i0. left. reflexivity.
  - destruct (IH (i0 + 1) r s H) as (t & Ht). exists t. right. exact Ht.
Qed.

Lemma pairs_complete (D : defs) r s : In (r, s) D -> exists t, In (r, t) (pairs_of D).
Proof. apply pairs_from_complete. Qed.
