(* Proofs/ConvertSortedProofs.v -- one more invariant of the converter model (Algo/Convert.v), needed by
   C04F: the members of EVERY struct entry of the type space are strictly sorted by identifier
   (structs.rs:74 `properties.sort_by(name)` + the uniqueness test that follows it).  The shape
   specification of ConvertShapeProofs.v describes the members as a set; with this invariant their ORDER
   is determined as well. *)
From Coq Require Import String ZArith NArith QArith List Bool Lia.
From Typify Require Import Base.Json Spec.Schema Spec.Valid IR.TypeIR.
From Typify Require Algo.Heck Algo.Sanitize Proofs.SanitizeProofs.
From Typify Require Import Algo.Convert Proofs.SerdeProofs Proofs.ConvertProofs Proofs.ConvertShapeProofs.
Import ListNotations.
Close Scope Q_scope.
Close Scope string_scope.
Open Scope list_scope.
Open Scope N_scope.

(* ------------------------------------------------------------------ order on ustring *)
Lemma ultb_total a : forall b, ustr_eqb a b = false -> ustr_ltb a b = false -> ustr_ltb b a = true.
Proof.
  induction a as [|x a IH]; destruct b as [|y b]; cbn [ustr_eqb ustr_ltb]; intros H1 H2;
    try discriminate; try reflexivity.
  apply orb_false_iff in H2. destruct H2 as [L E].
  destruct (N.eqb x y) eqn:Exy.
  - apply N.eqb_eq in Exy. subst. cbn [andb] in H1, E. rewrite N.eqb_refl, (IH b H1 E).
    apply orb_true_r.
  - apply N.eqb_neq in Exy. apply N.ltb_ge in L.
    assert (Hlt : (y < x)%N) by lia. apply N.ltb_lt in Hlt. rewrite Hlt. reflexivity.
Qed.

Lemma ultb_asym a b : ustr_ltb a b = true -> ustr_ltb b a = false.
Proof.
  intro H. destruct (ustr_ltb b a) eqn:E; [|reflexivity].
  pose proof (ultb_trans a b a H E) as C. rewrite ultb_irrefl in C. discriminate C.
Qed.

(* non-strictly sorted *)
Fixpoint le_sorted (l : list ustring) : bool :=
  match l with
  | a :: ((b :: _) as r) => negb (ustr_ltb b a) && le_sorted r
  | _ => true
  end.

Lemma le_sorted_cons a l : le_sorted l = true -> (forall b, hd_error l = Some b -> ustr_ltb b a = false) ->
  le_sorted (a :: l) = true.
Proof.
  destruct l as [|b l]; intros H Hh; [reflexivity|]. cbn [le_sorted] in *.
  rewrite (Hh b eq_refl). exact H.
Qed.

Lemma le_sorted_tl a l : le_sorted (a :: l) = true -> le_sorted l = true.
Proof.
  destruct l as [|b l]; [reflexivity|]. cbn [le_sorted]. intro H. apply andb_true_iff in H. exact (proj2 H).
Qed.

Lemma ins_prop_hd p l : forall b, hd_error (map p_name (ins_prop p l)) = Some b ->
  b = p_name p \/ hd_error (map p_name l) = Some b.
Proof.
  destruct l as [|q r]; cbn [ins_prop map hd_error]; intros b H.
  - injection H as <-. left. reflexivity.
  - destruct (ustr_ltb (p_name q) (p_name p)); cbn [map hd_error] in H; injection H as <-; [right|left]; reflexivity.
Qed.

Lemma ins_prop_le p l : le_sorted (map p_name l) = true -> le_sorted (map p_name (ins_prop p l)) = true.
Proof.
  induction l as [|q r IH]; intro H; [reflexivity|]. cbn [ins_prop].
  destruct (ustr_ltb (p_name q) (p_name p)) eqn:E.
  - cbn [map]. apply le_sorted_cons.
    + apply IH. cbn [map] in H. exact (le_sorted_tl _ _ H).
    + intros b Hb. destruct (ins_prop_hd p r b Hb) as [->|Hb'].
      * apply ultb_asym. exact E.
      * cbn [map] in H. destruct r as [|q' r']; [discriminate Hb'|]. cbn [map hd_error] in Hb'. injection Hb' as <-.
        cbn [map le_sorted] in H. apply andb_true_iff in H. destruct H as [H _].
        apply negb_true_iff in H. exact H.
  - cbn [map]. cbn [map] in H. cbn [le_sorted]. rewrite E. cbn [negb andb]. exact H.
Qed.

Lemma sort_props_le l : le_sorted (map p_name (sort_props l)) = true.
Proof.
  induction l as [|p l IH]; [reflexivity|]. cbn [sort_props fold_right]. apply ins_prop_le. exact IH.
Qed.

Lemma le_sorted_NoDup_strict l : le_sorted l = true -> NoDup l -> keys_sorted l = true.
Proof.
  induction l as [|a l IH]; intros H Hn; [reflexivity|].
  destruct l as [|b l]; [reflexivity|].
  cbn [le_sorted] in H. apply andb_true_iff in H. destruct H as [H1 H2].
  inversion Hn as [|? ? Hni Hn']; subst.
  change (ustr_ltb a b && keys_sorted (b :: l) = true). rewrite (IH H2 Hn'), andb_true_r.
  apply negb_true_iff in H1.
  destruct (ustr_eqb b a) eqn:E.
  - apply ustr_eqb_eq in E. subst. exfalso. apply Hni. left. reflexivity.
  - exact (ultb_total b a E H1).
Qed.

(* ------------------------------------------------------------------ the invariant *)
(* a member's rename is the wire name only when it differs from the identifier (util.rs recase) *)
Definition rn_ok (p : prop) : Prop :=
  match p_rename p with RNone => True | RRename s => s <> p_name p | RFlatten => False end.

Definition SD (d : details) : Prop :=
  match d with
  | DStruct _ _ ps _ => keys_sorted (map p_name ps) = true /\ forall p, In p ps -> rn_ok p
  | _ => True
  end.

Definition SI (s : st) : Prop := forall i e, lk s i = Some e -> SD (e_det e).

Lemma assign_SI te s t s' : assign te s = (t, s') -> SI s -> SD te -> SI s'.
Proof.
  intros Ha Hs Hd i e H. destruct (assign_new te s t s' Ha i e H) as [H'|(_ & -> & _)].
  - exact (Hs i e H').
  - exact Hd.
Qed.

Lemma set_json_SI s : SI s -> SI (set_json s).
Proof. intros H i e. rewrite set_json_lk. apply H. Qed.

Lemma set_regress_SI s : SI s -> SI (set_regress s).
Proof. intros H i e He. exact (H i e He). Qed.

Section Sorted.
  Variable cls : Heck.CharClasses.
  Variable rid : ustring -> option id.
  Local Notation cvf := (conv cls rid).

  Definition SortP (s : schema) : Prop :=
    forall nm s0 te s1, cvf s nm s0 = Some (te, s1) -> SI s0 -> SI s1 /\ SD te.

  Lemma conv_prop_sorted base req k s' : SortP s' -> forall s0 p s3,
    conv_prop cls cvf base req k s' s0 = Some (p, s3) -> SI s0 -> SI s3.
  Proof.
    intros HP s0 p s3 H Hs. unfold conv_prop in H.
    destruct (cvf s' (prop_type_name cls base k) s0) as [[te sa]|] eqn:Hc; [|discriminate].
    destruct (HP _ _ _ _ Hc Hs) as [Hsa Hte].
    destruct (assign te sa) as [t sb] eqn:Ha.
    pose proof (assign_SI _ _ _ _ Ha Hsa Hte) as Hsb.
    destruct (Sanitize.recase cls k Sanitize.Snake) as [ident rn].
    destruct (mem_ustr k req); [injection H as _ <-; exact Hsb|].
    destruct (has_intrinsic_default sb t); [injection H as _ <-; exact Hsb|].
    destruct (assign (DOption t) sb) as [o sc] eqn:Ho. injection H as _ <-.
    exact (assign_SI _ _ _ _ Ho Hsb I).
  Qed.

  Lemma conv_props_sorted base req : forall props,
    Forall (fun kv => SortP (snd kv)) props -> forall s0 ps s1,
    conv_props cls cvf base req props s0 = Some (ps, s1) -> SI s0 -> SI s1.
  Proof.
    induction props as [|[k s'] props IH]; intros HP s0 ps s1 H Hs; cbn [conv_props] in H.
    - injection H as _ <-. exact Hs.
    - inversion HP as [|? ? HP1 HP2]; subst.
      destruct (conv_prop cls cvf base req k s' s0) as [[p sa]|] eqn:Hp; [|discriminate].
      destruct (conv_props cls cvf base req props sa) as [[l sb]|] eqn:Hr; [|discriminate].
      injection H as _ <-. eapply IH; [exact HP2|exact Hr|].
      exact (conv_prop_sorted base req k s' HP1 _ _ _ Hp Hs).
  Qed.

  Lemma conv_items_sorted nm : forall l, Forall SortP l -> forall i s0 ts s1,
    conv_items cvf nm i l s0 = Some (ts, s1) -> SI s0 -> SI s1.
  Proof.
    induction l as [|it l IH]; intros HP i s0 ts s1 H Hs; cbn [conv_items] in H.
    - injection H as _ <-. exact Hs.
    - inversion HP as [|? ? HP1 HP2]; subst.
      destruct (cvf it (idx_name nm i) s0) as [[te sa]|] eqn:Hc; [|discriminate].
      destruct (HP1 _ _ _ _ Hc Hs) as [Hsa Hte].
      destruct (assign te sa) as [t sb] eqn:Ha.
      destruct (conv_items cvf nm (S i) l sb) as [[ts' sc]|] eqn:Hr; [|discriminate].
      injection H as _ <-. eapply IH; [exact HP2|exact Hr|].
      exact (assign_SI _ _ _ _ Ha Hsa Hte).
  Qed.

  Lemma conv_prop_rn (cv : schema -> name -> st -> option (details * st)) base req k s' s0 p s3 :
    conv_prop cls cv base req k s' s0 = Some (p, s3) -> rn_ok p.
  Proof.
    unfold conv_prop. destruct (cv s' (prop_type_name cls base k) s0) as [[te sa]|]; [|discriminate].
    destruct (assign te sa) as [t sb].
    unfold Sanitize.recase.
    assert (Hr : rn_ok (mkProp (Sanitize.sanitize cls k Sanitize.Snake)
                  (match (if Heck.ustring_eqb (Sanitize.sanitize cls k Sanitize.Snake) k then None else Some k) with
                   | Some old => RRename old | None => RNone end) PRequired 0)).
    { unfold rn_ok. cbn [p_rename p_name].
      destruct (Heck.ustring_eqb (Sanitize.sanitize cls k Sanitize.Snake) k) eqn:E; [exact I|].
      apply SanitizeProofs.ustring_eqb_neq in E. intro C. apply E. symmetry. exact C. }
    destruct (mem_ustr k req); [intro H; injection H as <- _; exact Hr|].
    destruct (has_intrinsic_default sb t); [intro H; injection H as <- _; exact Hr|].
    destruct (assign (DOption t) sb). intro H. injection H as <- _. exact Hr.
  Qed.

  Lemma conv_props_rn (cv : schema -> name -> st -> option (details * st)) base req : forall props s0 ps s1,
    conv_props cls cv base req props s0 = Some (ps, s1) -> forall p, In p ps -> rn_ok p.
  Proof.
    induction props as [|[k s'] props IH]; intros s0 ps s1 H p Hp; cbn [conv_props] in H.
    - injection H as <- _. destruct Hp.
    - destruct (conv_prop cls cv base req k s' s0) as [[q sa]|] eqn:Hq; [|discriminate].
      destruct (conv_props cls cv base req props sa) as [[l sb]|] eqn:Hr; [|discriminate].
      injection H as <- _. destruct Hp as [<-|Hp]; [exact (conv_prop_rn _ _ _ _ _ _ _ _ Hq)|exact (IH _ _ _ Hr p Hp)].
  Qed.

  Lemma conv_xvar_sorted nm v sc s0 vd dn s1 :
    SortP sc -> conv_xvar cvf nm v sc s0 = Some (vd, dn, s1) -> SI s0 -> SI s1.
  Proof.
    intros HP H Hs. unfold conv_xvar in H. destruct (cvf sc _ s0) as [[te sa]|] eqn:Hc; [|discriminate].
    destruct (HP _ _ _ _ Hc Hs) as [Hsa Hte].
    destruct te; try (injection H as _ _ <-; exact Hsa);
      destruct (assign _ sa) as [t9 sb] eqn:Ha; injection H as _ _ <-; exact (assign_SI _ _ _ _ Ha Hsa Hte).
  Qed.

  Lemma conv_xbranches_sorted nm : forall bs, Forall (PropP SortP) bs -> forall s0 rvs dn s1,
    conv_xbranches cvf nm bs s0 = Some (rvs, dn, s1) -> SI s0 -> SI s1.
  Proof.
    induction bs as [|b r IH]; intros HQ s0 rvs dn s1 H Hs; cbn [conv_xbranches] in H.
    - injection H as _ _ <-. exact Hs.
    - destruct b as [bb|bty bfmt benum bcst bnv bsv bik bitems bai bmni bmxi buq bprops breq bap bmnp bmxp ballo banyo boneo bno bref bdflt btitle];
        [discriminate|].
      assert (Hrest : forall vs1 d1 sa, SI sa ->
                match conv_xbranches cvf nm r sa with
                | Some (vs2, d2, s2) => Some (vs1 ++ vs2, d1 || d2, s2)
                | None => None
                end = Some (rvs, dn, s1) -> SI s1).
      { intros vs1 d1 sa F Hx. destruct (conv_xbranches cvf nm r sa) as [[[vs2 d2] s2]|] eqn:Hr; [|discriminate].
        injection Hx as _ _ <-. exact (IH (Forall_inv_tail HQ) _ _ _ _ Hr F). }
      destruct bprops as [|[v sc] [|]].
      + destruct (xsimple _); [|discriminate]. exact (Hrest _ _ _ Hs H).
      + destruct (conv_xvar cvf nm v sc s0) as [[[vd deny] sa]|] eqn:Hv; [|discriminate].
        refine (Hrest _ _ _ _ H). exact (conv_xvar_sorted _ _ _ _ _ _ _ (Forall_inv HQ v sc (or_introl eq_refl)) Hv Hs).
      + destruct (xsimple _); [|discriminate]. exact (Hrest _ _ _ Hs H).
  Qed.


  Lemma conv_avariant_sorted nm tg ct b s0 v vd d s1 :
    PropP SortP b -> conv_avariant cvf nm tg ct b s0 = Some (v, vd, d, s1) -> SI s0 -> SI s1.
  Proof.
    intros HQ. destruct b as [bb|bty bfmt benum bcst bnv bsv bik bitems bai bmni bmxi buq bprops breq bap bmnp bmxp ballo banyo boneo bno bref bdflt btitle];
      [discriminate|]. cbn [conv_avariant].
    assert (Hpay : forall (vn : option ustring) sc, SortP sc ->
              match vn with
              | Some v0 => match conv_xvar cvf nm (match nm with NRequired _ => ct | _ => v0 end) sc s0 with
                           | Some (vd0, deny, sa) => Some (v0, vd0, deny, sa)
                           | None => None
                           end
              | None => None
              end = Some (v, vd, d, s1) -> SI s0 -> SI s1).
    { intros [v0|] sc HQs H; [|discriminate].
      destruct (conv_xvar cvf nm _ sc s0) as [[[vd0 deny] sa]|] eqn:Hv; [|discriminate]. injection H as _ _ _ <-.
      exact (conv_xvar_sorted _ _ _ _ _ _ _ HQs Hv). }
    destruct bprops as [|[k1 s1'] [|[k2 s2'] [|]]]; try discriminate.
    - destruct (cstr s1'); [|discriminate]. intro H. injection H as _ _ _ <-. exact (fun H => H).
    - destruct (ustr_eqb k1 tg).
      + apply Hpay. apply (HQ k2 s2'). right. left. reflexivity.
      + apply Hpay. apply (HQ k1 s1'). left. reflexivity.
  Qed.

  Lemma conv_abranches_sorted nm tg ct : forall bs, Forall (PropP SortP) bs -> forall s0 rvs dn s1,
    conv_abranches cvf nm tg ct bs s0 = Some (rvs, dn, s1) -> SI s0 -> SI s1.
  Proof.
    induction bs as [|b r IH]; intros HQ s0 rvs dn s1 H; cbn [conv_abranches] in H.
    - injection H as _ _ <-. exact (fun H => H).
    - destruct (conv_avariant cvf nm tg ct b s0) as [[[[v vd] d1] sa]|] eqn:Hv; [|discriminate].
      destruct (conv_abranches cvf nm tg ct r sa) as [[[vs2 d2] s2]|] eqn:Hr; [|discriminate].
      injection H as _ _ <-. intro Hs. exact (IH (Forall_inv_tail HQ) _ _ _ _ Hr (conv_avariant_sorted _ _ _ _ _ _ _ _ _ (Forall_inv HQ) Hv Hs)).
  Qed.

  Lemma conv_props_skip_sorted tg base req : forall props, Forall (fun kv => SortP (snd kv)) props -> forall s0 ps s1,
    conv_props_skip cls cvf tg base req props s0 = Some (ps, s1) -> SI s0 -> SI s1.
  Proof.
    induction props as [|[k s'] props IH]; intros HQ s0 ps s1 H; cbn [conv_props_skip] in H.
    - injection H as _ <-. exact (fun H => H).
    - destruct (ustr_eqb k tg); [exact (IH (Forall_inv_tail HQ) _ _ _ H)|].
      destruct base as [b0|]; [|discriminate].
      destruct (conv_prop cls cvf b0 req k s' s0) as [[p sa]|] eqn:Hp; [|discriminate].
      destruct (conv_props_skip cls cvf tg (Some b0) req props sa) as [[l sb]|] eqn:Hr; [|discriminate].
      injection H as _ <-. intro Hs. exact (IH (Forall_inv_tail HQ) _ _ _ Hr (conv_prop_sorted _ _ _ _ (Forall_inv HQ) _ _ _ Hp Hs)).
  Qed.

  Lemma conv_ivariant_sorted nm tg b s0 v vd s1 :
    PropP SortP b -> conv_ivariant cls cvf nm tg b s0 = Some (v, vd, s1) -> SI s0 -> SI s1.
  Proof.
    intros HQ. assert (HF : Forall (fun kv => SortP (snd kv)) (sch_props b)).
    { apply Forall_forall. intros [k sc] Hin. exact (HQ k sc Hin). }
    destruct b as [bb|bty bfmt benum bcst bnv bsv bik bitems bai bmni bmxi buq bprops breq bap bmnp bmxp ballo banyo boneo bno bref bdflt btitle];
      [discriminate|]. cbn [conv_ivariant]. cbn [sch_props] in HF.
    assert (Hgen : match match assoc tg bprops with Some ts => cstr ts | None => None end with
                   | Some v0 =>
                       match conv_props_skip cls cvf tg (name_opt nm) breq bprops s0 with
                       | Some (ps, sa) =>
                           if Sanitize.unique (map p_name (sort_props ps)) then Some (v0, VStruct (sort_props ps), sa) else None
                       | None => None
                       end
                   | None => None
                   end = Some (v, vd, s1) -> SI s0 -> SI s1).
    { destruct (match assoc tg bprops with Some ts => cstr ts | None => None end); [|discriminate].
      destruct (conv_props_skip cls cvf tg (name_opt nm) breq bprops s0) as [[ps sa]|] eqn:Hp; [|discriminate].
      destruct (Sanitize.unique _); [|discriminate]. intro H. injection H as _ _ <-.
      exact (conv_props_skip_sorted _ _ _ _ HF _ _ _ Hp). }
    destruct bprops as [|[k1 s1'] [|kv2 rest]]; try exact Hgen.
    destruct (cstr s1'); [|discriminate]. intro H. injection H as _ _ <-. exact (fun H => H).
  Qed.

  Lemma conv_ibranches_sorted nm tg : forall bs, Forall (PropP SortP) bs -> forall s0 rvs s1,
    conv_ibranches cls cvf nm tg bs s0 = Some (rvs, s1) -> SI s0 -> SI s1.
  Proof.
    induction bs as [|b r IH]; intros HQ s0 rvs s1 H; cbn [conv_ibranches] in H.
    - injection H as _ <-. exact (fun H => H).
    - destruct (conv_ivariant cls cvf nm tg b s0) as [[[v vd] sa]|] eqn:Hv; [|discriminate].
      destruct (conv_ibranches cls cvf nm tg r sa) as [[vs2 s2]|] eqn:Hr; [|discriminate].
      injection H as _ <-. intro Hs. exact (IH (Forall_inv_tail HQ) _ _ _ Hr (conv_ivariant_sorted _ _ _ _ _ _ _ (Forall_inv HQ) Hv Hs)).
  Qed.

  Lemma conv_ubranches_sorted n : forall bs, Forall SortP bs -> forall i s0 rvs dn s1,
    conv_ubranches cvf n i bs s0 = Some (rvs, dn, s1) -> SI s0 -> SI s1.
  Proof.
    induction bs as [|b r IH]; intros HQ i s0 rvs dn s1 H; cbn [conv_ubranches] in H.
    - injection H as _ _ <-. exact (fun H => H).
    - destruct (conv_xvar cvf (NSuggested n) _ b s0) as [[[vd d1] sa]|] eqn:Hv; [|discriminate].
      destruct (conv_ubranches cvf n (S i) r sa) as [[[vs2 d2] s2]|] eqn:Hr; [|discriminate].
      injection H as _ _ <-. intro Hs.
      exact (IH (Forall_inv_tail HQ) _ _ _ _ _ Hr (conv_xvar_sorted _ _ _ _ _ _ _ (Forall_inv HQ) Hv Hs)).
  Qed.

  Lemma conv_kind_sorted items props req ap oneo k nm s0 te s1 :
    Forall SortP items -> Forall (fun kv => SortP (snd kv)) props -> OForall SortP ap ->
    OForall (Forall (fun b => SortP b /\ PropP SortP b)) oneo ->
    conv_kind cls rid cvf k nm items props req ap oneo s0 = Some (te, s1) -> SI s0 -> SI s1 /\ SD te.
  Proof.
    intros HPi HPp HPa HPo0 H Hs. destruct (arms_props SortP oneo HPo0) as [HPo HPoB].
    destruct k as [| | | |mx mn pat|r|raws|deny| | |c|c|r| |tg|]; cbn [conv_kind] in H.
    16: { (* KOpt *)
      destruct oneo as [[|a [|b [|]]]|]; try discriminate. cbn [OForall] in HPoB.
      assert (Hgen : forall arm, SortP arm ->
                match cvf arm (inner_name nm) s0 with
                | Some (te0, sa) => let '(i, sb) := assign te0 sa in Some (DOption i, sb)
                | None => None end = Some (te, s1) -> SI s1 /\ SD te).
      { intros arm HQa Hx. destruct (cvf arm (inner_name nm) s0) as [[te0 sa]|] eqn:Hc; [|discriminate].
        destruct (HQa _ _ _ _ Hc Hs) as [Hsa Hte].
        destruct (assign te0 sa) as [i sb] eqn:Ha. injection Hx as <- <-.
        split; [exact (assign_SI _ _ _ _ Ha Hsa Hte)|exact I]. }
      destruct (nullish a); [exact (Hgen b (Forall_inv (Forall_inv_tail HPoB)) H)|exact (Hgen a (Forall_inv HPoB) H)]. }
    15: { destruct tg as [|tg|tg ct|]; (destruct (type_name cls nm); [|discriminate]);
            (destruct oneo as [bs|]; [|discriminate]); cbn [OForall] in HPo, HPoB.
          4: { destruct (conv_ubranches cvf u 0 bs s0) as [[[rvs deny] sa]|] eqn:Hb; [|discriminate].
               destruct (_ <=? _)%nat; [discriminate|].
               unfold mk_tagged in H. destruct (Sanitize.variant_idents cls (map fst rvs)); try discriminate.
               injection H as <- <-. split; [exact (conv_ubranches_sorted _ _ HPoB _ _ _ _ _ Hb Hs)|exact I]. }
          - destruct (conv_xbranches cvf nm bs s0) as [[[rvs deny] sa]|] eqn:Hb; [|discriminate].
            unfold mk_tagged in H. destruct (Sanitize.variant_idents cls (map fst rvs)); try discriminate.
            injection H as <- <-. split; [exact (conv_xbranches_sorted _ _ HPo _ _ _ _ Hb Hs)|exact I].
          - destruct (conv_ibranches cls cvf nm tg bs s0) as [[rvs sa]|] eqn:Hb; [|discriminate].
            unfold mk_tagged in H. destruct (Sanitize.variant_idents cls (map fst rvs)); try discriminate.
            injection H as <- <-. split; [exact (conv_ibranches_sorted _ _ _ HPo _ _ _ Hb Hs)|exact I].
          - destruct (conv_abranches cvf nm tg ct bs s0) as [[[rvs deny] sa]|] eqn:Hb; [|discriminate].
            unfold mk_tagged in H. destruct (Sanitize.variant_idents cls (map fst rvs)); try discriminate.
            injection H as <- <-. split; [exact (conv_abranches_sorted _ _ _ _ HPo _ _ _ _ Hb Hs)|exact I]. }
    - injection H as <- <-. split; [exact Hs|exact I].
    - injection H as <- <-. split; [exact Hs|exact I].
    - injection H as <- <-. split; [exact Hs|exact I].
    - injection H as <- <-. split; [exact Hs|exact I].
    - (* KStrC *)
      destruct (assign DString _) as [sid sa] eqn:Ha.
      destruct (type_name cls nm); [|discriminate]. injection H as <- <-.
      split; [|exact I]. eapply assign_SI; [exact Ha| |exact I].
      destruct pat; [apply set_regress_SI|]; exact Hs.
    - injection H as <- <-. split; [exact Hs|exact I].
    - (* KEnum *)
      destruct (type_name cls nm); [|discriminate]. unfold mk_enum in H.
      destruct (Sanitize.variant_idents cls raws); try discriminate. injection H as <- <-.
      split; [exact Hs|exact I].
    - (* KStruct *)
      destruct (type_name cls nm) as [base|]; [|discriminate].
      destruct (conv_props cls cvf base req props s0) as [[ps sa]|] eqn:Hcp; [|discriminate].
      destruct (Sanitize.unique (map p_name (sort_props ps))) eqn:Hu; [|discriminate].
      injection H as <- <-. split.
      + exact (conv_props_sorted base req props HPp _ _ _ Hcp Hs).
      + cbn [SD]. split; [apply le_sorted_NoDup_strict; [apply sort_props_le|apply unique_true_iff; exact Hu]|].
        intros p Hp. apply (conv_props_rn _ _ _ _ _ _ _ Hcp).
        eapply Permutation.Permutation_in; [apply sort_props_perm|exact Hp].
    - (* KMap *)
      destruct (assign DString s0) as [kid sk] eqn:Hk.
      pose proof (assign_SI _ _ _ _ Hk Hs I) as Hsk.
      destruct ap as [vs|].
      + destruct (cvf vs (value_name nm) sk) as [[tv sb]|] eqn:Hc; [|discriminate].
        cbn [OForall] in HPa. destruct (HPa _ _ _ _ Hc Hsk) as [Hsb Htv].
        destruct (assign tv sb) as [vid sc] eqn:Hv. injection H as <- <-.
        split; [exact (assign_SI _ _ _ _ Hv Hsb Htv)|exact I].
      + destruct (assign DJsonValue (set_json sk)) as [vid sc] eqn:Hv. injection H as <- <-.
        split; [|exact I]. eapply assign_SI; [exact Hv|apply set_json_SI; exact Hsk|exact I].
    - (* KTuple *)
      destruct (conv_items cvf nm 0 items s0) as [[ts sa]|] eqn:Hc; [|discriminate].
      injection H as <- <-. split; [exact (conv_items_sorted nm items HPi _ _ _ _ Hc Hs)|exact I].
    - (* KVec *)
      destruct items as [|it [|? ?]]; try discriminate.
      destruct (cvf it (seq_item_name cls c nm) s0) as [[ti sa]|] eqn:Hc; [|discriminate].
      destruct (Forall_inv HPi _ _ _ _ Hc Hs) as [Hsa Hti].
      destruct (assign ti sa) as [i sb] eqn:Ha. injection H as <- <-.
      split; [exact (assign_SI _ _ _ _ Ha Hsa Hti)|destruct c; exact I].
    - (* KVecAny *)
      destruct (assign DJsonValue (set_json s0)) as [i sa] eqn:Ha. injection H as <- <-.
      split; [|destruct c; exact I]. eapply assign_SI; [exact Ha|apply set_json_SI; exact Hs|exact I].
    - (* KRef *)
      destruct (rid r); [|discriminate]. injection H as <- <-. split; [exact Hs|exact I].
    - injection H as <- <-. split; [apply set_json_SI; exact Hs|exact I].
  Qed.

  Lemma conv_sorted : forall s, SortP s.
  Proof.
    apply schema_ind_p.
    - intros [|] nm s0 te s1 H Hs; cbn [conv union_of] in H; [|discriminate].
      injection H as <- <-. split; [apply set_json_SI; exact Hs|exact I].
    - intros ty fmt enum cst nv sv ik items ai mni mxi uq props req ap mnp mxp allo anyo oneo no ref dflt title
             IHitems IHprops IHap IHone IHany.
      intros nm s0 te s1 H Hs. cbn [conv] in H.
      pose proof (union_IH _ oneo anyo IHone IHany) as IHu. change (OForall (Forall (fun b => SortP b /\ PropP SortP b)) (union_of oneo anyo)) in IHu.
      destruct (classify ty fmt enum cst nv sv ik items ai mni mxi uq props req ap mnp mxp allo anyo oneo no ref dflt title)
        as [[nl k]|]; cbn [conv_node] in H; [|discriminate].
      destruct nl.
      + destruct (conv_kind cls rid cvf k (inner_name nm) items props req ap (union_of oneo anyo) s0) as [[ti sa]|] eqn:Hc; [|discriminate].
        destruct (conv_kind_sorted _ _ _ _ _ _ _ _ _ _ IHitems IHprops IHap IHu Hc Hs) as [Hsa Hti].
        destruct (assign ti sa) as [i sb] eqn:Ha. injection H as <- <-.
        split; [exact (assign_SI _ _ _ _ Ha Hsa Hti)|exact I].
      + exact (conv_kind_sorted _ _ _ _ _ _ _ _ _ _ IHitems IHprops IHap IHu H Hs).
  Qed.

  Lemma put_SI s t ent names types flags :
    SI s -> SD ent ->
    SI (mkSt (st_next s) (put t (mkEntry ent []) (st_ents s)) names types flags).
  Proof.
    intros Hs Hd i e H. unfold lk in H. cbn [st_ents] in H. rewrite lookup_put in H.
    destruct (i =? t); [injection H as <-; exact Hd|exact (Hs i e H)].
  Qed.

  Lemma conv_def_sorted d sch t s0 s3 : conv_def cls rid d sch t s0 = Some s3 -> SI s0 -> SI s3.
  Proof.
    intros H Hs. unfold conv_def in H.
    destruct (cvf sch (NRequired d) s0) as [[te s1]|] eqn:Hc; [|discriminate].
    destruct (conv_sorted sch _ _ _ _ Hc Hs) as [Hs1 Hte].
    set (n := Sanitize.sanitize cls d Sanitize.Pascal) in *.
    destruct te; try (destruct (assign _ s1) as [i s2] eqn:Ha); cbn [det_name] in H; injection H as <-;
      apply put_SI; first [exact Hs1|exact (assign_SI _ _ _ _ Ha Hs1 Hte)|exact Hte|exact I].
  Qed.

  Lemma conv_defs_sorted : forall ds t s0 sf, conv_defs cls rid ds t s0 = Some sf -> SI s0 -> SI sf.
  Proof.
    induction ds as [|[d sch] ds IH]; intros t s0 sf H Hs; cbn [conv_defs] in H.
    - injection H as <-. exact Hs.
    - destruct (conv_def cls rid d sch t s0) as [s1|] eqn:Hc; [|discriminate].
      exact (IH _ _ _ H (conv_def_sorted _ _ _ _ _ Hc Hs)).
  Qed.
End Sorted.

Theorem convert_structs_sorted cls D T :
  convert_doc cls D = Some T ->
  forall i n dv ps deny, get_det T i = Some (DStruct n dv ps deny) ->
  keys_sorted (map p_name ps) = true /\ forall p, In p ps -> rn_ok p.
Proof.
  intros Hc i n dv ps deny Hg. unfold convert_doc in Hc.
  destruct (negb (Sanitize.unique (def_names cls D))); [discriminate|].
  destruct (conv_defs cls (ref_id D) D 1 _) as [sf|] eqn:Hcd; [|discriminate]. injection Hc as <-.
  assert (HS : SI sf).
  { eapply conv_defs_sorted; [exact Hcd|]. intros j e H. discriminate H. }
  unfold get_det, get in Hg. cbn [space_of sp_entries] in Hg.
  destruct (lookup_id i (st_ents sf)) as [e|] eqn:He; [|discriminate]. cbn [option_map] in Hg.
  injection Hg as Hg. pose proof (HS i e He) as Hd. rewrite Hg in Hd. exact Hd.
Qed.

(* ------------------------------------------------------------------ what sits in a definition's slot
   ([topshape] allows "the shape, or an alias newtype around it"; for C04F we need to know that a
   definition whose own conversion yields a struct / enum / newtype is stored AS SUCH).  Unconditional
   frame property of [conv] (no fragment / freshness premise), then the slots through [conv_defs]. *)
Lemma assign_frame te s t s' : assign te s = (t, s') -> frame s s'.
Proof.
  intro Ha.
  assert (Hgen : forall te0,
    (match det_name te0 with
     | Some n =>
         match assoc n (st_names s) with
         | Some i => (i, s)
         | None => (st_next s, mkSt (st_next s + 1) (put (st_next s) (mkEntry te0 []) (st_ents s))
                                    ((n, st_next s) :: st_names s) (st_types s) (st_flags s))
         end
     | None =>
         match find_type te0 (st_types s) with
         | Some i => (i, s)
         | None => (st_next s, mkSt (st_next s + 1) (put (st_next s) (mkEntry te0 []) (st_ents s)) (st_names s)
                                    ((te0, st_next s) :: st_types s) (st_flags s))
         end
     end) = (t, s') -> frame s s').
  { intros te0 Hq.
    assert (Hf : forall names types, frame s (mkSt (st_next s + 1) (put (st_next s) (mkEntry te0 []) (st_ents s)) names types (st_flags s))).
    { intros names types. split; [cbn [st_next]; lia|]. intros i Hi. unfold lk. cbn [st_ents]. rewrite lookup_put.
      destruct (i =? st_next s) eqn:E; [apply N.eqb_eq in E; lia|reflexivity]. }
    destruct (det_name te0).
    - destruct (assoc u (st_names s)); injection Hq as _ <-; [apply frame_refl|apply Hf].
    - destruct (find_type te0 (st_types s)); injection Hq as _ <-; [apply frame_refl|apply Hf]. }
  destruct te; match type of Ha with assign ?x s = _ => try exact (Hgen x Ha) end.
  cbn [assign] in Ha. injection Ha as _ <-. apply frame_refl.
Qed.

Lemma frame_set_json s : frame s (set_json s).
Proof. split; [cbn; lia|intros i _; reflexivity]. Qed.
Lemma frame_set_regress s : frame s (set_regress s).
Proof. split; [cbn; lia|intros i _; reflexivity]. Qed.

Section Slots.
  Variable cls : Heck.CharClasses.
  Variable rid : ustring -> option id.
  Local Notation cvf := (conv cls rid).

  Definition FrameP (s : schema) : Prop := forall nm s0 te s1, cvf s nm s0 = Some (te, s1) -> frame s0 s1.

  Lemma conv_prop_frame base req k s' : FrameP s' -> forall s0 p s3,
    conv_prop cls cvf base req k s' s0 = Some (p, s3) -> frame s0 s3.
  Proof.
    intros HP s0 p s3 H. unfold conv_prop in H.
    destruct (cvf s' (prop_type_name cls base k) s0) as [[te sa]|] eqn:Hc; [|discriminate].
    pose proof (HP _ _ _ _ Hc) as F1.
    destruct (assign te sa) as [t sb] eqn:Ha. pose proof (assign_frame _ _ _ _ Ha) as F2.
    destruct (Sanitize.recase cls k Sanitize.Snake) as [ident rn].
    destruct (mem_ustr k req); [injection H as _ <-; eapply frame_trans; eassumption|].
    destruct (has_intrinsic_default sb t); [injection H as _ <-; eapply frame_trans; eassumption|].
    destruct (assign (DOption t) sb) as [o sc] eqn:Ho. injection H as _ <-.
    eapply frame_trans; [exact F1|]. eapply frame_trans; [exact F2|exact (assign_frame _ _ _ _ Ho)].
  Qed.

  Lemma conv_props_frame base req : forall props,
    Forall (fun kv => FrameP (snd kv)) props -> forall s0 ps s1,
    conv_props cls cvf base req props s0 = Some (ps, s1) -> frame s0 s1.
  Proof.
    induction props as [|[k s'] props IH]; intros HP s0 ps s1 H; cbn [conv_props] in H.
    - injection H as _ <-. apply frame_refl.
    - inversion HP as [|? ? HP1 HP2]; subst.
      destruct (conv_prop cls cvf base req k s' s0) as [[p sa]|] eqn:Hp; [|discriminate].
      destruct (conv_props cls cvf base req props sa) as [[l sb]|] eqn:Hr; [|discriminate].
      injection H as _ <-. eapply frame_trans; [exact (conv_prop_frame base req k s' HP1 _ _ _ Hp)|exact (IH HP2 _ _ _ Hr)].
  Qed.

  Lemma conv_items_frame nm : forall l, Forall FrameP l -> forall i s0 ts s1,
    conv_items cvf nm i l s0 = Some (ts, s1) -> frame s0 s1.
  Proof.
    induction l as [|it l IH]; intros HP i s0 ts s1 H; cbn [conv_items] in H.
    - injection H as _ <-. apply frame_refl.
    - inversion HP as [|? ? HP1 HP2]; subst.
      destruct (cvf it (idx_name nm i) s0) as [[te sa]|] eqn:Hc; [|discriminate].
      destruct (assign te sa) as [t sb] eqn:Ha.
      destruct (conv_items cvf nm (S i) l sb) as [[ts' sc]|] eqn:Hr; [|discriminate].
      injection H as _ <-. eapply frame_trans; [exact (HP1 _ _ _ _ Hc)|].
      eapply frame_trans; [exact (assign_frame _ _ _ _ Ha)|exact (IH HP2 _ _ _ _ Hr)].
  Qed.

  Lemma conv_xvar_frame nm v sc s0 vd dn s1 :
    FrameP sc -> conv_xvar cvf nm v sc s0 = Some (vd, dn, s1) -> frame s0 s1.
  Proof.
    intros HP H. unfold conv_xvar in H. destruct (cvf sc _ s0) as [[te sa]|] eqn:Hc; [|discriminate].
    pose proof (HP _ _ _ _ Hc) as F1.
    destruct te; try (injection H as _ _ <-; exact F1);
      destruct (assign _ sa) as [t9 sb] eqn:Ha; injection H as _ _ <-;
      (eapply frame_trans; [exact F1|exact (assign_frame _ _ _ _ Ha)]).
  Qed.

  Lemma conv_xbranches_frame nm : forall bs, Forall (PropP FrameP) bs -> forall s0 rvs dn s1,
    conv_xbranches cvf nm bs s0 = Some (rvs, dn, s1) -> frame s0 s1.
  Proof.
    induction bs as [|b r IH]; intros HQ s0 rvs dn s1 H; cbn [conv_xbranches] in H.
    - injection H as _ _ <-. apply frame_refl.
    - destruct b as [bb|bty bfmt benum bcst bnv bsv bik bitems bai bmni bmxi buq bprops breq bap bmnp bmxp ballo banyo boneo bno bref bdflt btitle];
        [discriminate|].
      assert (Hrest : forall vs1 d1 sa, frame s0 sa ->
                match conv_xbranches cvf nm r sa with
                | Some (vs2, d2, s2) => Some (vs1 ++ vs2, d1 || d2, s2)
                | None => None
                end = Some (rvs, dn, s1) -> frame s0 s1).
      { intros vs1 d1 sa F Hx. destruct (conv_xbranches cvf nm r sa) as [[[vs2 d2] s2]|] eqn:Hr; [|discriminate].
        injection Hx as _ _ <-. eapply frame_trans; [exact F|exact (IH (Forall_inv_tail HQ) _ _ _ _ Hr)]. }
      destruct bprops as [|[v sc] [|]].
      + destruct (xsimple _); [|discriminate]. exact (Hrest _ _ _ (frame_refl s0) H).
      + destruct (conv_xvar cvf nm v sc s0) as [[[vd deny] sa]|] eqn:Hv; [|discriminate].
        refine (Hrest _ _ _ _ H). exact (conv_xvar_frame _ _ _ _ _ _ _ (Forall_inv HQ v sc (or_introl eq_refl)) Hv).
      + destruct (xsimple _); [|discriminate]. exact (Hrest _ _ _ (frame_refl s0) H).
  Qed.


  Lemma conv_avariant_frame nm tg ct b s0 v vd d s1 :
    PropP FrameP b -> conv_avariant cvf nm tg ct b s0 = Some (v, vd, d, s1) -> frame s0 s1.
  Proof.
    intros HQ. destruct b as [bb|bty bfmt benum bcst bnv bsv bik bitems bai bmni bmxi buq bprops breq bap bmnp bmxp ballo banyo boneo bno bref bdflt btitle];
      [discriminate|]. cbn [conv_avariant].
    assert (Hpay : forall (vn : option ustring) sc, FrameP sc ->
              match vn with
              | Some v0 => match conv_xvar cvf nm (match nm with NRequired _ => ct | _ => v0 end) sc s0 with
                           | Some (vd0, deny, sa) => Some (v0, vd0, deny, sa)
                           | None => None
                           end
              | None => None
              end = Some (v, vd, d, s1) -> frame s0 s1).
    { intros [v0|] sc HQs H; [|discriminate].
      destruct (conv_xvar cvf nm _ sc s0) as [[[vd0 deny] sa]|] eqn:Hv; [|discriminate]. injection H as _ _ _ <-.
      exact (conv_xvar_frame _ _ _ _ _ _ _ HQs Hv). }
    destruct bprops as [|[k1 s1'] [|[k2 s2'] [|]]]; try discriminate.
    - destruct (cstr s1'); [|discriminate]. intro H. injection H as _ _ _ <-. apply frame_refl.
    - destruct (ustr_eqb k1 tg).
      + apply Hpay. apply (HQ k2 s2'). right. left. reflexivity.
      + apply Hpay. apply (HQ k1 s1'). left. reflexivity.
  Qed.

  Lemma conv_abranches_frame nm tg ct : forall bs, Forall (PropP FrameP) bs -> forall s0 rvs dn s1,
    conv_abranches cvf nm tg ct bs s0 = Some (rvs, dn, s1) -> frame s0 s1.
  Proof.
    induction bs as [|b r IH]; intros HQ s0 rvs dn s1 H; cbn [conv_abranches] in H.
    - injection H as _ _ <-. apply frame_refl.
    - destruct (conv_avariant cvf nm tg ct b s0) as [[[[v vd] d1] sa]|] eqn:Hv; [|discriminate].
      destruct (conv_abranches cvf nm tg ct r sa) as [[[vs2 d2] s2]|] eqn:Hr; [|discriminate].
      injection H as _ _ <-. eapply frame_trans; [exact (conv_avariant_frame _ _ _ _ _ _ _ _ _ (Forall_inv HQ) Hv)|exact (IH (Forall_inv_tail HQ) _ _ _ _ Hr)].
  Qed.

  Lemma conv_props_skip_frame tg base req : forall props, Forall (fun kv => FrameP (snd kv)) props -> forall s0 ps s1,
    conv_props_skip cls cvf tg base req props s0 = Some (ps, s1) -> frame s0 s1.
  Proof.
    induction props as [|[k s'] props IH]; intros HQ s0 ps s1 H; cbn [conv_props_skip] in H.
    - injection H as _ <-. apply frame_refl.
    - destruct (ustr_eqb k tg); [exact (IH (Forall_inv_tail HQ) _ _ _ H)|].
      destruct base as [b0|]; [|discriminate].
      destruct (conv_prop cls cvf b0 req k s' s0) as [[p sa]|] eqn:Hp; [|discriminate].
      destruct (conv_props_skip cls cvf tg (Some b0) req props sa) as [[l sb]|] eqn:Hr; [|discriminate].
      injection H as _ <-. eapply frame_trans; [exact (conv_prop_frame _ _ _ _ (Forall_inv HQ) _ _ _ Hp)|exact (IH (Forall_inv_tail HQ) _ _ _ Hr)].
  Qed.

  Lemma conv_ivariant_frame nm tg b s0 v vd s1 :
    PropP FrameP b -> conv_ivariant cls cvf nm tg b s0 = Some (v, vd, s1) -> frame s0 s1.
  Proof.
    intros HQ. assert (HF : Forall (fun kv => FrameP (snd kv)) (sch_props b)).
    { apply Forall_forall. intros [k sc] Hin. exact (HQ k sc Hin). }
    destruct b as [bb|bty bfmt benum bcst bnv bsv bik bitems bai bmni bmxi buq bprops breq bap bmnp bmxp ballo banyo boneo bno bref bdflt btitle];
      [discriminate|]. cbn [conv_ivariant]. cbn [sch_props] in HF.
    assert (Hgen : match match assoc tg bprops with Some ts => cstr ts | None => None end with
                   | Some v0 =>
                       match conv_props_skip cls cvf tg (name_opt nm) breq bprops s0 with
                       | Some (ps, sa) =>
                           if Sanitize.unique (map p_name (sort_props ps)) then Some (v0, VStruct (sort_props ps), sa) else None
                       | None => None
                       end
                   | None => None
                   end = Some (v, vd, s1) -> frame s0 s1).
    { destruct (match assoc tg bprops with Some ts => cstr ts | None => None end); [|discriminate].
      destruct (conv_props_skip cls cvf tg (name_opt nm) breq bprops s0) as [[ps sa]|] eqn:Hp; [|discriminate].
      destruct (Sanitize.unique _); [|discriminate]. intro H. injection H as _ _ <-.
      exact (conv_props_skip_frame _ _ _ _ HF _ _ _ Hp). }
    destruct bprops as [|[k1 s1'] [|kv2 rest]]; try exact Hgen.
    destruct (cstr s1'); [|discriminate]. intro H. injection H as _ _ <-. apply frame_refl.
  Qed.

  Lemma conv_ibranches_frame nm tg : forall bs, Forall (PropP FrameP) bs -> forall s0 rvs s1,
    conv_ibranches cls cvf nm tg bs s0 = Some (rvs, s1) -> frame s0 s1.
  Proof.
    induction bs as [|b r IH]; intros HQ s0 rvs s1 H; cbn [conv_ibranches] in H.
    - injection H as _ <-. apply frame_refl.
    - destruct (conv_ivariant cls cvf nm tg b s0) as [[[v vd] sa]|] eqn:Hv; [|discriminate].
      destruct (conv_ibranches cls cvf nm tg r sa) as [[vs2 s2]|] eqn:Hr; [|discriminate].
      injection H as _ <-. eapply frame_trans; [exact (conv_ivariant_frame _ _ _ _ _ _ _ (Forall_inv HQ) Hv)|exact (IH (Forall_inv_tail HQ) _ _ _ Hr)].
  Qed.

  Lemma conv_ubranches_frame n : forall bs, Forall FrameP bs -> forall i s0 rvs dn s1,
    conv_ubranches cvf n i bs s0 = Some (rvs, dn, s1) -> frame s0 s1.
  Proof.
    induction bs as [|b r IH]; intros HQ i s0 rvs dn s1 H; cbn [conv_ubranches] in H.
    - injection H as _ _ <-. apply frame_refl.
    - destruct (conv_xvar cvf (NSuggested n) _ b s0) as [[[vd d1] sa]|] eqn:Hv; [|discriminate].
      destruct (conv_ubranches cvf n (S i) r sa) as [[[vs2 d2] s2]|] eqn:Hr; [|discriminate].
      injection H as _ _ <-. eapply frame_trans; [exact (conv_xvar_frame _ _ _ _ _ _ _ (Forall_inv HQ) Hv)|].
      exact (IH (Forall_inv_tail HQ) _ _ _ _ _ Hr).
  Qed.

  Lemma conv_kind_frame items props req ap oneo k nm s0 te s1 :
    Forall FrameP items -> Forall (fun kv => FrameP (snd kv)) props -> OForall FrameP ap ->
    OForall (Forall (fun b => FrameP b /\ PropP FrameP b)) oneo ->
    conv_kind cls rid cvf k nm items props req ap oneo s0 = Some (te, s1) -> frame s0 s1.
  Proof.
    intros HPi HPp HPa HPo0 H. destruct (arms_props FrameP oneo HPo0) as [HPo HPoB].
    destruct k as [| | | |mx mn pat|r|raws|deny| | |c|c|r| |tg|]; cbn [conv_kind] in H;
      try (injection H as _ <-; apply frame_refl).
    11: { (* KOpt *)
      destruct oneo as [[|a [|b [|]]]|]; try discriminate. cbn [OForall] in HPoB.
      assert (Hgen : forall arm, FrameP arm ->
                match cvf arm (inner_name nm) s0 with
                | Some (te0, sa) => let '(i, sb) := assign te0 sa in Some (DOption i, sb)
                | None => None end = Some (te, s1) -> frame s0 s1).
      { intros arm HQa Hx. destruct (cvf arm (inner_name nm) s0) as [[te0 sa]|] eqn:Hc; [|discriminate].
        destruct (assign te0 sa) as [i sb] eqn:Ha. injection Hx as _ <-.
        eapply frame_trans; [exact (HQa _ _ _ _ Hc)|exact (assign_frame _ _ _ _ Ha)]. }
      destruct (nullish a); [exact (Hgen b (Forall_inv (Forall_inv_tail HPoB)) H)|exact (Hgen a (Forall_inv HPoB) H)]. }
    10: { destruct tg as [|tg|tg ct|]; (destruct (type_name cls nm); [|discriminate]);
            (destruct oneo as [bs|]; [|discriminate]); cbn [OForall] in HPo, HPoB.
          4: { destruct (conv_ubranches cvf u 0 bs s0) as [[[rvs deny] sa]|] eqn:Hb; [|discriminate].
               destruct (_ <=? _)%nat; [discriminate|].
               destruct (mk_tagged cls u TagUntagged rvs deny); [|discriminate]. injection H as _ <-.
               exact (conv_ubranches_frame _ _ HPoB _ _ _ _ _ Hb). }
          - destruct (conv_xbranches cvf nm bs s0) as [[[rvs deny] sa]|] eqn:Hb; [|discriminate].
            destruct (mk_tagged cls u TagExternal rvs deny); [|discriminate]. injection H as _ <-.
            exact (conv_xbranches_frame _ _ HPo _ _ _ _ Hb).
          - destruct (conv_ibranches cls cvf nm tg bs s0) as [[rvs sa]|] eqn:Hb; [|discriminate].
            destruct (mk_tagged cls u (TagInternal tg) rvs _); [|discriminate]. injection H as _ <-.
            exact (conv_ibranches_frame _ _ _ HPo _ _ _ Hb).
          - destruct (conv_abranches cvf nm tg ct bs s0) as [[[rvs deny] sa]|] eqn:Hb; [|discriminate].
            destruct (mk_tagged cls u (TagAdjacent tg ct) rvs deny); [|discriminate]. injection H as _ <-.
            exact (conv_abranches_frame _ _ _ _ HPo _ _ _ _ Hb). }
    - destruct (assign DString _) as [sid sa] eqn:Ha.
      destruct (type_name cls nm); [|discriminate]. injection H as _ <-.
      eapply frame_trans; [|exact (assign_frame _ _ _ _ Ha)].
      destruct pat; [apply frame_set_regress|apply frame_refl].
    - destruct (type_name cls nm); [|discriminate]. unfold mk_enum in H.
      destruct (Sanitize.variant_idents cls raws); try discriminate. injection H as _ <-. apply frame_refl.
    - destruct (type_name cls nm) as [base|]; [|discriminate].
      destruct (conv_props cls cvf base req props s0) as [[ps sa]|] eqn:Hcp; [|discriminate].
      destruct (Sanitize.unique (map p_name (sort_props ps))); [|discriminate].
      injection H as _ <-. exact (conv_props_frame base req props HPp _ _ _ Hcp).
    - destruct (assign DString s0) as [kid sk] eqn:Hk. pose proof (assign_frame _ _ _ _ Hk) as F0.
      destruct ap as [vs|].
      + destruct (cvf vs (value_name nm) sk) as [[tv sb]|] eqn:Hc; [|discriminate].
        cbn [OForall] in HPa. destruct (assign tv sb) as [vid sc] eqn:Hv. injection H as _ <-.
        eapply frame_trans; [exact F0|]. eapply frame_trans; [exact (HPa _ _ _ _ Hc)|exact (assign_frame _ _ _ _ Hv)].
      + destruct (assign DJsonValue (set_json sk)) as [vid sc] eqn:Hv. injection H as _ <-.
        eapply frame_trans; [exact F0|]. eapply frame_trans; [apply frame_set_json|exact (assign_frame _ _ _ _ Hv)].
    - destruct (conv_items cvf nm 0 items s0) as [[ts sa]|] eqn:Hc; [|discriminate].
      injection H as _ <-. exact (conv_items_frame nm items HPi _ _ _ _ Hc).
    - destruct items as [|it [|? ?]]; try discriminate.
      destruct (cvf it (seq_item_name cls c nm) s0) as [[ti sa]|] eqn:Hc; [|discriminate].
      destruct (assign ti sa) as [i sb] eqn:Ha. injection H as _ <-.
      eapply frame_trans; [exact (Forall_inv HPi _ _ _ _ Hc)|exact (assign_frame _ _ _ _ Ha)].
    - destruct (assign DJsonValue (set_json s0)) as [i sa] eqn:Ha. injection H as _ <-.
      eapply frame_trans; [apply frame_set_json|exact (assign_frame _ _ _ _ Ha)].
    - destruct (rid r); [|discriminate]. injection H as _ <-. apply frame_refl.
    - injection H as _ <-. apply frame_set_json.
  Qed.

  Lemma conv_frame : forall s, FrameP s.
  Proof.
    apply schema_ind_p.
    - intros [|] nm s0 te s1 H; cbn [conv union_of] in H; [|discriminate]. injection H as _ <-. apply frame_set_json.
    - intros ty fmt enum cst nv sv ik items ai mni mxi uq props req ap mnp mxp allo anyo oneo no ref dflt title
             IHitems IHprops IHap IHone IHany.
      intros nm s0 te s1 H. cbn [conv] in H.
      pose proof (union_IH _ oneo anyo IHone IHany) as IHu. change (OForall (Forall (fun b => FrameP b /\ PropP FrameP b)) (union_of oneo anyo)) in IHu.
      destruct (classify ty fmt enum cst nv sv ik items ai mni mxi uq props req ap mnp mxp allo anyo oneo no ref dflt title)
        as [[nl k]|]; cbn [conv_node] in H; [|discriminate].
      destruct nl.
      + destruct (conv_kind cls rid cvf k (inner_name nm) items props req ap (union_of oneo anyo) s0) as [[ti sa]|] eqn:Hc; [|discriminate].
        destruct (assign ti sa) as [i sb] eqn:Ha. injection H as _ <-.
        eapply frame_trans; [exact (conv_kind_frame _ _ _ _ _ _ _ _ _ _ IHitems IHprops IHap IHu Hc)|exact (assign_frame _ _ _ _ Ha)].
      + exact (conv_kind_frame _ _ _ _ _ _ _ _ _ _ IHitems IHprops IHap IHu H).
  Qed.

  Definition stored (te ent : details) : Prop :=
    match te with
    | DEnum _ _ _ _ _ _ | DStruct _ _ _ _ | DNewtype _ _ _ _ => ent = te
    | _ => True
    end.

  Lemma conv_def_slot d sch t s0 s3 : conv_def cls rid d sch t s0 = Some s3 ->
    st_next s0 <= st_next s3 /\
    (forall u, u < st_next s0 -> u <> t -> lk s3 u = lk s0 u) /\
    exists te s1 ent, cvf sch (NRequired d) s0 = Some (te, s1) /\ lk s3 t = Some (mkEntry ent []) /\ stored te ent.
  Proof.
    intro H. unfold conv_def in H.
    destruct (cvf sch (NRequired d) s0) as [[te s1]|] eqn:Hc; [|discriminate].
    pose proof (conv_frame sch _ _ _ _ Hc) as F1.
    assert (Hput : forall ent s2, frame s0 s2 ->
      forall names, let s3' := mkSt (st_next s2) (put t (mkEntry ent []) (st_ents s2)) names (st_types s2) (st_flags s2) in
      st_next s0 <= st_next s3' /\ (forall u, u < st_next s0 -> u <> t -> lk s3' u = lk s0 u) /\ lk s3' t = Some (mkEntry ent [])).
    { intros ent s2 [F2a F2b] names s3'. split; [exact F2a|]. split.
      - intros u Hu Hne. unfold s3', lk. cbn [st_ents]. rewrite lookup_put.
        destruct (u =? t) eqn:E; [apply N.eqb_eq in E; contradiction|]. exact (F2b u Hu).
      - unfold s3', lk. cbn [st_ents]. rewrite lookup_put, N.eqb_refl. reflexivity. }
    destruct te; try (destruct (assign _ s1) as [i s2] eqn:Ha); cbn [det_name] in H; injection H as <-;
      match goal with
      | |- context [put t (mkEntry ?ent []) (st_ents ?s2)] =>
          let F := fresh "F" in
          assert (F : frame s0 s2) by first [exact F1|exact (frame_trans _ _ _ F1 (assign_frame _ _ _ _ Ha))];
          destruct (Hput ent s2 F ((match det_name ent with Some n => n | None => [] end, t) :: st_names s2)) as (P1 & P2 & P3);
          cbn [det_name] in P1, P2, P3;
          split; [exact P1|split; [exact P2|]]; eexists _, s1, ent; split; [reflexivity|split; [exact P3|first [reflexivity|exact I]]]
      end.
  Qed.

  Lemma conv_defs_keep : forall ds t s0 sf, conv_defs cls rid ds t s0 = Some sf ->
    st_next s0 <= st_next sf /\ forall u, u < t -> u < st_next s0 -> lk sf u = lk s0 u.
  Proof.
    induction ds as [|[d sch] ds IH]; intros t s0 sf H; cbn [conv_defs] in H.
    - injection H as <-. split; [lia|reflexivity].
    - destruct (conv_def cls rid d sch t s0) as [s1|] eqn:Hc; [|discriminate].
      destruct (conv_def_slot _ _ _ _ _ Hc) as (A & B & _). destruct (IH _ _ _ H) as (A' & B').
      split; [lia|]. intros u Hu Hn. rewrite (B' u ltac:(lia) ltac:(lia)). apply B; lia.
  Qed.

  Lemma conv_defs_slot : forall ds t s0 sf, conv_defs cls rid ds t s0 = Some sf ->
    t + N.of_nat (length ds) <= st_next s0 ->
    forall k d sch, nth_error ds k = Some (d, sch) ->
    exists s te s1 ent, cvf sch (NRequired d) s = Some (te, s1) /\
                        lk sf (t + N.of_nat k) = Some (mkEntry ent []) /\ stored te ent.
  Proof.
    induction ds as [|[d0 sch0] ds IH]; intros t s0 sf H Hlen k d sch Hk; cbn [conv_defs] in H.
    - destruct k; discriminate Hk.
    - cbn [length] in Hlen.
      destruct (conv_def cls rid d0 sch0 t s0) as [s1|] eqn:Hc; [|discriminate].
      destruct (conv_def_slot _ _ _ _ _ Hc) as (A & B & te & s1' & ent & C1 & C2 & C3).
      destruct k as [|k]; cbn [nth_error] in Hk.
      + injection Hk as <- <-. exists s0, te, s1', ent. split; [exact C1|]. split; [|exact C3].
        replace (t + N.of_nat 0) with t by lia.
        destruct (conv_defs_keep _ _ _ _ H) as (_ & K). rewrite (K t ltac:(lia) ltac:(lia)). exact C2.
      + destruct (IH (t + 1) s1 sf H ltac:(lia) k d sch Hk) as (s & te' & s1'' & ent' & D1 & D2 & D3).
        exists s, te', s1'', ent'. split; [exact D1|]. split; [|exact D3].
        replace (t + N.of_nat (S k)) with (t + 1 + N.of_nat k) by lia. exact D2.
  Qed.
End Slots.

Theorem convert_slot cls D T : convert_doc cls D = Some T ->
  forall j d sch, nth_error D j = Some (d, sch) ->
  exists s te s1 ent, conv cls (ref_id D) sch (NRequired d) s = Some (te, s1) /\
                      get_det T (N.of_nat j + 1) = Some ent /\ stored te ent.
Proof.
  intros Hc j d sch Hj. unfold convert_doc in Hc.
  destruct (negb (Sanitize.unique (def_names cls D))); [discriminate|].
  destruct (conv_defs cls (ref_id D) D 1 _) as [sf|] eqn:Hcd; [|discriminate]. injection Hc as <-.
  destruct (conv_defs_slot cls (ref_id D) D 1 _ sf Hcd ltac:(cbn [st_next]; lia) j d sch Hj)
    as (s & te & s1 & ent & H1 & H2 & H3).
  exists s, te, s1, ent. split; [exact H1|]. split; [|exact H3].
  unfold get_det, get. cbn [space_of sp_entries]. unfold lk in H2.
  replace (N.of_nat j + 1) with (1 + N.of_nat j) by lia. rewrite H2. reflexivity.
Qed.
