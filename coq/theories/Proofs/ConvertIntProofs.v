(* Proofs/ConvertIntProofs.v -- the integer type chosen by Convert.choose_int
   (convert_integer on integer bounds, no default) passes the range test of the
   C02 validator: for the chosen Rust type with range [lo, hi], every schema the
   classifier accepts states (by minimum / exclusiveMinimum / format, or because
   lo is below the i64 domain) that instances are >= lo, and likewise <= hi. *)
From Coq Require Import String ZArith NArith QArith List Bool Lia.
From Typify Require Import Base.Json Spec.Schema Spec.Valid IR.TypeIR IR.Serde Check.Covers.
From Typify Require Import Proofs.SerdeProofs.
From Typify Require Import Algo.Convert.
Import ListNotations.
Close Scope Q_scope.
Close Scope string_scope.
Open Scope list_scope.
Open Scope Z_scope.

(* [ir_hi] is the limit as a double (2^63 / 2^64 for the 64-bit rows); the type and the format
   have the exact range *)
Definition row_ok (r : irow) : bool :=
  match int_range_u (ir_ty r), int_range_u (ir_nz r), int_format_range (ir_fmt r) with
  | Some (lo, hi, _), Some (lo', hz, _), Some (flo, fhi) =>
      (lo =? ir_lo r) && ((hi =? ir_hi r) || (i64_hi <=? hi)) && (hi <=? ir_hi r)
      && (lo' =? 1) && (hi <=? hz) && (flo =? ir_lo r) && (fhi =? hi)
  | _, _, _ => false
  end.

Lemma rows_ok : forallb row_ok int_rows = true.
Proof. vm_compute. reflexivity. Qed.

Lemma row_facts r : In r int_rows ->
  exists thi nz hz nz',
    int_range_u (ir_ty r) = Some (ir_lo r, thi, nz) /\
    (thi = ir_hi r \/ i64_hi <= thi) /\ thi <= ir_hi r /\
    int_range_u (ir_nz r) = Some (1, hz, nz') /\ thi <= hz /\
    int_format_range (ir_fmt r) = Some (ir_lo r, thi).
Proof.
  intro Hin. pose proof (proj1 (forallb_forall _ _) rows_ok r Hin) as H. unfold row_ok in H.
  destruct (int_range_u (ir_ty r)) as [[[lo hi] nz]|]; [|discriminate].
  destruct (int_range_u (ir_nz r)) as [[[lo' hz] nz']|]; [|discriminate].
  destruct (int_format_range (ir_fmt r)) as [[flo fhi]|]; [|discriminate].
  repeat (apply andb_true_iff in H; destruct H as [H ?]).
  repeat match goal with
         | X : (_ =? _) = true |- _ => apply Z.eqb_eq in X
         | X : (_ <=? _) = true |- _ => apply Z.leb_le in X
         end.
  subst. exists hi, nz, hz, nz'. repeat split; try assumption; try reflexivity.
  match goal with X : (_ || _) = true |- _ => apply orb_true_iff in X; destruct X as [X|X] end.
  - left. apply Z.eqb_eq. assumption.
  - right. apply Z.leb_le. assumption.
Qed.

Lemma find_map'_some {X Y} (f : X -> option Y) l y :
  find_map' f l = Some y -> exists x, In x l /\ f x = Some y.
Proof.
  induction l as [|a l IH]; cbn [find_map']; [discriminate|].
  destruct (f a) as [b|] eqn:E.
  - intro H. injection H as <-. exists a. split; [left; reflexivity|exact E].
  - intro H. destruct (IH H) as (x & Hx & Hf). exists x. split; [right; exact Hx|exact Hf].
Qed.

Lemma Qle_bool_Z a b : Qle_bool (inject_Z a) (b # 1) = (a <=? b).
Proof. unfold Qle_bool, inject_Z. cbn [Qnum Qden]. rewrite !Z.mul_1_r. reflexivity. Qed.

Lemma q_int_eq q z : q_int q = Some z -> q = (z # 1)%Q.
Proof.
  unfold q_int. destruct q as [n d]. cbn [Qden Qnum]. destruct (d =? 1)%positive eqn:E; [|discriminate].
  apply Pos.eqb_eq in E. subst. intro H. injection H as <-. reflexivity.
Qed.

Lemma obound_inv o z : obound o = Some z ->
  match o, z with
  | None, None => True
  | Some q, Some x => q = (x # 1)%Q
  | _, _ => False
  end.
Proof.
  unfold obound. destruct o as [q|].
  - destruct (q_int q) as [x|] eqn:E; [|discriminate]. destruct (safe_int x); [|discriminate].
    intro H. injection H as <-. apply q_int_eq. exact E.
  - intro H. injection H as <-. exact I.
Qed.

Section Int.
  Variable fmt : option ustring.
  Variable nv : numv.
  Variable b : ibounds.
  Hypothesis Hb : ibounds_of nv = Some b.

  Lemma bounds_inv :
    match n_minimum nv, ib_min b with None, None => True | Some q, Some x => q = (x # 1)%Q | _, _ => False end /\
    match n_maximum nv, ib_max b with None, None => True | Some q, Some x => q = (x # 1)%Q | _, _ => False end /\
    match n_exclusive_minimum nv, ib_emin b with None, None => True | Some q, Some x => q = (x # 1)%Q | _, _ => False end /\
    match n_exclusive_maximum nv, ib_emax b with None, None => True | Some q, Some x => q = (x # 1)%Q | _, _ => False end.
  Proof.
    unfold ibounds_of in Hb.
    destruct (obound (n_minimum nv)) as [a|] eqn:E1; [|discriminate].
    destruct (obound (n_maximum nv)) as [c|] eqn:E2; [|discriminate].
    destruct (obound (n_exclusive_minimum nv)) as [d|] eqn:E3; [|discriminate].
    destruct (obound (n_exclusive_maximum nv)) as [e|] eqn:E4; [|discriminate].
    injection Hb as <-. cbn [ib_min ib_max ib_emin ib_emax].
    repeat split; apply obound_inv; assumption.
  Qed.

  (* the three ways the validator learns a lower bound *)
  Lemma lower_dom lo : lo <= i64_lo -> lower_ok lo fmt nv = true.
  Proof. intro H. unfold lower_ok. apply Z.leb_le in H. rewrite H. reflexivity. Qed.

  Lemma lower_norm lo : inorm_min b = Some lo -> lower_ok lo fmt nv = true.
  Proof.
    destruct bounds_inv as (H1 & _ & H3 & _). unfold inorm_min. unfold lower_ok.
    destruct (n_minimum nv) as [qm|], (ib_min b) as [m|]; try contradiction;
      destruct (n_exclusive_minimum nv) as [qe|], (ib_emin b) as [e|]; try contradiction; subst;
      intro H; try discriminate; injection H as <-; rewrite ?Qle_bool_Z.
    - destruct (Z.max_spec m (iadd1 e)) as [[_ ->]|[_ ->]].
      + assert (E : (iadd1 e - 1 <=? e) = true) by (apply Z.leb_le; unfold iadd1; destruct (_ && _); lia).
        rewrite E. rewrite !orb_true_r. reflexivity.
      + rewrite Z.leb_refl. rewrite orb_true_r. reflexivity.
    - rewrite Z.leb_refl. rewrite orb_true_r. reflexivity.
    - assert (E : (iadd1 e - 1 <=? e) = true) by (apply Z.leb_le; unfold iadd1; destruct (_ && _); lia).
      rewrite E. rewrite !orb_true_r. reflexivity.
  Qed.

  Lemma lower_fmt lo f flo fhi : fmt = Some f -> int_format_range f = Some (flo, fhi) -> lo <= flo ->
    lower_ok lo fmt nv = true.
  Proof.
    intros -> Hf H. unfold lower_ok. rewrite Hf. apply Z.leb_le in H. rewrite H. apply orb_true_r.
  Qed.

  Lemma upper_dom hi : i64_hi <= hi -> upper_ok hi fmt nv = true.
  Proof. intro H. unfold upper_ok. apply Z.leb_le in H. rewrite H. reflexivity. Qed.

  Lemma Qle_bool_Z' a c : Qle_bool (a # 1) (inject_Z c) = (a <=? c).
  Proof. unfold Qle_bool, inject_Z. cbn [Qnum Qden]. rewrite !Z.mul_1_r. reflexivity. Qed.

  Lemma upper_norm hi : inorm_max b = Some hi -> upper_ok hi fmt nv = true.
  Proof.
    destruct bounds_inv as (_ & H2 & _ & H4). unfold inorm_max. unfold upper_ok.
    destruct (n_maximum nv) as [qm|], (ib_max b) as [m|]; try contradiction;
      destruct (n_exclusive_maximum nv) as [qe|], (ib_emax b) as [e|]; try contradiction; subst;
      intro H; try discriminate; injection H as <-; rewrite ?Qle_bool_Z'.
    - destruct (Z.min_spec m (isub1 e)) as [[_ ->]|[_ ->]].
      + rewrite Z.leb_refl. rewrite orb_true_r. reflexivity.
      + assert (E : (e <=? isub1 e + 1) = true) by (apply Z.leb_le; unfold isub1; destruct (_ && _); lia).
        rewrite E. rewrite !orb_true_r. reflexivity.
    - rewrite Z.leb_refl. rewrite orb_true_r. reflexivity.
    - assert (E : (e <=? isub1 e + 1) = true) by (apply Z.leb_le; unfold isub1; destruct (_ && _); lia).
      rewrite E. rewrite !orb_true_r. reflexivity.
  Qed.

  Lemma upper_fmt hi f flo fhi : fmt = Some f -> int_format_range f = Some (flo, fhi) -> fhi <= hi ->
    upper_ok hi fmt nv = true.
  Proof.
    intros -> Hf H. unfold upper_ok. rewrite Hf. apply Z.leb_le in H. rewrite H. apply orb_true_r.
  Qed.

  Definition Fits (ty : ustring) : Prop :=
    exists lo hi nz, int_range_u ty = Some (lo, hi, nz) /\
                     lower_ok lo fmt nv = true /\ upper_ok hi fmt nv = true.

  (* a lower / upper bound the selection works with is one the validator can see *)
  Definition LoSrc (o : option Z) : Prop := forall lo, o = Some lo -> lower_ok lo fmt nv = true.
  Definition HiSrc (o : option Z) : Prop := forall hi, o = Some hi -> upper_ok hi fmt nv = true.

  Lemma nz64_fits : LoSrc (Some 1) -> Fits (ir_nz (mkIrow s_uint64 s_u64 (ulit "::std::num::NonZeroU64") 0 18446744073709551616)).
  Proof.
    intro HL. exists 1, 18446744073709551615, true. split; [vm_compute; reflexivity|].
    split; [apply HL; reflexivity|apply upper_dom; vm_compute; discriminate].
  Qed.

  Lemma ifit_fits mn mx ty : LoSrc mn -> HiSrc mx -> ifit mn mx = Some ty -> Fits ty.
  Proof.
    intros HL HH. unfold ifit. destruct mn as [lo|], mx as [hi|]; try discriminate.
    - destruct (lo =? 1) eqn:E1.
      + apply Z.eqb_eq in E1. subst lo. cbn [rev int_rows app find_map']. intro H. injection H as <-.
        apply nz64_fits. exact HL.
      + intro H. destruct (find_map'_some _ _ _ H) as (r & Hr & Hf). apply in_rev in Hr.
        destruct (_ && _) eqn:E2; [|discriminate]. injection Hf as <-.
        apply andb_true_iff in E2. destruct E2 as [A B]. apply Z.eqb_eq in A. apply Z.eqb_eq in B.
        destruct (row_facts r Hr) as (thi & nz & _ & _ & Hty & Hth & _). exists (ir_lo r), thi, nz.
        split; [exact Hty|]. split; [apply HL; rewrite B; reflexivity|].
        destruct Hth as [->|Hd]; [apply HH; rewrite A; reflexivity|apply upper_dom; exact Hd].
    - destruct (lo =? 1) eqn:E1.
      + apply Z.eqb_eq in E1. subst lo. cbn [rev int_rows app find_map']. intro H. injection H as <-.
        apply nz64_fits. exact HL.
      + intro H. destruct (find_map'_some _ _ _ H) as (r & Hr & Hf). apply in_rev in Hr.
        destruct (_ && _) eqn:E2; [|discriminate]. injection Hf as <-.
        apply andb_true_iff in E2. destruct E2 as [A B]. apply Z.eqb_eq in A. apply Z.geb_le in B.
        destruct (row_facts r Hr) as (thi & nz & _ & _ & Hty & Hth & _). exists (ir_lo r), thi, nz.
        split; [exact Hty|]. split; [apply HL; rewrite A; reflexivity|].
        apply upper_dom. destruct Hth as [->|Hd]; [unfold i64_hi; lia|exact Hd].
    - intro H. destruct (find_map'_some _ _ _ H) as (r & Hr & Hf). apply in_rev in Hr.
      destruct (_ && _) eqn:E2; [|discriminate]. injection Hf as <-.
      apply andb_true_iff in E2. destruct E2 as [A B]. apply Z.eqb_eq in A. apply Z.leb_le in B.
      destruct (row_facts r Hr) as (thi & nz & _ & _ & Hty & Hth & _). exists (ir_lo r), thi, nz.
      split; [exact Hty|]. split; [apply lower_dom; unfold i64_lo; lia|].
      destruct Hth as [->|Hd]; [apply HH; rewrite A; reflexivity|apply upper_dom; exact Hd].
  Qed.

  Lemma igeneral_fits mn mx : LoSrc mn -> HiSrc mx -> Fits (igeneral fmt mn mx).
  Proof.
    intros HL HH. unfold igeneral. destruct (ifit mn mx) as [ty|] eqn:E; [exact (ifit_fits mn mx ty HL HH E)|].
    destruct fmt as [f|] eqn:Ef.
    - destruct (ustr_eqb f s_uint64) eqn:E2.
      + apply ustr_eqb_eq in E2. subst f. exists 0, 18446744073709551615, false.
        split; [vm_compute; reflexivity|]. split.
        * eapply lower_fmt; [exact Ef|vm_compute; reflexivity|lia].
        * apply upper_dom. vm_compute. discriminate.
      + exists i64_lo, i64_hi, false. split; [vm_compute; reflexivity|].
        split; [apply lower_dom|apply upper_dom]; lia.
    - exists i64_lo, i64_hi, false. split; [vm_compute; reflexivity|].
      split; [apply lower_dom|apply upper_dom]; lia.
  Qed.

  Theorem choose_int_fits : Fits (choose_int fmt b).
  Proof.
    unfold choose_int.
    assert (HLn : LoSrc (inorm_min b)) by (intros lo H; apply lower_norm; exact H).
    assert (HHn : HiSrc (inorm_max b)) by (intros hi H; apply upper_norm; exact H).
    destruct fmt as [f|] eqn:Ef; [|rewrite <- Ef; apply igeneral_fits; assumption].
    destruct (find (fun r => ustr_eqb (ir_fmt r) f) int_rows) as [r|] eqn:Efind;
      [|rewrite <- Ef; apply igeneral_fits; assumption].
    apply find_some in Efind. destruct Efind as [Hr Hfr]. apply ustr_eqb_eq in Hfr.
    destruct (row_facts r Hr) as (thi & nz & hz & nz' & Hty & Hth & Hthle & Hnz & Hle & Hfmt). rewrite Hfr in Hfmt.
    destruct (negb (ib_mult b) && _ && _) eqn:Ecase.
    - destruct (match inorm_min b with Some v => v =? 1 | None => false end) eqn:E1.
      + destruct (inorm_min b) as [v|] eqn:Em; [|discriminate]. apply Z.eqb_eq in E1. subst v.
        exists 1, hz, nz'. split; [exact Hnz|]. split; [apply HLn; reflexivity|].
        eapply upper_fmt; [exact Ef|exact Hfmt|exact Hle].
      + exists (ir_lo r), thi, nz. split; [exact Hty|].
        split; [eapply lower_fmt; [exact Ef|exact Hfmt|lia]|eapply upper_fmt; [exact Ef|exact Hfmt|lia]].
    - rewrite <- Ef. apply igeneral_fits.
      + intros lo H. destruct (inorm_min b) as [v|] eqn:Em.
        * apply HLn. exact H.
        * injection H as <-. eapply lower_fmt; [exact Ef|exact Hfmt|lia].
      + intros hi H. destruct (inorm_max b) as [v|] eqn:Em.
        * apply HHn. exact H.
        * injection H as <-. eapply upper_fmt; [exact Ef|exact Hfmt|lia].
  Qed.
End Int.
