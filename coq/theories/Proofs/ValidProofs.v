(* Proofs/ValidProofs.v — lemmas about Spec/Valid.v.

   Main results (for every regex engine / format recogniser, every option set):
     valid_fuel_stable   definitex n s v = true -> n <= m ->
                           definitex m s v = true /\ validx m s v = validx n s v
     verdictx_mono       verdictx n s v = Some b -> n <= m -> verdictx m s v = Some b
     Validx_Invalidx_excl
     valid_mono_noneg    plain monotonicity of [validx] in the fuel for documents
                         without not/oneOf
     valid_not_mono      [valid] alone is NOT monotone (witness)
     definitex_ref_free  a schema without "$ref" is definite with fuel 0
     valid_SBool, valid_ref_0, valid_ref_S, valid_allOf, valid_allOf_split,
     valid_allOf_perm, definite_allOf_perm                     unfolding lemmas *)
From Coq Require Import String ZArith NArith QArith List Bool Lia Permutation.
From Typify Require Import Base.Json Spec.Schema Spec.Valid.
Import ListNotations.
Close Scope Q_scope.
Open Scope nat_scope.

(* ------------------------------------------------------------------ lists *)
Lemma forallb_ext_in {A} (f g : A -> bool) l :
  (forall x, In x l -> f x = g x) -> forallb f l = forallb g l.
Proof.
  induction l as [|a l IH]; intros H; simpl; [reflexivity|].
  rewrite (H a (or_introl eq_refl)), IH; [reflexivity|].
  intros x Hx. apply H. right. exact Hx.
Qed.

Lemma existsb_ext_in {A} (f g : A -> bool) l :
  (forall x, In x l -> f x = g x) -> existsb f l = existsb g l.
Proof.
  induction l as [|a l IH]; intros H; simpl; [reflexivity|].
  rewrite (H a (or_introl eq_refl)), IH; [reflexivity|].
  intros x Hx. apply H. right. exact Hx.
Qed.

Lemma count_true_ext_in {A} (f g : A -> bool) l :
  (forall x, In x l -> f x = g x) -> count_true f l = count_true g l.
Proof.
  induction l as [|a l IH]; intros H; simpl; [reflexivity|].
  rewrite (H a (or_introl eq_refl)), IH; [reflexivity|].
  intros x Hx. apply H. right. exact Hx.
Qed.

Lemma forallb_mono_in {A} (f g : A -> bool) l :
  (forall x, In x l -> f x = true -> g x = true) -> forallb f l = true -> forallb g l = true.
Proof.
  intros H Hf. apply forallb_forall. intros x Hx.
  apply H; [exact Hx|]. apply (proj1 (forallb_forall f l) Hf x Hx).
Qed.

Lemma existsb_mono_in {A} (f g : A -> bool) l :
  (forall x, In x l -> f x = true -> g x = true) -> existsb f l = true -> existsb g l = true.
Proof.
  intros H Hf. apply existsb_exists in Hf. destruct Hf as [x [Hx Hfx]].
  apply existsb_exists. exists x. split; [exact Hx|]. apply H; assumption.
Qed.

Lemma forallb_perm {A} (f : A -> bool) l l' :
  Permutation l l' -> forallb f l = forallb f l'.
Proof.
  induction 1 as [|x l l' _ IH|x y l|l l' l'' _ IH1 _ IH2]; simpl.
  - reflexivity.
  - rewrite IH. reflexivity.
  - destruct (f x), (f y); reflexivity.
  - rewrite IH1. exact IH2.
Qed.

Lemma forallb_map {A B} (g : A -> B) (f : B -> bool) l :
  forallb f (map g l) = forallb (fun x => f (g x)) l.
Proof. induction l as [|a l IH]; simpl; [reflexivity|]. rewrite IH. reflexivity. Qed.

(* ------------------------------------------------------------------ the pairs a node evaluates
   [sub_pairs s v]: the (direct subschema, part of the instance) pairs that the
   evaluation of node s on v consults. *)
Definition uncur {A B C} (f : A -> B -> C) (p : A * B) : C := f (fst p) (snd p).

Fixpoint tup_pairs (ai : option schema) (ss : list schema) (vs : list json) : list (schema * json) :=
  match ss with
  | [] => match ai with
          | Some a => map (fun x => (a, x)) vs
          | None => []
          end
  | s :: ss' =>
      match vs with
      | [] => []
      | x :: vs' => (s, x) :: tup_pairs ai ss' vs'
      end
  end.

Definition arr_pairs (ik : items_kind) (items : list schema) (ai : option schema) (l : list json)
  : list (schema * json) :=
  match ik with
  | ItemsAbsent => []
  | ItemsSingle => match items with
                   | s :: _ => map (fun x => (s, x)) l
                   | [] => []
                   end
  | ItemsTuple => tup_pairs ai items l
  end.

Fixpoint prop_pairs (ps : list (ustring * schema)) (kvs : list (ustring * json)) : list (schema * json) :=
  match ps with
  | [] => []
  | (k, s) :: r =>
      match assoc k kvs with
      | Some x => (s, x) :: prop_pairs r kvs
      | None => prop_pairs r kvs
      end
  end.

Definition obj_pairs (props : list (ustring * schema)) (ap : option schema) (kvs : list (ustring * json))
  : list (schema * json) :=
  prop_pairs props kvs ++
  match ap with
  | Some a => map (fun kv => (a, snd kv)) (filter (fun kv => negb (has_key (fst kv) props)) kvs)
  | None => []
  end.

Definition olist (o : option (list schema)) (v : json) : list (schema * json) :=
  match o with Some l => map (fun s => (s, v)) l | None => [] end.

Definition sub_pairs (s : schema) (v : json) : list (schema * json) :=
  match s with
  | SBool _ => []
  | SObj _ _ _ _ _ _ ik items ai _ _ _ props _ ap _ _ allo anyo oneo no _ _ _ =>
      match v with JArr l => arr_pairs ik items ai l | _ => [] end
      ++ match v with JObj kvs => obj_pairs props ap kvs | _ => [] end
      ++ olist allo v ++ olist anyo v ++ olist oneo v
      ++ match no with Some n => [(n, v)] | None => [] end
  end.

Lemma valid_arr_pairs f ik items ai l :
  valid_arr f ik items ai l = forallb (uncur f) (arr_pairs ik items ai l).
Proof.
  unfold valid_arr, arr_pairs. destruct ik; [reflexivity| |].
  - destruct items as [|s ss]; [reflexivity|]. rewrite forallb_map. reflexivity.
  - revert l. induction items as [|s ss IH]; intros l.
    + simpl. destruct ai; [|reflexivity]. rewrite forallb_map. reflexivity.
    + destruct l as [|x l]; [reflexivity|]. simpl. unfold uncur at 1. simpl. f_equal. apply IH.
Qed.

Lemma valid_obj_pairs f props ap kvs :
  valid_obj f props ap kvs = forallb (uncur f) (obj_pairs props ap kvs).
Proof.
  unfold valid_obj, obj_pairs. rewrite forallb_app. f_equal.
  - induction props as [|[k s] r IH]; [reflexivity|]. simpl.
    destruct (assoc k kvs); simpl; rewrite IH; reflexivity.
  - destruct ap as [a|]; [|reflexivity]. rewrite forallb_map.
    induction kvs as [|kv kvs IH]; [reflexivity|]. simpl.
    destruct (has_key (fst kv) props); simpl; rewrite IH; reflexivity.
Qed.

(* direct subschemas of a node *)
Definition child (c s : schema) : Prop :=
  match s with
  | SBool _ => False
  | SObj _ _ _ _ _ _ _ items ai _ _ _ props _ ap _ _ allo anyo oneo no _ _ _ =>
      In c items \/ ai = Some c \/ In c (map snd props) \/ ap = Some c
      \/ (exists l, allo = Some l /\ In c l) \/ (exists l, anyo = Some l /\ In c l)
      \/ (exists l, oneo = Some l /\ In c l) \/ no = Some c
  end.

Lemma tup_pairs_in ai ss vs c x :
  In (c, x) (tup_pairs ai ss vs) -> In c ss \/ ai = Some c.
Proof.
  revert vs. induction ss as [|s ss IH]; intros vs H; simpl in H.
  - destruct ai as [a|]; [|contradiction]. apply in_map_iff in H.
    destruct H as [y [Hy _]]. inversion Hy. right. reflexivity.
  - destruct vs as [|y vs]; [contradiction|]. destruct H as [H|H].
    + inversion H. left. left. reflexivity.
    + destruct (IH _ H) as [H1|H1]; [left; right; exact H1 | right; exact H1].
Qed.

Lemma arr_pairs_in ik items ai l c x :
  In (c, x) (arr_pairs ik items ai l) -> In c items \/ ai = Some c.
Proof.
  unfold arr_pairs. destruct ik; intros H.
  - contradiction.
  - destruct items as [|s ss]; [contradiction|]. apply in_map_iff in H.
    destruct H as [y [Hy _]]. inversion Hy. left. left. reflexivity.
  - eapply tup_pairs_in. exact H.
Qed.

Lemma prop_pairs_in ps kvs c x :
  In (c, x) (prop_pairs ps kvs) -> In c (map snd ps).
Proof.
  induction ps as [|[k s] r IH]; simpl; intros H; [contradiction|].
  destruct (assoc k kvs).
  - destruct H as [H|H]; [inversion H; left; reflexivity | right; apply IH; exact H].
  - right. apply IH. exact H.
Qed.

Lemma obj_pairs_in props ap kvs c x :
  In (c, x) (obj_pairs props ap kvs) -> In c (map snd props) \/ ap = Some c.
Proof.
  unfold obj_pairs. intros H. apply in_app_or in H. destruct H as [H|H].
  - left. eapply prop_pairs_in. exact H.
  - destruct ap as [a|]; [|contradiction]. apply in_map_iff in H.
    destruct H as [y [Hy _]]. inversion Hy. right. reflexivity.
Qed.

Lemma olist_in o v c x : In (c, x) (olist o v) -> x = v /\ exists l, o = Some l /\ In c l.
Proof.
  unfold olist. destruct o as [l|]; [|contradiction]. intros H.
  apply in_map_iff in H. destruct H as [y [Hy Hin]]. inversion Hy; subst.
  split; [reflexivity|]. exists l. split; [reflexivity | exact Hin].
Qed.

Lemma sub_pairs_child s v c x : In (c, x) (sub_pairs s v) -> child c s.
Proof.
  destruct s as [b|ty fmt enum cst nv sv ik items ai mni mxi uq props req ap mnp mxp allo anyo oneo no ref dflt title];
    simpl; [contradiction|].
  intros H.
  apply in_app_or in H. destruct H as [H|H].
  { destruct v; try contradiction. apply arr_pairs_in in H. tauto. }
  apply in_app_or in H. destruct H as [H|H].
  { destruct v; try contradiction. apply obj_pairs_in in H. tauto. }
  apply in_app_or in H. destruct H as [H|H].
  { apply olist_in in H. tauto. }
  apply in_app_or in H. destruct H as [H|H].
  { apply olist_in in H. tauto. }
  apply in_app_or in H. destruct H as [H|H].
  { apply olist_in in H. tauto. }
  destruct no as [n|]; [|contradiction]. destruct H as [H|[]]. inversion H. tauto.
Qed.

(* induction over the child relation *)
Lemma schema_child_ind (P : schema -> Prop) :
  (forall s, (forall c, child c s -> P c) -> P s) -> forall s, P s.
Proof.
  intros Hstep. induction s as [b|ty fmt enum cst nv sv ik items ai mni mxi uq props req ap mnp mxp
                                    allo anyo oneo no ref dflt title Hit Hai Hpr Hap Hall Hany Hone Hno]
                          using schema_ind'.
  - apply Hstep. intros c [].
  - apply Hstep. intros c Hc. simpl in Hc.
    destruct Hc as [H|[H|[H|[H|[H|[H|[H|H]]]]]]].
    + apply (proj1 (Forall_forall _ _) Hit c H).
    + subst ai. exact Hai.
    + apply in_map_iff in H. destruct H as [kv [Hkv Hin]]. subst c.
      apply (proj1 (Forall_forall _ _) Hpr kv Hin).
    + subst ap. exact Hap.
    + destruct H as [l [Hl Hin]]. subst allo. apply (proj1 (Forall_forall _ _) Hall c Hin).
    + destruct H as [l [Hl Hin]]. subst anyo. apply (proj1 (Forall_forall _ _) Hany c Hin).
    + destruct H as [l [Hl Hin]]. subst oneo. apply (proj1 (Forall_forall _ _) Hone c Hin).
    + subst no. exact Hno.
Qed.

(* ------------------------------------------------------------------ one node, abstractly *)
Definition combine_ref (o : vopts) (ref : option ustring) (rk : ustring -> json -> bool)
           (v : json) (here : bool) : bool :=
  match ref with
  | Some r => if ref_ignores_siblings o then rk r v else rk r v && here
  | None => here
  end.

Section Proofs.
  Variable re_match : ustring -> ustring -> bool.
  Variable fmt_ok : ustring -> ustring -> bool.

  Local Notation vstep := (Valid.vstep re_match fmt_ok).
  Local Notation validx := (Valid.validx re_match fmt_ok).
  Local Notation valid := (Valid.valid re_match fmt_ok).
  Local Notation valid_local := (Valid.valid_local re_match fmt_ok).
  Local Notation verdictx := (Valid.verdictx re_match fmt_ok).
  Local Notation Validx := (Valid.Validx re_match fmt_ok).
  Local Notation Invalidx := (Valid.Invalidx re_match fmt_ok).

  (* the conjunction a node forms from the verdicts [F] of its children *)
  Definition here_v (o : vopts) (F : schema -> json -> bool) (s : schema) (v : json) : bool :=
    match s with
    | SBool b => b
    | SObj ty fmt enum cst nv sv ik items ai mni mxi uq props req ap mnp mxp allo anyo oneo no ref dflt title =>
        valid_local o ty fmt enum cst nv sv mni mxi uq req mnp mxp v
        && match v with
           | JArr l => valid_arr (fun s' x => F s' x) ik items ai l
           | _ => true
           end
        && match v with
           | JObj kvs => valid_obj (fun s' x => F s' x) props ap kvs
           | _ => true
           end
        && opt_all (forallb (fun s' => F s' v)) allo
        && opt_all (existsb (fun s' => F s' v)) anyo
        && opt_all (fun l => Nat.eqb (count_true (fun s' => F s' v) l) 1) oneo
        && opt_all (fun s' => negb (F s' v)) no
    end.

  Lemma vstep_SBool o rk b v : vstep o rk (SBool b) v = b.
  Proof. reflexivity. Qed.

  Lemma vstep_SObj o rk ty fmt enum cst nv sv ik items ai mni mxi uq props req ap mnp mxp allo anyo oneo no ref dflt title v :
    let s := SObj ty fmt enum cst nv sv ik items ai mni mxi uq props req ap mnp mxp allo anyo oneo no ref dflt title in
    vstep o rk s v = combine_ref o ref rk v (here_v o (vstep o rk) s v).
  Proof. reflexivity. Qed.

  Lemma dstep_SObj o dk ty fmt enum cst nv sv ik items ai mni mxi uq props req ap mnp mxp allo anyo oneo no ref dflt title v :
    let s := SObj ty fmt enum cst nv sv ik items ai mni mxi uq props req ap mnp mxp allo anyo oneo no ref dflt title in
    dstep o dk s v = combine_ref o ref dk v (forallb (uncur (dstep o dk)) (sub_pairs s v)).
  Proof.
    intros s. unfold s. simpl. unfold combine_ref.
    assert (E : forall X Y : bool, X = Y ->
              match ref with
              | Some r => if ref_ignores_siblings o then dk r v else dk r v && X
              | None => X
              end =
              match ref with
              | Some r => if ref_ignores_siblings o then dk r v else dk r v && Y
              | None => Y
              end) by (intros X Y ->; reflexivity).
    apply E. clear E.
    rewrite !forallb_app.
    rewrite <- !andb_assoc.
    f_equal; [destruct v; try reflexivity; apply valid_arr_pairs|].
    f_equal; [destruct v; try reflexivity; apply valid_obj_pairs|].
    f_equal; [destruct allo; [simpl; rewrite forallb_map; reflexivity | reflexivity]|].
    f_equal; [destruct anyo; [simpl; rewrite forallb_map; reflexivity | reflexivity]|].
    f_equal; [destruct oneo; [simpl; rewrite forallb_map; reflexivity | reflexivity]|].
    destruct no; simpl; [rewrite andb_true_r|]; reflexivity.
  Qed.

  (* ---------------------------------------------------------------- congruence of one node *)
  Lemma in_olist o (v : json) l c : o = Some l -> In c l -> In (c, v) (olist o v).
  Proof. intros -> H. simpl. apply (in_map (fun s => (s, v))). exact H. Qed.

  Lemma here_v_ext o F G s v :
    (forall c x, In (c, x) (sub_pairs s v) -> F c x = G c x) -> here_v o F s v = here_v o G s v.
  Proof.
    destruct s as [b|ty fmt enum cst nv sv ik items ai mni mxi uq props req ap mnp mxp allo anyo oneo no ref dflt title];
      [reflexivity|].
    intros H. simpl in H. unfold here_v.
    assert (Hall : forall l c, allo = Some l -> In c l -> F c v = G c v).
    { intros l c E Hin. apply H. rewrite !in_app_iff. right. right. left. eapply in_olist; eassumption. }
    assert (Hany : forall l c, anyo = Some l -> In c l -> F c v = G c v).
    { intros l c E Hin. apply H. rewrite !in_app_iff. right. right. right. left. eapply in_olist; eassumption. }
    assert (Hone : forall l c, oneo = Some l -> In c l -> F c v = G c v).
    { intros l c E Hin. apply H. rewrite !in_app_iff. right. right. right. right. left. eapply in_olist; eassumption. }
    assert (Hno : forall c, no = Some c -> F c v = G c v).
    { intros c E. apply H. rewrite !in_app_iff. right. right. right. right. right. subst no. left. reflexivity. }
    f_equal; [f_equal; [f_equal; [f_equal; [f_equal; [f_equal|]|]|]|]|].
    - destruct v; try reflexivity. rewrite !valid_arr_pairs. apply forallb_ext_in.
      intros [c x] Hin. unfold uncur. simpl. apply H. rewrite !in_app_iff. left. exact Hin.
    - destruct v; try reflexivity. rewrite !valid_obj_pairs. apply forallb_ext_in.
      intros [c x] Hin. unfold uncur. simpl. apply H. rewrite !in_app_iff. right. left. exact Hin.
    - destruct allo as [l|]; [|reflexivity]. simpl. apply forallb_ext_in. intros c Hin. eapply Hall; eauto.
    - destruct anyo as [l|]; [|reflexivity]. simpl. apply existsb_ext_in. intros c Hin. eapply Hany; eauto.
    - destruct oneo as [l|]; [|reflexivity]. simpl. f_equal. apply count_true_ext_in. intros c Hin. eapply Hone; eauto.
    - destruct no as [c|]; [|reflexivity]. simpl. f_equal. apply Hno. reflexivity.
  Qed.

  Lemma here_v_mono o F G s v :
    sch_one_of s = None -> sch_not s = None ->
    (forall c x, In (c, x) (sub_pairs s v) -> F c x = true -> G c x = true) ->
    here_v o F s v = true -> here_v o G s v = true.
  Proof.
    destruct s as [b|ty fmt enum cst nv sv ik items ai mni mxi uq props req ap mnp mxp allo anyo oneo no ref dflt title];
      [intros _ _ _ H; exact H|].
    simpl. intros -> -> H. rewrite app_nil_r in H. simpl.
    rewrite !andb_true_r. rewrite !andb_true_iff.
    intros [[[[Hl Ha] Ho] Hal] Han]. repeat split.
    - exact Hl.
    - destruct v; try reflexivity. rewrite valid_arr_pairs in *. revert Ha. apply forallb_mono_in.
      intros [c x] Hin. unfold uncur. simpl. apply H. rewrite !in_app_iff. left. exact Hin.
    - destruct v; try reflexivity. rewrite valid_obj_pairs in *. revert Ho. apply forallb_mono_in.
      intros [c x] Hin. unfold uncur. simpl. apply H. rewrite !in_app_iff. right. left. exact Hin.
    - destruct allo as [l|]; [|reflexivity]. simpl in *. revert Hal. apply forallb_mono_in.
      intros c Hin. apply H. rewrite !in_app_iff. right. right. left.
      exact (in_olist (Some l) v l c eq_refl Hin).
    - destruct anyo as [l|]; [|reflexivity]. simpl in *. revert Han. apply existsb_mono_in.
      intros c Hin. apply H. rewrite !in_app_iff. right. right. right.
      exact (in_olist (Some l) v l c eq_refl Hin).
  Qed.

  Lemma combine_ref_stable o ref dk rk rk' v hd h h' :
    (forall r x, dk r x = true -> rk r x = rk' r x) ->
    combine_ref o ref dk v hd = true -> (hd = true -> h = h') ->
    combine_ref o ref rk v h = combine_ref o ref rk' v h'.
  Proof.
    intros Hk. unfold combine_ref. destruct ref as [r|]; [destruct (ref_ignores_siblings o)|].
    - intros Hd _. apply Hk. exact Hd.
    - intros Hd Hh. apply andb_true_iff in Hd. destruct Hd as [Hd1 Hd2].
      rewrite (Hk _ _ Hd1), (Hh Hd2). reflexivity.
    - intros Hd Hh. apply Hh. exact Hd.
  Qed.

  Lemma combine_ref_mono o ref dk dk' v h h' :
    (forall r x, dk r x = true -> dk' r x = true) ->
    (h = true -> h' = true) ->
    combine_ref o ref dk v h = true -> combine_ref o ref dk' v h' = true.
  Proof.
    intros Hk Hh. unfold combine_ref. destruct ref as [r|]; [destruct (ref_ignores_siblings o)|].
    - apply Hk.
    - rewrite !andb_true_iff. intros [H1 H2]. split; [apply Hk; exact H1 | apply Hh; exact H2].
    - exact Hh.
  Qed.

  (* ---------------------------------------------------------------- the three generic lemmas *)
  (* A: where the evaluation is definite, the verdict depends on the reference
        verdicts only where those are definite *)
  Lemma vstep_stable o dk rk rk' :
    (forall r x, dk r x = true -> rk r x = rk' r x) ->
    forall s v, dstep o dk s v = true -> vstep o rk s v = vstep o rk' s v.
  Proof.
    intros Hk s. induction s as [s IH] using schema_child_ind. intros v Hd.
    destruct s as [b|ty fmt enum cst nv sv ik items ai mni mxi uq props req ap mnp mxp allo anyo oneo no ref dflt title];
      [reflexivity|].
    rewrite !vstep_SObj. rewrite dstep_SObj in Hd. cbv zeta in *.
    eapply combine_ref_stable; [exact Hk | exact Hd |].
    intros Hall. apply here_v_ext. intros c x Hin.
    apply IH; [eapply sub_pairs_child; exact Hin|].
    apply (proj1 (forallb_forall _ _) Hall (c, x) Hin).
  Qed.

  (* B: definiteness is monotone in the definiteness of the references *)
  Lemma dstep_mono o dk dk' :
    (forall r x, dk r x = true -> dk' r x = true) ->
    forall s v, dstep o dk s v = true -> dstep o dk' s v = true.
  Proof.
    intros Hk s. induction s as [s IH] using schema_child_ind. intros v Hd.
    destruct s as [b|ty fmt enum cst nv sv ik items ai mni mxi uq props req ap mnp mxp allo anyo oneo no ref dflt title];
      [reflexivity|].
    rewrite dstep_SObj in *. cbv zeta in *.
    revert Hd. apply combine_ref_mono; [exact Hk|].
    apply forallb_mono_in. intros [c x] Hin. unfold uncur. simpl.
    apply IH. eapply sub_pairs_child; exact Hin.
  Qed.

  Lemma no_neg_child s c : no_neg s = true -> child c s -> no_neg c = true.
  Proof.
    destruct s as [b|ty fmt enum cst nv sv ik items ai mni mxi uq props req ap mnp mxp allo anyo oneo no ref dflt title];
      [intros _ []|].
    simpl. rewrite !andb_true_iff.
    intros [[[[[[[H1 H2] H3] H4] H5] H6] H7] H8] Hc.
    destruct Hc as [H|[H|[H|[H|[H|[H|[H|H]]]]]]].
    - apply (proj1 (forallb_forall _ _) H3 c H).
    - subst ai. exact H4.
    - apply in_map_iff in H. destruct H as [kv [E Hin]]. subst c.
      apply (proj1 (forallb_forall _ _) H5 kv Hin).
    - subst ap. exact H6.
    - destruct H as [l [E Hin]]. subst allo. apply (proj1 (forallb_forall _ _) H7 c Hin).
    - destruct H as [l [E Hin]]. subst anyo. apply (proj1 (forallb_forall _ _) H8 c Hin).
    - destruct H as [l [E Hin]]. subst oneo. discriminate.
    - subst no. discriminate.
  Qed.

  Lemma no_neg_node s : no_neg s = true -> sch_one_of s = None /\ sch_not s = None.
  Proof.
    destruct s as [b|ty fmt enum cst nv sv ik items ai mni mxi uq props req ap mnp mxp allo anyo oneo no ref dflt title];
      [split; reflexivity|].
    simpl. destruct oneo; [discriminate|]. destruct no; [discriminate|]. split; reflexivity.
  Qed.

  (* C: without not/oneOf validity is monotone in the verdicts of the references *)
  Lemma vstep_mono_noneg o rk rk' :
    (forall r x, rk r x = true -> rk' r x = true) ->
    forall s v, no_neg s = true -> vstep o rk s v = true -> vstep o rk' s v = true.
  Proof.
    intros Hk s. induction s as [s IH] using schema_child_ind. intros v Hn Hv.
    destruct (no_neg_node s Hn) as [H1 H2].
    destruct s as [b|ty fmt enum cst nv sv ik items ai mni mxi uq props req ap mnp mxp allo anyo oneo no ref dflt title];
      [exact Hv|].
    rewrite vstep_SObj in *. cbv zeta in *.
    revert Hv. apply combine_ref_mono; [exact Hk|].
    apply here_v_mono; [exact H1 | exact H2|].
    intros c x Hin. assert (Hc := sub_pairs_child _ _ _ _ Hin).
    apply IH; [exact Hc|]. eapply no_neg_child; eassumption.
  Qed.

  Lemma ref_free_child s c : ref_free s = true -> child c s -> ref_free c = true.
  Proof.
    destruct s as [b|ty fmt enum cst nv sv ik items ai mni mxi uq props req ap mnp mxp allo anyo oneo no ref dflt title];
      [intros _ []|].
    simpl. rewrite !andb_true_iff.
    intros [[[[[[[[H0 H1] H2] H3] H4] H5] H6] H7] H8] Hc.
    destruct Hc as [H|[H|[H|[H|[H|[H|[H|H]]]]]]].
    - apply (proj1 (forallb_forall _ _) H1 c H).
    - subst ai. exact H2.
    - apply in_map_iff in H. destruct H as [kv [E Hin]]. subst c.
      apply (proj1 (forallb_forall _ _) H3 kv Hin).
    - subst ap. exact H4.
    - destruct H as [l [E Hin]]. subst allo. apply (proj1 (forallb_forall _ _) H5 c Hin).
    - destruct H as [l [E Hin]]. subst anyo. apply (proj1 (forallb_forall _ _) H6 c Hin).
    - destruct H as [l [E Hin]]. subst oneo. apply (proj1 (forallb_forall _ _) H7 c Hin).
    - subst no. exact H8.
  Qed.

  (* D: a schema without references is definite whatever the references do *)
  Lemma dstep_ref_free o dk : forall s v, ref_free s = true -> dstep o dk s v = true.
  Proof.
    intros s. induction s as [s IH] using schema_child_ind. intros v Hr.
    destruct s as [b|ty fmt enum cst nv sv ik items ai mni mxi uq props req ap mnp mxp allo anyo oneo no ref dflt title];
      [reflexivity|].
    rewrite dstep_SObj. cbv zeta.
    assert (ref = None) as ->.
    { simpl in Hr. destruct ref; [discriminate | reflexivity]. }
    unfold combine_ref. apply forallb_forall. intros [c x] Hin. unfold uncur. simpl.
    assert (Hc := sub_pairs_child _ _ _ _ Hin).
    apply IH; [exact Hc|]. eapply ref_free_child; eassumption.
  Qed.

  (* ---------------------------------------------------------------- fuel *)
  Local Notation definitex := Valid.definitex.

  Definition refk_valid (o : vopts) (D : defs) (fuel : nat) : ustring -> json -> bool :=
    fun name x =>
      match fuel with
      | O => false
      | S f => match resolve_ref D name with
               | Some s' => validx o D f s' x
               | None => false
               end
      end.

  Definition refk_def (o : vopts) (D : defs) (fuel : nat) : ustring -> json -> bool :=
    fun name x =>
      match fuel with
      | O => false
      | S f => match resolve_ref D name with
               | Some s' => definitex o D f s' x
               | None => false
               end
      end.

  Lemma validx_unfold o D n s v : validx o D n s v = vstep o (refk_valid o D n) s v.
  Proof. destruct n; reflexivity. Qed.

  Lemma definitex_unfold o D n s v : definitex o D n s v = dstep o (refk_def o D n) s v.
  Proof. destruct n; reflexivity. Qed.

  Lemma definitex_S o D : forall n s v, definitex o D n s v = true -> definitex o D (S n) s v = true.
  Proof.
    induction n as [|n IH]; intros s v H; rewrite definitex_unfold in *; revert H;
      apply dstep_mono; intros r x; simpl.
    - discriminate.
    - destruct (resolve_ref D r); [apply IH | discriminate].
  Qed.

  Lemma validx_S o D : forall n s v, definitex o D n s v = true -> validx o D (S n) s v = validx o D n s v.
  Proof.
    induction n as [|n IH]; intros s v H; rewrite !validx_unfold; rewrite definitex_unfold in H;
      apply (vstep_stable o (refk_def o D _) _ _) with (2 := H); intros r x; simpl.
    - discriminate.
    - destruct (resolve_ref D r); [apply IH | discriminate].
  Qed.

  (* THE fuel theorem: once the evaluation is definite, more fuel changes nothing *)
  Theorem valid_fuel_stable o D n m s v :
    n <= m -> definitex o D n s v = true ->
    definitex o D m s v = true /\ validx o D m s v = validx o D n s v.
  Proof.
    intros Hle Hd. induction Hle as [|m Hle [IH1 IH2]].
    - split; [exact Hd | reflexivity].
    - split; [apply definitex_S; exact IH1|]. rewrite validx_S; [exact IH2 | exact IH1].
  Qed.

  Corollary verdictx_mono o D n m s v b :
    verdictx o D n s v = Some b -> n <= m -> verdictx o D m s v = Some b.
  Proof.
    unfold Valid.verdictx. destruct (definitex o D n s v) eqn:Hd; [|discriminate].
    intros Hb Hle. destruct (valid_fuel_stable o D n m s v Hle Hd) as [H1 H2].
    rewrite H1, H2. exact Hb.
  Qed.

  Corollary Validx_Invalidx_excl o D s v : Validx o D s v -> Invalidx o D s v -> False.
  Proof.
    intros [n [Hd1 Hv1]] [m [Hd2 Hv2]].
    destruct (valid_fuel_stable o D n (Nat.max n m) s v (Nat.le_max_l _ _) Hd1) as [_ E1].
    destruct (valid_fuel_stable o D m (Nat.max n m) s v (Nat.le_max_r _ _) Hd2) as [_ E2].
    rewrite E1, Hv1 in E2. rewrite Hv2 in E2. discriminate.
  Qed.

  Corollary Validx_all_fuel o D s v :
    Validx o D s v ->
    exists n, forall m, n <= m -> definitex o D m s v = true /\ validx o D m s v = true.
  Proof.
    intros [n [Hd Hv]]. exists n. intros m Hle.
    destruct (valid_fuel_stable o D n m s v Hle Hd) as [H1 H2]. rewrite H2. split; assumption.
  Qed.

  Corollary Invalidx_all_fuel o D s v :
    Invalidx o D s v ->
    exists n, forall m, n <= m -> definitex o D m s v = true /\ validx o D m s v = false.
  Proof.
    intros [n [Hd Hv]]. exists n. intros m Hle.
    destruct (valid_fuel_stable o D n m s v Hle Hd) as [H1 H2]. rewrite H2. split; assumption.
  Qed.

  Theorem definitex_ref_free o D n s v : ref_free s = true -> definitex o D n s v = true.
  Proof. intros H. rewrite definitex_unfold. apply dstep_ref_free. exact H. Qed.

  (* ---- the negation-free fragment: plain monotonicity *)
  Lemma assoc_in {A} k (l : list (ustring * A)) x : assoc k l = Some x -> exists k', In (k', x) l.
  Proof.
    induction l as [|[k' y] l IH]; simpl; [discriminate|].
    destruct (ustr_eqb k k').
    - intros E. inversion E. subst. exists k'. left. reflexivity.
    - intros E. destruct (IH E) as [k'' H]. exists k''. right. exact H.
  Qed.

  Lemma validx_S_noneg o D :
    no_neg_defs D = true ->
    forall n s v, no_neg s = true -> validx o D n s v = true -> validx o D (S n) s v = true.
  Proof.
    intros HD. induction n as [|n IH]; intros s v Hs H; rewrite validx_unfold in *; revert H;
      apply vstep_mono_noneg; try exact Hs; intros r x; simpl.
    - discriminate.
    - destruct (resolve_ref D r) as [s'|] eqn:E; [|discriminate].
      apply IH. destruct (assoc_in _ _ _ E) as [k' Hin].
      apply (proj1 (forallb_forall _ _) HD (k', s') Hin).
  Qed.

  Theorem valid_mono_noneg o D n m s v :
    no_neg_defs D = true -> no_neg s = true -> n <= m ->
    validx o D n s v = true -> validx o D m s v = true.
  Proof.
    intros HD Hs Hle H. induction Hle as [|m Hle IH]; [exact H|].
    apply validx_S_noneg; assumption.
  Qed.

  (* ---- and it is false in general *)
  Theorem valid_not_mono :
    exists D s v n m, n <= m /\ valid D n s v = true /\ valid D m s v = false.
  Proof.
    exists [([65%N], SBool true)], (SNot (SRef [65%N])), JNull, 0, 1.
    split; [lia|]. split; reflexivity.
  Qed.

  (* ---------------------------------------------------------------- unfolding lemmas *)
  Lemma valid_SBool o D n b v : validx o D n (SBool b) v = b.
  Proof. rewrite validx_unfold. reflexivity. Qed.

  Lemma valid_ref_0 o D ty fmt enum cst nv sv ik items ai mni mxi uq props req ap mnp mxp allo anyo oneo no r dflt title v :
    validx o D 0 (SObj ty fmt enum cst nv sv ik items ai mni mxi uq props req ap mnp mxp allo anyo oneo no (Some r) dflt title) v
    = false.
  Proof.
    rewrite validx_unfold, vstep_SObj. cbv zeta. unfold combine_ref, refk_valid.
    destruct (ref_ignores_siblings o); reflexivity.
  Qed.

  Lemma valid_ref_S o D n ty fmt enum cst nv sv ik items ai mni mxi uq props req ap mnp mxp allo anyo oneo no r dflt title v :
    ref_ignores_siblings o = true ->
    validx o D (S n) (SObj ty fmt enum cst nv sv ik items ai mni mxi uq props req ap mnp mxp allo anyo oneo no (Some r) dflt title) v
    = match resolve_ref D r with
      | Some s' => validx o D n s' v
      | None => false
      end.
  Proof.
    intros Ho. rewrite validx_unfold, vstep_SObj. cbv zeta. unfold combine_ref, refk_valid.
    rewrite Ho. reflexivity.
  Qed.

  Lemma valid_ref D n r v :
    valid D (S n) (SRef r) v = match resolve_ref D r with Some s' => valid D n s' v | None => false end.
  Proof. unfold Valid.valid, SRef. apply valid_ref_S. reflexivity. Qed.

  (* the general one-level unfolding: what builders of covers/exact proofs use *)
  Lemma validx_SObj o D n ty fmt enum cst nv sv ik items ai mni mxi uq props req ap mnp mxp allo anyo oneo no ref dflt title v :
    let s := SObj ty fmt enum cst nv sv ik items ai mni mxi uq props req ap mnp mxp allo anyo oneo no ref dflt title in
    validx o D n s v = combine_ref o ref (refk_valid o D n) v (here_v o (validx o D n) s v).
  Proof.
    intros s. unfold s. rewrite validx_unfold, vstep_SObj. cbv zeta. f_equal.
    apply here_v_ext. intros c x _. rewrite validx_unfold. reflexivity.
  Qed.

  Lemma definitex_SObj o D n ty fmt enum cst nv sv ik items ai mni mxi uq props req ap mnp mxp allo anyo oneo no ref dflt title v :
    let s := SObj ty fmt enum cst nv sv ik items ai mni mxi uq props req ap mnp mxp allo anyo oneo no ref dflt title in
    definitex o D n s v
    = combine_ref o ref (refk_def o D n) v (forallb (uncur (definitex o D n)) (sub_pairs s v)).
  Proof.
    intros s. unfold s. rewrite definitex_unfold, dstep_SObj. cbv zeta. f_equal.
    apply forallb_ext_in. intros [c x] _. unfold uncur. simpl. rewrite definitex_unfold. reflexivity.
  Qed.

  Lemma definitex_SBool o D n b v : definitex o D n (SBool b) v = true.
  Proof. rewrite definitex_unfold. reflexivity. Qed.

  Lemma valid_local_none o v :
    valid_local o None None None None numv_none strv_none None None false [] None None v = true.
  Proof. destruct v; reflexivity. Qed.

  Lemma valid_allOf o D n L v :
    validx o D n (SAllOf L) v = forallb (fun s => validx o D n s v) L.
  Proof.
    rewrite validx_unfold. unfold SAllOf. rewrite vstep_SObj. cbv zeta.
    unfold combine_ref, here_v. rewrite valid_local_none.
    assert (E : forallb (fun s' => vstep o (refk_valid o D n) s' v) L
                = forallb (fun s => validx o D n s v) L).
    { apply forallb_ext_in. intros s _. rewrite validx_unfold. reflexivity. }
    rewrite <- E. destruct v; simpl; rewrite ?andb_true_r; reflexivity.
  Qed.

  Lemma andb7_split (a b c x d e f : bool) :
    a && b && c && x && d && e && f = (a && b && c && true && d && e && f) && x.
  Proof. destruct a, b, c, x, d, e, f; reflexivity. Qed.

  (* allOf is a conjunct of the node: (node with allOf L) = (node without allOf) /\ all of L *)
  Lemma valid_allOf_split o D n ty fmt enum cst nv sv ik items ai mni mxi uq props req ap mnp mxp L anyo oneo no dflt title v :
    validx o D n (SObj ty fmt enum cst nv sv ik items ai mni mxi uq props req ap mnp mxp (Some L) anyo oneo no None dflt title) v
    = validx o D n (SObj ty fmt enum cst nv sv ik items ai mni mxi uq props req ap mnp mxp None anyo oneo no None dflt title) v
      && forallb (fun s => validx o D n s v) L.
  Proof.
    rewrite !validx_unfold, !vstep_SObj. cbv zeta. unfold combine_ref, here_v.
    rewrite andb7_split. f_equal. simpl.
    apply forallb_ext_in. intros s _. rewrite validx_unfold. reflexivity.
  Qed.

  Lemma valid_allOf_perm o D n ty fmt enum cst nv sv ik items ai mni mxi uq props req ap mnp mxp L L' anyo oneo no ref dflt title v :
    Permutation L L' ->
    validx o D n (SObj ty fmt enum cst nv sv ik items ai mni mxi uq props req ap mnp mxp (Some L) anyo oneo no ref dflt title) v
    = validx o D n (SObj ty fmt enum cst nv sv ik items ai mni mxi uq props req ap mnp mxp (Some L') anyo oneo no ref dflt title) v.
  Proof.
    intros HP. rewrite !validx_unfold, !vstep_SObj. cbv zeta. f_equal. unfold here_v. simpl.
    rewrite (forallb_perm _ _ _ HP). reflexivity.
  Qed.

  Lemma definite_allOf_perm o D n ty fmt enum cst nv sv ik items ai mni mxi uq props req ap mnp mxp L L' anyo oneo no ref dflt title v :
    Permutation L L' ->
    definitex o D n (SObj ty fmt enum cst nv sv ik items ai mni mxi uq props req ap mnp mxp (Some L) anyo oneo no ref dflt title) v
    = definitex o D n (SObj ty fmt enum cst nv sv ik items ai mni mxi uq props req ap mnp mxp (Some L') anyo oneo no ref dflt title) v.
  Proof.
    intros HP. rewrite !definitex_unfold, !dstep_SObj. cbv zeta. f_equal. apply forallb_perm.
    unfold sub_pairs. repeat apply Permutation_app; try apply Permutation_refl.
    simpl. apply Permutation_map. exact HP.
  Qed.

  Corollary Valid_allOf_perm o D ty fmt enum cst nv sv ik items ai mni mxi uq props req ap mnp mxp L L' anyo oneo no ref dflt title v :
    Permutation L L' ->
    Validx o D (SObj ty fmt enum cst nv sv ik items ai mni mxi uq props req ap mnp mxp (Some L) anyo oneo no ref dflt title) v ->
    Validx o D (SObj ty fmt enum cst nv sv ik items ai mni mxi uq props req ap mnp mxp (Some L') anyo oneo no ref dflt title) v.
  Proof.
    intros HP [n [Hd Hv]]. exists n.
    rewrite <- (definite_allOf_perm o D n _ _ _ _ _ _ _ _ _ _ _ _ _ _ _ _ _ L L' _ _ _ _ _ _ v HP).
    rewrite <- (valid_allOf_perm o D n _ _ _ _ _ _ _ _ _ _ _ _ _ _ _ _ _ L L' _ _ _ _ _ _ v HP).
    split; assumption.
  Qed.

  (* ---------------------------------------------------------------- enough fuel for acyclic definitions *)
  Lemma refs_child s c r : child c s -> In r (refs c) -> In r (refs s).
  Proof.
    destruct s as [b|ty fmt enum cst nv sv ik items ai mni mxi uq props req ap mnp mxp allo anyo oneo no ref dflt title];
      [intros []|].
    intros Hc Hr. simpl. rewrite !in_app_iff.
    destruct Hc as [H|[H|[H|[H|[H|[H|[H|H]]]]]]].
    - right. left. apply in_flat_map. exists c. split; assumption.
    - subst ai. right. right. left. exact Hr.
    - apply in_map_iff in H. destruct H as [kv [E Hin]]. subst c.
      right. right. right. left. apply in_flat_map. exists kv. split; assumption.
    - subst ap. right. right. right. right. left. exact Hr.
    - destruct H as [l [E Hin]]. subst allo. right. right. right. right. right. left.
      apply in_flat_map. exists c. split; assumption.
    - destruct H as [l [E Hin]]. subst anyo. right. right. right. right. right. right. left.
      apply in_flat_map. exists c. split; assumption.
    - destruct H as [l [E Hin]]. subst oneo. right. right. right. right. right. right. right. left.
      apply in_flat_map. exists c. split; assumption.
    - subst no. right. right. right. right. right. right. right. right. exact Hr.
  Qed.

  Lemma dstep_refs o dk : forall s v,
    (forall r, In r (refs s) -> forall x, dk r x = true) -> dstep o dk s v = true.
  Proof.
    intros s. induction s as [s IH] using schema_child_ind. intros v Hr.
    destruct s as [b|ty fmt enum cst nv sv ik items ai mni mxi uq props req ap mnp mxp allo anyo oneo no ref dflt title];
      [reflexivity|].
    rewrite dstep_SObj. cbv zeta.
    match goal with |- combine_ref _ _ _ _ ?h = true => assert (Hh : h = true) end.
    { apply forallb_forall. intros [c x] Hin. unfold uncur. simpl.
      assert (Hc := sub_pairs_child _ _ _ _ Hin).
      apply IH; [exact Hc|]. intros r Hin' y. apply Hr. eapply refs_child; eassumption. }
    rewrite Hh. unfold combine_ref. destruct ref as [r|]; [|reflexivity].
    assert (Hd : dk r v = true) by (apply Hr; simpl; left; reflexivity).
    rewrite Hd. destruct (ref_ignores_siblings o); reflexivity.
  Qed.

  Theorem definitex_ranked o D rk :
    ranked D rk ->
    forall n s v,
      (forall r, In r (refs s) -> rk r < n /\ resolve_ref D r <> None) ->
      definitex o D n s v = true.
  Proof.
    intros HD. induction n as [|n IH]; intros s v Hs; rewrite definitex_unfold; apply dstep_refs;
      intros r Hin x; destruct (Hs r Hin) as [Hlt Hres]; [lia|].
    simpl. destruct (resolve_ref D r) as [s'|] eqn:E; [|contradiction].
    apply IH. intros r' Hin'. destruct (HD r s' E r' Hin') as [H1 H2].
    split; [lia | exact H2].
  Qed.
End Proofs.
