(* Proofs/StrConvProofs.v — lemmas about Algo/StrConv.v (property C11). *)
From Coq Require Import String Ascii ZArith NArith List Bool Lia.
From Typify Require Import Base.Json IR.TypeIR Algo.StrConv.
Import ListNotations.
Open Scope N_scope.

(* ---------------- strings ---------------- *)
Lemma ustr_eqb_eq : forall a b, ustr_eqb a b = true -> a = b.
Proof.
  induction a as [|x a IH]; destruct b as [|y b]; cbn [ustr_eqb]; intros H; try discriminate; auto.
  apply andb_true_iff in H as [H1 H2]. apply N.eqb_eq in H1. subst. f_equal. auto.
Qed.

Lemma ustr_eqb_refl : forall a, ustr_eqb a a = true.
Proof.
  induction a as [|x a IH]; cbn [ustr_eqb]; auto. rewrite N.eqb_refl, IH. reflexivity.
Qed.

Lemma ustr_eqb_neq : forall a b, ustr_eqb a b = false -> a <> b.
Proof. intros a b H E. subst. rewrite ustr_eqb_refl in H. discriminate. Qed.

Lemma serde_name_raw : forall v, serde_name v = v_raw v.
Proof.
  intros v. unfold serde_name. destruct (ustr_eqb (v_raw v) (v_ident v)) eqn:E; auto.
  apply ustr_eqb_eq in E. auto.
Qed.

(* ---------------- format strings ---------------- *)
Lemma fmt_render_literal : forall s, brace_free s = true -> fmt_render s = Some s.
Proof.
  induction s as [|c r IH]; intros H; cbn [fmt_render]; auto.
  cbn [brace_free forallb] in H. apply andb_true_iff in H as [H1 H2].
  apply andb_true_iff in H1 as [Ha Hb].
  apply negb_true_iff in Ha. apply negb_true_iff in Hb. rewrite Ha, Hb.
  unfold brace_free in IH. rewrite (IH H2). reflexivity.
Qed.

(* the escaped literal always renders back to the raw name *)
Lemma fmt_render_escape : forall s, fmt_render (fmt_escape s) = Some s.
Proof.
  induction s as [|c r IH]; cbn [fmt_escape]; [reflexivity|].
  destruct (c =? 123) eqn:A.
  - apply N.eqb_eq in A. subst c.
    change (fmt_render (123 :: 123 :: fmt_escape r))
      with (option_map (cons 123) (fmt_render (fmt_escape r))).
    rewrite IH. reflexivity.
  - destruct (c =? 125) eqn:B.
    + apply N.eqb_eq in B. subst c.
      change (fmt_render (125 :: 125 :: fmt_escape r))
        with (option_map (cons 125) (fmt_render (fmt_escape r))).
      rewrite IH. reflexivity.
    + cbn [fmt_render]. rewrite A, B, IH. reflexivity.
Qed.

(* ---------------- first_some ---------------- *)
Lemma first_some_ext_in : forall {A B} (f g : A -> option B) l k,
  (forall a, In a l -> f a = g a) -> first_some f l k = first_some g l k.
Proof.
  intros A B f g l. induction l as [|a r IH]; intros k H; cbn [first_some]; auto.
  rewrite <- (H a (or_introl eq_refl)). destruct (f a); auto.
  apply IH. intros a' Ha. apply H. right. exact Ha.
Qed.

Lemma first_some_spec : forall {A B} (f : A -> option B) l k0 k b,
  first_some f l k0 = Some (k, b) ->
  (k0 <= k)%nat /\
  (exists a, nth_error l (k - k0) = Some a /\ f a = Some b) /\
  (forall j a', (j < k - k0)%nat -> nth_error l j = Some a' -> f a' = None).
Proof.
  intros A B f l. induction l as [|a r IH]; intros k0 k b H; cbn [first_some] in H; try discriminate.
  destruct (f a) as [b'|] eqn:E.
  - inversion H; subst. split; [lia|]. replace (k - k)%nat with 0%nat by lia. split.
    + exists a. split; auto.
    + intros j a' Hj. lia.
  - apply IH in H as [Hle [[a0 [Hn Hf]] Hmin]]. split; [lia|].
    replace (k - k0)%nat with (S (k - S k0)) by lia. split.
    + exists a0. split; auto.
    + intros j a' Hj Hnth. destruct j as [|j].
      * cbn in Hnth. inversion Hnth; subst. exact E.
      * cbn in Hnth. apply (Hmin j a'); [lia|exact Hnth].
Qed.

Lemma first_some_spec0 : forall {A B} (f : A -> option B) l k b,
  first_some f l 0 = Some (k, b) ->
  (exists a, nth_error l k = Some a /\ f a = Some b) /\
  (forall j a', (j < k)%nat -> nth_error l j = Some a' -> f a' = None).
Proof.
  intros A B f l k b H. apply first_some_spec in H as [_ [H1 H2]].
  replace (k - 0)%nat with k in * by lia. split; auto.
Qed.

(* ---------------- small facts about the model ---------------- *)
Lemma is_string_get : forall T i, is_string T i = true -> get_det T i = Some DString.
Proof.
  intros T i H. unfold is_string in H. destruct (get_det T i) as [d|]; try discriminate.
  destruct d; try discriminate. reflexivity.
Qed.

Lemma wired_string_fuel : forall sn T f i,
  is_string T i = true -> string_wired sn T f i = true -> exists f', f = S f'.
Proof.
  intros sn T f i _ H. destruct f as [|f']; [discriminate|]. eauto.
Qed.

Section Proofs.
Variable re_match : ustring -> ustring -> bool.
Variable native_parse : ustring -> ustring -> bool.
Variable native_display : ustring -> ustring -> ustring.
Variable native_ser : ustring -> ustring -> ustring.
Variable native_fmt_ok : ustring -> bool.
Variable string_native : ustring -> bool.

Notation string_wired := (string_wired string_native).
Notation from_str := (from_str re_match native_parse).
Notation de_str := (de_str re_match native_parse).
Notation try_from_str := (try_from_str re_match native_parse).
Notation display := (display native_display).
Notation ser_str := (ser_str native_ser).
Notation display_ok := (display_ok native_fmt_ok).

Lemma de_str_string : forall T f i s,
  is_string T i = true -> de_str T (S f) i s = Some (SStr s).
Proof. intros T f i s H. apply is_string_get in H. cbn [StrConv.de_str]. rewrite H. reflexivity. Qed.

Lemma forallb_In : forall {A} (p : A -> bool) l a, forallb p l = true -> In a l -> p a = true.
Proof. intros A p l a H Hin. rewrite forallb_forall in H. auto. Qed.

(* ---------------- emission implies has_impl ---------------- *)
(* has_impl needs one unit of fuel for the inner String; under string_wired the fuel is there *)
Lemma emits_fromstr_has_impl : forall T f t,
  string_wired T f t = true -> emits_fromstr T f t = true -> has_impl T f t TFromStr = true.
Proof.
  intros T [|f] t W H; cbn [emits_fromstr has_impl StrConv.string_wired] in *; try discriminate.
  destruct (get_det T t) as [d|]; try discriminate. destruct d; try discriminate; auto.
  destruct c; try discriminate; auto.
  apply orb_true_iff in H as [H|H].
  - destruct (wired_string_fuel _ _ _ _ H W) as [f' ->]. apply is_string_get in H.
    cbn [has_impl]. rewrite H. reflexivity.
  - apply andb_true_iff in H as [H _]. exact H.
Qed.

Lemma emits_display_has_impl : forall T f t,
  emits_display T f t = true -> has_impl T f t TDisplay = true.
Proof.
  intros T [|f] t H; cbn [emits_display has_impl] in *; try discriminate.
  destruct (get_det T t) as [d|]; try discriminate. destruct d; try discriminate; auto.
  destruct c; try discriminate; auto.
Qed.

(* ---------------- parse = deserialize ---------------- *)
Lemma parse_eq_de_has_impl : forall T f t s,
  string_wired T f t = true -> wf_conv T f t = true -> has_impl T f t TFromStr = true ->
  from_str T f t s = de_str T f t s.
Proof.
  intros T f. induction f as [|f IH]; intros t s W F H; [discriminate|].
  cbn [StrConv.string_wired wf_conv has_impl StrConv.from_str StrConv.de_str] in *.
  destruct (get_det T t) as [d|] eqn:E; try discriminate.
  destruct d; try discriminate.
  - (* DEnum *)
    destruct tag; try discriminate.
    + (* external *)
      apply andb_true_iff in W as [Wne Wall].
      assert (HA : has_bespoke AllSimpleVariants bes = true).
      { apply orb_true_iff in F as [F|F].
        - apply orb_true_iff in F as [F|F]; auto.
          rewrite Wall in F. discriminate.
        - destruct vs; [discriminate|discriminate]. }
      rewrite HA.
      rewrite (first_some_ext_in
                 (fun v => if ustr_eqb s (serde_name v) then Some tt else None)
                 (fun v => if ustr_eqb s (v_raw v) then Some tt else None) vs 0%nat)
        by (intros a _; rewrite serde_name_raw; reflexivity).
      destruct (first_some (fun v => if ustr_eqb s (v_raw v) then Some tt else None) vs 0) as [[k u]|] eqn:FS;
        cbn [option_map fst]; auto.
      apply first_some_spec0 in FS as [[a [Hn _]] _]. rewrite Hn.
      rewrite (forallb_In _ _ _ Wall (nth_error_In _ _ Hn)). reflexivity.
    + (* untagged *)
      apply andb_true_iff in W as [Wne Wall].
      apply andb_true_iff in F as [F Fwf]. apply andb_true_iff in F as [F FnA].
      apply andb_true_iff in F as [FF FD].
      apply negb_true_iff in FnA. rewrite FnA in *. cbn [orb] in H. rewrite H in *.
      cbn [negb orb] in FF.
      f_equal. apply first_some_ext_in. intros a Ha.
      pose proof (forallb_In _ _ _ Wall Ha) as Wa.
      pose proof (forallb_In _ _ _ FF Ha) as Ia.
      pose proof (forallb_In _ _ _ Fwf Ha) as Fa.
      cbv beta in Wa, Ia, Fa.
      destruct (v_det a); try discriminate. apply IH; auto.
  - (* DNewtype *)
    destruct c.
    + (* CNone *)
      destruct (is_string T inner) eqn:IS.
      * destruct (wired_string_fuel _ _ _ _ IS W) as [f' ->].
        rewrite (de_str_string _ _ _ _ IS). reflexivity.
      * rewrite H. rewrite (IH inner s W F H). reflexivity.
    + discriminate.
    + discriminate.
    + (* CString *)
      apply andb_true_iff in W as [IS W].
      destruct (wired_string_fuel _ _ _ _ IS W) as [f' ->].
      rewrite (de_str_string _ _ _ _ IS). reflexivity.
  - (* DNative *)
    rewrite H. cbn [andb]. reflexivity.
  - (* DString *) reflexivity.
Qed.

Theorem parse_eq_de : forall T f t s,
  string_wired T f t = true -> wf_conv T f t = true -> emits_fromstr T f t = true ->
  from_str T f t s = de_str T f t s.
Proof.
  intros T f t s W F E. apply parse_eq_de_has_impl; auto. apply emits_fromstr_has_impl; auto.
Qed.

Theorem parse_iff_de : forall T f t s,
  string_wired T f t = true -> wf_conv T f t = true -> emits_fromstr T f t = true ->
  (from_str T f t s <> None <-> de_str T f t s <> None) /\
  (forall x y, from_str T f t s = Some x -> de_str T f t s = Some y -> x = y).
Proof.
  intros T f t s W F E. rewrite (parse_eq_de T f t s W F E). split; [split; intros H; exact H|].
  intros x y H1 H2. rewrite H1 in H2. inversion H2. reflexivity.
Qed.

(* ---------------- TryFrom = parse ---------------- *)
Theorem try_from_eq_parse : forall T f t s,
  emits_tryfrom T f t = true ->
  try_from_str T f t s = from_str T f t s /\
  try_from_ref_string re_match native_parse T f t s = from_str T f t s /\
  try_from_string_parse re_match native_parse T f t s = from_str T f t s.
Proof.
  intros T f t s H. unfold try_from_ref_string, try_from_string_parse, StrConv.try_from_str, parse_call.
  rewrite H. auto.
Qed.

(* enum/deny-value newtypes over String: Deserialize = TryFrom<String> *)
Theorem try_from_inner_eq_de : forall T f t s,
  string_wired T f t = true -> emits_tryfrom_inner T t = true ->
  de_str T f t s = try_from_inner T t s.
Proof.
  intros T [|f] t s W H; [discriminate|].
  unfold emits_tryfrom_inner in H. cbn [StrConv.string_wired StrConv.de_str] in *.
  destruct (get_det T t) as [d|] eqn:E; try discriminate.
  destruct d; try discriminate. destruct c; try discriminate.
  - apply andb_true_iff in W as [IS W]. destruct (wired_string_fuel _ _ _ _ IS W) as [f' ->].
    rewrite (de_str_string _ _ _ _ IS). reflexivity.
  - apply andb_true_iff in W as [IS W]. destruct (wired_string_fuel _ _ _ _ IS W) as [f' ->].
    rewrite (de_str_string _ _ _ _ IS). reflexivity.
Qed.

(* ---------------- Display = Serialize ---------------- *)
Hypothesis Hnat : forall n s, native_fmt_ok n = true -> native_parse n s = true ->
                              native_display n s = native_ser n s.

Lemma display_is_ser_has_impl : forall T f t s x,
  string_wired T f t = true -> wf_conv T f t = true -> has_impl T f t TDisplay = true ->
  display_ok T f t = true -> de_str T f t s = Some x ->
  display T f t x = ser_str T f t x /\ ser_str T f t x <> None.
Proof.
  intros T f. induction f as [|f IH]; intros t s x W F H K Dx; [discriminate|].
  cbn [StrConv.string_wired wf_conv has_impl StrConv.display_ok StrConv.de_str StrConv.display StrConv.ser_str] in *.
  destruct (get_det T t) as [d|] eqn:E; try discriminate.
  destruct d; try discriminate.
  - (* DEnum *)
    destruct tag; try discriminate.
    + (* external *)
      apply andb_true_iff in W as [Wne Wall].
      assert (HA : has_bespoke AllSimpleVariants bes = true).
      { apply orb_true_iff in F as [F|F].
        - apply orb_true_iff in F as [F|F]; auto. rewrite Wall in F. discriminate.
        - destruct vs; discriminate. }
      destruct (first_some (fun v => if ustr_eqb s (serde_name v) then Some tt else None) vs 0)
        as [[k u]|] eqn:FS; try discriminate.
      destruct (nth_error vs k) as [v|] eqn:Hn; try discriminate.
      destruct (is_vsimple v) eqn:Sv; try discriminate.
      inversion Dx; subst x. rewrite HA, Hn, Sv.
      rewrite fmt_render_escape, serde_name_raw. split; [reflexivity|discriminate].
    + (* untagged *)
      apply andb_true_iff in W as [Wne Wall].
      apply andb_true_iff in F as [F Fwf]. apply andb_true_iff in F as [F FnA].
      apply andb_true_iff in F as [FF FD].
      apply negb_true_iff in FnA. rewrite FnA in *. cbn [orb] in H. rewrite H in *.
      cbn [negb orb] in FD.
      destruct (first_some (fun v => match v_det v with VItem i => de_str T f i s | _ => None end) vs 0)
        as [[k v']|] eqn:FS; try discriminate.
      cbn [option_map fst snd] in Dx. inversion Dx; subst x.
      apply first_some_spec0 in FS as [[a [Hn Ha]] _]. rewrite Hn.
      pose proof (nth_error_In _ _ Hn) as Hin.
      pose proof (forallb_In _ _ _ Wall Hin) as Wa.
      pose proof (forallb_In _ _ _ FD Hin) as Ia.
      pose proof (forallb_In _ _ _ Fwf Hin) as Fa.
      pose proof (forallb_In _ _ _ K Hin) as Ka.
      cbv beta in Wa, Ia, Fa, Ka.
      destruct (v_det a); try discriminate. eapply IH; eauto.
  - (* DNewtype *)
    destruct c.
    + (* CNone *)
      destruct (de_str T f inner s) as [v|] eqn:Dv; try discriminate.
      cbn [option_map] in Dx. inversion Dx; subst x. eapply IH; eauto.
    + discriminate.
    + discriminate.
    + (* CString: no Display of its own; through Deref the inner String is printed *)
      apply andb_true_iff in W as [IS W].
      destruct (wired_string_fuel _ _ _ _ IS W) as [f' ->].
      rewrite (de_str_string _ _ _ _ IS) in Dx.
      destruct (check_constrained re_match max min pat s); try discriminate.
      inversion Dx; subst x. apply is_string_get in IS.
      cbn [StrConv.display StrConv.ser_str]. rewrite IS. split; [reflexivity|discriminate].
  - (* DNative *)
    destruct (native_parse type_name s) eqn:P; try discriminate.
    inversion Dx; subst x. rewrite (Hnat _ _ K P). split; [reflexivity|discriminate].
  - (* DString *)
    inversion Dx; subst x. split; [reflexivity|discriminate].
Qed.

Theorem display_is_ser : forall T f t s x,
  string_wired T f t = true -> wf_conv T f t = true -> emits_display T f t = true ->
  display_ok T f t = true -> de_str T f t s = Some x ->
  display T f t x = ser_str T f t x /\ ser_str T f t x <> None.
Proof.
  intros T f t s x W F E K D. eapply display_is_ser_has_impl; eauto.
  apply emits_display_has_impl; auto.
Qed.

(* ---------------- order of the untagged search ---------------- *)
Definition variant_conv (conv : id -> option sval) (v : variant) : option sval :=
  match v_det v with VItem i => conv i | _ => None end.

Lemma untagged_from_str_first : forall T f t s n d vs dn bes k v,
  get_det T t = Some (DEnum n d TagUntagged vs dn bes) ->
  has_bespoke AllSimpleVariants bes = false ->
  from_str T (S f) t s = Some (SUntagged k v) ->
  (exists vr, nth_error vs k = Some vr /\ variant_conv (fun i => from_str T f i s) vr = Some v) /\
  (forall j vr', (j < k)%nat -> nth_error vs j = Some vr' ->
                 variant_conv (fun i => from_str T f i s) vr' = None).
Proof.
  intros T f t s n d vs dn bes k v E HA H. cbn [StrConv.from_str] in H. rewrite E, HA in H.
  destruct (has_bespoke UntaggedFromStr bes); try discriminate.
  destruct (first_some (fun v0 => match v_det v0 with VItem i => from_str T f i s | _ => None end) vs 0)
    as [[k' v']|] eqn:FS; try discriminate.
  cbn [option_map fst snd] in H. inversion H; subst k' v'.
  apply first_some_spec0 in FS. exact FS.
Qed.

Lemma untagged_de_str_first : forall T f t s n d vs dn bes k v,
  get_det T t = Some (DEnum n d TagUntagged vs dn bes) ->
  de_str T (S f) t s = Some (SUntagged k v) ->
  (exists vr, nth_error vs k = Some vr /\ variant_conv (fun i => de_str T f i s) vr = Some v) /\
  (forall j vr', (j < k)%nat -> nth_error vs j = Some vr' ->
                 variant_conv (fun i => de_str T f i s) vr' = None).
Proof.
  intros T f t s n d vs dn bes k v E H. cbn [StrConv.de_str] in H. rewrite E in H.
  destruct (first_some (fun v0 => match v_det v0 with VItem i => de_str T f i s | _ => None end) vs 0)
    as [[k' v']|] eqn:FS; try discriminate.
  cbn [option_map fst snd] in H. inversion H; subst k' v'.
  apply first_some_spec0 in FS. exact FS.
Qed.

(* simple enums: both sides take the FIRST variant whose raw name is s (duplicates allowed) *)
Lemma simple_enum_first_match : forall T f t s n d tag vs dn bes k,
  get_det T t = Some (DEnum n d tag vs dn bes) ->
  has_bespoke AllSimpleVariants bes = true ->
  from_str T (S f) t s = Some (SEnum k) ->
  (exists v, nth_error vs k = Some v /\ v_raw v = s) /\
  (forall j v', (j < k)%nat -> nth_error vs j = Some v' -> v_raw v' <> s).
Proof.
  intros T f t s n d tag vs dn bes k E HA H. cbn [StrConv.from_str] in H. rewrite E, HA in H.
  destruct (first_some (fun v => if ustr_eqb s (v_raw v) then Some tt else None) vs 0)
    as [[k' u]|] eqn:FS; try discriminate.
  cbn [option_map fst] in H. inversion H; subst k'.
  apply first_some_spec0 in FS as [[a [Hn Ha]] Hmin]. split.
  - exists a. split; auto. destruct (ustr_eqb s (v_raw a)) eqn:Q; try discriminate.
    apply ustr_eqb_eq in Q. auto.
  - intros j v' Hj Hn'. specialize (Hmin j v' Hj Hn').
    destruct (ustr_eqb s (v_raw v')) eqn:Q; try discriminate.
    apply ustr_eqb_neq in Q. auto.
Qed.

End Proofs.

(* has_impl(Display) is true for a String-constrained newtype although no Display impl is emitted *)
Lemma constrained_display_not_emitted : forall T f t n d i mx mn p,
  get_det T t = Some (DNewtype n d i (CString mx mn p)) ->
  emits_display T f t = false /\ has_impl T (S f) t TDisplay = true /\
  api_has_impl T (S f) t TDisplay = false.
Proof.
  intros T f t n d i mx mn p E. split; [|split].
  - destruct f; cbn [emits_display]; auto. rewrite E. reflexivity.
  - cbn [has_impl]. rewrite E. reflexivity.
  - unfold api_has_impl. rewrite E. reflexivity.
Qed.

(* for every other (type, trait) the facade is the internal answer *)
Lemma api_has_impl_internal : forall T f t tr,
  (forall n d i mx mn p, get_det T t = Some (DNewtype n d i (CString mx mn p)) -> tr <> TDisplay) ->
  api_has_impl T f t tr = has_impl T f t tr.
Proof.
  intros T f t tr H. unfold api_has_impl.
  destruct (get_det T t) as [d|] eqn:E; auto. destruct d; auto. destruct c; auto.
  destruct tr; auto. exfalso. eapply H; eauto.
Qed.
