(* Proofs about Algo/IntSelect.v and Algo/IntSelectZ.v (C10). *)
From Coq Require Import String ZArith List Bool Lia.
From Flocq Require Import Core BinarySingleNaN Binary Bits.
From Typify Require Import Gen.IntTable Algo.IntSelect Algo.IntSelectZ Spec.IntSpec.
Import ListNotations.
Open Scope string_scope.
Open Scope Z_scope.

(* ---- the regenerated tables against the documented ones ---- *)

Definition documented_string_formats : list (string * string) :=
  [ ("uuid", "::uuid::Uuid")
  ; ("date", "::chrono::naive::NaiveDate")
  ; ("date-time", "::chrono::DateTime<::chrono::offset::Utc>")
  ; ("ip", "::std::net::IpAddr")
  ; ("ipv4", "::std::net::Ipv4Addr")
  ; ("ipv6", "::std::net::Ipv6Addr") ].

Lemma string_format_table : string_formats = documented_string_formats.
Proof. reflexivity. Qed.

Lemma find_key_none (l : list (string * string)) f :
  (forall p, In p l -> fst p <> f) -> find (fun p => String.eqb (fst p) f) l = None.
Proof.
  induction l as [|p l IH]; intros H; [reflexivity|].
  cbn [find]. destruct (String.eqb_spec (fst p) f) as [E|E].
  - exfalso. exact (H p (or_introl eq_refl) E).
  - apply IH. intros q Hq. apply H. right. exact Hq.
Qed.

Lemma string_unknown_is_String :
  forall f, (forall p, In p documented_string_formats -> fst p <> f) ->
            choose_string_format f = "String".
Proof.
  intros f H. unfold choose_string_format. rewrite string_format_table.
  rewrite (find_key_none _ _ H). reflexivity.
Qed.

Lemma number_never_narrower :
  forall f, choose_number f = "f64" \/ (f = Some "float" /\ choose_number f = "f32").
Proof.
  intros [f|]; [|left; reflexivity]. unfold choose_number. cbn [number_formats find fst snd].
  destruct (String.eqb_spec "float" f) as [E|E]; [right; subst; split; reflexivity | left; reflexivity].
Qed.

(* every row of the regenerated integer table: the format is a documented one,
   it selects the documented type, its limits are that type's limits (as
   doubles: the two 64-bit maxima round up by one), and its NonZero companion
   starts at 1 and reaches at least as far *)
Definition row_ok (r : zrow) : bool :=
  match fmt_type (z_fmt r), ty_range (z_ty r), ty_range (z_nz r) with
  | Some t, Some (lo, hi), Some (nlo, nhi) =>
      String.eqb t (z_ty r) && (z_lo r =? lo)
      && ((z_hi r =? hi) || ((z_hi r =? hi + 1) && (2^63 <=? z_hi r)))
      && (nlo =? 1) && (hi <=? nhi) && (0 <=? hi)
  | _, _, _ => false
  end.

Lemma table_ranges_exact :
  length int_formats_Z = length int_formats_raw /\ forallb row_ok int_formats_Z = true.
Proof. split; vm_compute; reflexivity. Qed.

(* ======================================================================
   Property theorems on the integer-level model (Algo/IntSelectZ.v).
   All bounds / defaults / formats; the only finite thing is the table.
   ====================================================================== *)

(* ---- facts about the regenerated table, each a forallb over its rows ---- *)

Definition nz_name (s : string) : bool :=
  String.eqb s "::std::num::NonZeroU8" || String.eqb s "::std::num::NonZeroU16"
  || String.eqb s "::std::num::NonZeroU32" || String.eqb s "::std::num::NonZeroU64".

(* a row whose upper limit (as a double) lies in [2^63, 2^64) is the int64 row
   with limits (-2^63, 2^63); no row starts at 1; no row's plain type is a
   NonZero type *)
Definition row_ok2 (r : zrow) : bool :=
  (if (2^63 <=? z_hi r) && (z_hi r <=? 2^64 - 1)
   then (z_lo r =? - 2^63) && (z_hi r =? 2^63) else true)
  && negb (z_lo r =? 1) && negb (nz_name (z_ty r)) && nz_name (z_nz r).

Lemma table_rows_ok2 : forallb row_ok2 int_formats_Z = true.
Proof. vm_compute; reflexivity. Qed.

Lemma rows_ok r : In r int_formats_Z -> row_ok r = true /\ row_ok2 r = true.
Proof.
  intros H. split.
  - exact (proj1 (forallb_forall _ _) (proj2 table_ranges_exact) r H).
  - exact (proj1 (forallb_forall _ _) table_rows_ok2 r H).
Qed.

Record row_facts (r : zrow) (lo hi nhi : Z) : Prop := {
  rf_fmt : fmt_type (z_fmt r) = Some (z_ty r);
  rf_ty : ty_range (z_ty r) = Some (lo, hi);
  rf_nz : ty_range (z_nz r) = Some (1, nhi);
  rf_lo : z_lo r = lo;
  rf_hi : z_hi r = hi \/ (z_hi r = hi + 1 /\ 2^63 <= z_hi r);
  rf_nhi : hi <= nhi;
  rf_hi0 : 0 <= hi;
  rf_64 : 2^63 <= z_hi r <= 2^64 - 1 -> z_lo r = - 2^63 /\ z_hi r = 2^63;
  rf_lo1 : z_lo r <> 1;
  rf_tynz : nz_name (z_ty r) = false;
  rf_nznz : nz_name (z_nz r) = true
}.

Lemma row_facts_of r : In r int_formats_Z -> exists lo hi nhi, row_facts r lo hi nhi.
Proof.
  intros Hin. destruct (rows_ok r Hin) as [H1 H2].
  unfold row_ok in H1. unfold row_ok2 in H2.
  destruct (fmt_type (z_fmt r)) as [t|] eqn:Ef; [|discriminate H1].
  destruct (ty_range (z_ty r)) as [[lo hi]|] eqn:Et; [|discriminate H1].
  destruct (ty_range (z_nz r)) as [[nlo nhi]|] eqn:En; [|discriminate H1].
  repeat rewrite andb_true_iff in H1. repeat rewrite andb_true_iff in H2.
  destruct H1 as [[[[[Ht Hlo] Hhi] Hnlo] Hnhi] Hhi0].
  destruct H2 as [[[H64 Hl1] Htn] Hnn].
  apply String.eqb_eq in Ht. apply Z.eqb_eq in Hlo. apply Z.eqb_eq in Hnlo.
  apply Z.leb_le in Hnhi. apply Z.leb_le in Hhi0.
  apply negb_true_iff in Hl1. apply Z.eqb_neq in Hl1. apply negb_true_iff in Htn.
  exists lo, hi, nhi. subst t nlo. constructor; try assumption.
  - apply orb_true_iff in Hhi. destruct Hhi as [Hhi|Hhi].
    + left. apply Z.eqb_eq in Hhi. exact Hhi.
    + right. apply andb_true_iff in Hhi. destruct Hhi as [Ha Hb].
      apply Z.eqb_eq in Ha. apply Z.leb_le in Hb. split; assumption.
  - intros [Ha Hb].
    destruct ((2^63 <=? z_hi r) && (z_hi r <=? 2^64 - 1)) eqn:E.
    + apply andb_true_iff in H64. destruct H64 as [Hx Hy].
      apply Z.eqb_eq in Hx. apply Z.eqb_eq in Hy. split; assumption.
    + apply andb_false_iff in E. destruct E as [E|E]; apply Z.leb_gt in E; lia.
Qed.

(* ---- find / find_map ---- *)

Lemma find_map_some {A B} (f : A -> option B) l y :
  find_map f l = Some y -> exists x, In x l /\ f x = Some y.
Proof.
  induction l as [|a l IH]; cbn [find_map]; intros H; [discriminate H|].
  destruct (f a) as [b|] eqn:E.
  - exists a. split; [left; reflexivity|]. rewrite E. exact H.
  - destruct (IH H) as [x [Hx Hf]]. exists x. split; [right; exact Hx | exact Hf].
Qed.

Lemma find_row_some f r :
  find (fun r => String.eqb (z_fmt r) f) int_formats_Z = Some r -> In r int_formats_Z /\ z_fmt r = f.
Proof.
  intros H. apply find_some in H. destruct H as [Hin He]. apply String.eqb_eq in He. split; assumption.
Qed.

Lemma find_row_none f :
  find (fun r => String.eqb (z_fmt r) f) int_formats_Z = None -> fmt_type f = None.
Proof.
  intros H. destruct (fmt_type f) as [t|] eqn:E; [|reflexivity]. exfalso.
  unfold fmt_type in E.
  repeat match type of E with
  | (if String.eqb f ?s then _ else _) = _ =>
      destruct (String.eqb_spec f s) as [->|_]; [vm_compute in H; discriminate H|]
  end.
  discriminate E.
Qed.

Lemma fmt_type_none_find f :
  fmt_type f = None -> find (fun r => String.eqb (z_fmt r) f) int_formats_Z = None.
Proof.
  intros E. destruct (find _ int_formats_Z) as [r|] eqn:H; [|reflexivity]. exfalso.
  apply find_row_some in H. destruct H as [Hin <-].
  destruct (row_facts_of r Hin) as (lo & hi & nhi & F). rewrite (rf_fmt _ _ _ _ F) in E. discriminate E.
Qed.

Lemma fmt_type_none_not_u64 f : fmt_type f = None -> String.eqb f "uint64" = false.
Proof.
  intros E. destruct (String.eqb_spec f "uint64") as [->|_]; [vm_compute in E; discriminate E|reflexivity].
Qed.

(* the head of the reversed table decides the `min == 1.` arm *)
Lemma zfit_one omx : zfit_type (Some 1) omx = Some "::std::num::NonZeroU64".
Proof. destruct omx; vm_compute; reflexivity. Qed.

(* ---- ranges of the base types ---- *)

Lemma in_ty_range ty n lo hi : ty_range ty = Some (lo, hi) -> (in_ty ty n <-> lo <= n <= hi).
Proof. intros E. unfold in_ty. rewrite E. tauto. Qed.

Ltac tyr H :=
  match type of H with
  | in_ty ?s ?n =>
      let r := eval vm_compute in (ty_range s) in
      match r with Some (?lo, ?hi) => apply (proj1 (in_ty_range s n lo hi eq_refl)) in H end
  end.

Lemma base_ty_cases f :
  (f = Some "uint64" /\ base_ty f = "u64") \/
  In (base_ty f) ["i8"; "u8"; "i16"; "u16"; "i32"; "u32"; "i64"].
Proof.
  destruct f as [s|]; [|right; cbn; tauto].
  unfold base_ty, fmt_type.
  repeat match goal with
  | |- context [if String.eqb s ?c then _ else _] =>
      destruct (String.eqb_spec s c) as [->|_]; [cbn [In]; tauto|]
  end.
  right; cbn; tauto.
Qed.

Lemma in_base_bounds f n :
  in_base f n ->
  (- 2^63 <= n <= 2^63 - 1) \/ (f = Some "uint64" /\ 0 <= n <= 2^64 - 1).
Proof.
  unfold in_base. destruct (base_ty_cases f) as [[-> E]|E].
  - rewrite E. intros H. tyr H. right. split; [reflexivity|lia].
  - cbn [In] in E. intros H.
    destruct E as [E|[E|[E|[E|[E|[E|[E|[]]]]]]]]; rewrite <- E in H; tyr H; left; lia.
Qed.

Lemma base_u64 n : in_base (Some "uint64") n <-> 0 <= n <= 2^64 - 1.
Proof. apply (in_ty_range "u64" n 0 (2^64-1)). reflexivity. Qed.

Lemma in_i64 n : in_ty "i64" n <-> - 2^63 <= n <= 2^63 - 1.
Proof. apply (in_ty_range "i64" n). reflexivity. Qed.

Lemma in_u64 n : in_ty "u64" n <-> 0 <= n <= 2^64 - 1.
Proof. apply (in_ty_range "u64" n). reflexivity. Qed.

Lemma in_nz64 n : in_ty "::std::num::NonZeroU64" n <-> 1 <= n <= 2^64 - 1.
Proof. apply (in_ty_range "::std::num::NonZeroU64" n). reflexivity. Qed.

(* ---- normalised bounds are implied by admission (add1/sub1 as they are:
        saturating outside +-2^53 only weakens the normalised bound) ---- *)

Lemma add1_le z : add1 z <= z + 1.
Proof. unfold add1. destruct (_ && _); lia. Qed.
Lemma sub1_ge z : z - 1 <= sub1 z.
Proof. unfold sub1. destruct (_ && _); lia. Qed.

Lemma znorm_min_le b n : admittedZ b n -> ole (znorm_min b) n.
Proof.
  intros (Hmin & _ & Hemin & _) m. unfold znorm_min.
  destruct (zb_min b) as [a|] eqn:Ea, (zb_emin b) as [e|] eqn:Ee; intros H; inversion H; subst; clear H.
  - specialize (Hmin _ eq_refl). specialize (Hemin _ eq_refl). pose proof (add1_le e). lia.
  - exact (Hmin _ eq_refl).
  - specialize (Hemin _ eq_refl). pose proof (add1_le e). lia.
Qed.

Lemma znorm_max_ge b n : admittedZ b n -> oge (znorm_max b) n.
Proof.
  intros (_ & Hmax & _ & Hemax) m. unfold znorm_max.
  destruct (zb_max b) as [a|] eqn:Ea, (zb_emax b) as [e|] eqn:Ee; intros H; inversion H; subst; clear H.
  - specialize (Hmax _ eq_refl). specialize (Hemax _ eq_refl). pose proof (sub1_ge e). lia.
  - exact (Hmax _ eq_refl).
  - specialize (Hemax _ eq_refl). pose proof (sub1_ge e). lia.
Qed.

(* normalised minimum 1 excludes 0 *)
Lemma znorm_min_one_excludes_zero b : znorm_min b = Some 1 -> ~ admittedZ b 0.
Proof.
  intros H A. pose proof (znorm_min_le b 0 A 1 H). lia.
Qed.

(* ---- the part after the format block ---- *)

Definition recognised (fmt : option string) : Prop :=
  exists f t, fmt = Some f /\ fmt_type f = Some t.

Lemma zgeneral_fits fmt d omn omx ty n :
  zgeneral fmt d omn omx = Chosen ty ->
  ole omn n -> oge omx n -> in_base fmt n ->
  (recognised fmt -> omn <> None /\ omx <> None) ->
  ~ (fmt = Some "uint64" /\ omn = Some (- 2^63) /\ omx = Some (2^63) /\ n = 2^63) ->
  in_ty ty n.
Proof.
  intros Hc Hmn Hmx Hb Hrec HF6. unfold zgeneral in Hc.
  destruct (zdefault_in d omn omx); [|discriminate Hc].
  assert (Hnr : omn = None \/ omx = None -> - 2^63 <= n <= 2^63 - 1).
  { intros Hn. destruct (in_base_bounds _ _ Hb) as [?|[-> ?]]; [assumption|].
    exfalso. destruct (Hrec (ex_intro _ "uint64" (ex_intro _ "u64" (conj eq_refl eq_refl)))).
    destruct Hn; contradiction. }
  destruct (zfit_type omn omx) as [t|] eqn:Hfit.
  - inversion Hc; subst t; clear Hc.
    destruct omn as [mn|].
    + specialize (Hmn _ eq_refl).
      destruct (Z.eq_dec mn 1) as [->|Hne].
      * rewrite zfit_one in Hfit. inversion Hfit; subst ty. apply in_nz64.
        destruct (in_base_bounds _ _ Hb) as [?|[_ ?]]; lia.
      * apply Z.eqb_neq in Hne.
        destruct omx as [mx|]; cbn [zfit_type] in Hfit; apply find_map_some in Hfit;
          destruct Hfit as (r & Hin & Hr); rewrite Hne in Hr; apply in_rev in Hin;
          destruct (row_facts_of r Hin) as (lo & hi & nhi & F).
        -- specialize (Hmx _ eq_refl).
           destruct ((z_hi r =? mx) && (z_lo r =? mn)) eqn:E; [|discriminate Hr].
           inversion Hr; subst ty. apply andb_true_iff in E. destruct E as [E1 E2].
           apply Z.eqb_eq in E1. apply Z.eqb_eq in E2.
           apply (in_ty_range _ n _ _ (rf_ty _ _ _ _ F)).
           pose proof (rf_lo _ _ _ _ F) as Hlo.
           destruct (rf_hi _ _ _ _ F) as [Hhi|[Hhi H63]]; [lia|].
           destruct (Z_le_gt_dec n hi) as [?|Hgt]; [lia|].
           exfalso. assert (Hn : n = z_hi r) by lia.
           destruct (in_base_bounds _ _ Hb) as [?|[Hf ?]]; [lia|].
           destruct (rf_64 _ _ _ _ F) as [Ha Hb']; [lia|].
           apply HF6. repeat split; [exact Hf | f_equal; lia | f_equal; lia | lia].
        -- destruct ((z_lo r =? mn) && (z_hi r >=? 2^63)) eqn:E; [|discriminate Hr].
           inversion Hr; subst ty. apply andb_true_iff in E. destruct E as [E1 E2].
           apply Z.eqb_eq in E1. apply Z.geb_le in E2.
           apply (in_ty_range _ n _ _ (rf_ty _ _ _ _ F)).
           pose proof (rf_lo _ _ _ _ F) as Hlo. specialize (Hnr (or_intror eq_refl)).
           destruct (rf_hi _ _ _ _ F) as [Hhi|[Hhi H63]]; lia.
    + destruct omx as [mx|]; cbn [zfit_type] in Hfit; [|discriminate Hfit].
      specialize (Hmx _ eq_refl). specialize (Hnr (or_introl eq_refl)).
      apply find_map_some in Hfit. destruct Hfit as (r & Hin & Hr). apply in_rev in Hin.
      destruct (row_facts_of r Hin) as (lo & hi & nhi & F).
      destruct ((z_hi r =? mx) && (z_lo r <=? - 2^63)) eqn:E; [|discriminate Hr].
      inversion Hr; subst ty. apply andb_true_iff in E. destruct E as [E1 E2].
      apply Z.eqb_eq in E1. apply Z.leb_le in E2.
      apply (in_ty_range _ n _ _ (rf_ty _ _ _ _ F)).
      pose proof (rf_lo _ _ _ _ F) as Hlo.
      destruct (rf_hi _ _ _ _ F) as [Hhi|[Hhi H63]]; lia.
  - destruct fmt as [f|].
    + destruct (String.eqb_spec f "uint64") as [->|Hne].
      * assert (ty = "u64") as -> by (destruct d as [[v|]|]; [destruct (v <? 0); [discriminate Hc|] | |]; inversion Hc; reflexivity).
        apply in_u64. apply base_u64. exact Hb.
      * inversion Hc; subst ty. apply in_i64.
        destruct (in_base_bounds _ _ Hb) as [?|[Hf ?]]; [assumption|]. inversion Hf. contradiction.
    + inversion Hc; subst ty. exact Hb.
Qed.

(* ---- C10, first sentence, on the integer-level model ---- *)

Lemma Known_F6_dec fmt b : Known_F6 fmt b <-> known_F6b fmt b = true.
Proof.
  unfold Known_F6, known_F6b. repeat rewrite andb_true_iff.
  assert (HA : admittedZ b (2^63) <-> admittedZb b (2^63) = true).
  { unfold admittedZ, admittedZb, ole, oge, olt, ogt. repeat rewrite andb_true_iff.
    destruct (zb_min b), (zb_max b), (zb_emin b), (zb_emax b);
      repeat rewrite Z.leb_le; repeat rewrite Z.ltb_lt;
      (split; [intros (H1 & H2 & H3 & H4); repeat split; auto
              | intros [[[H1 H2] H3] H4]; repeat split; intros m Hm; inversion Hm; subst; auto; try discriminate]). }
  assert (HO : forall o z, o = Some z <-> oZ_eqb o z = true).
  { intros [m|] z; cbn [oZ_eqb]; [rewrite Z.eqb_eq|]; split; intros H; try discriminate; [inversion H|subst]; reflexivity. }
  rewrite <- HA, <- !HO. destruct fmt as [f|].
  - rewrite String.eqb_eq. split; [intros (H & ? & ? & ?); inversion H | intros [[[-> ?] ?] ?]]; tauto.
  - split; [intros (H & _); discriminate H | intros [[[H _] _] _]; discriminate H].
Qed.

Lemma int_fits_Z fmt b d ty :
  choose_integer_Z fmt b d = Chosen ty ->
  ~ Known_F6 fmt b ->
  forall n, admittedZ b n -> in_base fmt n -> in_ty ty n.
Proof.
  intros Hc HF6 n Ha Hb.
  pose proof (znorm_min_le b n Ha) as Hmn. pose proof (znorm_max_ge b n Ha) as Hmx.
  unfold choose_integer_Z in Hc.
  destruct (match fmt with Some f => find (fun r => String.eqb (z_fmt r) f) int_formats_Z | None => None end)
    as [r|] eqn:Hrow.
  - destruct fmt as [f|]; [|discriminate Hrow].
    apply find_row_some in Hrow. destruct Hrow as [Hin Hf].
    destruct (row_facts_of r Hin) as (lo & hi & nhi & F).
    assert (Hbase : base_ty (Some f) = z_ty r).
    { unfold base_ty. rewrite <- Hf, (rf_fmt _ _ _ _ F). reflexivity. }
    assert (Hbn : lo <= n <= hi).
    { apply (in_ty_range _ n _ _ (rf_ty _ _ _ _ F)). rewrite <- Hbase. exact Hb. }
    destruct (negb (zb_mult b) && _ && _) eqn:Hexact.
    + (* exact path *)
      destruct (match d with Some (Some v) => _ | _ => false end); [discriminate Hc|].
      destruct (zis_one (znorm_min b)) eqn:H1; inversion Hc; subst ty.
      * unfold zis_one in H1. destruct (znorm_min b) as [m|]; [|discriminate H1].
        apply Z.eqb_eq in H1. subst m. specialize (Hmn _ eq_refl).
        apply (in_ty_range _ n _ _ (rf_nz _ _ _ _ F)). pose proof (rf_nhi _ _ _ _ F). lia.
      * rewrite <- Hbase. exact Hb.
    + (* off the exact path: both sides are bounded, by the format where the schema is silent *)
      pose proof (rf_lo _ _ _ _ F) as Hlo.
      refine (zgeneral_fits _ _ _ _ _ _ Hc _ _ Hb _ _).
      * destruct (znorm_min b); [exact Hmn|]. intros m Hm. inversion Hm. lia.
      * destruct (znorm_max b); [exact Hmx|]. intros m Hm. inversion Hm.
        destruct (rf_hi _ _ _ _ F) as [?|[? ?]]; lia.
      * intros _. destruct (znorm_min b), (znorm_max b); split; discriminate.
      * intros (Hf64 & Hemn & Hemx & Hn). apply HF6.
        inversion Hf64 as [Hf']. rewrite Hf' in Hf.
        assert (Hty : z_ty r = "u64").
        { pose proof (rf_fmt _ _ _ _ F) as Hft. rewrite Hf in Hft. change (fmt_type "uint64") with (Some "u64") in Hft. inversion Hft. reflexivity. }
        pose proof (rf_ty _ _ _ _ F) as Hr. rewrite Hty in Hr. vm_compute in Hr. inversion Hr; subst lo hi.
        repeat split; try (exact (proj1 Ha) || exact (proj1 (proj2 Ha)) ||
                           exact (proj1 (proj2 (proj2 Ha))) || exact (proj2 (proj2 (proj2 Ha)))).
        -- destruct (znorm_min b); [exact Hemn|]. inversion Hemn. lia.
        -- destruct (znorm_max b); [exact Hemx|]. inversion Hemx.
           destruct (rf_hi _ _ _ _ F) as [?|[? ?]]; lia.
        -- subst n. exact (proj1 Ha).
        -- subst n. exact (proj1 (proj2 Ha)).
        -- subst n. exact (proj1 (proj2 (proj2 Ha))).
        -- subst n. exact (proj2 (proj2 (proj2 Ha))).
  - refine (zgeneral_fits _ _ _ _ _ _ Hc Hmn Hmx Hb _ _).
    + intros (f & t & -> & Ht). apply find_row_none in Hrow. rewrite Hrow in Ht. discriminate Ht.
    + intros (-> & _). vm_compute in Hrow. discriminate Hrow.
Qed.

(* the exception is real: finding C10-F6 on the model (minimum -2^63, maximum
   2^63 are the doubles schemars stores for i64::MIN and i64::MAX) *)
Definition f6_bounds : zbounds :=
  {| zb_min := Some (- 2^63); zb_max := Some (2^63); zb_emin := None; zb_emax := None; zb_mult := false |}.

Lemma int_fits_Z_refuted_F6 :
  exists fmt b d ty n,
    choose_integer_Z fmt b d = Chosen ty /\ known_F6b fmt b = true /\
    admittedZb b n = true /\ in_base fmt n /\ ~ in_ty ty n.
Proof.
  exists (Some "uint64"), f6_bounds, None, "i64", (2^63).
  split; [vm_compute; reflexivity|]. split; [vm_compute; reflexivity|]. split; [vm_compute; reflexivity|].
  split; [apply base_u64; lia | rewrite in_i64; lia].
Qed.

(* ... and it is the whole class: on every F6 input whose default (if any)
   passes, i64 is chosen and 2^63 is an admitted value of the format that does
   not fit *)
Lemma F6_class_fails fmt b :
  Known_F6 fmt b -> zb_mult b = false ->
  choose_integer_Z fmt b None = Chosen "i64" /\
  admittedZ b (2^63) /\ in_base fmt (2^63) /\ ~ in_ty "i64" (2^63).
Proof.
  intros (-> & Hmn & Hmx & Ha) Hmu. split; [|split; [exact Ha|split; [apply base_u64; lia | rewrite in_i64; lia]]].
  unfold choose_integer_Z. rewrite Hmn, Hmx, Hmu. vm_compute. reflexivity.
Qed.

(* ---- NonZero only if zero is excluded ---- *)

Lemma nonzero_ty_name ty : nonzero_ty ty <-> nz_name ty = true.
Proof.
  unfold nonzero_ty, nz_name. cbn [In]. repeat rewrite orb_true_iff. repeat rewrite String.eqb_eq.
  split; [intros [H|[H|[H|[H|[]]]]]; subst; tauto | intros [[[H|H]|H]|H]; subst; tauto].
Qed.

Lemma zgeneral_nonzero fmt d omn omx ty :
  zgeneral fmt d omn omx = Chosen ty -> nz_name ty = true -> omn = Some 1.
Proof.
  intros Hc Hnz. unfold zgeneral in Hc. destruct (zdefault_in d omn omx); [|discriminate Hc].
  destruct (zfit_type omn omx) as [t|] eqn:Hfit.
  - inversion Hc; subst t; clear Hc. destruct omn as [mn|].
    + destruct (Z.eq_dec mn 1) as [->|Hne]; [reflexivity|exfalso]. apply Z.eqb_neq in Hne.
      destruct omx as [mx|]; cbn [zfit_type] in Hfit; apply find_map_some in Hfit;
        destruct Hfit as (r & Hin & Hr); rewrite Hne in Hr; apply in_rev in Hin;
        destruct (row_facts_of r Hin) as (lo & hi & nhi & F); pose proof (rf_tynz _ _ _ _ F) as Ht;
        destruct (_ && _); inversion Hr; subst ty; congruence.
    + exfalso. destruct omx as [mx|]; cbn [zfit_type] in Hfit; [|discriminate Hfit].
      apply find_map_some in Hfit. destruct Hfit as (r & Hin & Hr). apply in_rev in Hin.
      destruct (row_facts_of r Hin) as (lo & hi & nhi & F). pose proof (rf_tynz _ _ _ _ F) as Ht.
      destruct (_ && _); inversion Hr; subst ty; congruence.
  - exfalso. destruct (match fmt with Some f => String.eqb f "uint64" | None => false end).
    + destruct d as [[v|]|]; [destruct (v <? 0); [discriminate Hc|] | |]; inversion Hc; subst ty; discriminate Hnz.
    + inversion Hc; subst ty; discriminate Hnz.
Qed.

Lemma nonzero_needs_min_one fmt b d ty :
  choose_integer_Z fmt b d = Chosen ty -> nonzero_ty ty -> znorm_min b = Some 1.
Proof.
  intros Hc Hnz. apply nonzero_ty_name in Hnz. unfold choose_integer_Z in Hc.
  destruct (match fmt with Some f => find (fun r => String.eqb (z_fmt r) f) int_formats_Z | None => None end)
    as [r|] eqn:Hrow.
  - destruct fmt as [f|]; [|discriminate Hrow].
    apply find_row_some in Hrow. destruct Hrow as [Hin Hf].
    destruct (row_facts_of r Hin) as (lo & hi & nhi & F).
    destruct (negb (zb_mult b) && _ && _).
    + destruct (match d with Some (Some v) => _ | _ => false end); [discriminate Hc|].
      destruct (zis_one (znorm_min b)) eqn:H1; inversion Hc; subst ty.
      * unfold zis_one in H1. destruct (znorm_min b) as [m|]; [|discriminate H1].
        apply Z.eqb_eq in H1. subst m. reflexivity.
      * rewrite (rf_tynz _ _ _ _ F) in Hnz. discriminate Hnz.
    + apply zgeneral_nonzero in Hc; [|exact Hnz]. destruct (znorm_min b); [exact Hc|].
      inversion Hc. exfalso. exact (rf_lo1 _ _ _ _ F H0).
  - exact (zgeneral_nonzero _ _ _ _ _ Hc Hnz).
Qed.

Lemma nonzero_only_if_zero_excluded_Z fmt b d ty :
  choose_integer_Z fmt b d = Chosen ty -> nonzero_ty ty -> ~ admittedZ b 0.
Proof.
  intros Hc Hnz. apply znorm_min_one_excludes_zero. exact (nonzero_needs_min_one _ _ _ _ Hc Hnz).
Qed.

(* ---- defaults: what convert_integer itself rejects (add-time check inside
        convert_integer only; the later range check of a default against the
        chosen Rust type, typify commit 07af100, is outside this model) ---- *)

Definition exact_path (r : zrow) (b : zbounds) : bool :=
  negb (zb_mult b)
  && match znorm_min b with None => true | Some m => m >=? z_lo r end
  && match znorm_max b with None => true | Some m => m <=? z_hi r end.

Definition row_of (fmt : option string) : option zrow :=
  match fmt with Some f => find (fun r => String.eqb (z_fmt r) f) int_formats_Z | None => None end.

Lemma zgeneral_default_bounds fmt v omn omx ty :
  zgeneral fmt (Some (Some v)) omn omx = Chosen ty -> ole omn v /\ oge omx v.
Proof.
  unfold zgeneral, zdefault_in, ole, oge. intros H.
  destruct omn as [mn|], omx as [mx|];
    repeat match type of H with (if ?c then _ else _) = _ => destruct c eqn:?; [|discriminate H] end;
    repeat match goal with
    | E : (_ && _) = true |- _ => apply andb_true_iff in E; destruct E
    | E : (_ >=? _) = true |- _ => apply Z.geb_le in E
    | E : (_ <=? _) = true |- _ => apply Z.leb_le in E
    end; split; intros m Hm; inversion Hm; subst; lia.
Qed.

(* (1) a numeric default below the normalised minimum or above the normalised
       maximum is rejected, whatever the format and the path;
   (2) on the exact-format path a default outside the format's limits (as doubles)
       is rejected;
   (3) off the exact path the format's limit is enforced only on a side the
       schema leaves unbounded;
   (4) an accepted default with chosen type u64 is never negative (this covers
       the u64 fallback of `format: uint64`);
   (5) a non-numeric default is rejected everywhere but on the exact path *)
Lemma default_out_of_range_rejected_Z fmt b v :
  ((exists m, znorm_min b = Some m /\ v < m) \/ (exists m, znorm_max b = Some m /\ m < v) ->
     choose_integer_Z fmt b (Some (Some v)) = ErrInvalidValue) /\
  (forall r, row_of fmt = Some r -> exact_path r b = true -> v < z_lo r \/ z_hi r < v ->
     choose_integer_Z fmt b (Some (Some v)) = ErrInvalidValue) /\
  (forall r, row_of fmt = Some r -> exact_path r b = false ->
     (znorm_min b = None /\ v < z_lo r) \/ (znorm_max b = None /\ z_hi r < v) ->
     choose_integer_Z fmt b (Some (Some v)) = ErrInvalidValue) /\
  (choose_integer_Z fmt b (Some (Some v)) = Chosen "u64" -> 0 <= v) /\
  (forall ty, choose_integer_Z fmt b (Some None) = Chosen ty ->
     exists r, row_of fmt = Some r /\ exact_path r b = true).
Proof.
  unfold choose_integer_Z. fold (row_of fmt).
  destruct (row_of fmt) as [r|] eqn:Hrow.
  - fold (exact_path r b). unfold row_of in Hrow. destruct fmt as [f|]; [|discriminate Hrow].
    apply find_row_some in Hrow. destruct Hrow as [Hin Hf].
    destruct (row_facts_of r Hin) as (lo & hi & nhi & F).
    destruct (exact_path r b) eqn:Hex.
    + repeat split.
      * intros [(m & Hm & Hlt)|(m & Hm & Hlt)]; rewrite Hm.
        -- replace (v <? m) with true by (symmetry; apply Z.ltb_lt; lia).
           rewrite !orb_true_r. cbn. reflexivity.
        -- replace (v >? m) with true by (symmetry; apply Z.gtb_lt; lia).
           rewrite !orb_true_r. reflexivity.
      * intros r' Hr' _ [Hlt|Hlt]; inversion Hr'; subst r'.
        -- replace (v <? z_lo r) with true by (symmetry; apply Z.ltb_lt; lia). reflexivity.
        -- replace (v >? z_hi r) with true by (symmetry; apply Z.gtb_lt; lia). rewrite orb_true_r. reflexivity.
      * intros r' Hr' Hd. inversion Hr'; subst r'. rewrite Hex in Hd. discriminate Hd.
      * intros Hc. destruct (_ || _) eqn:Hbad in Hc; [discriminate Hc|].
        repeat (apply orb_false_iff in Hbad; destruct Hbad as [Hbad ?]). apply Z.ltb_ge in Hbad.
        destruct (zis_one (znorm_min b)) eqn:Hone; inversion Hc as [Hty].
        -- exfalso. pose proof (rf_nznz _ _ _ _ F) as Hn. rewrite Hty in Hn. discriminate Hn.
        -- pose proof (rf_ty _ _ _ _ F) as Hr. rewrite Hty in Hr. vm_compute in Hr. inversion Hr; subst lo hi.
           rewrite (rf_lo _ _ _ _ F) in Hbad. exact Hbad.
      * intros ty _. exists r. split; [reflexivity | exact Hex].
    + repeat split.
      * intros [(m & Hm & Hlt)|(m & Hm & Hlt)];
          (destruct (zgeneral _ _ _ _) as [ty|] eqn:Hc; [|reflexivity]); exfalso;
          apply zgeneral_default_bounds in Hc; destruct Hc as [H1 H2]; rewrite Hm in *.
        -- specialize (H1 _ eq_refl). lia.
        -- specialize (H2 _ eq_refl). lia.
      * intros r' Hr' Hd. inversion Hr'; subst r'. rewrite Hex in Hd. discriminate Hd.
      * intros r' Hr' _ [[Hn Hlt]|[Hn Hlt]]; inversion Hr'; subst r'; rewrite Hn;
          (destruct (zgeneral _ _ _ _) as [ty|] eqn:Hc; [|reflexivity]); exfalso;
          apply zgeneral_default_bounds in Hc; destruct Hc as [H1 H2].
        -- specialize (H1 _ eq_refl). lia.
        -- specialize (H2 _ eq_refl). lia.
      * intros Hc. pose proof (zgeneral_default_bounds _ _ _ _ _ Hc) as [H1 H2].
        unfold zgeneral in Hc. destruct (zdefault_in _ _ _); [|discriminate Hc].
        destruct (zfit_type _ _) as [t|] eqn:Hfit.
        -- inversion Hc; subst t; clear Hc.
           match type of Hfit with zfit_type ?a ?c = _ =>
             assert (Hmn : exists mn, a = Some mn) by (destruct (znorm_min b); eexists; reflexivity);
             assert (Hmx : exists mx, c = Some mx) by (destruct (znorm_max b); eexists; reflexivity)
           end.
           destruct Hmn as [mn Hmn]. rewrite Hmn in *. specialize (H1 _ eq_refl).
           destruct (Z.eq_dec mn 1) as [->|Hne]; [lia|]. apply Z.eqb_neq in Hne.
           destruct Hmx as [mx Hmx]. rewrite Hmx in *. cbn [zfit_type] in Hfit.
           apply find_map_some in Hfit. destruct Hfit as (r' & Hin' & Hr'). rewrite Hne in Hr'. apply in_rev in Hin'.
           destruct (row_facts_of r' Hin') as (lo' & hi' & nhi' & F').
           destruct ((z_hi r' =? mx) && (z_lo r' =? mn)) eqn:E; [|discriminate Hr'].
           inversion Hr' as [Hty]. apply andb_true_iff in E. destruct E as [_ E]. apply Z.eqb_eq in E.
           pose proof (rf_ty _ _ _ _ F') as Hr. rewrite Hty in Hr. vm_compute in Hr. inversion Hr; subst lo' hi'.
           rewrite (rf_lo _ _ _ _ F') in E. lia.
        -- destruct (String.eqb f "uint64"); [|discriminate Hc].
           destruct (v <? 0) eqn:Hv; [discriminate Hc|]. apply Z.ltb_ge in Hv. exact Hv.
      * intros ty Hc. exfalso. unfold zgeneral, zdefault_in in Hc. discriminate Hc.
  - repeat split.
    + intros [(m & Hm & Hlt)|(m & Hm & Hlt)];
        (destruct (zgeneral _ _ _ _) as [ty|] eqn:Hc; [|reflexivity]); exfalso;
        apply zgeneral_default_bounds in Hc; destruct Hc as [H1 H2].
      * specialize (H1 _ Hm). lia.
      * specialize (H2 _ Hm). lia.
    + intros r Hr. discriminate Hr.
    + intros r Hr. discriminate Hr.
    + intros Hc. pose proof (zgeneral_default_bounds _ _ _ _ _ Hc) as [H1 H2].
      unfold zgeneral in Hc. destruct (zdefault_in _ _ _); [|discriminate Hc].
      destruct (zfit_type _ _) as [t|] eqn:Hfit.
      * inversion Hc; subst t; clear Hc. destruct (znorm_min b) as [mn|].
        -- specialize (H1 _ eq_refl).
           destruct (Z.eq_dec mn 1) as [->|Hne]; [lia|]. apply Z.eqb_neq in Hne.
           destruct (znorm_max b) as [mx|]; cbn [zfit_type] in Hfit;
             apply find_map_some in Hfit; destruct Hfit as (r' & Hin' & Hr'); rewrite Hne in Hr'; apply in_rev in Hin';
             destruct (row_facts_of r' Hin') as (lo' & hi' & nhi' & F');
             (destruct (_ && _) eqn:E in Hr'; [|discriminate Hr']);
             inversion Hr' as [Hty]; apply andb_true_iff in E; destruct E as [E1 E2];
             pose proof (rf_ty _ _ _ _ F') as Hr; rewrite Hty in Hr; vm_compute in Hr; inversion Hr; subst lo' hi';
             pose proof (rf_lo _ _ _ _ F') as Hlo.
           ++ apply Z.eqb_eq in E2. lia.
           ++ apply Z.eqb_eq in E1. lia.
        -- exfalso. destruct (znorm_max b) as [mx|]; cbn [zfit_type] in Hfit; [|discriminate Hfit].
           apply find_map_some in Hfit; destruct Hfit as (r' & Hin' & Hr'); apply in_rev in Hin'.
           destruct (row_facts_of r' Hin') as (lo' & hi' & nhi' & F').
           destruct (_ && _) eqn:E in Hr'; [|discriminate Hr'].
           inversion Hr' as [Hty]. apply andb_true_iff in E. destruct E as [E1 E2]. apply Z.leb_le in E2.
           pose proof (rf_ty _ _ _ _ F') as Hr. rewrite Hty in Hr. vm_compute in Hr. inversion Hr; subst lo' hi'.
           pose proof (rf_lo _ _ _ _ F') as Hlo. lia.
      * destruct (match fmt with Some f => String.eqb f "uint64" | None => false end); [|discriminate Hc].
        destruct (v <? 0) eqn:Hv; [discriminate Hc|]. apply Z.ltb_ge in Hv. exact Hv.
    + intros ty Hc. exfalso. unfold zgeneral, zdefault_in in Hc. discriminate Hc.
Qed.

(* ---- never narrower than the format ---- *)

Lemma never_narrower_than_format fmt :
  choose_integer_Z fmt no_bounds None = Chosen (base_ty fmt).
Proof.
  destruct fmt as [f|]; [|vm_compute; reflexivity].
  destruct (fmt_type f) as [t|] eqn:E.
  - unfold base_ty. rewrite E. unfold fmt_type in E.
    repeat match type of E with
    | (if String.eqb f ?s then _ else _) = _ =>
        destruct (String.eqb_spec f s) as [->|_]; [inversion E; vm_compute; reflexivity|]
    end.
    discriminate E.
  - unfold base_ty. rewrite E. unfold choose_integer_Z.
    rewrite (fmt_type_none_find _ E). unfold zgeneral. cbn [no_bounds znorm_min znorm_max zb_min zb_emin zb_max zb_emax zdefault_in zfit_type].
    rewrite (fmt_type_none_not_u64 _ E). reflexivity.
Qed.
