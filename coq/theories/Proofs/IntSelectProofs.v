(* Proofs about Algo/IntSelect.v and Algo/IntSelectZ.v (C10). *)
From Coq Require Import String ZArith List Bool Lia.
From Flocq Require Import Core BinarySingleNaN Binary Bits.
From Typify Require Import Gen.IntTable Algo.IntSelect Algo.IntSelectZ Spec.IntSpec.
Import ListNotations.
Open Scope string_scope.
Open Scope Z_scope.

(* ---- the regenerated tables against the documented ones ---- *)

Definition documented_string_formats : list (string * string) :=
  [ ("uuid", "::uuid::Uuid")
  ; ("date", "::chrono::naive::NaiveDate")
  ; ("date-time", "::chrono::DateTime<::chrono::offset::Utc>")
  ; ("ip", "::std::net::IpAddr")
  ; ("ipv4", "::std::net::Ipv4Addr")
  ; ("ipv6", "::std::net::Ipv6Addr") ].

Lemma string_format_table : string_formats = documented_string_formats.
Proof. reflexivity. Qed.

Lemma find_key_none (l : list (string * string)) f :
  (forall p, In p l -> fst p <> f) -> find (fun p => String.eqb (fst p) f) l = None.
Proof.
  induction l as [|p l IH]; intros H; [reflexivity|].
  cbn [find]. destruct (String.eqb_spec (fst p) f) as [E|E].
  - exfalso. exact (H p (or_introl eq_refl) E).
  - apply IH. intros q Hq. apply H. right. exact Hq.
Qed.

Lemma string_unknown_is_String :
  forall f, (forall p, In p documented_string_formats -> fst p <> f) ->
            choose_string_format f = "String".
Proof.
  intros f H. unfold choose_string_format. rewrite string_format_table.
  rewrite (find_key_none _ _ H). reflexivity.
Qed.

Lemma number_never_narrower :
  forall f, choose_number f = "f64" \/ (f = Some "float" /\ choose_number f = "f32").
Proof.
  intros [f|]; [|left; reflexivity]. unfold choose_number. cbn [number_formats find fst snd].
  destruct (String.eqb_spec "float" f) as [E|E]; [right; subst; split; reflexivity | left; reflexivity].
Qed.

(* every row of the regenerated integer table: the format is a documented one,
   it selects the documented type, its limits are that type's limits (as
   doubles: the two 64-bit maxima round up by one), and its NonZero companion
   starts at 1 and reaches at least as far *)
Definition row_ok (r : zrow) : bool :=
  match fmt_type (z_fmt r), ty_range (z_ty r), ty_range (z_nz r) with
  | Some t, Some (lo, hi), Some (nlo, nhi) =>
      String.eqb t (z_ty r) && (z_lo r =? lo)
      && ((z_hi r =? hi) || ((z_hi r =? hi + 1) && (2^63 <=? z_hi r)))
      && (nlo =? 1) && (hi <=? nhi) && (0 <=? hi)
  | _, _, _ => false
  end.

Lemma table_ranges_exact :
  length int_formats_Z = length int_formats_raw /\ forallb row_ok int_formats_Z = true.
Proof. split; vm_compute; reflexivity. Qed.
