(* Proofs/BuilderProofs.v — lemmas about Algo/Builder.v (property C18). *)
From Coq Require Import String Ascii ZArith NArith List Bool Lia.
From Typify Require Import Base.Json IR.TypeIR Algo.Builder.
Import ListNotations.
Close Scope string_scope.
Open Scope N_scope.

(* ------------------------------------------------------------------ *)
(* strings *)

Lemma ustr_eqb_refl : forall a, ustr_eqb a a = true.
Proof.
  induction a as [|x a IH]; cbn [ustr_eqb]; [reflexivity|].
  rewrite N.eqb_refl, IH. reflexivity.
Qed.

Lemma ustr_eqb_eq : forall a b, ustr_eqb a b = true <-> a = b.
Proof.
  induction a as [|x a IH]; destruct b as [|y b]; cbn [ustr_eqb]; split; intro H;
    try reflexivity; try discriminate.
  - apply andb_true_iff in H. destruct H as [H1 H2].
    apply N.eqb_eq in H1. apply IH in H2. subst. reflexivity.
  - inversion H; subst. rewrite N.eqb_refl. cbn. apply IH. reflexivity.
Qed.

Lemma lookup_id_In : forall {A} (i : id) (l : list (id * A)) x,
  lookup_id i l = Some x -> In (i, x) l.
Proof.
  intros A i l. induction l as [|[j y] l IH]; cbn [lookup_id]; intros x H; [discriminate|].
  destruct (N.eqb i j) eqn:E.
  - apply N.eqb_eq in E. inversion H; subst. left. reflexivity.
  - right. apply IH. exact H.
Qed.

(* ------------------------------------------------------------------ *)
(* generate_serde_attr: the two outputs describe the same default *)

Definition naming_of (p : prop) : list sopt :=
  match p_rename p with
  | RRename s => [SRename s]
  | RFlatten => [SFlatten]
  | RNone => []
  end.

Definition is_flat (p : prop) : bool :=
  match p_rename p with RFlatten => true | _ => false end.

(* what the serde attribute says about a missing member, as a DefaultFunction *)
Definition dfun_of_attrs (a : list sopt) : dfun :=
  match find_default a with
  | Some SDefault => DFDefault
  | Some (SDefaultFn p) => DFCustom p
  | _ => DFNone
  end.

Lemma find_default_naming : forall p l, find_default (naming_of p ++ l) = find_default l.
Proof. intros p l. unfold naming_of. destruct (p_rename p); reflexivity. Qed.

Lemma has_flatten_naming : forall p l,
  has_flatten l = false -> has_flatten (naming_of p ++ l) = is_flat p.
Proof.
  intros p l H. unfold naming_of, is_flat. destruct (p_rename p); cbn; try exact H.
  reflexivity.
Qed.

Section Gsa.
  Variable snake : ustring -> ustring.

  Lemma gsa_spec : forall T n p d attrs df,
    generate_serde_attr snake T n p d = Done (attrs, df) ->
    (df = DFNone <-> p_state p = PRequired) /\
    dfun_of_attrs attrs = df /\
    has_flatten attrs = is_flat p.
  Proof.
    intros T n p d attrs df H. unfold generate_serde_attr in H.
    fold (naming_of p) in H. unfold dfun_of_attrs.
    destruct (p_state p) as [| |v] eqn:Es.
    - (* Required *)
      inversion H; subst.
      split; [split; reflexivity|]. split.
      + rewrite <- (app_nil_r (naming_of p)), find_default_naming. reflexivity.
      + rewrite <- (app_nil_r (naming_of p)). apply has_flatten_naming. reflexivity.
    - (* Optional *)
      assert (G : forall l, find_default l = Some SDefault -> has_flatten l = false ->
                  Done (naming_of p ++ l, DFDefault) = Done (attrs, df) ->
                  (df = DFNone <-> POptional = PRequired) /\
                  match find_default attrs with
                  | Some SDefault => DFDefault | Some (SDefaultFn q) => DFCustom q | _ => DFNone end = df /\
                  has_flatten attrs = is_flat p).
      { intros l Hl Hf E. inversion E; subst.
        split; [split; intro; discriminate|]. split.
        - rewrite find_default_naming, Hl. reflexivity.
        - apply has_flatten_naming. exact Hf. }
      destruct (unboxed T d); try (eapply G; [| |exact H]; reflexivity).
      (* DMap *)
      repeat match type of H with
             | context [match get_det T ?k with _ => _ end] => destruct (get_det T k); [|discriminate]
             end.
      eapply G; [| |exact H]; reflexivity.
    - (* Default v *)
      destruct (default_fn_name snake d n (p_name p) v) as [f|w]; [|discriminate].
      inversion H; subst.
      split; [split; intro; discriminate|]. split.
      + rewrite find_default_naming. reflexivity.
      + apply has_flatten_naming. reflexivity.
  Qed.

  Lemma emit_field_spec : forall T n p f,
    emit_field snake T n p = Done f ->
    f_name f = p_name p /\ f_ty f = p_ty p /\
    (f_dfun f = DFNone <-> p_state p = PRequired) /\
    dfun_of_attrs (f_attrs f) = f_dfun f /\
    has_flatten (f_attrs f) = is_flat p.
  Proof.
    intros T n p f H. unfold emit_field in H.
    destruct (get_det T (p_ty p)) as [d|]; [|discriminate].
    destruct (generate_serde_attr snake T n p d) as [[attrs df]|w] eqn:E; [|discriminate].
    inversion H; subst. cbn [f_name f_ty f_dfun f_attrs].
    destruct (gsa_spec _ _ _ _ _ _ E) as (A & B & C).
    repeat split; try assumption; apply A.
  Qed.

  Lemma emit_fields_spec : forall T n ps fs,
    emit_fields snake T n ps = Done fs ->
    Forall2 (fun p f => emit_field snake T n p = Done f) ps fs.
  Proof.
    intros T n ps. induction ps as [|p ps IH]; cbn [emit_fields]; intros fs H.
    - inversion H. constructor.
    - destruct (emit_field snake T n p) as [f|w] eqn:E; [|discriminate].
      destruct (emit_fields snake T n ps) as [fs'|w]; [|discriminate].
      inversion H; subst. constructor; [exact E|]. apply IH. reflexivity.
  Qed.

  Lemma emit_fields_In : forall T n ps fs f,
    emit_fields snake T n ps = Done fs -> In f fs ->
    exists p, In p ps /\ emit_field snake T n p = Done f.
  Proof.
    intros T n ps fs f H Hin. apply emit_fields_spec in H.
    induction H as [|p f' ps fs Hp _ IH]; [destruct Hin|].
    destruct Hin as [->|Hin].
    - exists p. split; [left; reflexivity|exact Hp].
    - destruct (IH Hin) as (q & Hq & Hq'). exists q. split; [right; exact Hq|exact Hq'].
  Qed.
End Gsa.

(* ------------------------------------------------------------------ *)
(* the builder *)

Section BuilderProofs.
  Variable V : Type.
  Variable src : Type.
  Variable default_of : id -> V.
  Variable call_fn : ustring -> V.
  Variable conv : id -> src -> V + ustring.
  Variable flat_none : id -> option V.

  Notation slot := (slot V).
  Notation init_slot := (init_slot V default_of call_fn).
  Notation init := (init V default_of call_fn).
  Notation set_slot := (set_slot V src conv).
  Notation call := (call V src conv).
  Notation apply := (apply V src conv).
  Notation build := (build V).
  Notation from_struct := (from_struct V).
  Notation de_missing := (de_missing V default_of call_fn flat_none).

  (* the argument of the last call of setter n, if any *)
  Fixpoint lastc (n : ustring) (calls : list (ustring * src)) (acc : option src) : option src :=
    match calls with
    | [] => acc
    | c :: r => lastc n r (if ustr_eqb (fst c) n then Some (snd c) else acc)
    end.
  Definition last_set (n : ustring) (calls : list (ustring * src)) : option src := lastc n calls None.

  Definition slot_of (f : field) (a : option src) : slot :=
    match a with
    | Some x => set_slot f x
    | None => init_slot f
    end.

  (* the slot of field f after the calls, starting from Default *)
  Definition final_slot (calls : list (ustring * src)) (f : field) : slot :=
    slot_of f (last_set (f_name f) calls).

  Definition names (fs : list field) : list ustring := map f_name fs.

  Lemma call_map : forall fs n x (g : field -> slot),
    NoDup (names fs) ->
    call fs n x (map (fun f => (f_name f, g f)) fs) =
    map (fun f => (f_name f, if ustr_eqb n (f_name f) then set_slot f x else g f)) fs.
  Proof.
    induction fs as [|a fs IH]; intros n x g Hnd; cbn [Builder.call map]; [reflexivity|].
    unfold names in Hnd. cbn [map] in Hnd. inversion Hnd as [|? ? Hnotin Hnd']; subst.
    destruct (ustr_eqb n (f_name a)) eqn:E.
    - f_equal. apply map_ext_in. intros f Hin.
      destruct (ustr_eqb n (f_name f)) eqn:E2; [|reflexivity].
      exfalso. apply Hnotin. apply ustr_eqb_eq in E. apply ustr_eqb_eq in E2.
      rewrite <- E, E2. apply in_map. exact Hin.
    - f_equal. apply IH. exact Hnd'.
  Qed.

  Lemma apply_map : forall fs, NoDup (names fs) ->
    forall calls (acc : ustring -> option src),
    apply fs calls (map (fun f => (f_name f, slot_of f (acc (f_name f)))) fs) =
    map (fun f => (f_name f, slot_of f (lastc (f_name f) calls (acc (f_name f))))) fs.
  Proof.
    intros fs Hnd. induction calls as [|c calls IH]; intros acc; [reflexivity|].
    unfold Builder.apply in *. cbn [fold_left lastc].
    rewrite (call_map fs (fst c) (snd c) (fun f => slot_of f (acc (f_name f))) Hnd).
    rewrite <- (IH (fun m => if ustr_eqb (fst c) m then Some (snd c) else acc m)).
    f_equal. apply map_ext. intros f.
    destruct (ustr_eqb (fst c) (f_name f)); reflexivity.
  Qed.

  Lemma apply_init : forall fs calls, NoDup (names fs) ->
    apply fs calls (init fs) = map (fun f => (f_name f, final_slot calls f)) fs.
  Proof.
    intros fs calls Hnd.
    exact (apply_map fs Hnd calls (fun _ => None)).
  Qed.

  (* ---- build over an aligned state *)
  Lemma build_ok_iff : forall (sl : field -> slot) fs,
    (exists x, build (map (fun f => (f_name f, sl f)) fs) = inl x) <->
    (forall f, In f fs -> exists v, sl f = SOk v).
  Proof.
    intros sl. induction fs as [|a fs IH]; cbn [map Builder.build].
    - split; [intros _ f []|intros _; eexists; reflexivity].
    - destruct (sl a) as [v|e] eqn:Ea.
      + destruct (build (map (fun f => (f_name f, sl f)) fs)) as [vs|e] eqn:Eb.
        * split; [|intros _; eexists; reflexivity].
          intros _ f [<-|Hin]; [eexists; exact Ea|].
          apply (proj1 IH); [eexists; reflexivity|exact Hin].
        * split; [intros [x Hx]; discriminate|].
          intros H. destruct (proj2 IH) as [x Hx]; [|discriminate].
          intros f Hin. apply H. right. exact Hin.
      + split; [intros [x Hx]; discriminate|].
        intros H. destruct (H a (or_introl eq_refl)) as [v Hv]. congruence.
  Qed.

  Lemma build_ok_value : forall (sl : field -> slot) fs x,
    build (map (fun f => (f_name f, sl f)) fs) = inl x ->
    Forall2 (fun f nv => fst nv = f_name f /\ sl f = SOk (snd nv)) fs x.
  Proof.
    intros sl. induction fs as [|a fs IH]; cbn [map Builder.build]; intros x H.
    - inversion H. constructor.
    - destruct (sl a) as [v|e] eqn:Ea; [|discriminate].
      destruct (build (map (fun f => (f_name f, sl f)) fs)) as [vs|e] eqn:Eb; [|discriminate].
      inversion H; subst. constructor; [split; [reflexivity|exact Ea]|]. apply IH. reflexivity.
  Qed.

  Lemma build_err_iff : forall (sl : field -> slot) fs e,
    build (map (fun f => (f_name f, sl f)) fs) = inr e <->
    exists fs1 f fs2, fs = fs1 ++ f :: fs2 /\
      (forall g, In g fs1 -> exists v, sl g = SOk v) /\ sl f = SErr e.
  Proof.
    intros sl. induction fs as [|a fs IH]; intros e; cbn [map Builder.build].
    - split; [discriminate|]. intros (fs1 & f & fs2 & H & _). destruct fs1; discriminate.
    - destruct (sl a) as [v|e0] eqn:Ea.
      + destruct (build (map (fun f => (f_name f, sl f)) fs)) as [vs|e1] eqn:Eb.
        * split; [discriminate|].
          intros (fs1 & f & fs2 & H & Hok & Hf).
          destruct fs1 as [|b fs1]; cbn in H; inversion H; subst; [congruence|].
          assert (X : inl vs = inr e :> list (ustring * V) + ustring); [|discriminate].
          apply (proj2 (IH e)). exists fs1, f, fs2. split; [reflexivity|].
          split; [|exact Hf]. intros g Hg. apply Hok. right. exact Hg.
        * split.
          -- intros H. inversion H; subst. destruct (proj1 (IH e) eq_refl) as (fs1 & f & fs2 & H1 & H2 & H3).
             exists (a :: fs1), f, fs2. split; [cbn; rewrite H1; reflexivity|]. split; [|exact H3].
             intros g [<-|Hg]; [eexists; exact Ea|apply H2; exact Hg].
          -- intros (fs1 & f & fs2 & H & Hok & Hf).
             destruct fs1 as [|b fs1]; cbn in H; inversion H; subst; [congruence|].
             f_equal. assert (X : inr e1 = inr e :> list (ustring * V) + ustring); [|inversion X; reflexivity].
             apply (proj2 (IH e)). exists fs1, f, fs2. split; [reflexivity|].
             split; [|exact Hf]. intros g Hg. apply Hok. right. exact Hg.
      + split.
        * intros H. inversion H; subst. exists [], a, fs. split; [reflexivity|].
          split; [intros g []|exact Ea].
        * intros (fs1 & f & fs2 & H & Hok & Hf).
          destruct fs1 as [|b fs1]; cbn in H; inversion H; subst; [congruence|].
          destruct (Hok b (or_introl eq_refl)) as [v Hv]. congruence.
  Qed.

  (* ---- when is a final slot Ok *)
  Definition arg_ok (calls : list (ustring * src)) (f : field) : Prop :=
    match last_set (f_name f) calls with
    | Some a => exists v, conv (f_ty f) a = inl v      (* the LAST value given converts *)
    | None => f_dfun f <> DFNone                       (* never set: it has a default *)
    end.

  Lemma final_slot_ok : forall calls f, (exists v, final_slot calls f = SOk v) <-> arg_ok calls f.
  Proof.
    intros calls f. unfold final_slot, arg_ok, slot_of.
    destruct (last_set (f_name f) calls) as [a|].
    - unfold Builder.set_slot. destruct (conv (f_ty f) a) as [v|e].
      + split; intros _; eexists; reflexivity.
      + split; intros [v Hv]; discriminate.
    - unfold Builder.init_slot. destruct (f_dfun f).
      + split; [intros [v Hv]; discriminate|intros H; exfalso; apply H; reflexivity].
      + split; [intros _; discriminate|intros _; eexists; reflexivity].
      + split; [intros _; discriminate|intros _; eexists; reflexivity].
  Qed.

  (* the value a field ends up with *)
  Definition field_value (calls : list (ustring * src)) (f : field) (v : V) : Prop :=
    match last_set (f_name f) calls with
    | Some a => conv (f_ty f) a = inl v
    | None => init_slot f = SOk v
    end.

  Lemma final_slot_value : forall calls f v, final_slot calls f = SOk v <-> field_value calls f v.
  Proof.
    intros calls f v. unfold final_slot, field_value, slot_of.
    destruct (last_set (f_name f) calls) as [a|]; [|tauto].
    unfold Builder.set_slot. destruct (conv (f_ty f) a) as [w|e]; split; intro H;
      try discriminate; inversion H; subst; reflexivity.
  Qed.

  (* the error message a failing slot carries *)
  Definition field_error (calls : list (ustring * src)) (f : field) (msg : ustring) : Prop :=
    match last_set (f_name f) calls with
    | Some a => exists e, conv (f_ty f) a = inr e /\ msg = err_conv (f_name f) e
    | None => f_dfun f = DFNone /\ msg = err_missing (f_name f)
    end.

  Lemma final_slot_error : forall calls f msg, final_slot calls f = SErr msg <-> field_error calls f msg.
  Proof.
    intros calls f msg. unfold final_slot, field_error, slot_of.
    destruct (last_set (f_name f) calls) as [a|].
    - unfold Builder.set_slot. destruct (conv (f_ty f) a) as [w|e]; split.
      + discriminate.
      + intros (e & He & _). discriminate.
      + intros H. inversion H; subst. exists e. split; reflexivity.
      + intros (e' & He & ->). inversion He; subst. reflexivity.
    - unfold Builder.init_slot. destruct (f_dfun f); split; intro H;
        try discriminate; try (destruct H; discriminate).
      + inversion H; subst. split; reflexivity.
      + destruct H as [_ ->]. reflexivity.
  Qed.

  (* ---------------------------------------------------------------- *)
  (* property-level lemmas *)

  Theorem build_ok_iff_main : forall fs calls,
    NoDup (names fs) ->
    ((exists x, build (apply fs calls (init fs)) = inl x) <->
     (forall f, In f fs -> arg_ok calls f)).
  Proof.
    intros fs calls Hnd. rewrite (apply_init fs calls Hnd), build_ok_iff.
    split; intros H f Hin; apply final_slot_ok; apply H; exact Hin.
  Qed.

  Theorem build_value_main : forall fs calls x,
    NoDup (names fs) ->
    build (apply fs calls (init fs)) = inl x ->
    Forall2 (fun f nv => fst nv = f_name f /\ field_value calls f (snd nv)) fs x.
  Proof.
    intros fs calls x Hnd H. rewrite (apply_init fs calls Hnd) in H.
    apply build_ok_value in H.
    clear Hnd. induction H as [|f nv fs' x' [A B] _ IH]; [constructor|].
    constructor; [|exact IH].
    split; [exact A|]. apply final_slot_value. exact B.
  Qed.

  Theorem build_first_error_main : forall fs calls msg,
    NoDup (names fs) ->
    (build (apply fs calls (init fs)) = inr msg <->
     exists fs1 f fs2, fs = fs1 ++ f :: fs2 /\
       (forall g, In g fs1 -> arg_ok calls g) /\ field_error calls f msg).
  Proof.
    intros fs calls msg Hnd. rewrite (apply_init fs calls Hnd), build_err_iff.
    split; intros (fs1 & f & fs2 & A & B & C); exists fs1, f, fs2; (split; [exact A|]); split.
    - intros g Hg. apply final_slot_ok. apply B. exact Hg.
    - apply final_slot_error. exact C.
    - intros g Hg. apply final_slot_ok. apply B. exact Hg.
    - apply final_slot_error. exact C.
  Qed.

  (* a failing last conversion of ANY field makes the build fail *)
  Theorem bad_setter_fails_build_main : forall fs calls f a e,
    NoDup (names fs) -> In f fs ->
    last_set (f_name f) calls = Some a -> conv (f_ty f) a = inr e ->
    exists msg, build (apply fs calls (init fs)) = inr msg.
  Proof.
    intros fs calls f a e Hnd Hin Hl Hc.
    destruct (build (apply fs calls (init fs))) as [x|msg] eqn:E; [|eexists; reflexivity].
    exfalso.
    assert (H : arg_ok calls f).
    { apply (proj1 (build_ok_iff_main fs calls Hnd)); [eexists; exact E|exact Hin]. }
    unfold arg_ok in H. rewrite Hl in H. destruct H as [v Hv]. congruence.
  Qed.

  (* … and when it is the first failing slot, the message is the setter's, naming the field *)
  Theorem bad_setter_names_prop_main : forall fs1 f fs2 calls a e,
    NoDup (names (fs1 ++ f :: fs2)) ->
    (forall g, In g fs1 -> arg_ok calls g) ->
    last_set (f_name f) calls = Some a -> conv (f_ty f) a = inr e ->
    build (apply (fs1 ++ f :: fs2) calls (init (fs1 ++ f :: fs2))) =
      inr (us "error converting supplied value for " ++ f_name f ++ us ": " ++ e).
  Proof.
    intros fs1 f fs2 calls a e Hnd Hok Hl Hc.
    apply (proj2 (build_first_error_main _ calls _ Hnd)).
    exists fs1, f, fs2. split; [reflexivity|]. split; [exact Hok|].
    unfold field_error. rewrite Hl. exists e. split; [exact Hc|reflexivity].
  Qed.

  Theorem missing_names_prop_main : forall fs1 f fs2 calls,
    NoDup (names (fs1 ++ f :: fs2)) ->
    (forall g, In g fs1 -> arg_ok calls g) ->
    last_set (f_name f) calls = None -> f_dfun f = DFNone ->
    build (apply (fs1 ++ f :: fs2) calls (init (fs1 ++ f :: fs2))) =
      inr (us "no value supplied for " ++ f_name f).
  Proof.
    intros fs1 f fs2 calls Hnd Hok Hl Hd.
    apply (proj2 (build_first_error_main _ calls _ Hnd)).
    exists fs1, f, fs2. split; [reflexivity|]. split; [exact Hok|].
    unfold field_error. rewrite Hl. split; [exact Hd|reflexivity].
  Qed.

  (* the first failing slot decides: whatever happens to later fields is masked *)
  Theorem earlier_failure_masks_later_main : forall fs1 f fs2 calls calls' msg,
    NoDup (names (fs1 ++ f :: fs2)) ->
    (forall g, In g (fs1 ++ [f]) -> last_set (f_name g) calls' = last_set (f_name g) calls) ->
    (forall g, In g fs1 -> arg_ok calls g) ->
    field_error calls f msg ->
    build (apply (fs1 ++ f :: fs2) calls' (init (fs1 ++ f :: fs2))) = inr msg.
  Proof.
    intros fs1 f fs2 calls calls' msg Hnd Hsame Hok Herr.
    apply (proj2 (build_first_error_main _ calls' _ Hnd)).
    exists fs1, f, fs2. split; [reflexivity|]. split.
    - intros g Hg. unfold arg_ok. rewrite (Hsame g); [apply Hok; exact Hg|].
      apply in_or_app. left. exact Hg.
    - unfold field_error. rewrite (Hsame f); [exact Herr|].
      apply in_or_app. right. left. reflexivity.
  Qed.

  (* only the last value given to each setter matters *)
  Theorem setter_overwrites_main : forall fs calls calls',
    NoDup (names fs) ->
    (forall f, In f fs -> last_set (f_name f) calls = last_set (f_name f) calls') ->
    apply fs calls (init fs) = apply fs calls' (init fs).
  Proof.
    intros fs calls calls' Hnd H.
    rewrite (apply_init fs calls Hnd), (apply_init fs calls' Hnd).
    apply map_ext_in. intros f Hin. unfold final_slot. rewrite (H f Hin). reflexivity.
  Qed.

  Lemma lastc_app : forall n c1 c2 acc, lastc n (c1 ++ c2) acc = lastc n c2 (lastc n c1 acc).
  Proof. intros n c1. induction c1 as [|c c1 IH]; intros c2 acc; cbn [app lastc]; [reflexivity|apply IH]. Qed.

  Lemma last_set_snoc_same : forall n calls x, last_set n (calls ++ [(n, x)]) = Some x.
  Proof.
    intros n calls x. unfold last_set. rewrite lastc_app. cbn [lastc fst snd].
    rewrite ustr_eqb_refl. reflexivity.
  Qed.

  Lemma last_set_snoc_other : forall n m calls x,
    ustr_eqb m n = false -> last_set n (calls ++ [(m, x)]) = last_set n calls.
  Proof.
    intros n m calls x H. unfold last_set. rewrite lastc_app. cbn [lastc fst snd].
    rewrite H. reflexivity.
  Qed.

  Theorem from_then_build_id_main : forall x, build (from_struct x) = inl x.
  Proof.
    induction x as [|[n v] x IH]; cbn [Builder.from_struct map Builder.build fst snd]; [reflexivity|].
    unfold Builder.from_struct in IH. rewrite IH. reflexivity.
  Qed.

  (* ---- builder default vs deserialisation default *)
  Lemma init_vs_de_missing : forall T f,
    dfun_of_attrs (f_attrs f) = f_dfun f ->
    has_flatten (f_attrs f) = false ->
    forall v, init_slot f = SOk v -> de_missing T f = Some v.
  Proof.
    intros T f Hc Hf v H. unfold Builder.de_missing. rewrite Hf.
    unfold dfun_of_attrs in Hc. unfold Builder.init_slot in H.
    destruct (find_default (f_attrs f)) as [[| | | |]|]; rewrite <- Hc in H; try discriminate;
      inversion H; subst; reflexivity.
  Qed.

  Lemma de_missing_vs_init : forall T f,
    dfun_of_attrs (f_attrs f) = f_dfun f ->
    has_flatten (f_attrs f) = false ->
    forall v, de_missing T f = Some v ->
    init_slot f = SOk v \/
    (f_dfun f = DFNone /\ (exists t, option_map (unboxed T) (get_det T (f_ty f)) = Some (DOption t)) /\ v = default_of (f_ty f)).
  Proof.
    intros T f Hc Hf v H. unfold Builder.de_missing in H. rewrite Hf in H.
    unfold dfun_of_attrs in Hc. unfold Builder.init_slot.
    destruct (find_default (f_attrs f)) as [o|] eqn:Ed.
    - destruct o; rewrite <- Hc.
      1,2,5: (right; split; [reflexivity|];
              destruct (option_map (unboxed T) (get_det T (f_ty f))) as [d|]; [|discriminate]; destruct d; try discriminate;
              inversion H; subst; split; [eexists; reflexivity|reflexivity]).
      + left. inversion H; subst. reflexivity.
      + left. inversion H; subst. reflexivity.
    - right. rewrite <- Hc. split; [reflexivity|].
      destruct (option_map (unboxed T) (get_det T (f_ty f))) as [d|]; [|discriminate]. destruct d; try discriminate.
      inversion H; subst. split; [eexists; reflexivity|reflexivity].
  Qed.
End BuilderProofs.

(* ------------------------------------------------------------------ *)
(* emitted fields: builder default vs serde default *)

Section Emitted.
  Variable snake : ustring -> ustring.
  Variable V : Type.
  Variable src : Type.
  Variable default_of : id -> V.
  Variable call_fn : ustring -> V.
  Variable conv : id -> src -> V + ustring.
  Variable flat_none : id -> option V.

  Theorem required_iff_no_default_main : forall T n ps fs,
    emit_fields snake T n ps = Done fs ->
    Forall2 (fun p f => f_name f = p_name p /\ f_ty f = p_ty p /\
                        (f_dfun f = DFNone <-> p_state p = PRequired)) ps fs.
  Proof.
    intros T n ps fs H. apply emit_fields_spec in H.
    induction H as [|p f ps fs Hp _ IH]; [constructor|]. constructor; [|exact IH].
    destruct (emit_field_spec snake _ _ _ _ Hp) as (A & B & C & _). repeat split; try assumption; apply C.
  Qed.

  Theorem unset_defaults_eq_de_main : forall T n ps fs f v,
    emit_fields snake T n ps = Done fs -> In f fs ->
    has_flatten (f_attrs f) = false ->
    init_slot V default_of call_fn f = SOk v ->
    de_missing V default_of call_fn flat_none T f = Some v.
  Proof.
    intros T n ps fs f v H Hin Hf Hi.
    destruct (emit_fields_In snake _ _ _ _ _ H Hin) as (p & _ & Hp).
    destruct (emit_field_spec snake _ _ _ _ Hp) as (_ & _ & _ & D & _).
    apply init_vs_de_missing; assumption.
  Qed.

  Theorem de_defaults_eq_unset_main : forall T n ps fs f v,
    emit_fields snake T n ps = Done fs -> In f fs ->
    has_flatten (f_attrs f) = false ->
    de_missing V default_of call_fn flat_none T f = Some v ->
    init_slot V default_of call_fn f = SOk v \/
    (f_dfun f = DFNone /\ (exists t, option_map (unboxed T) (get_det T (f_ty f)) = Some (DOption t)) /\ v = default_of (f_ty f)).
  Proof.
    intros T n ps fs f v H Hin Hf Hd.
    destruct (emit_fields_In snake _ _ _ _ _ H Hin) as (p & _ & Hp).
    destruct (emit_field_spec snake _ _ _ _ Hp) as (_ & _ & _ & D & _).
    eapply de_missing_vs_init; eassumption.
  Qed.

  Theorem unset_defaults_built_eq_de_main : forall T n ps fs calls x,
    emit_fields snake T n ps = Done fs ->
    NoDup (names fs) ->
    build V (apply V src conv fs calls (init V default_of call_fn fs)) = inl x ->
    Forall2 (fun f nv => fst nv = f_name f /\
                         (last_set src (f_name f) calls = None ->
                          has_flatten (f_attrs f) = false ->
                          de_missing V default_of call_fn flat_none T f = Some (snd nv))) fs x.
  Proof.
    intros T n ps fs calls x H Hnd Hb.
    pose proof (build_value_main V src default_of call_fn conv fs calls x Hnd Hb) as F.
    assert (G : forall f, In f fs -> dfun_of_attrs (f_attrs f) = f_dfun f).
    { intros f Hin. destruct (emit_fields_In snake _ _ _ _ _ H Hin) as (p & _ & Hp).
      destruct (emit_field_spec snake _ _ _ _ Hp) as (_ & _ & _ & D & _). exact D. }
    clear H Hnd Hb. induction F as [|f nv fs x [A B] _ IH]; [constructor|].
    constructor.
    - split; [exact A|]. intros Hl Hf. unfold field_value in B. rewrite Hl in B.
      apply init_vs_de_missing; [apply G; left; reflexivity|exact Hf|exact B].
    - apply IH. intros g Hg. apply G. right. exact Hg.
  Qed.
End Emitted.

(* ------------------------------------------------------------------ *)
(* Type::builder() *)

Lemma builder_path_spec : forall T i p,
  builder_path T i = Some p <->
  s_builder (sp_settings T) = true /\
  exists name d ps dn, get_det T i = Some (DStruct name d ps dn) /\
    p = match s_type_mod (sp_settings T) with Some m => [m] | None => [] end ++ [us "builder"; name].
Proof.
  intros T i p. unfold builder_path.
  destruct (s_builder (sp_settings T)); cbn [negb].
  - destruct (get_det T i) as [d|].
    + destruct d; try (split; [discriminate|intros (_ & ? & ? & ? & ? & H & _); discriminate]).
      split.
      * intros H. split; [reflexivity|]. exists name, default, props, deny. split; [reflexivity|].
        destruct (s_type_mod (sp_settings T)); inversion H; reflexivity.
      * intros (_ & n0 & d0 & ps0 & dn0 & H & ->). inversion H; subst.
        destruct (s_type_mod (sp_settings T)); reflexivity.
    + split; [discriminate|intros (_ & ? & ? & ? & ? & H & _); discriminate].
  - split; [discriminate|intros (H & _); discriminate].
Qed.

Lemma builder_path_item : forall T i p,
  builder_path T i = Some p ->
  exists name, last p [] = name /\ In name (builder_items T) /\
               nth_error (rev p) 1 = Some (us "builder").
Proof.
  intros T i p H. apply builder_path_spec in H. destruct H as (Hb & name & d & ps & dn & Hg & ->).
  exists name. split; [|split].
  - destruct (s_type_mod (sp_settings T)); reflexivity.
  - unfold builder_items. rewrite Hb. unfold get_det, get in Hg.
    destruct (lookup_id i (sp_entries T)) as [e|] eqn:E; [|discriminate].
    apply lookup_id_In in E. apply in_flat_map. exists (i, e). split; [exact E|].
    cbn [snd]. cbn [option_map] in Hg. inversion Hg as [Hd]. rewrite Hd. left. reflexivity.
  - destruct (s_type_mod (sp_settings T)); reflexivity.
Qed.
