(* C13 — proofs about Algo/RustExt.v (the x-rust-type decision procedure). *)
From Coq Require Import NArith List Bool Lia Arith.
From Typify Require Import Algo.Semver Algo.RustExt Proofs.SemverProofs.
Import ListNotations.
Open Scope N_scope.

(* ----------------------------------------------------------------- strings *)

Lemma ustr_eqb_eq : forall a b, ustr_eqb a b = true <-> a = b.
Proof.
  induction a as [|x a IH]; destruct b as [|y b]; cbn [ustr_eqb]; split; intro H;
    try reflexivity; try discriminate.
  - apply andb_true_iff in H. destruct H as [H1 H2]. apply N.eqb_eq in H1. apply IH in H2. now subst.
  - injection H as -> ->. rewrite N.eqb_refl. cbn [andb]. now apply IH.
Qed.

Lemma ustr_eqb_refl : forall a, ustr_eqb a a = true.
Proof. intro a. now apply ustr_eqb_eq. Qed.

Lemma find_sep_cons : forall c d t,
  find_sep (c :: d :: t) =
  if (c =? colon) && (d =? colon) then Some O else option_map S (find_sep (d :: t)).
Proof. reflexivity. Qed.

(* str::find returns an occurrence ... *)
Lemma find_sep_sound : forall s k, find_sep s = Some k ->
  exists rest, s = firstn k s ++ sep ++ rest /\ length (firstn k s) = k /\ skipn k s = sep ++ rest.
Proof.
  induction s as [|c t IH]; intros k Hk; [discriminate|].
  destruct t as [|d t']; [discriminate|].
  rewrite find_sep_cons in Hk.
  destruct ((c =? colon) && (d =? colon)) eqn:Et.
  - injection Hk as <-. apply andb_true_iff in Et. destruct Et as [E1 E2].
    apply N.eqb_eq in E1, E2. subst c d. exists t'. repeat split.
  - destruct (find_sep (d :: t')) as [k'|] eqn:Ek; [|discriminate].
    injection Hk as <-. destruct (IH k' eq_refl) as [rest [H1 [H2 H3]]].
    exists rest. repeat split.
    + cbn [firstn app]. f_equal. exact H1.
    + cbn [firstn length]. f_equal. exact H2.
    + cbn [skipn]. exact H3.
Qed.

(* ... the FIRST one ... *)
Lemma find_sep_min : forall s k, find_sep s = Some k ->
  forall a b, s = a ++ sep ++ b -> (k <= length a)%nat.
Proof.
  induction s as [|c t IH]; intros k Hk a b Hs; [discriminate|].
  destruct t as [|d t']; [discriminate|].
  rewrite find_sep_cons in Hk.
  destruct ((c =? colon) && (d =? colon)) eqn:Et.
  - injection Hk as <-. apply Nat.le_0_l.
  - destruct (find_sep (d :: t')) as [k'|] eqn:Ek; [|discriminate].
    injection Hk as <-.
    destruct a as [|x a'].
    + cbn in Hs. injection Hs as -> -> _. cbn in Et. discriminate.
    + cbn [app] in Hs. injection Hs as _ Ht. cbn [length]. apply le_n_S. now apply (IH k' eq_refl a' b).
Qed.

(* ... and finds one whenever there is one *)
Lemma find_sep_complete : forall a b, exists k, find_sep (a ++ sep ++ b) = Some k.
Proof.
  induction a as [|x a IH]; intro b.
  - exists O. reflexivity.
  - destruct (IH b) as [k' Hk'].
    assert (Hne : exists d t', a ++ sep ++ b = d :: t').
    { destruct a; cbn; eauto. }
    destruct Hne as [d [t' Ht]].
    cbn [app]. rewrite Ht in *. rewrite find_sep_cons.
    destruct ((x =? colon) && (d =? colon)); [now exists O|].
    rewrite Hk'. now exists (S k').
Qed.

(* "the path starts with the crate's identifier": what precedes the first "::" is
   the identifier *)
Definition starts_with (ident path : ustring) : Prop :=
  exists rest, path = ident ++ sep ++ rest /\
    forall a b, path = a ++ sep ++ b -> (length ident <= length a)%nat.

Lemma firstn_app_exact : forall (A : Type) (l1 l2 : list A), firstn (length l1) (l1 ++ l2) = l1.
Proof. intros A l1 l2. rewrite firstn_app, Nat.sub_diag, firstn_all. cbn. apply app_nil_r. Qed.

Lemma skipn_app_exact : forall (A : Type) (l1 l2 : list A), skipn (length l1) (l1 ++ l2) = l2.
Proof. intros A l1 l2. rewrite skipn_app, Nat.sub_diag, skipn_all. reflexivity. Qed.

Lemma prefix_test : forall ident path,
  (exists k, find_sep path = Some k /\ ustr_eqb ident (firstn k path) = true) <-> starts_with ident path.
Proof.
  intros ident path. split.
  - intros [k [Hk He]]. apply ustr_eqb_eq in He.
    destruct (find_sep_sound _ _ Hk) as [rest [H1 [H2 _]]].
    exists rest. split.
    + rewrite He. exact H1.
    + intros a b Hab. rewrite He, H2. now apply (find_sep_min _ _ Hk a b).
  - intros [rest [Hp Hmin]].
    destruct (find_sep_complete ident rest) as [k Hk]. rewrite <- Hp in Hk.
    exists k. split; [exact Hk|].
    pose proof (find_sep_min _ _ Hk _ _ Hp) as Hle.
    destruct (find_sep_sound _ _ Hk) as [rest' [H1 [H2 _]]].
    pose proof (Hmin _ _ H1) as Hge. rewrite H2 in Hge.
    assert (k = length ident) by lia. subst k.
    apply ustr_eqb_eq. rewrite Hp. symmetry. apply firstn_app_exact.
Qed.

Lemma starts_with_find : forall ident path,
  starts_with ident path -> find_sep path = Some (length ident) /\
  exists rest, path = ident ++ sep ++ rest /\ skipn (length ident) path = sep ++ rest.
Proof.
  intros ident path Hs. pose proof Hs as [rest [Hp Hmin]].
  apply prefix_test in Hs. destruct Hs as [k [Hk He]].
  apply ustr_eqb_eq in He.
  destruct (find_sep_sound _ _ Hk) as [rest' [H1 [H2 H3]]].
  assert (k = length ident) by (rewrite He; symmetry; exact H2). subst k.
  split; [exact Hk|]. exists rest. split; [exact Hp|].
  rewrite Hp at 1. apply skipn_app_exact.
Qed.

(* --------------------------------------------------------------- decide *)

Section WithT.
Context {T : Type}.
Context (tp : ustring -> bool).   (* syn's verdict "is a type path"; arbitrary *)
Implicit Types (e : extension T) (x : ext_parse T).

Lemma collect_spec : forall (l : list (option T)) ids, collect l = Some ids <-> l = map Some ids.
Proof.
  induction l as [|o l IH]; intros ids; cbn [collect].
  - split; intro H.
    + injection H as <-. reflexivity.
    + destruct ids; [reflexivity | discriminate].
  - destruct o as [t|].
    + destruct (collect l) as [ids'|] eqn:Ec; cbn [option_map]; split; intro H.
      * injection H as <-. cbn [map]. f_equal. now apply IH.
      * destruct ids as [|i ids]; [discriminate|]. cbn [map] in H. injection H as -> Hl.
        apply IH in Hl. injection Hl as ->. reflexivity.
      * discriminate.
      * destruct ids as [|i ids]; [discriminate|]. cbn [map] in H. injection H as -> Hl.
        apply IH in Hl. discriminate.
    + split; intro H; [discriminate|]. destruct ids; discriminate.
Qed.

(* the crate/version policy of the property's first sentence *)
Definition policy_allows (cs : crates) (pol : unknown_policy) (crate : ustring) (rq : req) : Prop :=
  (exists v rn, lookup cs crate = Some (CS (CVVersion v) rn) /\ matches_req rq v = true)
  \/ (exists rn, lookup cs crate = Some (CS CVAny rn))
  \/ (lookup cs crate = None /\ pol = PAllow).

(* the first path segment after substitution *)
Definition head_segment (cs : crates) (crate : ustring) : ustring :=
  match lookup cs crate with
  | Some (CS _ (Some new_crate)) => dash_to_us new_crate
  | _ => dash_to_us crate
  end.

Definition substitutes (cs : crates) (pol : unknown_policy) x (p : ustring) (ps : list T) : Prop :=
  exists e rq rest,
    x = ExtOk e (Some rq)
    /\ starts_with (dash_to_us (x_crate e)) (x_path e)
    /\ x_path e = dash_to_us (x_crate e) ++ sep ++ rest
    /\ tp (x_path e) = true
    /\ x_params e = map Some ps
    /\ policy_allows cs pol (x_crate e) rq
    /\ p = sep ++ head_segment cs (x_crate e) ++ sep ++ rest.

Lemma decide_use_iff : forall cs pol x p ps,
  decide tp cs pol x = Use p ps <-> substitutes cs pol x p ps.
Proof.
  intros cs pol x p ps. split.
  - intro Hd. destruct x as [| |e [rq|]]; try discriminate.
    unfold decide in Hd.
    destruct (find_sep (x_path e)) as [k|] eqn:Ek; [|discriminate].
    destruct (ustr_eqb (dash_to_us (x_crate e)) (firstn k (x_path e))) eqn:Ee; cbn [negb] in Hd; [|discriminate].
    destruct (tp (x_path e)) eqn:Etp; cbn [negb] in Hd; [|discriminate].
    assert (Hsw : starts_with (dash_to_us (x_crate e)) (x_path e)).
    { apply prefix_test. exists k. now split. }
    destruct (starts_with_find _ _ Hsw) as [Hk' [rest [Hp Hskip]]].
    rewrite Ek in Hk'. injection Hk' as ->.
    exists e, rq, rest.
    unfold policy_allows, head_segment.
    destruct (lookup cs (x_crate e)) as [[cv rn]|] eqn:El; cbn [cs_version cs_rename] in Hd.
    + destruct cv as [v| |]; cbn in Hd.
      * destruct (matches_req rq v) eqn:Em; [|discriminate].
        destruct (collect (x_params e)) as [ids|] eqn:Ec; [|discriminate].
        injection Hd as <- <-. apply collect_spec in Ec.
        repeat split; try assumption.
        -- left. exists v, rn. now split.
        -- destruct rn as [new_crate|]; [now rewrite Hskip | now rewrite Hp at 1].
      * destruct (collect (x_params e)) as [ids|] eqn:Ec; [|discriminate].
        injection Hd as <- <-. apply collect_spec in Ec.
        repeat split; try assumption.
        -- right. left. now exists rn.
        -- destruct rn as [new_crate|]; [now rewrite Hskip | now rewrite Hp at 1].
      * discriminate.
    + destruct pol; try discriminate.
      destruct (collect (x_params e)) as [ids|] eqn:Ec; [|discriminate].
      injection Hd as <- <-. apply collect_spec in Ec.
      repeat split; try assumption.
      * right. right. now split.
      * now rewrite Hp at 1.
  - intros [e [rq [rest [-> [Hsw [Hp [Htp [Hps [Hpol ->]]]]]]]]].
    destruct (starts_with_find _ _ Hsw) as [Hk [rest' [Hp' Hskip]]].
    assert (rest' = rest).
    { rewrite Hp in Hp'. apply app_inv_head in Hp'. apply app_inv_head in Hp'. now symmetry. }
    subst rest'.
    apply collect_spec in Hps.
    unfold decide. rewrite Hk.
    replace (firstn (length (dash_to_us (x_crate e))) (x_path e)) with (dash_to_us (x_crate e))
      by (rewrite Hp; symmetry; apply firstn_app_exact).
    rewrite ustr_eqb_refl. cbn [negb]. rewrite Htp. cbn [negb].
    unfold head_segment.
    destruct Hpol as [[v [rn [El Hm]]] | [[rn El] | [El ->]]]; rewrite El; cbn [cs_version cs_rename].
    + rewrite Hm, Hps. destruct rn; [now rewrite Hskip | now rewrite Hp at 1].
    + rewrite Hps. destruct rn; [now rewrite Hskip | now rewrite Hp at 1].
    + rewrite Hps. now rewrite Hp at 1.
Qed.

Lemma decide_total : forall cs pol x,
  decide tp cs pol x = Generate \/ exists p ps, decide tp cs pol x = Use p ps.
Proof. intros. destruct (decide tp cs pol x); [right; eauto | now left]. Qed.

(* C13_decide_spec *)
Theorem decide_spec : forall cs pol x,
  (exists p ps, decide tp cs pol x = Use p ps) <->
  (exists e rq, x = ExtOk e (Some rq)
     /\ starts_with (dash_to_us (x_crate e)) (x_path e)
     /\ tp (x_path e) = true
     /\ (forall q, In q (x_params e) -> q <> None)
     /\ policy_allows cs pol (x_crate e) rq).
Proof.
  intros cs pol x. split.
  - intros [p [ps Hd]]. apply decide_use_iff in Hd.
    destruct Hd as [e [rq [rest [Hx [Hsw [_ [Htp [Hps [Hpol _]]]]]]]]].
    exists e, rq. repeat split; try assumption.
    intros q Hq. rewrite Hps in Hq. apply in_map_iff in Hq. destruct Hq as [t [<- _]]. discriminate.
  - intros [e [rq [Hx [Hsw [Htp [Hps Hpol]]]]]].
    assert (Hc : exists ps, x_params e = map Some ps).
    { clear - Hps. induction (x_params e) as [|o l IH].
      - now exists [].
      - destruct IH as [ps Hl]. { intros q Hq. apply Hps. now right. }
        destruct o as [t|]; [|exfalso; now apply (Hps None (or_introl eq_refl))].
        exists (t :: ps). cbn [map]. now f_equal. }
    destruct Hc as [ps Hc].
    pose proof Hsw as [rest [Hp _]].
    exists (sep ++ head_segment cs (x_crate e) ++ sep ++ rest), ps.
    apply decide_use_iff. exists e, rq, rest. repeat split; assumption.
Qed.

Theorem decide_generate_iff : forall cs pol x,
  decide tp cs pol x = Generate <->
  ~ (exists e rq, x = ExtOk e (Some rq)
       /\ starts_with (dash_to_us (x_crate e)) (x_path e)
       /\ tp (x_path e) = true
       /\ (forall q, In q (x_params e) -> q <> None)
       /\ policy_allows cs pol (x_crate e) rq).
Proof.
  intros cs pol x. rewrite <- decide_spec. split.
  - intros Hg [p [ps Hu]]. rewrite Hg in Hu. discriminate.
  - intro Hn. destruct (decide_total cs pol x) as [Hg|Hu]; [exact Hg | contradiction].
Qed.

(* the "generated when" clauses *)
Theorem never_generates : forall cs pol e r rn,
  lookup cs (x_crate e) = Some (CS CVNever rn) -> decide tp cs pol (ExtOk e r) = Generate.
Proof.
  intros cs pol e r rn El. apply decide_generate_iff.
  intros [e' [rq [Hx [_ [_ [_ Hpol]]]]]]. injection Hx as <- _.
  destruct Hpol as [[v [rn' [El' _]]] | [[rn' El'] | [El' _]]]; rewrite El in El'; discriminate.
Qed.

Theorem mismatch_generates : forall cs pol e rq v rn,
  lookup cs (x_crate e) = Some (CS (CVVersion v) rn) -> matches_req rq v = false ->
  decide tp cs pol (ExtOk e (Some rq)) = Generate.
Proof.
  intros cs pol e rq v rn El Hm. apply decide_generate_iff.
  intros [e' [rq' [Hx [_ [_ [_ Hpol]]]]]]. injection Hx as <- <-.
  destruct Hpol as [[v' [rn' [El' Hm']]] | [[rn' El'] | [El' _]]]; rewrite El in El'; try discriminate.
  injection El' as <- _. rewrite Hm in Hm'. discriminate.
Qed.

Theorem unconfigured_generate_or_deny_generates : forall cs pol e r,
  lookup cs (x_crate e) = None -> pol <> PAllow -> decide tp cs pol (ExtOk e r) = Generate.
Proof.
  intros cs pol e r El Hpol. apply decide_generate_iff.
  intros [e' [rq [Hx [_ [_ [_ Hp]]]]]]. injection Hx as <- _.
  destruct Hp as [[v' [rn' [El' _]]] | [[rn' El'] | [_ Hp]]]; try (rewrite El in El'; discriminate).
  contradiction.
Qed.

Theorem malformed_generates : forall cs pol,
  decide tp cs pol (@ExtAbsent T) = Generate
  /\ decide tp cs pol (@ExtMalformed T) = Generate                     (* not a well-formed record *)
  /\ (forall e, decide tp cs pol (ExtOk e None) = Generate)             (* bad requirement *)
  /\ (forall e r, ~ starts_with (dash_to_us (x_crate e)) (x_path e) -> (* path / crate mismatch *)
        decide tp cs pol (ExtOk e r) = Generate)
  /\ (forall e r, tp (x_path e) = false ->                              (* path is not a type path *)
        decide tp cs pol (ExtOk e r) = Generate)
  /\ (forall e r, In None (x_params e) ->                               (* unconvertible parameter *)
        decide tp cs pol (ExtOk e r) = Generate).
Proof.
  intros cs pol. repeat split; try reflexivity.
  - intros e r Hn. apply decide_generate_iff.
    intros [e' [rq [Hx [Hsw _]]]]. injection Hx as <- _. contradiction.
  - intros e r Hn. apply decide_generate_iff.
    intros [e' [rq [Hx [_ [Htp _]]]]]. injection Hx as <- _. rewrite Hn in Htp. discriminate.
  - intros e r Hin. apply decide_generate_iff.
    intros [e' [rq [Hx [_ [_ [Hps _]]]]]]. injection Hx as <- _. now apply (Hps None Hin).
Qed.

(* finding C13-F1 (fixed by 31fad76): a path that is not a type path is generated *)
Theorem non_type_path_generates : forall cs pol e r,
  tp (x_path e) = false -> decide tp cs pol (ExtOk e r) = Generate.
Proof. intros cs pol e r. apply (malformed_generates cs pol). Qed.

(* C13_decide_path *)
Theorem decide_path : forall cs pol x p ps,
  decide tp cs pol x = Use p ps ->
  exists e rq rest,
    x = ExtOk e (Some rq)
    /\ x_path e = dash_to_us (x_crate e) ++ sep ++ rest
    /\ (forall a b, x_path e = a ++ sep ++ b -> (length (dash_to_us (x_crate e)) <= length a)%nat)
    /\ p = sep ++ head_segment cs (x_crate e) ++ sep ++ rest
    /\ map Some ps = x_params e.
Proof.
  intros cs pol x p ps Hd. apply decide_use_iff in Hd.
  destruct Hd as [e [rq [rest [Hx [[rest' [_ Hmin]] [Hp [_ [Hps [_ Hpp]]]]]]]]].
  exists e, rq, rest. repeat split; try assumption. now symmetry.
Qed.

(* ------------------------------------------------ the rename keeps the tail *)

Lemma split_sep_aux_app : forall a b acc, no_colon a ->
  split_sep_aux (a ++ sep ++ b) acc = (rev acc ++ a) :: split_sep_aux b [].
Proof.
  induction a as [|x a IH]; intros b acc Hnc.
  - cbn. now rewrite app_nil_r.
  - inversion Hnc as [|x' a' Hx Ha]; subst.
    assert (Hne : exists d t', a ++ sep ++ b = d :: t') by (destruct a; cbn; eauto).
    destruct Hne as [d [t' Ht]].
    cbn [app split_sep_aux]. rewrite Ht.
    assert (Ex : (x =? colon) = false) by now apply N.eqb_neq.
    rewrite Ex. cbn [andb]. rewrite <- Ht. rewrite IH by assumption.
    cbn [rev]. now rewrite <- app_assoc.
Qed.

Lemma split_sep_app : forall a b, no_colon a -> split_sep (a ++ sep ++ b) = a :: split_sep b.
Proof. intros a b H. unfold split_sep. now rewrite split_sep_aux_app. Qed.

(* C13_rename_preserves_tail: the substituted path is the original one with
   ONLY its first segment replaced: character for character everything from the
   first "::" on is the original text, and (for a crate identifier and a head
   without ':') the lists of segments agree from the second segment on. *)
Theorem rename_preserves_tail : forall cs pol x p ps,
  decide tp cs pol x = Use p ps ->
  exists e rq,
    x = ExtOk e (Some rq)
    /\ p = sep ++ head_segment cs (x_crate e)
              ++ skipn (length (dash_to_us (x_crate e))) (x_path e)
    /\ (no_colon (dash_to_us (x_crate e)) -> no_colon (head_segment cs (x_crate e)) ->
        exists tail,
          split_sep (x_path e) = dash_to_us (x_crate e) :: tail
          /\ split_sep (skipn 2 p) = head_segment cs (x_crate e) :: tail).
Proof.
  intros cs pol x p ps Hd. apply decide_use_iff in Hd.
  destruct Hd as [e [rq [rest [Hx [Hsw [Hp [_ [_ [_ Hpp]]]]]]]]].
  exists e, rq. split; [exact Hx|]. split.
  - rewrite Hpp. rewrite Hp. now rewrite skipn_app_exact.
  - intros Hi Hh. exists (split_sep rest). split.
    + rewrite Hp. now apply split_sep_app.
    + rewrite Hpp. cbn [sep app skipn]. now apply split_sep_app.
Qed.

(* C13_parameters_applied_in_order: the parameters of the substituted type are
   the converted parameters of THIS occurrence, in order; and the decision and
   the path do not depend on them: another occurrence with the same crate, path
   and requirement but other (convertible) parameters gets the same path with
   ITS OWN parameters. *)
Theorem parameters_applied_in_order : forall cs pol e rq p ps,
  decide tp cs pol (ExtOk e (Some rq)) = Use p ps ->
  x_params e = map Some ps
  /\ forall ps' : list T, decide tp cs pol (ExtOk (X (x_crate e) (x_path e) (map Some ps')) (Some rq)) = Use p ps'.
Proof.
  intros cs pol e rq p ps Hd. apply decide_use_iff in Hd.
  destruct Hd as [e' [rq' [rest [Hx [Hsw [Hp [Htp [Hps [Hpol Hpp]]]]]]]]].
  injection Hx as <- <-. split; [exact Hps|].
  intro ps'. apply decide_use_iff.
  exists (X (x_crate e) (x_path e) (map Some ps')), rq, rest.
  cbn [x_crate x_path x_params]. repeat split; assumption.
Qed.

(* a configured version decides by Cargo's documented semantics *)
Theorem version_policy_is_cargo : forall cs pol e rq v rn,
  lookup cs (x_crate e) = Some (CS (CVVersion v) rn) ->
  forallb wf_comparator rq = true ->
  vpre v = [] \/ forallb is_full rq = true ->
  ((exists p ps, decide tp cs pol (ExtOk e (Some rq)) = Use p ps) <->
   starts_with (dash_to_us (x_crate e)) (x_path e)
   /\ tp (x_path e) = true
   /\ (forall q, In q (x_params e) -> q <> None)
   /\ sat_cargo rq v = true).
Proof.
  intros cs pol e rq v rn El Hwf Hreg. rewrite decide_spec. rewrite <- (matches_is_cargo rq v Hwf Hreg).
  split.
  - intros [e' [rq' [Hx [Hsw [Htp [Hps Hpol]]]]]]. injection Hx as <- <-.
    repeat split; try assumption.
    destruct Hpol as [[v' [rn' [El' Hm]]] | [[rn' El'] | [El' _]]]; rewrite El in El'; try discriminate.
    now injection El' as <- _.
  - intros [Hsw [Htp [Hps Hm]]]. exists e, rq. repeat split; try assumption.
    left. exists v, rn. now split.
Qed.

(* ------------------------------------------------- definitions, wrappers *)

Theorem use_skips_structure : forall cs pol n x,
  (convert_ref_def tp cs pol n x = DefStructural <-> decide tp cs pol x = Generate)
  /\ (forall p ps, decide tp cs pol x = Use p ps ->
        convert_ref_def tp cs pol n x = DefNative p ps \/ convert_ref_def tp cs pol n x = DefNewtype p ps).
Proof.
  intros cs pol n x. unfold convert_ref_def. split.
  - destruct (decide tp cs pol x) as [p ps|]; [|tauto].
    destruct (name_match p ps n); split; intro H; discriminate.
  - intros p ps ->. destruct (name_match p ps n); [now left | now right].
Qed.

Lemma name_match_iff : forall (p : ustring) (ps : list T) n,
  name_match p ps n = true <-> ps <> [] \/ n = NRequired (last_segment p).
Proof.
  intros p ps n. unfold name_match. destruct ps as [|t ps]; cbn [negb orb].
  - destruct n as [r|r|].
    + rewrite ustr_eqb_eq. split.
      * intros ->. now right.
      * intros [H|H]; [now contradiction H | now injection H].
    + split; [discriminate|]. intros [H|H]; [now contradiction H | discriminate].
    + split; [discriminate|]. intros [H|H]; [now contradiction H | discriminate].
  - split; [intros _; left; discriminate | reflexivity].
Qed.

Theorem wrapper_iff_names_differ : forall cs pol n x p ps,
  decide tp cs pol x = Use p ps ->
  (convert_ref_def tp cs pol n x = DefNewtype p ps <->
     ps = [] /\ n <> NRequired (last_segment p))
  /\ (convert_ref_def tp cs pol n x = DefNative p ps <->
     ps <> [] \/ n = NRequired (last_segment p)).
Proof.
  intros cs pol n x p ps Hd. unfold convert_ref_def. rewrite Hd.
  destruct (name_match p ps n) eqn:E.
  - pose proof (proj1 (name_match_iff p ps n) E) as Hm.
    split; split; intro H.
    + discriminate.
    + destruct H as [H1 H2]. destruct Hm as [Hm|Hm]; contradiction.
    + exact Hm.
    + reflexivity.
  - assert (Hn : ~ (ps <> [] \/ n = NRequired (last_segment p))).
    { intro Hc. apply name_match_iff in Hc. rewrite E in Hc. discriminate. }
    split; split; intro H.
    + split.
      * destruct ps; [reflexivity | exfalso; apply Hn; left; discriminate].
      * intro Heq. apply Hn. now right.
    + reflexivity.
    + discriminate.
    + contradiction.
Qed.

End WithT.

(* `last_segment` is what follows the LAST "::" *)
Lemma rev_sep : rev sep = sep.
Proof. reflexivity. Qed.

Theorem last_segment_spec : forall s,
  (forall a b, s = a ++ sep ++ b ->
     (forall a' b', s = a' ++ sep ++ b' -> (length b <= length b')%nat) -> last_segment s = b)
  /\ ((forall a b, s <> a ++ sep ++ b) -> last_segment s = s).
Proof.
  intro s. split.
  - intros a b Hs Hmin. unfold last_segment.
    assert (Hr : rev s = rev b ++ sep ++ rev a).
    { rewrite Hs, !rev_app_distr, rev_sep, <- app_assoc. reflexivity. }
    destruct (find_sep_complete (rev b) (rev a)) as [k Hk]. rewrite <- Hr in Hk. rewrite Hk.
    pose proof (find_sep_min _ _ Hk _ _ Hr) as Hle. rewrite rev_length in Hle.
    destruct (find_sep_sound _ _ Hk) as [rest [H1 [H2 _]]].
    assert (Hs' : s = rev rest ++ sep ++ rev (firstn k (rev s))).
    { rewrite <- (rev_involutive s) at 1. rewrite H1 at 1.
      rewrite !rev_app_distr, rev_sep, <- app_assoc. reflexivity. }
    pose proof (Hmin _ _ Hs') as Hge. rewrite rev_length, H2 in Hge.
    assert (k = length (rev b)) by (rewrite rev_length; lia). subst k.
    rewrite Hr, firstn_app_exact. apply rev_involutive.
  - intro Hno. unfold last_segment.
    destruct (find_sep (rev s)) as [k|] eqn:Ek; [|reflexivity].
    destruct (find_sep_sound _ _ Ek) as [rest [H1 _]].
    exfalso. apply (Hno (rev rest) (rev (firstn k (rev s)))).
    rewrite <- (rev_involutive s) at 1. rewrite H1 at 1.
    rewrite !rev_app_distr, rev_sep, <- app_assoc. reflexivity.
Qed.
