(* Proofs/RustDefsProofs.v — lemmas about Algo/RustDefs.v (serde_derive's rename
   rules, the origin-side translation) and about the serde behaviour of IR/Serde.v
   on the shapes [ir_of_rust] produces (property C04). *)
From Coq Require Import String ZArith NArith List Bool Lia.
From Typify Require Import Base.Json IR.TypeIR IR.Serde Algo.RustDefs Proofs.SerdeProofs Check.WireEquiv
  Proofs.SettingsProofs.
Import ListNotations.
Close Scope string_scope.
Open Scope list_scope.
Open Scope N_scope.

(* ------------------------------------------------------------------ characters *)
Lemma to_upper_not_lower c : is_lower (to_upper c) = false.
Proof.
  unfold to_upper. destruct (is_lower c) eqn:E; [|exact E].
  unfold is_lower in *. apply andb_true_iff in E as [E1 E2].
  apply N.leb_le in E1, E2. apply andb_false_iff. left. apply N.leb_gt. lia.
Qed.

Lemma to_lower_not_upper c : is_upper (to_lower c) = false.
Proof.
  unfold to_lower. destruct (is_upper c) eqn:E; [|exact E].
  unfold is_upper in *. apply andb_true_iff in E as [E1 E2].
  apply N.leb_le in E1, E2. apply andb_false_iff. right. apply N.leb_gt. lia.
Qed.

Lemma to_upper_idem c : to_upper (to_upper c) = to_upper c.
Proof. unfold to_upper at 1. rewrite to_upper_not_lower. reflexivity. Qed.

Lemma to_lower_idem c : to_lower (to_lower c) = to_lower c.
Proof. unfold to_lower at 1. rewrite to_lower_not_upper. reflexivity. Qed.

Lemma underscore_not_upper : is_upper underscore = false.
Proof. reflexivity. Qed.

Lemma to_upper_underscore c : to_upper c = underscore -> c = underscore.
Proof.
  unfold to_upper, underscore. destruct (is_lower c) eqn:E; [|auto].
  unfold is_lower in E. apply andb_true_iff in E as [E1 E2]. apply N.leb_le in E1, E2. lia.
Qed.

Lemma to_upper_hyphen c : to_upper c = hyphen <-> c = hyphen.
Proof.
  unfold to_upper, hyphen. destruct (is_lower c) eqn:E.
  - unfold is_lower in E. apply andb_true_iff in E as [E1 E2]. apply N.leb_le in E1, E2. split; lia.
  - tauto.
Qed.

(* ------------------------------------------------------------------ whole-string maps *)
Lemma upper_all_idem s : upper_all (upper_all s) = upper_all s.
Proof. unfold upper_all. rewrite map_map. apply map_ext. intros; apply to_upper_idem. Qed.

Lemma lower_all_idem s : lower_all (lower_all s) = lower_all s.
Proof. unfold lower_all. rewrite map_map. apply map_ext. intros; apply to_lower_idem. Qed.

Lemma replace_us_idem s : replace_us (replace_us s) = replace_us s.
Proof.
  unfold replace_us. rewrite map_map. apply map_ext. intros c.
  destruct (N.eqb c underscore) eqn:E; [reflexivity|]. rewrite E. reflexivity.
Qed.

Lemma replace_us_no_underscore s : ~ In underscore (replace_us s).
Proof.
  unfold replace_us. intros H. apply in_map_iff in H as [c [H _]].
  destruct (N.eqb c underscore) eqn:E.
  - discriminate H.
  - apply N.eqb_neq in E. congruence.
Qed.

Lemma replace_us_length s : length (replace_us s) = length s.
Proof. apply map_length. Qed.

Lemma upper_all_length s : length (upper_all s) = length s.
Proof. apply map_length. Qed.

Lemma upper_all_no_lower s c : In c (upper_all s) -> is_lower c = false.
Proof. unfold upper_all. intros H. apply in_map_iff in H as [d [<- _]]. apply to_upper_not_lower. Qed.

(* kebab-case does not merge two distinct snake_case identifiers: injective on
   identifiers that contain no '-' (Rust identifiers never do) *)
Lemma replace_us_inj s t :
  ~ In hyphen s -> ~ In hyphen t -> replace_us s = replace_us t -> s = t.
Proof.
  revert t. induction s as [|a s IH]; intros [|b t] Hs Ht H; simpl in H; try discriminate H; [reflexivity|].
  injection H as H1 H2. f_equal.
  - assert (a <> hyphen) by (intros ->; apply Hs; left; reflexivity).
    assert (b <> hyphen) by (intros ->; apply Ht; left; reflexivity).
    destruct (N.eqb a underscore) eqn:Ea; destruct (N.eqb b underscore) eqn:Eb.
    + apply N.eqb_eq in Ea, Eb. congruence.
    + congruence.
    + congruence.
    + exact H1.
  - apply IH; [intros X; apply Hs; right; exact X | intros X; apply Ht; right; exact X | exact H2].
Qed.

(* ------------------------------------------------------------------ snake_case of a variant *)
Lemma snake_tail_no_upper s c : In c (snake_tail s) -> is_upper c = false.
Proof.
  induction s as [|a s IH]; simpl; [tauto|].
  destruct (is_upper a); simpl; intros [H|H].
  - subst. reflexivity.
  - destruct H as [H|H]; [subst; apply to_lower_not_upper | apply IH; exact H].
  - subst. apply to_lower_not_upper.
  - apply IH; exact H.
Qed.

Lemma snake_of_variant_no_upper v c : In c (snake_of_variant v) -> is_upper c = false.
Proof.
  destruct v as [|a v]; simpl; [tauto|]. intros [H|H].
  - subst. apply to_lower_not_upper.
  - eapply snake_tail_no_upper; exact H.
Qed.

Lemma snake_tail_fix s : (forall c, In c s -> is_upper c = false) -> snake_tail s = s.
Proof.
  induction s as [|a s IH]; intros H; simpl; [reflexivity|].
  assert (Ha : is_upper a = false) by (apply H; left; reflexivity).
  rewrite Ha. unfold to_lower. rewrite Ha. f_equal. apply IH. intros c Hc. apply H. right. exact Hc.
Qed.

Lemma snake_of_variant_idem v : snake_of_variant (snake_of_variant v) = snake_of_variant v.
Proof.
  destruct v as [|a v]; [reflexivity|].
  change (snake_of_variant (a :: v)) with (to_lower a :: snake_tail v).
  change (snake_of_variant (to_lower a :: snake_tail v))
    with (to_lower (to_lower a) :: snake_tail (snake_tail v)).
  rewrite to_lower_idem. f_equal. apply snake_tail_fix. apply snake_tail_no_upper.
Qed.

(* ------------------------------------------------------------------ PascalCase of a field *)
Lemma pascal_go_no_underscore b s : ~ In underscore (pascal_go b s).
Proof.
  revert b. induction s as [|a s IH]; intros b; simpl; [tauto|].
  destruct (N.eqb a underscore) eqn:E; [apply IH|].
  apply N.eqb_neq in E.
  destruct b; simpl; intros [H|H].
  - apply to_upper_underscore in H. congruence.
  - eapply IH; exact H.
  - congruence.
  - eapply IH; exact H.
Qed.

(* ------------------------------------------------------------------ the rename rules *)
Lemma rename_field_identity f :
  rename_field RuNone f = f /\ rename_field RuSnake f = f /\ rename_field RuLower f = f.
Proof. repeat split. Qed.

Lemma rename_variant_identity v :
  rename_variant RuNone v = v /\ rename_variant RuPascal v = v.
Proof. repeat split. Qed.

Lemma rename_field_screaming_is_upper f :
  rename_field RuScreamingSnake f = rename_field RuUpper f.
Proof. reflexivity. Qed.

Lemma rename_field_kebab_props f :
  ~ In underscore (rename_field RuKebab f) /\
  length (rename_field RuKebab f) = length f /\
  rename_field RuKebab (rename_field RuKebab f) = rename_field RuKebab f.
Proof.
  simpl. split; [apply replace_us_no_underscore|]. split; [apply replace_us_length|apply replace_us_idem].
Qed.

Lemma rename_field_upper_props f :
  (forall c, In c (rename_field RuUpper f) -> is_lower c = false) /\
  length (rename_field RuUpper f) = length f /\
  rename_field RuUpper (rename_field RuUpper f) = rename_field RuUpper f.
Proof.
  simpl. split; [apply upper_all_no_lower|]. split; [apply upper_all_length|apply upper_all_idem].
Qed.

Lemma rename_field_screaming_kebab_props f :
  ~ In underscore (rename_field RuScreamingKebab f) /\
  (forall c, In c (rename_field RuScreamingKebab f) -> is_lower c = false).
Proof.
  simpl. split; [apply replace_us_no_underscore|].
  intros c H. unfold replace_us in H. apply in_map_iff in H as [d [H1 H2]].
  destruct (N.eqb d underscore); [subst; reflexivity|]. subst. eapply upper_all_no_lower; exact H2.
Qed.

Lemma rename_field_pascal_camel_no_underscore f :
  ~ In underscore (rename_field RuPascal f) /\ ~ In underscore (rename_field RuCamel f).
Proof.
  simpl. split; [apply pascal_go_no_underscore|].
  unfold pascal_of_field. intros H.
  destruct (pascal_go true f) as [|a r] eqn:E; simpl in H; [tauto|].
  destruct H as [H|H].
  - assert (Ha : a <> underscore).
    { intros ->. apply (pascal_go_no_underscore true f). rewrite E. left. reflexivity. }
    unfold to_lower in H. destruct (is_upper a) eqn:Eu; [|congruence].
    unfold is_upper in Eu. apply andb_true_iff in Eu as [E1 E2]. apply N.leb_le in E1, E2.
    unfold underscore in H. lia.
  - apply (pascal_go_no_underscore true f). rewrite E. right. exact H.
Qed.

Lemma rename_field_kebab_injective f g :
  ~ In hyphen f -> ~ In hyphen g -> rename_field RuKebab f = rename_field RuKebab g -> f = g.
Proof. apply replace_us_inj. Qed.

Lemma rename_variant_snake_props v :
  (forall c, In c (rename_variant RuSnake v) -> is_upper c = false) /\
  rename_variant RuSnake (rename_variant RuSnake v) = rename_variant RuSnake v.
Proof. simpl. split; [apply snake_of_variant_no_upper|apply snake_of_variant_idem]. Qed.

Lemma rename_variant_kebab_no_underscore v :
  ~ In underscore (rename_variant RuKebab v) /\ ~ In underscore (rename_variant RuScreamingKebab v).
Proof. simpl. split; apply replace_us_no_underscore. Qed.

Lemma rename_variant_upper_lower_idem v :
  rename_variant RuUpper (rename_variant RuUpper v) = rename_variant RuUpper v /\
  rename_variant RuLower (rename_variant RuLower v) = rename_variant RuLower v.
Proof. simpl. split; [apply upper_all_idem|apply lower_all_idem]. Qed.

(* an explicit `rename` wins over every rule *)
Lemma explicit_rename_wins rule f w : rf_rename f = Some w -> field_wire rule f = w.
Proof. unfold field_wire. intros ->. reflexivity. Qed.

Lemma explicit_variant_rename_wins rule v w : rv_rename v = Some w -> variant_wire rule v = w.
Proof. unfold variant_wire. intros ->. reflexivity. Qed.

(* ------------------------------------------------------------------ unit variants on the wire *)
Lemma find_variant_nth vs : forall i k v,
  NoDup (map v_raw vs) -> nth_error vs i = Some v -> find_variant (v_raw v) vs k = Some ((k + i)%nat, v).
Proof.
  induction vs as [|a vs IH]; intros i k v Hnd Hn.
  - destruct i; discriminate Hn.
  - simpl in Hnd. inversion Hnd as [|x l Hni Hnd']; subst.
    destruct i as [|i]; simpl in Hn.
    + injection Hn as ->. simpl. rewrite ustr_eqb_refl. rewrite Nat.add_0_r. reflexivity.
    + simpl. destruct (ustr_eqb (v_raw v) (v_raw a)) eqn:E.
      * apply ustr_eqb_eq in E. exfalso. apply Hni. rewrite <- E.
        apply in_map. eapply nth_error_In. exact Hn.
      * rewrite (IH i (S k) v Hnd' Hn). f_equal. f_equal. lia.
Qed.

Section UnitVariant.
  Variable ser : id -> rval -> option json.
  Variable de : id -> json -> option rval.
  Variable dflt : id -> option rval.
  Variable T : space.

  Lemma unit_variant_ser vs i v :
    nth_error vs i = Some v -> v_det v = VSimple ->
    ser_enum T ser TagExternal vs (REnum i RUnit) = Some (JStr (v_raw v)) /\
    (forall tg, ser_enum T ser (TagInternal tg) vs (REnum i RUnit) = Some (JObj [(tg, JStr (v_raw v))])) /\
    (forall tg ct, ser_enum T ser (TagAdjacent tg ct) vs (REnum i RUnit) = Some (JObj [(tg, JStr (v_raw v))])) /\
    ser_enum T ser TagUntagged vs (REnum i RUnit) = Some JNull.
  Proof.
    intros Hn Hd. unfold ser_enum. rewrite Hn, Hd. repeat split; reflexivity.
  Qed.

  Lemma unit_variant_de_external vs i v deny :
    NoDup (map v_raw vs) -> nth_error vs i = Some v -> v_det v = VSimple ->
    de_enum T de dflt TagExternal vs deny (JStr (v_raw v)) = Some (REnum i RUnit).
  Proof.
    intros Hnd Hn Hd. unfold de_enum. rewrite (find_variant_nth vs i 0 v Hnd Hn). simpl. rewrite Hd. reflexivity.
  Qed.

  Lemma unit_variant_de_internal vs i v deny tg :
    NoDup (map v_raw vs) -> nth_error vs i = Some v -> v_det v = VSimple ->
    de_enum T de dflt (TagInternal tg) vs deny (JObj [(tg, JStr (v_raw v))]) = Some (REnum i RUnit).
  Proof.
    intros Hnd Hn Hd. unfold de_enum. simpl. rewrite ?ustr_eqb_refl.
    rewrite (find_variant_nth vs i 0 v Hnd Hn). simpl. rewrite Hd. simpl.
    rewrite ?andb_false_r. reflexivity.
  Qed.

  Lemma unit_variant_de_adjacent vs i v deny tg ct :
    ustr_eqb ct tg = false ->
    NoDup (map v_raw vs) -> nth_error vs i = Some v -> v_det v = VSimple ->
    de_enum T de dflt (TagAdjacent tg ct) vs deny (JObj [(tg, JStr (v_raw v))]) = Some (REnum i RUnit).
  Proof.
    intros Hne Hnd Hn Hd. unfold de_enum. simpl. rewrite ?ustr_eqb_refl.
    rewrite (find_variant_nth vs i 0 v Hnd Hn). simpl. rewrite Hd. simpl.
    rewrite ?Hne. simpl. rewrite ?andb_false_r. reflexivity.
  Qed.
End UnitVariant.

(* ------------------------------------------------------------------ Option members *)
Section OptionMembers.
  Variable T : space.
  Variable de : id -> json -> option rval.
  Variable dflt : id -> option rval.
  Variable ser : id -> rval -> option json.

  (* a missing Option member (no `default`) is None *)
  (* IR/Serde.v [missing]: an absent member without default is accepted exactly when
     its type reads null as the bare None, which an Option type does ([de] with
     fuel >= 1: option_member_missing_de below) *)
  Lemma option_member_missing p r kvs w t xs :
    p_state p = PRequired -> get_det T (p_ty p) = Some (DOption t) ->
    de (p_ty p) JNull = Some ROptNone ->
    wire_name p = Some w -> assoc w kvs = None ->
    de_named T de dflt r kvs = Some xs ->
    de_named T de dflt (p :: r) kvs = Some ((p_name p, ROptNone) :: xs).
  Proof.
    intros Hs Hd Hn Hw Ha Hr. simpl. rewrite Hw, Ha. unfold missing. rewrite Hs, Hd, Hn, Hr. reflexivity.
  Qed.

  (* skip_serializing_if = "Option::is_none": a None member is not written ... *)
  Lemma skip_none_ser p r fs t :
    p_state p = POptional -> get_det T (p_ty p) = Some (DOption t) ->
    p_rename p <> RFlatten ->
    assoc (p_name p) fs = Some ROptNone ->
    ser_fields T ser (p :: r) fs = ser_fields T ser r fs.
  Proof.
    intros Hs Hd Hf Ha. simpl. rewrite Ha.
    destruct (ser_fields T ser r fs) as [rest|]; [|reflexivity].
    assert (Hk : skip_if T p ROptNone = true) by (unfold skip_if, unbox_det; rewrite Hs, Hd; reflexivity).
    destruct (p_rename p); try (rewrite Hk; reflexivity). contradiction Hf; reflexivity.
  Qed.

  (* ... and is restored as None when the object is read back *)
  Lemma skip_none_de p r kvs w t xs :
    p_state p = POptional -> get_det T (p_ty p) = Some (DOption t) ->
    dflt (p_ty p) = Some ROptNone ->
    wire_name p = Some w -> assoc w kvs = None ->
    de_named T de dflt r kvs = Some xs ->
    de_named T de dflt (p :: r) kvs = Some ((p_name p, ROptNone) :: xs).
  Proof.
    intros Hs Hd Hdf Hw Ha Hr. simpl. rewrite Hw, Ha. unfold missing. rewrite Hs, Hdf, Hr. reflexivity.
  Qed.

  Lemma default_val_option fuel i t : get_det T i = Some (DOption t) -> default_val T (S fuel) i = Some ROptNone.
  Proof. intros H. simpl. rewrite H. reflexivity. Qed.
End OptionMembers.

Lemma option_member_missing_de re native T f dflt p r kvs w t xs :
  p_state p = PRequired -> get_det T (p_ty p) = Some (DOption t) ->
  wire_name p = Some w -> assoc w kvs = None ->
  de_named T (Serde.de re native T (S f)) dflt r kvs = Some xs ->
  de_named T (Serde.de re native T (S f)) dflt (p :: r) kvs = Some ((p_name p, ROptNone) :: xs).
Proof.
  intros Hs Hd. apply option_member_missing with t; [exact Hs | exact Hd|].
  rewrite de_S, Hd. reflexivity.
Qed.

(* ------------------------------------------------------------------ from a wire-equivalence checker *)
Section FromEquiv.
  Variable re_match native_ok : ustring -> ustring -> bool.

  Definition rt (T : space) (fuel : nat) (t : id) (j : json) : option json :=
    match de re_match native_ok T fuel t j with
    | Some x => ser T fuel t x
    | None => None
    end.

  (* what a sound wire-equivalence checker establishes: same acceptance, same output *)
  Definition same_wire (T : space) (t : id) (T' : space) (t' : id) : Prop :=
    forall fuel j, rt T fuel t j = rt T' fuel t' j.

  Lemma wire_compat_of_same_wire T t T' t' :
    same_wire T t T' t' ->
    forall fuel x j,
      ser T fuel t x = Some j -> de re_match native_ok T fuel t j = Some x ->
      exists x', de re_match native_ok T' fuel t' j = Some x' /\
                 exists j', ser T' fuel t' x' = Some j' /\
                            de re_match native_ok T fuel t j' = Some x.
  Proof.
    intros Hsw fuel x j Hser Hde.
    specialize (Hsw fuel j). unfold rt in Hsw. rewrite Hde, Hser in Hsw.
    destruct (de re_match native_ok T' fuel t' j) as [x'|] eqn:E; [|discriminate Hsw].
    exists x'. split; [reflexivity|]. exists j. split; [symmetry; exact Hsw|exact Hde].
  Qed.
End FromEquiv.

(* ------------------------------------------------------------------ the statements of Props/C04.v *)
Lemma c04_wire_compat_from_equiv_partial_lemma :
  forall (re_match native_ok : ustring -> ustring -> bool)
         (chk : space -> id -> space -> id -> bool),
    (forall T t T' t', chk T t T' t' = true -> same_wire re_match native_ok T t T' t') ->
    forall (U : universe) (t : id) (T' : space) (t' : id),
      chk (ir_of_rust U) t T' t' = true ->
      forall fuel x j,
        ser (ir_of_rust U) fuel t x = Some j ->
        de re_match native_ok (ir_of_rust U) fuel t j = Some x ->
        exists x', de re_match native_ok T' fuel t' j = Some x' /\
                   exists j', ser T' fuel t' x' = Some j' /\
                              de re_match native_ok (ir_of_rust U) fuel t j' = Some x.
Proof.
  intros re_match native_ok chk Hsound U t T' t' Hc.
  exact (wire_compat_of_same_wire re_match native_ok _ _ _ _ (Hsound _ _ _ _ Hc)).

Qed.

Lemma c04_rename_all_rules_lemma :
  forall (f v : ustring),
    (* fields are written in snake_case: these rules leave them alone *)
    (rename_field RuNone f = f /\ rename_field RuSnake f = f /\ rename_field RuLower f = f) /\
    (* variants are written in PascalCase *)
    (rename_variant RuNone v = v /\ rename_variant RuPascal v = v) /\
    (* kebab-case: no '_' left, same length, idempotent *)
    (~ In underscore (rename_field RuKebab f) /\ length (rename_field RuKebab f) = length f /\
     rename_field RuKebab (rename_field RuKebab f) = rename_field RuKebab f) /\
    (* UPPERCASE = SCREAMING_SNAKE_CASE on fields: no lower-case letter, same length, idempotent *)
    (rename_field RuScreamingSnake f = rename_field RuUpper f /\
     (forall c, In c (rename_field RuUpper f) -> is_lower c = false) /\
     length (rename_field RuUpper f) = length f /\
     rename_field RuUpper (rename_field RuUpper f) = rename_field RuUpper f) /\
    (* SCREAMING-KEBAB-CASE: neither '_' nor lower-case letters *)
    (~ In underscore (rename_field RuScreamingKebab f) /\
     (forall c, In c (rename_field RuScreamingKebab f) -> is_lower c = false)) /\
    (* PascalCase / camelCase on fields drop every '_' *)
    (~ In underscore (rename_field RuPascal f) /\ ~ In underscore (rename_field RuCamel f)) /\
    (* snake_case on variants: no upper-case letter left, idempotent *)
    ((forall c, In c (rename_variant RuSnake v) -> is_upper c = false) /\
     rename_variant RuSnake (rename_variant RuSnake v) = rename_variant RuSnake v) /\
    (~ In underscore (rename_variant RuKebab v) /\ ~ In underscore (rename_variant RuScreamingKebab v)) /\
    (rename_variant RuUpper (rename_variant RuUpper v) = rename_variant RuUpper v /\
     rename_variant RuLower (rename_variant RuLower v) = rename_variant RuLower v).
Proof.
  intros f v.
  exact (conj (rename_field_identity f) (conj (rename_variant_identity v) (conj (rename_field_kebab_props f)
        (conj (conj (rename_field_screaming_is_upper f) (rename_field_upper_props f))
        (conj (rename_field_screaming_kebab_props f) (conj (rename_field_pascal_camel_no_underscore f)
        (conj (rename_variant_snake_props v) (conj (rename_variant_kebab_no_underscore v)
              (rename_variant_upper_lower_idem v))))))))).

Qed.

Lemma c04_explicit_rename_wins_lemma :
  forall rule f v w,
    (rf_rename f = Some w -> field_wire rule f = w) /\ (rv_rename v = Some w -> variant_wire rule v = w).
Proof. intros rule f v w. exact (conj (explicit_rename_wins rule f w) (explicit_variant_rename_wins rule v w)). 
Qed.

Lemma c04_unit_variant_wire_lemma :
  forall (T : space) (ser : id -> rval -> option json) (de : id -> json -> option rval) (dflt : id -> option rval)
         (vs : list variant) (i : nat) (v : variant) (deny : bool),
    NoDup (map v_raw vs) -> nth_error vs i = Some v -> v_det v = VSimple ->
    (ser_enum T ser TagExternal vs (REnum i RUnit) = Some (JStr (v_raw v)) /\
     de_enum T de dflt TagExternal vs deny (JStr (v_raw v)) = Some (REnum i RUnit)) /\
    (forall tg,
       ser_enum T ser (TagInternal tg) vs (REnum i RUnit) = Some (JObj [(tg, JStr (v_raw v))]) /\
       de_enum T de dflt (TagInternal tg) vs deny (JObj [(tg, JStr (v_raw v))]) = Some (REnum i RUnit)) /\
    (forall tg ct, ustr_eqb ct tg = false ->
       ser_enum T ser (TagAdjacent tg ct) vs (REnum i RUnit) = Some (JObj [(tg, JStr (v_raw v))]) /\
       de_enum T de dflt (TagAdjacent tg ct) vs deny (JObj [(tg, JStr (v_raw v))]) = Some (REnum i RUnit)) /\
    ser_enum T ser TagUntagged vs (REnum i RUnit) = Some JNull.
Proof.
  intros T ser de dflt vs i v deny Hnd Hn Hd.
  destruct (unit_variant_ser ser T vs i v Hn Hd) as [H1 [H2 [H3 H4]]].
  split; [split; [exact H1|exact (unit_variant_de_external de dflt T vs i v deny Hnd Hn Hd)]|].
  split; [intros tg; split; [apply H2|exact (unit_variant_de_internal de dflt T vs i v deny tg Hnd Hn Hd)]|].
  split; [intros tg ct Hne; split; [apply H3|exact (unit_variant_de_adjacent de dflt T vs i v deny tg ct Hne Hnd Hn Hd)]|].
  exact H4.

Qed.

Lemma c04_skip_none_roundtrip_lemma :
  forall (T : space) (ser : id -> rval -> option json) (de : id -> json -> option rval) (fuel : nat)
         (p : prop) (r : list prop) (fs : list (ustring * rval)) (kvs : list (ustring * json))
         (w : ustring) (t : id) xs,
    p_state p = POptional -> get_det T (p_ty p) = Some (DOption t) ->
    wire_name p = Some w ->
    assoc (p_name p) fs = Some ROptNone ->
    (* output: the member contributes nothing *)
    ser_fields T ser (p :: r) fs = ser_fields T ser r fs /\
    (* input: an object without the member restores None *)
    (assoc w kvs = None ->
     de_named T de (default_val T (S fuel)) r kvs = Some xs ->
     de_named T de (default_val T (S fuel)) (p :: r) kvs = Some ((p_name p, ROptNone) :: xs)).
Proof.
  intros T ser de fuel p r fs kvs w t xs Hs Hd Hw Ha. split.
  - apply (skip_none_ser T ser p r fs t Hs Hd); [|exact Ha].
    intros Hf. unfold wire_name in Hw. rewrite Hf in Hw. discriminate Hw.
  - intros Hk Hr.
    exact (skip_none_de T de (default_val T (S fuel)) p r kvs w t xs Hs Hd (default_val_option T fuel _ t Hd) Hw Hk Hr).

Qed.

(* ------------------------------------------------------------------ with C14's proven checker *)
Lemma same_wire_of_wire_equiv re_match native_ok T t T' t' :
  wire_equiv T t T' t' = true -> same_wire re_match native_ok T t T' t'.
Proof.
  intros H fuel j. unfold rt.
  destruct (wire_equiv_sound_fuel re_match native_ok T T' t t' H fuel) as [Hd [_ Hs]].
  rewrite Hd. destruct (de re_match native_ok T' fuel t' j) as [x|]; [apply Hs|reflexivity].
Qed.

Lemma c04_wire_compat_from_equiv_lemma :
  forall (re_match native_ok : ustring -> ustring -> bool)
         (U : universe) (t : id) (T' : space) (t' : id),
    wire_equiv (ir_of_rust U) t T' t' = true ->
    forall fuel x j,
      ser (ir_of_rust U) fuel t x = Some j ->
      de re_match native_ok (ir_of_rust U) fuel t j = Some x ->
      exists x', de re_match native_ok T' fuel t' j = Some x' /\
                 exists j', ser T' fuel t' x' = Some j' /\
                            de re_match native_ok (ir_of_rust U) fuel t j' = Some x.
Proof.
  intros re_match native_ok U t T' t' H.
  exact (wire_compat_of_same_wire re_match native_ok _ _ _ _ (same_wire_of_wire_equiv re_match native_ok _ _ _ _ H)).
Qed.
