(* C12 — proofs about Algo/HashOrder.v: every hash-ordered site is invariant
   under the choice of hasher (enumeration order); sorted maps erase insertion
   order; OutputSpace depends on insertion order only within one key. *)
From Coq Require Import List String Bool Arith Lia Permutation Sorted OrderedTypeEx.
From Typify Require Import Algo.HashOrder.
Import ListNotations.

(* ------------------------------------------------------------------ *)
(* generic list facts                                                   *)
(* ------------------------------------------------------------------ *)
Lemma existsb_perm {A} (f : A -> bool) l l' : Permutation l l' -> existsb f l = existsb f l'.
Proof.
  induction 1 as [|x l l' HP IH|x y l|l l' l'' H1 IH1 H2 IH2]; simpl; try congruence.
  destruct (f x), (f y); reflexivity.
Qed.

Lemma forallb_perm {A} (f : A -> bool) l l' : Permutation l l' -> forallb f l = forallb f l'.
Proof.
  induction 1 as [|x l l' HP IH|x y l|l l' l'' H1 IH1 H2 IH2]; simpl; try congruence.
  destruct (f x), (f y); reflexivity.
Qed.

Lemma forallb_ext' {A} (f g : A -> bool) l : (forall x, f x = g x) -> forallb f l = forallb g l.
Proof. intros E; induction l as [|a l IH]; simpl; [reflexivity|]. rewrite E, IH; reflexivity. Qed.

Lemma filter_perm {A} (f : A -> bool) l l' : Permutation l l' -> Permutation (filter f l) (filter f l').
Proof.
  induction 1 as [|x l l' HP IH|x y l|l l' l'' H1 IH1 H2 IH2]; simpl.
  - constructor.
  - destruct (f x); [constructor|]; assumption.
  - destruct (f x), (f y); try apply Permutation_refl. apply perm_swap.
  - eapply perm_trans; eassumption.
Qed.

Definition valid_place {A} (place : A -> list A -> list A) : Prop :=
  forall x s, Permutation (place x s) (x :: s).

Lemma place_front_valid {A} : valid_place (@place_front A).
Proof. intros x s; apply Permutation_refl. Qed.
Lemma place_back_valid {A} : valid_place (@place_back A).
Proof. intros x s; unfold place_back. apply Permutation_sym, Permutation_cons_append. Qed.

(* ------------------------------------------------------------------ *)
(* hash sets                                                            *)
(* ------------------------------------------------------------------ *)
Section HSetP.
  Variable A : Type.
  Variable eqb : A -> A -> bool.
  Hypothesis eqb_spec : forall x y, eqb x y = true <-> x = y.

  Lemma mem_perm x s s' : Permutation s s' -> mem A eqb x s = mem A eqb x s'.
  Proof. apply existsb_perm. Qed.

  Lemma mem_In x s : mem A eqb x s = true <-> In x s.
  Proof.
    unfold mem. rewrite existsb_exists. split.
    - intros [y [Hy He]]. apply eqb_spec in He. subst; assumption.
    - intros H. exists x. split; [assumption|]. apply eqb_spec; reflexivity.
  Qed.

  Lemma insert_perm p1 p2 x s1 s2 :
    valid_place p1 -> valid_place p2 -> Permutation s1 s2 ->
    fst (hs_insert A eqb p1 x s1) = fst (hs_insert A eqb p2 x s2) /\
    Permutation (snd (hs_insert A eqb p1 x s1)) (snd (hs_insert A eqb p2 x s2)).
  Proof.
    intros V1 V2 HP. unfold hs_insert. rewrite (mem_perm x s1 s2 HP).
    destruct (mem A eqb x s2); simpl; split; try reflexivity; try assumption.
    eapply perm_trans; [apply V1|]. eapply perm_trans; [|apply Permutation_sym, V2].
    constructor; assumption.
  Qed.

  (* util.rs unique(): the answer does not depend on the hasher *)
  Lemma all_insert_inv p1 p2 : valid_place p1 -> valid_place p2 ->
    forall items s1 s2, Permutation s1 s2 ->
      all_insert A eqb p1 items s1 = all_insert A eqb p2 items s2.
  Proof.
    intros V1 V2. induction items as [|x r IH]; intros s1 s2 HP; simpl; [reflexivity|].
    destruct (insert_perm p1 p2 x s1 s2 V1 V2 HP) as [Hf Hs].
    destruct (hs_insert A eqb p1 x s1) as [f1 t1], (hs_insert A eqb p2 x s2) as [f2 t2]; simpl in *.
    subst f2. destruct f1; [apply IH; assumption|reflexivity].
  Qed.

  Lemma unique_order_irrelevant p1 p2 items : valid_place p1 -> valid_place p2 ->
    unique A eqb p1 items = unique A eqb p2 items.
  Proof. intros V1 V2. unfold unique. apply all_insert_inv; auto. Qed.

  (* ... and it is the specification: no duplicates *)
  Lemma all_insert_spec p : valid_place p -> forall items s,
    all_insert A eqb p items s = true <-> (NoDup items /\ forall x, In x items -> ~ In x s).
  Proof.
    intros V. induction items as [|x r IH]; intros s; simpl.
    - split; [intros _; split; [constructor|intros ? []]|reflexivity].
    - unfold hs_insert. destruct (mem A eqb x s) eqn:M.
      + split; [discriminate|]. intros [_ H]. exfalso. apply (H x); [left; reflexivity|].
        apply mem_In; assumption.
      + assert (NI : ~ In x s) by (intro H; apply mem_In in H; congruence).
        rewrite IH. split.
        * intros [ND H]. split.
          -- constructor; [|assumption]. intro Hx. apply (H x Hx).
             apply (Permutation_in _ (Permutation_sym (V x s))). left; reflexivity.
          -- intros y [<-|Hy]; [assumption|]. intro Hs. apply (H y Hy).
             apply (Permutation_in _ (Permutation_sym (V x s))). right; assumption.
        * intros [ND H]. inversion ND as [|? ? Hnx ND']; subst. split; [assumption|].
          intros y Hy Hp. apply (Permutation_in _ (V x s)) in Hp. destruct Hp as [<-|Hp].
          -- contradiction.
          -- apply (H y); [right; assumption|assumption].
  Qed.

  Lemma unique_spec p items : valid_place p -> (unique A eqb p items = true <-> NoDup items).
  Proof.
    intros V. unfold unique. rewrite (all_insert_spec p V). split; [intros [H _]; exact H|].
    intros H; split; [exact H|]. intros x _ [].
  Qed.

  (* collect::<HashSet<_>>() : the two enumerations are permutations of each other *)
  Lemma collect_inv p1 p2 : valid_place p1 -> valid_place p2 ->
    forall items s1 s2, Permutation s1 s2 ->
      Permutation (fold_left (fun s x => snd (hs_insert A eqb p1 x s)) items s1)
                  (fold_left (fun s x => snd (hs_insert A eqb p2 x s)) items s2).
  Proof.
    intros V1 V2. induction items as [|x r IH]; intros s1 s2 HP; simpl; [assumption|].
    apply IH. apply (insert_perm p1 p2 x s1 s2 V1 V2 HP).
  Qed.

  Lemma collect_perm p1 p2 items : valid_place p1 -> valid_place p2 ->
    Permutation (hs_collect A eqb p1 items) (hs_collect A eqb p2 items).
  Proof. intros; unfold hs_collect; apply collect_inv; auto. Qed.

  (* enums.rs variant_names cardinality test *)
  Lemma variant_names_order_irrelevant p1 p2 names : valid_place p1 -> valid_place p2 ->
    variant_names_ok A eqb p1 names = variant_names_ok A eqb p2 names.
  Proof.
    intros V1 V2. unfold variant_names_ok.
    rewrite (Permutation_length (collect_perm p1 p2 names V1 V2)). reflexivity.
  Qed.

  (* is_subset: enumeration order of either set is irrelevant *)
  Lemma is_subset_perm a a' b b' : Permutation a a' -> Permutation b b' ->
    hs_is_subset A eqb a b = hs_is_subset A eqb a' b'.
  Proof.
    intros Ha Hb. unfold hs_is_subset.
    rewrite (Permutation_length Ha), (Permutation_length Hb).
    destruct (Nat.leb (List.length a') (List.length b')); [|reflexivity].
    rewrite (forallb_perm _ _ _ Ha). apply forallb_ext'. intros x. apply mem_perm; assumption.
  Qed.

  (* util.rs object_schemas_mutually_exclusive: four hashers, one answer *)
  Lemma fixed_props_exclusive_order_irrelevant pa pb pa' pb' xs ys :
    valid_place pa -> valid_place pb -> valid_place pa' -> valid_place pb' ->
    fixed_props_exclusive A eqb pa pb xs ys = fixed_props_exclusive A eqb pa' pb' xs ys.
  Proof.
    intros Va Vb Va' Vb'. unfold fixed_props_exclusive.
    rewrite (is_subset_perm _ _ _ _ (collect_perm pa pa' xs Va Va') (collect_perm pb pb' ys Vb Vb')).
    rewrite (is_subset_perm _ _ _ _ (collect_perm pb pb' ys Vb Vb') (collect_perm pa pa' xs Va Va')).
    reflexivity.
  Qed.
End HSetP.

(* ------------------------------------------------------------------ *)
(* hash map `counts` (panic message path)                               *)
(* ------------------------------------------------------------------ *)
Section HMapP.
  Variable K : Type.
  Variable eqb : K -> K -> bool.
  Hypothesis eqb_spec : forall x y, eqb x y = true <-> x = y.

  Lemma eqb_refl' x : eqb x x = true.
  Proof. apply eqb_spec; reflexivity. Qed.
  Lemma eqb_false x y : eqb x y = false <-> x <> y.
  Proof.
    split.
    - intros H E. apply eqb_spec in E. congruence.
    - intros H. destruct (eqb x y) eqn:E; [|reflexivity]. apply eqb_spec in E. contradiction.
  Qed.

  Lemma hm_get_Some_In k v m : hm_get K eqb k m = Some v -> In (k, v) m.
  Proof.
    induction m as [|[k' v'] r IH]; simpl; [discriminate|].
    destruct (eqb k k') eqn:E.
    - intros H; inversion H; subst. apply eqb_spec in E; subst. left; reflexivity.
    - intros H; right; apply IH; assumption.
  Qed.

  Lemma hm_get_In k v m : NoDup (map fst m) -> In (k, v) m -> hm_get K eqb k m = Some v.
  Proof.
    induction m as [|[k' v'] r IH]; simpl; [intros _ []|].
    intros ND [H|H].
    - inversion H; subst. rewrite eqb_refl'. reflexivity.
    - inversion ND as [|? ? Hn ND']; subst.
      destruct (eqb k k') eqn:E.
      + apply eqb_spec in E; subst. exfalso. apply Hn. apply (in_map fst) in H. exact H.
      + apply IH; assumption.
  Qed.

  Lemma hm_get_None_notin k m : hm_get K eqb k m = None -> ~ In k (map fst m).
  Proof.
    induction m as [|[k' v'] r IH]; simpl; [intros _ []|].
    destruct (eqb k k') eqn:E; [discriminate|].
    intros H [H1|H1]; [|apply IH; assumption].
    subst. rewrite eqb_refl' in E. discriminate.
  Qed.

  Lemma hm_get_perm k m m' : NoDup (map fst m) -> Permutation m m' ->
    hm_get K eqb k m = hm_get K eqb k m'.
  Proof.
    intros ND HP.
    assert (ND' : NoDup (map fst m')) by (eapply Permutation_NoDup; [apply Permutation_map; exact HP|exact ND]).
    destruct (hm_get K eqb k m) as [v|] eqn:E.
    - symmetry. apply hm_get_In; [assumption|]. apply (Permutation_in _ HP). apply hm_get_Some_In; assumption.
    - destruct (hm_get K eqb k m') as [v|] eqn:E'; [|reflexivity].
      apply hm_get_Some_In in E'. apply (Permutation_in _ (Permutation_sym HP)) in E'.
      rewrite (hm_get_In _ _ _ ND E') in E. discriminate.
  Qed.

  Lemma hm_modify_keys k f m : map fst (hm_modify K eqb k f m) = map fst m.
  Proof.
    induction m as [|[k' v'] r IH]; simpl; [reflexivity|].
    destruct (eqb k k'); simpl; [reflexivity|]. rewrite IH; reflexivity.
  Qed.

  Lemma hm_get_modify k0 k f m :
    hm_get K eqb k0 (hm_modify K eqb k f m) =
    if eqb k0 k then option_map f (hm_get K eqb k m) else hm_get K eqb k0 m.
  Proof.
    induction m as [|[k' v'] r IH]; simpl.
    - destruct (eqb k0 k); reflexivity.
    - destruct (eqb k k') eqn:E; simpl.
      + apply eqb_spec in E; subst k'. destruct (eqb k0 k); reflexivity.
      + rewrite IH. destruct (eqb k0 k') eqn:E0; [|reflexivity].
        apply eqb_spec in E0; subst k'.
        assert (E1 : eqb k0 k = false).
        { apply eqb_false. intro H; subst. rewrite eqb_refl' in E. discriminate. }
        rewrite E1. reflexivity.
  Qed.

  Definition validM (p : K * nat -> list (K * nat) -> list (K * nat)) : Prop :=
    forall e m, Permutation (p e m) (e :: m).

  (* what `counts` means, independently of any table layout *)
  Definition bump_spec (k : K) (spec : K -> option nat) (k0 : K) : option nat :=
    if eqb k0 k then (match spec k with Some c => Some (S c) | None => Some 0 end) else spec k0.

  Lemma hm_bump_inv p k m spec : validM p ->
    NoDup (map fst m) -> (forall k0, hm_get K eqb k0 m = spec k0) ->
    NoDup (map fst (hm_bump K eqb p k m)) /\
    (forall k0, hm_get K eqb k0 (hm_bump K eqb p k m) = bump_spec k spec k0).
  Proof.
    intros V ND HS. unfold hm_bump, bump_spec. destruct (hm_get K eqb k m) as [c|] eqn:E.
    - split; [rewrite hm_modify_keys; assumption|].
      intros k0. rewrite hm_get_modify. rewrite <- (HS k), E. simpl. rewrite <- HS. reflexivity.
    - assert (ND2 : NoDup (map fst ((k, 0) :: m))).
      { simpl. constructor; [apply hm_get_None_notin; assumption|assumption]. }
      assert (ND1 : NoDup (map fst (p (k, 0) m))).
      { eapply Permutation_NoDup; [apply Permutation_map, Permutation_sym, V|exact ND2]. }
      split; [exact ND1|]. intros k0.
      rewrite (hm_get_perm k0 _ _ ND1 (V (k, 0) m)). simpl.
      rewrite <- (HS k), E. destruct (eqb k0 k); [reflexivity|apply HS].
  Qed.

  Lemma counts_inv p : validM p -> forall idents m spec,
    NoDup (map fst m) -> (forall k0, hm_get K eqb k0 m = spec k0) ->
    forall k0, hm_get K eqb k0 (fold_left (fun m k => hm_bump K eqb p k m) idents m) =
               fold_left (fun sp k => bump_spec k sp) idents spec k0.
  Proof.
    intros V. induction idents as [|k r IH]; intros m spec ND HS k0; simpl; [apply HS|].
    destruct (hm_bump_inv p k m spec V ND HS) as [ND' HS'].
    apply IH; assumption.
  Qed.

  Lemma counts_get_order_irrelevant p1 p2 idents k0 : validM p1 -> validM p2 ->
    hm_get K eqb k0 (counts_of K eqb p1 idents) = hm_get K eqb k0 (counts_of K eqb p2 idents).
  Proof.
    intros V1 V2. unfold counts_of.
    rewrite (counts_inv p1 V1 idents [] (fun _ => None)); [|constructor|reflexivity].
    rewrite (counts_inv p2 V2 idents [] (fun _ => None)); [|constructor|reflexivity].
    reflexivity.
  Qed.

  Lemma dup_raw_names_order_irrelevant {R} p1 p2 (variants : list (K * R)) : validM p1 -> validM p2 ->
    dup_raw_names K eqb p1 variants = dup_raw_names K eqb p2 variants.
  Proof.
    intros V1 V2. unfold dup_raw_names. f_equal. apply filter_ext. intros v.
    rewrite (counts_get_order_irrelevant p1 p2 _ (fst v) V1 V2). reflexivity.
  Qed.
End HMapP.

(* ------------------------------------------------------------------ *)
(* macro impls                                                          *)
(* ------------------------------------------------------------------ *)
Lemma timpl_eqb_spec x y : timpl_eqb x y = true <-> x = y.
Proof. destruct x, y; simpl; split; intros H; try reflexivity; try discriminate. Qed.

Lemma macro_impls_hashset_perm p1 p2 mods : valid_place p1 -> valid_place p2 ->
  Permutation (macro_impls_hashset p1 mods) (macro_impls_hashset p2 mods).
Proof.
  intros V1 V2. unfold macro_impls_hashset.
  generalize (collect_perm timpl timpl_eqb p1 p2 [IFromStr; IDisplay] V1 V2).
  generalize (hs_collect timpl timpl_eqb p1 [IFromStr; IDisplay]).
  generalize (hs_collect timpl timpl_eqb p2 [IFromStr; IDisplay]).
  induction mods as [|[b i] r IH]; intros s2 s1 HP; simpl; [assumption|].
  apply IH. destruct b; simpl.
  - apply (insert_perm timpl timpl_eqb p1 p2 i s1 s2 V1 V2 HP).
  - unfold hs_remove. apply filter_perm; assumption.
Qed.

Lemma has_impl_hashset_order_irrelevant p1 p2 mods i : valid_place p1 -> valid_place p2 ->
  native_has_impl (macro_impls_hashset p1 mods) i = native_has_impl (macro_impls_hashset p2 mods) i.
Proof. intros V1 V2. unfold native_has_impl. apply mem_perm. apply macro_impls_hashset_perm; assumption. Qed.

Lemma perm_small {A} (v v' : list A) : Permutation v v' -> List.length v <= 1 -> v = v'.
Proof.
  intros HP HL. destruct v as [|x [|y r]]; simpl in HL.
  - apply Permutation_nil in HP. congruence.
  - apply Permutation_length_1_inv in HP. congruence.
  - lia.
Qed.

Lemma native_dedup_small n v v' e : Permutation v v' -> List.length v <= 1 ->
  native_eqb (n, v) e = native_eqb (n, v') e.
Proof. intros HP HL. rewrite (perm_small v v' HP HL). reflexivity. Qed.


(* the sorted-set code (fix 9ffca46): the Vec is determined by the SET *)
Lemma bs_insert_sorted x s : In s all_sorted_impls -> In (bs_insert x s) all_sorted_impls.
Proof.
  intros H. simpl in H. repeat (destruct H as [H|H]; [subst s; destruct x; vm_compute; tauto|]). destruct H.
Qed.

Lemma bs_remove_sorted x s : In s all_sorted_impls -> In (bs_remove x s) all_sorted_impls.
Proof.
  intros H. simpl in H. repeat (destruct H as [H|H]; [subst s; destruct x; vm_compute; tauto|]). destruct H.
Qed.

Lemma macro_impls_sorted mods : In (macro_impls mods) all_sorted_impls.
Proof.
  unfold macro_impls.
  assert (H0 : In (fold_left (fun s x => bs_insert x s) [IFromStr; IDisplay] []) all_sorted_impls)
    by (vm_compute; tauto).
  revert H0. generalize (fold_left (fun s x => bs_insert x s) [IFromStr; IDisplay] []).
  induction mods as [|[b i] r IH]; intros s H; simpl; [exact H|].
  apply IH. destruct b; simpl; [apply bs_insert_sorted|apply bs_remove_sorted]; exact H.
Qed.

Lemma sorted_impls_ext s s' : In s all_sorted_impls -> In s' all_sorted_impls ->
  (forall i, native_has_impl s i = native_has_impl s' i) -> s = s'.
Proof.
  intros H H' E.
  pose proof (E IFromStr) as E1. pose proof (E IDisplay) as E2. pose proof (E IDefault) as E3. clear E.
  simpl in H, H'.
  repeat (destruct H as [H|H]; [subst s|]); try (destruct H);
  repeat (destruct H' as [H'|H']; [subst s'|]); try (destruct H');
  vm_compute in E1, E2, E3; try reflexivity; try discriminate.
Qed.

Lemma macro_impls_set_determines_vec mods mods' :
  (forall i, native_has_impl (macro_impls mods) i = native_has_impl (macro_impls mods') i) ->
  macro_impls mods = macro_impls mods'.
Proof. intros E. apply sorted_impls_ext; [apply macro_impls_sorted|apply macro_impls_sorted|exact E]. Qed.

Lemma impls_eqb_refl v : impls_eqb v v = true.
Proof. induction v as [|x v IH]; simpl; [reflexivity|]. rewrite IH. destruct x; reflexivity. Qed.

Lemma macro_impls_dedup n mods mods' :
  (forall i, native_has_impl (macro_impls mods) i = native_has_impl (macro_impls mods') i) ->
  assign_natives [] [(n, macro_impls mods); (n, macro_impls mods')] = [0; 0].
Proof.
  intros E. rewrite (macro_impls_set_determines_vec mods mods' E).
  simpl. unfold native_eqb. simpl. rewrite String.eqb_refl, impls_eqb_refl. reflexivity.
Qed.

(* ------------------------------------------------------------------ *)
(* sorted maps                                                          *)
(* ------------------------------------------------------------------ *)
Section SMapP.
  Variable K : Type.
  Variable cmp : K -> K -> comparison.
  Hypothesis cmp_eq : forall a b, cmp a b = Eq <-> a = b.
  Hypothesis cmp_antisym : forall a b, cmp a b = CompOpp (cmp b a).
  Hypothesis cmp_trans : forall a b c, cmp a b = Lt -> cmp b c = Lt -> cmp a c = Lt.
  Variable V : Type.

  Definition keyeq (a b : K) : bool := match cmp a b with Eq => true | _ => false end.
  Definition klt (a b : K * V) : Prop := cmp (fst a) (fst b) = Lt.
  Definition ksorted (m : list (K * V)) : Prop := StronglySorted klt m.

  Lemma cmp_refl a : cmp a a = Eq.
  Proof. apply cmp_eq; reflexivity. Qed.
  Lemma cmp_gt_lt a b : cmp a b = Gt -> cmp b a = Lt.
  Proof. intros H. rewrite cmp_antisym, H. reflexivity. Qed.
  Lemma cmp_lt_gt a b : cmp a b = Lt -> cmp b a = Gt.
  Proof. intros H. rewrite cmp_antisym, H. reflexivity. Qed.

  Lemma get_lt_none k m : Forall (fun e => cmp k (fst e) = Lt) m -> sm_get K cmp V k m = None.
  Proof.
    induction 1 as [|[k' v'] r H _ IH]; simpl; [reflexivity|]. simpl in H. rewrite H. exact IH.
  Qed.

  Lemma upsert_in k f m e : In e (sm_upsert K cmp V k f m) ->
    fst e = k \/ exists e', In e' m /\ fst e' = fst e.
  Proof.
    induction m as [|[k' v'] r IH]; simpl.
    - intros [<-|[]]. left; reflexivity.
    - destruct (cmp k k') eqn:C; simpl.
      + intros [<-|H]; right; [exists (k', v'); simpl; auto|exists e; auto].
      + intros [<-|[<-|H]]; [left; reflexivity|right; exists (k', v'); auto|right; exists e; auto].
      + intros [<-|H]; [right; exists (k', v'); auto|].
        destruct (IH H) as [H1|[e' [H1 H2]]]; [left; assumption|right; exists e'; auto].
  Qed.

  Lemma upsert_sorted k f m : ksorted m -> ksorted (sm_upsert K cmp V k f m).
  Proof.
    induction m as [|[k' v'] r IH]; simpl; intros HS.
    - constructor; constructor.
    - inversion HS as [|? ? HS' HF]; subst. destruct (cmp k k') eqn:C.
      + constructor; [assumption|exact HF].
      + constructor; [assumption|]. constructor; [exact C|].
        rewrite Forall_forall in *. intros e He. unfold klt in *; simpl in *.
        eapply cmp_trans; [exact C|apply (HF e He)].
      + constructor; [apply IH; assumption|].
        rewrite Forall_forall in *. intros e He. unfold klt; simpl.
        destruct (upsert_in k f r e He) as [-> |[e' [H1 <-]]].
        * apply cmp_gt_lt; assumption.
        * apply (HF e' H1).
  Qed.

  Lemma upsert_get k0 k f m : ksorted m ->
    sm_get K cmp V k0 (sm_upsert K cmp V k f m) =
    if keyeq k0 k then Some (f (sm_get K cmp V k m)) else sm_get K cmp V k0 m.
  Proof.
    unfold keyeq. induction m as [|[k' v'] r IH]; simpl; intros HS.
    - destruct (cmp k0 k); reflexivity.
    - inversion HS as [|? ? HS' HF]; subst. destruct (cmp k k') eqn:C; simpl.
      + apply cmp_eq in C; subst k'. destruct (cmp k0 k); reflexivity.
      + assert (G : sm_get K cmp V k r = None).
        { apply get_lt_none. rewrite Forall_forall in *. intros e He.
          eapply cmp_trans; [exact C|apply (HF e He)]. }
        rewrite G. destruct (cmp k0 k); reflexivity.
      + rewrite (IH HS'). destruct (cmp k0 k') eqn:C0; try reflexivity.
        apply cmp_eq in C0; subst k'. rewrite (cmp_gt_lt _ _ C). reflexivity.
  Qed.

  (* two sorted maps with the same lookups are the same list *)
  Lemma sorted_ext m : ksorted m -> forall m', ksorted m' ->
    (forall k, sm_get K cmp V k m = sm_get K cmp V k m') -> m = m'.
  Proof.
    induction m as [|[k v] r IH]; intros HS m' HS' HG.
    - destruct m' as [|[k' v'] r']; [reflexivity|].
      specialize (HG k'). simpl in HG. rewrite cmp_refl in HG. discriminate.
    - destruct m' as [|[k' v'] r'].
      + specialize (HG k). simpl in HG. rewrite cmp_refl in HG. discriminate.
      + inversion HS as [|? ? HSr HF]; subst. inversion HS' as [|? ? HSr' HF']; subst.
        assert (Gr : forall x, cmp x k = Lt \/ x = k -> sm_get K cmp V x r = None).
        { intros x Hx. apply get_lt_none. rewrite Forall_forall in *. intros e He.
          destruct Hx as [Hx| ->]; [eapply cmp_trans; [exact Hx|]|]; apply (HF e He). }
        assert (Gr' : forall x, cmp x k' = Lt \/ x = k' -> sm_get K cmp V x r' = None).
        { intros x Hx. apply get_lt_none. rewrite Forall_forall in *. intros e He.
          destruct Hx as [Hx| ->]; [eapply cmp_trans; [exact Hx|]|]; apply (HF' e He). }
        destruct (cmp k k') eqn:C.
        * apply cmp_eq in C; subst k'.
          pose proof (HG k) as H0. simpl in H0. rewrite cmp_refl in H0. inversion H0; subst v'.
          f_equal. apply IH; try assumption. intros x.
          specialize (HG x). simpl in HG. destruct (cmp x k) eqn:Cx.
          -- apply cmp_eq in Cx; subst x. rewrite Gr, Gr'; auto.
          -- exact HG.
          -- exact HG.
        * exfalso. pose proof (HG k) as H0. simpl in H0. rewrite cmp_refl, C in H0.
          rewrite Gr' in H0; [discriminate|left; exact C].
        * exfalso. pose proof (HG k') as H0. simpl in H0. rewrite cmp_refl, (cmp_gt_lt _ _ C) in H0.
          rewrite Gr in H0; [discriminate|left; apply cmp_gt_lt; exact C].
  Qed.

  (* a sequence of upserts, and what a lookup sees afterwards *)
  Section Fold.
    Variable I : Type.
    Variable F : I -> K.
    Variable G : I -> option V -> V.
    Definition ups (m : list (K * V)) (it : I) := sm_upsert K cmp V (F it) (G it) m.
    Definition step (k : K) (o : option V) (it : I) : option V :=
      if keyeq k (F it) then Some (G it o) else o.

    Lemma fold_sorted its : forall m, ksorted m -> ksorted (fold_left ups its m).
    Proof. induction its as [|it r IH]; intros m HS; simpl; [assumption|]. apply IH, upsert_sorted, HS. Qed.

    Lemma fold_get its k : forall m, ksorted m ->
      sm_get K cmp V k (fold_left ups its m) = fold_left (step k) its (sm_get K cmp V k m).
    Proof.
      induction its as [|it r IH]; intros m HS; simpl; [reflexivity|].
      rewrite IH by (apply upsert_sorted; assumption). f_equal.
      unfold ups, step. rewrite upsert_get by assumption.
      destruct (keyeq k (F it)) eqn:E; [|reflexivity].
      unfold keyeq in E. destruct (cmp k (F it)) eqn:C; try discriminate.
      apply cmp_eq in C; subst k. reflexivity.
    Qed.

    (* only the items with key k matter, in their relative order *)
    Lemma step_filter its k : forall o,
      fold_left (step k) its o = fold_left (step k) (filter (fun it => keyeq k (F it)) its) o.
    Proof.
      induction its as [|it r IH]; intros o; simpl; [reflexivity|].
      unfold step at 2. destruct (keyeq k (F it)) eqn:E; simpl.
      - rewrite IH. unfold step at 3. rewrite E. reflexivity.
      - apply IH.
    Qed.

    Lemma fold_ext_filter its its' :
      (forall k, filter (fun it => keyeq k (F it)) its = filter (fun it => keyeq k (F it)) its') ->
      fold_left ups its [] = fold_left ups its' [].
    Proof.
      intros H. apply sorted_ext; try (apply fold_sorted; constructor).
      intros k. rewrite !fold_get by constructor.
      rewrite (step_filter its), (step_filter its'), H. reflexivity.
    Qed.

    (* distinct keys: every permutation gives the same lookups *)
    Lemma step_perm its its' k : Permutation its its' -> NoDup (map F its) ->
      forall o, fold_left (step k) its o = fold_left (step k) its' o.
    Proof.
      induction 1 as [|x l l' HP IH|x y l|l l' l'' H1 IH1 H2 IH2]; intros ND o; simpl.
      - reflexivity.
      - inversion ND; subst. apply IH; assumption.
      - f_equal. unfold step. destruct (keyeq k (F x)) eqn:Ex, (keyeq k (F y)) eqn:Ey; try reflexivity.
        exfalso. unfold keyeq in *. destruct (cmp k (F x)) eqn:Cx; try discriminate.
        destruct (cmp k (F y)) eqn:Cy; try discriminate.
        apply cmp_eq in Cx, Cy. simpl in ND. inversion ND as [|? ? Hn _]; subst.
        apply Hn. left. congruence.
      - rewrite IH1 by assumption. apply IH2.
        eapply Permutation_NoDup; [apply Permutation_map; exact H1|exact ND].
    Qed.

    Lemma fold_perm its its' : Permutation its its' -> NoDup (map F its) ->
      fold_left ups its [] = fold_left ups its' [].
    Proof.
      intros HP ND. apply sorted_ext; try (apply fold_sorted; constructor).
      intros k. rewrite !fold_get by constructor. apply step_perm; assumption.
    Qed.
  End Fold.

  Lemma sm_of_list_perm l l' : Permutation l l' -> NoDup (map fst l) ->
    sm_of_list K cmp V l = sm_of_list K cmp V l'.
  Proof.
    intros HP ND. unfold sm_of_list, sm_insert.
    apply (fold_perm (K * V) fst (fun kv _ => snd kv) l l' HP ND).
  Qed.

  Lemma sm_of_list_sorted l : ksorted (sm_of_list K cmp V l).
  Proof.
    unfold sm_of_list, sm_insert.
    apply (fold_sorted (K * V) fst (fun kv _ => snd kv) l []). constructor.
  Qed.
End SMapP.

(* ------------------------------------------------------------------ *)
(* instances: String (byte-lexicographic, as Rust's Ord for String) and OutputSpace keys *)
(* ------------------------------------------------------------------ *)
Lemma str_cmp_trans a b c : String.compare a b = Lt -> String.compare b c = Lt -> String.compare a c = Lt.
Proof.
  intros H1 H2. apply String_as_OT.cmp_lt. apply String_as_OT.cmp_lt in H1, H2.
  eapply String_as_OT.lt_trans; eassumption.
Qed.

Lemma str_cmp_eq a b : String.compare a b = Eq <-> a = b.
Proof. exact (String_as_OT.cmp_eq a b). Qed.
Lemma str_cmp_antisym a b : String.compare a b = CompOpp (String.compare b a).
Proof. exact (String_as_OT.cmp_antisym a b). Qed.

Lemma parse_obj_perm {V} (kvs kvs' : list (string * V)) :
  Permutation kvs kvs' -> NoDup (map fst kvs) -> parse_obj kvs = parse_obj kvs'.
Proof.
  intros HP ND. unfold parse_obj.
  apply (sm_of_list_perm string String.compare str_cmp_eq str_cmp_antisym str_cmp_trans V); assumption.
Qed.

Lemma settings_patch_perm {P} (e e' : list (string * P)) :
  Permutation e e' -> NoDup (map fst e) -> settings_patch e = settings_patch e'.
Proof. apply parse_obj_perm. Qed.

Lemma settings_crates_perm e e' :
  Permutation e e' -> NoDup (map (fun x => fst (crate_entry x)) e) -> settings_crates e = settings_crates e'.
Proof.
  intros HP ND. unfold settings_crates. apply parse_obj_perm.
  - apply Permutation_map; assumption.
  - rewrite map_map. exact ND.
Qed.

Lemma omod_cmp_eq a b : omod_cmp a b = Eq <-> a = b.
Proof. destruct a, b; simpl; split; intros H; try reflexivity; try discriminate. Qed.

Lemma okey_cmp_eq a b : okey_cmp a b = Eq <-> a = b.
Proof.
  destruct a as [ma sa], b as [mb sb]. unfold okey_cmp; simpl. split.
  - destruct (omod_cmp ma mb) eqn:C; try discriminate. apply omod_cmp_eq in C. subst.
    intros H. apply str_cmp_eq in H. subst; reflexivity.
  - intros H; inversion H; subst. rewrite (proj2 (omod_cmp_eq mb mb) eq_refl).
    apply str_cmp_eq; reflexivity.
Qed.

Lemma okey_cmp_antisym a b : okey_cmp a b = CompOpp (okey_cmp b a).
Proof.
  destruct a as [ma sa], b as [mb sb]. unfold okey_cmp; simpl.
  destruct ma, mb; simpl; try reflexivity; apply str_cmp_antisym.
Qed.

Lemma okey_cmp_trans a b c : okey_cmp a b = Lt -> okey_cmp b c = Lt -> okey_cmp a c = Lt.
Proof.
  destruct a as [ma sa], b as [mb sb], c as [mc sc]. unfold okey_cmp; simpl.
  destruct ma, mb, mc; simpl; try discriminate; try reflexivity; apply str_cmp_trans.
Qed.

Definition okeyeq := keyeq okey okey_cmp.

Section OutputP.
  Variable T : Type.
  Variable wrap : omod -> list T -> list T.

  (* insertion sequences that agree on every per-key subsequence give the same space *)
  Lemma add_items_same_key_order (l l' : list (okey * list T)) :
    (forall k, filter (fun it => okeyeq k (fst it)) l = filter (fun it => okeyeq k (fst it)) l') ->
    add_items T l = add_items T l'.
  Proof.
    intros H. unfold add_items, add_item.
    apply (fold_ext_filter okey okey_cmp okey_cmp_eq okey_cmp_antisym okey_cmp_trans (list T)
             (okey * list T) fst (fun it => extend_with T (snd it)) l l' H).
  Qed.

  Lemma render_same_key_order l l' :
    (forall k, filter (fun it => okeyeq k (fst it)) l = filter (fun it => okeyeq k (fst it)) l') ->
    render T wrap l = render T wrap l'.
  Proof. intros H. unfold render. rewrite (add_items_same_key_order l l' H). reflexivity. Qed.

  Lemma render_perm_distinct_keys l l' :
    Permutation l l' -> NoDup (map fst l) -> render T wrap l = render T wrap l'.
  Proof.
    intros HP ND. unfold render, add_items, add_item. f_equal.
    apply (fold_perm okey okey_cmp okey_cmp_eq okey_cmp_antisym okey_cmp_trans (list T)
             (okey * list T) fst (fun it => extend_with T (snd it)) l l' HP ND).
  Qed.

  Lemma add_items_sorted l : ksorted okey okey_cmp (list T) (add_items T l).
  Proof.
    unfold add_items, add_item.
    apply (fold_sorted okey okey_cmp okey_cmp_antisym okey_cmp_trans (list T)
             (okey * list T) fst (fun it => extend_with T (snd it)) l []). constructor.
  Qed.
End OutputP.

(* ------------------------------------------------------------------ *)
(* the FILLING stack (value.rs:402-462)                                 *)
(* ------------------------------------------------------------------ *)
Section FillingP.
  Variable T : Type.
  Variable key : Type.
  Variable key_eqb : key -> key -> bool.
  Variable body_of : key -> job T key.

  Notation frender' := (frender T key key_eqb body_of).

  (* push/pop strictly bracketed: whatever the outcome (ok, None, panic), the stack is as before *)
  Lemma frender_balanced : forall fuel st j r st',
    frender' fuel st j = Some (r, st') -> st' = st.
  Proof.
    induction fuel as [|f IH]; intros st j r st' H; simpl in H; [discriminate|].
    destruct j as [t| | |t kids|k fb].
    - inversion H; reflexivity.
    - inversion H; reflexivity.
    - inversion H; reflexivity.
    - revert st t H. induction kids as [|kd ks IHk]; intros st acc H.
      + inversion H; reflexivity.
      + destruct (frender' f st kd) as [[o st1]|] eqn:E; [|discriminate].
        pose proof (IH _ _ _ _ E) as ->.
        destruct o; try (inversion H; reflexivity).
        apply (IHk _ _ H).
    - destruct (fmem key key_eqb k st).
      + inversion H; reflexivity.
      + destruct (frender' f (k :: st) (body_of k)) as [[o st1]|] eqn:E; [|discriminate].
        pose proof (IH _ _ _ _ E) as ->. inversion H; reflexivity.
  Qed.

  (* consecutive renderings on one thread all start from the empty stack, so the i-th result is
     what a fresh thread / process computes, whatever was rendered (or panicked) before *)
  Lemma frender_seq_independent fuel : forall js,
    frender_seq T key key_eqb body_of fuel [] js =
    (map (fun j => option_map fst (frender' fuel [] j)) js, []).
  Proof.
    induction js as [|j r IH]; simpl; [reflexivity|].
    destruct (frender' fuel [] j) as [[o st1]|] eqn:E; simpl.
    - pose proof (frender_balanced _ _ _ _ _ E) as ->. rewrite IH. reflexivity.
    - rewrite IH. reflexivity.
  Qed.

  (* more fuel never changes an answer *)
  Lemma frender_mono : forall fuel st j x, frender' fuel st j = Some x -> frender' (S fuel) st j = Some x.
  Proof.
    induction fuel as [|f IH]; intros st j x H; [discriminate|].
    destruct j as [t| | |t kids|k fb]; try exact H.
    - change (frender' (S (S f)) st (JNode T key t kids)) with
        ((fix go (ks : list (job T key)) (st : list key) (acc : list T) {struct ks} :=
            match ks with
            | [] => Some (ROk T acc, st)
            | k :: r => match frender' (S f) st k with
                        | Some (ROk _ o, st1) => go r st1 (acc ++ o)
                        | other => other
                        end
            end) kids st t).
      simpl in H. revert st t H. induction kids as [|kd ks IHk]; intros st acc H; [exact H|].
      destruct (frender' f st kd) as [[o st1]|] eqn:E; [|discriminate].
      rewrite (IH _ _ _ E). destruct o; try exact H. apply IHk; exact H.
    - simpl in H. change (frender' (S (S f)) st (JFill T key k fb)) with
        (if fmem key key_eqb k st then Some (ROk T fb, st)
         else match frender' (S f) (k :: st) (body_of k) with
              | Some (r, st1) => Some (r, tl st1)
              | None => None
              end).
      destruct (fmem key key_eqb k st); [exact H|].
      destruct (frender' f (k :: st) (body_of k)) as [[o st1]|] eqn:E; [|discriminate].
      rewrite (IH _ _ _ E). exact H.
  Qed.
End FillingP.

(* the address component of the keys is only ever compared for equality: an injective renaming of
   the keys (another process, another TypeSpace holding the same content at other addresses)
   renders the same tokens *)
Section FillingRename.
  Variable T : Type.
  Variables key key' : Type.
  Variable key_eqb : key -> key -> bool.
  Variable key_eqb' : key' -> key' -> bool.
  Variable ren : key -> key'.
  Hypothesis ren_eqb : forall a b, key_eqb' (ren a) (ren b) = key_eqb a b.
  Variable body_of : key -> job T key.
  Variable body_of' : key' -> job T key'.
  Hypothesis body_ren : forall k, body_of' (ren k) = rename_job ren (body_of k).

  Lemma fmem_ren k st : fmem key' key_eqb' (ren k) (map ren st) = fmem key key_eqb k st.
  Proof.
    unfold fmem. induction st as [|a st IH]; simpl; [reflexivity|]. rewrite ren_eqb, IH. reflexivity.
  Qed.

  Lemma frender_rename : forall fuel st j,
    frender T key' key_eqb' body_of' fuel (map ren st) (rename_job ren j) =
    rename_result ren (frender T key key_eqb body_of fuel st j).
  Proof.
    induction fuel as [|f IH]; intros st j; [reflexivity|].
    destruct j as [t| | |t kids|k fb]; try reflexivity.
    - simpl. revert st t. induction kids as [|kd ks IHk]; intros st acc; [reflexivity|].
      simpl. rewrite IH.
      destruct (frender T key key_eqb body_of f st kd) as [[o st1]|]; simpl; [|reflexivity].
      destruct o; try reflexivity. apply IHk.
    - simpl. rewrite fmem_ren. destruct (fmem key key_eqb k st); [reflexivity|].
      rewrite body_ren. change (ren k :: map ren st) with (map ren (k :: st)). rewrite IH.
      destruct (frender T key key_eqb body_of f (k :: st) (body_of k)) as [[o st1]|]; simpl; [|reflexivity].
      destruct st1; reflexivity.
  Qed.
End FillingRename.

(* ------------------------------------------------------------------ *)
(* to_stream: arrival order of add_item calls = ascending type id        *)
(* ------------------------------------------------------------------ *)
Lemma nat_cmp_eq a b : Nat.compare a b = Eq <-> a = b.
Proof. apply Nat.compare_eq_iff. Qed.
Lemma nat_cmp_antisym a b : Nat.compare a b = CompOpp (Nat.compare b a).
Proof. apply Nat.compare_antisym. Qed.
Lemma nat_cmp_trans a b c : Nat.compare a b = Lt -> Nat.compare b c = Lt -> Nat.compare a c = Lt.
Proof. rewrite !Nat.compare_lt_iff. lia. Qed.

Lemma filter_flat_map {A B} (f : B -> bool) (g : A -> list B) l :
  filter f (flat_map g l) = flat_map (fun a => filter f (g a)) l.
Proof. induction l as [|a l IH]; simpl; [reflexivity|]. rewrite filter_app, IH. reflexivity. Qed.

Section ToStreamP.
  Variable T : Type.
  Variable wrap : omod -> list T -> list T.

  (* the emitted stream is a function of the id -> entry MAP: the history of inserts is irrelevant *)
  Lemma to_stream_history_irrelevant pre post (h h' : list (id_entry T)) :
    Permutation h h' -> NoDup (map fst h) -> to_stream T wrap pre post h = to_stream T wrap pre post h'.
  Proof.
    intros HP ND. unfold to_stream, id_table_of.
    rewrite (sm_of_list_perm nat Nat.compare nat_cmp_eq nat_cmp_antisym nat_cmp_trans _ h h' HP ND). reflexivity.
  Qed.

  (* within one OutputSpace key the arrival order is: error item, then each entry's items under that
     key in ASCENDING TYPE-ID order, then the shared defaults *)
  Lemma to_stream_arrival_order pre post (h : list (id_entry T)) (k : okey) :
    let f := fun it : okey * list T => okeyeq k (fst it) in
    filter f (to_stream_items T pre post (id_table_of T h)) =
      filter f pre ++ flat_map (fun e => filter f (snd e)) (id_table_of T h) ++ filter f post
    /\ StronglySorted (fun a b => Nat.compare (fst a) (fst b) = Lt) (id_table_of T h).
  Proof.
    split.
    - unfold to_stream_items. rewrite !filter_app, filter_flat_map. reflexivity.
    - apply (sm_of_list_sorted nat Nat.compare nat_cmp_antisym nat_cmp_trans).
  Qed.
End ToStreamP.
