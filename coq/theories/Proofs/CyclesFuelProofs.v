(* C07 — part 3: termination within the fuel bound and absence of panics on
   closed well-formed spaces (b). *)
From Coq Require Import NArith List Bool String Lia Relations.
From Typify Require Import Algo.Cycles Proofs.CyclesProofs.
Import ListNotations.
Open Scope N_scope.

(* unvisited slots *)
Fixpoint U (g : graph) (vis : list N) : nat :=
  match g with
  | [] => O
  | e :: r => ((if mem (fst e) vis then O else List.length (children (snd e))) + U r vis)%nat
  end.

Lemma slots_cons : forall e r, slots (e :: r) = (List.length (children (snd e)) + slots r)%nat.
Proof. reflexivity. Qed.

Lemma U_le_slots : forall g vis, (U g vis <= slots g)%nat.
Proof.
  induction g as [|e r IH]; intros vis; [cbn; lia|].
  rewrite slots_cons. cbn [U]. specialize (IH vis). destruct (mem (fst e) vis); lia.
Qed.

Lemma U_insert_le : forall g id vis, (U g (insert id vis) <= U g vis)%nat.
Proof.
  induction g as [|e r IH]; intros id vis; cbn [U]; [lia|].
  specialize (IH id vis).
  destruct (mem (fst e) vis) eqn:E1.
  - rewrite (proj2 (mem_insert id (fst e) vis)) by (right; assumption). lia.
  - destruct (mem (fst e) (insert id vis)); lia.
Qed.

Lemma U_insert : forall g id nd vis,
    lookup g id = Some nd -> mem id vis = false ->
    (U g (insert id vis) + List.length (children nd) <= U g vis)%nat.
Proof.
  induction g as [|[k nd0] r IH]; intros id nd vis Hl Hv; cbn [lookup] in Hl; [discriminate|].
  cbn [U fst snd]. destruct (N.eqb_spec id k) as [<-|Hne].
  - injection Hl as ->. rewrite Hv.
    rewrite (proj2 (mem_insert id id vis)) by (left; reflexivity).
    pose proof (U_insert_le r id vis). lia.
  - specialize (IH _ _ _ Hl Hv).
    assert (Hm : mem k (insert id vis) = mem k vis).
    { destruct (mem k vis) eqn:E.
      - apply mem_insert. right. assumption.
      - destruct (mem k (insert id vis)) eqn:E2; [|reflexivity].
        apply mem_insert in E2. destruct E2; congruence. }
    rewrite Hm. lia.
Qed.

Lemma U_set_box : forall g b t vis, (U (set g b (NBox t)) vis <= U g vis)%nat.
Proof.
  induction g as [|[k nd0] r IH]; intros b t vis; cbn [set U fst snd].
  - cbn [children List.length]. destruct (mem b vis); lia.
  - destruct (N.eqb_spec b k) as [->|Hne]; cbn [U fst snd children List.length].
    + destruct (mem k vis); lia.
    + specialize (IH b t vis). lia.
Qed.

Lemma U_set_vis : forall g id nd vis, mem id vis = true -> U (set g id nd) vis = U g vis.
Proof.
  induction g as [|[k nd0] r IH]; intros id nd vis Hv; cbn [set U fst snd].
  - rewrite Hv. reflexivity.
  - destruct (N.eqb_spec id k) as [->|Hne]; cbn [U fst snd].
    + rewrite Hv. reflexivity.
    + rewrite IH by assumption. reflexivity.
Qed.

Lemma slots_set_box : forall g b t, (slots (set g b (NBox t)) <= slots g)%nat.
Proof.
  induction g as [|[k nd0] r IH]; intros b t; cbn [set].
  - cbn. lia.
  - destruct (N.eqb_spec b k) as [->|Hne]; rewrite !slots_cons; cbn [snd children List.length].
    + lia.
    + specialize (IH b t). lia.
Qed.

Lemma slots_set_len : forall g id nd nd',
    lookup g id = Some nd -> List.length (children nd') = List.length (children nd) ->
    slots (set g id nd') = slots g.
Proof.
  induction g as [|[k nd0] r IH]; intros id nd nd' Hl Hlen; cbn [lookup] in Hl; [discriminate|].
  cbn [set]. destruct (N.eqb_spec id k) as [->|Hne]; rewrite !slots_cons; cbn [snd].
  - injection Hl as ->. lia.
  - rewrite (IH _ _ _ Hl Hlen). reflexivity.
Qed.

Lemma id_to_box_measure : forall s t s' b vis,
    id_to_box s t = (s', b) ->
    (U (sp_g s') vis <= U (sp_g s) vis)%nat /\ (slots (sp_g s') <= slots (sp_g s))%nat.
Proof.
  intros s t s' b vis H. unfold id_to_box in H.
  destruct (lookup (sp_bidx s) t); injection H as <- <-; cbn [sp_g].
  - lia.
  - split; [apply U_set_box|apply slots_set_box].
Qed.

Lemma make_replace_measure : forall snip s r s' repl vis,
    fold_left mr_step snip (s, r) = (s', repl) ->
    (U (sp_g s') vis <= U (sp_g s) vis)%nat /\ (slots (sp_g s') <= slots (sp_g s))%nat.
Proof.
  induction snip as [|t snip IH]; intros s r s' repl vis H; cbn [fold_left] in H.
  - injection H as <- <-. lia.
  - unfold mr_step at 2 in H. cbn [fst snd] in H.
    destruct (id_to_box s t) as [s1 b1] eqn:Eb.
    destruct (id_to_box_measure _ _ _ _ vis Eb).
    destruct (IH _ _ _ _ vis H). lia.
Qed.

(* potential *)
Definition cost (f : frame) : nat :=
  match f with Start _ => 2%nat | Processing _ p => (1 + 3 * List.length p)%nat end.

Fixpoint scost (st : list frame) : nat :=
  match st with [] => O | f :: r => (cost f + scost r)%nat end.

Definition Phi (d : dfs) : nat :=
  (3 * U (sp_g (d_sp d)) (d_visited d) + scost (d_stack d))%nat.

Definition closedg (g : graph) : Prop :=
  forall n c, In c (children_of g n) -> lookup g c <> None.

Definition frame_res (g : graph) (f : frame) : Prop :=
  lookup g (frame_id f) <> None /\
  match f with Processing _ p => forall c, In c p -> lookup g c <> None | Start _ => True end.

Definition PInv (d : dfs) : Prop :=
  closedg (sp_g (d_sp d)) /\ Forall (frame_res (sp_g (d_sp d))) (d_stack d).

Lemma frame_res_mono : forall g g' f,
    (forall n, lookup g n <> None -> lookup g' n <> None) -> frame_res g f -> frame_res g' f.
Proof.
  intros g g' f Hm [H1 H2]. split; [auto|]. destruct f; [exact I|]. intros c Hc. auto.
Qed.

Lemma step_pinv : forall root d d' rank bound,
    Inv root d rank bound -> PInv d -> step d = Next d' ->
    PInv d' /\ (Phi d' + 1 <= Phi d)%nat /\
    (slots (sp_g (d_sp d')) <= slots (sp_g (d_sp d)))%nat /\
    (forall n, lookup (sp_g (d_sp d)) n <> None -> lookup (sp_g (d_sp d')) n <> None).
Proof.
  intros root [s vis act st] d' rank bound HI [Hcl Hres] Hs.
  destruct HI as [Hwf _ Hact _ _ _ _ _]. cbn [d_sp d_visited d_active d_stack] in *.
  unfold step in Hs. cbn [d_sp d_visited d_active d_stack] in Hs.
  unfold Phi. cbn [d_sp d_visited d_active d_stack].
  destruct st as [|[id|id pend] rest]; [discriminate| |].
  - destruct (mem id vis) eqn:Ev.
    + destruct (mem id act) eqn:Ea; [|discriminate]. injection Hs as <-.
      cbn [d_sp d_visited d_active d_stack scost cost List.length].
      split; [|split; [lia|split; [lia|auto]]].
      split; [assumption|]. inversion Hres as [|f l Hf Hl]; subst.
      constructor; [|assumption]. destruct Hf as [Hf _]. split; [assumption|intros c []].
    + destruct (mem id act) eqn:Ea; cbn [negb] in Hs; [|discriminate].
      destruct (lookup (sp_g s) id) as [nd|] eqn:El; [|discriminate].
      destruct (partition (fun c => mem c act) (children nd)) as [snip descend] eqn:Ep.
      destruct (make_replace s snip) as [s1 repl] eqn:Em.
      destruct (start_step_spec _ _ _ _ _ _ _ _ Hwf El Ep Em)
        as [Hl1 [Hwf2 [Hext [Hneq [Hch [Hchid [Hsn [Hds [Hdesc Hsnip]]]]]]]]].
      rewrite Hl1 in Hs. injection Hs as <-.
      fold (start_space s1 id repl nd).
      set (s2 := start_space s1 id repl nd) in *.
      cbn [d_sp d_visited d_active d_stack scost cost].
      assert (Hmono : forall n, lookup (sp_g s) n <> None -> lookup (sp_g s2) n <> None).
      { intros n Hn. destruct (N.eq_dec n id) as [->|Hne].
        - unfold s2, start_space. cbn [sp_g]. rewrite lookup_set_eq. discriminate.
        - rewrite Hneq by assumption. destruct Hext as [A _]. rewrite A; assumption. }
      assert (Hlen := partition_length _ _ Ep).
      unfold make_replace in Em. change (fold_left mr_step snip (s, []) = (s1, repl)) in Em.
      destruct (make_replace_measure _ _ _ _ _ vis Em) as [HU1 _].
      destruct (make_replace_measure _ _ _ _ _ (insert id vis) Em) as [_ HS1].
      assert (HU2 : U (sp_g s2) (insert id vis) = U (sp_g s1) (insert id vis)).
      { unfold s2, start_space. cbn [sp_g]. apply U_set_vis. apply mem_insert. left. reflexivity. }
      pose proof (U_insert _ _ _ _ Hl1 Ev) as HU3.
      assert (HS2 : slots (sp_g s2) = slots (sp_g s1)).
      { unfold s2, start_space. cbn [sp_g]. apply (slots_set_len _ _ nd); [assumption|].
        rewrite children_map, map_length. reflexivity. }
      split; [|split; [|split; [lia|assumption]]].
      * split.
        -- intros n c Hc. change (In c (children_of (sp_g s2) n)) in Hc.
           change (lookup (sp_g s2) c <> None).
           destruct (N.eq_dec n id) as [->|Hne].
           ++ rewrite Hchid in Hc. apply in_map_iff in Hc. destruct Hc as [c0 [<- Hc0]].
              destruct (mem c0 act) eqn:Eca.
              ** rewrite (Hsn c0 Hc0 Eca). discriminate.
              ** rewrite (Hds c0 Eca). apply Hmono. apply (Hcl id).
                 unfold children_of. rewrite El. assumption.
           ++ rewrite Hch in Hc by assumption. apply Hmono. apply (Hcl n). assumption.
        -- inversion Hres as [|f l Hf Hl]; subst. constructor.
           ++ split; [apply Hmono; apply Hf|]. intros c Hc. apply in_rev in Hc.
              apply Hdesc in Hc. destruct Hc as [Hc _]. apply Hmono. apply (Hcl id).
              unfold children_of. rewrite El. assumption.
           ++ eapply Forall_impl; [|exact Hl]. intros f. apply frame_res_mono. assumption.
      * rewrite rev_length. rewrite HU2.
        assert (Hd : (List.length descend <= List.length (children nd))%nat) by lia.
        lia.
  - destruct pend as [|c pend'].
    + injection Hs as <-. cbn [d_sp d_visited d_active d_stack scost cost List.length].
      split; [|split; [lia|split; [lia|auto]]].
      split; [assumption|]. inversion Hres; assumption.
    + injection Hs as <-. cbn [d_sp d_visited d_active d_stack scost cost List.length].
      split; [|split; [lia|split; [lia|auto]]].
      split; [assumption|]. inversion Hres as [|f l Hf Hl]; subst. destruct Hf as [Hf1 Hf2].
      constructor; [|constructor; [|assumption]].
      * split; [|exact I]. cbn [frame_id]. apply Hf2. left. reflexivity.
      * split; [assumption|]. intros c0 Hc0. apply Hf2. right. assumption.
Qed.

Lemma step_nofail : forall root d rank bound m,
    Inv root d rank bound -> PInv d -> step d <> Fail m.
Proof.
  intros root [s vis act st] rank bound m HI [Hcl Hres] Hs.
  destruct HI as [Hwf _ Hact _ _ _ _ _]. cbn [d_sp d_visited d_active d_stack] in *.
  unfold step in Hs. cbn [d_sp d_visited d_active d_stack] in Hs.
  destruct st as [|[id|id pend] rest]; [discriminate| |].
  - assert (Ea : mem id act = true) by (apply Hact; left; reflexivity).
    rewrite Ea in Hs. cbn [negb] in Hs.
    destruct (mem id vis); [discriminate|].
    inversion Hres as [|f l [Hf _] Hl]; subst. cbn [frame_id] in Hf.
    destruct (lookup (sp_g s) id) as [nd|] eqn:El; [|congruence].
    destruct (partition (fun c => mem c act) (children nd)) as [snip descend] eqn:Ep.
    destruct (make_replace s snip) as [s1 repl] eqn:Em.
    destruct (start_step_spec _ _ _ _ _ _ _ _ Hwf El Ep Em) as [Hl1 _].
    rewrite Hl1 in Hs. discriminate.
  - destruct pend; discriminate.
Qed.

Lemma run_total : forall fuel root d rank bound,
    Inv root d rank bound -> PInv d -> (Phi d < fuel)%nat ->
    exists d', run fuel d = Done d' /\
               closedg (sp_g (d_sp d')) /\
               (slots (sp_g (d_sp d')) <= slots (sp_g (d_sp d)))%nat /\
               (forall n, lookup (sp_g (d_sp d)) n <> None -> lookup (sp_g (d_sp d')) n <> None).
Proof.
  induction fuel as [|f IH]; intros root d rank bound HI HP Hphi; [lia|].
  cbn [run]. destruct (step d) as [|d1|m] eqn:Es.
  - exists d. split; [reflexivity|]. split; [apply HP|]. split; [lia|auto].
  - destruct (step_inv _ _ _ _ _ HI Es) as [rank1 [bound1 [HI1 _]]].
    destruct (step_pinv _ _ _ _ _ HI HP Es) as [HP1 [Hphi1 [Hs1 Hm1]]].
    destruct (IH _ _ _ _ HI1 HP1) as [d' [Hr [Hc [Hs2 Hm2]]]]; [lia|].
    exists d'. split; [assumption|]. split; [assumption|]. split; [lia|auto].
  - exfalso. exact (step_nofail _ _ _ _ _ HI HP Es).
Qed.

Lemma outer_total : forall fuel roots s vis rank bound,
    OInv s vis rank bound -> closedg (sp_g s) ->
    (forall r, In r roots -> lookup (sp_g s) r <> None) ->
    (3 * slots (sp_g s) + 2 < fuel)%nat ->
    exists s' vis', outer fuel roots s vis = Done (s', vis').
Proof.
  intros fuel roots. induction roots as [|r rs IH]; intros s vis rank bound HO Hcl Hroots Hfuel; cbn [outer].
  - eauto.
  - destruct (mem r vis) eqn:Er.
    + apply (IH _ _ _ _ HO Hcl); [|assumption]. intros x Hx. apply Hroots. right. assumption.
    + destruct HO as [Hwf [Hbv [Hbc Hv]]].
      assert (HI : Inv r (mkDfs s vis (insert r []) [Start r]) rank bound).
      { constructor; cbn [d_sp d_visited d_active d_stack ids map frame_id]; try assumption.
        - constructor; [intros []|constructor].
        - intros x. rewrite mem_insert. cbn [mem In]. intuition congruence.
        - intros n Hn. left. apply Hv. assumption.
        - cbn [frames_ok]. auto.
        - right. reflexivity. }
      assert (HP : PInv (mkDfs s vis (insert r []) [Start r])).
      { split; [assumption|]. cbn [d_sp d_stack]. constructor; [|constructor].
        split; [|exact I]. apply Hroots. left. reflexivity. }
      assert (Hphi : (Phi (mkDfs s vis (insert r []) [Start r]) < fuel)%nat).
      { unfold Phi. cbn [d_sp d_visited d_stack scost cost].
        pose proof (U_le_slots (sp_g s) vis). lia. }
      destruct (run_total _ _ _ _ _ HI HP Hphi) as [d [Hr [Hcl' [Hsl Hm]]]].
      rewrite Hr.
      destruct (run_inv _ _ _ _ _ _ HI Hr) as [rank1 [bound1 [HI1 [Hst _]]]].
      destruct HI1 as [Hwf1 _ _ Hbv1 Hbc1 Hvis1 _ _].
      assert (HO1 : OInv (d_sp d) (d_visited d) rank1 bound1).
      { split; [assumption|]. split; [assumption|]. split; [assumption|].
        intros n Hn. destruct (Hvis1 n Hn) as [H1|[p H1]]; [assumption|].
        rewrite Hst in H1. destruct H1. }
      cbn [d_sp] in *.
      apply (IH _ _ _ _ HO1 Hcl'); [|lia].
      intros x Hx. apply Hm. apply Hroots. right. assumption.
Qed.

Definition closed (s : space) (lo hi : N) : Prop :=
  closedg (sp_g s) /\ forall r, lo <= r < hi -> lookup (sp_g s) r <> None.

(* (b): with fuel_bound (or more) the run neither runs out of fuel nor panics *)
Theorem break_cycles_total : forall fuel s lo hi,
    wf s -> closed s lo hi -> (fuel_bound s <= fuel)%nat ->
    exists s', break_cycles fuel s lo hi = Done s'.
Proof.
  intros fuel s lo hi Hwf [Hcl Hr] Hfuel. unfold break_cycles.
  assert (HO : OInv s [] (fun _ => None) 0%nat).
  { split; [assumption|]. split; [discriminate|]. split; [discriminate|]. discriminate. }
  destruct (outer_total fuel (range lo hi) s [] _ _ HO Hcl) as [s' [vis' H]].
  - intros r Hin. apply Hr. apply range_In. assumption.
  - unfold fuel_bound in Hfuel. lia.
  - rewrite H. eauto.
Qed.

(* ---------------- boolean checkers for the hypotheses (evaluated by the check) *)

Lemma wf_check_sound : forall s, bidx_ok_b s && fresh_b s = true -> wf s.
Proof.
  intros s H. apply andb_prop in H. destruct H as [Hb Hf]. split.
  - intros t b Hl. unfold bidx_ok_b in Hb. rewrite forallb_forall in Hb.
    specialize (Hb _ (lookup_Some_In _ _ _ _ Hl)). cbn [fst] in Hb. rewrite Hl in Hb.
    destruct (lookup (sp_g s) b) as [[ | | | | | |t'| | | | | ]|]; try discriminate.
    apply N.eqb_eq in Hb. subst t'. reflexivity.
  - intros n Hn. unfold fresh_b in Hf. rewrite forallb_forall in Hf.
    destruct (lookup (sp_g s) n) as [nd|] eqn:El; [|congruence].
    specialize (Hf _ (lookup_Some_In _ _ _ _ El)). cbn [fst] in Hf.
    apply N.ltb_lt. assumption.
Qed.

Lemma closed_check_sound : forall s lo hi, closed_b s lo hi = true -> closed s lo hi.
Proof.
  intros s lo hi H. unfold closed_b in H. apply andb_prop in H. destruct H as [Hc Hr]. split.
  - intros n c Hc0. unfold children_of in Hc0.
    destruct (lookup (sp_g s) n) as [nd|] eqn:El; [|destruct Hc0].
    rewrite forallb_forall in Hc. specialize (Hc _ (lookup_Some_In _ _ _ _ El)). cbn [snd] in Hc.
    rewrite forallb_forall in Hc. specialize (Hc _ Hc0).
    destruct (lookup (sp_g s) c); [discriminate|discriminate Hc].
  - intros r Hr0. rewrite forallb_forall in Hr. apply range_In in Hr0. specialize (Hr _ Hr0).
    destruct (lookup (sp_g s) r); [discriminate|discriminate Hr].
Qed.
