(* Proofs/RustStaticProofs.v - lemmas about Algo/RustStatic.v (C01).
   Soundness of every boolean sub-checker w.r.t. its Prop, the composition theorem
   (wf_module follows from the parts established by the sibling properties), links to the
   sibling theorems (C06, C07, C08, C19 are cited through their Props files), witnesses that
   every conjunct can fail, and a non-vacuity example. *)
From Coq Require Import String Ascii ZArith NArith Arith PeanoNat Lia List Bool Relations.
From Typify Require Import Base.Json IR.TypeIR Algo.Heck Algo.HasImpl Algo.RustStatic.
From Typify Require Algo.Sanitize Algo.Cycles Algo.Defaults Algo.Value Algo.Emit Algo.SettingsModel.
From Typify Require Proofs.EmitProofs Proofs.SanitizeProofs Proofs.CyclesProofs Proofs.CyclesSpecProofs.
From Typify Require Props.C06 Props.C07 Props.C08 Props.C19.
Import ListNotations.
Open Scope N_scope.

(* ------------------------------------------------------------------ lists of ustrings *)
Lemma nodup_u_NoDup : forall l, nodup_u l = true <-> NoDup l.
Proof.
  induction l as [|a l IH]; simpl; split; intro H.
  - constructor.
  - reflexivity.
  - apply andb_true_iff in H as [H1 H2]. constructor.
    + intro Hin. apply EmitProofs.mem_ustr_In in Hin. rewrite Hin in H1. discriminate H1.
    + apply IH. exact H2.
  - inversion H as [|x l' Hn Hd]; subst. apply andb_true_iff. split.
    + destruct (mem_ustr a l) eqn:E; [|reflexivity].
      apply EmitProofs.mem_ustr_In in E. contradiction.
    + apply IH. exact Hd.
Qed.

Lemma filter_negb_nil : forall {A} (f : A -> bool) l,
  filter (fun x => negb (f x)) l = [] <-> forallb f l = true.
Proof.
  intros A f l. induction l as [|a l IH]; simpl.
  - split; reflexivity.
  - destruct (f a); simpl.
    + exact IH.
    + split; intro H; discriminate H.
Qed.

(* ------------------------------------------------------------------ (a) items *)
Lemma items_unique_sound : forall T, items_unique T = true <-> NoDup (item_names T).
Proof. intro T. unfold items_unique. apply nodup_u_NoDup. Qed.

Lemma modnames_free_sound : forall T, modnames_free T = true ->
  forall n, In n (item_names T) -> ~ In n (module_names T).
Proof.
  intros T H n Hn Hm. unfold modnames_free in H. rewrite forallb_forall in H.
  specialize (H n Hn). apply EmitProofs.mem_ustr_In in Hm. rewrite Hm in H. discriminate H.
Qed.

Lemma defaultfns_unique_sound : forall cls T,
  defaultfns_unique cls T = true <-> NoDup (default_fn_names cls T).
Proof. intros. unfold defaultfns_unique. apply nodup_u_NoDup. Qed.

(* ------------------------------------------------------------------ (b) members *)
Definition Fields_unique (T : space) : Prop :=
  forall d, In d (named_dets T) -> forall np, In np (props_of_det d) -> NoDup (map p_name (snd np)).

Definition Variants_unique (T : space) : Prop :=
  forall n df tag vs deny bes, In (DEnum n df tag vs deny bes) (named_dets T) -> NoDup (map v_ident vs).

Lemma fields_unique_sound : forall T, fields_unique T = true <-> Fields_unique T.
Proof.
  intro T. unfold fields_unique, Fields_unique, fields_unique_det. split.
  - intros H d Hd np Hnp. rewrite forallb_forall in H. specialize (H d Hd).
    rewrite forallb_forall in H. apply nodup_u_NoDup. exact (H np Hnp).
  - intro H. apply forallb_forall. intros d Hd. apply forallb_forall. intros np Hnp.
    apply nodup_u_NoDup. exact (H d Hd np Hnp).
Qed.

Lemma variants_unique_sound : forall T, variants_unique T = true <-> Variants_unique T.
Proof.
  intro T. unfold variants_unique, Variants_unique. split.
  - intros H n df tag vs deny bes Hd. rewrite forallb_forall in H. specialize (H _ Hd).
    simpl in H. apply nodup_u_NoDup. exact H.
  - intro H. apply forallb_forall. intros d Hd. destruct d; simpl; try reflexivity.
    apply nodup_u_NoDup. eapply H. exact Hd.
Qed.

(* ------------------------------------------------------------------ (d) identifiers *)
Lemma idents_valid_sound : forall cls T,
  idents_valid cls T = true <-> (forall x, In x (all_idents T) -> Sanitize.syn_ident_ok cls x = true).
Proof. intros. unfold idents_valid. apply forallb_forall. Qed.

(* every identifier typify makes with `sanitize` is accepted (C08) *)
Lemma idents_valid_from_C08 : forall cls, SanitizeProofs.ClassesOK cls -> forall T,
  (forall x, In x (all_idents T) -> exists s c, x = Sanitize.sanitize cls s c) ->
  idents_valid cls T = true.
Proof.
  intros cls Hok T H. apply idents_valid_sound. intros x Hx.
  destruct (H x Hx) as [s [c ->]]. apply C08.C08_sanitize_accepted. exact Hok.
Qed.

(* variant identifiers computed by type_entry.rs:251-287 are pairwise distinct (C08) *)
Lemma variants_unique_from_C08 : forall cls, SanitizeProofs.ClassesOK cls ->
  forall raws ids, Sanitize.variant_idents cls raws = Sanitize.Ok ids ->
  forall n df tag vs deny bes, map v_ident vs = ids ->
  variants_unique_det (DEnum n df tag vs deny bes) = true.
Proof.
  intros cls Hok raws ids Hv n df tag vs deny bes Hm. simpl. apply nodup_u_NoDup. rewrite Hm.
  exact (proj1 (C08.C08_variants_distinct_or_fail cls Hok raws ids Hv)).
Qed.

(* field identifiers computed by structs.rs struct_members are pairwise distinct (C08, fix 5896b59) *)
Lemma fields_unique_from_C08 : forall cls, SanitizeProofs.ClassesOK cls ->
  forall props ta fs fl, Sanitize.struct_members cls props ta = Sanitize.Ok (fs, fl) ->
  forall n df ps deny, map p_name ps = (map fst fs ++ fl)%list ->
  fields_unique_det (DStruct n df ps deny) = true.
Proof.
  intros cls Hok props ta fs fl Hm n df ps deny Hp. unfold fields_unique_det. simpl.
  rewrite andb_true_r. apply nodup_u_NoDup. rewrite Hp.
  exact (proj1 (C08.C08_fields_distinct_or_err cls Hok props ta fs fl Hm)).
Qed.

(* ------------------------------------------------------------------ render_ok *)
Lemma untagged_simple_sound : forall T, untagged_simple_ok T = true ->
  forall n df vs deny bes, In (DEnum n df TagUntagged vs deny bes) (named_dets T) ->
  (count_simple vs <= 1)%nat.
Proof.
  intros T H n df vs deny bes Hd. unfold untagged_simple_ok in H. rewrite forallb_forall in H.
  specialize (H _ Hd). simpl in H. apply Nat.leb_le. exact H.
Qed.

(* ------------------------------------------------------------------ (c) coherence *)
Lemma from_variants_coherent_sound : forall T, from_variants_coherent T = true ->
  forall n df tag vs deny bes, In (DEnum n df tag vs deny bes) (named_dets T) ->
  NoDup (map (from_type_text T (fuel_of T)) (from_variants T vs)) /\
  ~ In n (map (from_type_text T (fuel_of T)) (from_variants T vs)).
Proof.
  intros T H n df tag vs deny bes Hd. unfold from_variants_coherent in H. rewrite forallb_forall in H.
  specialize (H _ Hd). simpl in H. apply andb_true_iff in H as [H1 H2]. split.
  - apply nodup_u_NoDup. exact H1.
  - intro Hin. apply EmitProofs.mem_ustr_In in Hin. rewrite Hin in H2. discriminate H2.
Qed.

(* the variants that get a From impl have a key that no other variant has *)
Lemma from_variants_key_once : forall T vs v, In v (from_variants T vs) ->
  In v vs /\ exists k, from_key v = Some k /\ key_count k vs = 1%nat.
Proof.
  intros T vs v H. unfold from_variants in H. apply filter_In in H as [Hin Hf]. split; [exact Hin|].
  destruct (from_key v) as [k|] eqn:E; [|discriminate Hf].
  exists k. split; [reflexivity|]. apply andb_true_iff in Hf as [Hc _]. apply Nat.eqb_eq. exact Hc.
Qed.

(* the body as it was before fix d9b019c: well typed only without one-element tuple variants *)
Lemma from_tuple1_prefix_sound : forall T, from_tuple1_ok_cfg false T = true ->
  forall n df tag vs deny bes, In (DEnum n df tag vs deny bes) (named_dets T) ->
  forall v t, In v (from_variants T vs) -> v_det v <> VTuple [t].
Proof.
  intros T H n df tag vs deny bes Hd v t Hv Heq. unfold from_tuple1_ok_cfg in H. rewrite forallb_forall in H.
  specialize (H _ Hd). simpl in H. rewrite forallb_forall in H. specialize (H v Hv).
  rewrite Heq in H. discriminate H.
Qed.

Lemma fty_eqb_refl : forall a, fty_eqb a a = true.
Proof. intros [x|x]; simpl; apply N.eqb_refl. Qed.

Lemma ftys_eqb_refl : forall l, ftys_eqb l l = true.
Proof. induction l as [|a l IH]; simpl; [reflexivity|]. rewrite fty_eqb_refl. exact IH. Qed.

(* the body since fix d9b019c: the arguments are the declared fields, for every arity and every space *)
Lemma from_body_fixed_matches : forall ts, from_body_args true ts = declared_fields ts.
Proof. intros [|a [|b r]]; reflexivity. Qed.

Lemma from_tuple1_fixed : forall T, from_tuple1_ok T = true.
Proof.
  intro T. unfold from_tuple1_ok, from_tuple1_ok_cfg, from_body_fixed. apply forallb_forall. intros d _.
  destruct d; simpl; try reflexivity. apply forallb_forall. intros v _.
  destruct (v_det v); try reflexivity. rewrite from_body_fixed_matches. apply ftys_eqb_refl.
Qed.

Lemma deref_acyclic_sound : forall T, deref_acyclic T = true ->
  forall n, ~ CyclesProofs.cyclic (deref_graph T) n.
Proof. intros T H. apply C07.C07_acyclic_check_sound. exact H. Qed.

Lemma tryfrom_string_sound : forall T, tryfrom_string_ok T = true ->
  forall n df inner nm impls ps, In (DNewtype n df inner CNone) (named_dets T) ->
  get_det T inner = Some (DNative nm impls ps) ->
  string_like_native nm = true -> mem_trait TFromStr impls = false.
Proof.
  intros T H n df inner nm impls ps Hd Hg Hs. unfold tryfrom_string_ok in H. rewrite forallb_forall in H.
  specialize (H _ Hd). simpl in H. rewrite Hg in H. rewrite Hs in H. simpl in H.
  destruct (mem_trait TFromStr impls); [discriminate H|reflexivity].
Qed.

Lemma NoDup_filter : forall {A} (f : A -> bool) l, NoDup l -> NoDup (filter f l).
Proof.
  intros A f l H. induction H as [|a l Hn Hd IH]; simpl.
  - constructor.
  - destruct (f a); [|exact IH]. constructor; [|exact IH].
    intro Hin. apply filter_In in Hin. apply Hn. exact (proj1 Hin).
Qed.

(* TryFrom<&str> / TryFrom<String> / FromStr / Display / Default: emission is a function of
   (entry, trait), so each family is emitted at most once per type *)
Lemma bespoke_once : forall T d, NoDup (bespoke_impls T d).
Proof.
  intros T d. unfold bespoke_impls. apply NoDup_filter.
  constructor; [simpl; intros [H|[H|[]]]; discriminate H|].
  constructor; [simpl; intros [H|[]]; discriminate H|].
  constructor; [simpl; tauto|constructor].
Qed.

(* ------------------------------------------------------------------ (f) containment *)
Lemma contain_acyclic_sound : forall T, contain_acyclic T = true ->
  forall n, ~ CyclesSpecProofs.spec_cyclic (graph_of_space T) n.
Proof. intros T H. apply C07.C07_spec_acyclic_check_sound. exact H. Qed.

(* ------------------------------------------------------------------ (g) serde rules *)
Lemma serde_rules_sound : forall T, serde_rules_ok T = true ->
  (forall n df t c vs deny bes, In (DEnum n df (TagAdjacent t c) vs deny bes) (named_dets T) -> t <> c) /\
  (forall n df t vs deny bes, In (DEnum n df (TagInternal t) vs deny bes) (named_dets T) ->
     forall v, In v vs ->
       (forall ts, v_det v <> VTuple ts) /\
       (forall ps p, v_det v = VStruct ps -> In p ps -> wire_name p <> Some t)) /\
  (forall n df ps, In (DStruct n df ps true) (named_dets T) -> forall p, In p ps -> p_rename p <> RFlatten).
Proof.
  intros T H. unfold serde_rules_ok in H. rewrite forallb_forall in H. repeat split.
  - intros n df t c vs deny bes Hd Heq. specialize (H _ Hd). simpl in H. subst c.
    rewrite EmitProofs.ustr_eqb_refl in H. discriminate H.
  - intros ts Hv. specialize (H _ H0). simpl in H. rewrite forallb_forall in H. specialize (H v H1).
    rewrite Hv in H. discriminate H.
  - intros ps p Hv Hp Hw. specialize (H _ H0). simpl in H. rewrite forallb_forall in H. specialize (H v H1).
    rewrite Hv in H. apply negb_true_iff in H.
    assert (existsb (prop_wire_is t) ps = true) as Hex.
    { apply existsb_exists. exists p. split; [exact Hp|]. unfold prop_wire_is. rewrite Hw.
      apply EmitProofs.ustr_eqb_refl. }
    rewrite Hex in H. discriminate H.
  - intros n df ps Hd p Hp Hr. specialize (H _ Hd). simpl in H. apply negb_true_iff in H.
    assert (existsb is_flatten ps = true) as Hex.
    { apply existsb_exists. exists p. split; [exact Hp|]. unfold is_flatten. rewrite Hr. reflexivity. }
    rewrite Hex in H. discriminate H.
Qed.

Lemma serde_default_sound : forall T, serde_default_ok T = true ->
  forall d, In d (named_dets T) -> forall np, In np (props_of_det d) -> forall p, In p (snd np) ->
  p_state p = POptional -> implements current T (fuel_of T) (p_ty p) TDefault = true.
Proof.
  intros T H d Hd np Hnp p Hp Hs. unfold serde_default_ok in H. rewrite forallb_forall in H.
  specialize (H d Hd). unfold serde_default_det in H. rewrite forallb_forall in H. specialize (H np Hnp).
  rewrite forallb_forall in H. specialize (H p Hp). rewrite Hs in H. exact H.
Qed.

(* ---- skip_serializing_if path vs field type ---- *)
Lemma skip_path_sound : forall T, skip_path_ok T = true ->
  forall d, In d (named_dets T) -> forall np, In np (props_of_det d) -> forall p, In p (snd np) ->
  skip_path_prop_ok T p = true.
Proof.
  intros T H d Hd np Hnp p Hp. unfold skip_path_ok in H. rewrite forallb_forall in H. specialize (H d Hd).
  rewrite forallb_forall in H. specialize (H np Hnp). rewrite forallb_forall in H. exact (H p Hp).
Qed.

Lemma type_head_app : forall (m r : ustring), ~ In 60 m -> type_head (m ++ 60 :: r)%list = m.
Proof.
  induction m as [|c m IH]; intros r H; simpl.
  - reflexivity.
  - destruct (c =? 60) eqn:E.
    + apply N.eqb_eq in E. exfalso. apply H. left. exact E.
    + f_equal. apply IH. intro Hin. apply H. right. exact Hin.
Qed.

Lemma uprefix_app_both : forall (a b c : ustring), uprefix (a ++ b)%list (a ++ c)%list = uprefix b c.
Proof. induction a as [|x a IH]; intros b c; simpl; [reflexivity|]. rewrite N.eqb_refl. simpl. apply IH. Qed.

(* the two sites agree on every optional map member (the `::serde_json::Map` test is the same two-part test in
   both), provided the configured map path has no generic arguments of its own *)
Lemma type_ident_map_step : forall T f i k v, get_det T i = Some (DMap k v) ->
  SettingsModel.type_ident T (S f) i =
  match get_det T k, get_det T v with
  | None, _ | _, None => None
  | _, _ =>
      if SettingsModel.is_json_map T k v then Some SettingsModel.json_map_ty
      else match SettingsModel.type_ident T f k, SettingsModel.type_ident T f v with
           | Some a, Some b => Some (SettingsModel.map_path T ++ Emit.u "<" ++ a ++ Emit.u "," ++ b ++ Emit.u ">")%list
           | _, _ => None
           end
  end.
Proof. intros T f i k v H. simpl. rewrite H. reflexivity. Qed.

Theorem skip_path_map_coherent : forall T p k v ty,
  get_det T (p_ty p) = Some (DMap k v) ->
  SettingsModel.type_ident T (fuel_of T) (p_ty p) = Some ty ->
  ~ In 60 (SettingsModel.map_path T) ->
  skip_path_prop_ok T p = true.
Proof.
  intros T p k v ty Hg Hty Hm. unfold skip_path_prop_ok, SettingsModel.skip_path, SettingsModel.unbox, unboxed_id.
  rewrite Hg. destruct (p_state p); try reflexivity.
  rewrite Hty. unfold fuel_of in Hty. rewrite (type_ident_map_step _ _ _ _ _ Hg) in Hty.
  destruct (get_det T k) as [dk|]; [|discriminate Hty].
  destruct (get_det T v) as [dv|]; [|discriminate Hty].
  destruct (SettingsModel.is_json_map T k v).
  - inversion Hty; subst ty. vm_compute. reflexivity.
  - destruct (SettingsModel.type_ident T (S (length (sp_entries T))) k) as [a|]; [|discriminate Hty].
    destruct (SettingsModel.type_ident T (S (length (sp_entries T))) v) as [b|]; [|discriminate Hty].
    inversion Hty; subst ty.
    destruct (SettingsModel.map_path T ++ Emit.u "::is_empty")%list eqn:E; [reflexivity|]. rewrite <- E.
    change (Emit.u "<") with [60]. simpl app.
    rewrite (type_head_app (SettingsModel.map_path T) _ Hm).
    rewrite uprefix_app_both. vm_compute. reflexivity.
Qed.

Lemma bounds_ok_array : forall T f i t n, get_det T i = Some (DArray t n) ->
  bounds_ok T (S f) i = true -> n <= 32.
Proof.
  intros T f i t n Hg H. simpl in H. rewrite Hg in H. apply andb_true_iff in H as [H _].
  apply N.leb_le. exact H.
Qed.

Lemma bounds_ok_tuple : forall T f i ts, get_det T i = Some (DTuple ts) ->
  bounds_ok T (S f) i = true -> (length ts <= 12)%nat.
Proof.
  intros T f i ts Hg H. simpl in H. rewrite Hg in H. apply andb_true_iff in H as [H _].
  apply N.leb_le in H. lia.
Qed.

(* direct field types: no array > 32, no tuple > 12 *)
Lemma derive_bounds_sound : forall T, derive_bounds_ok T = true ->
  forall d, In d (named_dets T) -> forall i, In i (field_types d) ->
  (forall t n, get_det T i = Some (DArray t n) -> n <= 32) /\
  (forall ts, get_det T i = Some (DTuple ts) -> (length ts <= 12)%nat).
Proof.
  intros T H d Hd i Hi. unfold derive_bounds_ok in H. rewrite forallb_forall in H. specialize (H d Hd).
  rewrite forallb_forall in H. specialize (H i Hi). unfold fuel_of in H. split.
  - intros t n Hg. eapply bounds_ok_array; eauto.
  - intros ts Hg. eapply bounds_ok_tuple; eauto.
Qed.

(* ------------------------------------------------------------------ (e) defaults *)
Lemma defaults_ok_sound : forall T, defaults_ok T = true ->
  forall d, In d (named_dets T) -> forall np, In np (props_of_det d) -> forall p v, In p (snd np) ->
  p_state p = PDefault v ->
  Value.render_prop_default T (fuel_of T) (p_ty p) v = Defaults.ROk None \/
  exists e, Value.render_prop_default T (fuel_of T) (p_ty p) v = Defaults.ROk (Some e) /\
            default_typed_cfg default_variant_fixed T e (p_ty p) = true.
Proof.
  intros T H d Hd np Hnp p v Hp Hs. unfold defaults_ok in H. rewrite forallb_forall in H.
  specialize (H d Hd). rewrite forallb_forall in H. specialize (H np Hnp).
  rewrite forallb_forall in H. specialize (H p Hp). unfold prop_default_ok, prop_default_ok_cfg in H. rewrite Hs in H.
  destruct (Value.render_prop_default T (fuel_of T) (p_ty p) v) as [[e|]| | |]; try discriminate H.
  - right. exists e. split; [reflexivity|exact H].
  - left. reflexivity.
Qed.

(* the rendering before fix 15ce314: no rendered default may construct a one-element tuple variant *)
Lemma default_tuple1_prefix_sound : forall T, default_tuple1_ok_cfg false T = true ->
  forall d, In d (named_dets T) -> forall e, In e (rendered_defaults T d) ->
  Value.expr_any (tuple1_variant_expr_cfg false T) e = false.
Proof.
  intros T H d Hd e He. unfold default_tuple1_ok_cfg in H. rewrite forallb_forall in H. specialize (H d Hd).
  rewrite forallb_forall in H. specialize (H e He). apply negb_true_iff in H. exact H.
Qed.

Lemma expr_any_false : forall p, (forall e, p e = false) -> forall e, Value.expr_any p e = false.
Proof.
  intros p Hp. fix IH 1. intro e.
  destruct e; simpl; rewrite Hp; simpl; try reflexivity; try (apply IH).
  - revert es. fix go 1. intros [|x r]; [reflexivity|]. rewrite (IH x). simpl. apply go.
  - revert es. fix go 1. intros [|x r]; [reflexivity|]. rewrite (IH x). simpl. apply go.
  - revert es. fix go 1. intros [|x r]; [reflexivity|]. rewrite (IH x). simpl. apply go.
  - revert kvs. fix go 1. intros [|[a b] r]; [reflexivity|]. rewrite (IH a), (IH b). simpl. apply go.
  - revert fs. fix go 1. intros [|[n x] r]; [reflexivity|]. rewrite (IH x). simpl. apply go.
  - revert es. fix go 1. intros [|x r]; [reflexivity|]. rewrite (IH x). simpl. apply go.
  - revert fs. fix go 1. intros [|[n x] r]; [reflexivity|]. rewrite (IH x). simpl. apply go.
  - revert es. fix go 1. intros [|x r]; [reflexivity|]. rewrite (IH x). simpl. apply go.
Qed.

(* since fix 15ce314 the arguments of every tuple-variant construction are the declared fields *)
Lemma tuple1_variant_expr_fixed : forall T e, tuple1_variant_expr_cfg true T e = false.
Proof.
  intros T e. destruct e; try reflexivity. simpl. destruct (variant_payload T ty var) as [ts|]; [|reflexivity].
  rewrite from_body_fixed_matches, ftys_eqb_refl. reflexivity.
Qed.

Lemma default_tuple1_fixed : forall T, default_tuple1_ok T = true.
Proof.
  intro T. unfold default_tuple1_ok, default_tuple1_ok_cfg, default_variant_fixed.
  apply forallb_forall. intros d _. apply forallb_forall. intros e _.
  rewrite (expr_any_false _ (tuple1_variant_expr_fixed T)). reflexivity.
Qed.

(* ------------------------------------------------------------------ prelude capture *)
Lemma prelude_sound : forall T,
  prelude_default_ok T = true -> prelude_vec_ok T = true -> prelude_result_ok T = true ->
  (In (us "Default") (item_names T) -> forall d, In d (named_dets T) -> mentions_default_det T d = false) /\
  (In (us "Vec") (item_names T) -> has_set T = false) /\
  (newtype_named T "Ok" = true \/ newtype_named T "Err" = true ->
     forall d, In d (named_dets T) -> mentions_result_det T d = false).
Proof.
  intros T Hd Hv Hr. repeat split.
  - intros Hin d Hdd. unfold prelude_default_ok, has_item in Hd.
    apply EmitProofs.mem_ustr_In in Hin. rewrite Hin in Hd. simpl in Hd. apply negb_true_iff in Hd.
    destruct (mentions_default_det T d) eqn:E; [|reflexivity].
    assert (existsb (mentions_default_det T) (named_dets T) = true) as Hex
      by (apply existsb_exists; exists d; split; assumption).
    rewrite Hex in Hd. discriminate Hd.
  - intros Hin. unfold prelude_vec_ok, has_item in Hv. apply EmitProofs.mem_ustr_In in Hin.
    rewrite Hin in Hv. simpl in Hv. apply negb_true_iff in Hv. exact Hv.
  - intros Hn d Hdd. unfold prelude_result_ok in Hr.
    assert ((newtype_named T "Ok" || newtype_named T "Err") = true) as Ho
      by (apply orb_true_iff; exact Hn).
    rewrite Ho in Hr. simpl in Hr. apply negb_true_iff in Hr.
    destruct (mentions_result_det T d) eqn:E; [|reflexivity].
    assert (existsb (mentions_result_det T) (named_dets T) = true) as Hex
      by (apply existsb_exists; exists d; split; assumption).
    rewrite Hex in Hr. discriminate Hr.
Qed.

(* ------------------------------------------------------------------ the judgment *)
Lemma all_conjuncts_complete : forall c, In c all_conjuncts.
Proof. intro c. destruct c; simpl; tauto. Qed.

Lemma wf_module_sound : forall cls T, wf_module cls T = true <-> forall c, holds cls T c = true.
Proof.
  intros cls T. unfold wf_module. rewrite forallb_forall. split.
  - intros H c. apply H. apply all_conjuncts_complete.
  - intros H c _. apply H.
Qed.

Lemma wf_report_nil : forall cls T, wf_report cls T = [] <-> wf_module cls T = true.
Proof. intros. unfold wf_report, wf_module. apply filter_negb_nil. Qed.

(* the conjuncts typify's construction does not establish by itself: each is the class of a
   recorded finding, or a condition of the IR the converter (not modelled) is responsible for *)
Definition residual_conjuncts : list conjunct :=
  [CModnames; CDefaultFns; CUntaggedSimple; CFromVariants; CDerefCycle; CTryFromString;
   CAcyclic; CDeriveBounds; CSerdeRules; CSerdeDefault; CSkipPath; CDefaults; CPreludeDefault; CPreludeVec;
   CPreludeResult].

(* C01_wf_from_parts: the judgment follows from
     - one item per name            (C16_names_unique, for histories with fresh definition names)
     - distinct fields / variants   (C08_fields_distinct_or_err, C08_variants_distinct_or_fail)
     - identifiers made by sanitize (C08_sanitize_accepted)
     - the residual conjuncts, decided on the dumped IR *)
Theorem wf_from_parts : forall cls T,
  SanitizeProofs.ClassesOK cls ->
  NoDup (item_names T) ->
  Fields_unique T ->
  Variants_unique T ->
  (forall x, In x (all_idents T) -> exists s c, x = Sanitize.sanitize cls s c) ->
  (forall c, In c residual_conjuncts -> holds cls T c = true) ->
  wf_module cls T = true.
Proof.
  intros cls T Hok Hi Hf Hv Hid Hres. apply wf_module_sound. intro c.
  destruct c; try (apply Hres; simpl; tauto); simpl.
  - apply items_unique_sound. exact Hi.
  - apply fields_unique_sound. exact Hf.
  - apply variants_unique_sound. exact Hv.
  - apply idents_valid_from_C08; assumption.
  - apply from_tuple1_fixed.
  - apply default_tuple1_fixed.
Qed.

(* what wf_module guarantees, Prop level (the statement of C01_wf_module_partial) *)
Theorem wf_module_guarantees : forall cls T, wf_module cls T = true ->
  NoDup (item_names T) /\
  (forall n, In n (item_names T) -> ~ In n (module_names T)) /\
  NoDup (default_fn_names cls T) /\
  Fields_unique T /\ Variants_unique T /\
  (forall x, In x (all_idents T) -> Sanitize.syn_ident_ok cls x = true) /\
  (forall n, ~ CyclesSpecProofs.spec_cyclic (graph_of_space T) n) /\
  (forall n, ~ CyclesProofs.cyclic (deref_graph T) n) /\
  (forall n df tag vs deny bes, In (DEnum n df tag vs deny bes) (named_dets T) ->
     NoDup (map (from_type_text T (fuel_of T)) (from_variants T vs))) /\
  (forall n df vs deny bes, In (DEnum n df TagUntagged vs deny bes) (named_dets T) -> (count_simple vs <= 1)%nat).
Proof.
  intros cls T H. pose proof (proj1 (wf_module_sound cls T) H) as Hc.
  split; [apply items_unique_sound; exact (Hc CItems)|].
  split; [apply modnames_free_sound; exact (Hc CModnames)|].
  split; [apply defaultfns_unique_sound; exact (Hc CDefaultFns)|].
  split; [apply fields_unique_sound; exact (Hc CFields)|].
  split; [apply variants_unique_sound; exact (Hc CVariants)|].
  split; [apply idents_valid_sound; exact (Hc CIdents)|].
  split; [apply contain_acyclic_sound; exact (Hc CAcyclic)|].
  split; [apply deref_acyclic_sound; exact (Hc CDerefCycle)|].
  split.
  - intros n df tag vs deny bes Hd.
    exact (proj1 (from_variants_coherent_sound T (Hc CFromVariants) n df tag vs deny bes Hd)).
  - apply untagged_simple_sound. exact (Hc CUntaggedSimple).
Qed.

(* ------------------------------------------------------------------ witnesses: every conjunct can fail *)
Definition st (b : bool) : settings := mkSettings None [] b (us "::std::collections::HashMap").
Definition sp (b : bool) (ents : list (id * details)) : space :=
  mkSpace (map (fun ie => (fst ie, mkEntry (snd ie) [])) ents) 100 (st b) false false false false [].
Definition base : list (id * details) := [(1, DString); (2, DInteger (us "i64"))].
Definition rq (n : string) (t : id) : prop := mkProp (us n) RNone PRequired t.

Definition witness (c : conjunct) : space :=
  match c with
  | CItems => sp false (base ++ [(3, DStruct (us "Foo") None [] false); (4, DStruct (us "Foo") None [rq "a" 1] false)])
  | CModnames => sp false (base ++ [(3, DStruct (us "error") None [] false)])
  | CDefaultFns =>
      sp false (base ++ [(3, DStruct (us "AbC") None [mkProp (us "d") RNone (PDefault (JStr (us "p"))) 1] false);
                         (4, DStruct (us "Ab") None [mkProp (us "c_d") RNone (PDefault (JStr (us "q"))) 1] false)])
  | CFields => sp false (base ++ [(3, DStruct (us "P") None [rq "a" 1; rq "a" 2] false)])
  | CVariants =>
      sp false (base ++ [(3, DEnum (us "E") None TagExternal
                              [mkVariant (us "a") (us "A") VSimple; mkVariant (us "A") (us "A") VSimple] false [])])
  | CIdents => sp false (base ++ [(3, DStruct (us "my type") None [] false)])
  | CUntaggedSimple =>
      sp false (base ++ [(3, DEnum (us "E") None TagUntagged
                              [mkVariant (us "a") (us "A") VSimple; mkVariant (us "b") (us "B") VSimple] false [])])
  | CFromVariants =>
      sp false (base ++ [(5, DVec 1); (6, DSet 1);
                         (3, DEnum (us "E") None TagUntagged
                              [mkVariant (us "a") (us "A") (VItem 5); mkVariant (us "b") (us "B") (VItem 6)] false [])])
  | CFromTuple1 =>
      sp false (base ++ [(3, DEnum (us "E") None TagExternal [mkVariant (us "a") (us "A") (VTuple [1])] false [])])
  | CDerefCycle => sp false (base ++ [(3, DNewtype (us "A") None 4 CNone); (4, DBox 3)])
  | CTryFromString =>
      sp false (base ++ [(3, DNewtype (us "B") None 4 CNone); (4, DNative (us "::std::string::String") [TFromStr] [])])
  | CAcyclic =>
      sp false (base ++ [(3, DStruct (us "A") None [rq "f" 4] false); (4, DNative (us "::std::option::Option") [] [3])])
  | CDeriveBounds => sp false (base ++ [(3, DStruct (us "P") None [rq "t" 4] false); (4, DArray 2 33)])
  | CSerdeRules => sp false (base ++ [(3, DEnum (us "E") None (TagAdjacent (us "t") (us "t")) [] false [])])
  | CSerdeDefault =>
      sp false (base ++ [(3, DStruct (us "P") None [mkProp (us "n") RNone POptional 4] false);
                         (4, DInteger (us "::std::num::NonZeroU32"))])
  | CDefaults => sp false (base ++ [(3, DStruct (us "P") None [mkProp (us "n") RNone (PDefault JNull) 4] false); (4, DUnit)])
  | CSkipPath =>
      (* a configured map path with generic arguments of its own: `M<X>::is_empty` is not a function of `M<X><K, V>` *)
      mkSpace (map (fun ie => (fst ie, mkEntry (snd ie) []))
                   (base ++ [(5, DMap 1 2); (3, DStruct (us "P") None [mkProp (us "m") RNone POptional 5] false)]))
              100 (mkSettings None [] false (us "M<X>")) false false false false []
  | CDefaultTuple1 =>
      sp false (base ++ [(3, DEnum (us "E") None TagUntagged [mkVariant (us "a") (us "A") (VTuple [2])] false []);
                         (4, DStruct (us "P") None [mkProp (us "p") RNone (PDefault (JArr [JInt (3)%Z])) 3] false)])
  | CPreludeDefault =>
      sp false (base ++ [(5, DOption 1); (3, DStruct (us "Default") None [mkProp (us "o") RNone POptional 5] false)])
  | CPreludeVec => sp false (base ++ [(5, DSet 1); (3, DStruct (us "Vec") None [rq "a" 5] false)])
  | CPreludeResult => sp false (base ++ [(3, DNewtype (us "Ok") None 1 (CString None None (Some (us "^b+$"))))])
  end.

Theorem known_classes_fail : forall c, c <> CFromTuple1 -> c <> CDefaultTuple1 ->
  holds Sanitize.ascii_classes (witness c) c = false.
Proof.
  intros c H1 H2. destruct c; try (vm_compute; reflexivity); exfalso; [apply H1|apply H2]; reflexivity.
Qed.

(* C01-16 (fixed by 15ce314): the pre-fix rendering is ill shaped on the witness, the current one is not *)
Theorem default_tuple1_regression :
  default_tuple1_ok_cfg false (witness CDefaultTuple1) = false /\
  default_tuple1_ok (witness CDefaultTuple1) = true /\
  defaults_ok (witness CDefaultTuple1) = true.
Proof. repeat split; vm_compute; reflexivity. Qed.

(* C01-6 (fixed by d9b019c): the pre-fix body is ill typed on the witness, the current one is not *)
Theorem from_tuple1_regression :
  from_tuple1_ok_cfg false (witness CFromTuple1) = false /\
  wf_module Sanitize.ascii_classes (witness CFromTuple1) = true.
Proof. split; vm_compute; reflexivity. Qed.

(* ------------------------------------------------------------------ non-vacuity *)
Definition ex_ok : space :=
  sp true (base ++
    [ (5, DOption 2);
      (3, DStruct (us "Foo") None [rq "a" 1; mkProp (us "type_") (RRename (us "type")) POptional 5;
                                    mkProp (us "n") RNone (PDefault (JInt (7)%Z)) 2] false);
      (4, DEnum (us "Color") None TagExternal
            [mkVariant (us "red") (us "Red") VSimple; mkVariant (us "green") (us "Green") VSimple] false [AllSimpleVariants]);
      (6, DNewtype (us "Pat") None 1 (CString None None (Some (us "^a+$"))));
      (7, DEnum (us "U") None TagUntagged
            [mkVariant (us "A") (us "A") (VItem 1); mkVariant (us "B") (us "B") (VItem 2)] false []);
      (8, DBox 9);
      (9, DStruct (us "Tree") None [mkProp (us "next") RNone POptional 10] false);
      (10, DOption 8) ]).

Example ex_ok_wf : wf_module Sanitize.ascii_classes ex_ok = true.
Proof. vm_compute. reflexivity. Qed.

Example ex_ok_parts :
  NoDup (item_names ex_ok) /\ Fields_unique ex_ok /\ Variants_unique ex_ok /\
  (forall c, In c residual_conjuncts -> holds Sanitize.ascii_classes ex_ok c = true).
Proof.
  split; [apply items_unique_sound; vm_compute; reflexivity|].
  split; [apply fields_unique_sound; vm_compute; reflexivity|].
  split; [apply variants_unique_sound; vm_compute; reflexivity|].
  intros c Hc. apply (proj1 (wf_module_sound _ _) ex_ok_wf).
Qed.
