(* C10: the Flocq binary64 model IntSelect.choose_integer agrees with the
   integer-level model IntSelectZ.choose_integer_Z whenever every bound is a
   `safe` double and the default (if numeric) is an integral double. *)
From Coq Require Import String ZArith List Bool Lia Reals Lra.
From Flocq Require Import Core BinarySingleNaN Binary Bits.
From Typify Require Import Gen.IntTable Algo.IntSelect Algo.IntSelectZ Spec.IntSpec.
Import ListNotations.
Open Scope string_scope.
Open Scope Z_scope.

Notation fexp64 := (FLT_exp (3 - 1024 - 53) 53).
Notation b2r := (B2R 53 1024).
Notation fin := (is_finite 53 1024).

(* ---- Zof is the exact integer value ---- *)

Lemma cond_Zopp_mul s a p : cond_Zopp s (a * p) = cond_Zopp s a * p.
Proof. destruct s; cbn [cond_Zopp]; ring. Qed.

Lemma bpow2_IZR e : 0 <= e -> bpow radix2 e = IZR (2 ^ e).
Proof. intros H. rewrite <- (IZR_Zpower radix2 e H). reflexivity. Qed.

Lemma Zof_sound x z : Zof x = Some z -> exact x z.
Proof.
  destruct x as [s|s|s pl Hpl|s m e Hb]; cbn [Zof]; try discriminate.
  - intros H; inversion H. split; reflexivity.
  - destruct (Z.leb_spec 0 e) as [He|He].
    + intros H. assert (Hz : z = cond_Zopp s (Z.pos m * 2 ^ e)) by congruence. subst z; clear H. split; [reflexivity|].
      cbn [B2R]. unfold F2R. cbn [Fnum Fexp].
      rewrite (bpow2_IZR e He), <- mult_IZR, cond_Zopp_mul. reflexivity.
    + destruct (Z.eqb_spec (Z.pos m mod 2 ^ (- e)) 0) as [Hm|Hm]; [|discriminate].
      intros H. assert (Hz : z = cond_Zopp s (Z.pos m / 2 ^ (- e))) by congruence. subst z; clear H. split; [reflexivity|].
      cbn [B2R]. unfold F2R. cbn [Fnum Fexp].
      assert (Hp : 0 < 2 ^ (- e)) by (apply Z.pow_pos_nonneg; lia).
      assert (Hq : Z.pos m = (Z.pos m / 2 ^ (- e)) * 2 ^ (- e)).
      { rewrite Z.mul_comm. apply Z.div_exact; lia. }
      rewrite Hq at 1. rewrite cond_Zopp_mul, mult_IZR, <- (bpow2_IZR (- e)) by lia.
      rewrite Rmult_assoc, <- bpow_plus. replace (- e + e) with 0 by lia. cbn [bpow]. ring.
Qed.

Lemma Zof_complete x z : exact x z -> Zof x = Some z.
Proof.
  intros [Hf Hr].
  destruct (Zof x) as [z'|] eqn:E.
  - destruct (Zof_sound _ _ E) as [_ Hr']. rewrite Hr in Hr'. apply eq_IZR in Hr'. congruence.
  - exfalso. destruct x as [s|s|s pl Hpl|s m e Hb]; cbn [Zof] in E; try discriminate.
    destruct (Z.leb_spec 0 e) as [He|He]; [discriminate E|].
    destruct (Z.eqb_spec (Z.pos m mod 2 ^ (- e)) 0) as [Hm|Hm]; [discriminate E|].
    apply Hm. cbn [B2R] in Hr. unfold F2R in Hr. cbn [Fnum Fexp] in Hr.
    assert (Hz : IZR (cond_Zopp s (Z.pos m)) = IZR (z * 2 ^ (- e))).
    { rewrite mult_IZR, <- (bpow2_IZR (- e)) by lia. rewrite <- Hr.
      rewrite Rmult_assoc, <- bpow_plus. replace (e + - e) with 0 by lia. cbn [bpow]. ring. }
    apply eq_IZR in Hz.
    assert (Hp : 0 < 2 ^ (- e)) by (apply Z.pow_pos_nonneg; lia).
    destruct s; cbn [cond_Zopp] in Hz.
    + replace (Z.pos m) with ((- z) * 2 ^ (- e)) by lia. apply Z_mod_mult.
    + rewrite Hz. apply Z_mod_mult.
Qed.

Lemma exact_fin x z : exact x z -> fin x = true.
Proof. intros [H _]; exact H. Qed.

Lemma exact_inj x z z' : exact x z -> exact x z' -> z = z'.
Proof. intros [_ H] [_ H']. rewrite H in H'. apply eq_IZR in H'. exact H'. Qed.

(* a nonzero value has one finite double *)
Lemma exact_unique x y z : exact x z -> exact y z -> z <> 0 -> x = y.
Proof.
  intros [Fx Rx] [Fy Ry] Hz.
  assert (S : forall u, fin u = true -> b2r u = IZR z -> is_finite_strict 53 1024 u = true).
  { intros [s|s|s pl Hpl|s m e Hb] Fu Ru; try discriminate Fu; [|reflexivity].
    exfalso. cbn [B2R] in Ru. apply Hz. apply eq_IZR. symmetry. exact Ru. }
  apply (B2R_inj 53 1024); [apply S; assumption | apply S; assumption | congruence].
Qed.

(* ---- comparisons ---- *)

Lemma fcmp_exact x y zx zy : exact x zx -> exact y zy -> fcmp x y = Some (zx ?= zy).
Proof.
  intros [Fx Rx] [Fy Ry]. unfold fcmp. rewrite (Bcompare_correct 53 1024 x y Fx Fy), Rx, Ry, Rcompare_IZR.
  reflexivity.
Qed.

Lemma fle_exact x y zx zy : exact x zx -> exact y zy -> fle x y = (zx <=? zy).
Proof. intros Hx Hy. unfold fle, Z.leb. rewrite (fcmp_exact _ _ _ _ Hx Hy). destruct (zx ?= zy); reflexivity. Qed.
Lemma flt_exact x y zx zy : exact x zx -> exact y zy -> flt x y = (zx <? zy).
Proof. intros Hx Hy. unfold flt, Z.ltb. rewrite (fcmp_exact _ _ _ _ Hx Hy). destruct (zx ?= zy); reflexivity. Qed.
Lemma fge_exact x y zx zy : exact x zx -> exact y zy -> fge x y = (zx >=? zy).
Proof. intros Hx Hy. unfold fge, Z.geb. rewrite (fcmp_exact _ _ _ _ Hx Hy). destruct (zx ?= zy); reflexivity. Qed.
Lemma fgt_exact x y zx zy : exact x zx -> exact y zy -> fgt x y = (zx >? zy).
Proof. intros Hx Hy. unfold fgt, Z.gtb. rewrite (fcmp_exact _ _ _ _ Hx Hy). destruct (zx ?= zy); reflexivity. Qed.
Lemma feq_exact x y zx zy : exact x zx -> exact y zy -> feq x y = (zx =? zy).
Proof.
  intros Hx Hy. unfold feq. rewrite (fcmp_exact _ _ _ _ Hx Hy).
  destruct (Z.compare_spec zx zy) as [H|H|H]; symmetry; [apply Z.eqb_eq; exact H | apply Z.eqb_neq; lia | apply Z.eqb_neq; lia].
Qed.

Lemma fmax_exact x y zx zy : exact x zx -> exact y zy -> exact (fmax x y) (Z.max zx zy).
Proof.
  intros Hx Hy. unfold fmax. rewrite (fle_exact _ _ _ _ Hx Hy).
  destruct (Z.leb_spec zx zy); [rewrite Z.max_r by lia | rewrite Z.max_l by lia]; assumption.
Qed.
Lemma fmin_exact x y zx zy : exact x zx -> exact y zy -> exact (fmin x y) (Z.min zx zy).
Proof.
  intros Hx Hy. unfold fmin. rewrite (fle_exact _ _ _ _ Hx Hy).
  destruct (Z.leb_spec zx zy); [rewrite Z.min_l by lia | rewrite Z.min_r by lia]; assumption.
Qed.

(* ---- constants ---- *)
Definition c_p53 : f64 := b64_of_bits 4845873199050653696.    (*  2^53 *)
Definition c_m53 : f64 := b64_of_bits 14069245235905429504.   (* -2^53 *)
Definition c_p64 : f64 := b64_of_bits 4895412794951729152.    (*  2^64 *)

Lemma fone_exact : exact fone 1. Proof. apply Zof_sound. vm_compute. reflexivity. Qed.
Lemma fzero_exact : exact fzero 0. Proof. apply Zof_sound. vm_compute. reflexivity. Qed.
Lemma i64min_exact : exact f_i64_min (- 2^63). Proof. apply Zof_sound. vm_compute. reflexivity. Qed.
Lemma i64max_exact : exact f_i64_max (2^63). Proof. apply Zof_sound. vm_compute. reflexivity. Qed.
Lemma p53_exact : exact c_p53 (2^53). Proof. apply Zof_sound. vm_compute. reflexivity. Qed.
Lemma m53_exact : exact c_m53 (- 2^53). Proof. apply Zof_sound. vm_compute. reflexivity. Qed.
Lemma p64_exact : exact c_p64 (2^64). Proof. apply Zof_sound. vm_compute. reflexivity. Qed.

(* ---- x + 1.0 and x - 1.0 ---- *)

Lemma int_format m : Z.abs m <= 2^53 -> generic_format radix2 fexp64 (IZR m).
Proof.
  intros H. destruct (Z.eq_dec (Z.abs m) (2^53)) as [E|E].
  - (* +-2^53 = +-1 * 2^53 *)
    apply generic_format_FLT.
    destruct (Z.abs_spec m) as [[_ A]|[_ A]].
    + apply (FLT_spec radix2 _ _ _ (Float radix2 1 53)); [|cbn; lia|cbn; lia].
      unfold F2R. cbn [Fnum Fexp]. rewrite (bpow2_IZR 53) by lia. rewrite <- mult_IZR. f_equal. lia.
    + apply (FLT_spec radix2 _ _ _ (Float radix2 (-1) 53)); [|cbn; lia|cbn; lia].
      unfold F2R. cbn [Fnum Fexp]. rewrite (bpow2_IZR 53) by lia. rewrite <- mult_IZR. f_equal. lia.
  - apply generic_format_FLT.
    apply (FLT_spec radix2 _ _ _ (Float radix2 m 0)); [|cbn [Fnum]; change (radix2 ^ 53) with (2^53); lia|cbn; lia].
    unfold F2R. cbn [Fnum Fexp bpow]. ring.
Qed.

Lemma IZR_lt_bpow1024 m : Z.abs m <= 2^70 -> (Rabs (IZR m) < bpow radix2 1024)%R.
Proof.
  intros H. rewrite <- abs_IZR. rewrite (bpow2_IZR 1024) by lia. apply IZR_lt.
  assert (2^70 < 2^1024) by (apply Z.pow_lt_mono_r; lia). lia.
Qed.

Lemma fadd_small v z : exact v z -> - 2^53 <= z < 2^53 -> exact (fadd v fone) (z + 1).
Proof.
  intros [Fv Rv] Hz. destruct fone_exact as [F1 R1].
  pose proof (Bplus_correct 53 1024 Hp53 Hpe53 binop_nan_pl64 mode_NE v fone Fv F1) as H.
  rewrite Rv, R1, <- plus_IZR in H.
  rewrite round_generic in H; [|apply valid_rnd_N|apply int_format; lia].
  rewrite Rlt_bool_true in H by (apply IZR_lt_bpow1024; lia).
  destruct H as (Hr & Hf & _). split; assumption.
Qed.

Lemma fsub_small v z : exact v z -> - 2^53 < z <= 2^53 -> exact (fsub v fone) (z - 1).
Proof.
  intros [Fv Rv] Hz. destruct fone_exact as [F1 R1].
  pose proof (Bminus_correct 53 1024 Hp53 Hpe53 binop_nan_pl64 mode_NE v fone Fv F1) as H.
  rewrite Rv, R1, <- minus_IZR in H.
  rewrite round_generic in H; [|apply valid_rnd_N|apply int_format; lia].
  rewrite Rlt_bool_true in H by (apply IZR_lt_bpow1024; lia).
  destruct H as (Hr & Hf & _). split; assumption.
Qed.

(* the saturating cases: the double is one of five constants, so compute *)
Lemma fadd_p53 : exact (fadd c_p53 fone) (2^53). Proof. apply Zof_sound. vm_compute. reflexivity. Qed.
Lemma fadd_m63 : exact (fadd f_i64_min fone) (- 2^63). Proof. apply Zof_sound. vm_compute. reflexivity. Qed.
Lemma fadd_p63 : exact (fadd f_i64_max fone) (2^63). Proof. apply Zof_sound. vm_compute. reflexivity. Qed.
Lemma fadd_p64 : exact (fadd c_p64 fone) (2^64). Proof. apply Zof_sound. vm_compute. reflexivity. Qed.
Lemma fsub_m53 : exact (fsub c_m53 fone) (- 2^53). Proof. apply Zof_sound. vm_compute. reflexivity. Qed.
Lemma fsub_m63 : exact (fsub f_i64_min fone) (- 2^63). Proof. apply Zof_sound. vm_compute. reflexivity. Qed.
Lemma fsub_p63 : exact (fsub f_i64_max fone) (2^63). Proof. apply Zof_sound. vm_compute. reflexivity. Qed.
Lemma fsub_p64 : exact (fsub c_p64 fone) (2^64). Proof. apply Zof_sound. vm_compute. reflexivity. Qed.

Definition sf (x : f64) (z : Z) : Prop := exact x z /\ safeZ z.

Lemma safeZ_add1 z : safeZ z -> safeZ (add1 z).
Proof. unfold safeZ, add1. intros H. destruct (Z.leb_spec (- 2^53) z), (Z.ltb_spec z (2^53)); cbn [andb]; lia. Qed.
Lemma safeZ_sub1 z : safeZ z -> safeZ (sub1 z).
Proof. unfold safeZ, sub1. intros H. destruct (Z.ltb_spec (- 2^53) z), (Z.leb_spec z (2^53)); cbn [andb]; lia. Qed.

Lemma fadd_sf v z : sf v z -> sf (fadd v fone) (add1 z).
Proof.
  intros [Hv Hs]. split; [|apply safeZ_add1; exact Hs].
  unfold add1. destruct (Z.leb_spec (- 2^53) z) as [H1|H1], (Z.ltb_spec z (2^53)) as [H2|H2]; cbn [andb].
  - apply fadd_small; [exact Hv|lia].
  - assert (Hc : z = 2^53 \/ z = 2^63 \/ z = 2^64) by (unfold safeZ in Hs; lia).
    destruct Hc as [->|[->| ->]].
    + rewrite (exact_unique _ _ _ Hv p53_exact) by lia. exact fadd_p53.
    + rewrite (exact_unique _ _ _ Hv i64max_exact) by lia. exact fadd_p63.
    + rewrite (exact_unique _ _ _ Hv p64_exact) by lia. exact fadd_p64.
  - assert (Hc : z = - 2^63) by (unfold safeZ in Hs; lia). subst z.
    rewrite (exact_unique _ _ _ Hv i64min_exact) by lia. exact fadd_m63.
  - lia.
Qed.

Lemma fsub_sf v z : sf v z -> sf (fsub v fone) (sub1 z).
Proof.
  intros [Hv Hs]. split; [|apply safeZ_sub1; exact Hs].
  unfold sub1. destruct (Z.ltb_spec (- 2^53) z) as [H1|H1], (Z.leb_spec z (2^53)) as [H2|H2]; cbn [andb].
  - apply fsub_small; [exact Hv|lia].
  - assert (Hc : z = 2^63 \/ z = 2^64) by (unfold safeZ in Hs; lia).
    destruct Hc as [->| ->].
    + rewrite (exact_unique _ _ _ Hv i64max_exact) by lia. exact fsub_p63.
    + rewrite (exact_unique _ _ _ Hv p64_exact) by lia. exact fsub_p64.
  - assert (Hc : z = - 2^53 \/ z = - 2^63) by (unfold safeZ in Hs; lia).
    destruct Hc as [->| ->].
    + rewrite (exact_unique _ _ _ Hv m53_exact) by lia. exact fsub_m53.
    + rewrite (exact_unique _ _ _ Hv i64min_exact) by lia. exact fsub_m63.
  - lia.
Qed.

(* ---- (a - b).abs() <= f64::EPSILON on integral doubles is a = b ---- *)

Lemma feps_range : fin feps = true /\ (0 < b2r feps < 1)%R.
Proof. split; [reflexivity|]. cbv -[IZR Rmult Rinv Rlt]. lra. Qed.

Lemma close_exact a b za zb :
  exact a za -> exact b zb -> Z.abs za <= 2^64 -> Z.abs zb <= 2^64 -> close a b = (za =? zb).
Proof.
  intros [Fa Ra] [Fb Rb] Ha Hb.
  pose proof (Bminus_correct 53 1024 Hp53 Hpe53 binop_nan_pl64 mode_NE a b Fa Fb) as H.
  rewrite Ra, Rb, <- minus_IZR in H.
  set (r := round radix2 fexp64 (round_mode mode_NE) (IZR (za - zb))) in *.
  assert (Hle : (Rabs r <= bpow radix2 65)%R).
  { apply abs_round_le_generic; [apply fexp_correct; reflexivity | apply valid_rnd_N | |].
    - apply generic_format_bpow. unfold FLT_exp. lia.
    - rewrite <- abs_IZR, (bpow2_IZR 65) by lia. apply IZR_le.
      change (2^65) with (2^64 + 2^64). lia. }
  rewrite Rlt_bool_true in H
    by (apply (Rle_lt_trans _ _ _ Hle); apply bpow_lt; lia).
  destruct H as (Hr & Hf & _). fold (fsub a b) in Hr, Hf.
  destruct feps_range as [Fe [He0 He1]].
  unfold close, fle, fcmp, fabs.
  rewrite (Bcompare_correct 53 1024) by (try rewrite is_finite_Babs; assumption).
  rewrite B2R_Babs, Hr.
  change (round radix2 (SpecFloat.fexp 53 1024) (round_mode mode_NE) (IZR (za - zb))) with r.
  destruct (Z.eqb_spec za zb) as [E|E].
  - subst zb. unfold r. rewrite Z.sub_diag, round_0 by apply valid_rnd_N. rewrite Rabs_R0.
    rewrite Rcompare_Lt by exact He0. reflexivity.
  - assert (H1 : (1 <= Rabs r)%R).
    { apply abs_round_ge_generic; [apply fexp_correct; reflexivity | apply valid_rnd_N | |].
      - apply (int_format 1). lia.
      - rewrite <- abs_IZR. apply IZR_le. lia. }
    rewrite Rcompare_Gt by lra. reflexivity.
Qed.

(* ---- the two tables ---- *)

Lemma safeZ_b z : safeZ z <-> safeZb z = true.
Proof.
  unfold safeZ, safeZb. repeat rewrite orb_true_iff. rewrite Z.leb_le, !Z.eqb_eq. tauto.
Qed.

Lemma safeZ_le64 z : safeZ z -> Z.abs z <= 2^64.
Proof. unfold safeZ. lia. Qed.

Definition rrel (r : row) (zr : zrow) : Prop :=
  r_fmt r = z_fmt zr /\ r_ty r = z_ty zr /\ r_nz r = z_nz zr /\
  sf (r_min r) (z_lo zr) /\ sf (r_max r) (z_hi zr).

Lemma all_some_Forall2 {A B} (f : A -> option B) l : forall l',
  all_some (map f l) = Some l' -> Forall2 (fun x y => f x = Some y) l l'.
Proof.
  induction l as [|a l IH]; cbn [map all_some]; intros l' H.
  - inversion H. constructor.
  - destruct (f a) as [y|] eqn:E; [|discriminate H].
    destruct (all_some (map f l)) as [tl|]; [|discriminate H]. inversion H; subst l'.
    constructor; [exact E | apply IH; reflexivity].
Qed.

Lemma table_all_some : all_some (map zrow_of int_formats) = Some int_formats_Z.
Proof. vm_compute. reflexivity. Qed.

Definition zrow_safe (zr : zrow) : bool := safeZb (z_lo zr) && safeZb (z_hi zr).

Lemma table_safe : forallb zrow_safe int_formats_Z = true.
Proof. vm_compute. reflexivity. Qed.

Lemma rel_of_rows l : forall l',
  Forall2 (fun x y => zrow_of x = Some y) l l' -> (forall y, In y l' -> zrow_safe y = true) ->
  Forall2 rrel l l'.
Proof.
  induction l as [|a l IH]; intros l' H S; [inversion H; constructor|].
  inversion H as [|a' za l0 l0' Ea Hrest]; subst; constructor.
  -     specialize (S za (or_introl eq_refl)). unfold zrow_safe in S. apply andb_true_iff in S. destruct S as [S1 S2].
    unfold zrow_of in Ea. destruct (Zof (r_min a)) as [lo|] eqn:E1; [|discriminate Ea].
    destruct (Zof (r_max a)) as [hi|] eqn:E2; [|discriminate Ea].
    inversion Ea; subst za; clear Ea. cbn [z_lo z_hi] in S1, S2. unfold rrel, sf. cbn [z_fmt z_ty z_nz z_lo z_hi].
    split; [reflexivity|]. split; [reflexivity|]. split; [reflexivity|].
    split; (split; [apply Zof_sound; assumption | apply safeZ_b; assumption]).
  - apply IH; [assumption|]. intros y Hy. apply S. right. exact Hy.
Qed.

Lemma table_rel : Forall2 rrel int_formats int_formats_Z.
Proof.
  apply rel_of_rows; [apply all_some_Forall2; exact table_all_some|].
  apply forallb_forall. exact table_safe.
Qed.

Lemma Forall2_rev' {A B} (R : A -> B -> Prop) l l' : Forall2 R l l' -> Forall2 R (rev l) (rev l').
Proof.
  induction 1; cbn [rev]; [constructor|]. apply Forall2_app; [assumption|]. constructor; [assumption|constructor].
Qed.

Lemma find_rel f l l' :
  Forall2 rrel l l' ->
  match find (fun r => String.eqb (r_fmt r) f) l, find (fun r => String.eqb (z_fmt r) f) l' with
  | Some r, Some zr => rrel r zr
  | None, None => True
  | _, _ => False
  end.
Proof.
  induction 1 as [|r zr l l' Hr _ IH]; cbn [find]; [exact I|].
  pose proof Hr as (Hf & _). rewrite Hf. destruct (String.eqb (z_fmt zr) f); [exact Hr | exact IH].
Qed.

Lemma find_map_rel {B} (g : row -> option B) (h : zrow -> option B) l l' :
  Forall2 rrel l l' -> (forall r zr, rrel r zr -> g r = h zr) -> find_map g l = find_map h l'.
Proof.
  intros H E. induction H as [|r zr l l' Hr _ IH]; cbn [find_map]; [reflexivity|].
  rewrite (E _ _ Hr), IH. reflexivity.
Qed.

(* ---- relating the inputs ---- *)

Definition orel (o : option f64) (oz : option Z) : Prop :=
  match o, oz with
  | None, None => True
  | Some x, Some z => sf x z
  | _, _ => False
  end.

Definition brel (b : bounds) (zb : zbounds) : Prop :=
  orel (b_min b) (zb_min zb) /\ orel (b_max b) (zb_max zb) /\
  orel (b_emin b) (zb_emin zb) /\ orel (b_emax b) (zb_emax zb) /\
  zb_mult zb = negb (is_none (b_mult b)).

Definition drel (d : dflt) (zd : zdflt) : Prop :=
  match d, zd with
  | None, None => True
  | Some None, Some None => True
  | Some (Some v), Some (Some z) => exact v z
  | _, _ => False
  end.

Lemma norm_min_rel b zb : brel b zb -> orel (norm_min b) (znorm_min zb).
Proof.
  intros (H1 & _ & H3 & _). unfold norm_min, znorm_min, orel in *.
  destruct (b_min b) as [m|], (zb_min zb) as [zm|]; try contradiction;
    destruct (b_emin b) as [e|], (zb_emin zb) as [ze|]; try contradiction; try exact I.
  - destruct H1 as [E1 S1]. destruct (fadd_sf _ _ H3) as [E3 S3]. split.
    + apply fmax_exact; assumption.
    + destruct (Z.max_spec zm (add1 ze)) as [[_ ->]|[_ ->]]; assumption.
  - exact H1.
  - apply fadd_sf. exact H3.
Qed.

Lemma norm_max_rel b zb : brel b zb -> orel (norm_max b) (znorm_max zb).
Proof.
  intros (_ & H2 & _ & H4 & _). unfold norm_max, znorm_max, orel in *.
  destruct (b_max b) as [m|], (zb_max zb) as [zm|]; try contradiction;
    destruct (b_emax b) as [e|], (zb_emax zb) as [ze|]; try contradiction; try exact I.
  - destruct H2 as [E2 S2]. destruct (fsub_sf _ _ H4) as [E4 S4]. split.
    + apply fmin_exact; assumption.
    + destruct (Z.min_spec zm (sub1 ze)) as [[_ ->]|[_ ->]]; assumption.
  - exact H2.
  - apply fsub_sf. exact H4.
Qed.

Lemma fit_type_rel mn mx zmn zmx :
  orel mn zmn -> orel mx zmx -> fit_type mn mx = zfit_type zmn zmx.
Proof.
  intros Hn Hx. pose proof (Forall2_rev' _ _ _ table_rel) as T.
  unfold orel in Hn, Hx.
  destruct mn as [n|], zmn as [zn|]; try contradiction;
    destruct mx as [x|], zmx as [zx|]; try contradiction; cbn [fit_type zfit_type]; [| | |reflexivity];
    apply (find_map_rel _ _ _ _ T); intros r zr (Hf & Ht & Hz & [Elo Slo] & [Ehi Shi]).
  - destruct Hn as [En Sn]. destruct Hx as [Ex Sx].
    rewrite (feq_exact _ _ _ _ En fone_exact).
    rewrite (close_exact _ _ _ _ Ehi Ex) by (apply safeZ_le64; assumption).
    rewrite (close_exact _ _ _ _ Elo En) by (apply safeZ_le64; assumption).
    rewrite Ht, Hz. reflexivity.
  - destruct Hn as [En Sn].
    rewrite (feq_exact _ _ _ _ En fone_exact).
    rewrite (close_exact _ _ _ _ Elo En) by (apply safeZ_le64; assumption).
    rewrite (fge_exact _ _ _ _ Ehi i64max_exact).
    rewrite Ht, Hz. reflexivity.
  - destruct Hx as [Ex Sx].
    rewrite (close_exact _ _ _ _ Ehi Ex) by (apply safeZ_le64; assumption).
    rewrite (fle_exact _ _ _ _ Elo i64min_exact).
    rewrite Ht. reflexivity.
Qed.

Lemma default_in_rel d zd mn mx zmn zmx :
  drel d zd -> orel mn zmn -> orel mx zmx -> default_in d mn mx = zdefault_in zd zmn zmx.
Proof.
  intros Hd Hn Hx. unfold drel, orel in *.
  destruct d as [[v|]|], zd as [[z|]|]; try contradiction; cbn [default_in zdefault_in]; try reflexivity.
  destruct mn as [n|], zmn as [zn|]; try contradiction;
    destruct mx as [x|], zmx as [zx|]; try contradiction; try reflexivity.
  - rewrite (fge_exact _ _ _ _ Hd (proj1 Hn)), (fle_exact _ _ _ _ Hd (proj1 Hx)). reflexivity.
  - rewrite (fge_exact _ _ _ _ Hd (proj1 Hn)). reflexivity.
  - rewrite (fle_exact _ _ _ _ Hd (proj1 Hx)). reflexivity.
Qed.

(* the local `general` of IntSelect.choose_integer, named *)
Definition fgeneral (format : option string) (d : dflt) (min max : option f64) : outcome :=
  if default_in d min max then
    match fit_type min max with
    | Some ty => Chosen ty
    | None => if match format with Some f => String.eqb f "uint64" | None => false end
              then match d with
                   | Some (Some v) => if flt v fzero then ErrInvalidValue else Chosen "u64"
                   | _ => Chosen "u64"
                   end
              else Chosen "i64"
    end
  else ErrInvalidValue.

Lemma fgeneral_rel fmt d zd mn mx zmn zmx :
  drel d zd -> orel mn zmn -> orel mx zmx -> fgeneral fmt d mn mx = zgeneral fmt zd zmn zmx.
Proof.
  intros Hd Hn Hx. unfold fgeneral, zgeneral.
  rewrite (default_in_rel _ _ _ _ _ _ Hd Hn Hx), (fit_type_rel _ _ _ _ Hn Hx).
  destruct (zdefault_in zd zmn zmx); [|reflexivity].
  destruct (zfit_type zmn zmx); [reflexivity|].
  destruct (match fmt with Some f => String.eqb f "uint64" | None => false end); [|reflexivity].
  unfold drel in Hd. destruct d as [[v|]|], zd as [[z|]|]; try contradiction; try reflexivity.
  rewrite (flt_exact _ _ _ _ Hd fzero_exact). reflexivity.
Qed.

Lemma choose_integer_unfold format b d :
  choose_integer format b d =
  let min := norm_min b in
  let max := norm_max b in
  match (match format with
         | Some f => find (fun r => String.eqb (r_fmt r) f) int_formats
         | None => None
         end) with
  | Some r =>
      let valid_min := match min with None => true | Some m => fge m (r_min r) end in
      let valid_max := match max with None => true | Some m => fle m (r_max r) end in
      if is_none (b_mult b) && valid_min && valid_max then
        let bad_default := match d with
                           | Some (Some v) =>
                               flt v (r_min r) || fgt v (r_max r)
                               || match min with Some m => flt v m | None => false end
                               || match max with Some m => fgt v m | None => false end
                           | _ => false
                           end in
        if bad_default then ErrInvalidValue
        else if is_one min then Chosen (r_nz r) else Chosen (r_ty r)
      else
        fgeneral format d (match min with None => Some (r_min r) | _ => min end)
                          (match max with None => Some (r_max r) | _ => max end)
  | None => fgeneral format d min max
  end.
Proof. reflexivity. Qed.

(* ---- the refinement, relational form ---- *)

Theorem refine_rel fmt b d zb zd :
  brel b zb -> drel d zd -> choose_integer fmt b d = choose_integer_Z fmt zb zd.
Proof.
  intros Hb Hd. rewrite choose_integer_unfold. unfold choose_integer_Z. cbv zeta.
  pose proof (norm_min_rel _ _ Hb) as Hn. pose proof (norm_max_rel _ _ Hb) as Hx.
  destruct Hb as (_ & _ & _ & _ & Hmu).
  set (mn := norm_min b) in *. set (mx := norm_max b) in *.
  set (zmn := znorm_min zb) in *. set (zmx := znorm_max zb) in *.
  destruct fmt as [f|]; [|apply fgeneral_rel; assumption].
  pose proof (find_rel f _ _ table_rel) as Hrow.
  destruct (find (fun r => String.eqb (r_fmt r) f) int_formats) as [r|],
           (find (fun r => String.eqb (z_fmt r) f) int_formats_Z) as [zr|]; try contradiction;
    [|apply fgeneral_rel; assumption].
  destruct Hrow as (Hf & Ht & Hz & [Elo Slo] & [Ehi Shi]).
  rewrite Hmu, negb_involutive.
  assert (Hvmin : match mn with None => true | Some m => fge m (r_min r) end
                  = match zmn with None => true | Some m => m >=? z_lo zr end).
  { unfold orel in Hn. destruct mn as [m|], zmn as [zm|]; try contradiction; [|reflexivity].
    apply fge_exact; [exact (proj1 Hn) | exact Elo]. }
  assert (Hvmax : match mx with None => true | Some m => fle m (r_max r) end
                  = match zmx with None => true | Some m => m <=? z_hi zr end).
  { unfold orel in Hx. destruct mx as [m|], zmx as [zm|]; try contradiction; [|reflexivity].
    apply fle_exact; [exact (proj1 Hx) | exact Ehi]. }
  rewrite Hvmin, Hvmax.
  destruct (is_none (b_mult b) && _ && _).
  - assert (Hbad : match d with
                   | Some (Some v) =>
                       flt v (r_min r) || fgt v (r_max r)
                       || match mn with Some m => flt v m | None => false end
                       || match mx with Some m => fgt v m | None => false end
                   | _ => false
                   end
                   = match zd with
                     | Some (Some v) =>
                         (v <? z_lo zr) || (v >? z_hi zr)
                         || match zmn with Some m => v <? m | None => false end
                         || match zmx with Some m => v >? m | None => false end
                     | _ => false
                     end).
    { unfold drel in Hd. destruct d as [[v|]|], zd as [[z|]|]; try contradiction; try reflexivity.
      rewrite (flt_exact _ _ _ _ Hd Elo), (fgt_exact _ _ _ _ Hd Ehi).
      unfold orel in Hn, Hx.
      destruct mn as [m|], zmn as [zm|]; try contradiction;
        destruct mx as [m'|], zmx as [zm'|]; try contradiction;
        try rewrite (flt_exact _ _ _ _ Hd (proj1 Hn)); try rewrite (fgt_exact _ _ _ _ Hd (proj1 Hx)); reflexivity. }
    rewrite Hbad.
    assert (Hone : is_one mn = zis_one zmn).
    { unfold is_one, zis_one, orel in *. destruct mn as [m|], zmn as [zm|]; try contradiction; [|reflexivity].
      apply feq_exact; [exact (proj1 Hn) | exact fone_exact]. }
    rewrite Hone, Hz, Ht. reflexivity.
  - apply fgeneral_rel; [exact Hd | |].
    + unfold orel in *. destruct mn as [m|], zmn as [zm|]; try contradiction; [exact Hn | split; assumption].
    + unfold orel in *. destruct mx as [m|], zmx as [zm|]; try contradiction; [exact Hx | split; assumption].
Qed.

(* ---- functional form: the integer-level inputs are computed by Zof ---- *)

Lemma osafe_orel o : osafe o -> orel o (option_map Zof0 o).
Proof.
  intros H. destruct o as [x|]; cbn [option_map orel]; [|exact I].
  destruct (H x eq_refl) as (z & Hz & Hs). unfold Zof0. rewrite (Zof_complete _ _ Hz). split; assumption.
Qed.

Lemma safe_bounds_brel b : safe_bounds b -> brel b (zb_of b).
Proof.
  intros (H1 & H2 & H3 & H4). unfold brel, zb_of. cbn [zb_min zb_max zb_emin zb_emax zb_mult].
  repeat split; try (apply osafe_orel; assumption). destruct (b_mult b); reflexivity.
Qed.

Lemma safe_default_drel d : safe_default d -> drel d (zd_of d).
Proof.
  intros H. destruct d as [[v|]|]; cbn [zd_of option_map drel]; try exact I.
  destruct (H v eq_refl) as (z & Hz). unfold Zof0. rewrite (Zof_complete _ _ Hz). exact Hz.
Qed.

Theorem choose_integer_refines fmt b d :
  safe_bounds b -> safe_default d ->
  choose_integer fmt b d = choose_integer_Z fmt (zb_of b) (zd_of d).
Proof.
  intros Hb Hd. apply refine_rel; [apply safe_bounds_brel; exact Hb | apply safe_default_drel; exact Hd].
Qed.

(* ---- the computable domain test used by the correspondence run ---- *)

Lemma safe_b x : safe x <-> safeb x = true.
Proof.
  unfold safe, safeb. split.
  - intros (z & Hz & Hs). rewrite (Zof_complete _ _ Hz). apply safeZ_b. exact Hs.
  - destruct (Zof x) as [z|] eqn:E; [|discriminate]. intros H. exists z. split; [apply Zof_sound; exact E | apply safeZ_b; exact H].
Qed.

Lemma osafe_b o : osafe o <-> osafeb o = true.
Proof.
  unfold osafe, osafeb. destruct o as [x|].
  - rewrite <- safe_b. split; [intros H; apply H; reflexivity | intros H y Hy; inversion Hy; subst; exact H].
  - split; [reflexivity | intros _ y Hy; discriminate Hy].
Qed.

Lemma safe_bounds_b b : safe_bounds b <-> safe_boundsb b = true.
Proof.
  unfold safe_bounds, safe_boundsb. rewrite !andb_true_iff, <- !osafe_b. tauto.
Qed.

Lemma safe_default_b d : safe_default d <-> safe_defaultb d = true.
Proof.
  unfold safe_default, safe_defaultb. destruct d as [[v|]|].
  - split.
    + intros H. destruct (H v eq_refl) as (z & Hz). rewrite (Zof_complete _ _ Hz). reflexivity.
    + destruct (Zof v) as [z|] eqn:E; [|discriminate]. intros _ y Hy. inversion Hy; subst. exists z. apply Zof_sound. exact E.
  - split; [reflexivity | intros _ y Hy; discriminate Hy].
  - split; [reflexivity | intros _ y Hy; discriminate Hy].
Qed.

(* the default only filters: the chosen type is the one chosen without it *)
Lemma chosen_without_default fmt b d ty :
  choose_integer fmt b d = Chosen ty -> choose_integer fmt b None = Chosen ty.
Proof.
  rewrite !choose_integer_unfold. cbv zeta.
  assert (G : forall mn mx, fgeneral fmt d mn mx = Chosen ty -> fgeneral fmt None mn mx = Chosen ty).
  { intros mn mx. unfold fgeneral. cbn [default_in].
    destruct (default_in d mn mx); [|discriminate].
    destruct (fit_type mn mx); [exact (fun H => H)|].
    destruct (match fmt with Some f => String.eqb f "uint64" | None => false end); [|exact (fun H => H)].
    destruct d as [[v|]|]; [destruct (flt v fzero); [discriminate|] | |]; exact (fun H => H). }
  destruct (match fmt with Some f => find (fun r => String.eqb (r_fmt r) f) int_formats | None => None end) as [r|];
    [|apply G].
  destruct (is_none (b_mult b) && _ && _); [|apply G].
  destruct (match d with Some (Some v) => _ | _ => false end); [discriminate|]. exact (fun H => H).
Qed.
