(* C13 — proofs about Algo/Semver.v: semver's matcher (eval.rs) coincides with
   Cargo's documented interval semantics. *)
From Coq Require Import NArith List Bool Lia.
From Typify Require Import Algo.Semver.
Import ListNotations.
Open Scope N_scope.

(* ------------------------------------------------ pre-release tag ordering *)

Lemma bytes_eqb_compare : forall a b,
  bytes_eqb a b = match bytes_compare a b with Eq => true | _ => false end.
Proof.
  induction a as [|x a IH]; destruct b as [|y b]; cbn [bytes_eqb bytes_compare]; try reflexivity.
  destruct (N.eqb_spec x y) as [->|Hne].
  - rewrite N.compare_refl. cbn [andb]. apply IH.
  - cbn [andb]. destruct (N.compare_spec x y); [contradiction| reflexivity | reflexivity].
Qed.

Lemma ident_eqb_compare : forall a b,
  ident_eqb a b = match ident_compare a b with Eq => true | _ => false end.
Proof.
  destruct a as [x|x], b as [y|y]; cbn [ident_eqb ident_compare]; try reflexivity.
  - destruct (N.eqb_spec x y) as [->|Hne].
    + now rewrite N.compare_refl.
    + destruct (N.compare_spec x y); [contradiction| reflexivity | reflexivity].
  - apply bytes_eqb_compare.
Qed.

Lemma idents_eqb_compare : forall a b,
  pre_eqb a b = match idents_compare a b with Eq => true | _ => false end.
Proof.
  induction a as [|x a IH]; destruct b as [|y b]; cbn [pre_eqb idents_compare]; try reflexivity.
  rewrite ident_eqb_compare. destruct (ident_compare x y); cbn [andb]; try reflexivity. apply IH.
Qed.

Lemma pre_eqb_compare : forall a b,
  pre_eqb a b = match pre_compare a b with Eq => true | _ => false end.
Proof.
  intros a b. rewrite idents_eqb_compare.
  destruct a, b; reflexivity.
Qed.

Lemma bytes_compare_eq : forall a b, bytes_compare a b = Eq <-> a = b.
Proof.
  induction a as [|x a IH]; destruct b as [|y b]; cbn [bytes_compare]; split; intro H;
    try reflexivity; try discriminate.
  - destruct (N.compare_spec x y) as [->|?|?]; try discriminate. f_equal. now apply IH.
  - injection H as -> ->. rewrite N.compare_refl. now apply IH.
Qed.

Lemma ident_compare_eq : forall a b, ident_compare a b = Eq <-> a = b.
Proof.
  destruct a as [x|x], b as [y|y]; cbn [ident_compare]; split; intro H; try discriminate.
  - apply N.compare_eq_iff in H. now subst.
  - injection H as ->. apply N.compare_refl.
  - apply bytes_compare_eq in H. now subst.
  - injection H as ->. now apply bytes_compare_eq.
Qed.

Lemma idents_compare_eq : forall a b, idents_compare a b = Eq <-> a = b.
Proof.
  induction a as [|x a IH]; destruct b as [|y b]; cbn [idents_compare]; split; intro H;
    try reflexivity; try discriminate.
  - destruct (ident_compare x y) eqn:E; try discriminate.
    apply ident_compare_eq in E. subst. f_equal. now apply IH.
  - injection H as -> ->.
    replace (ident_compare y y) with Eq by (symmetry; now apply ident_compare_eq). now apply IH.
Qed.

Lemma pre_compare_eq : forall a b, pre_compare a b = Eq <-> a = b.
Proof.
  intros a b. destruct a, b; cbn [pre_compare]; try (split; intro; discriminate); try tauto.
  apply idents_compare_eq.
Qed.

Lemma bytes_compare_antisym : forall a b, bytes_compare b a = CompOpp (bytes_compare a b).
Proof.
  induction a as [|x a IH]; destruct b as [|y b]; cbn [bytes_compare]; try reflexivity.
  rewrite (N.compare_antisym x y). destruct (x ?= y); cbn [CompOpp]; try reflexivity. apply IH.
Qed.

Lemma ident_compare_antisym : forall a b, ident_compare b a = CompOpp (ident_compare a b).
Proof.
  destruct a as [x|x], b as [y|y]; cbn [ident_compare]; try reflexivity.
  - apply N.compare_antisym.
  - apply bytes_compare_antisym.
Qed.

Lemma idents_compare_antisym : forall a b, idents_compare b a = CompOpp (idents_compare a b).
Proof.
  induction a as [|x a IH]; destruct b as [|y b]; cbn [idents_compare]; try reflexivity.
  rewrite (ident_compare_antisym x y). destruct (ident_compare x y); cbn [CompOpp]; try reflexivity.
  apply IH.
Qed.

Lemma pre_compare_antisym : forall a b, pre_compare b a = CompOpp (pre_compare a b).
Proof.
  intros a b. destruct a, b; cbn [pre_compare]; try reflexivity. apply idents_compare_antisym.
Qed.

Lemma bytes_compare_trans : forall a b c,
  bytes_compare a b = Lt -> bytes_compare b c = Lt -> bytes_compare a c = Lt.
Proof.
  induction a as [|x a IH]; destruct b as [|y b]; destruct c as [|z c]; cbn [bytes_compare];
    intros H1 H2; try discriminate; try reflexivity.
  destruct (N.compare_spec x y) as [->|Hxy|Hxy]; try discriminate.
  - destruct (N.compare_spec y z) as [->|Hyz|Hyz]; try discriminate; [now apply (IH b)| reflexivity].
  - destruct (N.compare_spec y z) as [->|Hyz|Hyz]; try discriminate.
    + destruct (N.compare_spec x z); [exfalso; lia| reflexivity | exfalso; lia].
    + destruct (N.compare_spec x z); [exfalso; lia| reflexivity | exfalso; lia].
Qed.

Lemma ident_compare_trans : forall a b c,
  ident_compare a b = Lt -> ident_compare b c = Lt -> ident_compare a c = Lt.
Proof.
  destruct a as [x|x], b as [y|y], c as [z|z]; cbn [ident_compare]; intros H1 H2;
    try discriminate; try reflexivity.
  - destruct (N.compare_spec x y); try discriminate.
    destruct (N.compare_spec y z); try discriminate.
    destruct (N.compare_spec x z); [exfalso; lia | reflexivity | exfalso; lia].
  - now apply (bytes_compare_trans x y z).
Qed.

Lemma idents_compare_trans : forall a b c,
  idents_compare a b = Lt -> idents_compare b c = Lt -> idents_compare a c = Lt.
Proof.
  induction a as [|x a IH]; destruct b as [|y b]; destruct c as [|z c]; cbn [idents_compare];
    intros H1 H2; try discriminate; try reflexivity.
  destruct (ident_compare x y) eqn:Exy; try discriminate.
  - apply ident_compare_eq in Exy. subst y.
    destruct (ident_compare x z); try discriminate; [now apply (IH b)| reflexivity].
  - destruct (ident_compare y z) eqn:Eyz; try discriminate.
    + apply ident_compare_eq in Eyz. subst z. now rewrite Exy.
    + now rewrite (ident_compare_trans x y z Exy Eyz).
Qed.

Lemma pre_compare_trans : forall a b c,
  pre_compare a b = Lt -> pre_compare b c = Lt -> pre_compare a c = Lt.
Proof.
  intros a b c. destruct a, b, c; cbn [pre_compare]; intros H1 H2; try discriminate; try reflexivity.
  now apply (idents_compare_trans _ (i0 :: b)).
Qed.

(* pre_compare is a total order on tags in which the empty tag (a release) is the maximum *)
Lemma pre_compare_total_order :
  (forall a b, pre_compare a b = Eq <-> a = b) /\
  (forall a b, pre_compare b a = CompOpp (pre_compare a b)) /\
  (forall a b c, pre_compare a b = Lt -> pre_compare b c = Lt -> pre_compare a c = Lt) /\
  (forall a, a <> [] -> pre_compare a [] = Lt).
Proof.
  repeat split.
  - apply pre_compare_eq.
  - intros ->. now apply pre_compare_eq.
  - apply pre_compare_antisym.
  - apply pre_compare_trans.
  - intros a Ha. destruct a; [contradiction | reflexivity].
Qed.

(* ------------------------------------------- comparator = documented interval *)

Ltac step :=
  match goal with
  | |- context [N.eqb ?x ?y] => destruct (N.eqb_spec x y)
  | |- context [N.ltb ?x ?y] => destruct (N.ltb_spec x y)
  | |- context [N.leb ?x ?y] => destruct (N.leb_spec x y)
  | |- context [N.compare ?x ?y] => destruct (N.compare_spec x y)
  end; try (exfalso; lia); cbn -[N.add N.compare N.eqb N.ltb N.leb].

Ltac crunch := repeat step; try reflexivity; try (exfalso; lia).

Ltac expose :=
  unfold matches_impl, in_range, desugar, matches_exact, matches_greater, matches_less,
    matches_tilde, matches_caret, in_lower, in_upper, vcompare, tcompare, triple_of, R,
    pre_gt, pre_lt, pre_ge;
  cbn -[N.add N.compare N.eqb N.ltb N.leb pre_compare pre_eqb].

(* a comparator written with a full version: for every version, tagged or not *)
Lemma matches_impl_full : forall c v,
  wf_comparator c = true -> is_full c = true -> matches_impl c v = in_range c v.
Proof.
  intros [o I J K p] [a b d q] Hwf Hfull.
  unfold is_full in Hfull. unfold wf_comparator in Hwf. cbn in Hfull, Hwf.
  destruct J as [J|]; [|discriminate]. destruct K as [K|]; [|discriminate].
  destruct o; try discriminate; expose; rewrite ?pre_eqb_compare;
    destruct (pre_compare q p) eqn:Epre; crunch.
Qed.

(* a comparator written with a partial version, on release versions *)
Lemma matches_impl_partial_release : forall c v,
  wf_comparator c = true -> is_full c = false -> vpre v = [] -> matches_impl c v = in_range c v.
Proof.
  intros [o I J K p] [a b d q] Hwf Hpart Hrel.
  unfold is_full in Hpart. unfold wf_comparator in Hwf. cbn in Hpart, Hwf, Hrel. subst q.
  destruct J as [J|]; destruct K as [K|]; try discriminate;
    (destruct p; [|discriminate]);
    destruct o; expose; crunch.
Qed.

Lemma pre_is_compatible_asks : forall c v, pre_is_compatible c v = asks_prerelease c v.
Proof.
  intros [o I J K p] [a b d q].
  unfold pre_is_compatible, asks_prerelease, opt_is, pre_is_empty, tcompare, triple_of.
  cbn -[N.compare N.eqb].
  destruct J as [J|]; destruct K as [K|]; destruct p; cbn -[N.compare N.eqb];
    rewrite ?andb_false_r; try reflexivity; crunch.
Qed.

Lemma forallb_ext_in : forall {A} (f g : A -> bool) l,
  (forall x, In x l -> f x = g x) -> forallb f l = forallb g l.
Proof.
  induction l as [|x l IH]; intros H; cbn [forallb]; [reflexivity|].
  rewrite (H x (or_introl eq_refl)). f_equal. apply IH. intros y Hy. apply H. now right.
Qed.

Lemma existsb_ext : forall {A} (f g : A -> bool) l,
  (forall x, f x = g x) -> existsb f l = existsb g l.
Proof.
  induction l as [|x l IH]; intros H; cbn [existsb]; [reflexivity|]. now rewrite H, IH.
Qed.

(* semver's matcher IS the documented semantics: on every release version, and
   on every version when the requirement is written with full versions *)
Theorem matches_is_cargo : forall (r : req) (v : version),
  forallb wf_comparator r = true ->
  vpre v = [] \/ forallb is_full r = true ->
  matches_req r v = sat_cargo r v.
Proof.
  intros r v Hwf Hreg. unfold matches_req, sat_cargo.
  assert (Hall : forallb (fun c => matches_impl c v) r = forallb (fun c => in_range c v) r).
  { apply forallb_ext_in. intros c Hc.
    rewrite forallb_forall in Hwf. specialize (Hwf c Hc).
    destruct (is_full c) eqn:Ef.
    - now apply matches_impl_full.
    - destruct Hreg as [Hrel|Hfull].
      + now apply matches_impl_partial_release.
      + rewrite forallb_forall in Hfull. rewrite (Hfull c Hc) in Ef. discriminate. }
  rewrite Hall.
  destruct (forallb (fun c => in_range c v) r); cbn [negb andb]; [|reflexivity].
  destruct (vpre v); cbn [pre_is_empty]; [reflexivity|].
  apply existsb_ext. intro c. apply pre_is_compatible_asks.
Qed.

(* ... and the side condition cannot be dropped: a pre-release version against
   a requirement containing a PARTIAL comparator is outside what the
   documentation determines.  eval.rs lets `>1.2` accept 1.3.0-alpha (the
   documented reading `>=1.3.0` does not), and lets `>=1.2` reject 1.2.5-alpha
   (the documented reading `>=1.2.0` does not). *)
Definition gap_req_1 : req :=
  [C Greater 1 (Some 2) None []; C Less 1 (Some 3) (Some 0) [IAlnum [98]]].   (* >1.2, <1.3.0-b *)
Definition gap_ver_1 : version := V 1 3 0 [IAlnum [97]].                      (* 1.3.0-a *)
Definition gap_req_2 : req :=
  [C GreaterEq 1 (Some 2) None []; C Less 1 (Some 2) (Some 5) [IAlnum [98]]]. (* >=1.2, <1.2.5-b *)
Definition gap_ver_2 : version := V 1 2 5 [IAlnum [97]].                      (* 1.2.5-a *)

Lemma matches_is_cargo_gap :
  (forallb wf_comparator gap_req_1 = true /\
   matches_req gap_req_1 gap_ver_1 = true /\ sat_cargo gap_req_1 gap_ver_1 = false) /\
  (forallb wf_comparator gap_req_2 = true /\
   matches_req gap_req_2 gap_ver_2 = false /\ sat_cargo gap_req_2 gap_ver_2 = true).
Proof. vm_compute. repeat split. Qed.

(* the documented examples, as statements about numbers *)
Lemma caret_1_2_3_release : forall a b d,
  matches_req [C Caret 1 (Some 2) (Some 3) []] (V a b d []) = true <->
  (a = 1 /\ (2 < b \/ (b = 2 /\ 3 <= d))).
Proof.
  intros a b d. rewrite matches_is_cargo by (try reflexivity; now left).
  unfold sat_cargo, in_range, desugar, in_lower, in_upper, vcompare, tcompare, triple_of.
  cbn -[N.add N.compare N.eqb N.ltb N.leb].
  split.
  - repeat step; intro Hm; try discriminate; lia.
  - intros [-> Hm]. repeat step; try reflexivity; try lia.
Qed.

(* ------------------------------------------------ algebraic laws of the matcher *)
(* a requirement is the CONJUNCTION of its comparators plus one pre-release gate:
   neither the order of the comparators nor a split of the list changes the verdict *)
From Coq Require Import Permutation.

Lemma forallb_perm {A} (f : A -> bool) : forall l l', Permutation l l' -> forallb f l = forallb f l'.
Proof.
  intros l l' HP; induction HP as [|x l l' HP IH|x y l|l l' l'' HP1 IH1 HP2 IH2];
    cbn [forallb]; [reflexivity| now rewrite IH | | congruence].
  destruct (f x), (f y); reflexivity.
Qed.

Lemma existsb_perm {A} (f : A -> bool) : forall l l', Permutation l l' -> existsb f l = existsb f l'.
Proof.
  intros l l' HP; induction HP as [|x l l' HP IH|x y l|l l' l'' HP1 IH1 HP2 IH2];
    cbn [existsb]; [reflexivity| now rewrite IH | | congruence].
  destruct (f x), (f y); reflexivity.
Qed.

(* closed form of the matcher *)
Lemma matches_req_closed : forall r v,
  matches_req r v =
  forallb (fun c => matches_impl c v) r
  && (pre_is_empty (vpre v) || existsb (fun c => pre_is_compatible c v) r).
Proof.
  intros r v; unfold matches_req.
  destruct (forallb _ r); cbn [negb andb]; [|reflexivity].
  destruct (pre_is_empty (vpre v)); reflexivity.
Qed.

Theorem matches_req_perm : forall r r' v, Permutation r r' -> matches_req r v = matches_req r' v.
Proof.
  intros r r' v HP; rewrite !matches_req_closed.
  now rewrite (forallb_perm _ _ _ HP), (existsb_perm _ _ _ HP).
Qed.

Theorem matches_req_app : forall r1 r2 v,
  matches_req (r1 ++ r2) v =
  forallb (fun c => matches_impl c v) r1 && forallb (fun c => matches_impl c v) r2
  && (pre_is_empty (vpre v) || existsb (fun c => pre_is_compatible c v) r1
      || existsb (fun c => pre_is_compatible c v) r2).
Proof.
  intros r1 r2 v; rewrite matches_req_closed, forallb_app, existsb_app.
  now rewrite orb_assoc.
Qed.

(* on release versions a requirement is exactly the conjunction of its parts *)
Theorem matches_req_app_release : forall r1 r2 v, vpre v = [] ->
  matches_req (r1 ++ r2) v = matches_req r1 v && matches_req r2 v.
Proof.
  intros r1 r2 v Hv; rewrite !matches_req_closed, forallb_app, Hv; cbn [pre_is_empty orb].
  now rewrite !andb_true_r.
Qed.

(* adding comparators never admits a version that was rejected for an
   unsatisfied comparator: a match of the longer list needs every comparator of
   the shorter one to match *)
Theorem matches_req_app_narrows : forall r1 r2 v,
  matches_req (r1 ++ r2) v = true -> forallb (fun c => matches_impl c v) r1 = true.
Proof.
  intros r1 r2 v H; rewrite matches_req_app in H.
  apply andb_true_iff in H as [H _]; apply andb_true_iff in H as [H _]; exact H.
Qed.

(* `*` (no comparator) matches exactly the release versions *)
Theorem matches_req_star : forall v, matches_req [] v = pre_is_empty (vpre v).
Proof. intros v; rewrite matches_req_closed; cbn [forallb existsb andb]; now rewrite orb_false_r. Qed.
