(* Proofs/ConvertRtProofs.v -- C03 on the converter fragment: every entry of the
   type space the converter model produces is [node_ok] and the set of all its
   ids is closed under children ([rt_set]), so the round-trip theorems of
   RoundTripProofs.v (rt_core, contains_core) hold for EVERY type of EVERY
   fragment document.  Goes through ConvertShapeProofs.convert_shape
   ([ents_ok], [DefsNamed]). *)
From Coq Require Import String ZArith NArith QArith List Bool Lia.
From Typify Require Import Base.Json Spec.Schema Spec.Valid IR.TypeIR IR.Serde Check.RoundTrip.
From Typify Require Import Proofs.SerdeProofs Proofs.RoundTripProofs.
From Typify Require Algo.Heck Algo.Sanitize.
From Typify Require Import Algo.Convert Proofs.ConvertProofs Proofs.ConvertShapeProofs.
Import ListNotations.
Close Scope Q_scope.
Close Scope string_scope.
Open Scope list_scope.
Open Scope N_scope.

Lemma lookup_id_dom {X} i (l : list (id * X)) x : lookup_id i l = Some x -> In i (map fst l).
Proof.
  induction l as [|[j y] l IH]; cbn [lookup_id map fst In]; [discriminate|].
  destruct (i =? j) eqn:E; [apply N.eqb_eq in E; subst; intros _; left; reflexivity|].
  intro H. right. exact (IH H).
Qed.

Lemma dom_lookup_id {X} i (l : list (id * X)) : In i (map fst l) -> exists x, lookup_id i l = Some x.
Proof.
  induction l as [|[j y] l IH]; cbn [lookup_id map fst In]; [intros []|].
  destruct (i =? j) eqn:E; [intros _; eexists; reflexivity|].
  intros [H|H]; [subst; rewrite N.eqb_refl in E; discriminate|exact (IH H)].
Qed.

Definition all_ids (T : space) : list id := map fst (sp_entries T).

(* Check/RoundTrip.v does not claim the round trip for untagged enums (serde tries the variants in order:
   the output of one variant may be read back by an earlier one).  The converter produces them for a oneOf of
   plain scalar arms; the C03 theorems below are about spaces without them - a decidable condition on the
   type space the converter returned. *)
Definition no_untagged (T : space) : bool :=
  forallb (fun ie => match e_det (snd ie) with DEnum _ _ TagUntagged _ _ _ => false | _ => true end) (sp_entries T).

Lemma no_untagged_get T i e : no_untagged T = true -> get T i = Some e ->
  match e_det e with DEnum _ _ TagUntagged _ _ _ => False | _ => True end.
Proof.
  unfold no_untagged, get. intros H Hg. rewrite forallb_forall in H.
  assert (Hin : In (i, e) (sp_entries T)).
  { clear - Hg. induction (sp_entries T) as [|[j y] l IH]; cbn [lookup_id] in Hg; [discriminate|].
    destruct (i =? j) eqn:E; [apply N.eqb_eq in E; subst; injection Hg as ->; left; reflexivity|right; exact (IH Hg)]. }
  specialize (H _ Hin). cbn [snd] in H. destruct (e_det e) as [? ? [] ? ? ?| | | | | | | | | | | | | | | | |]; try exact I. discriminate.
Qed.

Section Rt.
  Variable nD : N.
  Variable T : space.
  Hypothesis Hok : ents_ok nD (get T).
  Hypothesis Hdefs : forall i, 1 <= i -> i <= nD -> exists d, get_det T i = Some d /\ det_name d <> None.
  Hypothesis Hnu : no_untagged T = true.

  Lemma idok_in t : idok nD (get T) t -> mem_id t (all_ids T) = true.
  Proof.
    intros [[H1 H2]|(e & He)]; apply mem_id_In.
    - destruct (Hdefs t H1 H2) as (d & Hd & _). unfold get_det, get in Hd.
      destruct (lookup_id t (sp_entries T)) as [e|] eqn:E; [|discriminate]. exact (lookup_id_dom _ _ _ E).
    - exact (lookup_id_dom _ _ _ He).
  Qed.

  Lemma ents_rt_set : rt_set T (all_ids T) = true.
  Proof.
    unfold rt_set. apply forallb_forall. intros i Hi.
    destruct (dom_lookup_id i _ Hi) as (e & He).
    assert (Hg : get T i = Some e) by exact He.
    unfold get_det. rewrite Hg. cbn [option_map].
    pose proof (proj1 Hok i e Hg) as Hd.
    destruct (e_det e) as [n dv tag vs dn bes|n dv ps dn|n dv t c|? ? ?|t|?|t|k v|t|t ?|ts| | |?|?| | |?] eqn:Heq;
      cbn [det_ok] in Hd; try contradiction; cbn [node_ok children forallb andb]; try reflexivity.
    - (* enum *)
      assert (Hkids : forall v, In v vs -> vdet_ok nD (get T) (v_det v) ->
                forall c, In c (match v_det v with VSimple => [] | VItem t => [t] | VTuple ts => ts | VStruct ps => map p_ty ps end) ->
                mem_id c (all_ids T) = true).
      { intros v Hv Hok' c Hc. destruct (v_det v) as [|t|ts|ps]; cbn [vdet_ok] in Hok'.
        - destruct Hc.
        - destruct Hc as [<-|[]]. apply idok_in. exact Hok'.
        - apply idok_in. exact (Hok' c Hc).
        - apply in_map_iff in Hc. destruct Hc as (p & <- & Hp). apply idok_in. exact (proj2 Hok' p Hp). }
      pose proof (no_untagged_get T i e Hnu Hg) as Hnot.
      destruct tag as [|tg|tg ct|]; [| | |rewrite Heq in Hnot; contradiction].
      + (* external *)
        assert (H1 : forallb (fun v => match v_det v with VStruct ps => props_ok ps | _ => true end) vs = true).
        { apply forallb_forall. intros v Hv. specialize (Hd v Hv). destruct (v_det v); try reflexivity. exact (proj1 Hd). }
        rewrite H1. cbn [andb]. apply forallb_forall. intros c Hc.
        apply in_flat_map in Hc. destruct Hc as (v & Hv & Hc). exact (Hkids v Hv (Hd v Hv) c Hc).
      + (* internal *)
        assert (H1 : forallb (fun v => match v_det v with
                                       | VSimple => true
                                       | VStruct ps => props_ok ps && negb (mem_ustr tg (wire_names ps))
                                       | _ => false end) vs = true).
        { apply forallb_forall. intros v Hv. specialize (Hd v Hv). destruct (v_det v); try contradiction; try reflexivity.
          destruct Hd as [[Hp _] Hm]. rewrite Hp, Hm. reflexivity. }
        rewrite H1. cbn [andb]. apply forallb_forall. intros c Hc.
        apply in_flat_map in Hc. destruct Hc as (v & Hv & Hc). apply (Hkids v Hv); [|exact Hc].
        specialize (Hd v Hv). destruct (v_det v); try contradiction; try exact I; exact (proj1 Hd).
      + (* adjacent *)
        destruct Hd as [Htc Hd]. rewrite Htc. cbn [negb andb].
        assert (H1 : forallb (fun v => match v_det v with VStruct ps => props_ok ps | _ => true end) vs = true).
        { apply forallb_forall. intros v Hv. specialize (Hd v Hv). destruct (v_det v); try reflexivity. exact (proj1 Hd). }
        rewrite H1. cbn [andb]. apply forallb_forall. intros c Hc.
        apply in_flat_map in Hc. destruct Hc as (v & Hv & Hc). exact (Hkids v Hv (Hd v Hv) c Hc).
    - (* struct *)
      destruct Hd as [Hp Hids]. rewrite Hp. cbn [andb]. apply forallb_forall. intros c Hc.
      apply in_map_iff in Hc. destruct Hc as (p & <- & Hp'). apply idok_in. exact (Hids p Hp').
    - (* newtype *)
      destruct c; try contradiction; rewrite (idok_in t Hd); reflexivity.
    - (* option *)
      destruct Hd as [Hid Hno]. rewrite (idok_in t Hid). rewrite andb_true_r.
      unfold get_det. destruct (get T t) as [e'|] eqn:E; [|reflexivity]. cbn [option_map].
      pose proof (Hno e' eq_refl) as H. unfold not_option in H. destruct (e_det e'); try reflexivity. contradiction.
    - (* vec *) rewrite (idok_in t Hd). reflexivity.
    - (* map *)
      destruct Hd as [(ek & Hk & Hks) Hv]. unfold get_det at 1. rewrite Hk. cbn [option_map]. rewrite Hks.
      rewrite (idok_in v Hv). rewrite andb_true_r.
      assert (Hkin : mem_id k (all_ids T) = true) by (apply mem_id_In; exact (lookup_id_dom _ _ _ Hk)).
      rewrite Hkin. reflexivity.
    - (* set *) rewrite (idok_in t Hd). reflexivity.
    - (* array *) rewrite (idok_in t Hd). reflexivity.
    - (* tuple *) apply forallb_forall. intros c Hc. apply idok_in. exact (Hd c Hc).
  Qed.
End Rt.

(* ------------------------------------------------------------------ the worklist [reach] computes a closed set *)
Open Scope nat_scope.
Section Reach.
  Variable T : space.
  Let dom : list id := map fst (sp_entries T).
  Hypothesis Hnd : NoDup dom.
  Hypothesis Hset : rt_set T dom = true.

  Definition kids (i : id) : list id := match get_det T i with Some d => children d | None => [] end.

  Lemma dom_node i : In i dom -> exists d, get_det T i = Some d /\ node_ok T d = true /\ (forall c, In c (children d) -> In c dom).
  Proof.
    intro Hi. unfold rt_set in Hset. rewrite forallb_forall in Hset. specialize (Hset i Hi).
    destruct (get_det T i) as [d|]; [|discriminate]. apply andb_true_iff in Hset. destruct Hset as [H1 H2].
    exists d. split; [reflexivity|]. split; [exact H1|]. intros c Hc. rewrite forallb_forall in H2.
    apply mem_id_In. exact (H2 c Hc).
  Qed.

  (* weight of the ids not yet seen *)
  Fixpoint wgt (l : list id) (seen : list id) : nat :=
    match l with
    | [] => 0
    | i :: r => (if mem_id i seen then 0 else 1 + length (kids i)) + wgt r seen
    end.

  Lemma wgt_add l : forall i seen, ~ In i l -> wgt l (i :: seen) = wgt l seen.
  Proof.
    induction l as [|j l IH]; intros i seen Hn; [reflexivity|]. cbn [wgt].
    rewrite IH by (intro H; apply Hn; right; exact H).
    assert (E : mem_id j (i :: seen) = mem_id j seen).
    { unfold mem_id. cbn [existsb]. destruct (N.eqb j i) eqn:E; [|reflexivity].
      apply N.eqb_eq in E. subst. exfalso. apply Hn. left. reflexivity. }
    rewrite E. reflexivity.
  Qed.

  Lemma wgt_see l : forall i seen, NoDup l -> In i l -> mem_id i seen = false ->
    wgt l seen = 1 + length (kids i) + wgt l (i :: seen).
  Proof.
    induction l as [|j l IH]; intros i seen Hn Hi Hs; [destruct Hi|]. inversion Hn as [|? ? Hj Hl]; subst.
    cbn [wgt]. destruct Hi as [->|Hi].
    - rewrite Hs. rewrite (wgt_add l i seen Hj).
      assert (E : mem_id i (i :: seen) = true) by (unfold mem_id; cbn [existsb]; rewrite N.eqb_refl; reflexivity).
      rewrite E. lia.
    - rewrite (IH i seen Hl Hi Hs).
      assert (E : mem_id j (i :: seen) = mem_id j seen).
      { unfold mem_id. cbn [existsb]. destruct (N.eqb j i) eqn:E; [|reflexivity].
        apply N.eqb_eq in E. subst. contradiction. }
      rewrite E. lia.
  Qed.

  Definition closedI (todo seen : list id) : Prop :=
    (forall j, In j seen -> In j dom) /\ (forall j, In j todo -> In j dom) /\
    (forall j, In j seen -> forall c, In c (kids j) -> In c seen \/ In c todo).

  Lemma reach_closed : forall fuel todo seen,
    closedI todo seen -> length todo + wgt dom seen < fuel ->
    let R := reach T fuel todo seen in
    (forall j, In j seen -> In j R) /\ (forall j, In j todo -> In j R) /\
    (forall j, In j R -> In j dom) /\ (forall j, In j R -> forall c, In c (kids j) -> In c R).
  Proof.
    induction fuel as [|fuel IH]; intros todo seen HI Hf; [lia|].
    destruct HI as (Hs & Ht & Hc). cbn [reach].
    destruct todo as [|i r].
    - cbn zeta. repeat split; try tauto.
      + intros j []. 
      + intros j Hj c Hcj. destruct (Hc j Hj c Hcj) as [H|[]]. exact H.
    - destruct (mem_id i seen) eqn:Hm.
      + assert (HI' : closedI r seen).
        { split; [exact Hs|]. split; [intros j Hj; apply Ht; right; exact Hj|].
          intros j Hj c Hcj. destruct (Hc j Hj c Hcj) as [H|[<-|H]]; [left; exact H|left; apply mem_id_In; exact Hm|right; exact H]. }
        cbn [length] in Hf. destruct (IH r seen HI' ltac:(lia)) as (A & B & C & E).
        cbn zeta. split; [exact A|]. split; [|split; [exact C|exact E]].
        intros j [<-|Hj]; [apply A; apply mem_id_In; exact Hm|exact (B j Hj)].
      + assert (Hid : In i dom) by (apply Ht; left; reflexivity).
        destruct (dom_node i Hid) as (d & Hd & _ & Hch). rewrite Hd.
        assert (Hk : kids i = children d) by (unfold kids; rewrite Hd; reflexivity).
        assert (HI' : closedI (children d ++ r) (i :: seen)).
        { split; [intros j [<-|Hj]; [exact Hid|exact (Hs j Hj)]|].
          split; [intros j Hj; apply in_app_or in Hj; destruct Hj as [Hj|Hj]; [exact (Hch j Hj)|apply Ht; right; exact Hj]|].
          intros j [<-|Hj] c Hcj.
          - right. apply in_or_app. left. rewrite <- Hk. exact Hcj.
          - destruct (Hc j Hj c Hcj) as [H|[<-|H]]; [left; right; exact H|left; left; reflexivity|right; apply in_or_app; right; exact H]. }
        pose proof (wgt_see dom i seen Hnd Hid Hm) as Hw. rewrite Hk in Hw.
        cbn [length] in Hf.
        destruct (IH (children d ++ r) (i :: seen) HI' ltac:(rewrite app_length; lia)) as (A & B & C & E).
        cbn zeta. split; [intros j Hj; apply A; right; exact Hj|]. split; [|split; [exact C|exact E]].
        intros j [<-|Hj]; [apply A; left; reflexivity|apply B; apply in_or_app; right; exact Hj].
  Qed.

  Lemma wgt_total : wgt dom [] <= length (sp_entries T) + fold_right (fun e a => length (children (e_det (snd e))) + a)%nat 0%nat (sp_entries T).
  Proof.
    unfold dom. assert (Hnd' := Hnd). unfold dom in Hnd'. clear Hset.
    assert (G : forall l, NoDup (map fst l) -> (forall i e, In (i, e) l -> get T i = Some e) ->
              wgt (map fst l) [] <= length l + fold_right (fun e a => length (children (e_det (snd e))) + a)%nat 0%nat l).
    { induction l as [|[i e] l IH]; intros Hn Hg; [cbn; lia|].
      cbn [map fst wgt length fold_right snd mem_id existsb]. inversion Hn; subst.
      assert (Hk : kids i = children (e_det e)).
      { unfold kids, get_det. rewrite (Hg i e (or_introl eq_refl)). reflexivity. }
      rewrite Hk. specialize (IH ltac:(assumption) ltac:(intros j e' Hj; apply Hg; right; exact Hj)). lia. }
    apply G; [exact Hnd'|].
    intros i e Hin. unfold get. clear - Hin Hnd'. induction (sp_entries T) as [|[j x] l IH]; [destruct Hin|].
    cbn [lookup_id]. cbn [map fst] in Hnd'. inversion Hnd' as [|? ? Hj Hl]; subst.
    destruct Hin as [H|H].
    - injection H as -> ->. rewrite N.eqb_refl. reflexivity.
    - destruct (N.eqb i j) eqn:E; [|exact (IH Hl H)]. apply N.eqb_eq in E. subst.
      exfalso. apply Hj. apply (in_map fst) in H. exact H.
  Qed.

  Theorem rt_simple_all t : In t dom -> rt_simple T t = true.
  Proof.
    intro Ht. unfold rt_simple, rt_simple_at.
    assert (HI : closedI [t] []).
    { split; [intros j []|]. split; [intros j [<-|[]]; exact Ht|intros j []]. }
    pose proof wgt_total as Hw.
    destruct (reach_closed (rt_fuel T) [t] [] HI ltac:(unfold rt_fuel; cbn [length]; lia)) as (_ & B & C & E).
    apply andb_true_iff. split; [apply mem_id_In; apply B; left; reflexivity|].
    unfold rt_set. apply forallb_forall. intros i Hi.
    destruct (dom_node i (C i Hi)) as (d & Hd & Hok & _). rewrite Hd, Hok. cbn [andb].
    apply forallb_forall. intros c Hc. apply mem_id_In. apply (E i Hi). unfold kids. rewrite Hd. exact Hc.
  Qed.
End Reach.
Open Scope N_scope.

Theorem convert_rt_set cls D T :
  in_frag cls D = true -> convert_doc cls D = Some T -> no_untagged T = true -> rt_set T (all_ids T) = true.
Proof.
  intros Hin Hc Hnu. destruct (convert_shape cls D T Hin Hc) as (_ & Hok & Hdefs).
  exact (ents_rt_set (N.of_nat (length D)) T Hok Hdefs Hnu).
Qed.

Lemma in_all_ids T t : get T t <> None -> mem_id t (all_ids T) = true.
Proof.
  intro H. apply mem_id_In. unfold get in H. destruct (lookup_id t (sp_entries T)) as [e|] eqn:E; [|congruence].
  exact (lookup_id_dom _ _ _ E).
Qed.

(* the round trip of every type of every fragment document *)
Theorem fragment_roundtrip cls re native D T :
  in_frag cls D = true -> convert_doc cls D = Some T -> no_untagged T = true ->
  forall t, get T t <> None ->
  forall f v x, de re native T f t v = Some x ->
  exists w, (forall g, (f < g)%nat -> ser T g t x = Some w /\ de re native T g t w = Some x)
            /\ (w = JNull -> v = JNull).
Proof.
  intros Hin Hc Hnu t Ht f v x Hd.
  exact (rt_core re native T (all_ids T) (convert_rt_set cls D T Hin Hc Hnu) f t v x (in_all_ids T t Ht) Hd).
Qed.

Theorem fragment_contains cls re native D T :
  in_frag cls D = true -> convert_doc cls D = Some T -> no_untagged T = true ->
  forall t, get T t <> None ->
  forall f v x, de re native T f t v = Some x -> decl_only T f t v = true ->
  forall g w, (f < g)%nat -> ser T g t x = Some w -> contained (prune v) (prune w).
Proof.
  intros Hin Hc Hnu t Ht f v x Hd Hdecl g w Hg Hs.
  pose proof (convert_rt_set cls D T Hin Hc Hnu) as HS. pose proof (in_all_ids T t Ht) as Hm.
  destruct (rt_core re native T (all_ids T) HS f t v x Hm Hd) as (w0 & Hw & _).
  destruct (Hw g Hg) as [A _]. rewrite A in Hs. injection Hs as <-.
  destruct (Hw (S f) (Nat.lt_succ_diag_r f)) as [B _].
  exact (contains_core re native T (all_ids T) HS f t v x w0 Hm Hd Hdecl B).
Qed.

(* the literal class of C03: the unverified worklist of [rt_simple] does compute a closed set of
   [node_ok] entries, from every type of every fragment document *)
Theorem convert_rt_simple cls D T :
  in_frag cls D = true -> convert_doc cls D = Some T -> no_untagged T = true ->
  forall t, get T t <> None -> rt_simple T t = true.
Proof.
  intros Hin Hc Hnu t Ht.
  apply (rt_simple_all T (convert_nodup cls D T Hin Hc) (convert_rt_set cls D T Hin Hc Hnu)).
  apply mem_id_In. exact (in_all_ids T t Ht).
Qed.
