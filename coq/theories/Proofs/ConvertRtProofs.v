(* Proofs/ConvertRtProofs.v -- C03 on the converter fragment: every entry of the
   type space the converter model produces is [node_ok] and the set of all its
   ids is closed under children ([rt_set]), so the round-trip theorems of
   RoundTripProofs.v (rt_core, contains_core) hold for EVERY type of EVERY
   fragment document.  Goes through ConvertShapeProofs.convert_shape
   ([ents_ok], [DefsNamed]). *)
From Coq Require Import String ZArith NArith QArith List Bool Lia.
From Typify Require Import Base.Json Spec.Schema Spec.Valid IR.TypeIR IR.Serde Check.RoundTrip.
From Typify Require Import Proofs.SerdeProofs Proofs.RoundTripProofs.
From Typify Require Algo.Heck Algo.Sanitize.
From Typify Require Import Algo.Convert Proofs.ConvertProofs Proofs.ConvertShapeProofs.
Import ListNotations.
Close Scope Q_scope.
Close Scope string_scope.
Open Scope list_scope.
Open Scope N_scope.

Lemma lookup_id_dom {X} i (l : list (id * X)) x : lookup_id i l = Some x -> In i (map fst l).
Proof.
  induction l as [|[j y] l IH]; cbn [lookup_id map fst In]; [discriminate|].
  destruct (i =? j) eqn:E; [apply N.eqb_eq in E; subst; intros _; left; reflexivity|].
  intro H. right. exact (IH H).
Qed.

Lemma dom_lookup_id {X} i (l : list (id * X)) : In i (map fst l) -> exists x, lookup_id i l = Some x.
Proof.
  induction l as [|[j y] l IH]; cbn [lookup_id map fst In]; [intros []|].
  destruct (i =? j) eqn:E; [intros _; eexists; reflexivity|].
  intros [H|H]; [subst; rewrite N.eqb_refl in E; discriminate|exact (IH H)].
Qed.

Definition all_ids (T : space) : list id := map fst (sp_entries T).

Section Rt.
  Variable nD : N.
  Variable T : space.
  Hypothesis Hok : ents_ok nD (get T).
  Hypothesis Hdefs : forall i, 1 <= i -> i <= nD -> exists d, get_det T i = Some d /\ det_name d <> None.

  Lemma idok_in t : idok nD (get T) t -> mem_id t (all_ids T) = true.
  Proof.
    intros [[H1 H2]|(e & He)]; apply mem_id_In.
    - destruct (Hdefs t H1 H2) as (d & Hd & _). unfold get_det, get in Hd.
      destruct (lookup_id t (sp_entries T)) as [e|] eqn:E; [|discriminate]. exact (lookup_id_dom _ _ _ E).
    - exact (lookup_id_dom _ _ _ He).
  Qed.

  Lemma ents_rt_set : rt_set T (all_ids T) = true.
  Proof.
    unfold rt_set. apply forallb_forall. intros i Hi.
    destruct (dom_lookup_id i _ Hi) as (e & He).
    assert (Hg : get T i = Some e) by exact He.
    unfold get_det. rewrite Hg. cbn [option_map].
    pose proof (proj1 Hok i e Hg) as Hd.
    destruct (e_det e) as [n dv tag vs dn bes|n dv ps dn|n dv t c|? ? ?|t|?|t|k v|t|t ?|ts| | |?|?| | |?];
      cbn [det_ok] in Hd; try contradiction; cbn [node_ok children forallb andb]; try reflexivity.
    - (* enum *)
      destruct tag; try contradiction.
      assert (H1 : forallb (fun v => match v_det v with VStruct ps => props_ok ps | _ => true end) vs = true).
      { apply forallb_forall. intros v Hv. rewrite (Hd v Hv). reflexivity. }
      rewrite H1. cbn [andb]. apply forallb_forall. intros c Hc.
      apply in_flat_map in Hc. destruct Hc as (v & Hv & Hc). rewrite (Hd v Hv) in Hc. destruct Hc.
    - (* struct *)
      destruct Hd as [Hp Hids]. rewrite Hp. cbn [andb]. apply forallb_forall. intros c Hc.
      apply in_map_iff in Hc. destruct Hc as (p & <- & Hp'). apply idok_in. exact (Hids p Hp').
    - (* newtype *)
      destruct c; try contradiction; rewrite (idok_in t Hd); reflexivity.
    - (* option *)
      destruct Hd as [Hid Hno]. rewrite (idok_in t Hid). rewrite andb_true_r.
      unfold get_det. destruct (get T t) as [e'|] eqn:E; [|reflexivity]. cbn [option_map].
      pose proof (Hno e' eq_refl) as H. unfold not_option in H. destruct (e_det e'); try reflexivity. contradiction.
    - (* vec *) rewrite (idok_in t Hd). reflexivity.
    - (* map *)
      destruct Hd as [(ek & Hk & Hks) Hv]. unfold get_det at 1. rewrite Hk. cbn [option_map]. rewrite Hks.
      rewrite (idok_in v Hv). rewrite andb_true_r.
      assert (Hkin : mem_id k (all_ids T) = true) by (apply mem_id_In; exact (lookup_id_dom _ _ _ Hk)).
      rewrite Hkin. reflexivity.
    - (* set *) rewrite (idok_in t Hd). reflexivity.
    - (* array *) rewrite (idok_in t Hd). reflexivity.
    - (* tuple *) apply forallb_forall. intros c Hc. apply idok_in. exact (Hd c Hc).
  Qed.
End Rt.

Theorem convert_rt_set cls D T :
  in_frag cls D = true -> convert_doc cls D = Some T -> rt_set T (all_ids T) = true.
Proof.
  intros Hin Hc. destruct (convert_shape cls D T Hin Hc) as (_ & Hok & Hdefs).
  exact (ents_rt_set (N.of_nat (length D)) T Hok Hdefs).
Qed.

Lemma in_all_ids T t : get T t <> None -> mem_id t (all_ids T) = true.
Proof.
  intro H. apply mem_id_In. unfold get in H. destruct (lookup_id t (sp_entries T)) as [e|] eqn:E; [|congruence].
  exact (lookup_id_dom _ _ _ E).
Qed.

(* the round trip of every type of every fragment document *)
Theorem fragment_roundtrip cls re native D T :
  in_frag cls D = true -> convert_doc cls D = Some T ->
  forall t, get T t <> None ->
  forall f v x, de re native T f t v = Some x ->
  exists w, (forall g, (f < g)%nat -> ser T g t x = Some w /\ de re native T g t w = Some x)
            /\ (w = JNull -> v = JNull).
Proof.
  intros Hin Hc t Ht f v x Hd.
  exact (rt_core re native T (all_ids T) (convert_rt_set cls D T Hin Hc) f t v x (in_all_ids T t Ht) Hd).
Qed.

Theorem fragment_contains cls re native D T :
  in_frag cls D = true -> convert_doc cls D = Some T ->
  forall t, get T t <> None ->
  forall f v x, de re native T f t v = Some x -> decl_only T f t v = true ->
  forall g w, (f < g)%nat -> ser T g t x = Some w -> contained (prune v) (prune w).
Proof.
  intros Hin Hc t Ht f v x Hd Hdecl g w Hg Hs.
  pose proof (convert_rt_set cls D T Hin Hc) as HS. pose proof (in_all_ids T t Ht) as Hm.
  destruct (rt_core re native T (all_ids T) HS f t v x Hm Hd) as (w0 & Hw & _).
  destruct (Hw g Hg) as [A _]. rewrite A in Hs. injection Hs as <-.
  destruct (Hw (S f) (Nat.lt_succ_diag_r f)) as [B _].
  exact (contains_core re native T (all_ids T) HS f t v x w0 Hm Hd Hdecl B).
Qed.
