(* C07 — part 4: the algorithm's child relation (get_child_ids) against the
   specification's by-value containment relation (spec_children), and the
   known finding C07-2 (native generic types with type parameters). *)
From Coq Require Import NArith List Bool String Lia Relations Relation_Operators.
From Typify Require Import Algo.Cycles Proofs.CyclesProofs Proofs.CyclesFuelProofs.
Import ListNotations.
Open Scope N_scope.

Definition spec_edge (g : graph) (a b : N) : Prop := In b (spec_children_of g a).
Definition spec_cyclic (g : graph) (n : N) : Prop := clos_trans N (spec_edge g) n n.
Definition spec_reachable (g : graph) (lo hi n : N) : Prop :=
  exists r, lo <= r < hi /\ clos_refl_trans N (spec_edge g) r n.

(* class of the known finding C07-2 *)
Definition Known_2 (g : graph) : Prop :=
  exists n ps, lookup g n = Some (NNative ps) /\ ps <> [].

Lemma children_eq_spec_partial : forall nd,
    (forall ps, nd = NNative ps -> ps = []) -> children nd = spec_children nd.
Proof.
  intros nd H. destruct nd; try reflexivity.
  cbn [children spec_children]. symmetry. apply H. reflexivity.
Qed.

Lemma children_eq_spec_refuted : exists nd, children nd <> spec_children nd.
Proof. exists (NNative [0]). discriminate. Qed.

Lemma clos_trans_ext : forall (R R' : N -> N -> Prop),
    (forall a b, R a b -> R' a b) -> forall a b, clos_trans N R a b -> clos_trans N R' a b.
Proof.
  intros R R' H a b Hc. induction Hc as [a b Hab|a y b _ IH1 _ IH2].
  - apply t_step. auto.
  - eapply t_trans; eassumption.
Qed.

Lemma clos_rt_ext : forall (R R' : N -> N -> Prop),
    (forall a b, R a b -> R' a b) -> forall a b, clos_refl_trans N R a b -> clos_refl_trans N R' a b.
Proof.
  intros R R' H a b Hc. induction Hc as [a b Hab|a|a y b _ IH1 _ IH2].
  - apply rt_step. auto.
  - apply rt_refl.
  - eapply rt_trans; eassumption.
Qed.

Lemma spec_edge_edge : forall g, ~ Known_2 g -> forall a b, spec_edge g a b -> edge g a b.
Proof.
  intros g Hk a b H. unfold spec_edge, spec_children_of in H. unfold edge, children_of.
  destruct (lookup g a) as [nd|] eqn:El; [|assumption].
  rewrite children_eq_spec_partial; [assumption|].
  intros ps ->. destruct ps as [|p ps]; [reflexivity|].
  exfalso. apply Hk. exists a, (p :: ps). split; [assumption|discriminate].
Qed.

(* (a) for the specification's containment relation, outside class Known_2 *)
Theorem break_cycles_acyclic_spec : forall fuel s lo hi s',
    wf s -> break_cycles fuel s lo hi = Done s' ->
    ~ Known_2 (sp_g s') ->
    forall n, spec_reachable (sp_g s') lo hi n -> ~ spec_cyclic (sp_g s') n.
Proof.
  intros fuel s lo hi s' Hwf H Hk n [r [Hr Hreach]] Hcyc.
  apply (break_cycles_acyclic _ _ _ _ _ Hwf H n).
  - exists r. split; [assumption|].
    apply (clos_rt_ext _ _ (spec_edge_edge _ Hk) _ _ Hreach).
  - apply (clos_trans_ext _ _ (spec_edge_edge _ Hk) _ _ Hcyc).
Qed.

(* the witness: struct A { f: ::std::option::Option<A> } — ids as typify assigns *)
Definition known2_space : space := mkSpace [(1, NStruct [2]); (2, NNative [1])] [] 3.

Theorem known_2_fails :
  exists s lo hi s',
    wf s /\ closed s lo hi /\ break_cycles (fuel_bound s) s lo hi = Done s' /\
    Known_2 (sp_g s') /\
    exists n, spec_reachable (sp_g s') lo hi n /\ spec_cyclic (sp_g s') n.
Proof.
  exists known2_space, 1, 2, known2_space.
  split; [apply wf_check_sound; vm_compute; reflexivity|].
  split; [apply closed_check_sound; vm_compute; reflexivity|].
  split; [vm_compute; reflexivity|].
  split; [exists 2, [1]; split; [reflexivity|discriminate]|].
  exists 1. split.
  - exists 1. split; [lia|apply rt_refl].
  - unfold spec_cyclic. apply t_trans with (y := 2); apply t_step; vm_compute; auto.
Qed.

(* proven checker for the specification relation *)
Lemma lookup_spec_graph : forall g n,
    lookup (spec_graph g) n = option_map spec_node (lookup g n).
Proof.
  unfold spec_graph. induction g as [|[k nd] g IH]; intros n.
  - reflexivity.
  - cbn. destruct (N.eqb n k); [reflexivity|]. apply IH.
Qed.

Lemma spec_edge_spec_graph : forall g a b, spec_edge g a b -> edge (spec_graph g) a b.
Proof.
  intros g a b H. unfold spec_edge, spec_children_of in H. unfold edge, children_of.
  rewrite lookup_spec_graph. destruct (lookup g a) as [nd|]; cbn [option_map]; [|assumption].
  destruct nd; assumption.
Qed.

Theorem spec_acyclic_check_sound : forall g,
    spec_acyclic_check g = true -> forall n, ~ spec_cyclic g n.
Proof.
  intros g H n Hcyc. unfold spec_acyclic_check in H.
  apply (acyclic_check_sound _ H n).
  apply (clos_trans_ext _ _ (spec_edge_spec_graph g) _ _ Hcyc).
Qed.
