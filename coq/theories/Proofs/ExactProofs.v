(* Proofs/ExactProofs.v — C05.

   Part 1: INVERSION lemmas of [de] (IR/Serde.v), one per constraint kind of the
   property text: an accepted instance satisfies the represented constraint.
   Universally quantified over the type space, the type, the instance and the
   fuel; the regex engine and the native parsers are section variables.

   Part 2: the schema side of Check/Exact.v: [root_ok = false] implies INVALID
   ([root_ok_of_valid]).

   Part 3: root-level soundness of the transfer validator [exact]
   ([exact_root_sound]). *)
From Coq Require Import String ZArith NArith QArith List Bool Lia Arith.
From Typify Require Import Base.Json Spec.Schema Spec.Valid IR.TypeIR IR.Serde Check.Covers Check.Exact
  Proofs.ValidProofs Proofs.SerdeProofs.
Import ListNotations.
Close Scope Q_scope.
Close Scope string_scope.
Close Scope N_scope.
Open Scope list_scope.
Open Scope nat_scope.

(* ------------------------------------------------------------------ small facts *)
Lemma find_variant_some s vs i j vr :
  find_variant s vs i = Some (j, vr) -> In vr vs /\ v_raw vr = s.
Proof.
  revert i. induction vs as [|v0 vs IH]; intros i; simpl; [discriminate|].
  destruct (ustr_eqb s (v_raw v0)) eqn:E.
  - intros H. inversion H. subst. apply ustr_eqb_eq in E. split; [left; reflexivity | symmetry; exact E].
  - intros H. destruct (IH _ H) as [H1 H2]. split; [right; exact H1 | exact H2].
Qed.

Lemma zipM_length {X Y Z} (g : X -> Y -> option Z) l m r : zipM g l m = Some r -> length l = length m.
Proof.
  revert m r. induction l as [|x l IH]; intros [|y m] r; simpl; try discriminate; [reflexivity|].
  destruct (g x y); [|discriminate]. destruct (zipM g l m) eqn:E; [|discriminate].
  intros _. f_equal. eapply IH. exact E.
Qed.

Lemma filter_length0 {X} (g : X -> bool) l : length (filter g l) = 0 -> forall x, In x l -> g x = false.
Proof.
  induction l as [|y l IH]; simpl; [intros _ x []|].
  destruct (g y) eqn:E; simpl; [discriminate|].
  intros H x [<-|Hin]; [exact E | apply IH; assumption].
Qed.

Definition is_variant_raw (vs : list variant) (s : ustring) : Prop := exists vr, In vr vs /\ v_raw vr = s.

Section Inversion.
  Variable re_match : ustring -> ustring -> bool.
  Variable native_ok : ustring -> ustring -> bool.
  Variable T : space.

  Local Notation de := (Serde.de re_match native_ok T).
  Local Notation dv := (Serde.default_val T).

  Lemma de_some_S f t v x : de f t v = Some x -> exists f', f = S f'.
  Proof. destruct f; [discriminate|]. intros _. eexists. reflexivity. Qed.

  Lemma de_at f t d j : get_det T t = Some d -> de (S f) t j = de_node re_match native_ok T (de f) (dv f) d j.
  Proof. intros E. rewrite de_S, E. reflexivity. Qed.

  (* ---- string length (Unicode scalar values) and pattern ---- *)
  Theorem string_len_pattern_enforced f t v x n d inner mx mn pat :
    get_det T t = Some (DNewtype n d inner (CString mx mn pat)) ->
    de f t v = Some x ->
    exists s, v = JStr s
              /\ (forall m, mx = Some m -> (chars_count s <= m)%N)
              /\ (forall m, mn = Some m -> (m <= chars_count s)%N)
              /\ (forall p, pat = Some p -> re_match p s = true).
  Proof.
    intros E H. destruct (de_some_S _ _ _ _ H) as [f' ->]. rewrite (de_at _ _ _ _ E) in H.
    cbn [de_node] in H. destruct v; try discriminate.
    destruct (str_constraints_ok re_match mx mn pat s) eqn:C; [|discriminate].
    exists s. split; [reflexivity|]. unfold str_constraints_ok in C.
    apply andb_true_iff in C. destruct C as [C C3]. apply andb_true_iff in C. destruct C as [C1 C2].
    repeat split.
    - intros m ->. apply N.leb_le. exact C1.
    - intros m ->. apply N.leb_le. exact C2.
    - intros p ->. exact C3.
  Qed.

  (* ---- enumerated values ---- *)
  (* an all-simple externally tagged enum: the string form, or serde's alternative
     form {"<raw>": null} (finding C05-F2) - always for a variant's raw name *)
  Theorem simple_enum_member_enforced f t v x n d vs deny bes :
    get_det T t = Some (DEnum n d TagExternal vs deny bes) -> all_simple vs = true ->
    de f t v = Some x ->
    (exists s, v = JStr s /\ is_variant_raw vs s) \/
    (exists s, v = JObj [(s, JNull)] /\ is_variant_raw vs s).
  Proof.
    intros E Hs H. destruct (de_some_S _ _ _ _ H) as [f' ->]. rewrite (de_at _ _ _ _ E) in H.
    cbn [de_node de_enum] in H. destruct v; try discriminate.
    - destruct (find_variant s vs 0) as [[i vr]|] eqn:F; [|discriminate].
      left. exists s. split; [reflexivity|]. exists vr. eapply find_variant_some. exact F.
    - destruct kvs as [|[k pj] [|kv2 r]]; try discriminate.
      destruct (find_variant k vs 0) as [[i vr]|] eqn:F; [|discriminate].
      destruct (find_variant_some _ _ _ _ _ F) as [Hin Hr].
      right. exists k.
      assert (Hv : v_det vr = VSimple).
      { unfold all_simple in Hs. apply (proj1 (forallb_forall _ _) Hs) in Hin. destruct (v_det vr); congruence. }
      rewrite Hv in H. cbn [de_payload] in H. destruct pj; try discriminate.
      split; [reflexivity|]. exists vr. split; assumption.
  Qed.

  (* outside that alternative form: exactly a JSON string naming a variant *)
  Corollary simple_enum_member_enforced_std f t v x n d vs deny bes :
    get_det T t = Some (DEnum n d TagExternal vs deny bes) -> all_simple vs = true ->
    de f t v = Some x -> (forall kvs, v <> JObj kvs) ->
    exists s, v = JStr s /\ is_variant_raw vs s.
  Proof.
    intros E Hs H Hn. destruct (simple_enum_member_enforced _ _ _ _ _ _ _ _ _ E Hs H) as [H1|[s [-> _]]];
      [exact H1 | exfalso; eapply Hn; reflexivity].
  Qed.

  (* typed enum (allow list) *)
  Theorem enum_value_enforced f t v x n d inner vs :
    get_det T t = Some (DNewtype n d inner (CEnum vs)) ->
    de f t v = Some x ->
    exists e, In e vs /\ json_equiv v e = true.
  Proof.
    intros E H. destruct (de_some_S _ _ _ _ H) as [f' ->]. rewrite (de_at _ _ _ _ E) in H.
    cbn [de_node] in H. destruct (de f' inner v); [|discriminate].
    destruct (existsb (json_equiv v) vs) eqn:X; [|discriminate].
    apply existsb_exists in X. exact X.
  Qed.

  (* ---- deny list ---- *)
  Theorem deny_list_enforced f t v x n d inner vs :
    get_det T t = Some (DNewtype n d inner (CDeny vs)) ->
    de f t v = Some x ->
    forall e, In e vs -> json_equiv v e = false.
  Proof.
    intros E H. destruct (de_some_S _ _ _ _ H) as [f' ->]. rewrite (de_at _ _ _ _ E) in H.
    cbn [de_node] in H. destruct (de f' inner v); [|discriminate].
    destruct (existsb (json_equiv v) vs) eqn:X; [discriminate|].
    intros e Hin. destruct (json_equiv v e) eqn:Q; [|reflexivity].
    assert (existsb (json_equiv v) vs = true) by (apply existsb_exists; exists e; split; assumption).
    congruence.
  Qed.

  (* the allow / deny newtypes also enforce their inner type *)
  Theorem value_newtype_inner f t v x n d inner c :
    get_det T t = Some (DNewtype n d inner c) ->
    (match c with CEnum _ | CDeny _ => True | _ => False end) ->
    de (S f) t v = Some x -> de f inner v <> None.
  Proof.
    intros E Hc H. rewrite (de_at _ _ _ _ E) in H. cbn [de_node] in H.
    destruct c; try contradiction; destruct (de f inner v); congruence.
  Qed.

  (* ---- required members ---- *)
  Lemma de_named_some_ok dr df ps kvs l : de_named T dr df ps kvs = Some l -> de_named T dr df ps kvs <> None.
  Proof. congruence. Qed.

  (* The side condition: the member's type does not reach an Option through Box /
     transparent / value-constrained newtypes ([missing_val], the chase serde's
     `missing_field` performs).  With only "not a direct Option" the statement is
     false: [required_enforced_direct_refuted] below. *)
  Theorem required_enforced f t kvs x n d ps deny :
    get_det T t = Some (DStruct n d ps deny) ->
    de f t (JObj kvs) = Some x ->
    forall p w, In p ps -> p_state p = PRequired -> wire_name p = Some w ->
                (forall g, missing_val T g (p_ty p) = None) ->
                has_key w kvs = true.
  Proof.
    intros E H p w Hin Hst Hw Hno. destruct (de_some_S _ _ _ _ H) as [f' ->]. rewrite (de_at _ _ _ _ E) in H.
    cbn [de_node de_struct_body] in H.
    assert (H1 : de_struct_obj T (de f') (dv f') ps deny kvs <> None)
      by (destruct (de_struct_obj T (de f') (dv f') ps deny kvs); [congruence | discriminate]).
    apply de_struct_obj_ok in H1. destruct H1 as [H1 _].
    rewrite de_named_ok in H1. specialize (H1 p w Hin Hw). unfold member_val in H1.
    unfold has_key. destruct (assoc w kvs); [reflexivity|].
    exfalso. apply H1. rewrite (missing_required_chase re_match native_ok T _ _ _ Hst). apply Hno.
  Qed.

  (* ---- closed structs ---- *)
  Theorem closed_enforced f t kvs x n d ps :
    get_det T t = Some (DStruct n d ps true) -> flat_props ps = [] ->
    de f t (JObj kvs) = Some x ->
    forall k j, In (k, j) kvs -> In k (wire_names ps).
  Proof.
    intros E Hfl H k j Hin. destruct (de_some_S _ _ _ _ H) as [f' ->]. rewrite (de_at _ _ _ _ E) in H.
    cbn [de_node de_struct_body] in H.
    assert (H1 : de_struct_obj T (de f') (dv f') ps true kvs <> None)
      by (destruct (de_struct_obj T (de f') (dv f') ps true kvs); [congruence | discriminate]).
    apply de_struct_obj_ok in H1. destruct H1 as [_ H1]. unfold flat_stage_ok in H1. rewrite Hfl in H1.
    cbn [andb] in H1. apply negb_false_iff in H1. apply Nat.eqb_eq in H1.
    unfold unknown_entries in H1. apply (filter_length0 _ _ H1) in Hin. cbn [fst] in Hin.
    apply negb_false_iff in Hin. apply mem_ustr_In. exact Hin.
  Qed.

  (* ---- tuple / fixed array length ---- *)
  Theorem tuple_arity_enforced f t v x ts :
    get_det T t = Some (DTuple ts) -> de f t v = Some x ->
    exists l, v = JArr l /\ length l = length ts.
  Proof.
    intros E H. destruct (de_some_S _ _ _ _ H) as [f' ->]. rewrite (de_at _ _ _ _ E) in H.
    cbn [de_node] in H. destruct v; try discriminate.
    destruct (zipM (de f') ts l) eqn:Z; [|discriminate].
    exists l. split; [reflexivity|]. symmetry. eapply zipM_length. exact Z.
  Qed.

  Theorem array_arity_enforced f t v x t' n :
    get_det T t = Some (DArray t' n) -> de f t v = Some x ->
    exists l, v = JArr l /\ N.of_nat (length l) = n.
  Proof.
    intros E H. destruct (de_some_S _ _ _ _ H) as [f' ->]. rewrite (de_at _ _ _ _ E) in H.
    cbn [de_node] in H. destruct v; try discriminate.
    destruct (N.eqb (N.of_nat (length l)) n) eqn:Q; [|discriminate].
    exists l. split; [reflexivity | apply N.eqb_eq; exact Q].
  Qed.

  (* tuple variants of enums *)
  Theorem variant_tuple_arity_enforced dr deny ts v x :
    de_payload T dr (fun _ => None) deny (VTuple ts) v = Some x ->
    exists l, v = JArr l /\ length l = length ts.
  Proof.
    cbn [de_payload]. destruct v; try discriminate. destruct (zipM dr ts l) eqn:Z; [|discriminate].
    intros _. exists l. split; [reflexivity|]. symmetry. eapply zipM_length. exact Z.
  Qed.

  (* ---- JSON type of scalars ---- *)
  Definition scalar_shape (d : details) (v : json) : Prop :=
    match d with
    | DBoolean => exists b, v = JBool b
    | DInteger nm => exists z, v = JInt z /\ in_int_range nm z = true
    | DFloat _ => (exists z, v = JInt z) \/ (exists q, v = JFlt q)
    | DString => exists s, v = JStr s
    | DUnit => v = JNull
    | DNative nm _ _ => exists s, v = JStr s /\ native_ok nm s = true
    | _ => True
    end.

  Theorem scalar_type_enforced f t v x d :
    get_det T t = Some d -> de f t v = Some x -> scalar_shape d v.
  Proof.
    intros E H. destruct (de_some_S _ _ _ _ H) as [f' ->]. rewrite (de_at _ _ _ _ E) in H.
    destruct d; cbn [scalar_shape]; try exact I; cbn [de_node] in H; destruct v; try discriminate.
    - (* native *) destruct (native_ok type_name s) eqn:Q; [|discriminate]. exists s. split; [reflexivity | exact Q].
    - reflexivity.
    - eexists. reflexivity.
    - destruct (in_int_range name z) eqn:Q; [|discriminate]. exists z. split; [reflexivity | exact Q].
    - left. eexists. reflexivity.
    - right. eexists. reflexivity.
    - eexists. reflexivity.
  Qed.

  Lemma in_int_range_bounds nm z lo hi nz :
    int_range_u nm = Some (lo, hi, nz) -> in_int_range nm z = true -> (lo <= z <= hi)%Z.
  Proof.
    unfold in_int_range. intros ->. intros H. apply andb_true_iff in H. destruct H as [H1 H2].
    apply Z.leb_le in H1. apply Z.leb_le in H2. lia.
  Qed.

  (* ---- tag values of tagged unions ---- *)
  Theorem internal_tag_enforced f t v x n d tg vs deny bes :
    get_det T t = Some (DEnum n d (TagInternal tg) vs deny bes) ->
    de f t v = Some x ->
    exists kvs s, v = JObj kvs /\ assoc tg kvs = Some (JStr s) /\ is_variant_raw vs s.
  Proof.
    intros E H. destruct (de_some_S _ _ _ _ H) as [f' ->]. rewrite (de_at _ _ _ _ E) in H.
    cbn [de_node de_enum] in H. destruct v; try discriminate.
    destruct (assoc tg kvs) as [[| | | |s| |]|] eqn:As; try discriminate.
    destruct (find_variant s vs 0) as [[i vr]|] eqn:F; [|discriminate].
    exists kvs, s. split; [reflexivity|]. split; [exact As|]. exists vr. eapply find_variant_some. exact F.
  Qed.

  Theorem adjacent_tag_enforced f t v x n d tg ct vs deny bes :
    get_det T t = Some (DEnum n d (TagAdjacent tg ct) vs deny bes) ->
    de f t v = Some x ->
    exists kvs s, v = JObj kvs /\ assoc tg kvs = Some (JStr s) /\ is_variant_raw vs s.
  Proof.
    intros E H. destruct (de_some_S _ _ _ _ H) as [f' ->]. rewrite (de_at _ _ _ _ E) in H.
    cbn [de_node de_enum] in H. destruct v; try discriminate.
    destruct (assoc tg kvs) as [[| | | |s| |]|] eqn:As; try discriminate.
    destruct (find_variant s vs 0) as [[i vr]|] eqn:F; [|discriminate].
    exists kvs, s. split; [reflexivity|]. split; [exact As|]. exists vr. eapply find_variant_some. exact F.
  Qed.

  Theorem external_tag_enforced f t v x n d vs deny bes :
    get_det T t = Some (DEnum n d TagExternal vs deny bes) ->
    de f t v = Some x ->
    (exists s vr, v = JStr s /\ In vr vs /\ v_raw vr = s /\ v_det vr = VSimple) \/
    (exists k pj, v = JObj [(k, pj)] /\ is_variant_raw vs k).
  Proof.
    intros E H. destruct (de_some_S _ _ _ _ H) as [f' ->]. rewrite (de_at _ _ _ _ E) in H.
    cbn [de_node de_enum] in H. destruct v; try discriminate.
    - destruct (find_variant s vs 0) as [[i vr]|] eqn:F; [|discriminate].
      destruct (find_variant_some _ _ _ _ _ F) as [Hin Hr].
      left. exists s, vr. repeat split; try assumption. destruct (v_det vr); try discriminate. reflexivity.
    - destruct kvs as [|[k pj] [|kv2 r]]; try discriminate.
      destruct (find_variant k vs 0) as [[i vr]|] eqn:F; [|discriminate].
      right. exists k, pj. split; [reflexivity|]. exists vr. eapply find_variant_some. exact F.
  Qed.
End Inversion.

(* ------------------------------------------------------------------ agreement bridge
   The FromStr template of a String-constrained newtype (Algo/StrConv.v, tied to
   the compiled code by C11's check) accepts exactly the strings whose JSON
   form [de] accepts: one validation, shared by Deserialize / FromStr / TryFrom. *)
From Typify Require Algo.StrConv.

Lemma check_constrained_is_str_constraints_ok re mx mn pat s :
  StrConv.check_constrained re mx mn pat s = str_constraints_ok re mx mn pat s.
Proof.
  unfold StrConv.check_constrained, str_constraints_ok.
  assert (E1 : match mx with Some m => negb (m <? chars_count s)%N | None => true end
               = match mx with Some m => (chars_count s <=? m)%N | None => true end)
    by (destruct mx; [rewrite N.ltb_antisym; apply negb_involutive | reflexivity]).
  assert (E2 : match mn with Some m => negb (chars_count s <? m)%N | None => true end
               = match mn with Some m => (m <=? chars_count s)%N | None => true end)
    by (destruct mn; [rewrite N.ltb_antisym; apply negb_involutive | reflexivity]).
  rewrite E1, E2. reflexivity.
Qed.

Theorem from_str_iff_de_constrained re np native T f f' t s n d inner mx mn pat :
  get_det T t = Some (DNewtype n d inner (CString mx mn pat)) ->
  (StrConv.from_str re np T (S f) t s <> None <-> Serde.de re native T (S f') t (JStr s) <> None).
Proof.
  intros E. rewrite (de_at re native T _ _ _ _ E). cbn [de_node StrConv.from_str]. rewrite E.
  rewrite check_constrained_is_str_constraints_ok.
  destruct (str_constraints_ok re mx mn pat s); split; congruence.
Qed.

(* ================================================================== Part 3: root-level
   soundness of the transfer validator *)
From Typify Require Import Proofs.CoversProofs.

Definition shape_eq (v w : json) : bool :=
  match v, w with
  | JNull, JNull | JBool _, JBool _ | JInt _, JInt _ | JFlt _, JFlt _ | JStr _, JStr _
  | JArr _, JArr _ | JObj _, JObj _ => true
  | _, _ => false
  end.

Lemma type_ok_shape t v w : shape_eq v w = true -> type_ok false t v = type_ok false t w.
Proof. destruct t, v, w; simpl; try discriminate; reflexivity. Qed.

Lemma valid_type_shape ty v w : shape_eq v w = true -> valid_type serde_ints ty v = valid_type serde_ints ty w.
Proof.
  intros H. unfold valid_type, opt_all. destruct ty as [l|]; [|reflexivity]. cbn [int_accepts_integral_float serde_ints].
  induction l as [|t l IH]; [reflexivity|]. cbn [existsb]. rewrite (type_ok_shape t v w H), IH. reflexivity.
Qed.

Lemma json_equiv_sym_scalar a b : is_scalar b = true -> json_equiv a b = json_equiv b a.
Proof.
  destruct b; try discriminate; intros _; destruct a; try reflexivity; cbn [json_equiv].
  - destruct b, b0; reflexivity.
  - apply Z.eqb_sym.
  - apply eq_true_iff_eq. rewrite !Qeq_bool_iff. split; intros H; symmetry; exact H.
  - apply eq_true_iff_eq. rewrite !Qeq_bool_iff. split; intros H; symmetry; exact H.
  - apply eq_true_iff_eq. rewrite !Qeq_bool_iff. split; intros H; symmetry; exact H.
  - apply ustr_eqb_sym.
Qed.

Lemma find_wire_some w ps p : find_wire w ps = Some p -> In p ps /\ wire_name p = Some w.
Proof.
  induction ps as [|q ps IH]; simpl; [discriminate|].
  destruct (wire_name q) as [w'|] eqn:E.
  - destruct (ustr_eqb w w') eqn:Q.
    + intros H. inversion H. subst q. apply ustr_eqb_eq in Q. subst w'. split; [left; reflexivity | exact E].
    + intros H. destruct (IH H). split; [right|]; assumption.
  - intros H. destruct (IH H). split; [right|]; assumption.
Qed.

Lemma forallb_filter {X} (g h : X -> bool) l : forallb g l = true -> forallb g (filter h l) = true.
Proof.
  induction l as [|x l IH]; simpl; [reflexivity|]. intros H. apply andb_true_iff in H. destruct H as [H1 H2].
  destruct (h x); simpl; [rewrite H1|]; apply IH; exact H2.
Qed.

Lemma valid_str_none re sv v : is_strv_none sv = true -> valid_str re sv v = true.
Proof.
  unfold is_strv_none, valid_str. destruct sv as [a b c]. cbn [s_max_length s_min_length s_pattern].
  destruct a, b, c; try discriminate. intros _. destruct v; reflexivity.
Qed.

Section BodyLevel.
  Variable T : space.
  Variables (dr : id -> json -> option rval) (df : id -> option rval).

  Lemma struct_body_required ps deny kvs x p w :
    de_struct_body T dr df ps deny (JObj kvs) = Some x ->
    In p ps -> p_state p = PRequired -> wire_name p = Some w ->
    dr (p_ty p) JNull <> Some ROptNone -> has_key w kvs = true.
  Proof.
    intros H Hin Hst Hw Hno. cbn [de_struct_body] in H.
    assert (H1 : de_struct_obj T dr df ps deny kvs <> None)
      by (destruct (de_struct_obj T dr df ps deny kvs); [congruence | discriminate]).
    apply de_struct_obj_ok in H1. destruct H1 as [H1 _].
    rewrite de_named_ok in H1. specialize (H1 p w Hin Hw). unfold member_val in H1.
    unfold has_key. destruct (assoc w kvs); [reflexivity|].
    exfalso. apply H1. apply missing_required_none; assumption.
  Qed.

  Lemma struct_body_closed ps kvs x k j :
    de_struct_body T dr df ps true (JObj kvs) = Some x -> flat_props ps = [] ->
    In (k, j) kvs -> In k (wire_names ps).
  Proof.
    intros H Hfl Hin. cbn [de_struct_body] in H.
    assert (H1 : de_struct_obj T dr df ps true kvs <> None)
      by (destruct (de_struct_obj T dr df ps true kvs); [congruence | discriminate]).
    apply de_struct_obj_ok in H1. destruct H1 as [_ H1]. unfold flat_stage_ok in H1. rewrite Hfl in H1.
    cbn [andb] in H1. apply negb_false_iff in H1. apply Nat.eqb_eq in H1.
    unfold unknown_entries in H1. apply (filter_length0 _ _ H1) in Hin. cbn [fst] in Hin.
    apply negb_false_iff in Hin. apply mem_ustr_In. exact Hin.
  Qed.
End BodyLevel.

Section RootSound.
  Variables re native : ustring -> ustring -> bool.
  Variable D : defs.
  Variable T : space.
  Variable ex : schema -> id -> bool.
  Variables (ty : option (list itype)) (enum : option (list json)) (cst : option json) (sv : strv)
            (ik : items_kind) (items : list schema) (mni mxi : option N)
            (props : list (ustring * schema)) (req : list ustring) (ap no : option schema).

  Local Notation de := (Serde.de re native T).
  Local Notation dv := (Serde.default_val T).
  Local Notation GO := (go_plain re D T ex ty enum cst sv ik items mni mxi props req ap no).
  Local Notation LEAF := (leaf_x re D T ex ty enum cst sv ik items mni mxi props req ap no).

  Definition enum_part (v : json) : bool := valid_enum enum v && valid_const cst v.

  Definition node_ok (v : json) : bool :=
    valid_type serde_ints ty v && enum_part v && valid_str re sv v
    && valid_obj_local (req_enf D props req) None None v && closed_ok props ap v
    && arity_ok mni mxi v && deny_ok no v.

  Lemma node_ok_intro v :
    valid_type serde_ints ty v = true -> enum_part v = true -> valid_str re sv v = true ->
    valid_obj_local (req_enf D props req) None None v = true -> closed_ok props ap v = true ->
    arity_ok mni mxi v = true -> deny_ok no v = true -> node_ok v = true.
  Proof. unfold node_ok. intros -> -> -> -> -> -> ->. reflexivity. Qed.

  Lemma common_parts ed dd v :
    common enum cst no ed dd = true ->
    (ed = true -> enum_part v = true) -> (dd = true -> deny_ok no v = true) ->
    enum_part v = true /\ deny_ok no v = true.
  Proof.
    unfold common. intros H He Hd. apply andb_true_iff in H. destruct H as [H1 H2]. split.
    - destruct ed; [apply He; reflexivity|]. cbn [orb] in H1. apply andb_true_iff in H1. destruct H1 as [A B].
      unfold enum_part. destruct enum; [discriminate|]. destruct cst; [discriminate|]. reflexivity.
    - destruct dd; [apply Hd; reflexivity|]. cbn [orb] in H2. unfold deny_ok. destruct (deny_of no); [discriminate | reflexivity].
  Qed.

  Lemma ty_rep_shape reps w v : ty_rep ty reps = true -> In w reps -> shape_eq v w = true -> valid_type serde_ints ty v = true.
  Proof.
    unfold ty_rep. intros H Hin Hs. rewrite (valid_type_shape ty v w Hs).
    exact (proj1 (forallb_forall _ _) H w Hin).
  Qed.

  (* trivial conjuncts by the shape of v *)
  Lemma obj_local_nonobj l v : (forall kvs, v <> JObj kvs) -> valid_obj_local l None None v = true.
  Proof. destruct v; try reflexivity. intros H. exfalso. eapply H. reflexivity. Qed.
  Lemma closed_nonobj v : (forall kvs, v <> JObj kvs) -> closed_ok props ap v = true.
  Proof.
    unfold closed_ok. destruct ap as [[[]|]|]; try reflexivity. destruct v; try reflexivity.
    intros H. exfalso. eapply H. reflexivity.
  Qed.
  Lemma arity_nonarr v : (forall l, v <> JArr l) -> arity_ok mni mxi v = true.
  Proof.
    unfold arity_ok. destruct (arity_of mni mxi); [|reflexivity]. destruct v; try reflexivity.
    intros H. exfalso. eapply H. reflexivity.
  Qed.
  Lemma str_nonstr v : (forall s, v <> JStr s) -> valid_str re sv v = true.
  Proof. destruct v; try reflexivity. intros H. exfalso. eapply H. reflexivity. Qed.
  Lemma closed_open v : is_closed ap = false -> closed_ok props ap v = true.
  Proof. unfold closed_ok, is_closed. destruct ap as [[[]|]|]; try reflexivity. discriminate. Qed.
  Lemma arity_none v : is_none (arity_of mni mxi) = true -> arity_ok mni mxi v = true.
  Proof. unfold arity_ok. destruct (arity_of mni mxi); [discriminate | reflexivity]. Qed.
  Lemma obj_local_noclaims v : no_obj_claims D props req = true -> valid_obj_local (req_enf D props req) None None v = true.
  Proof. unfold no_obj_claims. destruct (req_enf D props req); [|discriminate]. intros _. destruct v; reflexivity. Qed.

  Ltac triv_shape :=
    first [ apply obj_local_nonobj; intros ? ?; discriminate
          | apply closed_nonobj; intros ? ?; discriminate
          | apply arity_nonarr; intros ? ?; discriminate
          | apply str_nonstr; intros ? ?; discriminate ].

  (* a scalar-like leaf: shape [w], nothing else to show but the type *)
  Lemma scalar_leaf ed dd v w :
    common enum cst no ed dd = true -> ty_rep ty [w] = true -> shape_eq v w = true ->
    (ed = true -> enum_part v = true) -> (dd = true -> deny_ok no v = true) ->
    (forall s, v <> JStr s) -> (forall l, v <> JArr l) -> (forall kvs, v <> JObj kvs) ->
    node_ok v = true.
  Proof.
    intros Hc Ht Hs He Hd N1 N2 N3. destruct (common_parts ed dd v Hc He Hd) as [P1 P2].
    apply node_ok_intro; try assumption.
    - eapply ty_rep_shape; [exact Ht | left; reflexivity | exact Hs].
    - apply str_nonstr. exact N1.
    - apply obj_local_nonobj. exact N3.
    - apply closed_nonobj. exact N3.
    - apply arity_nonarr. exact N2.
  Qed.

  Lemma opt_imp_N_le a b (c : N) (P : N -> N -> bool) :
    opt_imp_N a b = true ->
    match b with Some m => P c m | None => true end = true ->
    opt_all (fun m => P c m) a = true.
  Proof.
    unfold opt_imp_N, opt_all. destruct a as [x|]; [|reflexivity]. destruct b as [y|]; [|discriminate].
    intros E. apply N.eqb_eq in E. subst y. exact (fun H => H).
  Qed.

  Ltac split_and H :=
    repeat match type of H with
           | (?a && ?b = true) => let H' := fresh "L" in apply andb_true_iff in H; destruct H as [H H']
           end.

  (* a type the checker says does not reach an Option never reads null as the
     bare None: a required member of that type cannot be absent *)
  Lemma reaches_option_chase : forall fuel g i, missing_val T g i <> None -> reaches_option T fuel i = true.
  Proof.
    induction fuel as [|fuel IH]; intros g i H; [reflexivity|].
    destruct g as [|g]; [exfalso; apply H; reflexivity|]. cbn [missing_val] in H. cbn [reaches_option].
    destruct (get_det T i) as [[]|]; try (exfalso; apply H; reflexivity); try reflexivity.
    - destruct c; try (exfalso; apply H; reflexivity); apply (IH g);
        destruct (missing_val T g inner); congruence.
    - apply (IH g). exact H.
  Qed.

  Lemma reaches_option_sound fuel i :
    reaches_option T fuel i = false -> forall g, de g i JNull <> Some ROptNone.
  Proof.
    intros H g Hd. apply (de_null_missing_val re native T) in Hd.
    assert (reaches_option T fuel i = true) by (apply (reaches_option_chase fuel g); congruence). congruence.
  Qed.

  Lemma leaf_sound ed dd d v x dr df :
    (forall i, reaches_option T RFUEL i = false -> dr i JNull <> Some ROptNone) ->
    LEAF ed dd d = true ->
    de_node re native T dr df d v = Some x ->
    seq_for_struct d v = false -> obj_for_unit_variant d v = false ->
    (ed = true -> enum_part v = true) -> (dd = true -> deny_ok no v = true) ->
    node_ok v = true.
  Proof.
    intros Hnull L Hde S1 S2 He Hd.
    destruct d; cbn [leaf_x] in L; try discriminate.
    - (* DEnum *)
      destruct tag; try discriminate.
      apply andb_true_iff in L. destruct L as [L L4]. apply andb_true_iff in L. destruct L as [L L3].
      apply andb_true_iff in L. destruct L as [L1 L2].
      cbn [de_node de_enum] in Hde. destruct v; try discriminate.
      + destruct (find_variant s vs 0) as [[i vr]|] eqn:F; [|discriminate].
        destruct (find_variant_some _ _ _ _ _ F) as [Hin Hr].
        apply (proj1 (forallb_forall _ _) L4) in Hin. rewrite Hr in Hin.
        apply andb_true_iff in Hin. destruct Hin as [Hin V3]. apply andb_true_iff in Hin. destruct Hin as [V1 V2].
        apply node_ok_intro; try triv_shape.
        * eapply ty_rep_shape; [exact L2 | left; reflexivity | reflexivity].
        * unfold enum_part. rewrite V1, V2. reflexivity.
        * exact V3.
        * destruct dd; [apply Hd; reflexivity|]. cbn [orb] in L3. unfold deny_ok.
          destruct (deny_of no); [discriminate | reflexivity].
      + simpl in S2. congruence.
    - (* DStruct *)
      apply andb_true_iff in L. destruct L as [Lc L]. apply andb_true_iff in Lc. destruct Lc as [Lc Lni].
      unfold struct_x in L. split_and L.
      cbn [de_node] in Hde. destruct v; try (cbn [de_struct_body] in Hde; discriminate);
        try (simpl in S1; discriminate S1).
      + destruct (common_parts ed dd (JObj kvs) Lc He Hd) as [P1 P2].
        apply node_ok_intro; try assumption; try triv_shape.
        * eapply ty_rep_shape; [exact L | left; reflexivity | reflexivity].
        * cbn [valid_obj_local opt_all]. rewrite !andb_true_r. apply forallb_forall. intros k Hk.
          apply (proj1 (forallb_forall _ _) L3) in Hk.
          destruct (find_wire k props0) as [p|] eqn:F; [|discriminate].
          destruct (find_wire_some _ _ _ F) as [Hin Hw].
          apply andb_true_iff in Hk. destruct Hk as [K1 K2]. apply negb_true_iff in K2.
          eapply struct_body_required; try eassumption.
          -- destruct (p_state p); try discriminate. reflexivity.
          -- apply Hnull. exact K2.
        * unfold closed_ok. destruct ap as [[[]|]|]; try reflexivity.
          cbn [is_closed negb orb] in L2.
          apply andb_true_iff in L2. destruct L2 as [L2 M3]. apply andb_true_iff in L2. destruct L2 as [M1 M2].
          subst deny. destruct (flat_props props0) eqn:Fl; [|discriminate].
          apply forallb_forall. intros [k j] Hin. cbn [fst].
          apply (proj1 (forallb_forall _ _) M3). eapply struct_body_closed; eassumption.
    - (* DNewtype *)
      destruct c; try discriminate.
      split_and L.
      cbn [de_node] in Hde. destruct v; try discriminate.
      destruct (str_constraints_ok re max min pat s) eqn:C; [|discriminate].
      unfold str_constraints_ok in C. apply andb_true_iff in C. destruct C as [C C3].
      apply andb_true_iff in C. destruct C as [C1 C2].
      destruct (common_parts ed dd (JStr s) L He Hd) as [P1 P2].
      apply node_ok_intro; try assumption; try triv_shape.
      + eapply ty_rep_shape; [exact L3 | left; reflexivity | reflexivity].
      + cbn [valid_str]. rewrite !andb_true_iff. repeat split.
        * apply (opt_imp_N_le _ _ (chars_count s) (fun c m => N.leb c m) L2 C1).
        * apply (opt_imp_N_le _ _ (chars_count s) (fun c m => N.leb m c) L1 C2).
        * unfold opt_imp_ustr in L0. unfold opt_all. destruct (s_pattern sv) as [p|]; [|reflexivity].
          destruct pat as [q|]; [|discriminate]. apply ustr_eqb_eq in L0. subst q. exact C3.
    - (* DNative *)
      split_and L.
      cbn [de_node] in Hde. destruct v; try discriminate.
      destruct (common_parts ed dd (JStr s) L He Hd) as [P1 P2].
      apply node_ok_intro; try assumption; try triv_shape.
      + eapply ty_rep_shape; [exact L1 | left; reflexivity | reflexivity].
      + apply valid_str_none. exact L0.
    - (* DVec *)
      split_and L.
      cbn [de_node] in Hde. destruct v; try discriminate.
      destruct (common_parts ed dd (JArr l) L He Hd) as [P1 P2].
      apply node_ok_intro; try assumption; try triv_shape.
      + eapply ty_rep_shape; [exact L2 | left; reflexivity | reflexivity].
      + apply arity_none. exact L1.
    - (* DMap *)
      split_and L.
      cbn [de_node] in Hde. destruct v; try discriminate.
      destruct (common_parts ed dd (JObj kvs) L He Hd) as [P1 P2].
      apply node_ok_intro; try assumption; try triv_shape.
      + eapply ty_rep_shape; [exact L4 | left; reflexivity | reflexivity].
      + apply obj_local_noclaims. exact L3.
      + apply closed_open. apply negb_true_iff. exact L2.
    - (* DSet *)
      split_and L.
      cbn [de_node] in Hde. destruct v; try discriminate.
      destruct (common_parts ed dd (JArr l) L He Hd) as [P1 P2].
      apply node_ok_intro; try assumption; try triv_shape.
      + eapply ty_rep_shape; [exact L2 | left; reflexivity | reflexivity].
      + apply arity_none. exact L1.
    - (* DArray *)
      split_and L.
      cbn [de_node] in Hde. destruct v; try discriminate.
      destruct (N.eqb (N.of_nat (length l)) n) eqn:Q; [|discriminate].
      destruct (common_parts ed dd (JArr l) L He Hd) as [P1 P2].
      apply node_ok_intro; try assumption; try triv_shape.
      + eapply ty_rep_shape; [exact L2 | left; reflexivity | reflexivity].
      + unfold arity_ok. destruct (arity_of mni mxi) as [m|]; [|reflexivity].
        apply N.eqb_eq in L1. subst m. exact Q.
    - (* DTuple *)
      split_and L.
      cbn [de_node] in Hde. destruct v; try discriminate.
      destruct (zipM dr ts l) eqn:Z; [|discriminate]. apply zipM_length in Z.
      destruct (common_parts ed dd (JArr l) L He Hd) as [P1 P2].
      apply node_ok_intro; try assumption; try triv_shape.
      + eapply ty_rep_shape; [exact L2 | left; reflexivity | reflexivity].
      + unfold arity_ok. destruct (arity_of mni mxi) as [m|]; [|reflexivity].
        apply N.eqb_eq in L1. subst m. rewrite Z. apply N.eqb_refl.
    - (* DUnit *)
      apply andb_true_iff in L. destruct L as [L1 L2]. cbn [de_node] in Hde. destruct v; try discriminate.
      eapply scalar_leaf; try eassumption; try reflexivity; intros ? ?; discriminate.
    - (* DBoolean *)
      apply andb_true_iff in L. destruct L as [L1 L2]. cbn [de_node] in Hde. destruct v; try discriminate.
      eapply scalar_leaf; try eassumption; try reflexivity; intros ? ?; discriminate.
    - (* DInteger *)
      apply andb_true_iff in L. destruct L as [L1 L2]. cbn [de_node] in Hde. destruct v; try discriminate.
      eapply scalar_leaf; try eassumption; try reflexivity; intros ? ?; discriminate.
    - (* DFloat *)
      apply andb_true_iff in L. destruct L as [L1 L2]. cbn [de_node] in Hde.
      destruct (common_parts ed dd v L1 He Hd) as [P1 P2].
      destruct v; try discriminate.
      + apply node_ok_intro; try assumption; try triv_shape.
        eapply ty_rep_shape; [exact L2 | left; reflexivity | reflexivity].
      + apply node_ok_intro; try assumption; try triv_shape.
        eapply ty_rep_shape; [exact L2 | right; left; reflexivity | reflexivity].
    - (* DString *)
      split_and L.
      cbn [de_node] in Hde. destruct v; try discriminate.
      destruct (common_parts ed dd (JStr s) L He Hd) as [P1 P2].
      apply node_ok_intro; try assumption; try triv_shape.
      + eapply ty_rep_shape; [exact L1 | left; reflexivity | reflexivity].
      + apply valid_str_none. exact L0.
    - (* DJsonValue *)
      split_and L.
      destruct (common_parts ed dd v L He Hd) as [P1 P2].
      apply node_ok_intro; try assumption.
      + destruct ty; [discriminate | reflexivity].
      + apply valid_str_none. exact L3.
      + apply obj_local_noclaims. exact L2.
      + apply closed_open. apply negb_true_iff. exact L1.
      + apply arity_none. exact L0.
  Qed.

  (* ---------------------------------------------------------------- wrappers, Option, allow / deny lists *)
  Lemma go_S ed dd ft t :
    GO ed dd (S ft) t =
    match get_det T t with
    | None => false
    | Some d =>
        match wrapper_of d with
        | Some t' => GO ed dd ft t'
        | None =>
            match d with
            | DOption t' =>
                valid_type serde_ints ty JNull && (ed || (valid_enum enum JNull && valid_const cst JNull))
                && (dd || deny_ok no JNull) && GO ed dd ft t'
            | DNewtype _ _ t' (CEnum vs) => cenum_x enum cst vs && GO true dd ft t'
            | DNewtype _ _ t' (CDeny vs) => cdeny_x no vs && GO ed true ft t'
            | _ => LEAF ed dd d
            end
        end
    end.
  Proof. reflexivity. Qed.

  Lemma cenum_enum_part vs v :
    cenum_x enum cst vs = true -> existsb (json_equiv v) vs = true -> enum_part v = true.
  Proof.
    unfold cenum_x. intros G X. apply andb_true_iff in G. destruct G as [G F3]. apply andb_true_iff in G. destruct G as [F1 F2].
    apply existsb_exists in X. destruct X as [e [Hin Q]].
    apply (proj1 (forallb_forall _ _) F1) in Hin. apply andb_true_iff in Hin. destruct Hin as [Hin Vc].
    apply andb_true_iff in Hin. destruct Hin as [Se Ve].
    assert (Qe : json_equiv e v = true) by (rewrite <- (json_equiv_sym_scalar v e Se); exact Q).
    unfold enum_part, valid_enum, valid_const, opt_all in *. apply andb_true_iff. split.
    - destruct enum as [es|]; [|reflexivity]. apply existsb_exists in Ve. destruct Ve as [e' [Hin' Q']].
      apply existsb_exists. exists e'. split; [exact Hin'|].
      rewrite (json_equiv_sym_scalar e' e Se) in Q'. eapply json_equiv_scalar; [exact Se | exact Q' | exact Qe].
    - destruct cst as [c|]; [|reflexivity].
      rewrite (json_equiv_sym_scalar c e Se) in Vc. eapply json_equiv_scalar; [exact Se | exact Vc | exact Qe].
  Qed.

  Lemma cdeny_deny_ok vs v :
    cdeny_x no vs = true -> existsb (json_equiv v) vs = false -> deny_ok no v = true.
  Proof.
    unfold cdeny_x, deny_ok. destruct (deny_of no) as [[ty' es]|]; [|reflexivity].
    intros G X. apply andb_true_iff in G. destruct G as [G1 G2].
    destruct (valid_enum (Some es) v) eqn:V; [exfalso | rewrite andb_false_r; reflexivity].
    cbn [valid_enum opt_all] in V. apply existsb_exists in V. destruct V as [e' [Hin' Q']].
    apply (proj1 (forallb_forall _ _) G2) in Hin'. apply andb_true_iff in Hin'. destruct Hin' as [Se' Hx].
    apply existsb_exists in Hx. destruct Hx as [e [Hin Q]].
    rewrite (json_equiv_sym_scalar e e' Se') in Q.
    assert (json_equiv v e = true) by (eapply json_equiv_scalar; [exact Se' | exact Q' | exact Q]).
    assert (existsb (json_equiv v) vs = true) by (apply existsb_exists; exists e; split; assumption).
    congruence.
  Qed.

  Lemma opt_inner (od : option details) (r : option rval) x :
    match od with Some (DOption _) => r | _ => option_map ROptSome r end = Some x -> exists x', r = Some x'.
  Proof. destruct od as [[]|]; destruct r; simpl; try discriminate; intros _; eexists; reflexivity. Qed.

  Lemma go_sound : forall ft ed dd t v f x,
    GO ed dd ft t = true -> de f t v = Some x -> std_wire_at T ft t v = true ->
    (ed = true -> enum_part v = true) -> (dd = true -> deny_ok no v = true) -> node_ok v = true.
  Proof.
    induction ft as [|ft IH]; intros ed dd t v f x G Hde Hs He Hd; [discriminate|].
    rewrite go_S in G. destruct (de_some_S re native T _ _ _ _ Hde) as [f' ->].
    destruct (get_det T t) as [d|] eqn:E; [|discriminate].
    rewrite (de_at re native T _ _ _ _ E) in Hde.
    cbn [std_wire_at] in Hs. rewrite E in Hs.
    assert (Hnull : forall i, reaches_option T RFUEL i = false -> de f' i JNull <> Some ROptNone)
      by (intros i Hi; apply (reaches_option_sound _ _ Hi)).
    destruct (wrapper_of d) as [t'|] eqn:W.
    - destruct d; try discriminate.
      + destruct c; try discriminate. simpl in W. inversion W. subst. cbn [de_node] in Hde. eapply IH; eassumption.
      + simpl in W. inversion W. subst. cbn [de_node] in Hde. eapply IH; eassumption.
    - destruct d;
        try (apply andb_true_iff in Hs; destruct Hs as [Hs1 Hs2]; apply negb_true_iff in Hs1, Hs2;
             eapply leaf_sound; eassumption).
      + (* DNewtype *)
        destruct c.
        * discriminate W.
        * (* CEnum *)
          apply andb_true_iff in G. destruct G as [G1 G2]. cbn [de_node] in Hde.
          destruct (de f' inner v) eqn:Di; [|discriminate].
          destruct (existsb (json_equiv v) vs) eqn:X; [|discriminate].
          eapply IH; try eassumption. intros _. eapply cenum_enum_part; eassumption.
        * (* CDeny *)
          apply andb_true_iff in G. destruct G as [G1 G2]. cbn [de_node] in Hde.
          destruct (de f' inner v) eqn:Di; [|discriminate].
          destruct (existsb (json_equiv v) vs) eqn:X; [discriminate|].
          eapply IH; try eassumption. intros _. eapply cdeny_deny_ok; eassumption.
        * (* CString: a leaf *)
          eapply leaf_sound; try eassumption; reflexivity.
      + (* DOption *)
        apply andb_true_iff in G. destruct G as [G G4]. apply andb_true_iff in G. destruct G as [G G3].
        apply andb_true_iff in G. destruct G as [G1 G2]. cbn [de_node] in Hde.
        assert (Hn : v = JNull \/ exists x', de f' t0 v = Some x').
        { destruct v; [left; reflexivity | right ..]; eapply opt_inner; exact Hde. }
        destruct Hn as [->|[x' Hx']].
        * apply node_ok_intro.
          -- exact G1.
          -- destruct ed; [apply He; reflexivity | exact G2].
          -- reflexivity.
          -- reflexivity.
          -- apply closed_nonobj. intros ? ?. discriminate.
          -- apply arity_nonarr. intros ? ?. discriminate.
          -- destruct dd; [apply Hd; reflexivity | exact G3].
        * eapply IH; eassumption.
      + (* DBox *) discriminate W.
  Qed.
End RootSound.

Theorem exact_root_sound re native D T A s t v f x :
  exact re D T A s t = true ->
  Serde.de re native T f t v = Some x ->
  std_wire_at T FT t v = true ->
  root_ok re D s v = true.
Proof.
  destruct s as [b|ty fmt enum cst nv sv ik items ai mni mxi uq props req ap mnp mxp allo anyo oneo no ref dflt title];
    [reflexivity|].
  cbn [exact root_ok]. unfold exact_obj.
  destruct ref as [r|]; [reflexivity|].
  destruct allo, anyo, oneo; try reflexivity.
  intros G Hde Hs. cbn [is_none negb orb is_union andb].
  exact (go_sound re native D T (exact re D T A) ty enum cst sv ik items mni mxi props req ap no
                  FT false false t v f x G Hde Hs (fun H => False_ind _ (Bool.diff_false_true H))
                  (fun H => False_ind _ (Bool.diff_false_true H))).
Qed.

(* ================================================================== Part 2: the schema side.
   [root_ok] is implied by validity: an instance with root_ok = false is INVALID. *)
Ltac split_and_g H :=
  repeat match type of H with
         | (?a && ?b = true) => let H' := fresh "K" in apply andb_true_iff in H; destruct H as [H H']
         end.

Lemma valid_num_none nv v : is_numv_none nv = true -> valid_num nv v = true.
Proof.
  unfold is_numv_none, valid_num. destruct nv as [a b c d e]. cbn [n_multiple_of n_maximum n_exclusive_maximum n_minimum n_exclusive_minimum].
  destruct a, b, c, d, e; try discriminate. intros _. destruct (num_of v); reflexivity.
Qed.

Section SchemaSide.
  Variables re fmt : ustring -> ustring -> bool.
  Variable D : defs.
  Local Notation vx := (Valid.validx re fmt serde_ints D).

  Lemma deny_shape_valid n s es v :
    deny_shape s = true -> sch_enum s = Some es ->
    vx n s v = valid_type serde_ints (sch_types s) v && valid_enum (Some es) v.
  Proof.
    intros Hs He.
    destruct s as [b|ty fm enum cst nv sv ik items ai mni mxi uq props req ap mnp mxp allo anyo oneo no ref dflt title];
      [discriminate|].
    cbn [deny_shape] in Hs. cbn [sch_enum sch_types] in *. subst enum. split_and_g Hs.
    repeat match goal with
           | H : is_none ?x = true |- _ => destruct x; [discriminate H|]; clear H
           end.
    destruct ik; try discriminate. destruct items; try discriminate. destruct props; try discriminate.
    destruct req; try discriminate. destruct uq; try discriminate.
    rewrite validx_SObj. cbv zeta. unfold combine_ref, here_v, valid_local.
    rewrite (valid_num_none nv v) by assumption. rewrite (valid_str_none re sv v) by assumption.
    cbn [valid_format valid_const opt_all].
    destruct v; cbn [valid_arr_local valid_obj_local valid_arr valid_obj opt_all forallb]; rewrite ?andb_true_r; reflexivity.
  Qed.

  Theorem root_ok_of_valid n s v : vx n s v = true -> root_ok re D s v = true.
  Proof.
    destruct s as [b|ty fm enum cst nv sv ik items ai mni mxi uq props req ap mnp mxp allo anyo oneo no ref dflt title];
      [reflexivity|].
    cbn [root_ok]. destruct ref as [r|]; [reflexivity|]. destruct (is_union allo anyo oneo); [reflexivity|].
    cbn [is_none negb orb]. intros Hv.
    rewrite validx_SObj in Hv. cbv zeta in Hv. unfold combine_ref, here_v, valid_local in Hv.
    rewrite !andb_true_iff in Hv.
    destruct Hv as [[[[[[VL Harr] Hobj] Hall] Hany] Hone] Hno].
    destruct VL as [[[[[[[H1 H2] H3] H4] H5] H6] H7] H8].
    rewrite H1, H3, H4, H6. cbn [andb].
    assert (A1 : valid_obj_local (req_enf D props req) None None v = true).
    { destruct v; try reflexivity. cbn [valid_obj_local opt_all] in H8 |- *. rewrite !andb_true_r.
      apply andb_true_iff in H8. destruct H8 as [H8 _]. apply andb_true_iff in H8. destruct H8 as [H8 _].
      unfold req_enf. apply forallb_filter. exact H8. }
    assert (A2 : closed_ok props ap v = true).
    { unfold closed_ok. destruct ap as [[[]|]|]; try reflexivity. destruct v; try reflexivity.
      unfold valid_obj in Hobj. apply andb_true_iff in Hobj. destruct Hobj as [_ Hobj].
      apply forallb_forall. intros kv Hin. apply (proj1 (forallb_forall _ _) Hobj) in Hin.
      rewrite validx_unfold, vstep_SBool, orb_false_r in Hin. exact Hin. }
    assert (A3 : arity_ok mni mxi v = true).
    { unfold arity_ok, arity_of. destruct mni as [a|], mxi as [b|]; try reflexivity.
      destruct (N.eqb a b) eqn:Q; [|reflexivity]. apply N.eqb_eq in Q. subst b.
      destruct v; try reflexivity. cbn [valid_arr_local opt_all] in H7.
      apply andb_true_iff in H7. destruct H7 as [H7 _]. apply andb_true_iff in H7. destruct H7 as [P1 P2].
      apply N.leb_le in P1, P2. apply N.eqb_eq. lia. }
    assert (A4 : deny_ok no v = true).
    { unfold deny_ok. destruct (deny_of no) as [[ty' es]|] eqn:Dn; [|reflexivity].
      unfold deny_of in Dn. destruct no as [s'|]; [|discriminate].
      destruct (deny_shape s') eqn:Sh; [|discriminate]. destruct (sch_enum s') eqn:Se; [|discriminate].
      inversion Dn. subst. cbn [opt_all] in Hno. rewrite (deny_shape_valid n s' es v Sh Se) in Hno. exact Hno. }
    rewrite A1, A2, A3, A4. reflexivity.
  Qed.
End SchemaSide.

(* ================================================================== Part 4: one step below the
   root, through struct members.  If [exact] holds for an object schema against a struct type and
   the struct accepts an object, then for every declared property that is present the checker's
   verdict holds for (property schema, member type) and the member type accepts the member's value
   - so root soundness applies again at the member, and so on along any path of struct members. *)
Section MemberStep.
  Variables re native : ustring -> ustring -> bool.
  Variable D : defs.
  Variable T : space.
  Variable A : list (ustring * id).
  Local Notation de := (Serde.de re native T).
  Local Notation dv := (Serde.default_val T).
  Local Notation EX := (exact re D T A).

  (* how the value [xv] of member [p] is accepted: by the member type itself, or - for a member
     that may be absent - as null / by the type inside the Option (finding C05-F3) *)
  Definition member_accepts (f : nat) (p : prop) (t' : id) (xv : json) : Prop :=
    (t' = p_ty p /\ de f t' xv <> None) \/
    (p_state p = POptional /\ get_det T (p_ty p) = Some (DOption t') /\
     (xv = JNull \/ exists f', de f' t' xv <> None)).

  Theorem exact_member_step
          ty fmt enum cst nv sv ik items ai mni mxi uq props req ap mnp mxp no dflt title
          t n d ps deny f kvs x k s' xv :
    EX (SObj ty fmt enum cst nv sv ik items ai mni mxi uq props req ap mnp mxp None None None no None dflt title) t = true ->
    get_det T t = Some (DStruct n d ps deny) ->
    de (S f) t (JObj kvs) = Some x ->
    In (k, s') props -> assoc k kvs = Some xv ->
    exists p t', find_wire k ps = Some p /\ EX s' t' = true /\ member_accepts f p t' xv.
  Proof.
    intros G E Hde Hin Hk.
    cbn [exact] in G. unfold exact_obj in G. change FT with 6 in G.
    rewrite go_S in G. rewrite E in G. cbn [wrapper_of] in G. cbn [leaf_x] in G.
    apply andb_true_iff in G. destruct G as [_ G]. unfold struct_x in G.
    repeat match type of G with
           | (?a && ?b = true) => let H' := fresh "L" in apply andb_true_iff in G; destruct G as [G H']
           end.
    (* L0 : additionalProperties, L1 : children *)
    apply (proj1 (forallb_forall _ _) L0) in Hin. cbn [fst snd] in Hin.
    destruct (find_wire k ps) as [p|] eqn:F; [|discriminate].
    destruct (find_wire_some _ _ _ F) as [Hp Hw].
    rewrite (de_at re native T _ _ _ _ E) in Hde. cbn [de_node de_struct_body] in Hde.
    assert (H1 : de_struct_obj T (de f) (dv f) ps deny kvs <> None)
      by (destruct (de_struct_obj T (de f) (dv f) ps deny kvs); [congruence | discriminate]).
    apply de_struct_obj_ok in H1. destruct H1 as [H1 _]. rewrite de_named_ok in H1.
    specialize (H1 p k Hp Hw). unfold member_val in H1. rewrite Hk in H1.
    exists p. apply orb_true_iff in Hin. destruct Hin as [Hin|Hin].
    - exists (p_ty p). split; [reflexivity|]. split; [exact Hin|]. left. split; [reflexivity | exact H1].
    - destruct (p_state p) eqn:St; try discriminate.
      destruct (get_det T (p_ty p)) as [[]|] eqn:Ed; try discriminate.
      exists t0. split; [reflexivity|]. split; [exact Hin|]. right. split; [first [assumption | reflexivity]|]. split; [first [assumption | reflexivity]|].
      destruct f as [|f0]; [exfalso; apply H1; reflexivity|].
      rewrite (de_at re native T _ _ _ _ Ed) in H1. cbn [de_node] in H1.
      destruct xv; [left; reflexivity | right ..]; exists f0;
        (destruct (get_det T t0) as [[]|]; rewrite ?option_map_ok in H1; exact H1).
  Qed.

  (* ... hence the member's value satisfies what its property schema states at ITS root *)
  Corollary exact_member_sound
          ty fmt enum cst nv sv ik items ai mni mxi uq props req ap mnp mxp no dflt title
          t n d ps deny f kvs x k s' xv :
    EX (SObj ty fmt enum cst nv sv ik items ai mni mxi uq props req ap mnp mxp None None None no None dflt title) t = true ->
    get_det T t = Some (DStruct n d ps deny) ->
    de (S f) t (JObj kvs) = Some x ->
    In (k, s') props -> assoc k kvs = Some xv ->
    xv <> JNull ->
    (forall t', std_wire_at T FT t' xv = true) ->
    root_ok re D s' xv = true.
  Proof.
    intros G E Hde Hin Hk Hnn Hstd.
    destruct (exact_member_step _ _ _ _ _ _ _ _ _ _ _ _ _ _ _ _ _ _ _ _ _ _ _ _ _ _ _ _ _ _ _ G E Hde Hin Hk)
      as [p [t' [_ [Gx Hacc]]]].
    destruct Hacc as [[_ Ha]|[_ [_ [Hn|[f' Ha]]]]].
    - destruct (de f t' xv) as [y|] eqn:Q; [|congruence].
      exact (exact_root_sound re native D T A s' t' xv f y Gx Q (Hstd t')).
    - contradiction.
    - destruct (de f' t' xv) as [y|] eqn:Q; [|congruence].
      exact (exact_root_sound re native D T A s' t' xv f' y Gx Q (Hstd t')).
  Qed.
End MemberStep.

(* ================================================================== Part 5: soundness at any depth *)
Lemma mapM_some_in {X Y} (g : X -> option Y) l r x : mapM g l = Some r -> In x l -> g x <> None.
Proof. intros H. apply (proj1 (mapM_ok g l)). congruence. Qed.

Lemma zipM_nth {X Y W} (g : X -> Y -> option W) ts l r i t x :
  zipM g ts l = Some r -> nth_error ts i = Some t -> nth_error l i = Some x -> g t x <> None.
Proof.
  revert l r i. induction ts as [|t0 ts IH]; intros [|y l] r i; simpl; try discriminate.
  - destruct i; discriminate.
  - destruct (g t0 y) eqn:G; [|discriminate]. destruct (zipM g ts l) eqn:Z; [|discriminate]. intros _.
    destruct i; simpl.
    + intros H1 H2. inversion H1. inversion H2. subst. congruence.
    + intros H1 H2. eapply IH; eassumption.
Qed.

Lemma ex_list_nth (ex : schema -> id -> bool) ss ts i s' :
  ex_list ex ss ts = true -> nth_error ss i = Some s' -> exists t', nth_error ts i = Some t' /\ ex s' t' = true.
Proof.
  revert ts i. induction ss as [|s0 ss IH]; intros [|t0 ts] i; simpl; try discriminate.
  - destruct i; discriminate.
  - intros H. apply andb_true_iff in H. destruct H as [H1 H2]. destruct i; simpl.
    + intros E. inversion E. subst. exists t0. split; [reflexivity | exact H1].
    + intros E. apply (IH ts i H2 E).
Qed.

Section Resolve.
  Variables re native : ustring -> ustring -> bool.
  Variable D : defs.
  Variable T : space.
  Variable ex : schema -> id -> bool.
  Variables (ty : option (list itype)) (enum : option (list json)) (cst : option json) (sv : strv)
            (ik : items_kind) (items : list schema) (mni mxi : option N)
            (props : list (ustring * schema)) (req : list ustring) (ap no : option schema).

  Local Notation de := (Serde.de re native T).
  Local Notation dv := (Serde.default_val T).
  Local Notation GO := (go_plain re D T ex ty enum cst sv ik items mni mxi props req ap no).
  Local Notation LEAF := (leaf_x re D T ex ty enum cst sv ik items mni mxi props req ap no).

  Ltac split_and H :=
    repeat match type of H with
           | (?a && ?b = true) => let H' := fresh "L" in apply andb_true_iff in H; destruct H as [H H']
           end.

  (* unwrapping Box / plain newtype / Option / allow and deny lists down to the leaf *)
  Lemma go_resolve : forall ft ed dd t v f x,
    GO ed dd ft t = true -> de f t v = Some x -> v <> JNull ->
    exists ed' dd' d f0 x0, LEAF ed' dd' d = true /\ de_node re native T (de f0) (dv f0) d v = Some x0.
  Proof.
    induction ft as [|ft IH]; intros ed dd t v f x G Hde Hn; [discriminate|].
    rewrite go_S in G. destruct (de_some_S re native T _ _ _ _ Hde) as [f' ->].
    destruct (get_det T t) as [d|] eqn:E; [|discriminate].
    rewrite (de_at re native T _ _ _ _ E) in Hde.
    destruct (wrapper_of d) as [t'|] eqn:W.
    - destruct d; try discriminate.
      + destruct c; try discriminate. simpl in W. inversion W. subst. cbn [de_node] in Hde. eapply IH; eassumption.
      + simpl in W. inversion W. subst. cbn [de_node] in Hde. eapply IH; eassumption.
    - destruct d; try (exists ed, dd; do 3 eexists; split; [exact G | exact Hde]).
      + destruct c.
        * discriminate W.
        * apply andb_true_iff in G. destruct G as [G1 G2]. cbn [de_node] in Hde.
          destruct (de f' inner v) eqn:Di; [|discriminate]. eapply IH; eassumption.
        * apply andb_true_iff in G. destruct G as [G1 G2]. cbn [de_node] in Hde.
          destruct (de f' inner v) eqn:Di; [|discriminate]. eapply IH; eassumption.
        * exists ed, dd. do 3 eexists. split; [exact G | exact Hde].
      + apply andb_true_iff in G. destruct G as [G G4]. cbn [de_node] in Hde.
        assert (Hx : exists x', de f' t0 v = Some x').
        { destruct v; [congruence | ..]; eapply opt_inner; exact Hde. }
        destruct Hx as [x' Hx']. eapply IH; eassumption.
  Qed.

  (* the alternative wire forms are excluded by the schema's "type" *)
  Definition altf (v : json) : bool :=
    match v with
    | JArr _ => negb (valid_type serde_ints ty (JObj []))
    | JObj _ => negb (valid_type serde_ints ty (JStr []))
    | _ => true
    end.

  Lemma leaf_std ed dd d v :
    LEAF ed dd d = true -> altf v = true ->
    negb (seq_for_struct d v) && negb (obj_for_unit_variant d v) = true.
  Proof.
    intros L Ha. destruct d; try (destruct v; reflexivity).
    - (* DEnum *) destruct v; try (destruct tag; reflexivity).
      cbn [leaf_x] in L. destruct tag; try discriminate. split_and L.
      match goal with H : ty_rep _ _ = true |- _ =>
        unfold ty_rep in H; cbn [forallb] in H; rewrite andb_true_r in H; cbn [altf] in Ha; rewrite H in Ha end.
      discriminate.
    - (* DStruct *) destruct v; try reflexivity.
      cbn [leaf_x] in L. apply andb_true_iff in L. destruct L as [_ L]. unfold struct_x in L. split_and L.
      match goal with H : ty_rep _ _ = true |- _ =>
        unfold ty_rep in H; cbn [forallb] in H; rewrite andb_true_r in H; cbn [altf] in Ha; rewrite H in Ha end.
      discriminate.
  Qed.

  Lemma go_std : forall ft ed dd t v,
    GO ed dd ft t = true -> altf v = true -> std_wire_at T ft t v = true.
  Proof.
    induction ft as [|ft IH]; intros ed dd t v G Ha; [discriminate|].
    rewrite go_S in G. cbn [std_wire_at].
    destruct (get_det T t) as [d|] eqn:E; [|reflexivity].
    destruct (wrapper_of d) as [t'|] eqn:W.
    - destruct d; try discriminate.
      + destruct c; try discriminate. simpl in W. inversion W. subst. eapply IH; eassumption.
      + simpl in W. inversion W. subst. eapply IH; eassumption.
    - destruct d; try (eapply leaf_std; eassumption).
      + destruct c.
        * discriminate W.
        * apply andb_true_iff in G. destruct G as [_ G]. eapply IH; eassumption.
        * apply andb_true_iff in G. destruct G as [_ G]. eapply IH; eassumption.
        * reflexivity.
      + apply andb_true_iff in G. destruct G as [_ G]. eapply IH; eassumption.
      + discriminate W.
  Qed.

  (* ---------------------------------------------------------------- children of a leaf *)
  Lemma opt_inner_ne f0 t' xv :
    xv <> JNull ->
    (forall od, match xv with
                | JNull => Some ROptNone
                | _ => match od with Some (DOption _) => de f0 t' xv | _ => option_map ROptSome (de f0 t' xv) end
                end <> None -> de f0 t' xv <> None).
  Proof.
    intros Hn od H. destruct xv; [congruence | ..];
      (destruct od as [[]|]; rewrite ?option_map_ok in H; exact H).
  Qed.

  (* a declared property that is present *)
  Lemma leaf_prop ed dd d f0 kvs x0 k s' xv :
    LEAF ed dd d = true -> de_node re native T (de f0) (dv f0) d (JObj kvs) = Some x0 ->
    In (k, s') props -> assoc k kvs = Some xv -> xv <> JNull ->
    exists t' f', ex s' t' = true /\ de f' t' xv <> None.
  Proof.
    intros L Hde Hin Hk Hn. destruct d; cbn [leaf_x] in L; try discriminate; cbn [de_node] in Hde; try discriminate;
      try (destruct c; discriminate).
    - (* DEnum: only the {"raw": null} form, whose single member is null *)
      destruct tag; try discriminate. cbn [de_enum] in Hde.
      destruct kvs as [|[k0 pj] [|kv2 r]]; try discriminate.
      destruct (find_variant k0 vs 0) as [[i vr]|] eqn:F; [|discriminate].
      split_and L. destruct (find_variant_some _ _ _ _ _ F) as [Hv _].
      unfold all_simple in L. apply (proj1 (forallb_forall _ _) L) in Hv.
      destruct (v_det vr); try discriminate. cbn [de_payload option_map] in Hde.
      cbn [assoc] in Hk. destruct (ustr_eqb k k0); [|discriminate]. inversion Hk. subst.
      destruct xv; try discriminate. congruence.
    - (* DStruct *)
      apply andb_true_iff in L. destruct L as [_ L]. unfold struct_x in L. split_and L.
      apply (proj1 (forallb_forall _ _) L1) in Hin. cbn [fst snd] in Hin.
      destruct (find_wire k props0) as [p|] eqn:F; [|discriminate].
      destruct (find_wire_some _ _ _ F) as [Hp Hw].
      cbn [de_struct_body] in Hde.
      assert (H1 : de_struct_obj T (de f0) (dv f0) props0 deny kvs <> None)
        by (destruct (de_struct_obj T (de f0) (dv f0) props0 deny kvs); [congruence | discriminate]).
      apply de_struct_obj_ok in H1. destruct H1 as [H1 _]. rewrite de_named_ok in H1.
      specialize (H1 p k Hp Hw). unfold member_val in H1. rewrite Hk in H1.
      apply orb_true_iff in Hin. destruct Hin as [Hin|Hin].
      + exists (p_ty p), f0. split; assumption.
      + destruct (p_state p); try discriminate.
        destruct (get_det T (p_ty p)) as [[]|] eqn:Ed; try discriminate.
        destruct f0 as [|f1]; [exfalso; apply H1; reflexivity|].
        rewrite (de_at re native T _ _ _ _ Ed) in H1. cbn [de_node] in H1.
        exists t, f1. split; [exact Hin|]. eapply opt_inner_ne; eassumption.
    - (* DMap: no declared property *)
      split_and L. destruct props; [destruct Hin | discriminate].
    - (* DJsonValue *)
      split_and L. match goal with H : no_children _ _ _ = true |- _ => unfold no_children in H; split_and H end. destruct props; [destruct Hin | discriminate].
  Qed.

  (* an element of an array described by one "items" schema *)
  Lemma leaf_item ed dd d f0 l x0 s' x :
    LEAF ed dd d = true -> de_node re native T (de f0) (dv f0) d (JArr l) = Some x0 ->
    ik = ItemsSingle -> items = [s'] -> In x l ->
    exists t', ex s' t' = true /\ de f0 t' x <> None.
  Proof.
    intros L Hde Hik Hit Hin.
    destruct d; cbn [leaf_x] in L; try discriminate; cbn [de_node] in Hde; try discriminate;
      try (destruct c; discriminate).
    - destruct tag; discriminate.
    - split_and L. match goal with H : no_items _ = true |- _ => unfold no_items in H; rewrite Hik in H; discriminate H end.
    - split_and L. unfold elem_x in L0. rewrite Hik, Hit in L0.
      destruct (mapM (de f0 t) l) eqn:M; [|discriminate]. exists t. split; [exact L0 | eapply mapM_some_in; eassumption].
    - split_and L. unfold elem_x in L0. rewrite Hik, Hit in L0.
      destruct (mapM (de f0 t) l) eqn:M; [|discriminate]. exists t. split; [exact L0 | eapply mapM_some_in; eassumption].
    - split_and L. unfold elem_x in L0. rewrite Hik, Hit in L0.
      destruct (N.eqb (N.of_nat (length l)) n); [|discriminate].
      destruct (mapM (de f0 t) l) eqn:M; [|discriminate]. exists t. split; [exact L0 | eapply mapM_some_in; eassumption].
    - split_and L. rewrite Hik in L0. discriminate.
    - split_and L. match goal with H : no_children _ _ _ = true |- _ => unfold no_children in H; split_and H end.
      match goal with H : no_items _ = true |- _ => unfold no_items in H; rewrite Hik in H; discriminate H end.
  Qed.

  (* a tuple position *)
  Lemma leaf_tuple ed dd d f0 l x0 i s' x :
    LEAF ed dd d = true -> de_node re native T (de f0) (dv f0) d (JArr l) = Some x0 ->
    ik = ItemsTuple -> nth_error items i = Some s' -> nth_error l i = Some x ->
    exists t', ex s' t' = true /\ de f0 t' x <> None.
  Proof.
    intros L Hde Hik Hs Hx.
    destruct d; cbn [leaf_x] in L; try discriminate; cbn [de_node] in Hde; try discriminate;
      try (destruct c; discriminate).
    - destruct tag; discriminate.
    - split_and L. match goal with H : no_items _ = true |- _ => unfold no_items in H; rewrite Hik in H; discriminate H end.
    - split_and L. unfold elem_x in L0. rewrite Hik in L0. discriminate.
    - split_and L. unfold elem_x in L0. rewrite Hik in L0. discriminate.
    - split_and L. unfold elem_x in L0. rewrite Hik in L0. discriminate.
    - split_and L. rewrite Hik in L0.
      destruct (ex_list_nth _ _ _ _ _ L0 Hs) as [t' [Ht He]].
      destruct (zipM (de f0) ts l) eqn:Z; [|discriminate].
      exists t'. split; [exact He | eapply zipM_nth; eassumption].
    - split_and L. match goal with H : no_children _ _ _ = true |- _ => unfold no_children in H; split_and H end.
      match goal with H : no_items _ = true |- _ => unfold no_items in H; rewrite Hik in H; discriminate H end.
  Qed.

  (* a value admitted by a typed additionalProperties *)
  Lemma leaf_addl ed dd d f0 kvs x0 sa k x :
    LEAF ed dd d = true -> de_node re native T (de f0) (dv f0) d (JObj kvs) = Some x0 ->
    ap = Some sa -> typed_schema sa = true -> In (k, x) kvs -> has_key k props = false -> x <> JNull ->
    exists t' f', ex sa t' = true /\ de f' t' x <> None.
  Proof.
    intros L Hde Hap Hty Hin Hk Hn.
    destruct d; cbn [leaf_x] in L; try discriminate; cbn [de_node] in Hde; try discriminate;
      try (destruct c; discriminate).
    - (* DEnum: only {"raw": null}, whose single value is null *)
      destruct tag; try discriminate. cbn [de_enum] in Hde.
      destruct kvs as [|[k0 pj] [|kv2 r]]; try discriminate.
      destruct (find_variant k0 vs 0) as [[i vr]|] eqn:F; [|discriminate].
      split_and L. destruct (find_variant_some _ _ _ _ _ F) as [Hv _].
      unfold all_simple in L. apply (proj1 (forallb_forall _ _) L) in Hv.
      destruct (v_det vr); try discriminate. cbn [de_payload option_map] in Hde.
      destruct Hin as [Hin|[]]. inversion Hin. subst. destruct x; try discriminate. congruence.
    - (* DStruct: the flattened map receives every entry that is not a member *)
      apply andb_true_iff in L. destruct L as [_ L]. unfold struct_x in L. split_and L.
      rewrite Hap in L0. destruct sa as [b|]; [discriminate|].
      destruct (flat_props props0) as [|fp [|fp2 r]] eqn:Fl; try discriminate.
      destruct (get_det T (p_ty fp)) as [[]|] eqn:Ed; try discriminate.
      apply andb_true_iff in L0. destruct L0 as [Lx Lw].
      cbn [de_struct_body] in Hde.
      assert (H1 : de_struct_obj T (de f0) (dv f0) props0 deny kvs <> None)
        by (destruct (de_struct_obj T (de f0) (dv f0) props0 deny kvs); [congruence | discriminate]).
      apply de_struct_obj_ok in H1. destruct H1 as [_ H1]. unfold flat_stage_ok in H1. rewrite Fl in H1.
      destruct H1 as [_ H1]. apply (flats_ok_one_map T _ _ _ _ _ Ed) in H1.
      destruct f0 as [|f1]; [exfalso; apply H1; reflexivity|].
      rewrite (de_at re native T _ _ _ _ Ed) in H1. cbn [de_node] in H1. rewrite option_map_ok in H1.
      assert (Hu : In (k, x) (unknown_entries props0 kvs)).
      { unfold unknown_entries. apply filter_In. split; [exact Hin|]. cbn [fst].
        destruct (mem_ustr k (wire_names props0)) eqn:M; [|reflexivity].
        apply mem_ustr_In in M. apply (proj1 (forallb_forall _ _) Lw) in M. congruence. }
      assert (H2 := proj1 (mapM_ok _ _) H1 _ Hu). cbn [fst snd] in H2.
      exists v, f1. split; [exact Lx|]. destruct (de_key (de f1) k0 k); [|congruence]. destruct (de f1 v x); congruence.
    - (* DMap *)
      split_and L. rewrite Hap in L0. destruct sa; [discriminate|].
      destruct (mapM _ kvs) eqn:M; [|discriminate].
      assert (H := mapM_some_in _ _ _ _ M Hin). cbn [fst snd] in H.
      exists v, f0. split; [exact L0|]. destruct (de_key (de f0) k0 k); [|congruence]. destruct (de f0 v x); congruence.
    - split_and L. match goal with H : no_children _ _ _ = true |- _ => unfold no_children in H; split_and H end.
      match goal with H : match ap with _ => _ end = true |- _ => rewrite Hap in H; destruct sa; discriminate end.
  Qed.
End Resolve.

Lemma plain_inv s : plain s = true ->
  exists ty fmt enum cst nv sv ik items ai mni mxi uq props req ap mnp mxp no dflt title,
    s = SObj ty fmt enum cst nv sv ik items ai mni mxi uq props req ap mnp mxp None None None no None dflt title.
Proof.
  destruct s as [b|ty fmt enum cst nv sv ik items ai mni mxi uq props req ap mnp mxp allo anyo oneo no ref dflt title];
    [discriminate|].
  cbn [plain]. destruct ref; [discriminate|]. destruct allo, anyo, oneo; try discriminate. intros _.
  repeat eexists.
Qed.

Lemma nonplain_root_ok re D s v : plain s = false -> root_ok re D s v = true.
Proof.
  destruct s as [b|ty fmt enum cst nv sv ik items ai mni mxi uq props req ap mnp mxp allo anyo oneo no ref dflt title];
    [reflexivity|].
  cbn [plain root_ok]. destruct ref; [reflexivity|]. cbn [is_none negb orb andb].
  destruct (is_union allo anyo oneo); [reflexivity | discriminate].
Qed.

Lemma union_inv s bs : union_branches s = Some bs ->
  exists ty fmt enum cst nv sv ik items ai mni mxi uq props req ap mnp mxp anyo oneo no dflt title,
    s = SObj ty fmt enum cst nv sv ik items ai mni mxi uq props req ap mnp mxp None anyo oneo no None dflt title
    /\ ((anyo = Some bs /\ oneo = None) \/ (anyo = None /\ oneo = Some bs)).
Proof.
  destruct s as [b|ty fmt enum cst nv sv ik items ai mni mxi uq props req ap mnp mxp allo anyo oneo no ref dflt title];
    [discriminate|].
  cbn [union_branches]. destruct allo; [discriminate|]. destruct anyo as [l1|], oneo as [l2|], ref; try discriminate;
    intros H; inversion H; subst; repeat eexists; auto.
Qed.

Section Deep.
  Variables re native : ustring -> ustring -> bool.
  Variable D : defs.
  Variable T : space.
  Variable A : list (ustring * id).
  Hypothesis HA : exact_all re D T A = true.

  Local Notation de := (Serde.de re native T).
  Local Notation dv := (Serde.default_val T).
  Local Notation EX := (exact re D T A).

  Lemma pair_exact r t s : mem_pair_x A r t = true -> resolve_ref D r = Some s -> EX s t = true.
  Proof.
    unfold mem_pair_x. intros H Hr. apply existsb_exists in H. destruct H as [[r' t'] [Hin H]].
    cbn [fst snd] in H. apply andb_true_iff in H. destruct H as [H1 H2].
    apply ustr_eqb_eq in H1. apply N.eqb_eq in H2. subst r' t'.
    unfold exact_all in HA. apply (proj1 (forallb_forall _ _) HA) in Hin. cbn [fst snd] in Hin.
    rewrite Hr in Hin. exact Hin.
  Qed.

  Lemma ref_resolve r : forall ft t v f x,
    ref_x T A r ft t = true -> de f t v = Some x -> v <> JNull ->
    exists t0 f0 x0, mem_pair_x A r t0 = true /\ de f0 t0 v = Some x0.
  Proof.
    induction ft as [|ft IH]; intros t v f x G Hde Hn; cbn [ref_x] in G;
      destruct (mem_pair_x A r t) eqn:M; try (exists t, f, x; split; assumption); try discriminate.
    destruct (de_some_S re native T _ _ _ _ Hde) as [f' ->].
    destruct (get_det T t) as [d|] eqn:E; [|discriminate].
    rewrite (de_at re native T _ _ _ _ E) in Hde.
    destruct d; try discriminate.
    - destruct c; try discriminate. cbn [de_node] in Hde. eapply IH; eassumption.
    - cbn [de_node] in Hde.
      assert (Hx : exists x', de f' t0 v = Some x') by (destruct v; [congruence | ..]; eapply opt_inner; exact Hde).
      destruct Hx as [x' Hx']. eapply IH; eassumption.
    - cbn [de_node] in Hde. eapply IH; eassumption.
  Qed.

  (* a nullable union resolves to an Option whose inner type represents the non-null branch *)
  Lemma union_opt_resolve bs b : forall ft t v f x,
    union_x T EX bs ft t = true -> de f t v = Some x -> v <> JNull ->
    existsb null_only bs = true -> In b bs -> null_only b = false ->
    exists t' f' x', EX b t' = true /\ de f' t' v = Some x'.
  Proof.
    induction ft as [|ft IH]; intros t v f x G Hde Hn Hnull Hin Hb; [discriminate|].
    cbn [union_x] in G. destruct (de_some_S re native T _ _ _ _ Hde) as [f' ->].
    destruct (get_det T t) as [d|] eqn:E; [|discriminate].
    rewrite (de_at re native T _ _ _ _ E) in Hde.
    assert (Hnn : no_null bs = false) by (unfold no_null; rewrite Hnull; reflexivity).
    destruct (wrapper_of d) as [t'|] eqn:W.
    - destruct d; try discriminate.
      + destruct c; try discriminate. simpl in W. inversion W. subst. cbn [de_node] in Hde. eapply IH; eassumption.
      + simpl in W. inversion W. subst. cbn [de_node] in Hde. eapply IH; eassumption.
    - destruct d; try (rewrite Hnn in G; discriminate G).
      + (* DEnum *) destruct tag; rewrite Hnn in G; discriminate G.
      + (* DOption *)
        apply andb_true_iff in G. destruct G as [_ G].
        apply (proj1 (forallb_forall _ _) G) in Hin. rewrite Hb in Hin. cbn [orb] in Hin.
        cbn [de_node] in Hde.
        assert (Hx : exists x', de f' t0 v = Some x') by (destruct v; [congruence | ..]; eapply opt_inner; exact Hde).
        destruct Hx as [x' Hx']. exists t0, f', x'. split; assumption.
  Qed.

  (* a union with a common tag resolves to an enum tagged by it, whose variants are the branch constants *)
  Lemma tags_match tg bs vs s0 :
    tags_x tg bs vs = true -> is_variant_raw vs s0 ->
    existsb (fun b => match branch_tag_of tg b with Some y => ustr_eqb s0 y | None => false end) bs = true.
  Proof.
    unfold tags_x. intros H [vr [Hin Hr]]. apply andb_true_iff in H. destruct H as [_ H].
    apply (proj1 (forallb_forall _ _) H) in Hin. apply existsb_exists in Hin. destruct Hin as [b [Hb Q]].
    apply existsb_exists. exists b. split; [exact Hb|]. unfold branch_tag in Q.
    destruct (branch_tag_of tg b) as [y|]; [|discriminate]. subst s0. rewrite ustr_eqb_sym. exact Q.
  Qed.

  Lemma union_tag_resolve bs tg : forall ft t kvs f x,
    union_x T EX bs ft t = true -> de f t (JObj kvs) = Some x -> common_tag bs = Some tg ->
    tag_bad tg bs (JObj kvs) = false.
  Proof.
    induction ft as [|ft IH]; intros t kvs f x G Hde Hc; [discriminate|].
    cbn [union_x] in G. destruct (de_some_S re native T _ _ _ _ Hde) as [f' Ef]. subst f.
    destruct (get_det T t) as [d|] eqn:E; [|discriminate].
    assert (Hde0 := Hde). rewrite (de_at re native T _ _ _ _ E) in Hde.
    assert (Hct : is_none (common_tag bs) = false) by (rewrite Hc; reflexivity).
    destruct (wrapper_of d) as [t'|] eqn:W.
    - destruct d; try discriminate.
      + destruct c; try discriminate. simpl in W. inversion W. subst. cbn [de_node] in Hde. eapply IH; eassumption.
      + simpl in W. inversion W. subst. cbn [de_node] in Hde. eapply IH; eassumption.
    - destruct d; try (rewrite Hct, andb_false_r in G; discriminate G).
      + (* DEnum *)
        destruct tag; try (rewrite Hct, ?andb_false_r in G; cbn [andb] in G; discriminate G).
        * (* internal *)
          apply andb_true_iff in G. destruct G as [G G3]. apply andb_true_iff in G. destruct G as [_ G2].
          unfold ctag_ok in G2. rewrite Hc in G2. apply ustr_eqb_eq in G2. subst tag.
          destruct (internal_tag_enforced re native T _ _ _ _ _ _ _ _ _ _ E Hde0) as [kvs' [s0 [Ek [As Hv]]]].
          inversion Ek. subst kvs'. cbn [tag_bad]. rewrite As. rewrite (tags_match _ _ _ _ G3 Hv). reflexivity.
        * (* adjacent *)
          apply andb_true_iff in G. destruct G as [G G3]. apply andb_true_iff in G. destruct G as [_ G2].
          unfold ctag_ok in G2. rewrite Hc in G2. apply ustr_eqb_eq in G2. subst tag.
          destruct (adjacent_tag_enforced re native T _ _ _ _ _ _ _ _ _ _ _ E Hde0) as [kvs' [s0 [Ek [As Hv]]]].
          inversion Ek. subst kvs'. cbn [tag_bad]. rewrite As. rewrite (tags_match _ _ _ _ G3 Hv). reflexivity.
      + (* DOption *) rewrite Hct in G. discriminate G.
  Qed.

  (* ---------------------------------------------------------------- the theorem *)
  Theorem exact_deep_sound : forall s v, viol re D s v -> forall t f, EX s t = true -> de f t v = None.
  Proof.
    induction 1 as [s v Hr Ha | s r s' v Hs Hres Hn Hv IH | s k s' kvs x Hp Hin Hk Hn Hv IH
                    | s s' l x Hp Hit Hin Hn Hv IH | s ss l i s' x Hp Hit Hs Hx Hn Hv IH
                    | s sa kvs k x Hp Hap Hty Hin Hk Hn Hv IH | s bs b v Hu Hin Hb Hnull Hn Hv IH
                    | s bs tg v Hu Hc [kvs Ev] Hbad]; intros t f G.
    - (* here *)
      destruct (de f t v) as [y|] eqn:Q; [exfalso | reflexivity].
      assert (Hstd : std_wire_at T FT t v = true); [|rewrite (exact_root_sound re native D T A s t v f y G Q Hstd) in Hr; discriminate].
      destruct (plain s) eqn:P; [|rewrite (nonplain_root_ok re D s v P) in Hr; discriminate].
      destruct (plain_inv s P) as (ty & fmt & enum & cst & nv & sv & ik & items & ai & mni & mxi & uq & props & req & ap & mnp & mxp & no & dflt & title & ->).
      cbn [exact] in G. unfold exact_obj in G. eapply go_std; [exact G | exact Ha].
    - (* ref *)
      destruct (de f t v) as [y|] eqn:Q; [exfalso | reflexivity].
      destruct s as [b|ty fmt enum cst nv sv ik items ai mni mxi uq props req ap mnp mxp allo anyo oneo no ref dflt title];
        [discriminate|]. cbn [sch_ref] in Hs. subst ref. cbn [exact] in G. unfold exact_obj in G.
      destruct (ref_resolve r _ _ _ _ _ G Q Hn) as [t0 [f0 [x0 [M Q0]]]].
      rewrite (IH t0 f0 (pair_exact _ _ _ M Hres)) in Q0. discriminate.
    - (* property *)
      destruct (de f t (JObj kvs)) as [y|] eqn:Q; [exfalso | reflexivity].
      destruct (plain_inv s Hp) as (ty & fmt & enum & cst & nv & sv & ik & items & ai & mni & mxi & uq & props & req & ap & mnp & mxp & no & dflt & title & ->).
      cbn [exact] in G. unfold exact_obj in G. cbn [sch_props] in Hin.
      destruct (go_resolve re native D T _ _ _ _ _ _ _ _ _ _ _ _ _ _ _ _ _ _ _ _ G Q) as [ed [dd [d [f0 [x0 [L Hd]]]]]]; [discriminate|].
      destruct (leaf_prop re native D T _ _ _ _ _ _ _ _ _ _ _ _ _ _ _ _ _ _ _ _ _ _ L Hd Hin Hk Hn) as [t' [f' [Gx Hacc]]].
      apply Hacc. apply IH. exact Gx.
    - (* array element *)
      destruct (de f t (JArr l)) as [y|] eqn:Q; [exfalso | reflexivity].
      destruct (plain_inv s Hp) as (ty & fmt & enum & cst & nv & sv & ik & items & ai & mni & mxi & uq & props & req & ap & mnp & mxp & no & dflt & title & ->).
      cbn [exact] in G. unfold exact_obj in G. cbn [sch_items] in Hit. inversion Hit. subst ik items.
      destruct (go_resolve re native D T _ _ _ _ _ _ _ _ _ _ _ _ _ _ _ _ _ _ _ _ G Q) as [ed [dd [d [f0 [x0 [L Hd]]]]]]; [discriminate|].
      destruct (leaf_item re native D T _ _ _ _ _ _ _ _ _ _ _ _ _ _ _ _ _ _ _ _ _ L Hd eq_refl eq_refl Hin) as [t' [Gx Hacc]].
      apply Hacc. apply IH. exact Gx.
    - (* tuple position *)
      destruct (de f t (JArr l)) as [y|] eqn:Q; [exfalso | reflexivity].
      destruct (plain_inv s Hp) as (ty & fmt & enum & cst & nv & sv & ik & items & ai & mni & mxi & uq & props & req & ap & mnp & mxp & no & dflt & title & ->).
      cbn [exact] in G. unfold exact_obj in G. cbn [sch_items] in Hit. inversion Hit. subst ik items.
      destruct (go_resolve re native D T _ _ _ _ _ _ _ _ _ _ _ _ _ _ _ _ _ _ _ _ G Q) as [ed [dd [d [f0 [x0 [L Hd]]]]]]; [discriminate|].
      destruct (leaf_tuple re native D T _ _ _ _ _ _ _ _ _ _ _ _ _ _ _ _ _ _ _ _ _ _ L Hd eq_refl Hs Hx) as [t' [Gx Hacc]].
      apply Hacc. apply IH. exact Gx.
    - (* additionalProperties value *)
      destruct (de f t (JObj kvs)) as [y|] eqn:Q; [exfalso | reflexivity].
      destruct (plain_inv s Hp) as (ty & fmt & enum & cst & nv & sv & ik & items & ai & mni & mxi & uq & props & req & ap & mnp & mxp & no & dflt & title & ->).
      cbn [exact] in G. unfold exact_obj in G. cbn [sch_additional_props sch_props] in Hap, Hk.
      destruct (go_resolve re native D T _ _ _ _ _ _ _ _ _ _ _ _ _ _ _ _ _ _ _ _ G Q) as [ed [dd [d [f0 [x0 [L Hd]]]]]]; [discriminate|].
      destruct (leaf_addl re native D T _ _ _ _ _ _ _ _ _ _ _ _ _ _ _ _ _ _ _ _ _ _ L Hd Hap Hty Hin Hk Hn) as [t' [f' [Gx Hacc]]].
      apply Hacc. apply IH. exact Gx.
    - (* nullable union *)
      destruct (de f t v) as [y|] eqn:Q; [exfalso | reflexivity].
      destruct (union_inv s bs Hu) as (ty & fmt & enum & cst & nv & sv & ik & items & ai & mni & mxi & uq & props & req & ap & mnp & mxp & anyo & oneo & no & dflt & title & -> & Hcase).
      cbn [exact] in G. unfold exact_obj in G.
      assert (GU : union_x T EX bs FT t = true) by (destruct Hcase as [[-> ->]|[-> ->]]; exact G).
      destruct (union_opt_resolve bs b _ _ _ _ _ GU Q Hn Hnull Hin Hb) as [t' [f' [x' [Gx Qx]]]].
      rewrite (IH t' f' Gx) in Qx. discriminate.
    - (* tag *)
      subst v. destruct (de f t (JObj kvs)) as [y|] eqn:Q; [exfalso | reflexivity].
      destruct (union_inv s bs Hu) as (ty & fmt & enum & cst & nv & sv & ik & items & ai & mni & mxi & uq & props & req & ap & mnp & mxp & anyo & oneo & no & dflt & title & -> & Hcase).
      cbn [exact] in G. unfold exact_obj in G.
      assert (GU : union_x T EX bs FT t = true) by (destruct Hcase as [[-> ->]|[-> ->]]; exact G).
      rewrite (union_tag_resolve bs tg _ _ _ _ _ GU Q Hc) in Hbad. discriminate.
  Qed.
End Deep.

(* the statement of the property: every assumed pair, every violation at any reachable depth *)
Theorem exact_sound re native D T A :
  exact_all re D T A = true ->
  forall r t s, In (r, t) A -> resolve_ref D r = Some s ->
  forall v, viol re D s v -> forall f, Serde.de re native T f t v = None.
Proof.
  intros HA r t s Hin Hr v Hv f.
  apply (exact_deep_sound re native D T A HA s v Hv t f).
  unfold exact_all in HA. apply (proj1 (forallb_forall _ _) HA) in Hin. cbn [fst snd] in Hin.
  rewrite Hr in Hin. exact Hin.
Qed.

From Typify Require Algo.Defaults.
(* ================================================================== Part 6: defaults.
   `impl Default` and the serde default functions build a newtype through its private constructor,
   from the default value [d] recorded in the type space.  A value that passed the add-time check
   (Algo/Defaults.validate_value, C06's model of defaults.rs after fix 9117497, tied by C06's check)
   satisfies the newtype's constraint, i.e. it is a value the type's own Deserialize accepts. *)
(* local copy of DefaultsProofs.newtype_default_checked (C06_newtype_default_checked), so that this file
   depends on the definitions Algo/Defaults.v only *)
Lemma newtype_default_checked_local re T f t name def inner c d k :
  get_det T t = Some (DNewtype name def inner c) ->
  Defaults.validate_value re T (S f) t d = Defaults.ROk k -> Defaults.constraint_ok re c d = true.
Proof.
  intros Hg H. cbn [Defaults.validate_value] in H. rewrite Hg in H. cbn [Defaults.validate_det] in H.
  destruct (Defaults.validate_value re T f inner d); cbn [Defaults.rbind] in H; try discriminate.
  destruct (Defaults.constraint_ok re c d); [reflexivity | discriminate H].
Qed.

Theorem validated_default_satisfies_string re T f t name def inner mx mn pat d k :
  get_det T t = Some (DNewtype name def inner (CString mx mn pat)) ->
  Defaults.validate_value re T (S f) t d = Defaults.ROk k ->
  exists s, d = JStr s /\ str_constraints_ok re mx mn pat s = true.
Proof.
  intros E H. apply (newtype_default_checked_local re T f t name def inner _ d k E) in H.
  cbn [Defaults.constraint_ok] in H. destruct d; try discriminate. exists s. split; [reflexivity|].
  unfold str_constraints_ok. unfold Defaults.opt_geb, Defaults.opt_leb in H. exact H.
Qed.

Theorem validated_default_accepted_string re native T f f' t name def inner mx mn pat d k :
  get_det T t = Some (DNewtype name def inner (CString mx mn pat)) ->
  Defaults.validate_value re T (S f) t d = Defaults.ROk k ->
  Serde.de re native T (S f') t d <> None.
Proof.
  intros E H. destruct (validated_default_satisfies_string re T f t name def inner mx mn pat d k E H) as [s [-> C]].
  rewrite (de_at re native T _ _ _ _ E). cbn [de_node]. rewrite C. discriminate.
Qed.

(* allow / deny lists: the add-time check compares serde_json values ([json_eqb]) *)
Theorem validated_default_satisfies_list re T f t name def inner c d k :
  get_det T t = Some (DNewtype name def inner c) ->
  Defaults.validate_value re T (S f) t d = Defaults.ROk k ->
  match c with
  | CEnum vs => existsb (fun x => json_eqb x d) vs = true
  | CDeny vs => existsb (fun x => json_eqb x d) vs = false
  | _ => True
  end.
Proof.
  intros E H. apply (newtype_default_checked_local re T f t name def inner _ d k E) in H.
  destruct c; try exact I; cbn [Defaults.constraint_ok] in H; [exact H | apply negb_true_iff; exact H].
Qed.

(* ------------------------------------------------------------------ the old side condition of
   [required_enforced] ("the member's type is not a direct Option") is not enough:
   a required member `a : D0` with `struct D0(Option<bool>)` (transparent newtype)
   is accepted when absent (observed on compiled code; IR/Serde.v [missing]). *)
Definition rq_space : space :=
  mkSpace
    [ (0%N, mkEntry (DStruct [83%N] None [mkProp [97%N] RNone PRequired 1%N] false) []);
      (1%N, mkEntry (DNewtype [68%N; 48%N] None 2%N CNone) []);
      (2%N, mkEntry (DOption 3%N) []);
      (3%N, mkEntry DBoolean []) ]
    4%N (mkSettings None [] false []) false false false false [].

Theorem required_enforced_direct_refuted :
  exists re native T f t kvs x n d ps deny p w,
    get_det T t = Some (DStruct n d ps deny) /\
    de re native T f t (JObj kvs) = Some x /\
    In p ps /\ p_state p = PRequired /\ wire_name p = Some w /\
    (forall t', get_det T (p_ty p) <> Some (DOption t')) /\
    has_key w kvs = false.
Proof.
  exists (fun _ _ => true), (fun _ _ => true), rq_space, 4, 0%N, [],
         (RStruct [([97%N], ROptNone)]), [83%N], None,
         [mkProp [97%N] RNone PRequired 1%N], false, (mkProp [97%N] RNone PRequired 1%N), [97%N].
  repeat split; try reflexivity.
  - left. reflexivity.
  - intros t'. discriminate.
Qed.
