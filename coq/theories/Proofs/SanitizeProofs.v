(* Proofs about Algo/Heck.v and Algo/Sanitize.v (property C08). *)
From Coq Require Import NArith List Bool Lia String Ascii.
From Typify Require Import Algo.Heck Algo.Sanitize.
Import ListNotations.
Open Scope N_scope.

(* ------------------------------------------------------------------ *)
(* Hypotheses about the character classes.  Audited exhaustively over  *)
(* all 1,112,064 scalar values by `c08 audit` on every check run.      *)
(* ------------------------------------------------------------------ *)
Record ClassesOK (cls : CharClasses) : Prop := {
  (* XID_Start is a subset of XID_Continue *)
  ok_start_cont : forall c, xid_start cls c = true -> xid_continue cls c = true;
  (* case-mapping an alphanumeric XID_Continue scalar yields XID_Continue scalars *)
  ok_case_closed : forall c, xid_continue cls c = true -> is_alnum cls c = true ->
      (forall d, In d (to_lower cls c) -> xid_continue cls d = true) /\
      (forall d, In d (to_upper cls c) -> xid_continue cls d = true);
  (* ASCII letters are XID_Start; ASCII letters, digits and '_' are XID_Continue *)
  ok_ascii_start : forall c, (a_lower c || a_upper c) = true -> xid_start cls c = true;
  ok_ascii_cont : forall c, (a_lower c || a_upper c || a_digit c || (c =? 95)) = true -> xid_continue cls c = true;
  (* constants (audit name: ok_consts) *)
  ok_sigma : xid_continue cls c_final_sigma = true;
  ok_dash : is_alnum cls c_dash = false;
  ok_x_alnum : is_alnum cls c_x = true;
  ok_x_upper : to_upper cls c_x = [c_X];
  ok_x_lower : to_lower cls c_x = [c_x]
}.

(* ------------------------------------------------------------------ *)
(* ustring equality                                                    *)
(* ------------------------------------------------------------------ *)
Lemma ustring_eqb_eq : forall a b, ustring_eqb a b = true <-> a = b.
Proof.
  induction a as [|x a IH]; destruct b as [|y b]; cbn [ustring_eqb]; split; intro H;
    try reflexivity; try discriminate.
  - apply andb_true_iff in H. destruct H as [H1 H2].
    apply N.eqb_eq in H1. apply IH in H2. subst. reflexivity.
  - injection H as -> ->. apply andb_true_iff. split.
    + apply N.eqb_refl.
    + apply IH. reflexivity.
Qed.

Lemma ustring_eqb_refl : forall a, ustring_eqb a a = true.
Proof. intro a. apply ustring_eqb_eq. reflexivity. Qed.

Lemma ustring_eqb_neq : forall a b, ustring_eqb a b = false <-> a <> b.
Proof.
  intros a b. split.
  - intros H E. apply ustring_eqb_eq in E. congruence.
  - intro H. destruct (ustring_eqb a b) eqn:E; [|reflexivity].
    apply ustring_eqb_eq in E. contradiction.
Qed.

Lemma umem_In : forall x l, umem x l = true <-> In x l.
Proof.
  intros x l. unfold umem. rewrite existsb_exists. split.
  - intros [y [Hy E]]. apply ustring_eqb_eq in E. subst. exact Hy.
  - intro H. exists x. split; [exact H|apply ustring_eqb_refl].
Qed.

(* ------------------------------------------------------------------ *)
(* heck: every character handed to with_word is an alphanumeric        *)
(* character of the input                                              *)
(* ------------------------------------------------------------------ *)
Section HeckProofs.
  Variable cls : CharClasses.

  Lemma split_words_aux_chars : forall s cur w c,
      In w (split_words_aux cls cur s) -> In c w ->
      In c cur \/ (In c s /\ is_alnum cls c = true).
  Proof.
    induction s as [|a s IH]; intros cur w c Hw Hc; cbn [split_words_aux] in Hw.
    - destruct Hw as [Hw|[]]. subst w. left. apply in_rev. exact Hc.
    - destruct (is_alnum cls a) eqn:Ea.
      + destruct (IH _ _ _ Hw Hc) as [H|[H1 H2]].
        * destruct H as [H|H].
          -- subst a. right. split; [left; reflexivity|exact Ea].
          -- left. exact H.
        * right. split; [right; exact H1|exact H2].
      + destruct Hw as [Hw|Hw].
        * subst w. left. apply in_rev. exact Hc.
        * destruct (IH _ _ _ Hw Hc) as [[]|[H1 H2]].
          right. split; [right; exact H1|exact H2].
  Qed.

  Lemma split_words_chars : forall s w c,
      In w (split_words cls s) -> In c w -> In c s /\ is_alnum cls c = true.
  Proof.
    intros s w c Hw Hc. destruct (split_words_aux_chars _ _ _ _ Hw Hc) as [[]|H]. exact H.
  Qed.

  Lemma segs_chars : forall w cur mode seg c,
      In seg (segs cls cur mode w) -> In c seg -> In c cur \/ In c w.
  Proof.
    induction w as [|a rest IH]; intros cur mode seg c Hs Hc.
    - destruct Hs.
    - cbn [segs] in Hs. destruct rest as [|next rest'].
      + destruct Hs as [Hs|[]]. subst seg. apply in_rev in Hc.
        destruct Hc as [Hc|Hc]; [right; left; exact Hc|left; exact Hc].
      + remember (next :: rest') as rest eqn:Er.
        destruct (wmode_eqb _ Lowercase && is_upper cls next).
        * destruct Hs as [Hs|Hs].
          -- subst seg. apply in_rev in Hc.
             destruct Hc as [Hc|Hc]; [right; left; exact Hc|left; exact Hc].
          -- destruct (IH _ _ _ _ Hs Hc) as [[]|H]. right. right. exact H.
        * destruct (wmode_eqb mode Uppercase && is_upper cls a && is_lower cls next).
          -- destruct Hs as [Hs|Hs].
             ++ subst seg. left. apply in_rev. exact Hc.
             ++ destruct (IH _ _ _ _ Hs Hc) as [H|H].
                ** destruct H as [H|[]]. right. left. exact H.
                ** right. right. exact H.
          -- destruct (IH _ _ _ _ Hs Hc) as [H|H].
             ++ destruct H as [H|H]; [right; left; exact H|left; exact H].
             ++ right. right. exact H.
  Qed.

  Lemma transform_words_chars : forall s seg c,
      In seg (transform_words cls s) -> In c seg -> In c s /\ is_alnum cls c = true.
  Proof.
    intros s seg c Hs Hc. unfold transform_words in Hs. apply in_flat_map in Hs.
    destruct Hs as [w [Hw Hs]].
    destruct (segs_chars _ _ _ _ _ Hs Hc) as [[]|H].
    exact (split_words_chars _ _ _ Hw H).
  Qed.

  Lemma lowercase_chars : forall w d,
      In d (lowercase cls w) -> d = c_final_sigma \/ exists c, In c w /\ In d (to_lower cls c).
  Proof.
    induction w as [|a rest IH]; intros d Hd; cbn [lowercase] in Hd.
    - destruct Hd.
    - apply in_app_or in Hd. destruct Hd as [Hd|Hd].
      + destruct ((a =? c_sigma) && match rest with [] => true | _ => false end).
        * destruct Hd as [Hd|[]]. left. symmetry. exact Hd.
        * right. exists a. split; [left; reflexivity|exact Hd].
      + destruct (IH _ Hd) as [H|[c [H1 H2]]]; [left; exact H|].
        right. exists c. split; [right; exact H1|exact H2].
  Qed.

  Lemma capitalize_chars : forall w d,
      In d (capitalize cls w) ->
      d = c_final_sigma \/ exists c, In c w /\ (In d (to_lower cls c) \/ In d (to_upper cls c)).
  Proof.
    intros [|a rest] d Hd; cbn [capitalize] in Hd.
    - destruct Hd.
    - apply in_app_or in Hd. destruct Hd as [Hd|Hd].
      + right. exists a. split; [left; reflexivity|right; exact Hd].
      + destruct (lowercase_chars _ _ Hd) as [H|[c [H1 H2]]]; [left; exact H|].
        right. exists c. split; [right; exact H1|left; exact H2].
  Qed.

  Lemma join_with_chars : forall sep ws d,
      In d (join_with sep ws) -> In d sep \/ exists w, In w ws /\ In d w.
  Proof.
    intros sep. induction ws as [|w r IH]; intros d Hd; cbn [join_with] in Hd.
    - destruct Hd.
    - destruct r as [|w' r'].
      + right. exists w. split; [left; reflexivity|exact Hd].
      + apply in_app_or in Hd. destruct Hd as [Hd|Hd].
        * right. exists w. split; [left; reflexivity|exact Hd].
        * apply in_app_or in Hd. destruct Hd as [Hd|Hd]; [left; exact Hd|].
          destruct (IH _ Hd) as [H|[w0 [H1 H2]]]; [left; exact H|].
          right. exists w0. split; [right; exact H1|exact H2].
  Qed.

  Lemma to_snake_case_chars : forall s d,
      In d (to_snake_case cls s) ->
      d = c_underscore \/ d = c_final_sigma \/
      exists c, In c s /\ is_alnum cls c = true /\ In d (to_lower cls c).
  Proof.
    intros s d Hd. unfold to_snake_case in Hd.
    destruct (join_with_chars _ _ _ Hd) as [[H|[]]|[w [Hw Hdw]]].
    - left. symmetry. exact H.
    - apply in_map_iff in Hw. destruct Hw as [seg [E Hseg]]. subst w.
      destruct (lowercase_chars _ _ Hdw) as [H|[c [Hc Hl]]]; [right; left; exact H|].
      destruct (transform_words_chars _ _ _ Hseg Hc) as [H1 H2].
      right. right. exists c. auto.
  Qed.

  Lemma to_pascal_case_chars : forall s d,
      In d (to_pascal_case cls s) ->
      d = c_final_sigma \/
      exists c, In c s /\ is_alnum cls c = true /\ (In d (to_lower cls c) \/ In d (to_upper cls c)).
  Proof.
    intros s d Hd. unfold to_pascal_case in Hd. apply in_concat in Hd.
    destruct Hd as [w [Hw Hdw]].
    apply in_map_iff in Hw. destruct Hw as [seg [E Hseg]]. subst w.
    destruct (capitalize_chars _ _ Hdw) as [H|[c [Hc Hl]]]; [left; exact H|].
    destruct (transform_words_chars _ _ _ Hseg Hc) as [H1 H2].
    right. exists c. auto.
  Qed.

End HeckProofs.

(* ------------------------------------------------------------------ *)
(* keyword list facts (finite, by computation)                         *)
(* ------------------------------------------------------------------ *)
Lemma rejected_no_trailing_underscore :
  forallb (fun k => match rev k with
                    | c :: _ :: _ => negb (c =? c_underscore)
                    | _ => true
                    end) syn_rejected = true.
Proof. vm_compute. reflexivity. Qed.

Lemma app_underscore_not_rejected : forall o,
    o <> [] -> umem (o ++ [c_underscore]) syn_rejected = false.
Proof.
  intros o Ho. destruct (umem (o ++ [c_underscore]) syn_rejected) eqn:E; [|reflexivity].
  apply umem_In in E.
  pose proof rejected_no_trailing_underscore as H.
  rewrite forallb_forall in H. specialize (H _ E).
  rewrite rev_app_distr in H. cbn [rev app] in H.
  destruct (rev o) as [|a r] eqn:Er.
  - exfalso. apply Ho. rewrite <- (rev_involutive o), Er. reflexivity.
  - rewrite N.eqb_refl in H. discriminate.
Qed.

Lemma special_outputs_not_rejected :
  umem s_async_ syn_rejected = false /\ umem s_plus1 syn_rejected = false /\
  umem s_minus1 syn_rejected = false.
Proof. vm_compute. auto. Qed.

(* ------------------------------------------------------------------ *)
(* sanitize                                                            *)
(* ------------------------------------------------------------------ *)
Section SanitizeProofs.
  Variable cls : CharClasses.
  Hypothesis OK : ClassesOK cls.

  Definition all_xc (s : ustring) : Prop := forall d, In d s -> xid_continue cls d = true.

  (* "identifier shape": non-empty, XID_Start first, XID_Continue everywhere *)
  Definition ident_shape (s : ustring) : Prop :=
    exists h t, s = h :: t /\ xid_start cls h = true /\ all_xc (h :: t).

  Lemma all_xc_forallb : forall s, all_xc s -> forallb (xid_continue cls) s = true.
  Proof. intros s H. apply forallb_forall. exact H. Qed.

  Lemma ident_shape_lexical : forall s, ident_shape s -> lexical_ident cls s = true.
  Proof.
    intros s [h [t [E [Hs Hc]]]]. subst s. cbn [lexical_ident]. rewrite Hs. cbn [orb andb].
    apply all_xc_forallb. intros d Hd. apply Hc. right. exact Hd.
  Qed.

  Lemma pre_clean_chars : forall s c,
      In c (pre_clean cls s) -> xid_continue cls c = true \/ c = c_dash.
  Proof.
    intros s c Hc. unfold pre_clean in Hc. apply in_map_iff in Hc.
    destruct Hc as [a [E _]]. destruct (xid_continue cls a) eqn:Ea.
    - left. subst c. exact Ea.
    - right. symmetry. exact E.
  Qed.

  Lemma alnum_pre_clean_xc : forall s c,
      In c (pre_clean cls s) -> is_alnum cls c = true -> xid_continue cls c = true.
  Proof.
    intros s c Hc Ha. destruct (pre_clean_chars _ _ Hc) as [H|H]; [exact H|].
    subst c. rewrite (ok_dash _ OK) in Ha. discriminate.
  Qed.

  Lemma underscore_xc : xid_continue cls c_underscore = true.
  Proof. apply (ok_ascii_cont _ OK). vm_compute. reflexivity. Qed.

  Lemma to_case_pre_clean_xc : forall s c, all_xc (to_case cls c (pre_clean cls s)).
  Proof.
    intros s c d Hd. destruct c; cbn [to_case] in Hd.
    - destruct (to_pascal_case_chars _ _ _ Hd) as [H|[a [Ha [Hal Hm]]]].
      + subst d. exact (ok_sigma _ OK).
      + pose proof (alnum_pre_clean_xc _ _ Ha Hal) as Hx.
        destruct (ok_case_closed _ OK a Hx Hal) as [Hl Hu].
        destruct Hm as [Hm|Hm]; [apply Hl|apply Hu]; exact Hm.
    - destruct (to_snake_case_chars _ _ _ Hd) as [H|[H|[a [Ha [Hal Hm]]]]].
      + subst d. exact underscore_xc.
      + subst d. exact (ok_sigma _ OK).
      + pose proof (alnum_pre_clean_xc _ _ Ha Hal) as Hx.
        destruct (ok_case_closed _ OK a Hx Hal) as [Hl _]. apply Hl. exact Hm.
  Qed.

  Lemma ascii_const_xc : forall s,
      forallb (fun c => a_lower c || a_upper c || a_digit c || (c =? 95)) s = true -> all_xc s.
  Proof.
    intros s H d Hd. rewrite forallb_forall in H. apply (ok_ascii_cont _ OK). apply H. exact Hd.
  Qed.

  Lemma sanitize_core_xc : forall s c, all_xc (sanitize_core cls s c).
  Proof.
    intros s c. unfold sanitize_core.
    destruct (ustring_eqb s s_async); [apply ascii_const_xc; vm_compute; reflexivity|].
    destruct (ustring_eqb s s_plus1_in); [apply ascii_const_xc; vm_compute; reflexivity|].
    destruct (ustring_eqb s s_minus1_in); [apply ascii_const_xc; vm_compute; reflexivity|].
    apply to_case_pre_clean_xc.
  Qed.

  Lemma prefix_snake : to_case cls Snake [c_x] = [c_x].
  Proof.
    cbn [to_case]. unfold to_snake_case, transform_words, split_words.
    cbn [split_words_aux]. rewrite (ok_x_alnum _ OK).
    cbn [split_words_aux rev app flat_map segs map lowercase join_with].
    rewrite (ok_x_lower _ OK).
    replace (c_x =? c_sigma) with false by (vm_compute; reflexivity).
    cbn [andb app]. reflexivity.
  Qed.

  Lemma prefix_pascal : to_case cls Pascal [c_x] = [c_X].
  Proof.
    cbn [to_case]. unfold to_pascal_case, transform_words, split_words.
    cbn [split_words_aux]. rewrite (ok_x_alnum _ OK).
    cbn [split_words_aux rev app flat_map segs map capitalize lowercase concat].
    rewrite (ok_x_upper _ OK). reflexivity.
  Qed.

  Lemma prefix_shape : forall c, ident_shape (to_case cls c [c_x]).
  Proof.
    intros [|].
    - rewrite prefix_pascal. exists c_X, []. split; [reflexivity|]. split.
      + apply (ok_ascii_start _ OK). vm_compute. reflexivity.
      + apply ascii_const_xc. vm_compute. reflexivity.
    - rewrite prefix_snake. exists c_x, []. split; [reflexivity|]. split.
      + apply (ok_ascii_start _ OK). vm_compute. reflexivity.
      + apply ascii_const_xc. vm_compute. reflexivity.
  Qed.

  Lemma add_prefix_shape : forall c out, all_xc out -> ident_shape (add_prefix cls c out).
  Proof.
    intros c out Hx. unfold add_prefix. destruct out as [|ch r].
    - apply prefix_shape.
    - destruct (xid_start cls ch) eqn:Es.
      + exists ch, r. auto.
      + destruct (prefix_shape c) as [h [t [E [Hs Hc]]]]. rewrite E.
        exists h, (t ++ ch :: r). split; [reflexivity|]. split; [exact Hs|].
        intros d Hd. change (h :: t ++ ch :: r) with ((h :: t) ++ ch :: r) in Hd.
        apply in_app_or in Hd. destruct Hd as [Hd|Hd]; [apply Hc|apply Hx]; exact Hd.
  Qed.

  Lemma ident_shape_app_underscore : forall s, ident_shape s -> ident_shape (s ++ [c_underscore]).
  Proof.
    intros s [h [t [E [Hs Hc]]]]. subst s. exists h, (t ++ [c_underscore]).
    split; [reflexivity|]. split; [exact Hs|].
    intros d Hd. change (h :: t ++ [c_underscore]) with ((h :: t) ++ [c_underscore]) in Hd.
    apply in_app_or in Hd. destruct Hd as [Hd|[Hd|[]]]; [apply Hc; exact Hd|].
    subst d. exact underscore_xc.
  Qed.

  Theorem sanitize_shape : forall s c, ident_shape (sanitize cls s c).
  Proof.
    intros s c. unfold sanitize.
    pose proof (add_prefix_shape c _ (sanitize_core_xc s c)) as Hsh.
    destruct (syn_ident_ok cls (add_prefix cls c (sanitize_core cls s c))).
    - exact Hsh.
    - apply ident_shape_app_underscore. exact Hsh.
  Qed.

  Theorem sanitize_lexical : forall s c, lexical_ident cls (sanitize cls s c) = true.
  Proof. intros s c. apply ident_shape_lexical. apply sanitize_shape. Qed.

  Theorem sanitize_accepted : forall s c, syn_ident_ok cls (sanitize cls s c) = true.
  Proof.
    intros s c. unfold sanitize.
    pose proof (add_prefix_shape c _ (sanitize_core_xc s c)) as Hsh.
    destruct (syn_ident_ok cls (add_prefix cls c (sanitize_core cls s c))) eqn:E.
    - exact E.
    - unfold syn_ident_ok.
      rewrite (ident_shape_lexical _ (ident_shape_app_underscore _ Hsh)).
      rewrite app_underscore_not_rejected; [reflexivity|].
      destruct Hsh as [h [t [Eh _]]]. rewrite Eh. discriminate.
  Qed.

  (* ---------------------------------------------------------------- *)
  (* recase / wire names (no hypothesis on the classes is needed)      *)
  (* ---------------------------------------------------------------- *)
  Theorem recase_wire : forall s c, wire_name (recase cls s c) = s.
  Proof.
    intros s c. unfold recase, wire_name. cbn [fst snd].
    destruct (ustring_eqb (sanitize cls s c) s) eqn:E; cbn [fst snd].
    - apply ustring_eqb_eq. exact E.
    - reflexivity.
  Qed.

  Theorem recase_rename_iff : forall s c,
      fst (recase cls s c) = sanitize cls s c /\
      (snd (recase cls s c) = None <-> sanitize cls s c = s) /\
      (forall r, snd (recase cls s c) = Some r -> r = s /\ sanitize cls s c <> s).
  Proof.
    intros s c. unfold recase. cbn [fst snd]. split; [reflexivity|].
    destruct (ustring_eqb (sanitize cls s c) s) eqn:E.
    - apply ustring_eqb_eq in E. split.
      + split; auto.
      + intros r H. discriminate.
    - apply ustring_eqb_neq in E. split.
      + split; [discriminate|contradiction].
      + intros r H. injection H as <-. auto.
  Qed.

  (* ---------------------------------------------------------------- *)
  (* unique / variants                                                 *)
  (* ---------------------------------------------------------------- *)
  Lemma unique_aux_NoDup : forall l seen,
      unique_aux seen l = true <-> (NoDup l /\ forall x, In x l -> ~ In x seen).
  Proof.
    induction l as [|x r IH]; intros seen; cbn [unique_aux].
    - split; [intros _; split; [constructor|intros x []]|reflexivity].
    - destruct (umem x seen) eqn:E.
      + split; [discriminate|]. intros [_ H]. exfalso.
        apply (H x); [left; reflexivity|apply umem_In; exact E].
      + rewrite IH. split.
        * intros [Hn Hs]. split.
          -- constructor; [|exact Hn]. intro Hx. apply (Hs x Hx). left. reflexivity.
          -- intros y [Hy|Hy] Hin.
             ++ subst y. apply umem_In in Hin. congruence.
             ++ apply (Hs y Hy). right. exact Hin.
        * intros [Hn Hs]. inversion Hn as [|? ? Hx Hn']; subst. split; [exact Hn'|].
          intros y Hy [Hin|Hin].
          -- subst y. contradiction.
          -- apply (Hs y); [right; exact Hy|exact Hin].
  Qed.

  Lemma unique_NoDup : forall l, unique l = true <-> NoDup l.
  Proof.
    intro l. unfold unique. rewrite unique_aux_NoDup. split; [tauto|].
    intro H. split; [exact H|intros x _ []].
  Qed.

  Theorem variants_distinct_or_fail : forall raws ids,
      variant_idents cls raws = Ok ids ->
      NoDup ids /\ List.length ids = List.length raws /\
      Forall (fun i => syn_ident_ok cls i = true) ids.
  Proof.
    intros raws ids H. unfold variant_idents in H.
    destruct (unique (List.map (fun r => sanitize cls r Pascal) raws)) eqn:E1.
    - injection H as <-. split; [apply unique_NoDup; exact E1|]. split; [apply map_length|].
      apply Forall_forall. intros i Hi. apply in_map_iff in Hi. destruct Hi as [r [<- _]].
      apply sanitize_accepted.
    - destruct (unique (List.map (fun r => sanitize cls (x_clean cls r) Pascal) raws)) eqn:E2; [|discriminate].
      injection H as <-. split; [apply unique_NoDup; exact E2|]. split; [apply map_length|].
      apply Forall_forall. intros i Hi. apply in_map_iff in Hi. destruct Hi as [r [<- _]].
      apply sanitize_accepted.
  Qed.

  Lemma variant_rename_wire : forall raw ident, wire_name (ident, variant_rename raw ident) = raw.
  Proof.
    intros raw ident. unfold variant_rename, wire_name.
    destruct (ustring_eqb raw ident) eqn:E; cbn [fst snd]; [|reflexivity].
    apply ustring_eqb_eq in E. auto.
  Qed.

  Lemma map_wire_combine : forall raws ids,
      List.length ids = List.length raws ->
      List.map wire_name (List.map (fun p => (snd p, variant_rename (fst p) (snd p))) (combine raws ids)) = raws
      /\ List.map fst (List.map (fun p : ustring * ustring => (snd p, variant_rename (fst p) (snd p))) (combine raws ids)) = ids.
  Proof.
    induction raws as [|r raws IH]; intros [|i ids] Hl; cbn [List.length] in Hl; try discriminate.
    - split; reflexivity.
    - injection Hl as Hl. destruct (IH _ Hl) as [H1 H2].
      cbn [combine List.map fst snd]. rewrite variant_rename_wire. split; f_equal; assumption.
  Qed.

  Theorem variant_wire : forall raws vs,
      variants cls raws = Ok vs ->
      List.map wire_name vs = raws /\ NoDup (List.map fst vs) /\
      (forall v, In v vs -> snd v = None <-> fst v = wire_name v).
  Proof.
    intros raws vs H. unfold variants in H.
    destruct (variant_idents cls raws) as [ids| |] eqn:E; [|discriminate|discriminate].
    injection H as <-.
    destruct (variants_distinct_or_fail _ _ E) as [Hn [Hl _]].
    destruct (map_wire_combine _ _ Hl) as [H1 H2].
    split; [exact H1|]. split; [rewrite H2; exact Hn|].
    intros v Hv. apply in_map_iff in Hv. destruct Hv as [[r i] [<- _]]. cbn [fst snd].
    unfold variant_rename, wire_name. destruct (ustring_eqb r i) eqn:Er; cbn [fst snd].
    - split; reflexivity.
    - apply ustring_eqb_neq in Er. split; [discriminate|]. intro. subst. contradiction.
  Qed.

  (* ---------------------------------------------------------------- *)
  (* fields and definitions                                            *)
  (* ---------------------------------------------------------------- *)
  Theorem fields_wire : forall props,
      List.map wire_name (field_idents cls props) = props /\
      Forall (fun f => syn_ident_ok cls (fst f) = true) (field_idents cls props).
  Proof.
    intro props. unfold field_idents. split.
    - rewrite map_map. rewrite <- (map_id props) at 2. apply map_ext. intro a. apply recase_wire.
    - apply Forall_forall. intros f Hf. apply in_map_iff in Hf. destruct Hf as [p [<- _]].
      unfold recase. cbn [fst]. apply sanitize_accepted.
  Qed.

  (* the inputs on which sanitised names collide: Fields_collide and
     Field_collides_extra are rejected by struct_members since fix 5896b59;
     Defs_collide (definitions of one call) is rejected by add_ref_types_impl
     since fix c22ef06 *)
  Definition Fields_collide (props : list ustring) : Prop :=
    exists p1 p2, In p1 props /\ In p2 props /\ p1 <> p2 /\ sanitize cls p1 Snake = sanitize cls p2 Snake.
  Definition Field_collides_extra (props : list ustring) (typed_additional : bool) : Prop :=
    typed_additional = true /\ exists p, In p props /\ sanitize cls p Snake = s_extra.
  Definition Defs_collide (defs : list ustring) : Prop :=
    exists d1 d2, In d1 defs /\ In d2 defs /\ d1 <> d2 /\ sanitize cls d1 Pascal = sanitize cls d2 Pascal.

  Lemma NoDup_map_inj_on : forall (A B : Type) (f : A -> B) (l : list A),
      NoDup l -> (forall x y, In x l -> In y l -> f x = f y -> x = y) -> NoDup (List.map f l).
  Proof.
    intros A B f. induction l as [|a l IH]; intros Hn Hinj; cbn [List.map].
    - constructor.
    - inversion Hn as [|? ? Ha Hn']; subst. constructor.
      + intro Hin. apply in_map_iff in Hin. destruct Hin as [y [Ey Hy]].
        assert (y = a) by (apply Hinj; [right; exact Hy|left; reflexivity|exact Ey]).
        subst y. contradiction.
      + apply IH; [exact Hn'|]. intros x y Hx Hy. apply Hinj; right; assumption.
  Qed.

  Lemma NoDup_app_extra : forall (A : Type) (l : list A) (x : A),
      NoDup l -> ~ In x l -> NoDup (l ++ [x]).
  Proof.
    intros A. induction l as [|a l IH]; intros x Hn Hx; cbn [app].
    - constructor; [intros []|constructor].
    - inversion Hn as [|? ? Ha Hn']; subst. constructor.
      + intro Hin. apply in_app_or in Hin. destruct Hin as [Hin|[Hin|[]]]; [contradiction|].
        subst x. apply Hx. left. reflexivity.
      + apply IH; [exact Hn'|]. intro H. apply Hx. right. exact H.
  Qed.

  Lemma ustring_eq_dec : forall a b : ustring, {a = b} + {a <> b}.
  Proof. apply list_eq_dec. apply N.eq_dec. Qed.

  Theorem fields_distinct_excl : forall props typed_additional,
      NoDup props -> ~ Fields_collide props -> ~ Field_collides_extra props typed_additional ->
      NoDup (struct_field_names cls props typed_additional).
  Proof.
    intros props ta Hn H1 H3. unfold struct_field_names.
    assert (Hf : NoDup (List.map fst (field_idents cls props))).
    { unfold field_idents. rewrite map_map. cbn [recase fst].
      apply NoDup_map_inj_on; [exact Hn|]. intros x y Hx Hy E.
      destruct (ustring_eq_dec x y) as [|Hne]; [assumption|].
      exfalso. apply H1. exists x, y. auto. }
    destruct ta.
    - apply NoDup_app_extra; [exact Hf|].
      intro Hin. apply H3. split; [reflexivity|].
      unfold field_idents in Hin. rewrite map_map in Hin. cbn [recase fst] in Hin.
      apply in_map_iff in Hin. destruct Hin as [p [E Hp]]. exists p. auto.
    - rewrite app_nil_r. exact Hf.
  Qed.

  Lemma NoDup_map_In_inj : forall (A B : Type) (f : A -> B) (l : list A) x y,
      NoDup (List.map f l) -> In x l -> In y l -> f x = f y -> x = y.
  Proof.
    intros A B f. induction l as [|a l IH]; intros x y Hn Hx Hy E; [destruct Hx|].
    cbn [List.map] in Hn. inversion Hn as [|? ? Ha Hn']; subst.
    destruct Hx as [Hx|Hx]; destruct Hy as [Hy|Hy].
    - congruence.
    - subst a. exfalso. apply Ha. rewrite E. apply in_map. exact Hy.
    - subst a. exfalso. apply Ha. rewrite <- E. apply in_map. exact Hx.
    - apply IH; assumption.
  Qed.

  (* struct fields: distinct identifiers bound to exactly the property names,
     or Err -- never duplicates (structs.rs:119-144) *)
  Theorem struct_members_distinct_or_err : forall props ta fs fl,
      struct_members cls props ta = Ok (fs, fl) ->
      NoDup (List.map fst fs ++ fl) /\
      List.map wire_name fs = props /\
      Forall (fun f => syn_ident_ok cls (fst f) = true) fs /\
      fl = (if ta then [s_extra] else []).
  Proof.
    intros props ta fs fl H. unfold struct_members in H.
    destruct (unique (struct_field_names cls props ta)) eqn:E; [|discriminate].
    injection H as <- <-. apply unique_NoDup in E. unfold struct_field_names in E.
    destruct (fields_wire props) as [Hw Hv]. auto.
  Qed.

  (* Err is reported only for colliding names ... *)
  Theorem struct_members_ok_without_collision : forall props ta,
      NoDup props -> ~ Fields_collide props -> ~ Field_collides_extra props ta ->
      exists r, struct_members cls props ta = Ok r.
  Proof.
    intros props ta Hn H1 H3. unfold struct_members.
    pose proof (fields_distinct_excl props ta Hn H1 H3) as Hd.
    apply unique_NoDup in Hd. rewrite Hd. eexists. reflexivity.
  Qed.

  (* ... and for every collision *)
  Theorem struct_members_err_on_collision : forall props ta,
      Fields_collide props \/ Field_collides_extra props ta ->
      struct_members cls props ta = Err.
  Proof.
    intros props ta H. unfold struct_members.
    destruct (unique (struct_field_names cls props ta)) eqn:E; [|reflexivity].
    exfalso. apply unique_NoDup in E. unfold struct_field_names, field_idents in E.
    rewrite map_map in E. cbn [recase fst] in E.
    destruct H as [[p1 [p2 [H1 [H2 [Hne Hs]]]]]|[Hta [p [Hp Hs]]]].
    - assert (Hl : NoDup (List.map (fun x => sanitize cls x Snake) props)).
      { destruct ta; [|rewrite app_nil_r in E; exact E].
        apply NoDup_remove_1 in E. rewrite app_nil_r in E. exact E. }
      apply Hne. exact (NoDup_map_In_inj _ _ _ _ _ _ Hl H1 H2 Hs).
    - subst ta. apply NoDup_remove_2 in E. apply E. rewrite app_nil_r.
      rewrite <- Hs. apply (in_map (fun x => sanitize cls x Snake)). exact Hp.
  Qed.

  Theorem defs_distinct_excl : forall defs,
      NoDup defs -> ~ Defs_collide defs -> NoDup (def_idents cls defs).
  Proof.
    intros defs Hn H2. unfold def_idents.
    apply NoDup_map_inj_on; [exact Hn|]. intros x y Hx Hy E.
    destruct (ustring_eq_dec x y) as [|Hne]; [assumption|].
    exfalso. apply H2. exists x, y. auto.
  Qed.

  (* definitions of one call: distinct valid item names, or Err -- never
     duplicates (lib.rs add_ref_types_impl, batch_names) *)
  Theorem add_definitions_distinct_or_err : forall defs ids,
      add_definitions cls defs = Ok ids ->
      NoDup ids /\ ids = List.map (fun d => sanitize cls d Pascal) defs /\
      Forall (fun i => syn_ident_ok cls i = true) ids.
  Proof.
    intros defs ids H. unfold add_definitions in H.
    destruct (unique (def_idents cls defs)) eqn:E; [|discriminate].
    injection H as <-. split; [apply unique_NoDup; exact E|]. split; [reflexivity|].
    apply Forall_forall. intros i Hi. unfold def_idents in Hi. apply in_map_iff in Hi.
    destruct Hi as [d [<- _]]. apply sanitize_accepted.
  Qed.

  Theorem add_definitions_ok_without_collision : forall defs,
      NoDup defs -> ~ Defs_collide defs -> exists ids, add_definitions cls defs = Ok ids.
  Proof.
    intros defs Hn H2. unfold add_definitions.
    pose proof (defs_distinct_excl defs Hn H2) as Hd. apply unique_NoDup in Hd.
    rewrite Hd. eexists. reflexivity.
  Qed.

  Theorem add_definitions_err_on_collision : forall defs,
      Defs_collide defs -> add_definitions cls defs = Err.
  Proof.
    intros defs [d1 [d2 [H1 [H2 [Hne Hs]]]]]. unfold add_definitions.
    destruct (unique (def_idents cls defs)) eqn:E; [|reflexivity].
    exfalso. apply unique_NoDup in E. unfold def_idents in E.
    apply Hne. exact (NoDup_map_In_inj _ _ _ _ _ _ E H1 H2 Hs).
  Qed.

  (* all definition-level name sources of one call: definition keys, the titled
     root, patch renames *)
  Lemma type_patch_nil : forall n, type_patch [] n = n.
  Proof. intro n. reflexivity. Qed.

  Lemma batch_names_nil_patch : forall defs,
      batch_type_names cls [] defs None = def_idents cls defs.
  Proof.
    intro defs. unfold batch_type_names, def_idents. rewrite app_nil_r.
    apply map_ext. intro d. apply type_patch_nil.
  Qed.

  Theorem add_batch_defs_only : forall defs, add_batch cls [] defs None = add_definitions cls defs.
  Proof.
    intro defs. unfold add_batch, add_definitions. rewrite batch_names_nil_patch. reflexivity.
  Qed.

  Theorem add_batch_distinct_or_err : forall patch defs title ids,
      add_batch cls patch defs title = Ok ids ->
      NoDup ids /\ ids = batch_type_names cls patch defs title /\
      (patch = [] -> Forall (fun i => syn_ident_ok cls i = true) ids).
  Proof.
    intros patch defs title ids H. unfold add_batch in H.
    destruct (unique (batch_type_names cls patch defs title)) eqn:E; [|discriminate].
    injection H as <-. split; [apply unique_NoDup; exact E|]. split; [reflexivity|].
    intros ->. apply Forall_forall. intros i Hi. unfold batch_type_names in Hi.
    apply in_app_or in Hi. destruct Hi as [Hi|Hi].
    - apply in_map_iff in Hi. destruct Hi as [d [<- _]]. rewrite type_patch_nil. apply sanitize_accepted.
    - destruct title as [t|]; [|destruct Hi]. destruct Hi as [<-|[]].
      rewrite type_patch_nil. apply sanitize_accepted.
  Qed.

  (* the root title takes part in the comparison *)
  Theorem add_batch_err_title_vs_key : forall patch defs t d,
      In d defs ->
      type_patch patch (sanitize cls d Pascal) = type_patch patch (sanitize cls t Pascal) ->
      add_batch cls patch defs (Some t) = Err.
  Proof.
    intros patch defs t d Hd E. unfold add_batch.
    destruct (unique (batch_type_names cls patch defs (Some t))) eqn:U; [|reflexivity].
    exfalso. apply unique_NoDup in U. unfold batch_type_names in U.
    apply NoDup_remove_2 in U. apply U. rewrite app_nil_r. rewrite <- E.
    apply (in_map (fun x => type_patch patch (sanitize cls x Pascal))). exact Hd.
  Qed.

  Theorem add_batch_err_key_vs_key : forall patch defs title d1 d2,
      In d1 defs -> In d2 defs -> d1 <> d2 ->
      type_patch patch (sanitize cls d1 Pascal) = type_patch patch (sanitize cls d2 Pascal) ->
      add_batch cls patch defs title = Err.
  Proof.
    intros patch defs title d1 d2 H1 H2 Hne E. unfold add_batch.
    destruct (unique (batch_type_names cls patch defs title)) eqn:U; [|reflexivity].
    exfalso. apply unique_NoDup in U. unfold batch_type_names in U.
    assert (Hl : NoDup (List.map (fun x => type_patch patch (sanitize cls x Pascal)) defs)).
    { destruct title as [t|]; [|rewrite app_nil_r in U; exact U].
      apply NoDup_remove_1 in U. rewrite app_nil_r in U. exact U. }
    apply Hne. exact (NoDup_map_In_inj _ _ _ _ _ _ Hl H1 H2 E).
  Qed.

  (* every named entry created by one call, derived inline names included *)
  Lemma add_derived_ext : forall c n, exists r, add_derived c n = c ++ r.
  Proof.
    intros c n. unfold add_derived. destruct (umem n c).
    - exists []. rewrite app_nil_r. reflexivity.
    - exists [n]. reflexivity.
  Qed.

  Lemma fold_add_derived_ext : forall l c, exists r, fold_left add_derived l c = c ++ r.
  Proof.
    induction l as [|n l IH]; intro c; cbn [fold_left].
    - exists []. rewrite app_nil_r. reflexivity.
    - destruct (add_derived_ext c n) as [r1 E1]. destruct (IH (add_derived c n)) as [r2 E2].
      exists (r1 ++ r2). rewrite E2, E1, app_assoc. reflexivity.
  Qed.

  Lemma convert_def_ext : forall patch c dp, exists r, convert_def cls patch c dp = c ++ r.
  Proof.
    intros patch c dp. unfold convert_def.
    destruct (fold_add_derived_ext (List.map (derived_name cls patch (fst dp)) (snd dp)) c) as [r E].
    exists (r ++ [type_patch patch (sanitize cls (fst dp) Pascal)]). rewrite E, app_assoc. reflexivity.
  Qed.

  Lemma fold_convert_def_ext : forall patch l c, exists r, fold_left (convert_def cls patch) l c = c ++ r.
  Proof.
    intros patch. induction l as [|dp l IH]; intro c; cbn [fold_left].
    - exists []. rewrite app_nil_r. reflexivity.
    - destruct (convert_def_ext patch c dp) as [r1 E1].
      destruct (IH (convert_def cls patch c dp)) as [r2 E2].
      exists (r1 ++ r2). rewrite E2, E1, app_assoc. reflexivity.
  Qed.

  Lemma NoDup_app_l : forall (A : Type) (l r : list A), NoDup (l ++ r) -> NoDup l.
  Proof.
    intros A l r. induction l as [|a l IH]; intro H; [constructor|].
    cbn [app] in H. inversion H as [|? ? Ha Hn]; subst. constructor.
    - intro Hin. apply Ha. apply in_or_app. left. exact Hin.
    - apply IH. exact Hn.
  Qed.

  Lemma fold_add_derived_In : forall l c n,
      In n l -> In n (fold_left add_derived l c).
  Proof.
    induction l as [|a l IH]; intros c n Hn; [destruct Hn|]. cbn [fold_left].
    destruct Hn as [->|Hn]; [|apply IH; exact Hn].
    destruct (fold_add_derived_ext l (add_derived c n)) as [r E]. rewrite E.
    apply in_or_app. left. unfold add_derived. destruct (umem n c) eqn:Em.
    - apply umem_In. exact Em.
    - apply in_or_app. right. left. reflexivity.
  Qed.

  Lemma convert_def_has_derived : forall patch c d ps p,
      In p ps -> In (derived_name cls patch d p) (convert_def cls patch c (d, ps)).
  Proof.
    intros patch c d ps p Hp. unfold convert_def. cbn [fst snd]. apply in_or_app. left.
    apply fold_add_derived_In. apply in_map. exact Hp.
  Qed.

  Lemma fold_convert_def_has_derived : forall patch l c d ps p,
      In (d, ps) l -> In p ps ->
      In (derived_name cls patch d p) (fold_left (convert_def cls patch) l c).
  Proof.
    intros patch. induction l as [|dp l IH]; intros c d ps p Hd Hp; [destruct Hd|]. cbn [fold_left].
    destruct Hd as [->|Hd]; [|apply IH with (ps := ps); assumption].
    destruct (fold_convert_def_ext patch l (convert_def cls patch c (d, ps))) as [r E]. rewrite E.
    apply in_or_app. left. apply convert_def_has_derived. exact Hp.
  Qed.

  (* without inline types the created names are the definition-level names *)
  Lemma fold_convert_def_plain : forall patch defs c,
      fold_left (convert_def cls patch) (List.map (fun d => (d, [])) defs) c =
      c ++ List.map (fun d => type_patch patch (sanitize cls d Pascal)) defs.
  Proof.
    intros patch. induction defs as [|d defs IH]; intro c; cbn [List.map fold_left].
    - rewrite app_nil_r. reflexivity.
    - rewrite IH. unfold convert_def. cbn [fst snd List.map fold_left]. rewrite <- app_assoc. reflexivity.
  Qed.

  Theorem add_batch_full_plain : forall patch defs title,
      add_batch_full cls patch (List.map (fun d => (d, [])) defs)
                     (option_map (fun t => (t, [])) title)
      = add_batch cls patch defs title.
  Proof.
    intros patch defs title. unfold add_batch_full, add_batch.
    assert (E : created_names cls patch (List.map (fun d => (d, [])) defs)
                              (option_map (fun t => (t, [])) title)
                = batch_type_names cls patch defs title).
    { unfold created_names, batch_type_names. rewrite fold_convert_def_plain. cbn [app].
      destruct title as [t|]; cbn [option_map].
      - unfold convert_def. cbn [fst snd List.map fold_left]. reflexivity.
      - rewrite app_nil_r. reflexivity. }
    rewrite E. reflexivity.
  Qed.

  (* every named entry created by the call has its own name, or Err *)
  Theorem add_batch_full_distinct_or_err : forall patch defs root ids,
      add_batch_full cls patch defs root = Ok ids ->
      NoDup ids /\ ids = created_names cls patch defs root.
  Proof.
    intros patch defs root ids H. unfold add_batch_full in H.
    destruct (unique (created_names cls patch defs root)) eqn:E; [|discriminate].
    injection H as <-. split; [apply unique_NoDup; exact E|reflexivity].
  Qed.

  (* the name of the root equal to the derived name of an inline type of a
     definition of the call: Err (finding C08-F5, fixed by 40183ea) *)
  Theorem add_batch_full_err_root_vs_derived : forall patch defs d ps p t tps,
      In (d, ps) defs -> In p ps ->
      derived_name cls patch d p = type_patch patch (sanitize cls t Pascal) ->
      add_batch_full cls patch defs (Some (t, tps)) = Err.
  Proof.
    intros patch defs d ps p t tps Hd Hp E. unfold add_batch_full.
    destruct (unique (created_names cls patch defs (Some (t, tps)))) eqn:U; [|reflexivity].
    exfalso. apply unique_NoDup in U. unfold created_names in U.
    set (c := fold_left (convert_def cls patch) defs []) in U.
    unfold convert_def in U. cbn [fst snd] in U.
    apply NoDup_remove_2 in U. apply U. rewrite app_nil_r. rewrite <- E.
    destruct (fold_add_derived_ext (List.map (derived_name cls patch t) tps) c) as [r Er]. rewrite Er.
    apply in_or_app. left. unfold c. apply fold_convert_def_has_derived with (ps := ps); assumption.
  Qed.

  (* the name of a LATER definition equal to the derived name of an inline type
     of an earlier one: Err *)
  Theorem add_batch_full_err_key_vs_derived : forall patch l1 d ps l2 d2 ps2 l3 p root,
      In p ps ->
      derived_name cls patch d p = type_patch patch (sanitize cls d2 Pascal) ->
      add_batch_full cls patch (l1 ++ (d, ps) :: l2 ++ (d2, ps2) :: l3) root = Err.
  Proof.
    intros patch l1 d ps l2 d2 ps2 l3 p root Hp E. unfold add_batch_full.
    destruct (unique (created_names cls patch (l1 ++ (d, ps) :: l2 ++ (d2, ps2) :: l3) root)) eqn:U; [|reflexivity].
    exfalso. apply unique_NoDup in U. unfold created_names in U.
    rewrite fold_left_app in U. cbn [fold_left] in U. rewrite fold_left_app in U. cbn [fold_left] in U.
    set (c1 := convert_def cls patch (fold_left (convert_def cls patch) l1 []) (d, ps)) in U.
    set (c2 := fold_left (convert_def cls patch) l2 c1) in U.
    set (c3 := convert_def cls patch c2 (d2, ps2)) in U.
    assert (Hbad : ~ NoDup c3).
    { intro Hn. unfold c3, convert_def in Hn. cbn [fst snd] in Hn.
      apply NoDup_remove_2 in Hn. apply Hn. rewrite app_nil_r. rewrite <- E.
      destruct (fold_add_derived_ext (List.map (derived_name cls patch d2) ps2) c2) as [r Er]. rewrite Er.
      apply in_or_app. left. unfold c2.
      destruct (fold_convert_def_ext patch l2 c1) as [r2 Er2]. rewrite Er2.
      apply in_or_app. left. unfold c1. apply convert_def_has_derived. exact Hp. }
    apply Hbad.
    destruct (fold_convert_def_ext patch l3 c3) as [r3 E3]. rewrite E3 in U.
    destruct root as [rt|].
    - destruct (convert_def_ext patch (c3 ++ r3) rt) as [r4 E4]. rewrite E4 in U.
      apply NoDup_app_l in U. apply NoDup_app_l in U. exact U.
    - apply NoDup_app_l in U. exact U.
  Qed.

  (* ---------------------------------------------------------------- *)
  (* replacement lookup                                                *)
  (* ---------------------------------------------------------------- *)
  Lemma assoc_In : forall T k (m : list (ustring * T)),
      assoc k m <> None <-> In k (List.map fst m).
  Proof.
    intros T k. induction m as [|[k' v] m IH]; cbn [assoc List.map fst In].
    - split; [congruence|intros []].
    - destruct (ustring_eqb k k') eqn:E.
      + apply ustring_eqb_eq in E. subst. split; [auto|discriminate].
      + apply ustring_eqb_neq in E. rewrite IH. split; [auto|].
        intros [H|H]; [congruence|exact H].
  Qed.

  Theorem replace_lookup_spec : forall T (repl : list (ustring * T)) d,
      (replace_lookup cls repl d <> None <-> In (sanitize cls d Pascal) (List.map fst repl)) /\
      (forall d', sanitize cls d' Pascal = sanitize cls d Pascal ->
                  replace_lookup cls repl d' = replace_lookup cls repl d).
  Proof.
    intros T repl d. unfold replace_lookup. split.
    - apply assoc_In.
    - intros d' E. rewrite E. reflexivity.
  Qed.

  Theorem replace_key_is_identifier : forall T (k : ustring) (t : T) d,
      syn_ident_ok cls k = false -> replace_lookup cls [(k, t)] d = None.
  Proof.
    intros T k t d Hk. unfold replace_lookup. cbn [assoc].
    destruct (ustring_eqb (sanitize cls d Pascal) k) eqn:E; [|reflexivity].
    apply ustring_eqb_eq in E. subst k. rewrite sanitize_accepted in Hk. discriminate.
  Qed.

End SanitizeProofs.

(* ------------------------------------------------------------------ *)
(* The hypotheses are satisfiable: the ASCII-only classification        *)
(* ------------------------------------------------------------------ *)
Lemma ascii_classes_ok : ClassesOK ascii_classes.
Proof.
  constructor; cbn [xid_start xid_continue is_alnum is_lower is_upper to_upper to_lower ascii_classes].
  - intros c H. rewrite H. reflexivity.
  - intros c Hx Ha. split; intros d Hd.
    + destruct (a_upper c) eqn:Eu.
      * destruct Hd as [Hd|[]]. subst d.
        assert (a_lower (c + 32) = true) as ->; [|reflexivity].
        unfold a_upper, a_lower in *. apply andb_true_iff in Eu. destruct Eu as [E1 E2].
        apply N.leb_le in E1. apply N.leb_le in E2. apply andb_true_iff. split; apply N.leb_le; lia.
      * destruct Hd as [Hd|[]]. subst d. rewrite Eu. exact Hx.
    + destruct (a_lower c) eqn:El.
      * destruct Hd as [Hd|[]]. subst d.
        assert (a_upper (c - 32) = true) as ->; [|rewrite orb_true_r; reflexivity].
        unfold a_upper, a_lower in *. apply andb_true_iff in El. destruct El as [E1 E2].
        apply N.leb_le in E1. apply N.leb_le in E2. apply andb_true_iff. split; apply N.leb_le; lia.
      * destruct Hd as [Hd|[]]. subst d. rewrite El. exact Hx.
  - intros c H. exact H.
  - intros c H. rewrite H. reflexivity.
  - vm_compute. reflexivity.
  - vm_compute. reflexivity.
  - vm_compute. reflexivity.
  - vm_compute. reflexivity.
  - vm_compute. reflexivity.
Qed.

(* ------------------------------------------------------------------ *)
(* Witnesses: distinctness of field names / item names is refuted       *)
(* (findings C08-F1, C08-F2, C08-F3; replayed on the real code by the   *)
(* check: corpus/C08/F1-*.json, F2-*.json, F3-*.json)                   *)
(* ------------------------------------------------------------------ *)
Definition w_f1 : list ustring := [ustr "foo-bar"; ustr "foo_bar"].
Definition w_f2 : list ustring := [ustr "foo"; ustr "Foo"].
Definition w_f3 : list ustring := [ustr "extra"].

Lemma NoDup_by_unique : forall l, unique l = true -> NoDup l.
Proof. intros l H. apply unique_NoDup. exact H. Qed.

Lemma dup_by_unique : forall l, unique l = false -> ~ NoDup l.
Proof. intros l H Hn. apply unique_NoDup in Hn. congruence. Qed.

(* the former witnesses of C08-F1 / C08-F3 are rejected (regression cases) *)
Theorem fields_witnesses_rejected :
  NoDup w_f1 /\ Fields_collide ascii_classes w_f1 /\
  struct_members ascii_classes w_f1 false = Err /\
  NoDup w_f3 /\ Field_collides_extra ascii_classes w_f3 true /\
  struct_members ascii_classes w_f3 true = Err /\
  struct_members ascii_classes w_f3 false = Ok ([(ustr "extra", None)], []).
Proof.
  split; [apply NoDup_by_unique; vm_compute; reflexivity|]. split.
  { exists (ustr "foo-bar"), (ustr "foo_bar"). split; [left; reflexivity|].
    split; [right; left; reflexivity|]. split; [intro E; vm_compute in E; discriminate|].
    vm_compute. reflexivity. }
  split; [vm_compute; reflexivity|].
  split; [apply NoDup_by_unique; vm_compute; reflexivity|]. split.
  { split; [reflexivity|]. exists (ustr "extra"). split; [left; reflexivity|]. vm_compute. reflexivity. }
  split; vm_compute; reflexivity.
Qed.

(* the former witness of C08-F2 is rejected (regression case) *)
Theorem defs_witness_rejected :
  NoDup w_f2 /\ Defs_collide ascii_classes w_f2 /\ add_definitions ascii_classes w_f2 = Err /\
  add_definitions ascii_classes [ustr "foo"; ustr "bar"] = Ok [ustr "Foo"; ustr "Bar"].
Proof.
  split; [apply NoDup_by_unique; vm_compute; reflexivity|]. split.
  - exists (ustr "foo"), (ustr "Foo"). split; [left; reflexivity|].
    split; [right; left; reflexivity|]. split; [intro E; vm_compute in E; discriminate|].
    vm_compute. reflexivity.
  - split; vm_compute; reflexivity.
Qed.

(* regression cases of c22ef06 with the root: title "my type" vs key "my-type";
   key vs patch-renamed name *)
Theorem batch_witnesses :
  add_batch ascii_classes [] [ustr "my-type"] (Some (ustr "my type")) = Err /\
  add_batch ascii_classes [] [ustr "T"] (Some (ustr "T")) = Err /\
  add_batch ascii_classes [] [ustr "my-type"] (Some (ustr "my other type")) = Ok [ustr "MyType"; ustr "MyOtherType"] /\
  add_batch ascii_classes [(ustr "Foo", ustr "Bar")] [ustr "foo"; ustr "Bar"] None = Err /\
  add_batch ascii_classes [(ustr "Foo", ustr "Baz")] [ustr "foo"; ustr "Bar"] None = Ok [ustr "Baz"; ustr "Bar"].
Proof. repeat split; vm_compute; reflexivity. Qed.

(* regression cases of 40183ea (former finding C08-F5) *)
Theorem batch_full_witnesses :
  add_batch_full ascii_classes [] [(ustr "Foo", [ustr "bar"])] (Some (ustr "foo bar", [])) = Err /\
  add_batch_full ascii_classes [] [(ustr "Foo", [ustr "bar"]); (ustr "FooBar", [])] None = Err /\
  add_batch_full ascii_classes [] [(ustr "Foo", [ustr "bar"])] (Some (ustr "foo bar q", []))
    = Ok [ustr "FooBar"; ustr "Foo"; ustr "FooBarQ"] /\
  add_batch_full ascii_classes [] [(ustr "ZooBar", []); (ustr "zoo", [ustr "bar"])] None
    = Ok [ustr "ZooBar"; ustr "Zoo"].
Proof. repeat split; vm_compute; reflexivity. Qed.

(* variants: the X fallback and the panic are both reachable *)
Example variants_fallback_example :
  variant_idents ascii_classes [ustr "a"; ustr "a_"] = Ok [ustr "A"; ustr "AX"].
Proof. vm_compute. reflexivity. Qed.

Example variants_panic_example :
  variant_idents ascii_classes [ustr "a"; ustr "A"] = Panic.
Proof. vm_compute. reflexivity. Qed.
