(* Proofs/HasImplProofs.v — lemmas about Algo/HasImpl.v (property C17). *)
From Coq Require Import String Ascii ZArith NArith List Bool Lia.
From Typify Require Import Base.Json IR.TypeIR Algo.HasImpl.
Import ListNotations.
Open Scope N_scope.

(* ------------------------------------------------------------ generalities *)

Lemma lookup_id_In : forall {A} (i : id) (l : list (id * A)) (x : A),
  lookup_id i l = Some x -> exists j, N.eqb i j = true /\ In (j, x) l.
Proof.
  intros A i l. induction l as [|[j y] r IH]; intros x H; simpl in H.
  - discriminate.
  - destruct (N.eqb i j) eqn:E.
    + inversion H; subst. exists j. split; [exact E | left; reflexivity].
    + destruct (IH x H) as [k [Hk Hin]]. exists k. split; [exact Hk | right; exact Hin].
Qed.

Lemma get_det_In : forall T i d,
  get_det T i = Some d -> exists j e, In (j, e) (sp_entries T) /\ e_det e = d.
Proof.
  intros T i d H. unfold get_det, get in H.
  destruct (lookup_id i (sp_entries T)) as [e|] eqn:L; simpl in H; [|discriminate].
  inversion H; subst. destruct (lookup_id_In _ _ _ L) as [j [_ Hin]].
  exists j, e. split; [exact Hin | reflexivity].
Qed.

Lemma ustr_eqb_refl : forall s, ustr_eqb s s = true.
Proof.
  induction s as [|a r IH]; simpl; [reflexivity|].
  rewrite N.eqb_refl. simpl. exact IH.
Qed.

Lemma mem_ustr_In : forall n l, In n l -> mem_ustr n l = true.
Proof.
  intros n l H. unfold mem_ustr. apply existsb_exists. exists n. split; [exact H | apply ustr_eqb_refl].
Qed.

Lemma existsb_false_In : forall {A} (f : A -> bool) l x, existsb f l = false -> In x l -> f x = false.
Proof.
  intros A f l x H Hin. destruct (f x) eqn:E; [|reflexivity].
  assert (existsb f l = true) by (apply existsb_exists; exists x; split; assumption). congruence.
Qed.

(* ------------------------------------------------------------------ all_res *)

Lemma all_res_true : forall g l, all_res g l = HBool true -> forall j, In j l -> g j = HBool true.
Proof.
  intros g l. induction l as [|a r IH]; intros H j Hin; simpl in *.
  - contradiction.
  - destruct (g a) as [[|]| |] eqn:E; try discriminate.
    destruct Hin as [<-|Hin]; [exact E | apply IH; assumption].
Qed.

Lemma all_res_mono : forall (g g' : id -> hres) l b,
  (forall j b', g j = HBool b' -> g' j = HBool b') ->
  all_res g l = HBool b -> all_res g' l = HBool b.
Proof.
  intros g g' l b Hm. induction l as [|a r IH]; intros H; simpl in *.
  - exact H.
  - destruct (g a) as [[|]| |] eqn:E; try discriminate.
    + rewrite (Hm a true E). apply IH. exact H.
    + rewrite (Hm a false E). exact H.
Qed.

Lemma all_res_no_diverge : forall (g : id -> hres) l,
  (forall j, In j l -> g j <> HDiverge) -> all_res g l <> HDiverge.
Proof.
  intros g l. induction l as [|a r IH]; intros Hn; simpl.
  - discriminate.
  - destruct (g a) as [[|]| |] eqn:E.
    + apply IH. intros j Hj. apply Hn. right. exact Hj.
    + discriminate.
    + exfalso. apply (Hn a); [left; reflexivity | exact E].
    + discriminate.
Qed.

(* -------------------------------------------------------- fuel monotonicity *)

Lemma step_mono : forall c T (r1 r2 : details -> trait -> hres) d t b,
  (forall d' t' b', r1 d' t' = HBool b' -> r2 d' t' = HBool b') ->
  has_impl_step c T r1 d t = HBool b -> has_impl_step c T r2 d t = HBool b.
Proof.
  intros c T r1 r2 d t b Hm H.
  assert (Hsub : forall j t' b', match get_det T j with None => HPanic | Some dj => r1 dj t' end = HBool b' ->
                          match get_det T j with None => HPanic | Some dj => r2 dj t' end = HBool b').
  { intros j t' b' H'. destruct (get_det T j); [apply Hm; exact H' | exact H']. }
  destruct d; unfold has_impl_step in *; try exact H.
  - (* newtype *) destruct t; try exact H; destruct c0; try exact H; apply Hsub; exact H.
  - (* box *) destruct (trait_eqb t TDefault); [apply Hsub; exact H | exact H].
  - (* array *) destruct ((n <=? 32) && trait_eqb t TDefault); [apply Hsub; exact H | exact H].
  - (* tuple *) destruct (trait_eqb t TDefault && (N.of_nat (length ts) <=? 12)); [|exact H].
    eapply all_res_mono; [|exact H]. intros j b'. apply Hsub.
Qed.

Lemma has_impl_d_S : forall c T f d t b,
  has_impl_d c T f d t = HBool b -> has_impl_d c T (S f) d t = HBool b.
Proof.
  intros c T f. induction f as [|f IH]; intros d t b H.
  - discriminate.
  - change (has_impl_step c T (has_impl_d c T (S f)) d t = HBool b).
    change (has_impl_step c T (has_impl_d c T f) d t = HBool b) in H.
    eapply step_mono; [|exact H]. intros d' t' b'. apply IH.
Qed.

Lemma has_impl_d_le : forall c T f f' d t b,
  (f <= f')%nat -> has_impl_d c T f d t = HBool b -> has_impl_d c T f' d t = HBool b.
Proof.
  intros c T f f' d t b Hle H. induction Hle; [exact H | apply has_impl_d_S; exact IHHle].
Qed.

Lemma has_impl_fuel_stable : forall c T f f' i t,
  (f <= f')%nat -> has_impl c T f i t = true -> has_impl c T f' i t = true.
Proof.
  intros c T f f' i t Hle. unfold has_impl, has_impl_api_r.
  destruct (fix_display_facade c && known_display_constrained T i t); [intros H; exact H|].
  unfold has_impl_r.
  destruct (get_det T i) as [d|]; [|discriminate].
  destruct (has_impl_d c T f d t) as [b| |] eqn:E; try discriminate.
  intros Hb. subst b. rewrite (has_impl_d_le _ _ _ _ _ _ _ Hle E). reflexivity.
Qed.

(* ---------------------------------------------------------- termination *)

Definition proxy_children (d : details) : list id :=
  match d with
  | DNewtype _ _ inner CNone => [inner]
  | DBox j => [j]
  | DTuple ids => ids
  | DArray j _ => [j]
  | _ => []
  end.

Lemma has_impl_terminates_aux : forall c T (rank : id -> nat),
  (forall i d j, get_det T i = Some d -> In j (proxy_children d) -> (rank j < rank i)%nat) ->
  forall n i d t, (rank i < n)%nat -> get_det T i = Some d -> has_impl_d c T n d t <> HDiverge.
Proof.
  intros c T rank Hr n. induction n as [|n IH]; intros i d t Hlt G.
  - lia.
  - change (has_impl_step c T (has_impl_d c T n) d t <> HDiverge).
    assert (Hsub : forall j t', In j (proxy_children d) ->
               match get_det T j with None => HPanic | Some dj => has_impl_d c T n dj t' end <> HDiverge).
    { intros j t' Hin. destruct (get_det T j) as [dj|] eqn:Gj; [|discriminate].
      apply (IH j dj t'); [|exact Gj]. specialize (Hr i d j G Hin). lia. }
    destruct d; unfold has_impl_step; try discriminate.
    + destruct t; discriminate.
    + destruct t; discriminate.
    + destruct t; try discriminate; destruct c0; try discriminate; apply Hsub; simpl; left; reflexivity.
    + destruct (trait_eqb t TDefault); [apply Hsub; simpl; left; reflexivity | discriminate].
    + destruct ((n0 <=? 32) && trait_eqb t TDefault); [apply Hsub; simpl; left; reflexivity | discriminate].
    + destruct (trait_eqb t TDefault && (N.of_nat (length ts) <=? 12)); [|discriminate].
      apply all_res_no_diverge. intros j Hj. apply Hsub. exact Hj.
    + destruct (fix_nonzero_default c && trait_eqb t TDefault && is_nonzero name); discriminate.
Qed.

Lemma has_impl_terminates : forall c T (rank : id -> nat),
  (forall i d j, get_det T i = Some d -> In j (proxy_children d) -> (rank j < rank i)%nat) ->
  forall i t, has_impl_r c T (S (rank i)) i t <> HDiverge.
Proof.
  intros c T rank Hr i t. unfold has_impl_r. destruct (get_det T i) as [d|] eqn:G; [|discriminate].
  apply (has_impl_terminates_aux c T rank Hr (S (rank i)) i d t); [lia | exact G].
Qed.

Definition loop_space : space :=
  mkSpace [(1, mkEntry (DNewtype [65] None 1 CNone) [])] 2 (mkSettings None [] false []) false false false false [].

Lemma has_impl_can_diverge : forall c f, has_impl_r c loop_space f 1 TDisplay = HDiverge.
Proof.
  intros c f. induction f as [|f IH]; [reflexivity|]. exact IH.
Qed.

(* ------------------------------------------------------------- soundness *)

Lemma newtype_inner_ok_get : forall T i n df inner cs,
  newtype_inner_ok T = true -> get_det T i = Some (DNewtype n df inner cs) ->
  exists di, get_det T inner = Some di.
Proof.
  intros T i n df inner cs W G. destruct (get_det_In _ _ _ G) as [j [e [Hin He]]].
  unfold newtype_inner_ok in W. rewrite forallb_forall in W. specialize (W _ Hin). simpl in W.
  rewrite He in W. destruct (get_det T inner) as [di|]; [exists di; reflexivity | discriminate].
Qed.

Lemma named_sound : forall c T f i d t,
  newtype_inner_ok T = true -> get_det T i = Some d -> is_named d = true ->
  has_impl_d c T (S f) d t = HBool true ->
  (fix_display_constrained c = false -> known_display_constrained T i t = false) ->
  emitted_r c T f d t = HBool true.
Proof.
  intros c T f i d t W G Hn H Hex.
  change (has_impl_step c T (has_impl_d c T f) d t = HBool true) in H.
  destruct d; try discriminate Hn; unfold has_impl_step in H; unfold emitted_r.
  - destruct t; exact H.
  - destruct t; try discriminate H. inversion H as [H1]. rewrite H1. reflexivity.
  - destruct (newtype_inner_ok_get _ _ _ _ _ _ W G) as [di Gi]. rewrite Gi in *.
    destruct t.
    + (* FromStr *) destruct c0; try discriminate H; try reflexivity.
      destruct di; try exact H; reflexivity.
    + (* Display *) destruct c0; try discriminate H; try exact H.
      destruct (fix_display_constrained c) eqn:F; [reflexivity|].
      specialize (Hex eq_refl). unfold known_display_constrained in Hex. rewrite G in Hex. discriminate.
    + exact H.
Qed.

(* the boolean of TypeEntry::has_impl (no facade) *)
Definition has_impl_int (c : cfg) (T : space) (fuel : nat) (i : id) (t : trait) : bool :=
  match has_impl_r c T fuel i t with HBool b => b | _ => false end.

Lemma has_impl_int_sound : forall c T f i t,
  newtype_inner_ok T = true ->
  has_impl_int c T f i t = true ->
  (fix_display_constrained c = false -> known_display_constrained T i t = false) ->
  (fix_nonzero_default c = false -> known_nonzero_default T f i t = false) ->
  implements c T f i t = true.
Proof.
  intros c T f. induction f as [|f IH]; intros i t W H Hd Hz.
  - unfold has_impl_int, has_impl_r in H. destruct (get_det T i); discriminate.
  - unfold has_impl_int, has_impl_r in H. destruct (get_det T i) as [d|] eqn:G; [|discriminate].
    destruct (has_impl_d c T (S f) d t) as [b| |] eqn:E; try discriminate. subst b.
    simpl implements. rewrite G.
    destruct (is_named d) eqn:Hn.
    + rewrite (named_sound c T f i d t W G Hn E Hd). reflexivity.
    + change (has_impl_step c T (has_impl_d c T f) d t = HBool true) in E.
      assert (Hrec : forall j t', match get_det T j with None => HPanic | Some dj => has_impl_d c T f dj t' end = HBool true ->
                 has_impl_int c T f j t' = true).
      { intros j t' H'. unfold has_impl_int, has_impl_r. rewrite H'. reflexivity. }
      assert (Hdt : forall j, fix_display_constrained c = false -> known_display_constrained T j TDefault = false).
      { intros j _. reflexivity. }
      destruct d; try discriminate Hn; unfold has_impl_step in E; unfold std_impl.
      * (* native *) inversion E. reflexivity.
      * (* option *) inversion E. reflexivity.
      * (* box *) destruct t; try discriminate E. simpl in E.
        apply IH; [exact W | apply Hrec; exact E | apply Hdt |].
        intros F. specialize (Hz F). simpl in Hz. rewrite G in Hz. exact Hz.
      * (* vec *) inversion E. reflexivity.
      * (* map *) inversion E. reflexivity.
      * (* set *) inversion E. reflexivity.
      * (* array *) destruct t; try (rewrite andb_false_r in E; discriminate E).
        destruct (n <=? 32) eqn:L; try discriminate E. simpl in E. simpl.
        destruct (n =? 0) eqn:Z; [reflexivity|]. simpl.
        apply IH; [exact W | apply Hrec; exact E | apply Hdt |].
        intros F. specialize (Hz F). simpl in Hz. rewrite G in Hz. rewrite Z in Hz. exact Hz.
      * (* tuple *) destruct t; try discriminate E. simpl in E.
        destruct (N.of_nat (length ts) <=? 12) eqn:L; try discriminate E. simpl.
        apply forallb_forall. intros j Hj.
        apply IH; [exact W | apply Hrec; exact (all_res_true _ _ E j Hj) | apply Hdt |].
        intros F. specialize (Hz F). simpl in Hz. rewrite G in Hz.
        exact (existsb_false_In _ _ _ Hz Hj).
      * (* unit *) inversion E. reflexivity.
      * (* boolean *) reflexivity.
      * (* integer *) destruct t; try reflexivity.
        destruct (fix_nonzero_default c) eqn:F.
        -- simpl in E. destruct (is_nonzero name); [discriminate E | reflexivity].
        -- specialize (Hz eq_refl). simpl in Hz. rewrite G in Hz. rewrite Hz. reflexivity.
      * (* float *) reflexivity.
      * (* string *) reflexivity.
      * (* json value *) discriminate E.
      * (* reference *) discriminate E.
Qed.

Lemma has_impl_sound : forall c T f i t,
  newtype_inner_ok T = true ->
  has_impl c T f i t = true ->
  (fix_display_constrained c = false -> fix_display_facade c = false -> known_display_constrained T i t = false) ->
  (fix_nonzero_default c = false -> known_nonzero_default T f i t = false) ->
  implements c T f i t = true.
Proof.
  intros c T f i t W H Hd Hz. unfold has_impl, has_impl_api_r in H.
  destruct (fix_display_facade c && known_display_constrained T i t) eqn:F; [discriminate H|].
  apply has_impl_int_sound; [exact W | exact H | | exact Hz].
  intros Fd. destruct (fix_display_facade c) eqn:Ff; [exact F | apply Hd; [exact Fd | reflexivity]].
Qed.

Lemma has_impl_sound_repaired : forall T f i t,
  newtype_inner_ok T = true -> has_impl repaired T f i t = true -> implements repaired T f i t = true.
Proof.
  intros T f i t W H. apply has_impl_sound; [exact W | exact H | |]; intros F; discriminate F.
Qed.

Lemma has_impl_sound_repaired_facade : forall T f i t,
  newtype_inner_ok T = true ->
  has_impl repaired_facade T f i t = true -> implements repaired_facade T f i t = true.
Proof.
  intros T f i t W H. apply has_impl_sound; [exact W | exact H | |].
  - intros _ F; discriminate F.
  - intros F; discriminate F.
Qed.

(* outside the Display-on-constrained class the facade repair changes no answer *)
Lemma facade_only_changes_known : forall a b T f i t,
  known_display_constrained T i t = false ->
  has_impl (mkCfg a b true) T f i t = has_impl (mkCfg a b false) T f i t.
Proof.
  intros a b T f i t K. unfold has_impl, has_impl_api_r. simpl. rewrite K. simpl.
  unfold has_impl_r. destruct (get_det T i) as [d|]; [|reflexivity].
  assert (E : forall f d t, has_impl_d (mkCfg a b true) T f d t = has_impl_d (mkCfg a b false) T f d t).
  { clear. intros f. induction f as [|f IH]; intros d t; [reflexivity|].
    simpl. unfold has_impl_step. simpl.
    assert (Hs : forall j t', match get_det T j with None => HPanic | Some dj => has_impl_d (mkCfg a b true) T f dj t' end
                       = match get_det T j with None => HPanic | Some dj => has_impl_d (mkCfg a b false) T f dj t' end).
    { intros j t'. destruct (get_det T j); [apply IH | reflexivity]. }
    destruct d; try reflexivity.
    - destruct t; try reflexivity; destruct c; try reflexivity; apply Hs.
    - destruct (trait_eqb t TDefault); [apply Hs | reflexivity].
    - destruct ((n <=? 32) && trait_eqb t TDefault); [apply Hs | reflexivity].
    - destruct (trait_eqb t TDefault && (N.of_nat (length ts) <=? 12)); [|reflexivity].
      induction ts as [|j r IHr]; simpl; [reflexivity|]. rewrite Hs.
      destruct (match get_det T j with None => HPanic | Some dj => has_impl_d (mkCfg a b false) T f dj TDefault end) as [[|]| |];
        try reflexivity. exact IHr. }
  rewrite E. reflexivity.
Qed.


(* witnesses: the real dumps of corpus/C17/01 and 04 (ids as dumped) *)
Definition wit_display : space :=
  mkSpace [(1, mkEntry (DNewtype [83] None 2 (CString (Some 5) None None)) []);
           (2, mkEntry DString [])] 3 (mkSettings None [] false []) false false false false [].

Definition wit_nonzero : space :=
  mkSpace [(1, mkEntry (DNewtype [84] None 4 CNone) []);
           (2, mkEntry (DInteger (ustr_of_string "::std::num::NonZeroU64")) []);
           (3, mkEntry DString []);
           (4, mkEntry (DTuple [2; 3]) [])] 5 (mkSettings None [] false []) false false false false [].

Lemma refuted_display :
  newtype_inner_ok wit_display = true /\
  known_display_constrained wit_display 1 TDisplay = true /\
  has_impl pinned wit_display 3 1 TDisplay = true /\
  (forall f, implements pinned wit_display f 1 TDisplay = false).
Proof.
  repeat split; try (vm_compute; reflexivity).
  intros f. destruct f as [|f]; [reflexivity|]. reflexivity.
Qed.

Lemma refuted_nonzero :
  newtype_inner_ok wit_nonzero = true /\
  known_nonzero_default wit_nonzero 3 4 TDefault = true /\
  has_impl pinned wit_nonzero 3 4 TDefault = true /\ has_impl pinned wit_nonzero 3 2 TDefault = true /\
  (forall f, implements pinned wit_nonzero f 2 TDefault = false) /\
  (forall f, implements pinned wit_nonzero f 4 TDefault = false).
Proof.
  repeat split; try (vm_compute; reflexivity).
  - intros f. destruct f as [|f]; reflexivity.
  - intros f. destruct f as [|[|f]]; reflexivity.
Qed.

(* --------------------------------------------------- reported vs emitted *)

Lemma props_are_fields : forall ps,
  Forall2 (fun r e => fst (fst r) = fst (fst e) /\ snd r = snd e /\ snd (fst r) = negb (snd (fst e)))
          (reported_props ps) (emitted_fields ps).
Proof.
  induction ps as [|p r IH]; simpl; constructor; [|exact IH].
  simpl. repeat split. unfold prop_has_default, prop_default. destruct (p_state p); reflexivity.
Qed.

Lemma forallb_combine_FId : forall ts,
  forallb (fun p : id * fty => match snd p with FId t => N.eqb (fst p) t | FTuple1 _ => false end)
          (combine ts (map FId ts)) = true.
Proof.
  induction ts as [|a r IH]; simpl; [reflexivity|]. rewrite N.eqb_refl. exact IH.
Qed.

Lemma forallb_combine_props : forall (ps : list prop),
  forallb (fun p : (ustring * id) * (ustring * id) =>
             ustr_eqb (fst (fst p)) (fst (snd p)) && N.eqb (snd (fst p)) (snd (snd p)))
          (combine (map (fun p => (p_name p, p_ty p)) ps) (map (fun p => (p_name p, p_ty p)) ps)) = true.
Proof.
  induction ps as [|a r IH]; simpl; [reflexivity|]. rewrite ustr_eqb_refl, N.eqb_refl. exact IH.
Qed.

Lemma variant_agrees_ok : forall v,
  known_tuple1_variant v = false -> variant_agrees (reported_variant v) (emitted_variant v) = true.
Proof.
  intros [raw ident det] K. unfold known_tuple1_variant in K. simpl in K.
  unfold variant_agrees, reported_variant, emitted_variant. simpl.
  rewrite ustr_eqb_refl. simpl.
  destruct det as [|t|ts|ps].
  - reflexivity.
  - simpl. rewrite N.eqb_refl. reflexivity.
  - destruct ts as [|a [|b r]]; try discriminate K.
    + reflexivity.
    + rewrite map_length, N.eqb_refl. simpl. rewrite !N.eqb_refl. simpl. apply forallb_combine_FId.
  - rewrite N.eqb_refl. simpl. apply forallb_combine_props.
Qed.

Lemma variants_are_variants : forall vs,
  (forall v, In v vs -> known_tuple1_variant v = false) ->
  Forall2 (fun r e => variant_agrees r e = true) (map reported_variant vs) (map emitted_variant vs).
Proof.
  induction vs as [|v r IH]; intros H; simpl; constructor.
  - apply variant_agrees_ok. apply H. left. reflexivity.
  - apply IH. intros v' Hv. apply H. right. exact Hv.
Qed.

Lemma variants_refuted_tuple1 :
  exists v, known_tuple1_variant v = true /\ variant_agrees (reported_variant v) (emitted_variant v) = false.
Proof. exists (mkVariant [97] [65] (VTuple [2])). split; reflexivity. Qed.

Lemma inner_is_field : forall d, reported_inner d = emitted_newtype_field d.
Proof. reflexivity. Qed.

Lemma builder_some_iff_emitted : forall T i, builder_some T i = emitted_builder T i.
Proof.
  intros T i. unfold builder_some, emitted_builder.
  destruct (s_builder (sp_settings T)); simpl; destruct (get_det T i) as [[]|]; reflexivity.
Qed.

(* ------------------------------------------------------------ names resolve *)

Lemma get_det_name_emitted : forall T i d n,
  get_det T i = Some d -> det_name d = Some n -> In n (emitted_item_names T).
Proof.
  intros T i d n G Hn. destruct (get_det_In _ _ _ G) as [j [e [Hin He]]].
  unfold emitted_item_names. apply in_flat_map. exists (j, e). split; [exact Hin|].
  simpl. rewrite He, Hn. left. reflexivity.
Qed.

Lemma concat_opts_In : forall (P : ustring -> Prop) l ns,
  (forall o, In o l -> forall a, o = Some a -> forall n, In n a -> P n) ->
  concat_opts l = Some ns -> forall n, In n ns -> P n.
Proof.
  intros P l. induction l as [|o r IH]; intros ns Hl H n Hn; simpl in H.
  - inversion H; subst. contradiction.
  - destruct o as [a|]; [|discriminate]. destruct (concat_opts r) as [b|] eqn:E; [|discriminate].
    inversion H; subst. apply in_app_or in Hn. destruct Hn as [Hn|Hn].
    + exact (Hl (Some a) (or_introl eq_refl) a eq_refl n Hn).
    + apply (IH b); [|reflexivity|exact Hn]. intros o Ho. apply Hl. right. exact Ho.
Qed.

Lemma ident_names_emitted : forall T f i ns,
  ident_names T f i = Some ns -> forall n, In n ns -> In n (emitted_item_names T).
Proof.
  intros T f. induction f as [|f IH]; intros i ns H n Hn; [discriminate|].
  cbn [ident_names] in H. destruct (get_det T i) as [d|] eqn:G; [|discriminate].
  assert (Hmany : forall l ns', concat_opts (map (ident_names T f) l) = Some ns' ->
                    forall n', In n' ns' -> In n' (emitted_item_names T)).
  { intros l ns' Hc.
    apply (concat_opts_In (fun x => In x (emitted_item_names T)) (map (ident_names T f) l) ns'); [|exact Hc].
    intros o Ho a Ha n' Hn'. apply in_map_iff in Ho. destruct Ho as [j [Hj _]]. subst o.
    eapply IH; eassumption. }
  destruct d;
    try (inversion H; subst; contradiction);
    try discriminate H;
    try (apply (IH _ _ H); exact Hn);
    try (apply (Hmany _ _ H); exact Hn);
    (inversion H; subst; destruct Hn as [<-|[]];
     (eapply get_det_name_emitted; [exact G | reflexivity])).
Qed.

Lemma names_resolve_true : forall T f i, names_resolve T f i = true.
Proof.
  intros T f i. unfold names_resolve. destruct (ident_names T f i) as [ns|] eqn:E; [|reflexivity].
  apply forallb_forall. intros n Hn. apply mem_ustr_In. eapply ident_names_emitted; eassumption.
Qed.

(* --------------------------------------------------------------- uses_* *)

Lemma uses_flags_cover_sound : forall T i d,
  uses_flags_cover T = true -> get_det T i = Some d ->
  match entry_needs d with
  | (c, u, j, r) =>
      (c = true -> sp_uses_chrono T = true) /\ (u = true -> sp_uses_uuid T = true) /\
      (j = true -> sp_uses_serde_json T = true) /\ (r = true -> sp_uses_regress T = true)
  end.
Proof.
  intros T i d H G. destruct (get_det_In _ _ _ G) as [k [e [Hin He]]].
  unfold uses_flags_cover in H. rewrite forallb_forall in H. specialize (H _ Hin). simpl in H.
  rewrite He in H. destruct (entry_needs d) as [[[c u] j] r].
  repeat rewrite andb_true_iff in H. destruct H as [[[Hc Hu] Hj] Hr].
  split; [|split; [|split]]; intros ->; simpl in *; assumption.
Qed.
